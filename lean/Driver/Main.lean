/-
  Line-protocol driver: executes the model on cases written by the Go harness.
  Imports model files only (core-only), so it links as a native executable.
-/
import Rend.Server.Loop
import Rend.Wire.Decode
import Rend.Handlers.Std
import Rend.Handlers.Chunked
import Rend.Handlers.Inmem
import Rend.Handlers.Batched
import Rend.Gen.Asm
import Rend.Metrics.Hist
import Rend.Cluster.Ketama

open Rend Rend.Server

namespace Driver

structure ConnDesc where
  id     : String
  proto  : Proto
  orca   : OrcaKind
  locked : Bool
  bits   : Nat
  l1     : String      -- std | chunked
  dead1  : Bool := false   -- this connection's L1 / L2 backend connection is broken (the client
  dead2  : Bool := false   -- connection itself survived the command during which it broke)
  deriving Inhabited

structure St where
  conns : List ConnDesc := []
  run   : RunSt := { w := {} }
  now   : Nat := 0
  fault : Option Fault := none
  spec  : Store := Store.empty      -- the single map of the specification (oracle)
  hist  : Metrics.HDat := { ring := List.replicate Metrics.ringLen 0 }
  hbak  : List Nat := List.replicate Metrics.ringLen 0
  hsamp : Bool := false
  md5s  : List (Bytes × Bytes) := []
  kring : List (Cluster.Point Bytes) := []

def fnv64 (b : Bytes) : Nat :=
  b.foldl (fun h c => ((h ^^^ c.toNat) * 1099511628211) % 18446744073709551616) 14695981039346656037

/-- canonical rendering of a byte string: hex when short, `#len.hash` when long -/
def hexOfN (limit : Nat) (b : Bytes) : String :=
  if b.length ≤ limit then Bytes.toHex b else s!"#{b.length}.{fnv64 b}"
def hexOf (b : Bytes) : String := hexOfN 48 b
def unhex (s : String) : Bytes := (Bytes.ofHex s).getD []

def opName : Op → String
  | .get => "get" | .getq => "getq" | .gete => "gete" | .geteq => "geteq" | .gat => "gat" | .gatq => "gatq"
  | .set => "set" | .add => "add" | .replace => "replace" | .append => "append" | .prepend => "prepend"
  | .delete => "delete" | .touch => "touch" | .noop => "noop"

def respName : Resp → String
  | .hit f e d => s!"hit:{f}:{e}:{hexOf d}"
  | .ok => "ok"
  | .status c => s!"st:{c}"
  | .silent => "silent"
  | .io => "io"
  | .wfail => "wfail"

def traceLine (t : Tier) (tr : List TraceEntry) : String :=
  let es := tr.filter (·.tier == t)
  " ".intercalate (es.map fun e => s!"{opName e.req.op},{hexOf e.req.key},{e.req.flags},{e.req.exptime},{hexOf e.req.value},{respName e.resp}")

def endName : End → String
  | .closed => "closed" | .eof => "eof" | .crashed => "crashed" | .outOfFuel => "fuel"

def evName : OEv → Option String
  | .acquire s r => some s!"A{s}{if r then "r" else "w"}"
  | .release s r => some s!"R{s}{if r then "r" else "w"}"
  | .resp _ => none

def kv (tok : String) : String × String :=
  match tok.splitOn "=" with
  | [k, v] => (k, v)
  | _ => (tok, "")

def mkConn (toks : List String) : ConnDesc :=
  let kvs := toks.map kv
  let get (k d : String) : String := ((kvs.find? (·.1 == k)).map (·.2)).getD d
  { id := get "id" "c", proto := if get "proto" "bin" == "text" then .text else .bin,
    orca := match get "orca" "l1only" with
      | "l1l2" => .l1l2 | "l1l2batch" => .l1l2batch | _ => .l1only,
    locked := get "locked" "0" == "1", bits := (get "bits" "0").toNat!, l1 := get "l1" "std" }

def confOf (c : ConnDesc) (now : Nat) : Conf :=
  let h1 : Handler OEv := if c.l1 == "chunked" then Chunked.handler .l1 now
    else if c.l1 == "inmem" then Inmem.handler now else Std.handler .l1
  let h2 : Handler OEv := Std.handler .l2
  let base := c.orca.step h1 h2
  { proto := c.proto, orca := if c.locked then Locked.step c.bits base else base }

def soutStr : SOut → String
  | .ok => "ok"
  | .fail => "fail"
  | .gets rs => "gets[" ++ ",".intercalate (rs.map fun (g, r) =>
      match r with
      | some (f, d) => s!"{hexOf g.key}:hit({f},{hexOf d})"
      | none => s!"{hexOf g.key}:miss") ++ "]"
  | .gat (some (f, d)) => s!"gat-hit({f},{hexOf d})"
  | .gat none => "gat-miss"
  | .other => "other"

/-- bytewise lexicographic order (Go's string comparison) -/
def bytesLe : Bytes → Bytes → Bool
  | [], _ => true
  | _ :: _, [] => false
  | a :: as, b :: bs => a < b || (a == b && bytesLe as bs)

def getKeyStr (g : GetKey) : String := s!"{hexOf g.key}/{g.opq}/{if g.quiet then 1 else 0}"

def cmdStr : Cmd → String
  | .store k c =>
    let kn := match k with | .set => "set" | .add => "add" | .replace => "replace" | .append => "append" | .prepend => "prepend"
    s!"{kn}:{hexOf c.key}:{c.flags}:{c.exptime}:{hexOf c.data}:{c.opq}:{if c.quiet then 1 else 0}"
  | .get g => s!"get:{",".intercalate (g.keys.map getKeyStr)}:{g.noopOpaque}:{if g.noopEnd then 1 else 0}"
  | .getE g => s!"gete:{",".intercalate (g.keys.map getKeyStr)}:{g.noopOpaque}:{if g.noopEnd then 1 else 0}"
  | .gat c => s!"gat:{hexOf c.key}:{c.exptime}:{c.opq}"
  | .delete c => s!"delete:{hexOf c.key}:{c.opq}"
  | .touch c => s!"touch:{hexOf c.key}:{c.exptime}:{c.opq}"
  | .noop o => s!"noop:{o}"
  | .quit o q => s!"quit:{o}:{if q then 1 else 0}"
  | .version o => s!"version:{o}"
  | .stat o => s!"stat:{o}"
  | .unknown => "unknown"

def perrStr : Option Wire.PErr → String
  | none => "ok"
  | some .eof => "fatal"
  | some .badMagic => "fatal"
  | some .badBodyLength => "fatal"
  | some (.app e) => if Gen.loopContinueErrors.contains e.name then s!"client-error:{e.name}" else "fatal"

def tierOf (s : String) : Tier := if s == "L2" then .l2 else .l1

def itemStr (o : Option Item) : String :=
  match o with
  | some it => s!"{it.flags},{it.deadline},{hexOf it.data}"
  | none => "-"

def step (st : St) (line : String) : St × List String :=
  match (line.trimAscii.toString.splitOn " ").filter (· != "") with
  | ["case", _] => ({}, [])
  | "conn" :: toks => ({ st with conns := st.conns ++ [mkConn toks] }, [])
  | ["now", n] => ({ st with now := n.toNat! }, [])
  | "tok" :: ts => ({ st with run := { st.run with toks := ts.map unhex } }, [])
  | ["store", tier, key, flags, deadline, value] =>
    let t := tierOf tier
    let s' := (st.run.w.get t).set (unhex key) (some ⟨unhex value, flags.toNat!, deadline.toNat!⟩)
    ({ st with run := { st.run with w := st.run.w.put t s' } }, [])
  | ["evict", tier, key] =>
    let t := tierOf tier
    ({ st with run := { st.run with w := st.run.w.put t ((st.run.w.get t).set (unhex key) none) } }, [])
  | ["fault", tier, idx, kind] =>
    let fk : FaultKind := match kind.splitOn ":" with
      | ["status", c] => .status c.toNat!
      | ["cut-after"] => .cutAfter
      | _ => .cutBefore
    ({ st with fault := some { tier := tierOf tier, idx := idx.toNat!, kind := fk } }, [])
  | ["nofault"] => ({ st with fault := none }, [])
  | ["feed", cid, bytes] =>
    match st.conns.find? (·.id == cid) with
    | none => (st, ["bad-conn"])
    | some c =>
      let inp := unhex bytes
      -- per feed: fresh request counters, fresh trace, connections alive again
      let rs0 : RunSt := { st.run with n1 := 0, n2 := 0, dead1 := c.dead1, dead2 := c.dead2, trace := [] }
      let (out, rs1) := Server.run (confOf c st.now) st.now st.fault inp rs0
      -- a connection the server closed is replaced by a fresh one (fresh backend connections); one
      -- that stays open keeps its broken backend connections
      let gone := out.ending == .closed || out.ending == .crashed
      let c' := { c with dead1 := !gone && rs1.dead1, dead2 := !gone && rs1.dead2 }
      let st := { st with conns := st.conns.map (fun (x : ConnDesc) => if x.id == cid then c' else x) }
      -- tokens are supplied per feed (the harness cannot tell a metadata rewrite by touch from a set)
      let rs := { rs1 with toks := [] }
      let locks := " ".intercalate (out.events.filterMap evName)
      ({ st with run := rs },
       [s!"out {hexOfN 256 out.bytes} {endName out.ending}",
        s!"trace1 {traceLine .l1 rs.trace}",
        s!"trace2 {traceLine .l2 rs.trace}",
        s!"locks {locks}"])
  | ["oracle", cid, cmdHex, outHex] =>
    match st.conns.find? (·.id == cid) with
    | none => (st, ["bad-conn"])
    | some c =>
      let pr := Server.parse c.proto (unhex cmdHex)
      match pr.cmd with
      | none => (st, ["oracle skip unparsed"])
      | some (.getE _) =>
        -- get-with-expiry is served by the L1-only orchestrator alone; the two-tier orchestrators
        -- refuse it by design (outside the specification's commands there)
        if c.orca != .l1only then (st, ["oracle skip gete-on-two-tier"]) else
        -- … and the chunking handler panics on it, deliberately ("GetE not supported in Rend chunked mode")
        if c.l1 == "chunked" then (st, ["oracle skip gete-on-chunked"]) else
        let cmd := (pr.cmd.getD .unknown)
        let (spec', exp) := Spec.step st.now st.spec cmd
        let st' := { st with spec := spec' }
        let out := unhex outHex
        let verdict : String :=
          match Wire.decodeBin out with
          | none => "MISMATCH undecodable-reply"
          | some fs => if Wire.binMatches cmd exp fs then "ok" else s!"MISMATCH expected {soutStr exp}"
        (st', [("oracle " ++ verdict).replace "\n" " "])
      | some cmd =>
        let (spec', exp) := Spec.step st.now st.spec cmd
        let st' := { st with spec := spec' }
        let out := unhex outHex
        let verdict : String :=
          match c.proto with
          | .bin =>
            match Wire.decodeBin out with
            | none => "MISMATCH undecodable-reply"
            | some fs => if Wire.binMatches cmd exp fs then "ok" else s!"MISMATCH expected {soutStr exp}"
          | .text =>
            match Wire.decodeText out with
            | none => "MISMATCH undecodable-reply"
            | some its => if Wire.textMatches cmd exp its then "ok" else s!"MISMATCH expected {soutStr exp}"
        (st', [("oracle " ++ verdict).replace "\n" " "])
  | ["fn", "chunkSize", k] =>
    let (d, f) := Chunked.sizes k.toNat!
    (st, [s!"{d} {f}"])
  | ["fn", "chunkKey", key, i] => (st, [Bytes.toHex (Chunked.chunkKey (unhex key) i.toNat!)])
  | ["fn", "metaKey", key] => (st, [Bytes.toHex (Chunked.metaKey (unhex key))])
  | ["fn", "sliceIdx", cs, i, len] =>
    let (a, b) := Gen.chunkSliceIndices (cs.toNat! : Int) (i.toNat! : Int) (len.toNat! : Int)
    (st, [s!"{a} {b}"])
  | ["fn", "exptime", now, ttl] =>
    let (e, x) := Gen.exptime (now.toNat! : Int) (BitVec.ofNat 32 ttl.toNat!)
    (st, [s!"{e.toNat} {x}"])
  | ["fn", "numChunks", len, ds] =>
    (st, [s!"{Gen.numChunksExpr (len.toNat! : Int) (BitVec.ofNat 32 ds.toNat!)}"])
  | ["fn", "bucket", n] => (st, [s!"{(Gen.getBucket (BitVec.ofNat 64 n.toNat!)).toNat}"])
  | ["fn", "lzcnt", n] =>
    (st, [s!"{(Gen.lzcntPortable (BitVec.ofNat 64 n.toNat!)).toNat} {(lzcntModel (BitVec.ofNat 64 n.toNat!)).toNat}"])
  | ["fn", "lzcntasm", n, undef] =>
    (st, [match Metrics.runFn Gen.lzcntAsm (BitVec.ofNat 64 undef.toNat!) (BitVec.ofNat 64 n.toNat!) with
          | some v => s!"{v.toNat}"
          | none => "stuck"])
  | ["fn", "stripe", bits, key] => (st, [s!"{stripeOf bits.toNat! (unhex key)}"])
  | ["histnew", sampled] =>
    ({ st with hist := { ring := List.replicate Metrics.ringLen 0 }, hbak := List.replicate Metrics.ringLen 0,
               hsamp := sampled == "1" }, [])
  | ["histobs", vs] =>
    let obs := (vs.splitOn ",").filterMap String.toNat?
    ({ st with hist := Metrics.observeAll st.hsamp st.hist obs }, [])
  | ["histextract"] =>
    -- extractHist: report the period, continue with the backup ring, keep the reported ring as backup
    let h := st.hist
    let sorted := (Metrics.usedSlice h).mergeSort (fun a b => decide (a ≤ b))
    let ps := if h.count == 0 then List.replicate 23 0 else Metrics.percentiles h sorted
    ({ st with hist := { ring := st.hbak }, hbak := h.ring },
     [s!"{h.count} {h.kept} {h.min} {h.max} " ++ ",".intercalate (ps.map toString)])
  | ["md5", inp, dig] => ({ st with md5s := (unhex inp, unhex dig) :: st.md5s }, [])
  | "ring" :: limit :: labels =>
    let md5 : Bytes → Bytes := fun b => ((st.md5s.find? (·.1 == b)).map (·.2)).getD (Bytes.zeros 16)
    let n := labels.length
    let lim := if limit == "auto" then Cluster.limitOf n else limit.toNat!
    let r := Cluster.ring md5 id bytesLe lim (labels.map unhex)
    ({ st with kring := r }, [s!"{lim} " ++ " ".intercalate (r.map fun p => s!"{p.1}:{Bytes.toHex p.2}")])
  | ["bucketAt", loc] =>
    (st, [match Cluster.bucketAt st.kring loc.toNat! with
          | some l => Bytes.toHex l
          | none => "nil"])
  | ["hashkey", key] =>
    let md5 : Bytes → Bytes := fun b => ((st.md5s.find? (·.1 == b)).map (·.2)).getD (Bytes.zeros 16)
    (st, [match Cluster.hashKey md5 st.kring (unhex key) with
          | some l => Bytes.toHex l
          | none => "nil"])
  | ["limit", n] => (st, [s!"{Cluster.limitOf n.toNat!}"])
  | ["parse", proto, bytes] =>
    let inp := unhex bytes
    let pr := Server.parse (if proto == "text" then .text else .bin) inp
    let c := match pr.cmd with
      | some c => cmdStr c
      | none => "nil"
    -- what remains is only meaningful when the connection survives
    let restLen := if perrStr pr.err == "fatal" then 0 else pr.rest.length
    (st, [s!"{perrStr pr.err} {c} rest={restLen} alloc={pr.alloc}"])
  | "batch" :: base :: reqs =>
    let parseKey (t : String) : Batched.BKey :=
      match t.splitOn "/" with
      | [k, o, q] => { key := unhex k, opq := o.toNat!, quiet := q == "1" }
      | _ => default
    let parseReq (t : String) : Batched.BReq :=
      match t.splitOn ";" with
      | [kind, ch, fl, ex, dat, ks] =>
        let kd : Batched.BKind := match kind with
          | "set" => .set | "add" => .add | "replace" => .replace | "append" => .append | "prepend" => .prepend
          | "delete" => .delete | "touch" => .touch | "gat" => .gat | "get" => .get | _ => .getE
        { kind := kd, keys := if ks == "" then [] else (ks.splitOn ",").map parseKey, flags := fl.toNat!, exptime := ex.toNat!,
          data := unhex dat, chan := ch.toNat! }
      | _ => default
    let (wire, table, counts) := Batched.assign base.toNat! (reqs.map parseReq)
    let tbl := table.map fun h => s!"{h.wire}:{hexOfN 100000 h.key}:{h.opq}:{if h.quiet then 1 else 0}:{h.chan}"
    (st, [s!"wire {hexOfN 256 wire}", "table " ++ " ".intercalate tbl,
          "expected " ++ " ".intercalate (counts.map fun c => s!"{c.1}:{c.2}")])
  | "dump" :: "S" :: keys =>
    -- the specification's single map (as advanced by the `oracle` commands)
    (st, ["dump S " ++ " ".intercalate (keys.map fun k => s!"{k}={itemStr (st.spec.look st.now (unhex k))}")])
  | "dump" :: tier :: keys =>
    let t := tierOf tier
    let s := st.run.w.get t
    (st, [s!"dump {tier} " ++ " ".intercalate (keys.map fun k => s!"{k}={itemStr (s.look st.now (unhex k))}")])
  | _ => (st, ["bad-op"])

partial def loop (h : IO.FS.Stream) (out : IO.FS.Stream) (st : St) : IO Unit := do
  let line ← h.getLine
  if line.isEmpty then return ()
  let (st', outs) := step st line
  for o in outs do
    out.putStrLn o
  out.flush
  loop h out st'

end Driver

def main : IO Unit := do
  let stdin ← IO.getStdin
  let stdout ← IO.getStdout
  Driver.loop stdin stdout {}

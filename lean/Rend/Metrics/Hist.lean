/-
  metrics/counters.go and metrics/histograms.go: counters, one reporting period of a latency
  histogram, and its percentile summary.  Core-only.
-/
import Rend.Gen.Consts

namespace Rend.Metrics

/-- A counter is a 64-bit word updated with atomic adds. -/
def counterAdd (c : BitVec 64) (amount : BitVec 64) : BitVec 64 := c + amount

def counterAfter (incs : List (BitVec 64)) : BitVec 64 := incs.foldl counterAdd 0#64

/-- `hdat` of one reporting period. `ring` has `buflen + 1` slots and may hold stale values
    from an earlier period (the buffers are swapped, never cleared). -/
structure HDat where
  count : Nat := 0
  kept  : Nat := 0
  total : Nat := 0
  min   : Nat := 18446744073709551615      -- math.MaxUint64
  max   : Nat := 0
  ring  : List Nat
  deriving Repr

def ringLen : Nat := Gen.metrics_buflen + 1

/-- `ObserveHist` (one observer; concurrent observers interleave at the atomic operations, which
    commute for count/total/min/max and write distinct ring slots until the ring wraps). -/
def observe (sampled : Bool) (h : HDat) (v : Nat) : HDat :=
  let h1 := { h with total := h.total + v, max := if v < h.max then h.max else v,
                     min := if v > h.min then h.min else v, count := h.count + 1 }
  if sampled && (h1.count % 4 != 0) then h1
  else
    -- idx := (atomic.AddUint64(&kept, 1) - 1) & buflen
    let idx := h1.kept % ringLen
    { h1 with kept := h1.kept + 1, ring := h1.ring.set idx v }

def observeAll (sampled : Bool) (h : HDat) (vs : List Nat) : HDat := vs.foldl (observe sampled) h

/-- The slice of the ring that `hdatPercentiles` sorts. -/
def usedSlice (h : HDat) : List Nat := if h.kept < h.ring.length then h.ring.take h.kept else h.ring

/-- `hdatPercentiles` given the sorted slice (sorting is modelled as *some* permutation that is
    sorted; theorems quantify over every such list). -/
def percentileIdx (len i : Nat) : Nat :=
  if i = 21 then len * 99 / 100
  else if i = 22 then len * 999 / 1000      -- int(math.Floor(float64(len) * 99.9 / 100.0)), exact for len < 2^40
  else len * i / 20

def percentiles (h : HDat) (sorted : List Nat) : List Nat :=
  if h.kept = 0 then List.replicate 23 0
  else
    (List.range 23).map fun i =>
      if i = 0 then h.min
      else if i = 20 then h.max
      else sorted.getD (percentileIdx sorted.length i) 0

end Rend.Metrics

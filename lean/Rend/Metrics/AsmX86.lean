/-
  A six-instruction fragment of amd64 (Go assembler syntax: source first, destination last),
  enough to give meaning to metrics/lzcnt_amd64.s.  Core-only.

  BSRQ src, dst : if src = 0 then ZF := 1 and dst is UNDEFINED (modelled by an arbitrary
                  value supplied by the caller: theorems quantify over it)
                  else ZF := 0 and dst := index of the most significant set bit of src.
  SUBQ/ADDQ     : 64-bit wrap-around arithmetic, ZF := result = 0.
  NEGQ          : two's complement negation, ZF := result = 0.
  MOVQ          : move, flags untouched.
  JZ label      : jump if ZF.
  RET           : stop.
-/
namespace Rend.Metrics

inductive Operand where
  | reg (name : String)
  | imm (v : Nat)
  | arg (name : String)
  | result
  deriving Repr, DecidableEq

inductive Instr where
  | bsrq (src dst : Operand)
  | subq (src dst : Operand)
  | addq (src dst : Operand)
  | movq (src dst : Operand)
  | negq (dst : Operand)
  | jz (label : String)
  | label (name : String)
  | ret
  deriving Repr, DecidableEq

structure Machine where
  regs   : List (String × BitVec 64) := []
  zf     : Bool := false
  result : BitVec 64 := 0#64
  arg    : BitVec 64
  deriving Repr

def Machine.getReg (m : Machine) (r : String) : BitVec 64 :=
  match m.regs.find? (·.1 == r) with
  | some (_, v) => v
  | none => 0#64

def Machine.setReg (m : Machine) (r : String) (v : BitVec 64) : Machine :=
  { m with regs := (r, v) :: m.regs.filter (·.1 != r) }

def Machine.read (m : Machine) : Operand → BitVec 64
  | .reg r => m.getReg r
  | .imm v => BitVec.ofNat 64 v
  | .arg _ => m.arg
  | .result => m.result

def Machine.write (m : Machine) (o : Operand) (v : BitVec 64) : Machine :=
  match o with
  | .reg r => m.setReg r v
  | .result => { m with result := v }
  | _ => m

/-- Index of the first occurrence of `.label l` in the program. -/
def findLabel (prog : List Instr) (l : String) : Option Nat :=
  prog.findIdx? (· == .label l)

/-- Index of the most significant set bit (BSR); meaningful for `x ≠ 0`. -/
def bsr (x : BitVec 64) : BitVec 64 := BitVec.ofNat 64 x.toNat.log2

/-- Run the program from `pc` with `fuel` steps.  `undef` is the value BSRQ leaves in its
    destination when the source is zero. Returns `none` if fuel runs out, a jump target is
    missing, or execution falls off the end. -/
def run (prog : List Instr) (undef : BitVec 64) : Nat → Nat → Machine → Option Machine
  | 0, _, _ => none
  | fuel + 1, pc, m =>
    match prog[pc]? with
    | none => none
    | some i =>
      match i with
      | .ret => some m
      | .label _ => run prog undef fuel (pc + 1) m
      | .jz l =>
        if m.zf then
          match findLabel prog l with
          | some t => run prog undef fuel t m
          | none => none
        else run prog undef fuel (pc + 1) m
      | .movq s d => run prog undef fuel (pc + 1) (m.write d (m.read s))
      | .bsrq s d =>
        let v := m.read s
        if v = 0#64 then run prog undef fuel (pc + 1) { (m.write d undef) with zf := true }
        else run prog undef fuel (pc + 1) { (m.write d (bsr v)) with zf := false }
      | .subq s d =>
        let r := m.read d - m.read s
        run prog undef fuel (pc + 1) { (m.write d r) with zf := decide (r = 0#64) }
      | .addq s d =>
        let r := m.read d + m.read s
        run prog undef fuel (pc + 1) { (m.write d r) with zf := decide (r = 0#64) }
      | .negq d =>
        let r := - m.read d
        run prog undef fuel (pc + 1) { (m.write d r) with zf := decide (r = 0#64) }

/-- The function computed by a routine `func f(x uint64) uint64`. -/
def runFn (prog : List Instr) (undef x : BitVec 64) : Option (BitVec 64) :=
  (run prog undef (prog.length + 1) 0 { arg := x }).map (·.result)

end Rend.Metrics

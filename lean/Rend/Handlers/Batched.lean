/-
  handlers/memcached/batched: the message-level core of the batching connection pool.  Core-only.

  * `assign`     — `conn.batchIntoBuffer`: the requests of a batch get consecutive wire opaques
                   from a random 31-bit base (uint32 arithmetic); a routing table wire opaque ->
                   caller handle; per caller channel the number of replies expected.
  * `deliver`    — the reader's routing of one backend reply by its opaque.
  * `remaining`  — the tracker map of the multi-key get retry.
  Goroutines, channels, timers, sockets and the reconnect back-off are not modelled.
-/
import Rend.Wire.Encode

namespace Rend.Batched
open Rend

inductive BKind where
  | set | add | replace | append | prepend | delete | touch | gat | get | getE
  deriving Repr, DecidableEq, Inhabited

structure BKey where
  key   : Bytes
  opq   : Nat
  quiet : Bool
  deriving Repr, DecidableEq, Inhabited

/-- A submitted request: one key for the single-key kinds, any number for get / getE. -/
structure BReq where
  kind    : BKind
  keys    : List BKey
  flags   : Nat := 0
  exptime : Nat := 0
  data    : Bytes := []
  chan    : Nat                    -- identifies the caller's reply channel
  deriving Repr, Inhabited

/-- One entry of the routing table. -/
structure Handle where
  wire  : Nat
  key   : Bytes
  opq   : Nat
  quiet : Bool
  chan  : Nat
  deriving Repr, DecidableEq, Inhabited

def w32 (n : Nat) : Nat := n % 4294967296

/-- The wire encoding of one single-key request with the given wire opaque. -/
def encodeOne (kind : BKind) (k : Bytes) (flags exptime : Nat) (data : Bytes) (wire : Nat) : Bytes :=
  match kind with
  | .set => Wire.encodeBin (.store .set { key := k, flags := flags, exptime := exptime, data := data, opq := wire })
  | .add => Wire.encodeBin (.store .add { key := k, flags := flags, exptime := exptime, data := data, opq := wire })
  | .replace => Wire.encodeBin (.store .replace { key := k, flags := flags, exptime := exptime, data := data, opq := wire })
  | .append => Wire.encodeBin (.store .append { key := k, data := data, opq := wire })
  | .prepend => Wire.encodeBin (.store .prepend { key := k, data := data, opq := wire })
  | .delete => Wire.encodeBin (.delete { key := k, opq := wire })
  | .touch => Wire.encodeBin (.touch { key := k, exptime := exptime, opq := wire })
  | .gat => Wire.encodeBin (.gat { key := k, exptime := exptime, opq := wire })
  | .get => Wire.reqHeader Gen.binprot_OpcodeGet k.length 0 k.length wire ++ k
  | .getE => Wire.reqHeader Gen.binprot_OpcodeGetE k.length 0 k.length wire ++ k

/-- The keys of a get, one wire request each, opaques `o, o+1, …`. -/
def assignKeys (kind : BKind) (chan : Nat) : Nat → List BKey → Bytes × List Handle
  | _, [] => ([], [])
  | o, k :: rest =>
    let (b, hs) := assignKeys kind chan (w32 (o + 1)) rest
    (encodeOne kind k.key 0 0 [] o ++ b, { wire := o, key := k.key, opq := k.opq, quiet := k.quiet, chan := chan } :: hs)

/-- One request of the batch; `c` is the opaque counter before it. Returns the counter after. -/
def assignReq (c : Nat) (r : BReq) : Nat × Bytes × List Handle × (Nat × Nat) :=
  let o := w32 (c + 1)
  match r.kind with
  | .get | .getE =>
    let (b, hs) := assignKeys r.kind r.chan o r.keys
    (w32 (o + r.keys.length), b, hs, (r.chan, r.keys.length))
  | _ =>
    let k := r.keys.headD default
    (o, encodeOne r.kind k.key r.flags r.exptime r.data o,
     [{ wire := o, key := k.key, opq := k.opq, quiet := k.quiet, chan := r.chan }], (r.chan, 1))

/-- `batchIntoBuffer`: bytes for the backend, routing table, expected reply counts per channel. -/
def assign : Nat → List BReq → Bytes × List Handle × List (Nat × Nat)
  | _, [] => ([], [], [])
  | c, r :: rest =>
    let (c', b, hs, cnt) := assignReq c r
    let (b', hs', cnts) := assign c' rest
    (b ++ b', hs ++ hs', cnt :: cnts)

/-- The reader's state for the batch in flight. -/
structure RSt where
  table  : List Handle
  counts : List (Nat × Nat)      -- channel, replies still expected
  deriving Repr

def decr (ch : Nat) : List (Nat × Nat) → List (Nat × Nat)
  | [] => []
  | (c, n) :: rest => if c = ch then (c, n - 1) :: rest else (c, n) :: decr ch rest

/-- Route one backend reply by its wire opaque: `none` = "batch out of sync" (the reader panics). -/
def deliver (s : RSt) (wire : Nat) : Option (RSt × Handle) :=
  match s.table.find? (fun h => h.wire == wire) with
  | none => none
  | some h => some ({ table := s.table.erase h, counts := decr h.chan s.counts }, h)

/-- Route a sequence of replies; collect who received what. -/
def deliverAll : RSt → List Nat → Option (RSt × List Handle)
  | s, [] => some (s, [])
  | s, w :: ws =>
    match deliver s w with
    | none => none
    | some (s', h) =>
      match deliverAll s' ws with
      | none => none
      | some (s'', hs) => some (s'', h :: hs)

/-- The multi-get retry: what is still to be asked for after some answers arrived. -/
def remaining (requested answered : List BKey) : List BKey := answered.foldl (fun l a => l.erase a) requested

end Rend.Batched

/-
  handlers/memcached/std: the direct (pass-through) handler.  Core-only.
  Transcribed from handler.go / localComm.go (after the fix of the pooled-header reuse).
-/
import Rend.Types

namespace Rend.Std
open Rend

variable {ε : Type}

/-- The request put on the wire for a store-type command: append / prepend carry no extras
    (`writeAppendPrependCmdCommon`). -/
def storeReq (k : SetKind) (c : SetCmd) : Req :=
  { op := k.op, key := c.key, flags := if (k == .append || k == .prepend) then 0 else c.flags,
    exptime := if (k == .append || k == .prepend) then 0 else c.exptime, value := c.data }

/-- `handleSetCommon` after the command header was written: read the response.
    An I/O failure while reading the response header makes `readResponseHeader` return a nil
    header which `handleSetCommon` dereferences: a panic in the connection's goroutine. -/
def store (t : Tier) (k : SetKind) (c : SetCmd) : Prog ε (HRes Unit) := do
  let r ← Prog.req t (storeReq k c)
  match r with
  | .io => pure (.error .panic)
  | .wfail => pure (.error .io)      -- the flush of the request already failed: an ordinary error
  | .status s =>
    match decodeError s with
    | some e => pure (.error (.app e))
    | none => pure (.ok ())
  | _ => pure (.ok ())

/-- `GetLocal`: a value, a decoded error, or an I/O error. -/
def getLocal (r : Resp) : Except HErr (Nat × Nat × Bytes) :=
  match r with
  | .hit f e d => .ok (f, e, d)
  | .status s =>
    match decodeError s with
    | some e => .error (.app e)
    | none => .error .io       -- a non-error status without a value body: the stream is unusable
  | .io => .error .io
  | .wfail => .error .io
  | .ok => .error .io
  | .silent => .error .io

/-- `realHandleGet` / `realHandleGetE`: one request per key, stop at the first error. -/
def getLoop (t : Tier) (op : Op) : List GetKey → Prog ε (List GetResp × Option HErr)
  | [] => pure ([], none)
  | g :: rest => do
    let r ← Prog.req t { op := op, key := g.key }
    match getLocal r with
    | .ok (f, e, d) =>
      let (rs, err) ← getLoop t op rest
      pure ({ key := g.key, data := d, opq := g.opq, flags := f, exptime := e, miss := false, quiet := g.quiet } :: rs, err)
    | .error (.app .keyNotFound) =>
      let (rs, err) ← getLoop t op rest
      pure ({ key := g.key, opq := g.opq, miss := true, quiet := g.quiet } :: rs, err)
    | .error e => pure ([], some e)

def gat (t : Tier) (c : KeyCmd) : Prog ε (HRes GetResp) := do
  let r ← Prog.req t { op := .gat, key := c.key, exptime := c.exptime }
  match getLocal r with
  | .ok (f, _, d) => pure (.ok { key := c.key, data := d, opq := c.opq, flags := f })
  | .error (.app .keyNotFound) => pure (.ok { key := c.key, opq := c.opq, miss := true })
  | .error e => pure (.error e)

/-- `simpleCmdLocal`. -/
def simple (t : Tier) (r : Req) : Prog ε (HRes Unit) := do
  let resp ← Prog.req t r
  match resp with
  | .io => pure (.error .io)
  | .wfail => pure (.error .io)
  | .status s =>
    match decodeError s with
    | some e => pure (.error (.app e))
    | none => pure (.ok ())
  | _ => pure (.ok ())

def handler (t : Tier) : Handler ε where
  store := store t
  get := getLoop t .get
  getE := getLoop t .gete
  gat := gat t
  delete := fun c => simple t { op := .delete, key := c.key }
  touch := fun c => simple t { op := .touch, key := c.key, exptime := c.exptime }

end Rend.Std

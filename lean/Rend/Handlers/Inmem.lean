/-
  handlers/inmem: the in-process debug backend.  Core-only.

  inmem.go is handler and store in one: a Go map under a read/write mutex.  The model splits it
  into the reference map `Mc` (the store: the model asserts that inmem's map, expiry rule and
  liveness test ARE the reference map's — the correspondence check decides that) and the thin
  handler below, which differs from the pass-through handler only in the errors it reports
  (append/prepend on a missing key: ErrKeyNotFound) and in GetE returning the absolute expiry.
  There is no socket, hence no I/O failure.
-/
import Rend.Handlers.Std

namespace Rend.Inmem
open Rend

variable {ε : Type}

def store (k : SetKind) (c : SetCmd) : Prog ε (HRes Unit) := do
  let r ← Prog.req .l1 (Std.storeReq k c)
  match r with
  | .status s =>
    if k == .append || k == .prepend then pure (.error (.app .keyNotFound))
    else match decodeError s with
      | some e => pure (.error (.app e))
      | none => pure (.ok ())
  | _ => pure (.ok ())

/-- `GetE` reports the absolute expiry second (0 = never), not the remaining lifetime. -/
def getE (now : Nat) (ks : List GetKey) : Prog ε (List GetResp × Option HErr) := do
  let (rs, err) ← Std.getLoop .l1 .gete ks
  pure (rs.map (fun r => if r.miss || r.exptime == 0 then r else { r with exptime := now + r.exptime }), err)

def handler (now : Nat) : Handler ε where
  store := store
  get := Std.getLoop .l1 .get
  getE := getE now
  gat := Std.gat .l1
  delete := fun c => Std.simple .l1 { op := .delete, key := c.key }
  touch := fun c => Std.simple .l1 { op := .touch, key := c.key, exptime := c.exptime }

end Rend.Inmem

/-
  handlers/memcached/chunked: values are split into fixed-size chunks, each prefixed with the
  16-byte token of the set that wrote it, plus one metadata entry.  Core-only.
  Transcribed from handler.go / localComm.go / keys.go / types.go / chunkedLimitedReader.go as of
  the current tree; `chunkSize`, `exptime`, `chunkSliceIndices` and the `numChunks` expression
  are the *regenerated* definitions of `Rend.Gen`.

  Derived keys are modelled as fresh values (`metaKey` copies since the fix of the key-aliasing
  defect; `chunkKey` appends into the client key's spare capacity, which no other live slice
  observes).  The correspondence check exercises keys with spare capacity.
-/
import Rend.Types
import Rend.Gen.Pure

namespace Rend.Chunked
open Rend

variable {ε : Type}

/-- "-meta" -/
def metaSuffix : Bytes := [45, 109, 101, 116, 97]

def metaKey (key : Bytes) : Bytes := key ++ metaSuffix

/-- `chunkKey`: key ++ "-" ++ decimal(chunk). -/
def chunkKey (key : Bytes) (i : Nat) : Bytes := key ++ [45] ++ Bytes.decDigits i

structure Meta where
  length    : Nat
  origFlags : Nat
  numChunks : Nat
  chunkSize : Nat
  instime   : Nat
  exptime   : Nat
  token     : Bytes
  deriving Repr, DecidableEq, Inhabited

/-- `writeMetadata` -/
def encodeMeta (m : Meta) : Bytes :=
  Bytes.be32 m.length ++ Bytes.be32 m.origFlags ++ Bytes.be32 m.numChunks ++ Bytes.be32 m.chunkSize ++
  Bytes.be32 m.instime ++ Bytes.be32 m.exptime ++ m.token

/-- `readMetadata` on a value of at least `metadataSize` bytes. -/
def decodeMeta (b : Bytes) : Meta :=
  { length := Bytes.rd32 b, origFlags := Bytes.rd32 (b.drop 4), numChunks := Bytes.rd32 (b.drop 8),
    chunkSize := Bytes.rd32 (b.drop 12), instime := Bytes.rd32 (b.drop 16), exptime := Bytes.rd32 (b.drop 20),
    token := (b.drop 24).take Gen.chunked_tokenSize }

/-- (dataSize, fullSize) of the regenerated `chunkSize`, as naturals. -/
def sizes (keyLen : Nat) : Nat × Nat :=
  let (d, f) := Gen.chunkSize (keyLen : Int)
  (d.toNat, f.toNat)

/-- The payload of chunk `i`: the data slice, zero-padded to `dataSize` (what
    `chunkedLimitedReader` yields for that chunk). -/
def chunkPayload (data : Bytes) (dataSize i : Nat) : Bytes :=
  let piece := (data.drop (dataSize * i)).take dataSize
  piece ++ Bytes.zeros (dataSize - piece.length)

/-- Write chunks `i, i+1, …` (`n` of them): one `set` each; an error stops the loop.
    On an error response the handler resets its buffers and discards the body of the response
    whose header it failed to read — a nil dereference when the failure was an I/O error. -/
def writeChunks (t : Tier) (c : SetCmd) (token : Bytes) (dataSize : Nat) : Nat → Nat → Prog ε (HRes Unit)
  | 0, _ => pure (.ok ())
  | n + 1, i => do
    let r ← Prog.req t { op := .set, key := chunkKey c.key i, flags := c.flags, exptime := c.exptime,
                         value := token ++ chunkPayload c.data dataSize i }
    match r with
    | .io => pure (.error .panic)
    | .wfail => pure (.error .io)
    | .status s =>
      match decodeError s with
      | some e => pure (.error (.app e))
      | none => writeChunks t c token dataSize n (i + 1)
    | _ => writeChunks t c token dataSize n (i + 1)

/-- `handleSetCommon` for Set / Add / Replace. -/
def setCommon (t : Tier) (now : Nat) (k : SetKind) (c : SetCmd) : Prog ε (HRes Unit) :=
  let (exp, _) := Gen.exptime (now : Int) (BitVec.ofNat 32 c.exptime)
  do
    let (dataSize, _) := sizes c.key.length
    let numChunks := (Gen.numChunksExpr (c.data.length : Int) (BitVec.ofNat 32 dataSize)).toNat
    let token ← Prog.token
    let md : Meta := { length := c.data.length, origFlags := c.flags, numChunks := numChunks, chunkSize := dataSize,
                       instime := now % 4294967296, exptime := exp.toNat, token := token }
    let r ← Prog.req t { op := k.op, key := metaKey c.key, flags := c.flags, exptime := c.exptime, value := encodeMeta md }
    match r with
    | .io => pure (.error .panic)
    | .wfail => pure (.error .io)
    | .status s =>
      match decodeError s with
      | some e => pure (.error (.app e))
      | none => writeChunks t c token dataSize numChunks 0
    | _ => writeChunks t c token dataSize numChunks 0

/-- `getMetadataCommon` applied to the response of a get / gat on the metadata key. -/
def metaOf (r : Resp) : Except HErr Meta :=
  match r with
  | .hit _ _ d => .ok (decodeMeta d)
  | .status s =>
    match decodeError s with
    | some e => .error (.app e)
    | none => .error .io
  | _ => .error .io

/-- Issue the quiet requests for chunks `i ..` and collect the responses that actually arrive. -/
def askChunks (t : Tier) (op : Op) (key : Bytes) (exptime : Nat) : Nat → Nat → Prog ε (List Resp)
  | 0, _ => pure []
  | n + 1, i => do
    let r ← Prog.req t { op := op, key := chunkKey key i, exptime := exptime }
    let rest ← askChunks t op key exptime n (i + 1)
    match r with
    | .silent => pure rest
    | _ => pure (r :: rest)

/-- State of the read loop shared by get, gat and append/prepend. -/
structure ReadSt where
  buf     : Bytes
  chunk   : Nat := 0
  miss    : Bool := false
  lastErr : Option HErr := none
  sawNoop : Bool := false
  deriving Repr

/-- `getLocalIntoBuf` + the loop body, for one arriving response. Returns `none` when the loop
    ends (noop seen, or a non-application error). `.ok` is the response to the closing noop. -/
def readStep (md : Meta) (s : ReadSt) (r : Resp) : ReadSt × Bool :=
  match r with
  | .ok => ({ s with sawNoop := true }, false)
  | .io => ({ s with lastErr := some .io }, false)
  | .wfail => ({ s with lastErr := some .io }, false)
  | .silent => (s, true)
  | .status c =>
    match decodeError c with
    | some .keyNotFound => ({ s with miss := true }, true)
    | some e =>
      -- lastErr = err; the loop goes on only for memcached statuses (common.IsAppError)
      if isAppError e then ({ s with lastErr := some (.app e), chunk := s.chunk + 1 }, true)
      else ({ s with lastErr := some (.app e) }, false)
    | none => ({ s with lastErr := some .io }, false)
  | .hit _ _ d =>
    let token := d.take Gen.chunked_tokenSize
    let payload := d.drop Gen.chunked_tokenSize
    let (st, en) := Gen.chunkSliceIndices (md.chunkSize : Int) (s.chunk : Int) (md.length : Int)
    let start := st.toNat
    let stop := en.toNat
    let buf := s.buf.take start ++ payload.take (stop - start) ++ s.buf.drop stop
    ({ s with buf := buf, miss := s.miss || token != md.token, chunk := s.chunk + 1 }, true)

def readLoop (md : Meta) : ReadSt → List Resp → ReadSt
  | s, [] => s
  | s, r :: rs =>
    let (s', continue_) := readStep md s r
    if continue_ then readLoop md s' rs else s'

/-- Outcome of the read phase: error, miss, or the reassembled value. -/
inductive ReadOut where
  | err (e : HErr)
  | miss
  | value (data : Bytes)
  deriving Repr, DecidableEq

/-- `getLocalIntoBuf` looks at the opcode first: a no-op reply ends the batch whatever its status. -/
def noopEnds (r : Resp) : Resp :=
  match r with
  | .status _ => .ok
  | r => r

@[simp] theorem noopEnds_ok : noopEnds .ok = .ok := rfl

/-- Send quiet requests for all chunks plus a noop, run the read loop. -/
def readChunks (t : Tier) (op : Op) (key : Bytes) (exptime : Nat) (md : Meta) : Prog ε ReadOut := do
  let rs ← askChunks t op key exptime md.numChunks 0
  let nr ← Prog.req t { op := .noop }
  let s := readLoop md { buf := Bytes.zeros md.length } (rs ++ [noopEnds nr])
  match s.lastErr with
  | some e => pure (.err e)
  | none =>
    if !s.sawNoop then pure (.err .io)
    else if s.chunk != md.numChunks || s.miss then pure .miss
    else pure (.value s.buf)

/-- `realHandleGet` (runs in its own goroutine). -/
def getLoop (t : Tier) : List GetKey → Prog ε (List GetResp × Option HErr)
  | [] => pure ([], none)
  | g :: rest => do
    let mr ← Prog.req t { op := .get, key := metaKey g.key }
    match metaOf mr with
    | .error (.app .keyNotFound) =>
      let (rs, err) ← getLoop t rest
      pure ({ key := g.key, opq := g.opq, miss := true, quiet := g.quiet } :: rs, err)
    | .error e => pure ([], some e)
    | .ok md =>
      match ← readChunks t .getq g.key 0 md with
      | .err e => pure ([], some e)
      | .miss =>
        let (rs, err) ← getLoop t rest
        pure ({ key := g.key, opq := g.opq, flags := md.origFlags, miss := true, quiet := g.quiet } :: rs, err)
      | .value d =>
        let (rs, err) ← getLoop t rest
        pure ({ key := g.key, data := d, opq := g.opq, flags := md.origFlags, quiet := g.quiet } :: rs, err)

def gat (t : Tier) (c : KeyCmd) : Prog ε (HRes GetResp) := do
  let mr ← Prog.req t { op := .gat, key := metaKey c.key, exptime := c.exptime }
  match metaOf mr with
  | .error (.app .keyNotFound) => pure (.ok { key := c.key, opq := c.opq, miss := true })
  | .error e => pure (.error e)
  | .ok md =>
    match ← readChunks t .gatq c.key c.exptime md with
    | .err e => pure (.error e)
    | .miss => pure (.ok { key := c.key, opq := c.opq, flags := md.origFlags, miss := true })
    | .value d => pure (.ok { key := c.key, data := d, opq := c.opq, flags := md.origFlags })

/-- `handleAppendPrependCommon` -/
def pend (t : Tier) (now : Nat) (k : SetKind) (c : SetCmd) : Prog ε (HRes Unit) := do
  let mr ← Prog.req t { op := .get, key := metaKey c.key }
  match metaOf mr with
  | .error e => pure (.error e)
  | .ok md =>
    match ← readChunks t .getq c.key 0 md with
    | .err e => pure (.error e)
    | .miss => pure (.error (.app .keyNotFound))
    | .value d =>
      let data := if k == .append then d ++ c.data else c.data ++ d
      setCommon t now .set { key := c.key, data := data, flags := md.origFlags, exptime := md.exptime }

def store (t : Tier) (now : Nat) (k : SetKind) (c : SetCmd) : Prog ε (HRes Unit) :=
  match k with
  | .append | .prepend => pend t now k c
  | _ => setCommon t now k c

/-- Pipelined requests for chunks `i ..`; the responses are read afterwards, and only a
    key-not-found status is looked at (other failures are ignored by both loops). -/
def pipeChunks (t : Tier) (mk : Bytes → Req) (key : Bytes) : Nat → Nat → Prog ε Bool
  | 0, _ => pure false
  | n + 1, i => do
    let r ← Prog.req t (mk (chunkKey key i))
    let miss ← pipeChunks t mk key n (i + 1)
    match r with
    | .status s => pure (miss || decodeError s == some .keyNotFound)
    | _ => pure miss

def delete (t : Tier) (c : KeyCmd) : Prog ε (HRes Unit) := do
  let mr ← Prog.req t { op := .get, key := metaKey c.key }
  match metaOf mr with
  | .error e => pure (.error e)
  | .ok md =>
    let dr ← Prog.req t { op := .delete, key := metaKey c.key }
    let res : HRes Unit := match dr with
      | .io => .error .io
      | .wfail => .error .io
      | .status s => match decodeError s with
        | some e => .error (.app e)
        | none => .ok ()
      | _ => .ok ()
    match res with
    | .error e => pure (.error e)
    | .ok () =>
      let miss ← pipeChunks t (fun k => { op := .delete, key := k }) c.key md.numChunks 0
      if miss then pure (.error (.app .keyNotFound)) else pure (.ok ())

def touch (t : Tier) (now : Nat) (c : KeyCmd) : Prog ε (HRes Unit) := do
  let mr ← Prog.req t { op := .get, key := metaKey c.key }
  match metaOf mr with
  | .error e => pure (.error e)
  | .ok md =>
    let miss ← pipeChunks t (fun k => { op := .touch, key := k, exptime := c.exptime }) c.key md.numChunks 0
    if miss then pure (.error (.app .keyNotFound))
    else
      let (exp, _) := Gen.exptime (now : Int) (BitVec.ofNat 32 c.exptime)
      let md' := { md with exptime := exp.toNat }
      let r ← Prog.req t { op := .set, key := metaKey c.key, flags := md.origFlags, exptime := c.exptime, value := encodeMeta md' }
      match r with
      | .io => pure (.error .panic)
      | .wfail => pure (.error .io)
      | .status s =>
        match decodeError s with
        | some e => pure (.error (.app e))
        | none => pure (.ok ())
      | _ => pure (.ok ())

/-- `GetE` is not supported by the chunked handler: it panics in the calling goroutine. -/
def handler (t : Tier) (now : Nat) : Handler ε where
  store := store t now
  get := getLoop t
  getE := fun _ => pure ([], some .panic)
  gat := gat t
  delete := delete t
  touch := touch t now

end Rend.Chunked

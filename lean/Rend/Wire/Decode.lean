/-
  A strict decoder of what rend writes to a client: binary response frames and text replies.
  Used (a) to state C08 (every reply is a complete, well-formed frame) and (b) by the oracle,
  which decodes the IMPLEMENTATION's reply bytes and compares them with the specification.
  Core-only.
-/
import Rend.Wire.TextParse
import Rend.SpecStep

namespace Rend.Wire
open Rend

structure BinFrame where
  opcode : Nat
  status : Nat
  opq    : Nat
  extras : Bytes
  key    : Bytes
  value  : Bytes
  deriving Repr, DecidableEq, Inhabited

/-- Decode one response frame from the front of `b`; `none` if `b` does not start with a complete,
    consistent frame. -/
def decodeBinFrame (b : Bytes) : Option (BinFrame × Bytes) :=
  if b.length < 24 then none
  else if (b.getD 0 0).toNat ≠ Gen.binprot_MagicResponse then none
  else
    let keyLen := Bytes.rd16 (b.drop 2)
    let extLen := (b.getD 4 0).toNat
    let total := Bytes.rd32 (b.drop 8)
    if total < keyLen + extLen then none
    else if b.length < 24 + total then none
    else
      let body := (b.drop 24).take total
      some ({ opcode := (b.getD 1 0).toNat, status := Bytes.rd16 (b.drop 6), opq := Bytes.rd32 (b.drop 12),
              extras := body.take extLen, key := (body.drop extLen).take keyLen, value := body.drop (extLen + keyLen) },
            b.drop (24 + total))

def decodeBinFrames : Nat → Bytes → Option (List BinFrame)
  | 0, _ => none
  | fuel + 1, b =>
    if b.isEmpty then some []
    else
      match decodeBinFrame b with
      | none => none
      | some (f, rest) => (decodeBinFrames fuel rest).map (f :: ·)

def decodeBin (b : Bytes) : Option (List BinFrame) := decodeBinFrames (b.length + 1) b

/-- One unit of a text reply. -/
inductive TextItem where
  | line (s : Bytes)                               -- a CRLF-terminated line (without the CRLF)
  | value (key : Bytes) (flags : Nat) (data : Bytes)
  deriving Repr, DecidableEq, Inhabited

/-- Split off a line terminated by CRLF. -/
def takeCrlfLine : Bytes → Bytes → Option (Bytes × Bytes)
  | _, [] => none
  | acc, 13 :: 10 :: rest => some (acc.reverse, rest)
  | acc, x :: rest => takeCrlfLine (x :: acc) rest

def decodeTextItems : Nat → Bytes → Option (List TextItem)
  | 0, _ => none
  | fuel + 1, b =>
    if b.isEmpty then some []
    else
      match takeCrlfLine [] b with
      | none => none
      | some (line, rest) =>
        let parts := splitSpace line
        if parts.headD [] = [86, 65, 76, 85, 69] then
          match parts with
          | [_, key, fl, len] =>
            match parseUint32 fl, parseUint32 len with
            | some flags, some n =>
              if rest.length < n + 2 then none
              else if (rest.drop n).take 2 ≠ [13, 10] then none
              else (decodeTextItems fuel (rest.drop (n + 2))).map (.value key flags (rest.take n) :: ·)
            | _, _ => none
          | _ => none
        else (decodeTextItems fuel rest).map (.line line :: ·)

def decodeText (b : Bytes) : Option (List TextItem) := decodeTextItems (b.length + 1) b

/-! ### Comparing a decoded reply with the specification -/

def isGetOpcode (op : Nat) : Bool :=
  op == Gen.binprot_OpcodeGet || op == Gen.binprot_OpcodeGetQ || op == Gen.binprot_OpcodeGetE || op == Gen.binprot_OpcodeGat

/-- Binary: the frames answering one command, against the specification's answer. -/
def binMatches (c : Cmd) (exp : SOut) (fs : List BinFrame) : Bool :=
  match c, exp with
  | .store _ sc, .ok =>
    if sc.quiet then fs.isEmpty
    else match fs with
      | [f] => f.status == 0 && f.opq == sc.opq && f.value.isEmpty
      | _ => false
  | .store _ sc, .fail =>
    match fs with
    | [f] => f.status != 0 && f.opq == sc.opq
    | _ => false
  | .delete k, .ok | .touch k, .ok =>
    match fs with
    | [f] => f.status == 0 && f.opq == k.opq
    | _ => false
  | .delete k, .fail | .touch k, .fail =>
    match fs with
    | [f] => f.status != 0 && f.opq == k.opq
    | _ => false
  | .gat k, .gat (some (fl, d)) =>
    match fs with
    | [f] => f.status == 0 && f.opq == k.opq && f.extras == Bytes.be32 fl && f.value == d
    | _ => false
  | .gat k, .gat none =>
    match fs with
    | [f] => f.status != 0 && f.opq == k.opq
    | _ => false
  | .get g, .gets rs =>
    -- every hit: one success frame with the key's opaque, flags and data; every non-quiet miss: one
    -- not-found frame with its opaque; a noop-terminated batch: exactly one noop frame, last; nothing else
    let body := if g.noopEnd then fs.dropLast else fs
    let termOk := if g.noopEnd then
        (match fs.getLast? with
         | some f => f.opcode == Gen.binprot_OpcodeNoop && f.status == 0 && f.opq == g.noopOpaque
         | none => false)
      else true
    let expected : List (Nat × Option (Nat × Bytes)) :=
      rs.filterMap fun (gk, r) =>
        match r with
        | some v => some (gk.opq, some v)
        | none => if gk.quiet then none else some (gk.opq, none)
    let frameOf (f : BinFrame) : Nat × Option (Nat × Bytes) :=
      if f.status == 0 then (f.opq, some (Bytes.rd32 f.extras, f.value)) else (f.opq, none)
    let got := body.map frameOf
    termOk && body.all (fun f => f.opcode != Gen.binprot_OpcodeNoop) &&
      got.length == expected.length && expected.all (fun e => got.count e == expected.count e)
  | .getE g, .gets rs =>
    -- get-with-expiry: as get, the success frames carry flags and the remaining lifetime (8 bytes of extras)
    let body := if g.noopEnd then fs.dropLast else fs
    let termOk := if g.noopEnd then
        (match fs.getLast? with
         | some f => f.opcode == Gen.binprot_OpcodeNoop && f.status == 0 && f.opq == g.noopOpaque
         | none => false)
      else true
    let expected : List (Nat × Option (Nat × Bytes)) :=
      rs.filterMap fun (gk, r) =>
        match r with
        | some v => some (gk.opq, some v)
        | none => if gk.quiet then none else some (gk.opq, none)
    let frameOf (f : BinFrame) : Nat × Option (Nat × Bytes) :=
      if f.status == 0 then (f.opq, some (Bytes.rd32 f.extras, f.value)) else (f.opq, none)
    let got := body.map frameOf
    termOk && body.all (fun f => f.opcode != Gen.binprot_OpcodeNoop) &&
      body.all (fun f => f.status != 0 || f.extras.length == 8) &&
      got.length == expected.length && expected.all (fun e => got.count e == expected.count e)
  | _, .other => true
  | _, _ => false

def isLine (it : TextItem) (s : String) : Bool :=
  match it with
  | .line l => l == Bytes.ofString s
  | _ => false

/-- Text: the items answering one command, against the specification's answer. -/
def textMatches (c : Cmd) (exp : SOut) (its : List TextItem) : Bool :=
  match c, exp with
  | .store _ _, .ok => (match its with | [i] => isLine i "STORED" | _ => false)
  | .store _ _, .fail => (match its with | [i] => isLine i "NOT_STORED" || isLine i "NOT_FOUND" | _ => false)
  | .delete _, .ok => (match its with | [i] => isLine i "DELETED" | _ => false)
  | .touch _, .ok => (match its with | [i] => isLine i "TOUCHED" | _ => false)
  | .delete _, .fail | .touch _, .fail => (match its with | [i] => isLine i "NOT_FOUND" | _ => false)
  | .get _, .gets rs =>
    let expected : List TextItem := rs.filterMap fun (gk, r) => r.map fun (fl, d) => .value gk.key fl d
    let body := its.dropLast
    (match its.getLast? with | some l => isLine l "END" | none => false) &&
      body.length == expected.length && expected.all (fun e => body.count e == expected.count e)
  | _, .other => true
  | _, _ => false

end Rend.Wire

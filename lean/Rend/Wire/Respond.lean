/-
  protocol/binprot/respond.go and protocol/textprot/respond.go: what each responder call
  writes to the client, byte for byte.  Core-only.
-/
import Rend.Types

namespace Rend.Wire
open Rend

/-- `writeResponseHeader`: the 24 bytes of a response header. -/
def resHeader (opcode keyLen extLen status total opq : Nat) : Bytes :=
  [UInt8.ofNat Gen.binprot_MagicResponse, UInt8.ofNat opcode,
   UInt8.ofNat (keyLen / 256 % 256), UInt8.ofNat (keyLen % 256),
   UInt8.ofNat extLen, 0,
   UInt8.ofNat (status / 256 % 256), UInt8.ofNat (status % 256),
   UInt8.ofNat (total / 16777216 % 256), UInt8.ofNat (total / 65536 % 256), UInt8.ofNat (total / 256 % 256), UInt8.ofNat (total % 256),
   UInt8.ofNat (opq / 16777216 % 256), UInt8.ofNat (opq / 65536 % 256), UInt8.ofNat (opq / 256 % 256), UInt8.ofNat (opq % 256),
   0, 0, 0, 0, 0, 0, 0, 0]

def okHeader (opcode keyLen extLen total opq : Nat) : Bytes :=
  resHeader opcode keyLen extLen Gen.binprot_StatusSuccess total opq

/-- `reqTypeToOpcode`, driven by the regenerated table. -/
def reqTypeToOpcode (rt : ReqType) (quiet : Bool) : Nat :=
  match Gen.reqTypeToOpcodeTable.find? (fun (t, q, _) => t == rt.toNat && (q == 0 || (q == 1 && quiet) || (q == 2 && !quiet))) with
  | some (_, _, op) => op
  | none => Gen.reqTypeToOpcodeDefault

def binError (opq : Nat) (rt : ReqType) (e : Err) (quiet : Bool) : Bytes :=
  resHeader (reqTypeToOpcode rt quiet) 0 0 (errorToCode e) 0 opq

def storeOpcode : SetKind → Nat
  | .set => Gen.binprot_OpcodeSet | .add => Gen.binprot_OpcodeAdd | .replace => Gen.binprot_OpcodeReplace
  | .append => Gen.binprot_OpcodeAppend | .prepend => Gen.binprot_OpcodePrepend

def binGetCommon (r : GetResp) (opcode : Nat) : Bytes :=
  okHeader opcode 0 4 (r.data.length + 4) r.opq ++ Bytes.be32 r.flags ++ r.data

/-- Bytes written by `BinaryResponder` for one responder call. -/
def binRespond : REv → Bytes
  | .stored k o q => if q then [] else okHeader (storeOpcode k) 0 0 0 o
  | .get r =>
    if r.miss then (if r.quiet then [] else binError r.opq .get .keyNotFound false)
    else binGetCommon r Gen.binprot_OpcodeGet
  | .getEnd o noopEnd => if noopEnd then okHeader Gen.binprot_OpcodeNoop 0 0 0 o else []
  | .gat r =>
    if r.miss then (if r.quiet then [] else binError r.opq .gat .keyNotFound false)
    else binGetCommon r Gen.binprot_OpcodeGat
  | .getE r =>
    if r.miss then (if r.quiet then [] else binError r.opq .getE .keyNotFound false)
    else okHeader Gen.binprot_OpcodeGetE 0 8 (r.data.length + 8) r.opq ++ Bytes.be32 r.flags ++ Bytes.be32 r.exptime ++ r.data
  | .deleted o => okHeader Gen.binprot_OpcodeDelete 0 0 0 o
  | .touched o => okHeader Gen.binprot_OpcodeTouch 0 0 0 o
  | .noop o => okHeader Gen.binprot_OpcodeNoop 0 0 0 o
  | .quit o q => if q then [] else okHeader Gen.binprot_OpcodeQuit 0 0 0 o
  | .version o =>
    okHeader Gen.binprot_OpcodeVersion 0 0 Gen.common_VersionString_bytes.length o ++ Gen.common_VersionString_bytes
  | .stat o =>
    okHeader Gen.binprot_OpcodeStat 7 0 (7 + Gen.common_Version_bytes.length) o ++ ([118, 101, 114, 115, 105, 111, 110] ++ Gen.common_Version_bytes) ++
    okHeader Gen.binprot_OpcodeStat 0 0 0 o
  | .error o rt e q => binError o rt e q

def crlf : Bytes := [13, 10]

def textLine (s : Bytes) : Bytes := s ++ crlf

def textReply (name : String) : Bytes :=
  match Gen.textReplies.find? (fun p => p.1 == name) with
  | some (_, _, s) => s
  | none => []

/-- `TextResponder.Error` -/
def textError (e : Err) : Bytes :=
  match Gen.textErrorTable.find? (fun p => p.1 == e.name) with
  | some (_, line, bytes) => if line == "" then textLine e.message else textLine bytes
  | none => textLine e.message

def storeName : SetKind → String
  | .set => "Set" | .add => "Add" | .replace => "Replace" | .append => "Append" | .prepend => "Prepend"

/-- Bytes written by `TextResponder` for one responder call; `none` = the responder panics
    (GAT / GetE do not exist in the text protocol). -/
def textRespond : REv → Option Bytes
  | .stored k _ _ => some (textLine (textReply (storeName k)))
  | .get r =>
    if r.miss then some []
    else some ([86, 65, 76, 85, 69, 32] ++ r.key ++ [32] ++ Bytes.decDigits r.flags ++ [32] ++ Bytes.decDigits r.data.length ++ crlf ++ r.data ++ crlf)
  | .getEnd _ _ => some (textLine (textReply "GetEnd"))
  | .getE _ => none
  | .gat _ => none
  | .deleted _ => some (textLine (textReply "Delete"))
  | .touched _ => some (textLine (textReply "Touch"))
  | .noop _ => some (textLine (textReply "Noop"))
  | .quit _ q => if q then some [] else some (textLine [66, 121, 101])
  | .version _ => some (textLine (textReply "Version"))
  | .stat _ => some (textLine (textReply "Stat"))
  | .error _ _ e _ => some (textError e)

end Rend.Wire

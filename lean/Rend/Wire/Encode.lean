/-
  The client side of the wire protocols: how a well-formed request is written.  This is a
  specification (the memcached binary and text protocols as rend's parsers understand them),
  used to state the round-trip theorems of C07.  Core-only.
-/
import Rend.Types
import Rend.Wire.TextParse

namespace Rend.Wire
open Rend

/-- A 24-byte request header, as an explicit list. -/
def reqHeader (opcode keyLen extLen total opq : Nat) : Bytes :=
  [UInt8.ofNat Gen.binprot_MagicRequest, UInt8.ofNat opcode,
   UInt8.ofNat (keyLen / 256 % 256), UInt8.ofNat (keyLen % 256),
   UInt8.ofNat extLen, 0, 0, 0,
   UInt8.ofNat (total / 16777216 % 256), UInt8.ofNat (total / 65536 % 256), UInt8.ofNat (total / 256 % 256), UInt8.ofNat (total % 256),
   UInt8.ofNat (opq / 16777216 % 256), UInt8.ofNat (opq / 65536 % 256), UInt8.ofNat (opq / 256 % 256), UInt8.ofNat (opq % 256),
   0, 0, 0, 0, 0, 0, 0, 0]

def storeOp (k : SetKind) (quiet : Bool) : Nat :=
  match k, quiet with
  | .set, false => Gen.binprot_OpcodeSet | .set, true => Gen.binprot_OpcodeSetQ
  | .add, false => Gen.binprot_OpcodeAdd | .add, true => Gen.binprot_OpcodeAddQ
  | .replace, false => Gen.binprot_OpcodeReplace | .replace, true => Gen.binprot_OpcodeReplaceQ
  | .append, false => Gen.binprot_OpcodeAppend | .append, true => Gen.binprot_OpcodeAppendQ
  | .prepend, false => Gen.binprot_OpcodePrepend | .prepend, true => Gen.binprot_OpcodePrependQ

/-- Quiet gets of a batch (all but possibly the last key). -/
def encGetQs (qop : Nat) : List GetKey → Bytes
  | [] => []
  | g :: rest => reqHeader qop g.key.length 0 g.key.length g.opq ++ g.key ++ encGetQs qop rest

/-- The binary encoding of a request. Gets are `GETQ* GET` or `GETQ* NOOP`. -/
def encodeBin : Cmd → Bytes
  | .store k c =>
    match k with
    | .append | .prepend =>
      reqHeader (storeOp k c.quiet) c.key.length 0 (c.key.length + c.data.length) c.opq ++ c.key ++ c.data
    | _ =>
      reqHeader (storeOp k c.quiet) c.key.length 8 (8 + c.key.length + c.data.length) c.opq ++
        Bytes.be32 c.flags ++ Bytes.be32 c.exptime ++ c.key ++ c.data
  | .get g =>
    if g.noopEnd then encGetQs Gen.binprot_OpcodeGetQ g.keys ++ reqHeader Gen.binprot_OpcodeNoop 0 0 0 g.noopOpaque
    else
      match g.keys.getLast? with
      | some last => encGetQs Gen.binprot_OpcodeGetQ g.keys.dropLast ++
          reqHeader Gen.binprot_OpcodeGet last.key.length 0 last.key.length last.opq ++ last.key
      | none => []
  | .getE g =>
    if g.noopEnd then encGetQs Gen.binprot_OpcodeGetEQ g.keys ++ reqHeader Gen.binprot_OpcodeNoop 0 0 0 g.noopOpaque
    else
      match g.keys.getLast? with
      | some last => encGetQs Gen.binprot_OpcodeGetEQ g.keys.dropLast ++
          reqHeader Gen.binprot_OpcodeGetE last.key.length 0 last.key.length last.opq ++ last.key
      | none => []
  | .gat c => reqHeader Gen.binprot_OpcodeGat c.key.length 4 (4 + c.key.length) c.opq ++ Bytes.be32 c.exptime ++ c.key
  | .touch c => reqHeader Gen.binprot_OpcodeTouch c.key.length 4 (4 + c.key.length) c.opq ++ Bytes.be32 c.exptime ++ c.key
  | .delete c => reqHeader Gen.binprot_OpcodeDelete c.key.length 0 c.key.length c.opq ++ c.key
  | .noop o => reqHeader Gen.binprot_OpcodeNoop 0 0 0 o
  | .quit o q => reqHeader (if q then Gen.binprot_OpcodeQuitQ else Gen.binprot_OpcodeQuit) 0 0 0 o
  | .version o => reqHeader Gen.binprot_OpcodeVersion 0 0 0 o
  | .stat o => reqHeader Gen.binprot_OpcodeStat 0 0 0 o
  | .unknown => []

def sp : Bytes := [32]

def storeWord : SetKind → Bytes
  | .set => wSet | .add => wAdd | .replace => wReplace | .append => wAppend | .prepend => wPrepend

/-- The text encoding of a request (no opaque, no quiet flag, no get-and-touch). -/
def encodeText : Cmd → Bytes
  | .store k c =>
    storeWord k ++ sp ++ c.key ++ sp ++ Bytes.decDigits c.flags ++ sp ++ Bytes.decDigits c.exptime ++ sp ++
      Bytes.decDigits c.data.length ++ [13, 10] ++ c.data ++ [13, 10]
  | .get g => wGet ++ (g.keys.flatMap fun k => sp ++ k.key) ++ [13, 10]
  | .delete c => wDelete ++ sp ++ c.key ++ [13, 10]
  | .touch c => wTouch ++ sp ++ c.key ++ sp ++ Bytes.decDigits c.exptime ++ [13, 10]
  | .noop _ => wNoop ++ [13, 10]
  | .quit _ _ => wQuit ++ [13, 10]
  | .version _ => wVersion ++ [13, 10]
  | .stat _ => wStats ++ [13, 10]
  | _ => []

end Rend.Wire

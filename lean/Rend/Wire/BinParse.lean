/-
  protocol/binprot/parser.go + headers.go: the binary request parser, as a total function on
  the bytes that remain on the connection (until EOF).  Core-only.

  Header arithmetic is done exactly as in Go: 8/16/32-bit unsigned fields, the body length of
  set/append computed by 32-bit unsigned subtraction (after the fix: guarded by a comparison).
-/
import Rend.Types

namespace Rend.Wire
open Rend

/-- Why a parse did not produce a request. -/
inductive PErr where
  | eof                 -- io.EOF / io.ErrUnexpectedEOF: the stream ended inside (or before) a request
  | badMagic
  | badBodyLength
  | app (e : Err)       -- common.ErrBadRequest & co, common.ErrUnknownCmd, common.ErrInternal
  deriving Repr, DecidableEq, Inhabited

/-- Result of one `Parse()` call. `alloc` is the number of bytes passed to `make` on the way. -/
structure PRes where
  cmd   : Option Cmd := none
  rt    : ReqType := .unknown
  err   : Option PErr := none
  rest  : Bytes := []
  alloc : Nat := 0
  deriving Repr, DecidableEq, Inhabited

/-- `io.ReadAtLeast(r, buf, n)` with `len(buf) = n`. -/
def readN (n : Nat) (inp : Bytes) : Option (Bytes × Bytes) :=
  if inp.length < n then none else some (inp.take n, inp.drop n)

structure ReqHeader where
  magic  : Nat
  opcode : Nat
  keyLen : Nat     -- uint16
  extLen : Nat     -- uint8
  total  : Nat     -- uint32
  opq    : Nat     -- uint32
  deriving Repr, DecidableEq, Inhabited

def decodeHeader (b : Bytes) : ReqHeader :=
  { magic := (b.getD 0 0).toNat, opcode := (b.getD 1 0).toNat, keyLen := Bytes.rd16 (b.drop 2),
    extLen := (b.getD 4 0).toNat, total := Bytes.rd32 (b.drop 8), opq := Bytes.rd32 (b.drop 12) }

inductive HdrRes where
  | ok (h : ReqHeader) (rest : Bytes)
  | eof
  | badMagic
  deriving Repr

def readRequestHeader (inp : Bytes) : HdrRes :=
  match readN Gen.binprot_ReqHeaderLen inp with
  | none => .eof
  | some (b, rest) =>
    if (b.getD 0 0).toNat ≠ Gen.binprot_MagicRequest then .badMagic
    else .ok (decodeHeader b) rest

def failWith (rt : ReqType) (e : PErr) (rest : Bytes) (alloc : Nat) : PRes :=
  { rt := rt, err := some e, rest := rest, alloc := alloc }

/-- `setRequest` -/
def parseSet (h : ReqHeader) (k : SetKind) (quiet : Bool) (inp : Bytes) : PRes :=
  if h.total < h.extLen + h.keyLen then failWith k.reqType .badBodyLength inp 0
  else
  match readN 4 inp with
  | none => failWith k.reqType .eof [] 4
  | some (fl, inp1) =>
  match readN 4 inp1 with
  | none => failWith k.reqType .eof [] 8
  | some (ex, inp2) =>
  match readN h.keyLen inp2 with
  | none => failWith k.reqType .eof [] (8 + h.keyLen)
  | some (key, inp3) =>
    -- realLength := TotalBodyLength - uint32(ExtraLength) - uint32(KeyLength)   (mod 2^32)
    let realLength := (8589934592 + h.total - h.extLen - h.keyLen) % 4294967296
    match readN realLength inp3 with
    | none => failWith k.reqType .eof [] (8 + h.keyLen + realLength)
    | some (data, inp4) =>
      { cmd := some (.store k { key := key, flags := Bytes.rd32 fl, exptime := Bytes.rd32 ex, data := data, opq := h.opq, quiet := quiet }),
        rt := k.reqType, rest := inp4, alloc := 8 + h.keyLen + realLength }

/-- `appendPrependRequest` -/
def parsePend (h : ReqHeader) (k : SetKind) (quiet : Bool) (inp : Bytes) : PRes :=
  if h.total < h.keyLen then failWith k.reqType .badBodyLength inp 0
  else
  match readN h.keyLen inp with
  | none => failWith k.reqType .eof [] h.keyLen
  | some (key, inp1) =>
    let realLength := (4294967296 + h.total - h.keyLen) % 4294967296
    match readN realLength inp1 with
    | none => failWith k.reqType .eof [] (h.keyLen + realLength)
    | some (data, inp2) =>
      { cmd := some (.store k { key := key, flags := 0, exptime := 0, data := data, opq := h.opq, quiet := quiet }),
        rt := k.reqType, rest := inp2, alloc := h.keyLen + realLength }

/-- `readBatchGet` / `readBatchGetE`: GETQ* then GET or NOOP (anything else is silently dropped).
    `fuel` bounds the number of headers; every header consumes 24 bytes so `inp.length` suffices. -/
def readBatch (qop op : Nat) : Nat → ReqHeader → Bytes → List GetKey → Nat → Option (GetCmd × Bytes × Nat) × Nat
  | 0, _, _, _, alloc => (none, alloc)
  | fuel + 1, h, inp, acc, alloc =>
    if h.opcode = qop then
      match readN h.keyLen inp with
      | none => (none, alloc + h.keyLen)
      | some (key, inp1) =>
        match readRequestHeader inp1 with
        | .ok h' inp2 => readBatch qop op fuel h' inp2 (acc ++ [{ key := key, opq := h.opq, quiet := true }]) (alloc + h.keyLen)
        | _ => (none, alloc + h.keyLen)
    else if h.opcode = op then
      match readN h.keyLen inp with
      | none => (none, alloc + h.keyLen)
      | some (key, inp1) =>
        (some ({ keys := acc ++ [{ key := key, opq := h.opq, quiet := false }], noopOpaque := 0, noopEnd := false }, inp1, alloc + h.keyLen), alloc + h.keyLen)
    else if h.opcode = Gen.binprot_OpcodeNoop then
      (some ({ keys := acc, noopOpaque := h.opq, noopEnd := true }, inp, alloc), alloc)
    else
      (some ({ keys := acc, noopOpaque := 0, noopEnd := false }, inp, alloc), alloc)

/-- The error of a failed batch read: a header with a bad magic in the middle of a batch is
    `ErrBadMagic`, everything else is EOF. Both abort the connection. -/
def parseKeyOnly (h : ReqHeader) (rt : ReqType) (mk : Bytes → Cmd) (inp : Bytes) : PRes :=
  match readN h.keyLen inp with
  | none => failWith rt .eof [] h.keyLen
  | some (key, rest) => { cmd := some (mk key), rt := rt, rest := rest, alloc := h.keyLen }

def parseExpKey (h : ReqHeader) (rt : ReqType) (mk : Nat → Bytes → Cmd) (inp : Bytes) : PRes :=
  match readN 4 inp with
  | none => failWith rt .eof [] 4
  | some (ex, inp1) =>
    match readN h.keyLen inp1 with
    | none => failWith rt .eof [] (4 + h.keyLen)
    | some (key, rest) => { cmd := some (mk (Bytes.rd32 ex) key), rt := rt, rest := rest, alloc := 4 + h.keyLen }

open Gen in
/-- The `switch reqHeader.Opcode` of `BinaryParser.Parse`. -/
def dispatch (h : ReqHeader) (rest : Bytes) : PRes :=
    let op := h.opcode
    if op = binprot_OpcodeSet then parseSet h .set false rest
    else if op = binprot_OpcodeSetQ then parseSet h .set true rest
    else if op = binprot_OpcodeAdd then parseSet h .add false rest
    else if op = binprot_OpcodeAddQ then parseSet h .add true rest
    else if op = binprot_OpcodeReplace then parseSet h .replace false rest
    else if op = binprot_OpcodeReplaceQ then parseSet h .replace true rest
    else if op = binprot_OpcodeAppend then parsePend h .append false rest
    else if op = binprot_OpcodeAppendQ then parsePend h .append true rest
    else if op = binprot_OpcodePrepend then parsePend h .prepend false rest
    else if op = binprot_OpcodePrependQ then parsePend h .prepend true rest
    else if op = binprot_OpcodeGetQ then
      match readBatch binprot_OpcodeGetQ binprot_OpcodeGet (rest.length + 1) h rest [] 0 with
      | (some (g, r, a), _) => { cmd := some (.get g), rt := .get, rest := r, alloc := a }
      | (none, a) => failWith .get .eof [] a
    else if op = binprot_OpcodeGet then
      parseKeyOnly h .get (fun key => .get { keys := [{ key := key, opq := h.opq, quiet := false }] }) rest
    else if op = binprot_OpcodeGetEQ then
      match readBatch binprot_OpcodeGetEQ binprot_OpcodeGetE (rest.length + 1) h rest [] 0 with
      | (some (g, r, a), _) => { cmd := some (.getE g), rt := .getE, rest := r, alloc := a }
      | (none, a) => failWith .getE .eof [] a
    else if op = binprot_OpcodeGetE then
      parseKeyOnly h .getE (fun key => .getE { keys := [{ key := key, opq := h.opq, quiet := false }] }) rest
    else if op = binprot_OpcodeGat then
      parseExpKey h .gat (fun ex key => .gat { key := key, exptime := ex, opq := h.opq }) rest
    else if op = binprot_OpcodeDelete then
      parseKeyOnly h .delete (fun key => .delete { key := key, opq := h.opq }) rest
    else if op = binprot_OpcodeTouch then
      parseExpKey h .touch (fun ex key => .touch { key := key, exptime := ex, opq := h.opq }) rest
    else if op = binprot_OpcodeNoop then { cmd := some (.noop h.opq), rt := .noop, rest := rest }
    else if op = binprot_OpcodeQuit then { cmd := some (.quit h.opq false), rt := .quit, rest := rest }
    else if op = binprot_OpcodeQuitQ then { cmd := some (.quit h.opq true), rt := .quit, rest := rest }
    else if op = binprot_OpcodeVersion then { cmd := some (.version h.opq), rt := .version, rest := rest }
    else if op = binprot_OpcodeStat then { cmd := some (.stat h.opq), rt := .stat, rest := rest }
    else failWith .unknown (.app .unknownCmd) rest 0

/-- `BinaryParser.Parse` -/
def binParse (inp : Bytes) : PRes :=
  match readRequestHeader inp with
  | .eof => failWith .unknown .eof [] 0
  | .badMagic => failWith .unknown .badMagic (inp.drop Gen.binprot_ReqHeaderLen) 0
  | .ok h rest => dispatch h rest

end Rend.Wire

/-
  protocol/textprot/parser.go: the text request parser.  Core-only.
  `strings.TrimSpace`, `strings.Split(_, " ")` and `strconv.ParseUint(_, 10, 32)` are modelled
  exactly on byte strings (including the Unicode White_Space code points Go trims).
-/
import Rend.Wire.BinParse

namespace Rend.Wire
open Rend

/-- Decode one UTF-8 rune at the front of `b` the way Go's `utf8.DecodeRune` does:
    (code point, width); invalid encodings give (0xFFFD, 1). -/
def decodeRune (b : Bytes) : Nat × Nat :=
  match b with
  | [] => (0xFFFD, 0)
  | b0 :: t =>
    let x := b0.toNat
    if x < 0x80 then (x, 1)
    else if x < 0xC2 then (0xFFFD, 1)
    else if x < 0xE0 then
      match t with
      | b1 :: _ => if 0x80 ≤ b1.toNat ∧ b1.toNat ≤ 0xBF then ((x - 0xC0) * 64 + (b1.toNat - 0x80), 2) else (0xFFFD, 1)
      | _ => (0xFFFD, 1)
    else if x < 0xF0 then
      match t with
      | b1 :: b2 :: _ =>
        let lo := if x = 0xE0 then 0xA0 else 0x80
        let hi := if x = 0xED then 0x9F else 0xBF
        if lo ≤ b1.toNat ∧ b1.toNat ≤ hi ∧ 0x80 ≤ b2.toNat ∧ b2.toNat ≤ 0xBF then
          ((x - 0xE0) * 4096 + (b1.toNat - 0x80) * 64 + (b2.toNat - 0x80), 3)
        else (0xFFFD, 1)
      | _ => (0xFFFD, 1)
    else if x < 0xF5 then
      match t with
      | b1 :: b2 :: b3 :: _ =>
        let lo := if x = 0xF0 then 0x90 else 0x80
        let hi := if x = 0xF4 then 0x8F else 0xBF
        if lo ≤ b1.toNat ∧ b1.toNat ≤ hi ∧ 0x80 ≤ b2.toNat ∧ b2.toNat ≤ 0xBF ∧ 0x80 ≤ b3.toNat ∧ b3.toNat ≤ 0xBF then
          ((x - 0xF0) * 262144 + (b1.toNat - 0x80) * 4096 + (b2.toNat - 0x80) * 64 + (b3.toNat - 0x80), 4)
        else (0xFFFD, 1)
      | _ => (0xFFFD, 1)
    else (0xFFFD, 1)

/-- `unicode.IsSpace` -/
def isSpaceRune (r : Nat) : Bool :=
  (0x09 ≤ r && r ≤ 0x0D) || r == 0x20 || r == 0x85 || r == 0xA0 || r == 0x1680 ||
  (0x2000 ≤ r && r ≤ 0x200A) || r == 0x2028 || r == 0x2029 || r == 0x202F || r == 0x205F || r == 0x3000

/-- Trim leading white space (rune-wise). -/
def trimLeft : Nat → Bytes → Bytes
  | 0, b => b
  | fuel + 1, b =>
    if b.isEmpty then []
    else if isSpaceRune (decodeRune b).1 then trimLeft fuel (b.drop (decodeRune b).2) else b

/-- `utf8.DecodeLastRune`: the last rune of `b` and its width. -/
def decodeLastRune (b : Bytes) : Nat × Nat :=
  let n := b.length
  if n = 0 then (0xFFFD, 0)
  else
    let last := (b.getD (n - 1) 0).toNat
    if last < 0x80 then (last, 1)
    else
      -- look back at most 4 bytes for a start byte such that the rune ends exactly at n
      let try_ (k : Nat) : Option (Nat × Nat) :=
        if k ≤ n then
          let (r, w) := decodeRune (b.drop (n - k))
          if w = k ∧ ¬ (r = 0xFFFD ∧ k = 1) then some (r, w) else none
        else none
      let isCont (i : Nat) : Bool := let x := (b.getD i 0).toNat; 0x80 ≤ x && x < 0xC0
      -- Go scans backwards over continuation bytes to find the start, limited to UTFMax
      let start :=
        if ¬ isCont (n - 1) then n - 1
        else if n ≥ 2 ∧ ¬ isCont (n - 2) then n - 2
        else if n ≥ 3 ∧ ¬ isCont (n - 3) then n - 3
        else if n ≥ 4 ∧ ¬ isCont (n - 4) then n - 4
        else n - 1
      match try_ (n - start) with
      | some rw => rw
      | none => (0xFFFD, 1)

def trimRight : Nat → Bytes → Bytes
  | 0, b => b
  | fuel + 1, b =>
    if b.isEmpty then []
    else if isSpaceRune (decodeLastRune b).1 then trimRight fuel (b.take (b.length - (decodeLastRune b).2)) else b

/-- `strings.TrimSpace` -/
def trimSpace (b : Bytes) : Bytes := trimRight (b.length + 1) (trimLeft (b.length + 1) b)

/-- `strings.Split(s, " ")` -/
def splitSpace (b : Bytes) : List Bytes :=
  let rec go (cur : Bytes) : Bytes → List Bytes
    | [] => [cur.reverse]
    | x :: xs => if x = 32 then cur.reverse :: go [] xs else go (x :: cur) xs
  go [] b

/-- `strconv.ParseUint(s, 10, 32)`: decimal digits only, value below 2^32. -/
def parseUint32 (b : Bytes) : Option Nat :=
  if b.isEmpty then none
  else if b.all (fun c => 48 ≤ c.toNat && c.toNat ≤ 57) then
    let v := b.foldl (fun acc c => acc * 10 + (c.toNat - 48)) 0
    if v < 4294967296 then some v else none
  else none

/-- `reader.ReadString('\n')`: everything up to and including the first LF. -/
def readLine (inp : Bytes) : Option (Bytes × Bytes) :=
  let rec go (acc : Bytes) : Bytes → Option (Bytes × Bytes)
    | [] => none
    | x :: xs => if x = 10 then some ((x :: acc).reverse, xs) else go (x :: acc) xs
  go [] inp

/-- The command words of the text protocol, as bytes (checked against the regenerated list of
    `case` labels of `TextParser.Parse` by `words_match_source`). -/
def wSet : Bytes := [115, 101, 116]
def wAdd : Bytes := [97, 100, 100]
def wReplace : Bytes := [114, 101, 112, 108, 97, 99, 101]
def wAppend : Bytes := [97, 112, 112, 101, 110, 100]
def wPrepend : Bytes := [112, 114, 101, 112, 101, 110, 100]
def wGet : Bytes := [103, 101, 116]
def wDelete : Bytes := [100, 101, 108, 101, 116, 101]
def wTouch : Bytes := [116, 111, 117, 99, 104]
def wNoop : Bytes := [110, 111, 111, 112]
def wQuit : Bytes := [113, 117, 105, 116]
def wVersion : Bytes := [118, 101, 114, 115, 105, 111, 110]
def wStats : Bytes := [115, 116, 97, 116, 115]

theorem words_match_source :
    Gen.textCommandWordBytes = [wSet, wAdd, wReplace, wAppend, wPrepend, wGet, wDelete, wTouch, wNoop, wQuit, wVersion, wStats] := by
  decide

/-- textprot `setRequest` -/
def textSet (k : SetKind) (parts : List Bytes) (rest : Bytes) : PRes :=
  match parts with
  | [_, key, fl, ex, len] =>
    match parseUint32 (trimSpace fl) with
    | none => failWith k.reqType (.app .badFlags) rest 0
    | some flags =>
    match parseUint32 (trimSpace ex) with
    | none => failWith k.reqType (.app .badExptime) rest 0
    | some exptime =>
    match parseUint32 (trimSpace len) with
    | none => failWith k.reqType (.app .badLength) rest 0
    | some length =>
      match readN length rest with
      | none => failWith k.reqType (.app .internal) [] length
      | some (data, rest1) =>
        -- r.ReadString('\n'): consume through the next LF (whatever precedes it); EOF is ignored
        let rest2 := match readLine rest1 with
          | some (_, r) => r
          | none => []
        { cmd := some (.store k { key := key, flags := flags, exptime := exptime, data := data }),
          rt := k.reqType, rest := rest2, alloc := length }
  | _ => failWith k.reqType (.app .badRequest) rest 0

/-- `TextParser.Parse` -/
def textParse (inp : Bytes) : PRes :=
  match readLine inp with
  | none => failWith .unknown .eof [] 0
  | some (line, rest) =>
    let parts := splitSpace (trimSpace line)
    let cmd := parts.headD []
    if cmd = wSet then textSet .set parts rest
    else if cmd = wAdd then textSet .add parts rest
    else if cmd = wReplace then textSet .replace parts rest
    else if cmd = wAppend then textSet .append parts rest
    else if cmd = wPrepend then textSet .prepend parts rest
    else if cmd = wGet then
      if parts.length < 2 then failWith .get (.app .badRequest) rest 0
      else { cmd := some (.get { keys := parts.tail.map fun k => { key := k } }), rt := .get, rest := rest }
    else if cmd = wDelete then
      match parts with
      | [_, key] => { cmd := some (.delete { key := key }), rt := .delete, rest := rest }
      | _ => failWith .delete (.app .badRequest) rest 0
    else if cmd = wTouch then
      match parts with
      | [_, key, ex] =>
        match parseUint32 (trimSpace ex) with
        | some e => { cmd := some (.touch { key := key, exptime := e }), rt := .touch, rest := rest }
        | none => failWith .set (.app .badRequest) rest 0
      | _ => failWith .touch (.app .badRequest) rest 0
    else if cmd = wNoop then
      if parts.length = 1 then { cmd := some (.noop 0), rt := .noop, rest := rest } else failWith .noop (.app .badRequest) rest 0
    else if cmd = wQuit then
      if parts.length = 1 then { cmd := some (.quit 0 false), rt := .quit, rest := rest } else failWith .quit (.app .badRequest) rest 0
    else if cmd = wVersion then
      if parts.length = 1 then { cmd := some (.version 0), rt := .version, rest := rest } else failWith .quit (.app .badRequest) rest 0
    else if cmd = wStats then
      if parts.length = 1 then { cmd := some (.stat 0), rt := .stat, rest := rest } else failWith .quit (.app .badRequest) rest 0
    else { cmd := none, rt := .unknown, err := none, rest := rest }

end Rend.Wire

/-
  The client-level specification: what a single memcached-style map answers to each client
  command.  This is the oracle of C01/C02/C03/C09/C10/C14/C17.  Core-only.
-/
import Rend.Types

namespace Rend

/-- Semantic content of the reply to one command. -/
inductive SOut where
  | ok                                                   -- success acknowledgement
  | fail                                                 -- refused (exists / not found / not stored)
  | gets (rs : List (GetKey × Option (Nat × Bytes)))     -- per requested key: hit (flags, data) or miss
  | gat (r : Option (Nat × Bytes))
  | other                                                -- noop / version / stat / quit / unknown: not data-bearing
  deriving Repr, DecidableEq, Inhabited

def specGets (now : Nat) (s : Store) : List GetKey → List (GetKey × Option (Nat × Bytes))
  | [] => []
  | g :: rest =>
    (g, (s.look now g.key).map fun it => (it.flags, it.data)) :: specGets now s rest

/-- One client command against the single map. -/
def Spec.step (now : Nat) (s : Store) (c : Cmd) : Store × SOut :=
  match c with
  | .store k sc =>
    match Mc.exec now s { op := k.op, key := sc.key, flags := sc.flags, exptime := sc.exptime, value := sc.data } with
    | (s', .ok) => (s', .ok)
    | (s', _) => (s', .fail)
  | .get g => (s, .gets (specGets now s g.keys))
  | .getE g => (s, .gets (specGets now s g.keys))
  | .gat k =>
    match Mc.exec now s { op := .gat, key := k.key, exptime := k.exptime } with
    | (s', .hit f _ d) => (s', .gat (some (f, d)))
    | (s', _) => (s', .gat none)
  | .delete k =>
    match Mc.exec now s { op := .delete, key := k.key } with
    | (s', .ok) => (s', .ok)
    | (s', _) => (s', .fail)
  | .touch k =>
    match Mc.exec now s { op := .touch, key := k.key, exptime := k.exptime } with
    | (s', .ok) => (s', .ok)
    | (s', _) => (s', .fail)
  | _ => (s, .other)

end Rend

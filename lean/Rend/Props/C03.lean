/-
  C03 — Under the locking wrapper, concurrent commands on one key are atomic.

  What is proved: (1) the lock set behaves as an exclusion device for every schedule of any number
  of connections: a stripe held by a writer has no other holder, in single-reader mode no stripe
  ever has two holders; (2) which lock each command takes (regenerated facts: write lock for
  every mutating command and get-and-touch, read lock per key for get), that both ports use ONE
  lock set, and that a key always maps to the same stripe; (3) each connection holds at most one
  lock at a time and its commands are whole critical sections (C12); (4) backend requests on
  different keys commute (C14); (5) THE REDUCTION, for exclusive locks (every mutating command
  and get-and-touch always; gets too in single-reader mode): any number of connections, each
  running a single-key command's orchestrator program between Lock() and Unlock() of its key's
  stripe, scheduled in ANY way the lock table admits at the granularity of single backend
  requests — every finished command returned and emitted what it does when the commands run whole,
  one after another, in the order of their lock acquisitions (`C03_serializable`), and that
  sequential run is answered as the single map answers it (C01) — `C03_linearizable`;
  (6) with SHARED read locks for gets (multi-reader mode, memproxy's default), where two gets of
  one key may interleave their L1 back-fills and the run need not equal a sequential run of the
  implementation request by request: every admitted schedule is still answered, command by
  command, as the single map answers the commands in lock-acquisition order, and L2 is that map
  at the end (`C03_linearizable_shared_reads`; a get, answered at each of its requests from ANY
  state its key can be in during a read phase, keeps the key in that class and returns L2's
  value: `Proofs/ReaderStable.lean`, `ReaderGet.lean`, `SerialMR.lean`).
  The correspondence explores every admitted interleaving of small programs in both modes and
  checks linearizability of each history.
-/
import Rend.Props.C12
import Rend.Props.C14
import Rend.Proofs.KeyLocal
import Rend.Proofs.SerialMR
import Rend.Proofs.ChunkedSerial
import Rend.Proofs.ChunkedSerial2
import Rend.Proofs.ChunkedSerial3

namespace Rend.Props.C03
open Rend

/-- A holder of a stripe: (connection, stripe, read mode). -/
abbrev Holder := Nat × Nat × Bool

/-- Lock events of all connections, interleaved. -/
inductive LEv where
  | acq (c s : Nat) (read : Bool)
  | rel (c s : Nat) (read : Bool)

/-- Two holders are compatible: different stripes, or both readers of a multi-reader lock. -/
def Compat (singleReader : Bool) (x y : Holder) : Prop :=
  x.2.1 ≠ y.2.1 ∨ (x.2.2 = true ∧ y.2.2 = true ∧ singleReader = false)

instance (sr : Bool) (x y : Holder) : Decidable (Compat sr x y) := by unfold Compat; infer_instance

/-- What `sync.Mutex` / `sync.RWMutex` admit: an acquisition succeeds only when it is compatible
    with every current holder (modelled, not verified). -/
def admits (sr : Bool) (held : List Holder) (n : Holder) : Prop := ∀ x ∈ held, Compat sr x n

/-- The schedules the lock set admits, from a given set of holders. -/
inductive Admitted (sr : Bool) : List Holder → List LEv → List Holder → Prop where
  | nil (h) : Admitted sr h [] h
  | acq (h h') (c s read rest) : admits sr h (c, s, read) → Admitted sr (h ++ [(c, s, read)]) rest h' →
      Admitted sr h (.acq c s read :: rest) h'
  | rel (h h') (c s read rest) : Admitted sr (h.erase (c, s, read)) rest h' → Admitted sr h (.rel c s read :: rest) h'

/-- The exclusion invariant. -/
def Excl (sr : Bool) (held : List Holder) : Prop := held.Pairwise (Compat sr)

theorem compat_symm (sr : Bool) (x y : Holder) (h : Compat sr x y) : Compat sr y x := by
  rcases h with h | ⟨a, b, c⟩
  · exact Or.inl (Ne.symm h)
  · exact Or.inr ⟨b, a, c⟩

/-- **Mutual exclusion for every schedule**: whatever the interleaving of any number of
    connections' lock operations, the set of holders always satisfies the exclusion invariant. -/
theorem C03_exclusion (sr : Bool) : ∀ (h : List Holder) (evs : List LEv) (h' : List Holder),
    Admitted sr h evs h' → Excl sr h → Excl sr h' := by
  intro h evs h' ha
  induction ha with
  | nil h => exact id
  | acq h h' c s read rest hadm _ ih =>
    intro hex
    apply ih
    unfold Excl
    rw [List.pairwise_append]
    exact ⟨hex, List.pairwise_singleton _ _, fun x hx y hy => by
      simp only [List.mem_singleton] at hy; subst hy; exact hadm x hx⟩
  | rel h h' c s read rest _ ih =>
    intro hex
    exact ih (List.Pairwise.sublist (List.erase_sublist ..) hex)

/-- A stripe held by a writer has no other holder; in single-reader mode no stripe has two holders. -/
theorem C03_writer_alone (sr : Bool) (held : List Holder) (hex : Excl sr held) (i j : Nat) (hi : i < held.length)
    (hj : j < held.length) (hij : i < j) (hs : held[i].2.1 = held[j].2.1) :
    held[i].2.2 = true ∧ held[j].2.2 = true ∧ sr = false := by
  have := List.pairwise_iff_getElem.mp hex i j hi hj hij
  rcases this with h | h
  · exact absurd hs h
  · exact h

/-- Which lock a command takes (regenerated facts): write lock for every mutating command and
    get-and-touch, read lock for get / getE; the wrapper calls the wrapped method of the same
    name; both ports of memproxy share one lock set, the batch port wraps `L1L2Batch`, and what each
    port's `ListenAndServe` is handed IS the variable the wrapper was assigned to. -/
theorem C03_lock_modes :
    (∀ n ∈ ["Set", "Add", "Replace", "Append", "Prepend", "Delete", "Touch", "Gat"],
      (lockedFact n).usesLock = true ∧ (lockedFact n).readLock = false) ∧
    (∀ n ∈ ["Get", "GetE"], (lockedFact n).usesLock = true ∧ (lockedFact n).readLock = true) ∧
    Gen.memproxySharesLockSet = true ∧ Gen.memproxyBatchOrca = "L1L2Batch" ∧
    Gen.memproxyMainServesLocked = true ∧ Gen.memproxyBatchServesLocked = true := by
  decide

/-- How the lock set is wired (regenerated facts): both constructors — the one for the main port
    and the one that re-uses an existing lock set for the batch port — store the slot's write
    lockers in `locks` and its read lockers in `rlocks`; `getlock` hands out `rlocks[bucket]` for
    read mode and `locks[bucket]` otherwise, the bucket coming from the hash of the key it is
    given; every keyed method asks for the lock of the request's own key. -/
theorem C03_lock_wiring :
    Gen.lockedCtorWiring = [("Locked", "locks", "locks"), ("Locked", "rlocks", "rlocks"),
      ("LockedWithExisting", "locks", "locks"), ("LockedWithExisting", "rlocks", "rlocks")] ∧
    Gen.getlockReadField = "rlocks" ∧ Gen.getlockWriteField = "locks" ∧ Gen.getlockHashesKey = true ∧
    (∀ n ∈ ["Set", "Add", "Replace", "Append", "Prepend", "Delete", "Touch", "Gat"], (n, "req.Key") ∈ Gen.getlockKeyArg) ∧
    (∀ n ∈ ["Get", "GetE"], (n, "key") ∈ Gen.getlockKeyArg) := by
  decide

/-- The stripe is a function of the key, within the table. -/
theorem C03_stripe_function (bits : Nat) (k : Bytes) : stripeOf bits k < 2 ^ bits := by
  unfold stripeOf
  exact Nat.mod_lt _ (Nat.two_pow_pos bits)

/-- Requests of different keys commute (from C14): the swap step of the reduction. -/
theorem C03_swap (now1 now2 : Nat) (s : Store) (r1 r2 : Req) (h : r1.key ≠ r2.key) :
    (Mc.exec now2 (Mc.exec now1 s r1).1 r2).1 = (Mc.exec now1 (Mc.exec now2 s r2).1 r1).1 ∧
    (Mc.exec now1 s r1).2 = (Mc.exec now1 (Mc.exec now2 s r2).1 r1).2 ∧
    (Mc.exec now2 (Mc.exec now1 s r1).1 r2).2 = (Mc.exec now2 s r2).2 :=
  C14.C14_requests_commute now1 now2 s r1 r2 h

/-! ### the reduction -/

open Conc in
/-- Command `i`: arrives on port `ports i`, is `cmds i`, works on key `keys i`; between `Lock()`
    and `Unlock()` of the key's stripe it runs the port's orchestrator over the pass-through
    handlers. -/
def threads (bits : Nat) (ports : Nat → Port) (cmds : Nat → Cmd) (keys : Nat → Bytes) : Nat → Conc.Thread (HRes Unit) :=
  fun i => { key := keys i, stripe := stripeOf bits (keys i), body := portStep (ports i) (cmds i) }

/-- The commands as a sequential history, in a given order. -/
def actsOf (ports : Nat → Port) (cmds : Nat → Cmd) (order : List Nat) : List Act :=
  order.map (fun i => Act.cmd (ports i) (cmds i))

theorem seqObs_eq_runActs (now bits : Nat) (ports : Nat → Port) (cmds : Nat → Cmd) (keys : Nat → Bytes) :
    ∀ (order : List Nat) (w : World),
      Conc.seqObs now (threads bits ports cmds keys) w order = runActs now w [] (actsOf ports cmds order) ∧
      Conc.seqEnd now (threads bits ports cmds keys) w order = (endActs now w [] (actsOf ports cmds order)).2
  | [], w => ⟨rfl, rfl⟩
  | i :: rest, w => by
    obtain ⟨a, b⟩ := seqObs_eq_runActs now bits ports cmds keys rest ((portStep (ports i) (cmds i)).eval now w []).2.2.1
    simp only [Conc.seqObs, Conc.seqEnd, actsOf, List.map_cons, runActs, endActs, threads]
    rw [Conc.eval_nil_tk]
    exact ⟨by rw [a]; rfl, by rw [b]; rfl⟩

/-- **Serializability.**  Any number of connections, each with a single-key command, under
    exclusive stripe locks, scheduled in any admitted way, ending with nobody inside a critical
    section: both tiers hold what the sequential run in lock-acquisition order leaves, and the
    commands, listed in that order, returned and emitted exactly what that sequential run does. -/
theorem C03_serializable (now bits : Nat) (ports : Nat → Port) (cmds : Nat → Cmd) (keys : Nat → Bytes)
    (hk : ∀ i, cmdKey (cmds i) = some (keys i)) (w : World) (sched : List Conc.Step) (c' : Conc.Conf (HRes Unit))
    (hex : Conc.Exec now (threads bits ports cmds keys) (Conc.Conf.init w) sched c')
    (hquiet : ∀ i p evs, c'.ts i ≠ .running p evs) :
    c'.w = (endActs now w [] (actsOf ports cmds (Conc.acqOrder sched))).2 ∧
    (Conc.acqOrder sched).map c'.ts =
      (runActs now w [] (actsOf ports cmds (Conc.acqOrder sched))).map (fun o => Conc.TState.done o.1 o.2) := by
  have hbody : ∀ i, AllReqs (Conc.KeyLocal ((threads bits ports cmds keys) i).key) ((threads bits ports cmds keys) i).body :=
    fun i => portStep_keyLocal (ports i) (cmds i) (keys i) (hk i)
  have hkey : ∀ i j, ((threads bits ports cmds keys) i).key = ((threads bits ports cmds keys) j).key →
      ((threads bits ports cmds keys) i).stripe = ((threads bits ports cmds keys) j).stripe := by
    intro i j h
    simp only [threads] at h ⊢
    rw [h]
  obtain ⟨a, b⟩ := Conc.serializable_obs now _ hbody hkey w sched c' hex hquiet
  obtain ⟨e1, e2⟩ := seqObs_eq_runActs now bits ports cmds keys (Conc.acqOrder sched) w
  rw [e2] at a
  rw [e1] at b
  exact ⟨a, b⟩

/-- **Linearizability against the single map.**  With the cache invariant at the start and
    commands the two-tier orchestrators accept: there is a sequential history — the commands in
    lock-acquisition order — whose observations the single-map specification agrees with one by
    one, which are exactly what the concurrent commands returned and emitted, and at the end L2 is
    the specification's map and the cache invariant holds again. -/
theorem C03_linearizable (now bits : Nat) (ports : Nat → Port) (cmds : Nat → Cmd) (keys : Nat → Bytes)
    (hk : ∀ i, cmdKey (cmds i) = some (keys i)) (htt : ∀ i, TwoTier (cmds i)) (w : World) (hinv : CacheInv now w)
    (sched : List Conc.Step) (c' : Conc.Conf (HRes Unit))
    (hex : Conc.Exec now (threads bits ports cmds keys) (Conc.Conf.init w) sched c')
    (hquiet : ∀ i p evs, c'.ts i ≠ .running p evs) :
    ∃ obs : List (HRes Unit × List OEv),
      (Conc.acqOrder sched).map c'.ts = obs.map (fun o => Conc.TState.done o.1 o.2) ∧
      AllAgree obs (specActs now w.l2 (actsOf ports cmds (Conc.acqOrder sched))) ∧
      c'.w.l2 = specEnd now w.l2 (actsOf ports cmds (Conc.acqOrder sched)) ∧
      CacheInv now c'.w := by
  obtain ⟨a, b⟩ := C03_serializable now bits ports cmds keys hk w sched c' hex hquiet
  have hacts : ActsTwoTier (actsOf ports cmds (Conc.acqOrder sched)) := by
    intro p c hmem
    simp only [actsOf, List.mem_map] at hmem
    obtain ⟨i, _, hi⟩ := hmem
    injection hi with h1 h2
    subst h2
    exact htt i
  obtain ⟨r1, r2, r3⟩ := history_refines (actsOf ports cmds (Conc.acqOrder sched)) now w [] hacts hinv
  have hnow : ∀ (acts : List Act) (n : Nat) (w0 : World), (∀ a ∈ acts, ∃ p c, a = Act.cmd p c) →
      (endActs n w0 [] acts).1 = n := by
    intro acts
    induction acts with
    | nil => intro n w0 _; rfl
    | cons a rest ih =>
      intro n w0 h
      obtain ⟨p, c, rfl⟩ := h a (List.mem_cons_self ..)
      simp only [endActs]
      rw [Conc.eval_nil_tk]
      exact ih n _ (fun x hx => h x (List.mem_cons_of_mem _ hx))
  have hn := hnow (actsOf ports cmds (Conc.acqOrder sched)) now w (by
    intro x hx
    simp only [actsOf, List.mem_map] at hx
    obtain ⟨i, _, hi⟩ := hx
    exact ⟨_, _, hi.symm⟩)
  rw [hn] at r3
  refine ⟨_, b, r1, ?_, ?_⟩
  · rw [a]; exact r2
  · rw [a]; exact r3

/-- **Linearizability, both lock modes** (`reads i = true`: connection `i` is a single-key get
    holding the SHARED read lock of its key — multi-reader mode, memproxy's default; every other
    command, and every get in single-reader mode, holds its stripe exclusively).  Any number of
    connections on both ports, any schedule the lock table admits at the granularity of single
    backend requests, ending with nobody inside a critical section: the commands, listed in the
    order of their lock acquisitions, returned and emitted what the single map answers when they
    are applied in that order; at the end L2 is that map and the cache invariant holds. -/
theorem C03_linearizable_shared_reads (now bits : Nat) (ports : Nat → Port) (cmds : Nat → Cmd) (keys : Nat → Bytes)
    (reads : Nat → Bool) (hk : ∀ i, cmdKey (cmds i) = some (keys i)) (htt : ∀ i, TwoTier (cmds i))
    (hrd : ∀ i, reads i = true → ∃ g gk, cmds i = .get g ∧ g.keys = [gk])
    (w : World) (hinv : CacheInv now w) (sched : List Conc.Step) (c' : Conc.Conf (HRes Unit))
    (hex : Conc.ExecR now (fun i => { port := ports i, cmd := cmds i, key := keys i, stripe := stripeOf bits (keys i), read := reads i })
      (Conc.Conf.init w) sched c')
    (hquiet : ∀ i p evs, c'.ts i ≠ .running p evs) :
    ∃ obs : List (HRes Unit × List OEv),
      (Conc.acqOrder sched).map c'.ts = obs.map (fun o => Conc.TState.done o.1 o.2) ∧
      AllAgree obs (specActs now w.l2 (actsOf ports cmds (Conc.acqOrder sched))) ∧
      c'.w.l2 = specEnd now w.l2 (actsOf ports cmds (Conc.acqOrder sched)) ∧
      CacheInv now c'.w :=
  Conc.linearizable_mr now _ ⟨hk, htt, hrd, fun i j h => by simp only at h ⊢; rw [h]⟩ w hinv sched c' hex hquiet

/-- Connections on a chunked L1-only deployment: the lock stripe is `stripeOf bits key`. -/
def chunkedThreads (bits : Nat) (cmds : Nat → Cmd) (keys : Nat → Bytes) : Nat → Conc.ChThread :=
  fun i => { cmd := cmds i, key := keys i, stripe := stripeOf bits (keys i) }

/-- **Serializability with a chunked L1** (L1-only deployment, exclusive stripe locks).  The
    chunking handler spreads a value over a metadata entry and numbered chunks and talks to the
    backend many times per command; still, for EVERY admitted schedule of any number of connections
    with single-key commands that ends with nobody inside a critical section, the backend holds
    what running the commands whole, one after another in lock-acquisition order, leaves, and the
    commands, listed in that order, returned and emitted exactly what that sequential run does.
    (Footprint: `l1only_chunked_footLocal` from C04's `Derived`; footprints of different client
    keys are disjoint: `chunkFoot_disjoint`.) -/
theorem C03_serializable_chunked (now bits : Nat) (cmds : Nat → Cmd) (keys : Nat → Bytes)
    (hk : ∀ i, cmdKey (cmds i) = some (keys i)) (w : World) (sched : List Conc.Step) (c' : Conc.Conf (HRes Unit))
    (hex : Conc.ExecF now (fun i => (chunkedThreads bits cmds keys i).toF now) (Conc.Conf.init w) sched c')
    (hquiet : ∀ i p evs, c'.ts i ≠ .running p evs) :
    c'.w = Conc.seqEndF now (fun i => (chunkedThreads bits cmds keys i).toF now) w (Conc.acqOrder sched) ∧
    (Conc.acqOrder sched).map c'.ts =
      (Conc.seqObsF now (fun i => (chunkedThreads bits cmds keys i).toF now) w (Conc.acqOrder sched)).map
        (fun o => Conc.TState.done o.1 o.2) :=
  Conc.serializable_chunked_obs now (chunkedThreads bits cmds keys) hk
    (fun i j h => by simp only [chunkedThreads] at h ⊢; rw [h]) w sched c' hex hquiet

/-- Connections on a deployment with a chunked L1 in front of L2 (main and batch port). -/
def chunkedThreads2 (bits : Nat) (ports : Nat → Port) (cmds : Nat → Cmd) (keys : Nat → Bytes) : Nat → Conc.ChThread2 :=
  fun i => { port := ports i, cmd := cmds i, key := keys i, stripe := stripeOf bits (keys i) }

/-- **Serializability with a chunked L1 in front of L2** (memproxy --chunked --l2-enabled): main
    port = L1L2, batch port = L1L2Batch, both over the chunking handler on L1 and the pass-through
    handler on L2, exclusive stripe locks, EVERY set of client keys.  Footprints are per tier
    (`Proofs/SerialFootT.lean`): client key `k` owns `(L2, k)` and `(L1, k-meta)`, `(L1, k-0)`, …;
    every backend request of a single-key command stays inside (`portStepC_footT`: the handler's
    requests carry their tier, `Proofs/ChunkedTier.lean`), and footprints of different client keys
    are disjoint whatever the keys look like (`footT_disjoint`: the L2 entry `a-0` of client key
    `a-0` and chunk 0 of client key `a` are in different stores).  Hence for every admitted
    schedule that ends with nobody inside a critical section both backends hold what running the
    commands whole, one after another in lock-acquisition order, leaves, and the commands, in that
    order, returned and emitted exactly what that sequential run does. -/
theorem C03_serializable_chunked_two_tier (now bits : Nat) (ports : Nat → Port) (cmds : Nat → Cmd) (keys : Nat → Bytes)
    (hk : ∀ i, cmdKey (cmds i) = some (keys i))
    (w : World) (sched : List Conc.Step) (c' : Conc.Conf (HRes Unit))
    (hex : Conc.ExecT now (fun i => (chunkedThreads2 bits ports cmds keys i).toT now) (Conc.Conf.init w) sched c')
    (hquiet : ∀ i p evs, c'.ts i ≠ .running p evs) :
    c'.w = Conc.seqEndT now (fun i => (chunkedThreads2 bits ports cmds keys i).toT now) w (Conc.acqOrder sched) ∧
    (Conc.acqOrder sched).map c'.ts =
      (Conc.seqObsT now (fun i => (chunkedThreads2 bits ports cmds keys i).toT now) w (Conc.acqOrder sched)).map
        (fun o => Conc.TState.done o.1 o.2) :=
  Conc.serializable_chunked2 now (chunkedThreads2 bits ports cmds keys) hk
    (fun i j h => by simp only [chunkedThreads2] at h ⊢; rw [h]) w sched c' hex hquiet

/-- Non-vacuity: client keys `a` and `a-0` (the second has the form of chunk 0 of the first) have
    disjoint footprints — the theorem covers them — while their tier-agnostic footprints meet. -/
example : (∀ l, Conc.footT [97] l → ¬ Conc.footT (Chunked.chunkKey [97] 0) l) ∧
    Conc.foot2 [97] (Chunked.chunkKey [97] 0) ∧ Conc.foot2 (Chunked.chunkKey [97] 0) (Chunked.chunkKey [97] 0) := by
  refine ⟨fun l h h' => ?_, Or.inr (Or.inr ⟨0, rfl⟩), Or.inl rfl⟩
  have := Conc.footT_disjoint _ _ l h h'
  exact absurd (congrArg List.length this) (by simp [Chunked.chunkKey])

/-- Non-vacuity (chunked): `set a` and `delete a` — the first connection's acquisition is admitted,
    the second one cannot enter while the first is inside; a connection on another stripe can. -/
example : ∀ c1, Conc.Step1F 100 (fun i => (chunkedThreads 3 (fun i => if i = 0 then .store .set { key := [97], data := [1] } else .delete { key := [97] })
      (fun _ => [97]) i).toF 100) (Conc.Conf.init {}) (.acq 0) c1 →
    ∀ c2, ¬ Conc.Step1F 100 (fun i => (chunkedThreads 3 (fun i => if i = 0 then .store .set { key := [97], data := [1] } else .delete { key := [97] })
      (fun _ => [97]) i).toF 100) c1 (.acq 1) c2 := by
  intro c1 h1 c2 h2
  cases h1 with
  | acq _ _ _ =>
    cases h2 with
    | acq _ _ hfree => exact hfree 0 _ _ (Conc.set_self _ _ _) rfl

/-- Non-vacuity: two gets of one key under shared read locks may both be inside their critical
    sections (admitted), a set may not join them. -/
example : ∀ c1, Conc.StepR 100 (fun i => { port := .main, cmd := .get { keys := [{ key := [97] }] }, key := [97], stripe := stripeOf 3 [97], read := true })
      (Conc.Conf.init {}) (.acq 0) c1 →
    ∃ c2, Conc.StepR 100 (fun i => { port := .main, cmd := .get { keys := [{ key := [97] }] }, key := [97], stripe := stripeOf 3 [97], read := true }) c1 (.acq 1) c2 := by
  intro c1 h1
  cases h1 with
  | acq _ _ _ =>
    refine ⟨_, Conc.StepR.acq _ 1 ?_ ?_⟩
    · rw [Conc.set_other _ _ _ _ (by decide)]; rfl
    · intro j p evs _ _; exact ⟨rfl, rfl⟩

/-- Non-vacuity of the reduction: two connections, `set a` and `delete a` on the main port; the
    schedule in which the second one has to wait is admitted, and one in which it enters the
    first one's critical section is not. -/
example : ∃ c', Conc.Exec 100 (threads 3 (fun _ => .main)
      (fun i => if i = 0 then .store .set { key := [97], data := [1] } else .delete { key := [97] }) (fun _ => [97]))
      (Conc.Conf.init {}) [.acq 0] c' :=
  ⟨_, Conc.Exec.cons _ _ _ _ _ (Conc.Step1.acq _ 0 rfl (fun j p evs h => by simp [Conc.Conf.init] at h)) (Conc.Exec.nil _)⟩

example : ∀ c1 c', Conc.Step1 100 (threads 3 (fun _ => .main)
      (fun i => if i = 0 then .store .set { key := [97], data := [1] } else .delete { key := [97] }) (fun _ => [97]))
      (Conc.Conf.init {}) (.acq 0) c1 → ¬ Conc.Step1 100 (threads 3 (fun _ => .main)
      (fun i => if i = 0 then .store .set { key := [97], data := [1] } else .delete { key := [97] }) (fun _ => [97]))
      c1 (.acq 1) c' := by
  intro c1 c' h1 h2
  cases h1 with
  | acq _ _ _ =>
    cases h2 with
    | acq _ _ hfree => exact hfree 0 _ _ (Conc.set_self _ _ _) rfl

/-- Non-vacuity: two writers on one stripe are not admitted, two readers are (multi-reader mode only). -/
example : ¬ Excl false [(1, 3, false), (2, 3, false)] := by
  unfold Excl; simp [Compat]
example : Excl false [(1, 3, true), (2, 3, true)] := by
  unfold Excl; simp [Compat]
example : ¬ Excl true [(1, 3, true), (2, 3, true)] := by
  unfold Excl; simp [Compat]

end Rend.Props.C03

/-
  C03 — Under the locking wrapper, concurrent commands on one key are atomic.

  What is proved: (1) the lock set behaves as an exclusion device for every schedule of any number
  of connections: a stripe held by a writer has no other holder, in single-reader mode no stripe
  ever has two holders; (2) which lock each command takes (regenerated facts: write lock for
  every mutating command and get-and-touch, read lock per key for get), that both ports use ONE
  lock set, and that a key always maps to the same stripe; (3) each connection holds at most one
  lock at a time and its commands are whole critical sections (C12); (4) backend requests on
  different keys commute (C14).  From these the per-key serial order — and with C01's sequential
  theorem linearizability — follows by the standard reduction argument, which is NOT formalised
  here; the correspondence explores every admitted interleaving of small programs and checks
  linearizability of each history.
-/
import Rend.Props.C12
import Rend.Props.C14

namespace Rend.Props.C03
open Rend

/-- A holder of a stripe: (connection, stripe, read mode). -/
abbrev Holder := Nat × Nat × Bool

/-- Lock events of all connections, interleaved. -/
inductive LEv where
  | acq (c s : Nat) (read : Bool)
  | rel (c s : Nat) (read : Bool)

/-- Two holders are compatible: different stripes, or both readers of a multi-reader lock. -/
def Compat (singleReader : Bool) (x y : Holder) : Prop :=
  x.2.1 ≠ y.2.1 ∨ (x.2.2 = true ∧ y.2.2 = true ∧ singleReader = false)

instance (sr : Bool) (x y : Holder) : Decidable (Compat sr x y) := by unfold Compat; infer_instance

/-- What `sync.Mutex` / `sync.RWMutex` admit: an acquisition succeeds only when it is compatible
    with every current holder (modelled, not verified). -/
def admits (sr : Bool) (held : List Holder) (n : Holder) : Prop := ∀ x ∈ held, Compat sr x n

/-- The schedules the lock set admits, from a given set of holders. -/
inductive Admitted (sr : Bool) : List Holder → List LEv → List Holder → Prop where
  | nil (h) : Admitted sr h [] h
  | acq (h h') (c s read rest) : admits sr h (c, s, read) → Admitted sr (h ++ [(c, s, read)]) rest h' →
      Admitted sr h (.acq c s read :: rest) h'
  | rel (h h') (c s read rest) : Admitted sr (h.erase (c, s, read)) rest h' → Admitted sr h (.rel c s read :: rest) h'

/-- The exclusion invariant. -/
def Excl (sr : Bool) (held : List Holder) : Prop := held.Pairwise (Compat sr)

theorem compat_symm (sr : Bool) (x y : Holder) (h : Compat sr x y) : Compat sr y x := by
  rcases h with h | ⟨a, b, c⟩
  · exact Or.inl (Ne.symm h)
  · exact Or.inr ⟨b, a, c⟩

/-- **Mutual exclusion for every schedule**: whatever the interleaving of any number of
    connections' lock operations, the set of holders always satisfies the exclusion invariant. -/
theorem C03_exclusion (sr : Bool) : ∀ (h : List Holder) (evs : List LEv) (h' : List Holder),
    Admitted sr h evs h' → Excl sr h → Excl sr h' := by
  intro h evs h' ha
  induction ha with
  | nil h => exact id
  | acq h h' c s read rest hadm _ ih =>
    intro hex
    apply ih
    unfold Excl
    rw [List.pairwise_append]
    exact ⟨hex, List.pairwise_singleton _ _, fun x hx y hy => by
      simp only [List.mem_singleton] at hy; subst hy; exact hadm x hx⟩
  | rel h h' c s read rest _ ih =>
    intro hex
    exact ih (List.Pairwise.sublist (List.erase_sublist ..) hex)

/-- A stripe held by a writer has no other holder; in single-reader mode no stripe has two holders. -/
theorem C03_writer_alone (sr : Bool) (held : List Holder) (hex : Excl sr held) (i j : Nat) (hi : i < held.length)
    (hj : j < held.length) (hij : i < j) (hs : held[i].2.1 = held[j].2.1) :
    held[i].2.2 = true ∧ held[j].2.2 = true ∧ sr = false := by
  have := List.pairwise_iff_getElem.mp hex i j hi hj hij
  rcases this with h | h
  · exact absurd hs h
  · exact h

/-- Which lock a command takes (regenerated facts): write lock for every mutating command and
    get-and-touch, read lock for get / getE; the wrapper calls the wrapped method of the same
    name; both ports of memproxy share one lock set, and the batch port wraps `L1L2Batch`. -/
theorem C03_lock_modes :
    (∀ n ∈ ["Set", "Add", "Replace", "Append", "Prepend", "Delete", "Touch", "Gat"],
      (lockedFact n).usesLock = true ∧ (lockedFact n).readLock = false) ∧
    (∀ n ∈ ["Get", "GetE"], (lockedFact n).usesLock = true ∧ (lockedFact n).readLock = true) ∧
    Gen.memproxySharesLockSet = true ∧ Gen.memproxyBatchOrca = "L1L2Batch" := by
  decide

/-- How the lock set is wired (regenerated facts): both constructors — the one for the main port
    and the one that re-uses an existing lock set for the batch port — store the slot's write
    lockers in `locks` and its read lockers in `rlocks`; `getlock` hands out `rlocks[bucket]` for
    read mode and `locks[bucket]` otherwise, the bucket coming from the hash of the key it is
    given; every keyed method asks for the lock of the request's own key. -/
theorem C03_lock_wiring :
    Gen.lockedCtorWiring = [("Locked", "locks", "locks"), ("Locked", "rlocks", "rlocks"),
      ("LockedWithExisting", "locks", "locks"), ("LockedWithExisting", "rlocks", "rlocks")] ∧
    Gen.getlockReadField = "rlocks" ∧ Gen.getlockWriteField = "locks" ∧ Gen.getlockHashesKey = true ∧
    (∀ n ∈ ["Set", "Add", "Replace", "Append", "Prepend", "Delete", "Touch", "Gat"], (n, "req.Key") ∈ Gen.getlockKeyArg) ∧
    (∀ n ∈ ["Get", "GetE"], (n, "key") ∈ Gen.getlockKeyArg) := by
  decide

/-- The stripe is a function of the key, within the table. -/
theorem C03_stripe_function (bits : Nat) (k : Bytes) : stripeOf bits k < 2 ^ bits := by
  unfold stripeOf
  exact Nat.mod_lt _ (Nat.two_pow_pos bits)

/-- Requests of different keys commute (from C14): the swap step of the reduction. -/
theorem C03_swap (now1 now2 : Nat) (s : Store) (r1 r2 : Req) (h : r1.key ≠ r2.key) :
    (Mc.exec now2 (Mc.exec now1 s r1).1 r2).1 = (Mc.exec now1 (Mc.exec now2 s r2).1 r1).1 ∧
    (Mc.exec now1 s r1).2 = (Mc.exec now1 (Mc.exec now2 s r2).1 r1).2 ∧
    (Mc.exec now2 (Mc.exec now1 s r1).1 r2).2 = (Mc.exec now2 s r2).2 :=
  C14.C14_requests_commute now1 now2 s r1 r2 h

/-- Non-vacuity: two writers on one stripe are not admitted, two readers are (multi-reader mode only). -/
example : ¬ Excl false [(1, 3, false), (2, 3, false)] := by
  unfold Excl; simp [Compat]
example : Excl false [(1, 3, true), (2, 3, true)] := by
  unfold Excl; simp [Compat]
example : ¬ Excl true [(1, 3, true), (2, 3, true)] := by
  unfold Excl; simp [Compat]

end Rend.Props.C03

/-
  C13 — The batching pool survives loss of its backend connections.

  The message-level part: wherever the reply stream of a batch is cut, what HAS been routed went
  to its owners only, what has not is exactly the set of unanswered entries (whose callers get
  the retry marker), and the retry bookkeeping never loses or duplicates a key.  The goroutine
  hand-off (reader -> recovery -> reconnect with back-off -> reader) is exercised against the
  real code, not modelled.
-/
import Rend.Proofs.BatchedLemmas

namespace Rend.Props.C13
open Rend Rend.Batched

/-- **A cut at any point of the reply stream**: any sequence of distinct replies to entries of the
    batch in flight — any order, any number, so every prefix of every reply order — is routed
    without an out-of-sync panic, each reply to the entry that owns its opaque; the entries left
    in the table are exactly those not answered. -/
theorem C13_cut_anywhere (base : Nat) (rs : List BReq) (hspan : span rs < 4294967296) (counts : List (Nat × Nat))
    (ws : List Nat) (hnd : ws.Nodup) (hsub : ∀ w ∈ ws, w ∈ (assign (w32 base) rs).2.1.map (·.wire)) :
    ∃ s' hs, deliverAll ⟨(assign (w32 base) rs).2.1, counts⟩ ws = some (s', hs) ∧ hs.map (·.wire) = ws ∧
      (∀ h ∈ hs, h ∈ (assign (w32 base) rs).2.1) ∧
      (∀ w, w ∈ s'.table.map (·.wire) ↔ (w ∈ (assign (w32 base) rs).2.1.map (·.wire) ∧ w ∉ ws)) := by
  obtain ⟨s', hs, h1, h2, h3, _, h5⟩ := deliverAll_ok ws ⟨(assign (w32 base) rs).2.1, counts⟩
    (wires_nodup base rs hspan) hnd hsub
  exact ⟨s', hs, h1, h2, h3, h5⟩

/-- The recovery step: every channel of the abandoned batch that is still owed replies gets
    exactly one retry marker; channels that were fully served get none. -/
def recoveryMarkers (counts : List (Nat × Nat)) : List Nat := (counts.filter (fun c => c.2 > 0)).map (·.1)

theorem C13_markers (counts : List (Nat × Nat)) (ch : Nat) :
    ch ∈ recoveryMarkers counts ↔ ∃ n, (ch, n) ∈ counts ∧ n > 0 := by
  simp only [recoveryMarkers, List.mem_map, List.mem_filter]
  constructor
  · rintro ⟨⟨c, n⟩, ⟨hm, hn⟩, rfl⟩; exact ⟨n, hm, by simpa using hn⟩
  · rintro ⟨n, hm, hn⟩; exact ⟨(ch, n), ⟨hm, by simpa using hn⟩, rfl⟩

/-- **Retries never present a partial answer as complete, nor duplicate a key**: after any number
    of tries, answered ++ still-to-ask is a permutation of what was requested; the get is complete
    exactly when nothing remains. -/
theorem C13_retry_bookkeeping (requested answered : List BKey) (h : AnswersOf requested answered) :
    (answered ++ Batched.remaining requested answered).Perm requested ∧
    (Batched.remaining requested answered = [] → answered.Perm requested) := by
  have hp := remaining_perm answered requested h
  refine ⟨hp, ?_⟩
  intro he
  rw [he, List.append_nil] at hp
  exact hp

end Rend.Props.C13

/-
  C18 — Metrics report what happened.

  `lzcntPortable`, `getBucket`, `bucketValues`, `powerOf4Index` and `lzcntAsm` are REGENERATED
  from metrics/lzcnt.go, metrics/histograms.go and metrics/lzcnt_amd64.s on every run.
-/
import Rend.Gen.Pure
import Rend.Gen.Asm
import Rend.Metrics.Hist
import Rend.Proofs.AsmLemmas

namespace Rend.Props.C18
open Rend Rend.Gen Rend.Metrics

/-! ### Bit counting -/

/-- The portable routine counts leading zeros: for x ≠ 0 its result c satisfies 2^(63-c) ≤ x < 2^(64-c). -/
theorem lzcntPortable_spec (x : BitVec 64) (hx : x ≠ 0#64) :
    (lzcntPortable x).toNat ≤ 63 ∧ 2 ^ (63 - (lzcntPortable x).toNat) ≤ x.toNat ∧
      x.toNat < 2 ^ (64 - (lzcntPortable x).toNat) := by
  have hlt := x.isLt
  have hne : x.toNat ≠ 0 := fun h => hx (BitVec.eq_of_toNat_eq (by simpa using h))
  unfold lzcntPortable
  simp only [beq_iff_eq, hx, if_false, ← BitVec.toNat_inj, BitVec.toNat_ushiftRight,
    BitVec.toNat_ofNat, Nat.shiftRight_eq_div_pow]
  split <;> split <;> split <;> split <;> split <;>
    simp_all [BitVec.toNat_sub, Nat.shiftRight_eq_div_pow, Nat.shiftLeft_eq]
  all_goals first
    | (generalize hb : (x.toNat / 9223372036854775808 : Nat) = b
       have hb2 : b = 0 ∨ b = 1 := by omega
       rcases hb2 with rfl | rfl <;> (try simp) <;> omega)
    | (generalize hb : (_ % 18446744073709551616 / 9223372036854775808 : Nat) = b
       have hb2 : b = 0 ∨ b = 1 := by omega
       rcases hb2 with rfl | rfl <;> (try simp) <;> omega)

/-- The model used by `getBucket` has the same characterisation. -/
theorem lzcntModel_spec (x : BitVec 64) (hx : x ≠ 0#64) :
    (lzcntModel x).toNat = 63 - x.toNat.log2 ∧ x.toNat.log2 ≤ 63 := by
  have hlt := x.isLt
  have hne : x.toNat ≠ 0 := fun h => hx (BitVec.eq_of_toNat_eq (by simpa using h))
  have hl : x.toNat.log2 < 64 := (Nat.log2_lt hne).mpr (by simpa using hlt)
  simp [lzcntModel, hx]
  omega

theorem log2_unique (n c : Nat) (hn : n ≠ 0) (hc : c ≤ 63) (h1 : 2 ^ (63 - c) ≤ n) (h2 : n < 2 ^ (64 - c)) :
    n.log2 = 63 - c := by
  rw [Nat.log2_eq_iff hn]
  refine ⟨h1, ?_⟩
  have : 63 - c + 1 = 64 - c := by omega
  rw [this]; exact h2

/-- The portable routine equals the model on every 64-bit input. -/
theorem C18_lzcnt_portable (x : BitVec 64) : lzcntPortable x = lzcntModel x := by
  by_cases hx : x = 0#64
  · subst hx; decide
  · have hne : x.toNat ≠ 0 := fun h => hx (BitVec.eq_of_toNat_eq (by simpa using h))
    obtain ⟨hc, h1, h2⟩ := lzcntPortable_spec x hx
    obtain ⟨hm, _⟩ := lzcntModel_spec x hx
    have := log2_unique _ _ hne hc h1 h2
    apply BitVec.eq_of_toNat_eq
    omega

/-- The amd64 routine (BSRQ leaves its destination undefined on a zero source: `undef` is
    arbitrary) returns the same value on every input. -/
theorem C18_lzcnt_asm (undef x : BitVec 64) : runFn lzcntAsm undef x = some (lzcntModel x) := by
  by_cases hx : x = 0#64
  · subst hx; rfl
  · have hne : x.toNat ≠ 0 := fun h => hx (BitVec.eq_of_toNat_eq (by simpa using h))
    obtain ⟨hm, hl⟩ := lzcntModel_spec x hx
    have hrun : runFn lzcntAsm undef x = some (-(bsr x - 63#64)) := by
      unfold runFn
      show Option.map _ (run lzcntAsm undef 10 0 { arg := x }) = _
      rw [run_bsrq_nz lzcntAsm undef 9 0 { arg := x } (.arg "x") (.reg "AX") rfl hx]
      rw [run_jz_not lzcntAsm undef 8 1 _ "zero" rfl rfl]
      rw [run_subq lzcntAsm undef 7 2 _ (.imm 63) (.reg "AX") rfl]
      rw [run_negq lzcntAsm undef 6 3 _ (.reg "AX") rfl]
      rw [run_movq lzcntAsm undef 5 4 _ (.reg "AX") .result rfl]
      rw [run_ret lzcntAsm undef 4 5 _ rfl]
      rfl
    rw [hrun]
    congr 1
    apply BitVec.eq_of_toNat_eq
    rw [hm]
    have hb : (bsr x).toNat = x.toNat.log2 := by
      simp only [bsr, BitVec.toNat_ofNat]
      exact Nat.mod_eq_of_lt (by omega)
    simp only [BitVec.toNat_neg, BitVec.toNat_sub, hb, BitVec.toNat_ofNat]
    omega

/-- Hence the assembly routine agrees with the portable one on every input. -/
theorem C18_lzcnt_agree (undef x : BitVec 64) : runFn lzcntAsm undef x = some (lzcntPortable x) := by
  rw [C18_lzcnt_asm, C18_lzcnt_portable]

/-! ### Bucketing -/

theorem shr_top (n : BitVec 64) (r : Nat) (h1 : 2 ^ r ≤ n.toNat) (h2 : n.toNat < 2 ^ (r + 1)) :
    n >>> r = 1#64 := by
  apply BitVec.eq_of_toNat_eq
  simp only [BitVec.toNat_ushiftRight, Nat.shiftRight_eq_div_pow, BitVec.toNat_ofNat]
  have : n.toNat / 2 ^ r = 1 := by
    apply Nat.div_eq_of_lt_le
    · simpa using h1
    · rw [Nat.pow_succ] at h2; omega
  rw [this]

/-- Clearing the lowest bit (`x &^ 1`, the other way the source may round the shift down to even). -/
theorem andnot_one : ∀ r : Fin 64, (BitVec.ofNat 64 r.val &&& ~~~(1#64)) = BitVec.ofNat 64 (r.val - r.val % 2) := by
  decide

theorem getBucket_formula (n : BitVec 64) (r : Nat) (hr4 : 4 ≤ r) (hr : r ≤ 63)
    (h1 : 2 ^ r ≤ n.toNat) (h2 : n.toNat < 2 ^ (r + 1)) :
    (getBucket n).toNat =
      min 275 ((n.toNat - 2 ^ (r - r % 2)) / (2 ^ (r - r % 2) / 3) + powerOf4Index.getD ((r - r % 2) / 2) 0 + 1) := by
  have hpos : 0 < 2 ^ r := Nat.pow_pos (by decide)
  have hne : n.toNat ≠ 0 := by omega
  have hlog : n.toNat.log2 = r := (Nat.log2_eq_iff hne).mpr ⟨h1, h2⟩
  have hnz : n ≠ 0#64 := fun h => hne (by simp [h])
  have h16 : 16 ≤ n.toNat := by
    have : 2 ^ 4 ≤ 2 ^ r := Nat.pow_le_pow_right (by decide) hr4
    omega
  have hle : ¬ (n ≤ 15#64) := by simp [BitVec.le_def]; omega
  unfold getBucket
  simp only [hle, decide_false, Bool.false_eq_true, if_false, lzcntModel, hlog, hnz]
  have hrs : (64#64 - BitVec.ofNat 64 (64 - r - 1) - 1#64) = BitVec.ofNat 64 r := by
    apply BitVec.eq_of_toNat_eq
    simp [BitVec.toNat_sub]
    omega
  rw [hrs]
  have hrt : (BitVec.ofNat 64 r).toNat = r := by simp; omega
  have hl : (if (BitVec.ofNat 64 r &&& 1#64 == 1#64) = true then BitVec.ofNat 64 r - 1#64 else BitVec.ofNat 64 r)
      = BitVec.ofNat 64 (r - r % 2) := by
    have hand : (BitVec.ofNat 64 r &&& 1#64).toNat = r % 2 := by
      simp [BitVec.toNat_and, Nat.and_one_is_mod]
    apply BitVec.eq_of_toNat_eq
    by_cases hodd : r % 2 = 1
    · have : (BitVec.ofNat 64 r &&& 1#64) = 1#64 := by
        apply BitVec.eq_of_toNat_eq; rw [hand, hodd]; rfl
      simp [this, BitVec.toNat_sub]; omega
    · have hev : r % 2 = 0 := by omega
      have : ¬ (BitVec.ofNat 64 r &&& 1#64) = 1#64 := by
        intro h; have := congrArg BitVec.toNat h; rw [hand, hev] at this; simp at this
      simp [this]; omega
  have hl' : (BitVec.ofNat 64 r &&& ~~~(1#64)) = BitVec.ofNat 64 (r - r % 2) := andnot_one ⟨r, by omega⟩
  first
    | rw [hl]
    | simp only [hl']
  clear hl hl'
  generalize hL : r - r % 2 = l at *
  have hl4 : 4 ≤ l := by omega
  have hl62 : l ≤ 62 := by omega
  have hlr : l ≤ r := by omega
  have hlt : (BitVec.ofNat 64 l).toNat = l := by simp; omega
  rw [hrt, hlt, shr_top n r h1 h2]
  have hP : (1#64 <<< l).toNat = 2 ^ l := by
    simp [BitVec.toNat_shiftLeft, Nat.shiftLeft_eq]
    exact (show 2 ^ l < 2 ^ 64 from Nat.pow_lt_pow_right (show 1 < 2 by decide) (by omega))
  have hPle : 2 ^ l ≤ n.toNat := Nat.le_trans (Nat.pow_le_pow_right (by decide) hlr) h1
  have hP16 : 16 ≤ 2 ^ l := by
    have : 2 ^ 4 ≤ 2 ^ l := Nat.pow_le_pow_right (by decide) hl4
    omega
  have hD : ((1#64 <<< l) / 3#64).toNat = 2 ^ l / 3 := by simp [BitVec.toNat_udiv, hP]
  have hq' : ((n - 1#64 <<< l) / (1#64 <<< l / 3#64)).toNat = (n.toNat - 2 ^ l) / (2 ^ l / 3) := by
    rw [BitVec.toNat_udiv, hD, BitVec.toNat_sub, hP]
    congr 1
    have := n.isLt
    omega
  have hD2 : 2 ≤ 2 ^ l / 3 := by omega
  have hqlt : (n.toNat - 2 ^ l) / (2 ^ l / 3) < 2 ^ 63 := by
    have := Nat.div_le_div_left (a := n.toNat - 2 ^ l) hD2 (by decide)
    have := n.isLt
    omega
  have hq : ((n - 1#64 <<< l) / (1#64 <<< l / 3#64)).toInt = (((n.toNat - 2 ^ l) / (2 ^ l / 3) : Nat) : Int) := by
    rw [BitVec.toInt_eq_toNat_cond, hq']
    split
    · rfl
    · omega
  have hidx : ((BitVec.ofNat 64 l / 2#64).toNat : Int).toNat = l / 2 := by
    simp [BitVec.toNat_udiv, hlt]
    omega
  rw [hq, hidx]
  generalize (n.toNat - 2 ^ l) / (2 ^ l / 3) = q at *
  generalize powerOf4Index.getD (l / 2) 0 = ix at *
  by_cases hge : (q : Int) + (ix : Int) ≥ 275
  · simp [hge]
    omega
  · simp [hge]
    have : ((q : Int) + (ix : Int) + 1) = ((q + ix + 1 : Nat) : Int) := by omega
    rw [this]
    omega

theorem table_cells : ∀ k : Fin 31, ∀ j : Fin 10, 2 ≤ k.val →
    2 ^ (2 * k.val) + (j.val + 1) * (2 ^ (2 * k.val) / 3) - 1 ≤
      bucketValues.getD (min 275 (j.val + powerOf4Index.getD k.val 0 + 1)) 0 := by
  decide +kernel

theorem table_steps : ∀ a b : Fin 32, 2 ≤ a.val → a.val < b.val →
    powerOf4Index.getD a.val 0 + 9 ≤ powerOf4Index.getD b.val 0 := by
  decide +kernel

theorem table_low : ∀ a : Fin 32, 2 ≤ a.val → 14 ≤ powerOf4Index.getD a.val 0 := by
  decide +kernel

theorem table_small : ∀ n : Fin 16, n.val ≤ bucketValues.getD n.val 0 := by
  decide +kernel

/-- The band of a value ≥ 16: r = ⌊log2 n⌋, l = r rounded down to even, k = l/2 in 2..31. -/
theorem band_facts (n : BitVec 64) (h16 : 16 ≤ n.toNat) :
    let r := n.toNat.log2
    4 ≤ r ∧ r ≤ 63 ∧ 2 ^ r ≤ n.toNat ∧ n.toNat < 2 ^ (r + 1) := by
  have hne : n.toNat ≠ 0 := by omega
  have hlt := n.isLt
  refine ⟨?_, ?_, Nat.log2_self_le hne, Nat.lt_log2_self⟩
  · exact (Nat.le_log2 hne).mpr (by omega)
  · have : n.toNat.log2 < 64 := (Nat.log2_lt hne).mpr (by simpa using hlt)
    omega

theorem pow_even (l : Nat) (hl : l % 2 = 0) : 2 ^ l = 2 ^ (2 * (l / 2)) := by
  congr 1; omega

theorem pow_even_mod3 (l : Nat) (hl : l % 2 = 0) : 2 ^ l % 3 = 1 := by
  rw [pow_even l hl, Nat.pow_mul, Nat.pow_mod]
  simp

/-- The upper bound of the bucket an observation is counted in is never below the observation
    (values up to 2^63 − 1). -/
theorem C18_bucket_upper (n : BitVec 64) (hn : n.toNat ≤ 2 ^ 63 - 1) :
    n.toNat ≤ bucketValues.getD (getBucket n).toNat 0 := by
  by_cases h16 : 16 ≤ n.toNat
  · obtain ⟨hr4, hr, h1, h2⟩ := band_facts n h16
    rw [getBucket_formula n _ hr4 hr h1 h2]
    generalize hr' : n.toNat.log2 = r at *
    generalize hL : r - r % 2 = l
    have hl4 : 4 ≤ l := by omega
    have hl62 : l ≤ 62 := by omega
    have hlev : l % 2 = 0 := by omega
    have hlr : l ≤ r := by omega
    have hrl : r + 1 ≤ l + 2 := by omega
    have hPle : 2 ^ l ≤ n.toNat := Nat.le_trans (Nat.pow_le_pow_right (by decide) hlr) h1
    have hlt4 : n.toNat < 2 ^ (l + 2) := Nat.lt_of_lt_of_le h2 (Nat.pow_le_pow_right (by decide) hrl)
    have hP4 : 2 ^ (l + 2) = 4 * 2 ^ l := by rw [Nat.pow_add]; omega
    have hP16 : 16 ≤ 2 ^ l := by
      have : 2 ^ 4 ≤ 2 ^ l := Nat.pow_le_pow_right (by decide) hl4
      omega
    by_cases hlast : l = 62
    · -- the last band: everything lands in the last bucket, whose bound is 2^63 - 1
      subst hlast
      have : min 275 ((n.toNat - 2 ^ 62) / (2 ^ 62 / 3) + powerOf4Index.getD (62 / 2) 0 + 1) = 275 := by
        have : powerOf4Index.getD (62 / 2) 0 = 275 := by decide
        rw [this]; omega
      rw [this]
      have : bucketValues.getD 275 0 = 2 ^ 63 - 1 := by decide +kernel
      rw [this]; exact hn
    · have hk30 : l / 2 < 31 := by omega
      have hmod := Nat.div_add_mod (2 ^ l) 3
      have hm3 := pow_even_mod3 l hlev
      have hcellf := fun (q : Nat) (hq : q < 10) => table_cells ⟨l / 2, hk30⟩ ⟨q, hq⟩ (by simp; omega)
      simp only [← pow_even l hlev] at hcellf
      generalize hD : 2 ^ l / 3 = D at *
      have hD2 : 2 < D := by omega
      have hq9 : (n.toNat - 2 ^ l) / D < 10 := by
        rw [Nat.div_lt_iff_lt_mul (by omega)]
        omega
      have hcell := hcellf _ hq9
      have hlt : n.toNat - 2 ^ l < ((n.toNat - 2 ^ l) / D + 1) * D := by
        have := Nat.lt_div_mul_add (a := n.toNat - 2 ^ l) (b := D) (by omega)
        rw [Nat.add_mul]; omega
      omega
  · have hlt : n.toNat < 16 := by omega
    have hle : n ≤ 15#64 := by simp [BitVec.le_def]; omega
    unfold getBucket
    simp only [hle, decide_true, if_true]
    exact table_small ⟨n.toNat, hlt⟩

/-- Within a band the offset is at most 9. -/
theorem offset_le_9 (x l : Nat) (hl4 : 4 ≤ l) (hlev : l % 2 = 0) (h1 : 2 ^ l ≤ x) (h2 : x < 2 ^ (l + 2)) :
    (x - 2 ^ l) / (2 ^ l / 3) ≤ 9 := by
  have hP4 : 2 ^ (l + 2) = 4 * 2 ^ l := by rw [Nat.pow_add]; omega
  have hP16 : 16 ≤ 2 ^ l := by
    have : 2 ^ 4 ≤ 2 ^ l := Nat.pow_le_pow_right (by decide) hl4
    omega
  have hmod := Nat.div_add_mod (2 ^ l) 3
  have hm3 := pow_even_mod3 l hlev
  generalize 2 ^ l / 3 = D at *
  have : (x - 2 ^ l) / D < 10 := by
    rw [Nat.div_lt_iff_lt_mul (by omega)]
    omega
  omega

theorem band_of (n : BitVec 64) (h16 : 16 ≤ n.toNat) :
    ∃ l, 4 ≤ l ∧ l ≤ 62 ∧ l % 2 = 0 ∧ 2 ^ l ≤ n.toNat ∧ n.toNat < 2 ^ (l + 2) ∧
      (getBucket n).toNat = min 275 ((n.toNat - 2 ^ l) / (2 ^ l / 3) + powerOf4Index.getD (l / 2) 0 + 1) := by
  obtain ⟨hr4, hr, h1, h2⟩ := band_facts n h16
  generalize hr' : n.toNat.log2 = r at *
  refine ⟨r - r % 2, by omega, by omega, by omega, ?_, ?_, getBucket_formula n r hr4 hr h1 h2⟩
  · exact Nat.le_trans (Nat.pow_le_pow_right (by decide) (by omega)) h1
  · exact Nat.lt_of_lt_of_le h2 (Nat.pow_le_pow_right (by decide) (by omega))

/-- The bucket an observation is counted in is a non-decreasing function of the value. -/
theorem C18_bucket_mono (n m : BitVec 64) (h : n.toNat ≤ m.toNat) :
    (getBucket n).toNat ≤ (getBucket m).toNat := by
  have small : ∀ x : BitVec 64, x.toNat < 16 → (getBucket x).toNat = x.toNat := by
    intro x hx
    have hle : x ≤ 15#64 := by simp [BitVec.le_def]; omega
    unfold getBucket
    simp only [hle, decide_true, if_true]
  by_cases hm : 16 ≤ m.toNat
  · obtain ⟨lm, hm4, hm62, hmev, hm1, hm2, hmf⟩ := band_of m hm
    have hixm := table_low ⟨lm / 2, by omega⟩ (by simp; omega)
    simp only at hixm
    by_cases hn : 16 ≤ n.toNat
    · obtain ⟨ln, hn4, hn62, hnev, hn1, hn2, hnf⟩ := band_of n hn
      rw [hnf, hmf]
      -- the band of n is not above the band of m
      have hle : ln ≤ lm := by
        rcases Nat.lt_or_ge lm ln with hlt | hge
        · exfalso
          have : lm + 2 ≤ ln := by omega
          have := Nat.pow_le_pow_right (show 0 < 2 by decide) this
          omega
        · exact hge
      rcases Nat.lt_or_ge ln lm with hlt | hge
      · have hq := offset_le_9 n.toNat ln hn4 hnev hn1 hn2
        have hstep := table_steps ⟨ln / 2, by omega⟩ ⟨lm / 2, by omega⟩ (by simp; omega) (by simp; omega)
        simp only at hstep
        generalize (m.toNat - 2 ^ lm) / (2 ^ lm / 3) = qm at *
        generalize (n.toNat - 2 ^ ln) / (2 ^ ln / 3) = qn at *
        omega
      · have : ln = lm := by omega
        subst this
        have := Nat.div_le_div_right (c := 2 ^ ln / 3) (show n.toNat - 2 ^ ln ≤ m.toNat - 2 ^ ln by omega)
        generalize (m.toNat - 2 ^ ln) / (2 ^ ln / 3) = qm at *
        generalize (n.toNat - 2 ^ ln) / (2 ^ ln / 3) = qn at *
        omega
    · rw [small n (by omega), hmf]
      generalize (m.toNat - 2 ^ lm) / (2 ^ lm / 3) = qm at *
      omega
  · rw [small n (by omega), small m (by omega)]
    exact h

/-! ### Counters -/

/-- A counter's value is the sum of the increments (mod 2^64), in whatever order they are applied. -/
theorem C18_counter_sum (incs : List (BitVec 64)) :
    counterAfter incs = incs.foldr (· + ·) 0#64 := by
  unfold counterAfter
  suffices h : ∀ acc : BitVec 64, incs.foldl counterAdd acc = acc + incs.foldr (· + ·) 0#64 by
    simpa using h 0#64
  induction incs with
  | nil => intro acc; simp
  | cons a as ih =>
    intro acc
    simp only [List.foldl_cons, List.foldr_cons, ih, counterAdd]
    ac_rfl

theorem C18_counter_order (a b : List (BitVec 64)) (h : a.Perm b) : counterAfter a = counterAfter b := by
  rw [C18_counter_sum, C18_counter_sum]
  induction h with
  | nil => rfl
  | cons x _ ih => simp [ih]
  | swap x y l => simp only [List.foldr_cons]; ac_rfl
  | trans _ _ ih1 ih2 => exact ih1.trans ih2

/-! ### One reporting period of a histogram -/

theorem observe_count (s : Bool) (h : HDat) (v : Nat) : (observe s h v).count = h.count + 1 := by
  unfold observe; simp only; split <;> rfl

/-- The reported count equals the number of observations of the period. -/
theorem C18_hist_count (s : Bool) (h : HDat) (vs : List Nat) :
    (observeAll s h vs).count = h.count + vs.length := by
  unfold observeAll
  induction vs generalizing h with
  | nil => simp
  | cons v vs ih => simp only [List.foldl_cons, ih, observe_count, List.length_cons]; omega

theorem observe_ring_length (s : Bool) (h : HDat) (v : Nat) : (observe s h v).ring.length = h.ring.length := by
  unfold observe; simp only; split <;> simp

/-- Invariant of a period: every slot the summary will look at holds an observation of this
    period; min/max bound every observation and are themselves observations. -/
structure PeriodInv (obs : List Nat) (h : HDat) : Prop where
  ringLen : h.ring.length = ringLen
  slots : ∀ i, i < h.kept → i < h.ring.length → h.ring.getD i 0 ∈ obs
  minLe : ∀ v ∈ obs, h.min ≤ v
  maxGe : ∀ v ∈ obs, v ≤ h.max
  minMem : obs ≠ [] → h.min ∈ obs
  maxMem : obs ≠ [] → h.max ∈ obs
  fresh : obs = [] → h.min = 18446744073709551615 ∧ h.max = 0 ∧ h.kept = 0

theorem ringLen_pos : 0 < ringLen := by decide

theorem observe_inv (s : Bool) (obs : List Nat) (h : HDat) (v : Nat) (hv : v < 18446744073709551616)
    (hi : PeriodInv obs h) : PeriodInv (obs ++ [v]) (observe s h v) := by
  have hmin : ∀ w ∈ obs ++ [v], (if v > h.min then h.min else v) ≤ w := by
    intro w hw
    rcases List.mem_append.mp hw with hw | hw
    · have := hi.minLe w hw; split <;> omega
    · simp at hw; subst hw; split <;> omega
  have hmax : ∀ w ∈ obs ++ [v], w ≤ (if v < h.max then h.max else v) := by
    intro w hw
    rcases List.mem_append.mp hw with hw | hw
    · have := hi.maxGe w hw; split <;> omega
    · simp at hw; subst hw; split <;> omega
  have hminmem : (obs ++ [v]) ≠ [] → (if v > h.min then h.min else v) ∈ obs ++ [v] := by
    intro _
    split
    · rename_i hgt
      have hne : obs ≠ [] := by
        intro hnil
        have := (hi.fresh hnil).1
        omega
      exact List.mem_append_left _ (hi.minMem hne)
    · simp
  have hmaxmem : (obs ++ [v]) ≠ [] → (if v < h.max then h.max else v) ∈ obs ++ [v] := by
    intro _
    split
    · rename_i hlt
      have hne : obs ≠ [] := by
        intro hnil
        have := (hi.fresh hnil).2.1
        omega
      exact List.mem_append_left _ (hi.maxMem hne)
    · simp
  have hfresh : obs ++ [v] = [] → False := by simp
  unfold observe
  simp only
  split
  · refine ⟨hi.ringLen, ?_, hmin, hmax, hminmem, hmaxmem, fun h => (hfresh h).elim⟩
    intro i h1 h2
    exact List.mem_append_left _ (hi.slots i h1 h2)
  · refine ⟨by simpa using hi.ringLen, ?_, hmin, hmax, hminmem, hmaxmem, fun h => (hfresh h).elim⟩
    intro i h1 h2
    simp only [List.length_set] at h2
    simp only [List.getD_eq_getElem?_getD, List.getElem?_set]
    by_cases hidx : h.kept % ringLen = i
    · simp [hidx, h2]
    · simp only [hidx, if_false]
      have hlt : i < h.kept := by
        rcases Nat.lt_or_ge i h.kept with hh | hh
        · exact hh
        · exfalso
          have h1' : i < h.kept + 1 := h1
          have : i = h.kept := by omega
          subst this
          rw [hi.ringLen] at h2
          exact hidx (Nat.mod_eq_of_lt h2)
      have := hi.slots i hlt h2
      simp only [List.getD_eq_getElem?_getD] at this
      exact List.mem_append_left _ this

theorem observeAll_inv (s : Bool) (obs : List Nat) (h : HDat) (vs : List Nat)
    (hvs : ∀ v ∈ vs, v < 18446744073709551616) (hi : PeriodInv obs h) :
    PeriodInv (obs ++ vs) (observeAll s h vs) := by
  unfold observeAll
  induction vs generalizing obs h with
  | nil => simpa using hi
  | cons v vs ih =>
    simp only [List.foldl_cons]
    have := ih (obs ++ [v]) (observe s h v) (fun w hw => hvs w (List.mem_cons_of_mem _ hw))
      (observe_inv s obs h v (hvs v (List.mem_cons_self)) hi)
    simpa using this

/-- A fresh period: whatever stale values the recycled ring holds. -/
theorem fresh_inv (ring : List Nat) (hr : ring.length = ringLen) : PeriodInv [] { ring := ring } :=
  ⟨hr, by intro i h; simp at h, by simp, by simp, by simp, by simp, fun _ => ⟨rfl, rfl, rfl⟩⟩

theorem usedSlice_mem (obs : List Nat) (h : HDat) (hi : PeriodInv obs h) : ∀ v ∈ usedSlice h, v ∈ obs := by
  intro v hv
  unfold usedSlice at hv
  split at hv
  · rename_i hk
    obtain ⟨i, hi1, hi2⟩ := List.mem_iff_getElem.mp hv
    simp only [List.length_take] at hi1
    have h1 : i < h.kept := by omega
    have h2 : i < h.ring.length := by omega
    have := hi.slots i h1 h2
    simp only [List.getElem_take] at hi2
    simpa [List.getD_eq_getElem?_getD, List.getElem?_eq_getElem h2, hi2] using this
  · rename_i hk
    obtain ⟨i, hi1, hi2⟩ := List.mem_iff_getElem.mp hv
    have := hi.slots i (by omega) hi1
    simpa [List.getD_eq_getElem?_getD, List.getElem?_eq_getElem hi1, hi2] using this

theorem percentileIdx_lt (len i : Nat) (hl : 0 < len) (hi : i < 23) (h20 : i ≠ 20) :
    percentileIdx len i < len := by
  unfold percentileIdx
  split
  · omega
  · split
    · omega
    · have : i ≤ 19 := by omega
      rcases Nat.lt_or_ge (len * i / 20) len with h' | h'
      · exact h'
      · exfalso
        have h := Nat.div_mul_le_self (len * i) 20
        have h3 : len * i ≤ len * 19 := Nat.mul_le_mul_left len this
        have h4 : len * 20 ≤ (len * i / 20) * 20 := Nat.mul_le_mul_right 20 h'
        omega

/-- For every observation sequence of a period (any length, sampled or not, any stale ring
    contents, any sorting permutation): every reported percentile is one of the period's
    observations and lies between the reported min and max. -/
theorem C18_hist_percentiles (s : Bool) (ring : List Nat) (hr : ring.length = ringLen) (vs : List Nat)
    (hvs : ∀ v ∈ vs, v < 18446744073709551616)
    (sorted : List Nat) (hperm : sorted.Perm (usedSlice (observeAll s { ring := ring } vs)))
    (hk : (observeAll s { ring := ring } vs).kept ≠ 0) :
    ∀ p ∈ percentiles (observeAll s { ring := ring } vs) sorted,
      p ∈ vs ∧ (observeAll s { ring := ring } vs).min ≤ p ∧ p ≤ (observeAll s { ring := ring } vs).max := by
  generalize hh : observeAll s { ring := ring } vs = h at *
  intro p hp
  have hinv : PeriodInv vs h := by
    have := observeAll_inv s [] { ring := ring } vs hvs (fresh_inv ring hr)
    rw [hh] at this
    simpa using this
  have hslice := usedSlice_mem vs h hinv
  have hne : vs ≠ [] := by
    intro hnil
    exact hk (hinv.fresh hnil).2.2
  have hsorted_pos : 0 < sorted.length := by
    rw [hperm.length_eq]
    unfold usedSlice
    have hrl : 0 < h.ring.length := by rw [hinv.ringLen]; exact ringLen_pos
    have hkpos : 0 < h.kept := Nat.pos_of_ne_zero hk
    split
    · simp only [List.length_take]; omega
    · exact hrl
  simp only [percentiles, if_neg hk, List.mem_map, List.mem_range] at hp
  obtain ⟨i, hi, rfl⟩ := hp
  split
  · exact ⟨hinv.minMem hne, Nat.le_refl _, hinv.maxGe _ (hinv.minMem hne)⟩
  · split
    · exact ⟨hinv.maxMem hne, hinv.minLe _ (hinv.maxMem hne), Nat.le_refl _⟩
    · rename_i h0 h20
      have hidx := percentileIdx_lt sorted.length i hsorted_pos hi h20
      have hmem : sorted.getD (percentileIdx sorted.length i) 0 ∈ sorted := by
        simp [List.getD_eq_getElem?_getD, List.getElem?_eq_getElem hidx]
      have hobs := hslice _ (hperm.mem_iff.mp hmem)
      exact ⟨hobs, hinv.minLe _ hobs, hinv.maxGe _ hobs⟩

/-- Non-vacuity: three observations, unsampled: the 5th percentile is an observation (this is the
    case the off-by-one ring index got wrong). -/
example : (observeAll false { ring := List.replicate 4 7 } [100, 200, 300]).ring.take 3 = [100, 200, 300] := by
  decide

end Rend.Props.C18

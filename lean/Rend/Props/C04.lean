/-
  C04 — Chunked storage is transparent for every size, key and command.

  The chunked handler model (`Rend.Chunked`, transcribed from handlers/memcached/chunked and
  built on the REGENERATED `chunkSize`, `chunkSliceIndices`, `numChunks` expression and
  constants) against the reference backend map.
-/
import Rend.Proofs.ChunkedFootprint

namespace Rend.Props.C04
open Rend Rend.Chunked

/-- **Round trip for every length.**  A set through the chunking handler followed by a get
    returns exactly the bytes and the flags written: for every value length (0, around every
    multiple of the payload size, any number of chunks), every key of 0..250 bytes, every flags
    word, every 16-byte token and every prior content of the backend. -/
theorem C04_roundtrip {ε} (now : Nat) (t : Tier) (c : SetCmd) (g : GetKey) (w : World) (tok : Bytes) (tk : List Bytes)
    (hg : g.key = c.key) (hkey : c.key.length ≤ 250) (hd : c.data.length < 4294967296) (hf : c.flags < 4294967296)
    (ht : tok.length = 16) (hlive : deadlineOf now c.exptime = 0 ∨ now < deadlineOf now c.exptime) :
    let w1 := ((setCommon (ε := ε) t now .set c).eval now w (tok :: tk)).2.2.1
    ((setCommon (ε := ε) t now .set c).eval now w (tok :: tk)).1 = .ok () ∧
    ((getLoop (ε := ε) t [g]).eval now w1 tk).1 =
      ([{ key := g.key, data := c.data, opq := g.opq, flags := c.flags, quiet := g.quiet }], none) :=
  set_get_roundtrip now t c g w tok tk hg hkey hd hf ht hlive

/-- **Footprint.**  Every backend request of every method of the handler — whatever the backend
    answers, whichever tokens are drawn — addresses the metadata entry or a numbered chunk of the
    client key the method was called for (or is the key-less noop that closes a quiet batch). -/
theorem C04_footprint {ε} (t : Tier) (now : Nat) :
    (∀ k c, AllReqs (Derived c.key) ((Chunked.handler (ε := ε) t now).store k c)) ∧
    (∀ c, AllReqs (Derived c.key) ((Chunked.handler (ε := ε) t now).gat c)) ∧
    (∀ c, AllReqs (Derived c.key) ((Chunked.handler (ε := ε) t now).delete c)) ∧
    (∀ c, AllReqs (Derived c.key) ((Chunked.handler (ε := ε) t now).touch c)) ∧
    (∀ ks, AllReqs (fun t r => ∃ g ∈ ks, Derived g.key t r) ((Chunked.handler (ε := ε) t now).get ks)) :=
  ⟨fun k c => store_derived t now k c, fun c => gat_derived t c, fun c => delete_derived t c,
   fun c => touch_derived t now c, fun ks => getLoop_derived t ks⟩

/-- **Distinct client keys never share a backend entry**: derived keys determine the client key
    (and the chunk number); a metadata key is never a chunk key. -/
theorem C04_keys_disjoint :
    (∀ k k' i j, chunkKey k i = chunkKey k' j → k = k' ∧ i = j) ∧
    (∀ k k', metaKey k = metaKey k' → k = k') ∧
    (∀ k k' i, metaKey k ≠ chunkKey k' i) ∧
    (∀ k k' t r, Derived k t r → Derived k' t r → r.op ≠ .noop → k = k') :=
  ⟨chunkKey_inj, metaKey_inj, metaKey_ne_chunkKey, derived_disjoint⟩

/-- Consequently a store-type command, a get-and-touch, a delete or a touch on one key leaves
    every backend entry of every other client key exactly as it was. -/
theorem C04_other_keys_untouched {ε} (now : Nat) (t : Tier) (key other : Bytes) (hne : other ≠ key)
    (p : Prog ε (HRes Unit)) (hp : AllReqs (Derived key) p) (w : World) (tk : List Bytes) (htk : ∀ x ∈ tk, x.length = 16) :
    ((p.eval now w tk).2.2.1.get t) (metaKey other) = (w.get t) (metaKey other) ∧
    ∀ i, ((p.eval now w tk).2.2.1.get t) (chunkKey other i) = (w.get t) (chunkKey other i) := by
  constructor
  · apply eval_untouched now t _ p _ w tk htk
    apply hp.mono
    intro _ r hd _
    rcases hd with h | h | ⟨j, h⟩
    · exact Or.inl h
    · exact Or.inr (by rw [h]; intro e; exact hne (metaKey_inj _ _ e).symm)
    · exact Or.inr (by rw [h]; exact (metaKey_ne_chunkKey _ _ _).symm)
  · intro i
    apply eval_untouched now t _ p _ w tk htk
    apply hp.mono
    intro _ r hd _
    rcases hd with h | h | ⟨j, h⟩
    · exact Or.inl h
    · exact Or.inr (by rw [h]; exact metaKey_ne_chunkKey _ _ _)
    · exact Or.inr (by rw [h]; intro e; exact hne (chunkKey_inj _ _ _ _ e).1.symm)

/-- **A delete leaves no entry of the key readable**: whatever the backend held, a following get
    of that key misses. -/
theorem C04_delete_unreadable {ε} (now : Nat) (t : Tier) (c : KeyCmd) (g : GetKey) (hg : g.key = c.key) (w : World)
    (tk : List Bytes) (htk : ∀ x ∈ tk, x.length = 16) :
    ((getLoop (ε := ε) t [g]).eval now ((Chunked.delete (ε := ε) t c).eval now w tk).2.2.1 tk).1 =
      ([{ key := g.key, opq := g.opq, miss := true, quiet := g.quiet }], none) :=
  delete_then_get_misses now t c g hg w tk htk

/-- The metadata codec is exact on every well-formed record. -/
theorem C04_metadata_codec (m : Meta) (h : m.WF) : decodeMeta (encodeMeta m) = m := decode_encode m h

/-- Reassembly arithmetic at every boundary: copying the chunks `0..n-1` of any value into a
    zeroed buffer of its length, slice by slice with the regenerated `chunkSliceIndices`,
    reproduces the value (payload size `ds > 0`, `n = ⌈len/ds⌉`). -/
theorem C04_reassembly (md : Meta) (h : Intent) (hk : h.key.length ≤ 250) (hl : md.length = h.data.length)
    (hc : md.chunkSize = h.ds) (ht : h.token.length = 16) (htok : md.token = h.token) :
    (((List.range' 0 h.n).map h.chunkVal).foldl (fun s d => hitStep md s d) { buf := Bytes.zeros md.length }).buf = h.data := by
  have hspec := h.n_spec hk
  have hz : ({ buf := Bytes.zeros md.length } : ReadSt) =
      { buf := partialBuf h.data h.ds 0, chunk := 0, miss := false, lastErr := none, sawNoop := false } := by
    rw [partialBuf_zero, hl]
  rw [hz, foldl_own md h hl hc ht htok h.n 0 none false (by rw [Nat.zero_add, Nat.mul_comm]; exact hspec.2)]
  simp only [Nat.zero_add]
  exact partialBuf_full _ _ _ (by rw [Nat.mul_comm]; exact hspec.1)

/-- Non-vacuity: the round trip's hypotheses are met by, e.g., a 3000-byte value under a 250-byte key. -/
example : (250 : Nat) ≤ 250 ∧ (3000 : Nat) < 4294967296 ∧ (deadlineOf 100 0 = 0 ∨ 100 < deadlineOf 100 0) := by
  refine ⟨by decide, by decide, Or.inl rfl⟩

end Rend.Props.C04

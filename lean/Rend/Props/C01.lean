/-
  C01 — Single-cache illusion: replies equal those of one memcached-like map.

  The orchestrator models (`L1Only.step`, `L1L2.step`, `L1L2Batch.step`, transcribed from
  orcas/*.go and tied to it by the byte-exact full-stack correspondence) run over the
  pass-through handler model on both tiers, every backend request being answered by the
  reference map `Mc.exec`.  The specification is `Spec.step`: ONE map.

  `Agrees c o res evs` says: what the orchestrator returned (`res`) and told the responder
  (`evs`) carries exactly the content of the specification's answer `o` — success / refusal,
  and for reads each requested key's hit-or-miss, flags and data (as a multiset: the order in
  which a multi-key get answers its keys is not part of the contract, L1 hits come first).
-/
import Rend.Proofs.OrcaSeq
import Rend.Proofs.LockedRefine

namespace Rend.Props.C01
open Rend

/-- Main port (L1 in front of L2), one command, any state satisfying the cache invariant. -/
theorem C01_main_port_step (now : Nat) (w : World) (tk : List Bytes) (c : Cmd) (hc : TwoTier c)
    (hinv : CacheInv now w) :
    let r := (L1L2.step (Std.handler .l1) (Std.handler .l2) c).eval now w tk
    r.2.2.1.l2 = (Spec.step now w.l2 c).1 ∧ CacheInv now r.2.2.1 ∧ Agrees c (Spec.step now w.l2 c).2 r.1 r.2.1 :=
  L1L2_step_refines now w tk c hc hinv

/-- Batch port, one command. -/
theorem C01_batch_port_step (now : Nat) (w : World) (tk : List Bytes) (c : Cmd) (hc : TwoTier c)
    (hinv : CacheInv now w) :
    let r := (L1L2Batch.step (Std.handler .l1) (Std.handler .l2) c).eval now w tk
    r.2.2.1.l2 = (Spec.step now w.l2 c).1 ∧ CacheInv now r.2.2.1 ∧ Agrees c (Spec.step now w.l2 c).2 r.1 r.2.1 :=
  L1L2Batch_step_refines now w tk c hc hinv

/-- L1-only, one command, any state at all. -/
theorem C01_l1only_step (now : Nat) (w : World) (tk : List Bytes) (c : Cmd) :
    let r := (L1Only.step (Std.handler .l1) c).eval now w tk
    r.2.2.1.l1 = (Spec.step now w.l1 c).1 ∧ r.2.2.1.l2 = w.l2 ∧ Agrees c (Spec.step now w.l1 c).2 r.1 r.2.1 :=
  L1Only_step_refines now w tk c

/-- **Every history** of commands issued one at a time on the main and the batch port — with
    clock ticks and losses of L1 entries in between — starting from empty tiers is answered,
    command by command, as the single map answers the same commands. -/
theorem C01_histories (acts : List Act) (now : Nat) (tk : List Bytes) (h : ActsTwoTier acts) :
    AllAgree (runActs now {} tk acts) (specActs now Store.empty acts) :=
  (history_refines acts now {} tk h (by intro k a ha; simp [Store.look, Store.empty] at ha)).1

/-- The same for any starting state that satisfies the invariant (e.g. a warm cache). -/
theorem C01_histories_from (acts : List Act) (now : Nat) (w : World) (tk : List Bytes) (h : ActsTwoTier acts)
    (hinv : CacheInv now w) : AllAgree (runActs now w tk acts) (specActs now w.l2 acts) :=
  (history_refines acts now w tk h hinv).1

/-- **With the locking wrapper** (any number of lock stripes, both ports sharing the lock set, the
    wrapper instantiated from the regenerated facts): every history is answered — lock events
    aside — as the single map answers it; a multi-key get, which the wrapper performs as one
    locked single-key get per key with the terminators of all but the last held back, yields one
    answer per key and one terminator. -/
theorem C01_histories_locked (bits : Nat) (acts : List Act) (now : Nat) (tk : List Bytes) (h : ActsTwoTier acts)
    (hne : ActsGetsNonEmpty acts) :
    AllAgree (runActsL bits now {} tk acts) (specActs now Store.empty acts) :=
  (history_refines_locked bits acts now {} tk h hne (by intro k a ha; simp [Store.look, Store.empty] at ha)).1

/-- One step under the wrapper, any state satisfying the invariant. -/
theorem C01_locked_step (now bits : Nat) (w : World) (tk : List Bytes) (p : Port) (c : Cmd) (hc : TwoTier c)
    (hk : GetsNonEmpty c) (hinv : CacheInv now w) :
    ((Locked.step bits (portStep p) c).eval now w tk).2.2.1.l2 = (Spec.step now w.l2 c).1 ∧
    CacheInv now ((Locked.step bits (portStep p) c).eval now w tk).2.2.1 ∧
    Agrees c (Spec.step now w.l2 c).2 ((Locked.step bits (portStep p) c).eval now w tk).1
      (respsOnly ((Locked.step bits (portStep p) c).eval now w tk).2.1) :=
  locked_step_refines now bits w tk p c hc hk hinv

/-- L1-only: every history, from any state. -/
theorem C01_histories_l1only (acts : List (Nat × Cmd)) (now : Nat) (w : World) (tk : List Bytes) :
    AllAgree (runActs1 now w tk acts) (specActs1 now w.l1 acts) :=
  history_refines_l1only acts now w tk

/-- The runner the correspondence driver executes is `eval` when no fault is planned: the
    theorems above are about the very function whose outputs are compared with rend's bytes. -/
theorem C01_runner_is_eval {α : Type} (now : Nat) (p : OProg α) (s : RunSt) (h1 : s.dead1 = false) (h2 : s.dead2 = false) :
    (p.runSt now none s).1 = (p.eval now s.w s.toks).1 ∧ (p.runSt now none s).2.1 = (p.eval now s.w s.toks).2.1 ∧
      (p.runSt now none s).2.2.w = (p.eval now s.w s.toks).2.2.1 :=
  let h := Prog.runSt_none_eval now p s h1 h2
  ⟨h.1, h.2.1, h.2.2.1⟩

/-- Non-vacuity: the hypotheses are met by a real history, and `Agrees` does discriminate:
    a successful set is not confused with a refused one. -/
example : ActsTwoTier [.cmd .main (.store .set { key := [1], data := [2] }), .tick 5, .evict (fun _ => true),
    .cmd .batch (.get { keys := [{ key := [1] }] })] := by
  intro p c h
  simp at h
  rcases h with ⟨_, rfl⟩ | ⟨_, rfl⟩ <;> intro g hg <;> cases hg

example (k : SetKind) (sc : SetCmd) (res : HRes Unit) (evs : List OEv) :
    ¬ (Agrees (.store k sc) .ok res evs ∧ Agrees (.store k sc) .fail res evs) := by
  intro ⟨h1, h2⟩
  simp only [Agrees] at h1 h2
  rw [h1.2] at h2
  simp at h2

end Rend.Props.C01

/-
  C08 — Reply discipline: one well-formed reply per request, one terminator per get.

  Orchestrator-level statements quantify over `Runs`: every possible behaviour of the two
  backends (answers, error statuses, lost connections) and every drawn token.
-/
import Rend.Proofs.Runs
import Rend.Wire.Decode
import Rend.Wire.Respond
import Rend.Proofs.TextLemmas

namespace Rend.Props.C08
open Rend Rend.Wire

/-- The responder calls among the events of a run. -/
def resps : List OEv → List REv
  | [] => []
  | .resp r :: es => r :: resps es
  | _ :: es => resps es

theorem resps_append (a b : List OEv) : resps (a ++ b) = resps a ++ resps b := by
  induction a with
  | nil => rfl
  | cons e es ih => cases e <;> simp [resps, ih]

def isGet : REv → Bool
  | .get _ => true
  | _ => false

def isGetE : REv → Bool
  | .getE _ => true
  | _ => false

/-- The shape of the responder calls of one orchestrator call, given its result. -/
def Disc (c : Cmd) (res : HRes Unit) (rs : List REv) : Prop :=
  match c with
  | .store k sc => (res = .ok () ∧ rs = [.stored k sc.opq sc.quiet]) ∨ (res ≠ .ok () ∧ rs = [])
  | .delete kc => (res = .ok () ∧ rs = [.deleted kc.opq]) ∨ (res ≠ .ok () ∧ rs = [])
  | .touch kc => (res = .ok () ∧ rs = [.touched kc.opq]) ∨ (res ≠ .ok () ∧ rs = [])
  | .gat _ => (res = .ok () ∧ ∃ r, rs = [.gat r]) ∨ (res ≠ .ok () ∧ rs = [])
  | .get g => ∃ gs, (∀ e ∈ gs, isGet e = true) ∧
      ((res = .ok () ∧ rs = gs ++ [.getEnd g.noopOpaque g.noopEnd]) ∨ (res ≠ .ok () ∧ rs = gs))
  | .getE g => ∃ gs, (∀ e ∈ gs, isGetE e = true) ∧
      ((res = .ok () ∧ rs = gs ++ [.getEnd g.noopOpaque g.noopEnd]) ∨ (res ≠ .ok () ∧ rs = gs))
  | .noop o => res = .ok () ∧ rs = [.noop o]
  | .quit o q => res = .ok () ∧ rs = [.quit o q]
  | .version o => res = .ok () ∧ rs = [.version o]
  | .stat o => res = .ok () ∧ rs = [.stat o]
  | .unknown => res ≠ .ok () ∧ rs = []

/-! ### helper facts about runs of the small combinators -/

theorem reply_run {e : REv} {res : HRes Unit} {es : List OEv} (h : Runs (reply e) res es) :
    res = .ok () ∧ es = [.resp e] := by
  unfold reply respond at h
  obtain ⟨a, e1, e2, h1, h2, rfl⟩ := Runs.bind_inv h
  have := Runs.out_inv h1
  obtain ⟨rfl, rfl⟩ := Runs.of_pure h2
  exact ⟨rfl, by simp [this]⟩

theorem pure_run {α} {a b : α} {es : List OEv} (h : Runs (pure a : OProg α) b es) : b = a ∧ es = [] :=
  Runs.of_pure h

theorem emitGets_run : ∀ (rs : List GetResp) (u : Unit) (es : List OEv), Runs (emitGets rs) u es →
    resps es = rs.map REv.get ∧ ∀ e ∈ es, ∃ r, e = .resp (.get r) := by
  intro rs
  induction rs with
  | nil => intro u es h; obtain ⟨_, rfl⟩ := pure_run h; simp [resps]
  | cons r rs ih =>
    intro u es h
    unfold emitGets respond at h
    obtain ⟨a, e1, e2, h1, h2, rfl⟩ := Runs.bind_inv h
    have := Runs.out_inv h1
    subst this
    obtain ⟨i1, i2⟩ := ih _ _ h2
    refine ⟨by simp [resps, i1], ?_⟩
    intro e he
    simp at he
    rcases he with rfl | he
    · exact ⟨r, rfl⟩
    · exact i2 e he

theorem emitGetEs_run : ∀ (rs : List GetResp) (u : Unit) (es : List OEv), Runs (emitGetEs rs) u es →
    resps es = rs.map REv.getE := by
  intro rs
  induction rs with
  | nil => intro u es h; obtain ⟨_, rfl⟩ := pure_run h; simp [resps]
  | cons r rs ih =>
    intro u es h
    unfold emitGetEs respond at h
    obtain ⟨a, e1, e2, h1, h2, rfl⟩ := Runs.bind_inv h
    have := Runs.out_inv h1
    subst this
    simp [resps, ih _ _ h2]

/-- `andThen p k`: the handler call `p` is silent, so the events are those of the continuation. -/
theorem andThen_run {α β} {p : OProg (HRes α)} {k : HRes α → OProg (HRes β)} (hp : Silent p)
    {res : HRes β} {es : List OEv} (h : Runs (andThen p k) res es) :
    (res = .error .panic ∧ es = []) ∨ (res = .error .crash ∧ es = []) ∨ ∃ r, Runs (k r) res es := by
  unfold andThen at h
  obtain ⟨a, e1, e2, h1, h2, rfl⟩ := Runs.bind_inv h
  have he1 := hp.out a e1 h1
  subst he1
  simp only [List.nil_append]
  split at h2
  · obtain ⟨rfl, rfl⟩ := pure_run h2; exact Or.inl ⟨rfl, rfl⟩
  · obtain ⟨rfl, rfl⟩ := pure_run h2; exact Or.inr (Or.inl ⟨rfl, rfl⟩)
  · exact Or.inr (Or.inr ⟨_, h2⟩)

/-- Every run of `p` ends with a result and responder calls related by `P`. -/
structure Shape (P : HRes Unit → List REv → Prop) (p : OProg (HRes Unit)) : Prop where
  out : ∀ res es, Runs p res es → P res (resps es)

theorem Shape.reply {P} (e : REv) (h : P (.ok ()) [e]) : Shape P (reply e) := by
  constructor
  intro res es hr
  obtain ⟨rfl, rfl⟩ := reply_run hr
  simpa [resps] using h

theorem Shape.pure {P} (r : HRes Unit) (h : P r []) : Shape P (pure r) := by
  constructor
  intro res es hr
  obtain ⟨rfl, rfl⟩ := pure_run hr
  simpa [resps] using h

theorem Shape.andThen {P} {α} {p : OProg (HRes α)} {k : HRes α → OProg (HRes Unit)} (hp : Silent p)
    (h1 : P (.error .panic) []) (h2 : P (.error .crash) []) (hk : ∀ r, Shape P (k r)) : Shape P (andThen p k) := by
  constructor
  intro res es hr
  rcases andThen_run hp hr with ⟨rfl, rfl⟩ | ⟨rfl, rfl⟩ | ⟨r, hr'⟩
  · simpa [resps] using h1
  · simpa [resps] using h2
  · exact (hk r).out res es hr'

/-- Shift a prefix of already-emitted responder calls. -/
theorem Shape.after {P} (pre : OProg Unit) (pres : List REv) (hpre : ∀ u es, Runs pre u es → resps es = pres)
    {p : OProg (HRes Unit)} (hp : Shape (fun res rs => P res (pres ++ rs)) p) :
    Shape P (pre >>= fun _ => p) := by
  constructor
  intro res es hr
  obtain ⟨a, e1, e2, h1, h2, rfl⟩ := Runs.bind_inv hr
  rw [resps_append, hpre a e1 h1]
  exact hp.out res e2 h2

/-- Proof search for reply-discipline goals; `hs1`/`hs2` name the silence of the two handlers. -/
macro "shape_tac" hs1:ident hs2:ident : tactic =>
  `(tactic| repeat' (first
      | (apply Shape.andThen (by first
            | exact ($hs1).store _ _ | exact ($hs1).delete _ | exact ($hs1).touch _ | exact ($hs1).gat _
            | exact ($hs2).store _ _ | exact ($hs2).delete _ | exact ($hs2).touch _ | exact ($hs2).gat _))
      | apply Shape.reply
      | apply Shape.pure
      | intro _
      | split
      | (simp [Disc]; done)
      | (simp_all [Disc]; done)))

/-- Reply discipline of the L1-only orchestrator for every store / delete / touch / get-and-touch /
    housekeeping command, whatever the backend does. -/
theorem L1Only_disc_simple (h1 : Handler OEv) (hs1 : SilentHandler h1) (c : Cmd)
    (hc : ∀ g, c ≠ .get g ∧ c ≠ .getE g) : Shape (Disc c) (L1Only.step h1 c) := by
  cases c with
  | get g => exact absurd rfl (hc g).1
  | getE g => exact absurd rfl (hc g).2
  | store k sc =>
    simp only [L1Only.step, L1Only.store]
    shape_tac hs1 hs1
  | gat kc =>
    simp only [L1Only.step, L1Only.gat]
    shape_tac hs1 hs1
  | delete kc =>
    simp only [L1Only.step, L1Only.delete]
    shape_tac hs1 hs1
  | touch kc =>
    simp only [L1Only.step, L1Only.touch]
    shape_tac hs1 hs1
  | noop o => simp only [L1Only.step]; shape_tac hs1 hs1
  | quit o q => simp only [L1Only.step]; shape_tac hs1 hs1
  | version o => simp only [L1Only.step]; shape_tac hs1 hs1
  | stat o => simp only [L1Only.step]; shape_tac hs1 hs1
  | unknown => simp only [L1Only.step]; shape_tac hs1 hs1

theorem Shape.bindSilent {P} {α} {p : OProg α} {k : α → OProg (HRes Unit)} (hp : Silent p)
    (hk : ∀ a, Shape P (k a)) : Shape P (p >>= k) := by
  constructor
  intro res es hr
  obtain ⟨a, e1, e2, h1, h2, rfl⟩ := Runs.bind_inv hr
  rw [hp.out a e1 h1]
  exact (hk a).out res e2 h2

/-- Prepending get events keeps the discipline of a get. -/
theorem Disc_get_prepend (g : GetCmd) (res : HRes Unit) (pre rs : List REv) (hpre : ∀ e ∈ pre, isGet e = true)
    (h : Disc (.get g) res rs) : Disc (.get g) res (pre ++ rs) := by
  obtain ⟨gs, hgs, h⟩ := h
  refine ⟨pre ++ gs, ?_, ?_⟩
  · intro e he
    rcases List.mem_append.mp he with he | he
    · exact hpre e he
    · exact hgs e he
  · rcases h with ⟨h1, h2⟩ | ⟨h1, h2⟩
    · exact Or.inl ⟨h1, by rw [h2]; simp⟩
    · exact Or.inr ⟨h1, by rw [h2]⟩

theorem map_get_isGet (rs : List GetResp) : ∀ e ∈ rs.map REv.get, isGet e = true := by
  intro e he
  obtain ⟨r, _, rfl⟩ := List.mem_map.mp he
  rfl

theorem emitGets_shape {g : GetCmd} (rs : List GetResp) {p : OProg (HRes Unit)} (hp : Shape (Disc (.get g)) p) :
    Shape (Disc (.get g)) (emitGets rs >>= fun _ => p) := by
  apply Shape.after (emitGets rs) (rs.map REv.get) (fun u es h => (emitGets_run rs u es h).1)
  constructor
  intro res es hr
  exact Disc_get_prepend g res _ _ (map_get_isGet rs) (hp.out res es hr)

theorem disc_get_end (g : GetCmd) : Disc (.get g) (.ok ()) [.getEnd g.noopOpaque g.noopEnd] :=
  ⟨[], by simp, Or.inl ⟨rfl, rfl⟩⟩

theorem disc_get_err (g : GetCmd) (e : HErr) : Disc (.get g) (.error e) [] :=
  ⟨[], by simp, Or.inr ⟨by simp, rfl⟩⟩

/-- A get through the L1-only orchestrator: get events, then exactly one terminator iff it succeeded. -/
theorem L1Only_disc_get (h1 : Handler OEv) (hs1 : SilentHandler h1) (g : GetCmd) :
    Shape (Disc (.get g)) (L1Only.step h1 (.get g)) := by
  simp only [L1Only.step, L1Only.get]
  apply Shape.bindSilent (hs1.get _)
  intro ⟨rs, err⟩
  apply emitGets_shape
  cases err with
  | none => exact Shape.reply _ (disc_get_end g)
  | some e => exact Shape.pure _ (disc_get_err g e)

/-- The back-fill loop of L1L2.Get emits only get events. -/
theorem backfill_gets (h1 : Handler OEv) (hs1 : SilentHandler h1) :
    ∀ (rs : List GetResp) (res : HRes Unit) (es : List OEv), Runs (L1L2.backfill h1 rs) res es →
      ∀ e ∈ resps es, isGet e = true := by
  intro rs
  induction rs with
  | nil =>
    intro res es h
    simp only [L1L2.backfill] at h
    obtain ⟨_, rfl⟩ := pure_run h
    simp [resps]
  | cons r rs ih =>
    intro res es h
    -- the forwarding step: one get event, then the rest of the loop
    have fwd : ∀ res es, Runs (do
        respond (.get { key := r.key, flags := r.flags, data := r.data, miss := r.miss, opq := r.opq, quiet := r.quiet })
        L1L2.backfill h1 rs) res es → ∀ e ∈ resps es, isGet e = true := by
      intro res es h
      obtain ⟨a, e1, e2, h1', h2', rfl⟩ := Runs.bind_inv h
      have := Runs.out_inv h1'
      subst this
      intro e he
      simp only [List.singleton_append, resps, List.mem_cons] at he
      rcases he with rfl | he
      · rfl
      · exact ih _ _ h2' e he
    unfold L1L2.backfill at h
    simp only at h
    split at h
    · exact fwd _ _ h
    · rcases andThen_run (hs1.store _ _) h with ⟨_, rfl⟩ | ⟨_, rfl⟩ | ⟨s, h'⟩
      · simp [resps]
      · simp [resps]
      · split at h'
        · exact fwd _ _ h'
        · rcases andThen_run (hs1.delete _) h' with ⟨_, rfl⟩ | ⟨_, rfl⟩ | ⟨_, h''⟩
          · simp [resps]
          · simp [resps]
          · exact fwd _ _ h''

/-- `andThen p k` for a `p` that may emit. -/
theorem andThen_run' {α β} {p : OProg (HRes α)} {k : HRes α → OProg (HRes β)}
    {res : HRes β} {es : List OEv} (h : Runs (andThen p k) res es) :
    ∃ a e1 e2, Runs p a e1 ∧ es = e1 ++ e2 ∧
      ((res = .error .panic ∧ e2 = []) ∨ (res = .error .crash ∧ e2 = []) ∨ Runs (k a) res e2) := by
  unfold andThen at h
  obtain ⟨a, e1, e2, h1, h2, rfl⟩ := Runs.bind_inv h
  refine ⟨a, e1, e2, h1, rfl, ?_⟩
  split at h2
  · obtain ⟨rfl, rfl⟩ := pure_run h2; exact Or.inl ⟨rfl, rfl⟩
  · obtain ⟨rfl, rfl⟩ := pure_run h2; exact Or.inr (Or.inl ⟨rfl, rfl⟩)
  · exact Or.inr (Or.inr h2)

theorem disc_get_any_err (g : GetCmd) (res : HRes Unit) (hne : res ≠ .ok ()) : Disc (.get g) res [] :=
  ⟨[], by simp, Or.inr ⟨hne, rfl⟩⟩

/-- The end of every get: a terminator if no error was recorded, the error otherwise. -/
theorem get_tail_shape (g : GetCmd) (err : Option HErr) :
    Shape (Disc (.get g)) (match err with
      | none => reply (.getEnd g.noopOpaque g.noopEnd)
      | some e => pure (.error e)) := by
  cases err with
  | none => exact Shape.reply _ (disc_get_end g)
  | some e => exact Shape.pure _ (disc_get_err g e)

/-- A get through the L1/L2 orchestrator (L1 hits, L2 look-ups with back-fill): get events, then
    exactly one terminator iff it succeeded — for every behaviour of both backends. -/
theorem L1L2_disc_get (h1 h2 : Handler OEv) (hs1 : SilentHandler h1) (hs2 : SilentHandler h2) (g : GetCmd) :
    Shape (Disc (.get g)) (L1L2.step h1 h2 (.get g)) := by
  simp only [L1L2.step, L1L2.get]
  apply Shape.bindSilent (hs1.get _)
  intro ⟨rs1, err1⟩
  simp only
  apply emitGets_shape
  split
  · cases err1 with
    | none => exact Shape.reply _ (disc_get_end g)
    | some e => exact Shape.pure _ (disc_get_err g e)
  · apply Shape.bindSilent (hs2.getE _)
    intro ⟨rs2, err2⟩
    simp only
    constructor
    intro res es hr
    obtain ⟨a, e1, e2, hb, rfl, hk⟩ := andThen_run' hr
    rw [resps_append]
    apply Disc_get_prepend g res _ _ (backfill_gets h1 hs1 rs2 a e1 hb)
    rcases hk with ⟨rfl, rfl⟩ | ⟨rfl, rfl⟩ | hk
    · simpa [resps] using disc_get_any_err g _ (by simp)
    · simpa [resps] using disc_get_any_err g _ (by simp)
    · exact (get_tail_shape g _).out res e2 hk

/-- The batch-port orchestrator: L1 hits, then plain L2 gets. -/
theorem L1L2Batch_disc_get (h1 h2 : Handler OEv) (hs1 : SilentHandler h1) (hs2 : SilentHandler h2) (g : GetCmd) :
    Shape (Disc (.get g)) (L1L2Batch.step h1 h2 (.get g)) := by
  simp only [L1L2Batch.step, L1L2Batch.get]
  apply Shape.bindSilent (hs1.get _)
  intro ⟨rs1, err1⟩
  simp only
  apply emitGets_shape
  split
  · cases err1 with
    | none => exact Shape.reply _ (disc_get_end g)
    | some e => exact Shape.pure _ (disc_get_err g e)
  · apply Shape.bindSilent (hs2.get _)
    intro ⟨rs2, err2⟩
    simp only
    apply emitGets_shape
    exact get_tail_shape g _

/-- Store / delete / touch / get-and-touch / housekeeping through the L1/L2 orchestrator: exactly one
    responder call when the command returns nil, none when it returns an error (the server loop then
    sends the error reply or closes) — including every compensation path. -/
theorem L1L2_disc_simple (h1 h2 : Handler OEv) (hs1 : SilentHandler h1) (hs2 : SilentHandler h2) (c : Cmd)
    (hc : ∀ g, c ≠ .get g) : Shape (Disc c) (L1L2.step h1 h2 c) := by
  cases c with
  | get g => exact absurd rfl (hc g)
  | getE g => simp only [L1L2.step]; exact Shape.pure _ ⟨[], by simp, Or.inr ⟨by simp, rfl⟩⟩
  | store k sc =>
    cases k <;> simp only [L1L2.step, L1L2.set, L1L2.add, L1L2.replace, L1L2.pend] <;> shape_tac hs1 hs2
  | gat kc => simp only [L1L2.step, L1L2.gat]; shape_tac hs1 hs2
  | delete kc => simp only [L1L2.step, L1L2.delete]; shape_tac hs1 hs2
  | touch kc => simp only [L1L2.step, L1L2.touch]; shape_tac hs1 hs2
  | noop o => simp only [L1L2.step]; shape_tac hs1 hs2
  | quit o q => simp only [L1L2.step]; shape_tac hs1 hs2
  | version o => simp only [L1L2.step]; shape_tac hs1 hs2
  | stat o => simp only [L1L2.step]; shape_tac hs1 hs2
  | unknown => simp only [L1L2.step]; shape_tac hs1 hs2

theorem L1L2Batch_disc_simple (h1 h2 : Handler OEv) (hs1 : SilentHandler h1) (hs2 : SilentHandler h2) (c : Cmd)
    (hc : ∀ g, c ≠ .get g) : Shape (Disc c) (L1L2Batch.step h1 h2 c) := by
  cases c with
  | get g => exact absurd rfl (hc g)
  | getE g => simp only [L1L2Batch.step]; exact Shape.pure _ ⟨[], by simp, Or.inr ⟨by simp, rfl⟩⟩
  | store k sc =>
    cases k <;> simp only [L1L2Batch.step, L1L2Batch.set, L1L2Batch.addReplace, L1L2.pend] <;> shape_tac hs1 hs2
  | gat kc => simp only [L1L2Batch.step, L1L2Batch.gat]; shape_tac hs1 hs2
  | delete kc => simp only [L1L2Batch.step, L1L2.delete]; shape_tac hs1 hs2
  | touch kc => simp only [L1L2Batch.step, L1L2Batch.touch]; shape_tac hs1 hs2
  | noop o => simp only [L1L2Batch.step]; shape_tac hs1 hs2
  | quit o q => simp only [L1L2Batch.step]; shape_tac hs1 hs2
  | version o => simp only [L1L2Batch.step]; shape_tac hs1 hs2
  | stat o => simp only [L1L2Batch.step]; shape_tac hs1 hs2
  | unknown => simp only [L1L2Batch.step]; shape_tac hs1 hs2

/-! ### The locking wrapper -/

theorem filterEmit_run {α} (keep : OEv → Bool) : ∀ (p : OProg α) (a : α) (es : List OEv),
    Runs (Prog.filterEmit keep p) a es → ∃ es', Runs p a es' ∧ es = es'.filter keep := by
  intro p
  induction p with
  | ret x => intro a es h; cases h; exact ⟨[], Runs.ret _, rfl⟩
  | call t r k ih =>
    intro a es h
    simp only [Prog.filterEmit] at h
    cases h with
    | call _ _ _ x _ _ h' =>
      obtain ⟨es', h1, rfl⟩ := ih x a es h'
      exact ⟨es', Runs.call t r k x a es' h1, rfl⟩
  | draw k ih =>
    intro a es h
    simp only [Prog.filterEmit] at h
    cases h with
    | draw _ tok _ _ h' =>
      obtain ⟨es', h1, rfl⟩ := ih tok a es h'
      exact ⟨es', Runs.draw k tok a es' h1, rfl⟩
  | emit e p ih =>
    intro a es h
    simp only [Prog.filterEmit] at h
    split at h
    · rename_i hk
      cases h with
      | emit _ _ _ es0 h' =>
        obtain ⟨es', h1, rfl⟩ := ih a es0 h'
        exact ⟨e :: es', Runs.emit e p a es' h1, by simp [List.filter_cons, hk]⟩
    · rename_i hk
      obtain ⟨es', h1, rfl⟩ := ih a es h
      exact ⟨e :: es', Runs.emit e p a es' h1, by simp [List.filter_cons, hk]⟩

/-- The facts about `LockedOrca` that the discipline depends on, read off the regenerated table:
    every keyed method locks, unlocks on every path and lets a panic through; `Get` holds the
    end-of-get marker back for all but the last key and re-panics. -/
theorem locked_facts_ok :
    (∀ n ∈ ["Set", "Add", "Replace", "Append", "Prepend", "Delete", "Touch", "Gat"],
      (lockedFact n).usesLock = true ∧ (lockedFact n).deferUnlock = true ∧ (lockedFact n).recovers = false) ∧
    ((lockedFact "Get").usesLock = true ∧ (lockedFact "Get").inlineUnlock = true ∧ (lockedFact "Get").recovers = true ∧
      (lockedFact "Get").recoverUnlocks = true ∧ (lockedFact "Get").repanics = true ∧ (lockedFact "Get").gatesGetEnd = true) ∧
    ((lockedFact "GetE").usesLock = true ∧ (lockedFact "GetE").inlineUnlock = true ∧ (lockedFact "GetE").recovers = true ∧
      (lockedFact "GetE").recoverUnlocks = true ∧ (lockedFact "GetE").repanics = true ∧ (lockedFact "GetE").gatesGetEnd = true) := by
  decide

theorem resps_acquire (s : Nat) (r : Bool) (es : List OEv) : resps (.acquire s r :: es) = resps es := rfl
theorem resps_release (s : Nat) (r : Bool) (es : List OEv) : resps (.release s r :: es) = resps es := rfl

/-- A keyed single-lock method: the wrapped call's result and responder calls, unchanged. -/
theorem lockedSingle_resps (f : Gen.LockedFact) (hf : f.usesLock = true ∧ f.deferUnlock = true ∧ f.recovers = false)
    (bits : Nat) (key : Bytes) (p : OProg (HRes Unit)) (res : HRes Unit) (es : List OEv)
    (h : Runs (lockedSingle f bits key p) res es) : ∃ es', Runs p res es' ∧ resps es = resps es' := by
  obtain ⟨h1, h2, h3⟩ := hf
  unfold lockedSingle at h
  simp only [h1, h2, h3, Bool.not_true, Bool.false_eq_true, if_false, Bool.true_or, if_true, Bool.false_and] at h
  obtain ⟨u, e1, e2, ha, h', rfl⟩ := Runs.bind_inv h
  have := Runs.out_inv ha; subst this
  obtain ⟨r, e3, e4, hp, h'', rfl⟩ := Runs.bind_inv h'
  refine ⟨e3, ?_, ?_⟩
  · split at h''
    · obtain ⟨rfl, _⟩ := pure_run h''; exact hp
    · split at h''
      · obtain ⟨_, _, _, hr, hq, rfl⟩ := Runs.bind_inv h''
        obtain ⟨rfl, _⟩ := pure_run hq; exact hp
      · obtain ⟨_, _, _, hr, hq, rfl⟩ := Runs.bind_inv h''
        obtain ⟨rfl, _⟩ := pure_run hq; exact hp
  · simp only [List.singleton_append, resps_acquire, resps_append]
    split at h''
    · obtain ⟨_, rfl⟩ := pure_run h''; simp [resps]
    · split at h''
      · obtain ⟨_, e5, e6, hr, hq, rfl⟩ := Runs.bind_inv h''
        have := Runs.out_inv hr; subst this
        obtain ⟨_, rfl⟩ := pure_run hq; simp [resps]
      · obtain ⟨_, e5, e6, hr, hq, rfl⟩ := Runs.bind_inv h''
        have := Runs.out_inv hr; subst this
        obtain ⟨_, rfl⟩ := pure_run hq; simp [resps]

def isGetEnd : REv → Bool
  | .getEnd _ _ => true
  | _ => false

theorem isGetEndEv_resp (r : REv) : isGetEndEv (.resp r) = isGetEnd r := by cases r <;> rfl

theorem resps_filter (es : List OEv) :
    resps (es.filter (fun e => !isGetEndEv e)) = (resps es).filter (fun r => !isGetEnd r) := by
  induction es with
  | nil => rfl
  | cons e es ih =>
    rw [List.filter_cons]
    cases e with
    | resp r =>
      rw [isGetEndEv_resp]
      cases hr : isGetEnd r
      · simp only [Bool.not_false, if_true, resps, List.filter_cons, hr, ih]
      · simp only [Bool.not_true, Bool.false_eq_true, if_false, resps, List.filter_cons, hr, ih]
    | acquire s r => simpa [isGetEndEv, resps] using ih
    | release s r => simpa [isGetEndEv, resps] using ih

theorem filter_gets (gs : List REv) (h : ∀ e ∈ gs, isGet e = true) : gs.filter (fun r => !isGetEnd r) = gs := by
  rw [List.filter_eq_self]
  intro e he
  have := h e he
  cases e <;> simp_all [isGet, isGetEnd]

/-- The per-key loop of `LockedOrca.Get`, under the regenerated facts (read lock per key, inline
    unlock, recover + unlock + re-panic, end-of-get marker held back for all but the last key). -/
theorem lockedGetLoop_disc (f : Gen.LockedFact)
    (hf : f.usesLock = true ∧ f.inlineUnlock = true ∧ f.recovers = true ∧ f.recoverUnlocks = true ∧
      f.repanics = true ∧ f.gatesGetEnd = true)
    (bits : Nat) (sub : GetCmd → OProg (HRes Unit)) (hsub : ∀ g', Shape (Disc (.get g')) (sub g')) (g : GetCmd) :
    ∀ (ks : List GetKey), ks ≠ [] → ∀ res es, Runs (lockedGetLoop f bits sub g ks) res es →
      ∃ gs, (∀ e ∈ gs, isGet e = true) ∧
        ((res = .ok () ∧ resps es = gs ++ [.getEnd g.noopOpaque g.noopEnd]) ∨ (res ≠ .ok () ∧ resps es = gs)) := by
  obtain ⟨f1, f2, f3, f4, f5, f6⟩ := hf
  intro ks
  induction ks with
  | nil => intro h; exact absurd rfl h
  | cons k rest ih =>
    intro _ res es h
    unfold lockedGetLoop at h
    simp only [f1, f2, f3, f4, f5, f6, if_true, Bool.true_and, Bool.not_true, Bool.and_false, Bool.false_eq_true,
      if_false, Bool.or_true, Bool.true_or] at h
    obtain ⟨_, e1, e2, ha, h2, rfl⟩ := Runs.bind_inv h
    have := Runs.out_inv ha; subst this
    simp only [List.singleton_append, resps_acquire]
    -- the sub-get (with the end marker filtered out unless this is the last key), then the tail
    have hstep : ∃ r e3 e4, e2 = e3 ++ e4 ∧
        (∃ gs, (∀ e ∈ gs, isGet e = true) ∧
          ((r = .ok () ∧ resps e3 = gs ++ (if rest.isEmpty then [.getEnd g.noopOpaque g.noopEnd] else [])) ∨
           (r ≠ .ok () ∧ resps e3 = gs))) ∧
        Runs (if isCrash r = true then pure r
          else if isPanic r = true then do
            Prog.out (OEv.release (stripeOf bits k.key) f.readLock)
            pure r
          else do
            Prog.out (OEv.release (stripeOf bits k.key) f.readLock)
            match r with
              | Except.ok PUnit.unit => lockedGetLoop f bits sub g rest
              | e => pure e) res e4 := by
      by_cases hlast : rest.isEmpty = true
      · simp only [hlast, Bool.not_true, Bool.false_eq_true, if_false, if_true] at h2 ⊢
        obtain ⟨r, e3, e4, hs, h3, rfl⟩ := Runs.bind_inv h2
        obtain ⟨gs, hgs, hd⟩ := (hsub _).out r e3 hs
        exact ⟨r, e3, e4, rfl, ⟨gs, hgs, hd⟩, h3⟩
      · have hl : rest.isEmpty = false := by simpa using hlast
        simp only [hl, Bool.not_false, if_true, Bool.false_eq_true, if_false] at h2 ⊢
        obtain ⟨r, e3, e4, hs, h3, rfl⟩ := Runs.bind_inv h2
        obtain ⟨e3', hs', rfl⟩ := filterEmit_run _ _ _ _ hs
        obtain ⟨gs, hgs, hd⟩ := (hsub _).out r e3' hs'
        refine ⟨r, _, e4, rfl, ⟨gs, hgs, ?_⟩, h3⟩
        rcases hd with ⟨h1, h2'⟩ | ⟨h1, h2'⟩
        · left
          refine ⟨h1, ?_⟩
          rw [resps_filter, h2', List.filter_append, filter_gets gs hgs]
          simp [isGetEnd]
        · right
          refine ⟨h1, ?_⟩
          rw [resps_filter, h2', filter_gets gs hgs]
    obtain ⟨r, e3, e4, rfl, ⟨gs, hgs, hd⟩, h⟩ := hstep
    simp only [resps_append]
    split at h
    · -- crash
      rename_i hc
      obtain ⟨rfl, rfl⟩ := pure_run h
      have hne : res ≠ .ok () := by intro h; subst h; simp [isCrash] at hc
      rcases hd with ⟨h1, _⟩ | ⟨_, h2⟩
      · exact absurd h1 hne
      · exact ⟨gs, hgs, Or.inr ⟨hne, by simp [h2, resps]⟩⟩
    · split at h
      · -- panic: unlock, re-panic
        rename_i hp
        obtain ⟨_, e5, e6, hr, hq, rfl⟩ := Runs.bind_inv h
        have := Runs.out_inv hr; subst this
        obtain ⟨rfl, rfl⟩ := pure_run hq
        have hne : res ≠ .ok () := by intro h; subst h; simp [isPanic] at hp
        rcases hd with ⟨h1, _⟩ | ⟨_, h2⟩
        · exact absurd h1 hne
        · exact ⟨gs, hgs, Or.inr ⟨hne, by simp [h2, resps]⟩⟩
      · obtain ⟨_, e5, e6, hr, hq, rfl⟩ := Runs.bind_inv h
        have := Runs.out_inv hr; subst this
        simp only [List.singleton_append, resps_release]
        split at hq
        · -- this key succeeded
          rcases hd with ⟨_, hr3⟩ | ⟨h1, _⟩
          · by_cases hlast : rest = []
            · subst hlast
              simp only [lockedGetLoop] at hq
              obtain ⟨rfl, rfl⟩ := pure_run hq
              exact ⟨gs, hgs, Or.inl ⟨rfl, by simpa [resps] using hr3⟩⟩
            · have hl : rest.isEmpty = false := by cases rest <;> simp_all
              rw [hl] at hr3
              simp only [Bool.false_eq_true, if_false, List.append_nil] at hr3
              obtain ⟨gs', hgs', hd'⟩ := ih hlast res e6 hq
              refine ⟨gs ++ gs', ?_, ?_⟩
              · intro e he
                rcases List.mem_append.mp he with he | he
                · exact hgs e he
                · exact hgs' e he
              · rw [hr3]
                rcases hd' with ⟨h1, h3⟩ | ⟨h1, h3⟩
                · exact Or.inl ⟨h1, by rw [h3]; simp⟩
                · exact Or.inr ⟨h1, by rw [h3]⟩
          · exact absurd rfl h1
        · rename_i hnok
          obtain ⟨rfl, rfl⟩ := pure_run hq
          have hne : res ≠ .ok () := by
            intro h; subst h; exact hnok rfl
          rcases hd with ⟨h1, _⟩ | ⟨_, h2⟩
          · exact absurd h1 hne
          · exact ⟨gs, hgs, Or.inr ⟨hne, by simp [h2, resps]⟩⟩

theorem L1Only_disc_getE (h1 : Handler OEv) (hs1 : SilentHandler h1) (g : GetCmd) :
    Shape (Disc (.getE g)) (L1Only.step h1 (.getE g)) := by
  simp only [L1Only.step, L1Only.getE]
  apply Shape.bindSilent (hs1.getE _)
  intro ⟨rs, err⟩
  simp only
  apply Shape.after (emitGetEs rs) (rs.map REv.getE) (fun u es h => emitGetEs_run rs u es h)
  have hall : ∀ e ∈ rs.map REv.getE, isGetE e = true := by
    intro e he; obtain ⟨r, _, rfl⟩ := List.mem_map.mp he; rfl
  cases err with
  | none =>
    constructor
    intro res es hr
    obtain ⟨rfl, rfl⟩ := reply_run hr
    exact ⟨rs.map REv.getE, hall, Or.inl ⟨rfl, by simp [resps]⟩⟩
  | some e =>
    constructor
    intro res es hr
    obtain ⟨rfl, rfl⟩ := pure_run hr
    exact ⟨rs.map REv.getE, hall, Or.inr ⟨by simp, by simp [resps]⟩⟩

/-- **Reply discipline of every orchestrator**, for every command and every behaviour of the two
    backends: a command that returns nil has made exactly one acknowledging responder call (a get:
    its value/miss calls followed by exactly one terminator); a command that returns an error has
    made no acknowledging call and no terminator. -/
theorem C08_orca_discipline (o : OrcaKind) (h1 h2 : Handler OEv) (hs1 : SilentHandler h1) (hs2 : SilentHandler h2)
    (c : Cmd) : Shape (Disc c) (o.step h1 h2 c) := by
  cases o with
  | l1only =>
    simp only [OrcaKind.step]
    cases c with
    | get g => exact L1Only_disc_get h1 hs1 g
    | getE g => exact L1Only_disc_getE h1 hs1 g
    | store k sc => exact L1Only_disc_simple h1 hs1 _ (fun g => ⟨by simp, by simp⟩)
    | gat kc => exact L1Only_disc_simple h1 hs1 _ (fun g => ⟨by simp, by simp⟩)
    | delete kc => exact L1Only_disc_simple h1 hs1 _ (fun g => ⟨by simp, by simp⟩)
    | touch kc => exact L1Only_disc_simple h1 hs1 _ (fun g => ⟨by simp, by simp⟩)
    | noop o => exact L1Only_disc_simple h1 hs1 _ (fun g => ⟨by simp, by simp⟩)
    | quit o q => exact L1Only_disc_simple h1 hs1 _ (fun g => ⟨by simp, by simp⟩)
    | version o => exact L1Only_disc_simple h1 hs1 _ (fun g => ⟨by simp, by simp⟩)
    | stat o => exact L1Only_disc_simple h1 hs1 _ (fun g => ⟨by simp, by simp⟩)
    | unknown => exact L1Only_disc_simple h1 hs1 _ (fun g => ⟨by simp, by simp⟩)
  | l1l2 =>
    simp only [OrcaKind.step]
    by_cases hg : ∃ g, c = .get g
    · obtain ⟨g, rfl⟩ := hg; exact L1L2_disc_get h1 h2 hs1 hs2 g
    · exact L1L2_disc_simple h1 h2 hs1 hs2 c (fun g hc => hg ⟨g, hc⟩)
  | l1l2batch =>
    simp only [OrcaKind.step]
    by_cases hg : ∃ g, c = .get g
    · obtain ⟨g, rfl⟩ := hg; exact L1L2Batch_disc_get h1 h2 hs1 hs2 g
    · exact L1L2Batch_disc_simple h1 h2 hs1 hs2 c (fun g hc => hg ⟨g, hc⟩)

/-- The same **under the locking wrapper** (shape of `LockedOrca` taken from the regenerated facts):
    in particular a get of n ≥ 1 keys makes exactly one terminator call, not one per key. -/
theorem C08_locked_discipline (bits : Nat) (wrapped : Cmd → OProg (HRes Unit))
    (hw : ∀ c, Shape (Disc c) (wrapped c)) (c : Cmd)
    (hkeys : ∀ g, c = .get g → g.keys ≠ []) (hnotE : ∀ g, c ≠ .getE g) :
    Shape (Disc c) (Locked.step bits wrapped c) := by
  obtain ⟨hsingle, hget, _⟩ := locked_facts_ok
  have single : ∀ (n : String) (key : Bytes), n ∈ ["Set", "Add", "Replace", "Append", "Prepend", "Delete", "Touch", "Gat"] →
      Shape (Disc c) (lockedSingle (lockedFact n) bits key (wrapped c)) := by
    intro n key hn
    constructor
    intro res es hr
    obtain ⟨es', hr', he⟩ := lockedSingle_resps _ (hsingle n hn) bits key _ res es hr
    rw [he]
    exact (hw c).out res es' hr'
  cases c with
  | store k sc => cases k <;> simp only [Locked.step] <;> exact single _ _ (by simp)
  | delete kc => simp only [Locked.step]; exact single _ _ (by simp)
  | touch kc => simp only [Locked.step]; exact single _ _ (by simp)
  | gat kc => simp only [Locked.step]; exact single _ _ (by simp)
  | get g =>
    simp only [Locked.step]
    constructor
    intro res es hr
    exact lockedGetLoop_disc _ hget bits (fun sub => wrapped (.get sub)) (fun g' => hw (.get g')) g g.keys
      (hkeys g rfl) res es hr
  | getE g => exact absurd rfl (hnotE g)
  | noop o => simp only [Locked.step]; exact hw _
  | quit o q => simp only [Locked.step]; exact hw _
  | version o => simp only [Locked.step]; exact hw _
  | stat o => simp only [Locked.step]; exact hw _
  | unknown => simp only [Locked.step]; exact hw _

/-! ### Every reply is a complete, well-formed frame -/

theorem rd16_be16 (n : Nat) (h : n < 65536) (rest : Bytes) : Bytes.rd16 (Bytes.be16 n ++ rest) = n := by
  simp [Bytes.be16, Bytes.rd16, UInt8.toNat_ofNat']
  omega

theorem rd32_be32' (n : Nat) (h : n < 4294967296) (rest : Bytes) : Bytes.rd32 (Bytes.be32 n ++ rest) = n := by
  simp [Bytes.be32, Bytes.rd32, UInt8.toNat_ofNat']
  omega

/-- A response header followed by a body of exactly the announced length decodes to one frame whose
    fields are the ones written, leaving exactly what follows. -/
theorem decodeBinFrame_ok (opcode keyLen extLen status opq : Nat) (body rest : Bytes)
    (hop : opcode < 256) (hk : keyLen < 65536) (he : extLen < 256) (hs : status < 65536)
    (ht : body.length < 4294967296) (ho : opq < 4294967296) (hke : keyLen + extLen ≤ body.length) :
    decodeBinFrame (resHeader opcode keyLen extLen status body.length opq ++ body ++ rest) =
      some ({ opcode := opcode, status := status, opq := opq, extras := body.take extLen,
              key := (body.drop extLen).take keyLen, value := body.drop (extLen + keyLen) }, rest) := by
  have h16 : ∀ n, n < 65536 → ∀ r : Bytes, Bytes.rd16 (UInt8.ofNat (n / 256 % 256) :: UInt8.ofNat (n % 256) :: r) = n := by
    intro n hn r; simp [Bytes.rd16, UInt8.toNat_ofNat']; omega
  have h32 : ∀ n, n < 4294967296 → ∀ r : Bytes, Bytes.rd32 (UInt8.ofNat (n / 16777216 % 256) :: UInt8.ofNat (n / 65536 % 256) ::
      UInt8.ofNat (n / 256 % 256) :: UInt8.ofNat (n % 256) :: r) = n := by
    intro n hn r; simp [Bytes.rd32, UInt8.toNat_ofNat']; omega
  unfold decodeBinFrame resHeader
  simp only [List.cons_append, List.nil_append, List.length_cons, List.length_append, List.length_nil,
    List.getD_eq_getElem?_getD, List.drop_succ_cons, List.drop_zero, List.getElem?_cons_zero, List.getElem?_cons_succ,
    Option.getD_some, h16 _ hk, h16 _ hs, h32 _ ht, h32 _ ho]
  have hlen : ¬ (body.length + rest.length + 1 + 1 + 1 + 1 + 1 + 1 + 1 + 1 + 1 + 1 + 1 + 1 + 1 + 1 + 1 + 1 + 1 + 1 + 1 + 1 + 1 + 1 + 1 + 1 < 24) := by omega
  have hlen2 : ¬ (body.length + rest.length + 1 + 1 + 1 + 1 + 1 + 1 + 1 + 1 + 1 + 1 + 1 + 1 + 1 + 1 + 1 + 1 + 1 + 1 + 1 + 1 + 1 + 1 + 1 + 1 < 24 + body.length) := by omega
  have hke' : ¬ (body.length < keyLen + extLen) := by omega
  simp [hlen, hlen2, hke', UInt8.toNat_ofNat', Gen.binprot_MagicResponse, Nat.mod_eq_of_lt hop, Nat.mod_eq_of_lt he]
  rw [← List.drop_drop]
  simp

theorem decodeBin_nil : decodeBin [] = some [] := by
  simp [decodeBin, decodeBinFrames]

theorem decodeBinFrames_step (fuel : Nat) (b rest : Bytes) (f : BinFrame) (hb : b ≠ [])
    (h : decodeBinFrame b = some (f, rest)) :
    decodeBinFrames (fuel + 1) b = (decodeBinFrames fuel rest).map (f :: ·) := by
  have : b.isEmpty = false := by cases b <;> simp_all
  simp [decodeBinFrames, this, h]

/-- One frame. -/
theorem decodeBin_one (opcode keyLen extLen status opq : Nat) (body : Bytes)
    (hop : opcode < 256) (hk : keyLen < 65536) (he : extLen < 256) (hs : status < 65536)
    (ht : body.length < 4294967296) (ho : opq < 4294967296) (hke : keyLen + extLen ≤ body.length) :
    decodeBin (resHeader opcode keyLen extLen status body.length opq ++ body) =
      some [{ opcode := opcode, status := status, opq := opq, extras := body.take extLen,
              key := (body.drop extLen).take keyLen, value := body.drop (extLen + keyLen) }] := by
  have h := decodeBinFrame_ok opcode keyLen extLen status opq body [] hop hk he hs ht ho hke
  simp only [List.append_nil] at h
  unfold decodeBin
  rw [decodeBinFrames_step _ _ [] _ (by simp [resHeader]) h]
  cases hl : (resHeader opcode keyLen extLen status body.length opq ++ body).length with
  | zero => simp [resHeader] at hl
  | succ n => simp [decodeBinFrames]

/-- Two frames back to back (the stat reply). -/
theorem decodeBin_two (op1 k1 e1 s1 o1 op2 k2 e2 s2 o2 : Nat) (b1 b2 : Bytes)
    (h1 : op1 < 256 ∧ k1 < 65536 ∧ e1 < 256 ∧ s1 < 65536 ∧ b1.length < 4294967296 ∧ o1 < 4294967296 ∧ k1 + e1 ≤ b1.length)
    (h2 : op2 < 256 ∧ k2 < 65536 ∧ e2 < 256 ∧ s2 < 65536 ∧ b2.length < 4294967296 ∧ o2 < 4294967296 ∧ k2 + e2 ≤ b2.length) :
    ∃ f1 f2, decodeBin (resHeader op1 k1 e1 s1 b1.length o1 ++ b1 ++ (resHeader op2 k2 e2 s2 b2.length o2 ++ b2)) = some [f1, f2] ∧
      f1.opq = o1 ∧ f2.opq = o2 ∧ f1.status = s1 ∧ f2.status = s2 := by
  obtain ⟨a1, a2, a3, a4, a5, a6, a7⟩ := h1
  obtain ⟨c1, c2, c3, c4, c5, c6, c7⟩ := h2
  have hA := decodeBinFrame_ok op1 k1 e1 s1 o1 b1 (resHeader op2 k2 e2 s2 b2.length o2 ++ b2) a1 a2 a3 a4 a5 a6 a7
  have hB := decodeBinFrame_ok op2 k2 e2 s2 o2 b2 [] c1 c2 c3 c4 c5 c6 c7
  simp only [List.append_nil] at hB
  refine ⟨{ opcode := op1, status := s1, opq := o1, extras := b1.take e1, key := (b1.drop e1).take k1, value := b1.drop (e1 + k1) },
    { opcode := op2, status := s2, opq := o2, extras := b2.take e2, key := (b2.drop e2).take k2, value := b2.drop (e2 + k2) },
    ?_, rfl, rfl, rfl, rfl⟩
  unfold decodeBin
  have hlen : ∃ n, (resHeader op1 k1 e1 s1 b1.length o1 ++ b1 ++ (resHeader op2 k2 e2 s2 b2.length o2 ++ b2)).length + 1 = n + 3 := by
    refine ⟨b1.length + b2.length + 46, ?_⟩
    simp [resHeader]; omega
  obtain ⟨n, hn⟩ := hlen
  rw [hn, decodeBinFrames_step _ _ _ _ (by simp [resHeader]) hA,
    decodeBinFrames_step _ _ _ _ (by simp [resHeader]) hB]
  simp [decodeBinFrames]

/-- Bounds under which a responder event fits the wire format. -/
def EvOK : REv → Prop
  | .stored _ o _ => o < 4294967296
  | .get r => r.opq < 4294967296 ∧ r.flags < 4294967296 ∧ r.data.length + 8 < 4294967296
  | .gat r => r.opq < 4294967296 ∧ r.flags < 4294967296 ∧ r.data.length + 8 < 4294967296
  | .getE r => r.opq < 4294967296 ∧ r.flags < 4294967296 ∧ r.exptime < 4294967296 ∧ r.data.length + 8 < 4294967296
  | .getEnd o _ => o < 4294967296
  | .deleted o => o < 4294967296
  | .touched o => o < 4294967296
  | .noop o => o < 4294967296
  | .quit o _ => o < 4294967296
  | .version o => o < 4294967296
  | .stat o => o < 4294967296
  | .error o _ _ _ => o < 4294967296

def evOpq : REv → Nat
  | .stored _ o _ => o | .get r => r.opq | .gat r => r.opq | .getE r => r.opq | .getEnd o _ => o
  | .deleted o => o | .touched o => o | .noop o => o | .quit o _ => o | .version o => o | .stat o => o
  | .error o _ _ _ => o

theorem be32_len (n : Nat) : (Bytes.be32 n).length = 4 := rfl

theorem errorToCode_lt (e : Err) : errorToCode e < 65536 := by
  cases e <;> decide

theorem reqTypeToOpcode_lt (rt : ReqType) (q : Bool) : reqTypeToOpcode rt q < 256 := by
  cases rt <;> cases q <;> decide

/-- **Every byte string the binary responder writes for one call is a sequence of complete,
    well-formed response frames** (at most two — the stat reply), each echoing the call's opaque,
    each with a total body length equal to extras + key + value. Quiet calls write nothing. -/
theorem C08_bin_frames (e : REv) (he : EvOK e) :
    ∃ fs, decodeBin (binRespond e) = some fs ∧ fs.length ≤ 2 ∧ ∀ f ∈ fs, f.opq = evOpq e := by
  have one : ∀ (opcode keyLen extLen status opq : Nat) (body : Bytes),
      opcode < 256 → keyLen < 65536 → extLen < 256 → status < 65536 → body.length < 4294967296 → opq < 4294967296 →
      keyLen + extLen ≤ body.length →
      ∃ fs, decodeBin (resHeader opcode keyLen extLen status body.length opq ++ body) = some fs ∧ fs.length ≤ 2 ∧
        ∀ f ∈ fs, f.opq = opq := by
    intro opcode keyLen extLen status opq body a1 a2 a3 a4 a5 a6 a7
    exact ⟨_, decodeBin_one opcode keyLen extLen status opq body a1 a2 a3 a4 a5 a6 a7, by simp, by simp⟩
  have empty : ∃ fs, decodeBin [] = some fs ∧ fs.length ≤ 2 ∧ ∀ f ∈ fs, f.opq = evOpq e :=
    ⟨[], decodeBin_nil, by simp, by simp⟩
  have hdr : ∀ (opcode status opq : Nat), opcode < 256 → status < 65536 → opq < 4294967296 →
      ∃ fs, decodeBin (resHeader opcode 0 0 status 0 opq) = some fs ∧ fs.length ≤ 2 ∧ ∀ f ∈ fs, f.opq = opq := by
    intro opcode status opq a1 a2 a3
    have := one opcode 0 0 status opq [] a1 (by decide) (by decide) a2 (by decide) a3 (by simp)
    simpa using this
  cases e with
  | stored k o q =>
    simp only [binRespond]
    split
    · exact empty
    · exact hdr _ _ _ (by cases k <;> decide) (by decide) he
  | get r =>
    obtain ⟨h1, h2, h3⟩ := he
    simp only [binRespond]
    split
    · split
      · exact empty
      · exact hdr _ _ _ (reqTypeToOpcode_lt _ _) (errorToCode_lt _) h1
    · have := one Gen.binprot_OpcodeGet 0 4 Gen.binprot_StatusSuccess r.opq (Bytes.be32 r.flags ++ r.data) (by decide) (by decide) (by decide)
        (by decide) (by simp [be32_len]; omega) h1 (by simp [be32_len])
      simpa [binGetCommon, okHeader, be32_len, Nat.add_comm, List.append_assoc, evOpq] using this
  | gat r =>
    obtain ⟨h1, h2, h3⟩ := he
    simp only [binRespond]
    split
    · split
      · exact empty
      · exact hdr _ _ _ (reqTypeToOpcode_lt _ _) (errorToCode_lt _) h1
    · have := one Gen.binprot_OpcodeGat 0 4 Gen.binprot_StatusSuccess r.opq (Bytes.be32 r.flags ++ r.data) (by decide) (by decide) (by decide)
        (by decide) (by simp [be32_len]; omega) h1 (by simp [be32_len])
      simpa [binGetCommon, okHeader, be32_len, Nat.add_comm, List.append_assoc, evOpq] using this
  | getE r =>
    obtain ⟨h1, h2, h3, h4⟩ := he
    simp only [binRespond]
    split
    · split
      · exact empty
      · exact hdr _ _ _ (reqTypeToOpcode_lt _ _) (errorToCode_lt _) h1
    · have hl : (Bytes.be32 r.flags ++ Bytes.be32 r.exptime ++ r.data).length = r.data.length + 8 := by
        simp [be32_len]; omega
      have hb : okHeader Gen.binprot_OpcodeGetE 0 8 (r.data.length + 8) r.opq ++ Bytes.be32 r.flags ++ Bytes.be32 r.exptime ++ r.data =
          resHeader Gen.binprot_OpcodeGetE 0 8 Gen.binprot_StatusSuccess
            (Bytes.be32 r.flags ++ Bytes.be32 r.exptime ++ r.data).length r.opq ++ (Bytes.be32 r.flags ++ Bytes.be32 r.exptime ++ r.data) := by
        simp only [okHeader, List.append_assoc]
        rw [show (Bytes.be32 r.flags ++ (Bytes.be32 r.exptime ++ r.data)).length = r.data.length + 8 by
          simp [be32_len]; omega]
      rw [hb]
      exact one Gen.binprot_OpcodeGetE 0 8 Gen.binprot_StatusSuccess r.opq _ (by decide) (by decide)
        (by decide) (by decide) (by rw [hl]; omega) h1 (by rw [hl]; omega)
  | getEnd o n =>
    simp only [binRespond]
    split
    · exact hdr _ _ _ (by decide) (by decide) he
    · exact empty
  | deleted o => exact hdr _ _ _ (by decide) (by decide) he
  | touched o => exact hdr _ _ _ (by decide) (by decide) he
  | noop o => exact hdr _ _ _ (by decide) (by decide) he
  | quit o q =>
    simp only [binRespond]
    split
    · exact empty
    · exact hdr _ _ _ (by decide) (by decide) he
  | version o =>
    have := one Gen.binprot_OpcodeVersion 0 0 Gen.binprot_StatusSuccess o Gen.common_VersionString_bytes (by decide) (by decide) (by decide)
      (by decide) (by decide) he (by simp)
    simpa [binRespond, okHeader, evOpq] using this
  | stat o =>
    obtain ⟨f1, f2, hd, ho1, ho2, _, _⟩ := decodeBin_two Gen.binprot_OpcodeStat 7 0 Gen.binprot_StatusSuccess o Gen.binprot_OpcodeStat 0 0 Gen.binprot_StatusSuccess o
      ([118, 101, 114, 115, 105, 111, 110] ++ Gen.common_Version_bytes) []
      ⟨by decide, by decide, by decide, by decide, by decide, he, by decide⟩
      ⟨by decide, by decide, by decide, by decide, by decide, he, by decide⟩
    refine ⟨[f1, f2], ?_, by simp, ?_⟩
    · have hb : binRespond (.stat o) =
          resHeader Gen.binprot_OpcodeStat 7 0 Gen.binprot_StatusSuccess
            ([118, 101, 114, 115, 105, 111, 110] ++ Gen.common_Version_bytes : Bytes).length o ++
            ([118, 101, 114, 115, 105, 111, 110] ++ Gen.common_Version_bytes) ++
          (resHeader Gen.binprot_OpcodeStat 0 0 Gen.binprot_StatusSuccess ([] : Bytes).length o ++ []) := by
        have hl : ([118, 101, 114, 115, 105, 111, 110] ++ Gen.common_Version_bytes : Bytes).length = 7 + Gen.common_Version_bytes.length := by
          simp; omega
        simp only [binRespond, okHeader, hl, List.length_nil, List.append_nil]
      rw [hb]; exact hd
    · intro f hf
      simp at hf
      rcases hf with rfl | rfl
      · exact ho1
      · exact ho2
  | error o rt er q => exact hdr _ _ _ (reqTypeToOpcode_lt _ _) (errorToCode_lt _) he

/-! ### Text replies -/

theorem takeCrlfLine_ok (acc a rest : Bytes) (ha : ∀ b ∈ a, b ≠ 13) :
    takeCrlfLine acc (a ++ 13 :: 10 :: rest) = some (acc.reverse ++ a, rest) := by
  induction a generalizing acc with
  | nil => simp [takeCrlfLine]
  | cons x xs ih =>
    have hx : x ≠ 13 := ha x List.mem_cons_self
    have hstep : takeCrlfLine acc (x :: (xs ++ 13 :: 10 :: rest)) = takeCrlfLine (x :: acc) (xs ++ 13 :: 10 :: rest) := by
      cases hxs : xs ++ 13 :: 10 :: rest with
      | nil => simp at hxs
      | cons y ys =>
        by_cases h13 : x = 13
        · exact absurd h13 hx
        · simp [takeCrlfLine, h13]
    rw [List.cons_append, hstep, ih (x :: acc) (fun b hb => ha b (List.mem_cons_of_mem _ hb))]
    simp

/-- Every fixed text reply line (acknowledgements, terminator, error lines) is one CRLF-terminated
    line that decodes as exactly one item — checked over the whole regenerated table. -/
theorem C08_text_fixed_lines :
    (∀ p ∈ Gen.textReplies, p.1 ≠ "Stat" → decodeText (textLine p.2.2) = some [.line p.2.2]) ∧
    (∀ e ∈ Err.all, ∃ l, textError e = l ++ crlf ∧ decodeText (textError e) = some [.line l]) := by
  constructor
  · decide
  · intro e he
    cases e <;> exact ⟨_, rfl, by decide⟩

/-- A text value block: `VALUE <key> <flags> <bytes>\r\n<data>\r\n` decodes as exactly one value
    item with the announced length, for arbitrary data bytes (CR/LF included). -/
theorem C08_text_value (r : GetResp) (hkey : ∀ b ∈ r.key, Printable b) (hf : r.flags < 4294967296)
    (hl : r.data.length < 4294967296) (hm : r.miss = false) :
    ∃ bytes, textRespond (.get r) = some bytes ∧ decodeText bytes = some [.value r.key r.flags r.data] := by
  refine ⟨[86, 65, 76, 85, 69, 32] ++ r.key ++ [32] ++ Bytes.decDigits r.flags ++ [32] ++ Bytes.decDigits r.data.length ++ crlf ++ r.data ++ crlf,
    by simp [textRespond, hm], ?_⟩
  have hline : ∀ b ∈ ([86, 65, 76, 85, 69] : Bytes) ++ 32 :: (r.key ++ 32 :: (Bytes.decDigits r.flags ++ 32 :: Bytes.decDigits r.data.length)), b ≠ 13 := by
    intro b hb
    simp only [List.mem_append, List.mem_cons] at hb
    rcases hb with h | h | h | h | h | h | h
    · simp at h; rcases h with rfl | rfl | rfl | rfl | rfl <;> decide
    · subst h; decide
    · obtain ⟨h1, _⟩ := hkey b h; intro hb; subst hb; simp at h1
    · subst h; decide
    · obtain ⟨h1, _⟩ := digit_printable _ b h; intro hb; subst hb; simp at h1
    · subst h; decide
    · obtain ⟨h1, _⟩ := digit_printable _ b h; intro hb; subst hb; simp at h1
  have hbytes : ([86, 65, 76, 85, 69, 32] ++ r.key ++ [32] ++ Bytes.decDigits r.flags ++ [32] ++ Bytes.decDigits r.data.length ++ crlf ++ r.data ++ crlf : Bytes) =
      (([86, 65, 76, 85, 69] : Bytes) ++ 32 :: (r.key ++ 32 :: (Bytes.decDigits r.flags ++ 32 :: Bytes.decDigits r.data.length))) ++
        13 :: 10 :: (r.data ++ [13, 10]) := by
    simp [crlf]
  rw [hbytes]
  unfold decodeText
  generalize hfu : ((([86, 65, 76, 85, 69] : Bytes) ++ 32 :: (r.key ++ 32 :: (Bytes.decDigits r.flags ++ 32 :: Bytes.decDigits r.data.length))) ++
        13 :: 10 :: (r.data ++ [13, 10])).length + 1 = fuel
  obtain ⟨f, rfl⟩ : ∃ f, fuel = f + 2 := ⟨fuel - 2, by simp at hfu; omega⟩
  have hsplit : splitSpace (([86, 65, 76, 85, 69] : Bytes) ++ 32 :: (r.key ++ 32 :: (Bytes.decDigits r.flags ++ 32 :: Bytes.decDigits r.data.length))) =
      [[86, 65, 76, 85, 69], r.key, Bytes.decDigits r.flags, Bytes.decDigits r.data.length] := by
    rw [splitSpace_cons _ _ (by simp), splitSpace_cons _ _ (fun b hb => printable_ne_space b (hkey b hb)),
      splitSpace_cons _ _ (fun b hb => printable_ne_space b (digit_printable _ b hb)),
      splitSpace_last _ (fun b hb => printable_ne_space b (digit_printable _ b hb))]
  rw [show f + 2 = (f + 1) + 1 from rfl, decodeTextItems]
  simp only [takeCrlfLine_ok [] _ _ hline, List.reverse_nil, List.nil_append, hsplit]
  simp [parseUint32_decDigits _ hf, parseUint32_decDigits _ hl, decodeTextItems]

end Rend.Props.C08

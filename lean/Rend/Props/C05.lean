/-
  C05 — Chunked reads are all-or-nothing: never a torn or patched-together value.

  An *intent* is one complete value that a store-type command set out to write under its fresh
  16-byte token.  `Consistent s H`: every entry store `s` holds under a derived key is, whole,
  the metadata record or one numbered chunk of one of the intents in `H`; entries may be missing
  in ANY combination, and entries of different intents for the same key may be mixed in ANY way.
-/
import Rend.Proofs.ChunkedFootprint
import Rend.Proofs.ChunkedGat

namespace Rend.Props.C05
open Rend Rend.Chunked

/-- Every request of a set / add / replace through the chunked handler — whatever the backend
    answers, so also when the command is cut short at any request — writes one whole entry of
    the command's own intent. -/
theorem C05_set_requests {ε} (t : Tier) (now : Nat) (k : SetKind) (c : SetCmd) (hk : k = .set ∨ k = .add ∨ k = .replace)
    (hkey : c.key.length ≤ 250) (hd : c.data.length < 4294967296) (hf : c.flags < 4294967296) :
    ∃ body : Bytes → Prog ε (HRes Unit), setCommon t now k c = .draw body ∧
      ∀ token, token.length = 16 → AllReqs (IsStoreWrite (intentOf c token)) (body token) :=
  setCommon_writes t now k c hk hkey hd hf

/-- One allowed request (a write of an entry of an intent; any read, touch or delete) keeps the
    store consistent; so does the loss of any entry. -/
theorem C05_step (s : Store) (H : List Intent) (hc : Consistent s H) :
    (∀ now r, ReqOK H r → Consistent (Mc.exec now s r).1 H) ∧ (∀ k, Consistent (s.set k none) H) :=
  ⟨fun now r hr => hc.exec now r hr, fun k => hc.drop k⟩

/-- **Every interleaving, every loss.**  Any sequence — in any order, at any times — of requests
    of any number of concurrent writers and readers, interleaved at single-request granularity,
    and of losses of arbitrary entries, leaves a consistent store (tokens pairwise distinct). -/
theorem C05_every_interleaving (H : List Intent) (ht : ∀ h ∈ H, ∀ h' ∈ H, h.token = h'.token → h = h')
    (hl : ∀ h ∈ H, h.token.length = 16) (hk : ∀ h ∈ H, h.key.length ≤ 250)
    (ops : List (Nat × Req ⊕ Bytes)) (hall : ∀ now r, Sum.inl (now, r) ∈ ops → ReqOK H r) :
    Consistent (ops.foldl (fun s op => match op with
      | .inl (now, r) => (Mc.exec now s r).1
      | .inr k => s.set k none) Store.empty) H :=
  consistent_histories H ht hl hk ops hall

/-- **All-or-nothing.**  Against every consistent store a get of any list of keys answers, per
    key, with a miss or with the value and flags of ONE intent, whole; it changes nothing. -/
theorem C05_get_all_or_nothing {ε} (now : Nat) (t : Tier) (H : List Intent) (tk : List Bytes) (ks : List GetKey) (w : World)
    (hc : Consistent (w.get t) H) :
    ((getLoop (ε := ε) t ks).eval now w tk).2.2.1 = w ∧
    ((getLoop (ε := ε) t ks).eval now w tk).1.2 = none ∧
    ((getLoop (ε := ε) t ks).eval now w tk).1.1.map (·.key) = ks.map (·.key) ∧
    ∀ resp ∈ ((getLoop (ε := ε) t ks).eval now w tk).1.1, AnswerOK H resp :=
  let h := getLoop_all_or_nothing (ε := ε) now t H tk ks w hc
  ⟨h.1, h.2.2.2.1, h.2.2.2.2.1, h.2.2.2.2.2⟩

/-- **Get-and-touch is all-or-nothing too**: against every consistent store it answers with a miss
    or the value and flags of ONE intent, whole, and leaves a consistent store (it only moves
    deadlines: the quiet get-and-touch requests answer from the same entries as quiet gets). -/
theorem C05_gat_all_or_nothing {ε} (now : Nat) (t : Tier) (H : List Intent) (tk : List Bytes) (c : KeyCmd) (w : World)
    (hc : Consistent (w.get t) H) :
    Consistent ((((Chunked.gat (ε := ε) t c).eval now w tk).2.2.1).get t) H ∧
    ∃ resp, ((Chunked.gat (ε := ε) t c).eval now w tk).1 = .ok resp ∧ resp.key = c.key ∧ AnswerOK H resp :=
  gat_all_or_nothing now t H tk c w hc

/-- The two combined: after ANY interleaving of writers' requests and ANY losses, a get returns
    a miss or one writer's whole value with that writer's flags. -/
theorem C05_torn_value_impossible {ε} (H : List Intent) (ht : ∀ h ∈ H, ∀ h' ∈ H, h.token = h'.token → h = h')
    (hl : ∀ h ∈ H, h.token.length = 16) (hk : ∀ h ∈ H, h.key.length ≤ 250)
    (ops : List (Nat × Req ⊕ Bytes)) (hall : ∀ now r, Sum.inl (now, r) ∈ ops → ReqOK H r)
    (now : Nat) (other : Store) (tk : List Bytes) (ks : List GetKey) :
    let s := ops.foldl (fun s op => match op with
      | .inl (now, r) => (Mc.exec now s r).1
      | .inr k => s.set k none) Store.empty
    ∀ resp ∈ ((getLoop (ε := ε) .l1 ks).eval now { l1 := s, l2 := other } tk).1.1, AnswerOK H resp :=
  (getLoop_all_or_nothing (ε := ε) now .l1 H tk ks
    { l1 := ops.foldl (fun s op => match op with
        | .inl (now, r) => (Mc.exec now s r).1
        | .inr k => s.set k none) Store.empty, l2 := other }
    (consistent_histories H ht hl hk ops hall)).2.2.2.2.2

/-- The read phase in closed form: a value is produced only if exactly `numChunks` chunk entries
    are served and every one of them carries the metadata's token. -/
theorem C05_read_closed_form {ε} (now : Nat) (t : Tier) (key : Bytes) (md : Meta) (w : World) (tk : List Bytes) :
    (readChunks (ε := ε) t .getq key 0 md).eval now w tk =
      (let its := presentItems now (w.get t) key md.numChunks 0
       let s := its.foldl (fun s it => hitStep md s it.data) { buf := Bytes.zeros md.length }
       if its.length != md.numChunks || s.miss then ReadOut.miss else ReadOut.value s.buf, [], w, tk) :=
  eval_readChunks_getq now t key md w tk

/-- Non-vacuity: a store holding the metadata of one intent and a chunk of another for the same
    key is consistent (so the theorem really covers mixtures), and `AnswerOK` excludes something. -/
example (h1 h2 : Intent) (hne : h1.token ≠ h2.token) (hk : h1.key = h2.key) (l1 : h1.token.length = 16)
    (l2 : h2.token.length = 16) (k1 : h1.key.length ≤ 250) (m : Meta) (hw : m.WF) (hd : h1.Describes m) :
    Consistent ((Store.empty.set (metaKey h1.key) (some ⟨encodeMeta m, 0, 0⟩)).set (chunkKey h2.key 0) (some ⟨h2.chunkVal 0, 0, 0⟩)) [h1, h2] := by
  have h0 : Consistent Store.empty [h1, h2] := Consistent.empty _ (by
      intro a ha b hb hab
      simp only [List.mem_cons, List.not_mem_nil, or_false] at ha hb
      rcases ha with rfl | rfl <;> rcases hb with rfl | rfl
      · rfl
      · exact absurd hab hne
      · exact absurd hab.symm hne
      · rfl)
    (by intro a ha; simp only [List.mem_cons, List.not_mem_nil, or_false] at ha; rcases ha with rfl | rfl <;> assumption)
    (by intro a ha; simp only [List.mem_cons, List.not_mem_nil, or_false] at ha; rcases ha with rfl | rfl
        · exact k1
        · rw [← hk]; exact k1)
  have h1' := h0.write h1 (by simp) { op := .set, key := metaKey h1.key, value := encodeMeta m } (Or.inl ⟨rfl, m, rfl, hw, hd⟩) 0 0
  exact h1'.write h2 (by simp) { op := .set, key := chunkKey h2.key 0, value := h2.chunkVal 0 } (Or.inr ⟨0, rfl, rfl⟩) 0 0

example : ¬ AnswerOK [] { key := [1], data := [9], miss := false } := by
  intro h
  rcases h with h | ⟨_, hm, _⟩
  · cases h
  · cases hm

end Rend.Props.C05

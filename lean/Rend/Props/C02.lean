/-
  C02 — L1 is only a cache: losing L1 entries is invisible; L1 never disagrees with L2.
-/
import Rend.Proofs.OrcaSeq
import Rend.Proofs.RemnantAdd

namespace Rend.Props.C02
open Rend

theorem empty_inv (now : Nat) : CacheInv now {} := by
  intro k a ha; simp [Store.look, Store.empty] at ha

/-- **Quiescent inclusion.**  After every history of main-port and batch-port commands, clock
    ticks and arbitrary L1 losses — i.e. whenever no command is in flight — every key L1 serves
    is served by L2 with the same value and flags (and L2 serves it at least as long). -/
theorem C02_quiescent_inclusion (acts : List Act) (now : Nat) (tk : List Bytes) (h : ActsTwoTier acts) :
    let e := endActs now {} tk acts
    ∀ k a, e.2.l1.look e.1 k = some a →
      ∃ b, e.2.l2.look e.1 k = some b ∧ a.data = b.data ∧ a.flags = b.flags :=
  fun k a ha =>
    let ⟨b, hb, hd, hf, _⟩ := (history_refines acts now {} tk h (empty_inv now)).2.2 k a ha
    ⟨b, hb, hd, hf⟩

/-- **Evictions are invisible.**  A history and the same history with every L1 loss removed are
    answered alike: both, command by command, as the one specification run (which knows no
    evictions) answers. -/
theorem C02_evictions_invisible (acts : List Act) (now : Nat) (tk : List Bytes) (h : ActsTwoTier acts) :
    AllAgree (runActs now {} tk acts) (specActs now Store.empty acts) ∧
    AllAgree (runActs now {} tk (stripEvicts acts)) (specActs now Store.empty acts) := by
  refine ⟨(history_refines acts now {} tk h (empty_inv now)).1, ?_⟩
  have := (history_refines (stripEvicts acts) now {} tk (stripEvicts_twoTier acts h) (empty_inv now)).1
  rw [specActs_strip] at this
  exact this

/-- More generally: two histories that differ only in where and what L1 lost. -/
theorem C02_any_two_eviction_patterns (a1 a2 : List Act) (now : Nat) (tk : List Bytes)
    (h1 : ActsTwoTier a1) (h2 : ActsTwoTier a2) (hs : stripEvicts a1 = stripEvicts a2) :
    ∃ spec, AllAgree (runActs now {} tk a1) spec ∧ AllAgree (runActs now {} tk a2) spec := by
  refine ⟨specActs now Store.empty a1, (history_refines a1 now {} tk h1 (empty_inv now)).1, ?_⟩
  have := (history_refines a2 now {} tk h2 (empty_inv now)).1
  rw [← specActs_strip a2, ← hs, specActs_strip] at this
  exact this

/-- L2 itself never notices L1: at the end of every history it *is* the single map. -/
theorem C02_l2_is_the_map (acts : List Act) (now : Nat) (tk : List Bytes) (h : ActsTwoTier acts) :
    (endActs now {} tk acts).2.l2 = specEnd now Store.empty acts :=
  (history_refines acts now {} tk h (empty_inv now)).2.1

/-- The invariant is one step-inductive: kept by every command on either port, by every loss of
    L1 entries and by the passing of time. -/
theorem C02_invariant_inductive (now : Nat) (w : World) (tk : List Bytes) (hinv : CacheInv now w) :
    (∀ p c, TwoTier c → CacheInv now ((portStep p c).eval now w tk).2.2.1) ∧
    (∀ lost, CacheInv now (w.evict lost)) ∧ (∀ dt, CacheInv (now + dt) w) :=
  ⟨fun p c hc => (portStep_refines now w tk p c hc hinv).2.1, fun lost => hinv.evict lost,
   fun _ => hinv.mono (Nat.le_add_right _ _)⟩

/-- Non-vacuity: the invariant is violated by a world in which L1 holds what L2 does not, so it
    does say something. -/
example : ¬ CacheInv 0 { l1 := Store.empty.set [1] (some ⟨[2], 0, 0⟩), l2 := Store.empty } := by
  intro h
  obtain ⟨b, hb, _⟩ := h [1] ⟨[2], 0, 0⟩ (by simp [Store.look, Store.set, Item.live])
  simp [Store.look, Store.empty] at hb

/-- **Finding D23, in the model** (the code does the same: `known_findings.jsonl`, scenario
    `remnant-add` of the harness).  The theorems above are about pass-through handlers, where L1's
    live entries are always backed by L2 (`CacheInv`).  With the CHUNKING handler on L1 the loss of
    a chunk entry leaves a metadata entry behind that reads cannot see but `add` can: if L2 does
    not serve the key and L1 serves a metadata entry of it, the main port's `add` returns "key
    exists" without a reply of its own — the client is told NOT_STORED — while L2 holds the added
    value afterwards and the single map, asked the same, says "stored".  So on this configuration the loss of an L1 entry is NOT invisible. -/
theorem C02_chunked_remnant_blocks_add (now : Nat) (w : World) (tk : List Bytes) (c : SetCmd)
    (hl2 : w.l2.look now c.key = none) (it : Item) (hl1 : w.l1.look now (Chunked.metaKey c.key) = some it) :
    ((L1L2.add (Chunked.handler .l1 now) (Std.handler .l2) c).eval now w tk).1 = .error (.app .keyExists) ∧
    ((L1L2.add (Chunked.handler .l1 now) (Std.handler .l2) c).eval now w tk).2.1 = [] ∧
    ((L1L2.add (Chunked.handler .l1 now) (Std.handler .l2) c).eval now w tk).2.2.1.l2 c.key =
      some ⟨c.data, c.flags, deadlineOf now c.exptime⟩ ∧
    (Spec.step now w.l2 (.store .add c)).2 = .ok :=
  ⟨(remnant_blocks_add now w tk c hl2 it hl1).1, (remnant_blocks_add now w tk c hl2 it hl1).2.1,
   (remnant_blocks_add now w tk c hl2 it hl1).2.2, by rw [spec_add_absent now w.l2 c hl2]⟩

end Rend.Props.C02

/-
  C15 — A client disconnect at any byte releases everything held for that connection.

  A client that goes away at byte n is, to the server, the input stream cut after n bytes: the
  theorems below hold for EVERY input (so for every prefix of every request stream).
-/
import Rend.Props.C12
import Rend.Props.C11

namespace Rend.Props.C15
open Rend Rend.Server Rend.Props.C12

/-- Structure of the connection code, regenerated from server/default.go and server/listen.go
    on every run: every `return` of `DefaultServer.Loop` is preceded by `abort(conns, …)`, the
    deferred recover aborts as well, the protocol-detection failure path of the accept loop closes
    the remote and both handlers, and the loop is handed exactly three closers (remote, L1, L2). -/
theorem C15_every_exit_aborts :
    (∀ r ∈ Gen.loopReturns, r.2 = true) ∧ Gen.loopReturns.length ≥ 1 ∧ Gen.loopDeferRecoverAborts = true ∧
    Gen.listenCanParseErrorAbortsAll = true ∧ Gen.listenServerClosers = 3 := by
  decide

/-- …and `abort` itself closes EVERY closer it is handed that is not nil: the body of its loop is
    `if c != nil { c.Close() }` (or the `continue` form), with no further condition — regenerated
    from server/utils.go on every run. -/
theorem C15_abort_closes_all : Gen.abortClosesEveryNonNil = true := by decide

/-- **Every prefix ends the connection's goroutine**: on every input the loop stops — with
    everything closed by the server (`closed`), because the input ended (`eof`, after which the
    server closes everything too), or because the process died — and never runs on. -/
theorem C15_prefix_ends (cf : Conf) (now : Nat) (fault : Option Fault) (inp : Bytes) (st : RunSt) :
    (run cf now fault inp st).1.ending = .closed ∨ (run cf now fault inp st).1.ending = .eof ∨
    (run cf now fault inp st).1.ending = .crashed := by
  have h := C11.C11_loop_terminates cf now fault (inp.length + 2) inp st {} (by omega)
  unfold run
  cases he : (loop cf now fault (inp.length + 2) inp st {}).1.ending with
  | closed => exact Or.inl rfl
  | eof => exact Or.inr (Or.inl rfl)
  | crashed => exact Or.inr (Or.inr rfl)
  | outOfFuel => exact absurd he h

theorem paired_append {a b : List OEv} (ha : Paired a) (hb : Paired b) : Paired (a ++ b) := by
  induction ha with
  | nil => simpa using hb
  | cons s r rest _ ih => exact Paired.cons s r _ ih

theorem orcaError_nolocks (c : Option Cmd) (rt : ReqType) (e : Err) (now : Nat) (fault : Option Fault) (st : RunSt) :
    lockEvs ((orcaError c rt e).runSt now fault st).2.1 = [] := by
  cases c <;> simp [orcaError, respond, Prog.out, Prog.runSt, lockEvs]

/-- **No key stays locked, wherever the stream is cut**: if every call of the connection's
    orchestrator leaves its lock events paired (C12, for the locking wrapper; trivially for the
    bare orchestrators), then over the whole life of the connection — whatever the input, cut at
    any byte — lock events are paired: never two locks, none held when the loop has ended. -/
theorem C15_locks_released (cf : Conf) (now : Nat) (fault : Option Fault)
    (hp : ∀ cmd res es, Runs (cf.orca cmd) res es → isCrash res = false → Paired (lockEvs es)) :
    ∀ (fuel : Nat) (inp : Bytes) (st : RunSt) (out : Out), Paired (lockEvs out.events) →
      (loop cf now fault fuel inp st out).1.ending ≠ .crashed →
      Paired (lockEvs (loop cf now fault fuel inp st out).1.events) := by
  intro fuel
  induction fuel with
  | zero => intro inp st out ho _; simpa [loop] using ho
  | succ f ih =>
    intro inp st out ho
    unfold loop
    simp only
    split
    · -- client error
      split
      · intro hne
        apply ih _ _ _ _ hne
        simp only [lockEvs_append, orcaError_nolocks, List.append_nil]
        exact ho
      · intro _; exact ho
    · intro _; exact ho
    · intro _; exact ho
    · -- a parsed command
      generalize hcmd : (parse cf.proto inp).cmd.getD .unknown = cmd
      have hruns := Prog.runSt_runs now fault (cf.orca cmd) st
      generalize hrun : (cf.orca cmd).runSt now fault st = rr at hruns
      obtain ⟨res, evs, st'⟩ := rr
      simp only at hruns ⊢
      by_cases hc : isCrash res = true
      · simp only [hc, if_true]
        intro h; exact absurd rfl h
      · have hc' : isCrash res = false := by simpa using hc
        have hpe := hp cmd res evs hruns hc'
        have hout' : Paired (lockEvs (out.events ++ evs)) := by
          rw [lockEvs_append]; exact paired_append ho hpe
        simp only [hc', Bool.false_eq_true, if_false]
        split
        · intro _; exact hout'
        · cases cmd <;> simp only
          all_goals first
            | (intro _; exact hout')
            | (cases res with
               | ok u => intro hne; exact ih _ _ _ hout' hne
               | error e =>
                 cases e with
                 | panic => intro _; exact hout'
                 | crash => intro _; exact hout'
                 | io => intro _; exact hout'
                 | app e =>
                   simp only
                   split
                   · intro hne
                     apply ih _ _ _ _ hne
                     simp only [lockEvs_append, orcaError_nolocks, List.append_nil]
                     rw [← lockEvs_append]; exact hout'
                   · intro _; exact hout')

/-- Reading a request that is cut short takes no lock and sends nothing to a backend: a parse
    that ends in `eof` ends the loop before any orchestrator call. -/
theorem C15_truncated_request_is_inert (cf : Conf) (now : Nat) (fault : Option Fault) (fuel : Nat) (inp : Bytes)
    (st : RunSt) (out : Out) (h : (parse cf.proto inp).err = some .eof) :
    loop cf now fault (fuel + 1) inp st out = ({ out with ending := .eof }, st) := by
  simp [loop, h]

end Rend.Props.C15

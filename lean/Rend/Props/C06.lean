/-
  C06 — The batching pool returns each caller its own, correct result.

  Message-level model of handlers/memcached/batched (`Rend.Batched`): opaque assignment of
  `batchIntoBuffer` (byte-exact against the real function on every run), the reader's routing by
  opaque, the retry tracker of multi-key gets.  Goroutines, channels and timers are not modelled:
  which requests share a batch and in which order replies arrive are universally quantified.
-/
import Rend.Proofs.BatchedLemmas

namespace Rend.Props.C06
open Rend Rend.Batched

/-- **Distinct wire opaques**: however requests are grouped into a batch (fewer than 2^32 opaque
    values needed) and whatever the random base, no two requests / keys of a batch share an opaque. -/
theorem C06_wire_opaques_distinct (base : Nat) (rs : List BReq) (h : span rs < 4294967296) :
    ((assign (w32 base) rs).2.1.map (·.wire)).Nodup :=
  wires_nodup base rs h

theorem assignKeys_own (kind : BKind) (chan : Nat) : ∀ (o : Nat) (ks : List BKey),
    ∀ h ∈ (assignKeys kind chan o ks).2, h.chan = chan ∧ (⟨h.key, h.opq, h.quiet⟩ : BKey) ∈ ks
  | _, [], h, hh => by simp [assignKeys] at hh
  | o, k :: rest, h, hh => by
    simp only [assignKeys, List.mem_cons] at hh
    rcases hh with rfl | hh
    · exact ⟨rfl, List.mem_cons_self ..⟩
    · obtain ⟨a, b⟩ := assignKeys_own kind chan _ rest h hh
      exact ⟨a, List.mem_cons_of_mem _ b⟩

/-- **Every routing-table entry belongs to the request it was made for**: it carries that
    caller's channel and the key, opaque and quiet flag of one of that request's keys. -/
theorem C06_handles_own : ∀ (c : Nat) (rs : List BReq), ∀ h ∈ (assign c rs).2.1,
    ∃ r ∈ rs, h.chan = r.chan ∧
      ((⟨h.key, h.opq, h.quiet⟩ : BKey) ∈ r.keys ∨ (⟨h.key, h.opq, h.quiet⟩ : BKey) = r.keys.headD default)
  | _, [], h, hh => by simp [assign] at hh
  | c, r :: rest, h, hh => by
    simp only [assign, assignReq, List.mem_append] at hh
    rcases hh with hh | hh
    · refine ⟨r, List.mem_cons_self .., ?_⟩
      cases hk : r.kind <;> simp only [hk] at hh
      case get => obtain ⟨a, b⟩ := assignKeys_own _ _ _ _ h hh; exact ⟨a, Or.inl b⟩
      case getE => obtain ⟨a, b⟩ := assignKeys_own _ _ _ _ h hh; exact ⟨a, Or.inl b⟩
      all_goals (simp only [List.mem_singleton] at hh; subst hh; exact ⟨rfl, Or.inr rfl⟩)
    · obtain ⟨r', hr', x⟩ := C06_handles_own _ rest h hh
      exact ⟨r', List.mem_cons_of_mem _ hr', x⟩

theorem assignKeys_length (kind : BKind) (chan : Nat) : ∀ (o : Nat) (ks : List BKey),
    (assignKeys kind chan o ks).2.length = ks.length
  | _, [] => rfl
  | o, k :: rest => by simp [assignKeys, assignKeys_length kind chan _ rest]

/-- The number of replies a caller's channel is told to expect is the number of backend requests
    made for it: one per requested key of a get, one for every other command. -/
theorem C06_expected_counts (c : Nat) (r : BReq) :
    (assignReq c r).2.2.2 = (r.chan, (assignReq c r).2.2.1.length) := by
  simp only [assignReq]
  cases hk : r.kind <;> simp [assignKeys_length]

/-- **Routing**: the replies to a batch, arriving in ANY order, are each handed to the entry that
    owns the reply's opaque — the reader never declares the batch out of sync, no caller receives
    a reply made for another caller's request, and when all have arrived the table is empty. -/
theorem C06_routing (base : Nat) (rs : List BReq) (hspan : span rs < 4294967296) (counts : List (Nat × Nat))
    (ws : List Nat) (hperm : ws.Perm ((assign (w32 base) rs).2.1.map (·.wire))) :
    ∃ s' hs, deliverAll ⟨(assign (w32 base) rs).2.1, counts⟩ ws = some (s', hs) ∧ hs.map (·.wire) = ws ∧
      (∀ h ∈ hs, h ∈ (assign (w32 base) rs).2.1) ∧ s'.table = [] := by
  have hnd := wires_nodup base rs hspan
  obtain ⟨s', hs, h1, h2, h3, _, h5⟩ := deliverAll_ok ws ⟨(assign (w32 base) rs).2.1, counts⟩ hnd
    (hperm.nodup_iff.mpr hnd) (fun w hw => hperm.mem_iff.mp hw)
  refine ⟨s', hs, h1, h2, h3, ?_⟩
  cases ht : s'.table with
  | nil => rfl
  | cons x xs =>
    have hx : x.wire ∈ s'.table.map (·.wire) := by rw [ht]; simp
    have := (h5 x.wire).mp hx
    exact absurd (hperm.mem_iff.mpr this.1) this.2

/-- **Multi-key gets across retries**: answers received plus keys asked again are exactly the keys
    requested (duplicates and quiet flags included): one reply per requested key, none twice. -/
theorem C06_one_reply_per_key (requested answered : List BKey) (h : AnswersOf requested answered) :
    (answered ++ Batched.remaining requested answered).Perm requested :=
  remaining_perm answered requested h

/-- Non-vacuity / sample: a get of two keys between two sets gets opaques base+2, base+3; the sets base+1, base+5. -/
example : ((assign 100 [⟨.set, [⟨[1], 7, false⟩], 0, 0, [9], 0⟩, ⟨.get, [⟨[2], 8, true⟩, ⟨[3], 9, false⟩], 0, 0, [], 1⟩,
    ⟨.set, [⟨[4], 10, false⟩], 0, 0, [9], 2⟩]).2.1.map (·.wire)) = [101, 102, 103, 105] := by decide

end Rend.Props.C06

/-
  C11 — Malformed client input is contained to its own connection.

  Totality of both parsers and of the connection loop is inherent: they are total Lean
  functions on arbitrary byte lists.  What is proved here: contradictory length fields are
  rejected before anything is read or allocated; the allocation measure is bounded by a constant
  plus what the frame declares; every parse that lets the connection go on consumes input, so
  the connection loop never spins (its fuel is never exhausted).
-/
import Rend.Server.Loop
import Rend.Proofs.WireLemmas

namespace Rend.Props.C11
open Rend Rend.Wire Rend.Server

/-- A binary store header whose total body is shorter than key plus extras is rejected without
    reading or allocating anything. -/
theorem C11_contradictory_rejected (h : ReqHeader) (k : SetKind) (q : Bool) (inp : Bytes)
    (hbad : h.total < h.extLen + h.keyLen) :
    parseSet h k q inp = { rt := k.reqType, err := some .badBodyLength, rest := inp, alloc := 0 } := by
  simp [parseSet, hbad, failWith]

theorem C11_contradictory_rejected_pend (h : ReqHeader) (k : SetKind) (q : Bool) (inp : Bytes)
    (hbad : h.total < h.keyLen) :
    parsePend h k q inp = { rt := k.reqType, err := some .badBodyLength, rest := inp, alloc := 0 } := by
  simp [parsePend, hbad, failWith]

theorem readN_some {n : Nat} {inp a b : Bytes} (h : readN n inp = some (a, b)) :
    a.length = n ∧ b.length + n = inp.length := by
  unfold readN at h
  split at h
  · simp at h
  · simp only [Option.some.injEq, Prod.mk.injEq] at h
    obtain ⟨rfl, rfl⟩ := h
    simp; omega

/-- What a header consistently declares as the length of its value. -/
def declaredValue (h : ReqHeader) : Nat := if h.extLen + h.keyLen ≤ h.total then h.total - h.extLen - h.keyLen else 0

/-- Allocation and consumption of `setRequest`. -/
theorem parseSet_bounds (h : ReqHeader) (k : SetKind) (q : Bool) (inp : Bytes) (ht : h.total < 4294967296) :
    (parseSet h k q inp).alloc ≤ 8 + h.keyLen + declaredValue h ∧ (parseSet h k q inp).rest.length ≤ inp.length := by
  unfold parseSet declaredValue
  split
  · simp [failWith] <;> omega
  · rename_i hc
    have hc' : h.extLen + h.keyLen ≤ h.total := by omega
    have hreal : (8589934592 + h.total - h.extLen - h.keyLen) % 4294967296 = h.total - h.extLen - h.keyLen := by omega
    simp only [hc', if_true, hreal]
    split
    · simp [failWith] <;> omega
    · rename_i fl i1 e1
      split
      · simp [failWith] <;> omega
      · rename_i ex i2 e2
        split
        · simp [failWith] <;> omega
        · rename_i key i3 e3
          split
          · simp [failWith] <;> omega
          · rename_i data i4 e4
            have := readN_some e1; have := readN_some e2; have := readN_some e3; have := readN_some e4
            simp; omega

def declaredPend (h : ReqHeader) : Nat := if h.keyLen ≤ h.total then h.total - h.keyLen else 0

theorem declaredPend_le (h : ReqHeader) : declaredPend h ≤ h.total := by
  unfold declaredPend; split <;> omega

theorem parsePend_bounds (h : ReqHeader) (k : SetKind) (q : Bool) (inp : Bytes) (ht : h.total < 4294967296) :
    (parsePend h k q inp).alloc ≤ h.keyLen + declaredPend h ∧
      (parsePend h k q inp).rest.length ≤ inp.length := by
  unfold parsePend declaredPend
  split
  · simp [failWith]
  · rename_i hc
    have hc' : h.keyLen ≤ h.total := by omega
    have hreal : (4294967296 + h.total - h.keyLen) % 4294967296 = h.total - h.keyLen := by omega
    simp only [hc', if_true, hreal]
    split
    · simp [failWith]
    · rename_i key i1 e1
      split
      · simp [failWith]
      · rename_i data i2 e2
        have := readN_some e1; have := readN_some e2
        simp; omega

theorem parseKeyOnly_bounds (h : ReqHeader) (rt : ReqType) (mk : Bytes → Cmd) (inp : Bytes) :
    (parseKeyOnly h rt mk inp).alloc ≤ h.keyLen ∧ (parseKeyOnly h rt mk inp).rest.length ≤ inp.length := by
  unfold parseKeyOnly
  split
  · simp [failWith]
  · rename_i key r e
    have := readN_some e
    simp; omega

theorem parseExpKey_bounds (h : ReqHeader) (rt : ReqType) (mk : Nat → Bytes → Cmd) (inp : Bytes) :
    (parseExpKey h rt mk inp).alloc ≤ 4 + h.keyLen ∧ (parseExpKey h rt mk inp).rest.length ≤ inp.length := by
  unfold parseExpKey
  split
  · simp [failWith]
  · rename_i ex i1 e1
    split
    · simp [failWith]
    · rename_i key r e
      have := readN_some e1; have := readN_some e
      simp; omega

theorem readHeader_some {inp : Bytes} {h : ReqHeader} {rest : Bytes} (hh : readRequestHeader inp = .ok h rest) :
    rest.length + 24 = inp.length ∧ h.keyLen < 65536 ∧ h.total < 4294967296 := by
  unfold readRequestHeader at hh
  split at hh
  · simp at hh
  · rename_i b r e
    split at hh
    · simp at hh
    · simp only [HdrRes.ok.injEq] at hh
      obtain ⟨rfl, rfl⟩ := hh
      have := readN_some e
      refine ⟨by simpa [Gen.binprot_ReqHeaderLen] using this.2, ?_, ?_⟩
      · simp only [decodeHeader, Bytes.rd16]
        split
        · rename_i a c _ _
          have := a.toNat_lt; have := c.toNat_lt; omega
        · omega
      · simp only [decodeHeader, Bytes.rd32]
        split
        · rename_i a c d e _ _
          have := a.toNat_lt; have := c.toNat_lt; have := d.toNat_lt; have := e.toNat_lt; omega
        · omega

/-- The batch loop allocates only key buffers, each at most 65535 bytes, one per header it reads;
    every header consumes 24 bytes of input. -/
theorem readBatch_bounds (qop op : Nat) : ∀ (fuel : Nat) (h : ReqHeader) (inp : Bytes) (acc : List GetKey) (alloc : Nat),
    h.keyLen < 65536 →
    (readBatch qop op fuel h inp acc alloc).2 ≤ alloc + 65536 * (inp.length / 24 + 1) ∧
    (∀ g r a, (readBatch qop op fuel h inp acc alloc).1 = some (g, r, a) → r.length ≤ inp.length ∧ a ≤ alloc + 65536 * (inp.length / 24 + 1)) := by
  intro fuel
  induction fuel with
  | zero => intro h inp acc alloc _; simp [readBatch]
  | succ f ih =>
    intro h inp acc alloc hk
    unfold readBatch
    split
    · -- quiet get: read key, read next header, recurse
      split
      · simp; omega
      · rename_i key i1 e1
        have hr := readN_some e1
        split
        · rename_i h' i2 e2
          obtain ⟨hl, hk', _⟩ := readHeader_some e2
          have := ih h' i2 (acc ++ [{ key := key, opq := h.opq, quiet := true }]) (alloc + h.keyLen) hk'
          have hdiv : i2.length / 24 + 1 + 1 ≤ inp.length / 24 + 1 := by
            have h1 : i2.length + 24 ≤ inp.length := by omega
            have h2 := Nat.div_le_div_right (c := 24) h1
            have h3 : (i2.length + 24) / 24 = i2.length / 24 + 1 := Nat.add_div_right _ (by decide)
            omega
          obtain ⟨b1, b2⟩ := this
          have hlen : i2.length ≤ inp.length := by omega
          have hstep : alloc + h.keyLen + 65536 * (i2.length / 24 + 1) ≤ alloc + 65536 * (inp.length / 24 + 1) := by
            generalize inp.length / 24 = A at *
            generalize i2.length / 24 = B at *
            omega
          refine ⟨Nat.le_trans b1 hstep, ?_⟩
          intro g r a hres
          obtain ⟨c1, c2⟩ := b2 g r a hres
          exact ⟨Nat.le_trans c1 hlen, Nat.le_trans c2 hstep⟩
        · simp
          generalize inp.length / 24 = A
          omega
    · split
      · split
        · simp; omega
        · rename_i key i1 e1
          have hr := readN_some e1
          simp only [Option.some.injEq, Prod.mk.injEq]
          refine ⟨by omega, ?_⟩
          intro g r a hres
          obtain ⟨_, rfl, rfl⟩ := hres
          omega
      · split <;>
        · simp only [Option.some.injEq, Prod.mk.injEq]
          refine ⟨by omega, ?_⟩
          intro g r a hres
          obtain ⟨_, rfl, rfl⟩ := hres
          omega

theorem ite_pred {α : Type} (P : α → Prop) (c : Prop) [Decidable c] (a b : α) (ha : P a) (hb : P b) :
    P (if c then a else b) := by
  split <;> assumption

/-- A parse result stays within the input it was given and within an allocation budget. -/
def Within (n budget : Nat) (pr : PRes) : Prop := pr.rest.length ≤ n ∧ pr.alloc ≤ budget

attribute [local irreducible] parseSet parsePend parseKeyOnly parseExpKey readBatch in
theorem dispatch_bounds (h : ReqHeader) (rest : Bytes) (hk : h.keyLen < 65536) (ht : h.total < 4294967296) :
    Within rest.length (8 + h.keyLen + declaredValue h + h.total + 65536 * (rest.length / 24 + 1)) (dispatch h rest) := by
  have hS := fun k q => parseSet_bounds h k q rest ht
  have hP := fun k q => parsePend_bounds h k q rest ht
  have hK := fun rt mk => parseKeyOnly_bounds h rt mk rest
  have hE := fun rt mk => parseExpKey_bounds h rt mk rest
  have hB := fun qop op => readBatch_bounds qop op (rest.length + 1) h rest [] 0 hk
  have hpend := declaredPend_le h
  generalize hA : 65536 * (rest.length / 24 + 1) = A at *
  generalize hW : Within rest.length (8 + h.keyLen + declaredValue h + h.total + A) = W
  unfold dispatch
  simp only
  repeat' (first | apply ite_pred W | split)
  all_goals (rw [← hW]; unfold Within)
  all_goals first
    | (have := hS .set false; have := hS .set true; have := hS .add false; have := hS .add true
       have := hS .replace false; have := hS .replace true; omega)
    | (have := hP .append false; have := hP .append true; have := hP .prepend false; have := hP .prepend true; omega)
    | (rename_i g r a x hb
       first
         | (have := (hB Gen.binprot_OpcodeGetQ Gen.binprot_OpcodeGet).2 g r a (by rw [hb]); simp; omega)
         | (have := (hB Gen.binprot_OpcodeGetEQ Gen.binprot_OpcodeGetE).2 g r a (by rw [hb]); simp; omega))
    | (rename_i a hb
       first
         | (have := (hB Gen.binprot_OpcodeGetQ Gen.binprot_OpcodeGet).1; rw [hb] at this; simp [failWith] at this ⊢; omega)
         | (have := (hB Gen.binprot_OpcodeGetEQ Gen.binprot_OpcodeGetE).1; rw [hb] at this; simp [failWith] at this ⊢; omega))
    | (have := hK .get (fun key => .get { keys := [{ key := key, opq := h.opq, quiet := false }] }); omega)
    | (have := hK .getE (fun key => .getE { keys := [{ key := key, opq := h.opq, quiet := false }] }); omega)
    | (have := hK .delete (fun key => .delete { key := key, opq := h.opq }); omega)
    | (have := hE .gat (fun ex key => .gat { key := key, exptime := ex, opq := h.opq }); omega)
    | (have := hE .touch (fun ex key => .touch { key := key, exptime := ex, opq := h.opq }); omega)
    | (simp [failWith]; try omega)

/-- Decoding never needs more memory than a constant plus the sizes the frame (and, for a batch
    of gets, the headers actually present in the input) consistently declares; and it never
    hands back more input than it was given. -/
theorem C11_alloc_bound (inp : Bytes) :
    (binParse inp).rest.length ≤ inp.length ∧
    ∀ h rest, readRequestHeader inp = .ok h rest →
      (binParse inp).alloc ≤ 8 + h.keyLen + declaredValue h + h.total + 65536 * (inp.length / 24 + 1) := by
  unfold binParse
  cases hh : readRequestHeader inp with
  | eof => simp [failWith]
  | badMagic => simp [failWith]
  | ok h rest =>
    obtain ⟨hl, hk, ht⟩ := readHeader_some hh
    obtain ⟨b1, b2⟩ := dispatch_bounds h rest hk ht
    simp only
    refine ⟨by omega, ?_⟩
    intro h' rest' heq
    cases heq
    have hAB : rest.length / 24 ≤ inp.length / 24 := Nat.div_le_div_right (by omega)
    have hmul : 65536 * (rest.length / 24 + 1) ≤ 65536 * (inp.length / 24 + 1) :=
      Nat.mul_le_mul_left _ (by omega)
    exact Nat.le_trans b2 (Nat.add_le_add_left hmul _)

/-- A binary parse that does not end the connection consumes at least a whole header. -/
theorem C11_bin_progress (inp : Bytes) (h : (binParse inp).err = none) :
    (binParse inp).rest.length + 24 ≤ inp.length := by
  unfold binParse at *
  cases hh : readRequestHeader inp with
  | eof => rw [hh] at h; simp [failWith] at h
  | badMagic => rw [hh] at h; simp [failWith] at h
  | ok hd rest =>
    obtain ⟨hl, hk, ht⟩ := readHeader_some hh
    have := (dispatch_bounds hd rest hk ht).1
    simp only
    omega

theorem readLine_some {inp line rest : Bytes} (h : readLine inp = some (line, rest)) : rest.length < inp.length := by
  have key : ∀ (acc inp : Bytes), readLine.go acc inp = some (line, rest) → rest.length < inp.length := by
    intro acc inp
    induction inp generalizing acc with
    | nil => intro h; simp [readLine.go] at h
    | cons x xs ih =>
      intro h
      simp only [readLine.go] at h
      split at h
      · simp only [Option.some.injEq, Prod.mk.injEq] at h
        obtain ⟨_, rfl⟩ := h
        simp
      · have := ih _ h
        simp; omega
  exact key [] inp h

theorem textSet_rest (k : SetKind) (parts : List Bytes) (rest : Bytes) :
    (textSet k parts rest).rest.length ≤ rest.length := by
  unfold textSet
  repeat' split
  all_goals first
    | (simp [failWith]; done)
    | (have h1 := readN_some ‹readN _ rest = some _›
       have h2 := readLine_some ‹readLine _ = some _›
       simp; omega)
    | (have h1 := readN_some ‹readN _ rest = some _›
       simp; omega)
    | (simp [failWith])

/-- A text parse that lets the connection go on (a request, an unknown command, or one of the four
    client errors) has consumed at least the newline that ended the command line. -/
theorem C11_text_progress (inp : Bytes) (h : (textParse inp).err ≠ some .eof) :
    (textParse inp).rest.length < inp.length := by
  unfold textParse at *
  cases hl : readLine inp with
  | none => rw [hl] at h; simp [failWith] at h
  | some p =>
    obtain ⟨line, rest⟩ := p
    have hlt := readLine_some hl
    have hs := fun k => textSet_rest k (splitSpace (trimSpace line)) rest
    simp only
    repeat' (first | apply ite_pred (fun pr : PRes => pr.rest.length < inp.length) | split)
    all_goals first
      | (have := hs .set; have := hs .add; have := hs .replace; have := hs .append; have := hs .prepend; omega)
      | (simp [failWith]; omega)
      | (simp; omega)

/-- Whatever lets the connection loop go round again has consumed input. -/
theorem parse_progress (p : Proto) (inp : Bytes)
    (h : (parse p inp).err = none ∨ ∃ e, (parse p inp).err = some (.app e)) :
    (parse p inp).rest.length < inp.length := by
  cases p with
  | text =>
    apply C11_text_progress
    simp only [parse] at h
    rcases h with h | ⟨e, h⟩ <;> rw [h] <;> simp
  | bin =>
    simp only [parse] at *
    unfold binParse at *
    cases hh : readRequestHeader inp with
    | eof => rw [hh] at h; simp [failWith] at h
    | badMagic => rw [hh] at h; simp [failWith] at h
    | ok hd rest =>
      obtain ⟨hl, hk, ht⟩ := readHeader_some hh
      have := (dispatch_bounds hd rest hk ht).1
      simp only
      omega

/-- The connection loop never runs out of fuel: every iteration that does not end the connection
    consumes at least one byte of input, so `inp.length + 1` iterations always suffice. This is the
    "never spins" half of the property, for every input, backend behaviour and fault. -/
theorem C11_loop_terminates (cf : Conf) (now : Nat) (fault : Option Fault) :
    ∀ (fuel : Nat) (inp : Bytes) (st : RunSt) (out : Out), inp.length < fuel →
      (loop cf now fault fuel inp st out).1.ending ≠ .outOfFuel := by
  intro fuel
  induction fuel with
  | zero => intro inp _ _ h; omega
  | succ f ih =>
    intro inp st out hlen
    have hrec : ∀ st' out', ((parse cf.proto inp).err = none ∨ ∃ e, (parse cf.proto inp).err = some (.app e)) →
        (loop cf now fault f (parse cf.proto inp).rest st' out').1.ending ≠ .outOfFuel := by
      intro st' out' hp
      apply ih
      have := parse_progress cf.proto inp hp
      omega
    unfold loop
    simp only
    split
    · -- a client error
      rename_i e he
      split
      · exact hrec _ _ (Or.inr ⟨e, he⟩)
      · simp
    · simp
    · simp
    · rename_i he
      have hp : (parse cf.proto inp).err = none ∨ ∃ e, (parse cf.proto inp).err = some (.app e) := Or.inl he
      repeat' split
      all_goals first
        | exact hrec _ _ hp
        | simp

end Rend.Props.C11

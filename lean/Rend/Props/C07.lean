/-
  C07 — Wire decoding is faithful, exact and independent of packet boundaries.
-/
import Rend.Proofs.WireLemmas
import Rend.Wire.TextParse

namespace Rend.Props.C07
open Rend Rend.Wire

/-- What the binary wire format carries of a store request: append/prepend have no extras. -/
def storeNorm (k : SetKind) (c : SetCmd) : SetCmd :=
  match k with
  | .append | .prepend => { c with flags := 0, exptime := 0 }
  | _ => c

theorem binParse_header (op kl el tot opq : Nat) (body : Bytes) (hop : op < 256) (hkl : kl < 65536) (hel : el < 256)
    (htot : tot < 4294967296) (hopq : opq < 4294967296) :
    binParse (reqHeader op kl el tot opq ++ body) =
      dispatch { magic := Gen.binprot_MagicRequest, opcode := op, keyLen := kl, extLen := el, total := tot, opq := opq } body := by
  unfold binParse
  rw [readHeader_ok op kl el tot opq body hop hkl hel htot hopq]

theorem parseSet_ok (h : ReqHeader) (k : SetKind) (q : Bool) (fl ex : Nat) (key data rest : Bytes)
    (hext : h.extLen = 8) (hkl : h.keyLen = key.length) (htot : h.total = 8 + key.length + data.length)
    (hlen : 8 + key.length + data.length < 4294967296) (hf : fl < 4294967296) (he : ex < 4294967296) :
    parseSet h k q (Bytes.be32 fl ++ (Bytes.be32 ex ++ (key ++ (data ++ rest)))) =
      { cmd := some (.store k { key := key, flags := fl, exptime := ex, data := data, opq := h.opq, quiet := q }),
        rt := k.reqType, rest := rest, alloc := 8 + key.length + data.length } := by
  unfold parseSet
  have h1 : ¬ (h.total < h.extLen + h.keyLen) := by omega
  simp only [h1, if_false]
  rw [readN_append' 4 _ _ (be32_length fl)]
  simp only
  rw [readN_append' 4 _ _ (be32_length ex)]
  simp only
  rw [hkl, readN_append]
  simp only
  have : (8589934592 + h.total - h.extLen - key.length) % 4294967296 = data.length := by omega
  rw [this, readN_append]
  simp only [rd32_be32 _ hf, rd32_be32 _ he]

theorem parsePend_ok (h : ReqHeader) (k : SetKind) (q : Bool) (key data rest : Bytes)
    (hkl : h.keyLen = key.length) (htot : h.total = key.length + data.length)
    (hlen : key.length + data.length < 4294967296) :
    parsePend h k q (key ++ (data ++ rest)) =
      { cmd := some (.store k { key := key, flags := 0, exptime := 0, data := data, opq := h.opq, quiet := q }),
        rt := k.reqType, rest := rest, alloc := key.length + data.length } := by
  unfold parsePend
  have h1 : ¬ (h.total < h.keyLen) := by omega
  simp only [h1, if_false]
  rw [hkl, readN_append]
  simp only
  have : (4294967296 + h.total - key.length) % 4294967296 = data.length := by omega
  rw [this, readN_append]

/-- Every store request (set/add/replace/append/prepend, quiet or not; any key up to 65535 bytes,
    any data with 8+key+data < 2^32, all 32-bit flags/TTL/opaque values) decodes to exactly what
    was sent, consuming exactly its own bytes. -/
theorem C07_bin_store (k : SetKind) (c : SetCmd) (rest : Bytes) (hk : c.key.length < 65536)
    (hlen : 8 + c.key.length + c.data.length < 4294967296) (hf : c.flags < 4294967296)
    (he : c.exptime < 4294967296) (ho : c.opq < 4294967296) :
    binParse (encodeBin (.store k c) ++ rest) =
      { cmd := some (.store k (storeNorm k c)), rt := k.reqType, rest := rest,
        alloc := (match k with | .append | .prepend => 0 | _ => 8) + c.key.length + c.data.length } := by
  cases k <;> cases hq : c.quiet <;>
    simp only [encodeBin, storeOp, hq, List.append_assoc] <;>
    rw [binParse_header _ _ _ _ _ _ (by decide) hk (by decide) (by omega) ho] <;>
    simp only [dispatch] <;>
    simp (config := { decide := true }) only [if_true, if_false, reduceIte] <;>
    first
      | (rw [parseSet_ok _ _ _ c.flags c.exptime c.key c.data rest rfl rfl rfl hlen hf he]
         cases c; simp_all [storeNorm])
      | (rw [parsePend_ok _ _ _ c.key c.data rest rfl rfl (by omega)]
         cases c; simp_all [storeNorm])

theorem parseKeyOnly_ok (h : ReqHeader) (rt : ReqType) (mk : Bytes → Cmd) (key rest : Bytes) (hkl : h.keyLen = key.length) :
    parseKeyOnly h rt mk (key ++ rest) = { cmd := some (mk key), rt := rt, rest := rest, alloc := key.length } := by
  unfold parseKeyOnly
  rw [hkl, readN_append]

theorem parseExpKey_ok (h : ReqHeader) (rt : ReqType) (mk : Nat → Bytes → Cmd) (ex : Nat) (key rest : Bytes)
    (hkl : h.keyLen = key.length) (he : ex < 4294967296) :
    parseExpKey h rt mk (Bytes.be32 ex ++ (key ++ rest)) =
      { cmd := some (mk ex key), rt := rt, rest := rest, alloc := 4 + key.length } := by
  unfold parseExpKey
  rw [readN_append' 4 _ _ (be32_length ex)]
  simp only
  rw [hkl, readN_append]
  simp only [rd32_be32 _ he]

/-- delete / touch / get-and-touch -/
theorem C07_bin_delete (c : KeyCmd) (rest : Bytes) (hk : c.key.length < 65536) (ho : c.opq < 4294967296) :
    binParse (encodeBin (.delete c) ++ rest) =
      { cmd := some (.delete { key := c.key, opq := c.opq }), rt := .delete, rest := rest, alloc := c.key.length } := by
  simp only [encodeBin, List.append_assoc]
  rw [binParse_header _ _ _ _ _ _ (by decide) hk (by decide) (by omega) ho]
  simp only [dispatch]
  simp (config := { decide := true }) only [if_true, if_false, reduceIte]
  rw [parseKeyOnly_ok _ _ _ c.key rest rfl]

theorem C07_bin_touch (c : KeyCmd) (rest : Bytes) (hk : c.key.length < 65536) (ho : c.opq < 4294967296)
    (he : c.exptime < 4294967296) :
    binParse (encodeBin (.touch c) ++ rest) =
      { cmd := some (.touch { key := c.key, exptime := c.exptime, opq := c.opq }), rt := .touch, rest := rest,
        alloc := 4 + c.key.length } := by
  simp only [encodeBin, List.append_assoc]
  rw [binParse_header _ _ _ _ _ _ (by decide) hk (by decide) (by omega) ho]
  simp only [dispatch]
  simp (config := { decide := true }) only [if_true, if_false, reduceIte]
  rw [parseExpKey_ok _ _ _ c.exptime c.key rest rfl he]

theorem C07_bin_gat (c : KeyCmd) (rest : Bytes) (hk : c.key.length < 65536) (ho : c.opq < 4294967296)
    (he : c.exptime < 4294967296) :
    binParse (encodeBin (.gat c) ++ rest) =
      { cmd := some (.gat { key := c.key, exptime := c.exptime, opq := c.opq }), rt := .gat, rest := rest,
        alloc := 4 + c.key.length } := by
  simp only [encodeBin, List.append_assoc]
  rw [binParse_header _ _ _ _ _ _ (by decide) hk (by decide) (by omega) ho]
  simp only [dispatch]
  simp (config := { decide := true }) only [if_true, if_false, reduceIte]
  rw [parseExpKey_ok _ _ _ c.exptime c.key rest rfl he]

/-- noop / version / stat / quit -/
theorem C07_bin_simple (o : Nat) (rest : Bytes) (ho : o < 4294967296) :
    binParse (encodeBin (.noop o) ++ rest) = { cmd := some (.noop o), rt := .noop, rest := rest } ∧
    binParse (encodeBin (.version o) ++ rest) = { cmd := some (.version o), rt := .version, rest := rest } ∧
    binParse (encodeBin (.stat o) ++ rest) = { cmd := some (.stat o), rt := .stat, rest := rest } ∧
    (∀ q, binParse (encodeBin (.quit o q) ++ rest) = { cmd := some (.quit o q), rt := .quit, rest := rest }) := by
  refine ⟨?_, ?_, ?_, ?_⟩
  · simp only [encodeBin]
    rw [binParse_header _ _ _ _ _ _ (by decide) (by decide) (by decide) (by decide) ho]
    simp only [dispatch]
    simp (config := { decide := true }) only [if_true, if_false, reduceIte]
  · simp only [encodeBin]
    rw [binParse_header _ _ _ _ _ _ (by decide) (by decide) (by decide) (by decide) ho]
    simp only [dispatch]
    simp (config := { decide := true }) only [if_true, if_false, reduceIte]
  · simp only [encodeBin]
    rw [binParse_header _ _ _ _ _ _ (by decide) (by decide) (by decide) (by decide) ho]
    simp only [dispatch]
    simp (config := { decide := true }) only [if_true, if_false, reduceIte]
  · intro q
    cases q <;> simp only [encodeBin, if_true, if_false, Bool.false_eq_true] <;>
      rw [binParse_header _ _ _ _ _ _ (by decide) (by decide) (by decide) (by decide) ho] <;>
      simp only [dispatch] <;>
      simp (config := { decide := true }) only [if_true, if_false, reduceIte]

/-! ### Batched gets: `GETQ* GET` and `GETQ* NOOP` -/

def GetKeyOK (g : GetKey) : Prop := g.key.length < 65536 ∧ g.opq < 4294967296

/-- The tail of a batch after the quiet gets: a plain get of the last key, or a noop. -/
def batchTail (op : Nat) (last : Option GetKey) (noopOpq : Nat) : Bytes :=
  match last with
  | some l => reqHeader op l.key.length 0 l.key.length l.opq ++ l.key
  | none => reqHeader Gen.binprot_OpcodeNoop 0 0 0 noopOpq

def batchResult (acc : List GetKey) (last : Option GetKey) (noopOpq : Nat) : GetCmd :=
  match last with
  | some l => { keys := acc ++ [{ key := l.key, opq := l.opq, quiet := false }], noopOpaque := 0, noopEnd := false }
  | none => { keys := acc, noopOpaque := noopOpq, noopEnd := true }

theorem encGetQs_length_ge (qop : Nat) (ks : List GetKey) : 24 * ks.length ≤ (encGetQs qop ks).length := by
  induction ks with
  | nil => simp [encGetQs]
  | cons k ks ih => simp [encGetQs, reqHeader_length]; omega

theorem batch_header (qop op : Nat) (hqop : qop < 256) (hop : op < 256)
    (ks : List GetKey) (hks : ∀ k ∈ ks, GetKeyOK k ∧ k.quiet = true)
    (last : Option GetKey) (hlast : ∀ l, last = some l → GetKeyOK l) (noopOpq : Nat) (hnoop : noopOpq < 4294967296)
    (rest : Bytes) :
    ∃ h inp, readRequestHeader (encGetQs qop ks ++ batchTail op last noopOpq ++ rest) = .ok h inp := by
  cases ks with
  | nil =>
    cases last with
    | none =>
      simp only [encGetQs, batchTail, List.nil_append]
      exact ⟨_, _, readHeader_ok _ _ _ _ _ _ (by decide) (by decide) (by decide) (by decide) hnoop⟩
    | some l =>
      obtain ⟨h1, h2⟩ := hlast l rfl
      simp only [encGetQs, batchTail, List.nil_append, List.append_assoc]
      exact ⟨_, _, readHeader_ok _ _ _ _ _ _ hop h1 (by decide) (by omega) h2⟩
  | cons k ks =>
    obtain ⟨⟨h1, h2⟩, _⟩ := hks k (List.mem_cons_self)
    simp only [encGetQs, List.append_assoc]
    exact ⟨_, _, readHeader_ok _ _ _ _ _ _ hqop h1 (by decide) (by omega) h2⟩

/-- The loop of `readBatchGet` / `readBatchGetE`. -/
theorem readBatch_ok (qop op : Nat) (hqop : qop < 256) (hop : op < 256) (hne : qop ≠ op) (hnq : qop ≠ Gen.binprot_OpcodeNoop)
    (hno : op ≠ Gen.binprot_OpcodeNoop)
    (last : Option GetKey) (hlast : ∀ l, last = some l → GetKeyOK l) (noopOpq : Nat) (hnoop : noopOpq < 4294967296)
    (rest : Bytes) :
    ∀ (ks : List GetKey), (∀ k ∈ ks, GetKeyOK k ∧ k.quiet = true) →
    ∀ (acc : List GetKey) (alloc fuel : Nat), ks.length + 2 ≤ fuel →
    ∀ (h : ReqHeader) (inp : Bytes),
      readRequestHeader (encGetQs qop ks ++ batchTail op last noopOpq ++ rest) = .ok h inp →
      ∃ a, readBatch qop op fuel h inp acc alloc = (some (batchResult (acc ++ ks) last noopOpq, rest, a), a) := by
  intro ks
  induction ks with
  | nil =>
    intro _ acc alloc fuel hfuel h inp hh
    obtain ⟨f, rfl⟩ : ∃ f, fuel = f + 1 := ⟨fuel - 1, by omega⟩
    cases last with
    | none =>
      simp only [encGetQs, batchTail, List.nil_append] at hh
      rw [readHeader_ok _ _ _ _ _ _ (by decide) (by decide) (by decide) (by decide) hnoop] at hh
      cases hh
      refine ⟨alloc, ?_⟩
      simp [readBatch, batchResult, hnq.symm, hno.symm]
    | some l =>
      obtain ⟨h1, h2⟩ := hlast l rfl
      simp only [encGetQs, batchTail, List.nil_append, List.append_assoc] at hh
      rw [readHeader_ok _ _ _ _ _ _ hop h1 (by decide) (by omega) h2] at hh
      cases hh
      refine ⟨alloc + l.key.length, ?_⟩
      simp [readBatch, batchResult, hne.symm, readN_append]
  | cons k ks ih =>
    intro hks acc alloc fuel hfuel h inp hh
    obtain ⟨f, rfl⟩ : ∃ f, fuel = f + 1 := ⟨fuel - 1, by omega⟩
    obtain ⟨⟨h1, h2⟩, hq⟩ := hks k (List.mem_cons_self)
    have hks' : ∀ k' ∈ ks, GetKeyOK k' ∧ k'.quiet = true := fun k' hk' => hks k' (List.mem_cons_of_mem _ hk')
    simp only [encGetQs, List.append_assoc] at hh
    rw [readHeader_ok _ _ _ _ _ _ hqop h1 (by decide) (by omega) h2] at hh
    cases hh
    obtain ⟨h', inp', hnext⟩ := batch_header qop op hqop hop ks hks' last hlast noopOpq hnoop rest
    simp only [List.append_assoc] at hnext
    have hstep : readBatch qop op (f + 1)
        { magic := Gen.binprot_MagicRequest, opcode := qop, keyLen := k.key.length, extLen := 0, total := k.key.length, opq := k.opq }
        (k.key ++ (encGetQs qop ks ++ (batchTail op last noopOpq ++ rest))) acc alloc =
        readBatch qop op f h' inp' (acc ++ [{ key := k.key, opq := k.opq, quiet := true }]) (alloc + k.key.length) := by
      simp [readBatch, readN_append, hnext]
    rw [hstep]
    have hk : ({ key := k.key, opq := k.opq, quiet := true } : GetKey) = k := by
      cases k; simp_all
    rw [hk]
    have := ih hks' (acc ++ [k]) (alloc + k.key.length) f (by simp at hfuel; omega) h' inp'
      (by simpa only [List.append_assoc] using hnext)
    simpa [List.append_assoc] using this

/-- Wire form of a get batch: every key but possibly the last is quiet; the batch is closed by a
    plain get of the last key, or by a noop when the last key is quiet too. -/
structure BatchOK (g : GetCmd) : Prop where
  keysOK : ∀ k ∈ g.keys, GetKeyOK k
  noopOK : g.noopOpaque < 4294967296
  nonempty : g.keys ≠ []
  shape : if g.noopEnd then (∀ k ∈ g.keys, k.quiet = true)
          else (∀ k ∈ g.keys.dropLast, k.quiet = true) ∧ (∀ l, g.keys.getLast? = some l → l.quiet = false) ∧ g.noopOpaque = 0

/-- Every batch of quiet gets closed by a get or a noop decodes to exactly the keys, opaques and
    quiet flags that were sent, consuming exactly its own bytes. -/
theorem C07_bin_get_batch (g : GetCmd) (rest : Bytes) (hg : BatchOK g) :
    ∃ a, binParse (encodeBin (.get g) ++ rest) = { cmd := some (.get g), rt := .get, rest := rest, alloc := a } := by
  obtain ⟨hkeys, hnoop, hne, hshape⟩ := hg
  -- common: run the batch loop from the first header of a non-empty list of quiet gets
  have run : ∀ (ks : List GetKey) (last : Option GetKey) (nq : Nat), ks ≠ [] →
      (∀ k ∈ ks, GetKeyOK k ∧ k.quiet = true) → (∀ l, last = some l → GetKeyOK l) → nq < 4294967296 →
      ∃ a, binParse (encGetQs Gen.binprot_OpcodeGetQ ks ++ batchTail Gen.binprot_OpcodeGet last nq ++ rest) =
        { cmd := some (.get (batchResult ks last nq)), rt := .get, rest := rest, alloc := a } := by
    intro ks last nq hks hq hl hn
    obtain ⟨h, inp, hh⟩ := batch_header Gen.binprot_OpcodeGetQ Gen.binprot_OpcodeGet (by decide) (by decide) ks hq last hl nq hn rest
    obtain ⟨k, ks', rfl⟩ := List.exists_cons_of_ne_nil hks
    have hh' := hh
    obtain ⟨⟨h1, h2⟩, _⟩ := hq k (List.mem_cons_self)
    simp only [encGetQs, List.append_assoc] at hh'
    rw [readHeader_ok _ _ _ _ _ _ (by decide) h1 (by decide) (by omega) h2] at hh'
    cases hh'
    have hfuel : (k :: ks').length + 2 ≤ (k.key ++ (encGetQs Gen.binprot_OpcodeGetQ ks' ++ (batchTail Gen.binprot_OpcodeGet last nq ++ rest))).length + 1 := by
      have := encGetQs_length_ge Gen.binprot_OpcodeGetQ ks'
      have ht : 24 ≤ (batchTail Gen.binprot_OpcodeGet last nq).length := by
        cases last <;> simp [batchTail, reqHeader_length]
      simp only [List.length_append, List.length_cons]
      omega
    obtain ⟨a, ha⟩ := readBatch_ok Gen.binprot_OpcodeGetQ Gen.binprot_OpcodeGet (by decide) (by decide) (by decide) (by decide)
      (by decide) last hl nq hn rest (k :: ks') hq [] 0 _ hfuel _ _ hh
    refine ⟨a, ?_⟩
    unfold binParse
    rw [hh]
    simp only [dispatch]
    simp (config := { decide := true }) only [if_true, if_false]
    rw [ha]
    simp
  by_cases hend : g.noopEnd = true
  · simp only [hend, if_true] at hshape
    obtain ⟨a, ha⟩ := run g.keys none g.noopOpaque hne (fun k hk => ⟨hkeys k hk, hshape k hk⟩) (by simp) hnoop
    refine ⟨a, ?_⟩
    simp only [encodeBin, hend, if_true]
    simp only [batchTail] at ha
    rw [ha]
    cases g; simp_all [batchResult]
  · have hend' : g.noopEnd = false := by simpa using hend
    simp only [hend', Bool.false_eq_true, if_false] at hshape
    obtain ⟨hq, hlq, hno⟩ := hshape
    obtain ⟨l, hl, hkeys_eq⟩ : ∃ l, g.keys.getLast? = some l ∧ g.keys = g.keys.dropLast ++ [l] :=
      ⟨g.keys.getLast hne, List.getLast?_eq_getLast hne, (List.dropLast_concat_getLast hne).symm⟩
    have hlmem : l ∈ g.keys := List.mem_of_getLast? hl
    have hlnorm : ({ key := l.key, opq := l.opq, quiet := false } : GetKey) = l := by
      have hqf := hlq l hl
      cases l with
      | mk key opq quiet =>
        simp only at hqf
        subst hqf
        rfl
    simp only [encodeBin, hend', Bool.false_eq_true, if_false, hl]
    by_cases hdl : g.keys.dropLast = []
    · -- a single plain get
      obtain ⟨h1, h2⟩ := hkeys l hlmem
      refine ⟨l.key.length, ?_⟩
      simp only [hdl, encGetQs, List.nil_append, List.append_assoc]
      rw [binParse_header _ _ _ _ _ _ (by decide) h1 (by decide) (by omega) h2]
      simp only [dispatch]
      simp (config := { decide := true }) only [if_true, if_false]
      rw [parseKeyOnly_ok _ _ _ l.key rest rfl]
      have hk1 : g.keys = [l] := by rw [hkeys_eq, hdl]; rfl
      rw [hlnorm]
      cases g with
      | mk keys nq ne =>
        simp only at hk1 hend' hno
        subst hk1 hend' hno
        rfl
    · obtain ⟨a, ha⟩ := run g.keys.dropLast (some l) 0 hdl
        (fun k hk => ⟨hkeys k (List.dropLast_subset _ hk), hq k hk⟩)
        (fun l' hl' => by cases hl'; exact hkeys l hlmem) (by decide)
      refine ⟨a, ?_⟩
      simp only [batchTail, List.append_assoc] at ha
      simp only [List.append_assoc]
      rw [ha]
      simp only [batchResult, hlnorm, ← hkeys_eq]
      cases g with
      | mk keys nq ne =>
        simp only at hend' hno
        subst hend' hno
        rfl

end Rend.Props.C07

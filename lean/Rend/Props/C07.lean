/-
  C07 — Wire decoding is faithful, exact and independent of packet boundaries.
-/
import Rend.Proofs.WireLemmas
import Rend.Wire.TextParse
import Rend.Proofs.TextLemmas

namespace Rend.Props.C07
open Rend Rend.Wire

/-- What the binary wire format carries of a store request: append/prepend have no extras. -/
def storeNorm (k : SetKind) (c : SetCmd) : SetCmd :=
  match k with
  | .append | .prepend => { c with flags := 0, exptime := 0 }
  | _ => c

theorem binParse_header (op kl el tot opq : Nat) (body : Bytes) (hop : op < 256) (hkl : kl < 65536) (hel : el < 256)
    (htot : tot < 4294967296) (hopq : opq < 4294967296) :
    binParse (reqHeader op kl el tot opq ++ body) =
      dispatch { magic := Gen.binprot_MagicRequest, opcode := op, keyLen := kl, extLen := el, total := tot, opq := opq } body := by
  unfold binParse
  rw [readHeader_ok op kl el tot opq body hop hkl hel htot hopq]

theorem parseSet_ok (h : ReqHeader) (k : SetKind) (q : Bool) (fl ex : Nat) (key data rest : Bytes)
    (hext : h.extLen = 8) (hkl : h.keyLen = key.length) (htot : h.total = 8 + key.length + data.length)
    (hlen : 8 + key.length + data.length < 4294967296) (hf : fl < 4294967296) (he : ex < 4294967296) :
    parseSet h k q (Bytes.be32 fl ++ (Bytes.be32 ex ++ (key ++ (data ++ rest)))) =
      { cmd := some (.store k { key := key, flags := fl, exptime := ex, data := data, opq := h.opq, quiet := q }),
        rt := k.reqType, rest := rest, alloc := 8 + key.length + data.length } := by
  unfold parseSet
  have h1 : ¬ (h.total < h.extLen + h.keyLen) := by omega
  simp only [h1, if_false]
  rw [readN_append' 4 _ _ (be32_length fl)]
  simp only
  rw [readN_append' 4 _ _ (be32_length ex)]
  simp only
  rw [hkl, readN_append]
  simp only
  have : (8589934592 + h.total - h.extLen - key.length) % 4294967296 = data.length := by omega
  rw [this, readN_append]
  simp only [rd32_be32 _ hf, rd32_be32 _ he]

theorem parsePend_ok (h : ReqHeader) (k : SetKind) (q : Bool) (key data rest : Bytes)
    (hkl : h.keyLen = key.length) (htot : h.total = key.length + data.length)
    (hlen : key.length + data.length < 4294967296) :
    parsePend h k q (key ++ (data ++ rest)) =
      { cmd := some (.store k { key := key, flags := 0, exptime := 0, data := data, opq := h.opq, quiet := q }),
        rt := k.reqType, rest := rest, alloc := key.length + data.length } := by
  unfold parsePend
  have h1 : ¬ (h.total < h.keyLen) := by omega
  simp only [h1, if_false]
  rw [hkl, readN_append]
  simp only
  have : (4294967296 + h.total - key.length) % 4294967296 = data.length := by omega
  rw [this, readN_append]

/-- Every store request (set/add/replace/append/prepend, quiet or not; any key up to 65535 bytes,
    any data with 8+key+data < 2^32, all 32-bit flags/TTL/opaque values) decodes to exactly what
    was sent, consuming exactly its own bytes. -/
theorem C07_bin_store (k : SetKind) (c : SetCmd) (rest : Bytes) (hk : c.key.length < 65536)
    (hlen : 8 + c.key.length + c.data.length < 4294967296) (hf : c.flags < 4294967296)
    (he : c.exptime < 4294967296) (ho : c.opq < 4294967296) :
    binParse (encodeBin (.store k c) ++ rest) =
      { cmd := some (.store k (storeNorm k c)), rt := k.reqType, rest := rest,
        alloc := (match k with | .append | .prepend => 0 | _ => 8) + c.key.length + c.data.length } := by
  cases k <;> cases hq : c.quiet <;>
    simp only [encodeBin, storeOp, hq, List.append_assoc] <;>
    rw [binParse_header _ _ _ _ _ _ (by decide) hk (by decide) (by omega) ho] <;>
    simp only [dispatch] <;>
    simp (config := { decide := true }) only [if_true, if_false, reduceIte] <;>
    first
      | (rw [parseSet_ok _ _ _ c.flags c.exptime c.key c.data rest rfl rfl rfl hlen hf he]
         cases c; simp_all [storeNorm])
      | (rw [parsePend_ok _ _ _ c.key c.data rest rfl rfl (by omega)]
         cases c; simp_all [storeNorm])

theorem parseKeyOnly_ok (h : ReqHeader) (rt : ReqType) (mk : Bytes → Cmd) (key rest : Bytes) (hkl : h.keyLen = key.length) :
    parseKeyOnly h rt mk (key ++ rest) = { cmd := some (mk key), rt := rt, rest := rest, alloc := key.length } := by
  unfold parseKeyOnly
  rw [hkl, readN_append]

theorem parseExpKey_ok (h : ReqHeader) (rt : ReqType) (mk : Nat → Bytes → Cmd) (ex : Nat) (key rest : Bytes)
    (hkl : h.keyLen = key.length) (he : ex < 4294967296) :
    parseExpKey h rt mk (Bytes.be32 ex ++ (key ++ rest)) =
      { cmd := some (mk ex key), rt := rt, rest := rest, alloc := 4 + key.length } := by
  unfold parseExpKey
  rw [readN_append' 4 _ _ (be32_length ex)]
  simp only
  rw [hkl, readN_append]
  simp only [rd32_be32 _ he]

/-- delete / touch / get-and-touch -/
theorem C07_bin_delete (c : KeyCmd) (rest : Bytes) (hk : c.key.length < 65536) (ho : c.opq < 4294967296) :
    binParse (encodeBin (.delete c) ++ rest) =
      { cmd := some (.delete { key := c.key, opq := c.opq }), rt := .delete, rest := rest, alloc := c.key.length } := by
  simp only [encodeBin, List.append_assoc]
  rw [binParse_header _ _ _ _ _ _ (by decide) hk (by decide) (by omega) ho]
  simp only [dispatch]
  simp (config := { decide := true }) only [if_true, if_false, reduceIte]
  rw [parseKeyOnly_ok _ _ _ c.key rest rfl]

theorem C07_bin_touch (c : KeyCmd) (rest : Bytes) (hk : c.key.length < 65536) (ho : c.opq < 4294967296)
    (he : c.exptime < 4294967296) :
    binParse (encodeBin (.touch c) ++ rest) =
      { cmd := some (.touch { key := c.key, exptime := c.exptime, opq := c.opq }), rt := .touch, rest := rest,
        alloc := 4 + c.key.length } := by
  simp only [encodeBin, List.append_assoc]
  rw [binParse_header _ _ _ _ _ _ (by decide) hk (by decide) (by omega) ho]
  simp only [dispatch]
  simp (config := { decide := true }) only [if_true, if_false, reduceIte]
  rw [parseExpKey_ok _ _ _ c.exptime c.key rest rfl he]

theorem C07_bin_gat (c : KeyCmd) (rest : Bytes) (hk : c.key.length < 65536) (ho : c.opq < 4294967296)
    (he : c.exptime < 4294967296) :
    binParse (encodeBin (.gat c) ++ rest) =
      { cmd := some (.gat { key := c.key, exptime := c.exptime, opq := c.opq }), rt := .gat, rest := rest,
        alloc := 4 + c.key.length } := by
  simp only [encodeBin, List.append_assoc]
  rw [binParse_header _ _ _ _ _ _ (by decide) hk (by decide) (by omega) ho]
  simp only [dispatch]
  simp (config := { decide := true }) only [if_true, if_false, reduceIte]
  rw [parseExpKey_ok _ _ _ c.exptime c.key rest rfl he]

/-- noop / version / stat / quit -/
theorem C07_bin_simple (o : Nat) (rest : Bytes) (ho : o < 4294967296) :
    binParse (encodeBin (.noop o) ++ rest) = { cmd := some (.noop o), rt := .noop, rest := rest } ∧
    binParse (encodeBin (.version o) ++ rest) = { cmd := some (.version o), rt := .version, rest := rest } ∧
    binParse (encodeBin (.stat o) ++ rest) = { cmd := some (.stat o), rt := .stat, rest := rest } ∧
    (∀ q, binParse (encodeBin (.quit o q) ++ rest) = { cmd := some (.quit o q), rt := .quit, rest := rest }) := by
  refine ⟨?_, ?_, ?_, ?_⟩
  · simp only [encodeBin]
    rw [binParse_header _ _ _ _ _ _ (by decide) (by decide) (by decide) (by decide) ho]
    simp only [dispatch]
    simp (config := { decide := true }) only [if_true, if_false, reduceIte]
  · simp only [encodeBin]
    rw [binParse_header _ _ _ _ _ _ (by decide) (by decide) (by decide) (by decide) ho]
    simp only [dispatch]
    simp (config := { decide := true }) only [if_true, if_false, reduceIte]
  · simp only [encodeBin]
    rw [binParse_header _ _ _ _ _ _ (by decide) (by decide) (by decide) (by decide) ho]
    simp only [dispatch]
    simp (config := { decide := true }) only [if_true, if_false, reduceIte]
  · intro q
    cases q <;> simp only [encodeBin, if_true, if_false, Bool.false_eq_true] <;>
      rw [binParse_header _ _ _ _ _ _ (by decide) (by decide) (by decide) (by decide) ho] <;>
      simp only [dispatch] <;>
      simp (config := { decide := true }) only [if_true, if_false, reduceIte]

/-! ### Batched gets: `GETQ* GET` and `GETQ* NOOP` -/

def GetKeyOK (g : GetKey) : Prop := g.key.length < 65536 ∧ g.opq < 4294967296

/-- The tail of a batch after the quiet gets: a plain get of the last key, or a noop. -/
def batchTail (op : Nat) (last : Option GetKey) (noopOpq : Nat) : Bytes :=
  match last with
  | some l => reqHeader op l.key.length 0 l.key.length l.opq ++ l.key
  | none => reqHeader Gen.binprot_OpcodeNoop 0 0 0 noopOpq

def batchResult (acc : List GetKey) (last : Option GetKey) (noopOpq : Nat) : GetCmd :=
  match last with
  | some l => { keys := acc ++ [{ key := l.key, opq := l.opq, quiet := false }], noopOpaque := 0, noopEnd := false }
  | none => { keys := acc, noopOpaque := noopOpq, noopEnd := true }

theorem encGetQs_length_ge (qop : Nat) (ks : List GetKey) : 24 * ks.length ≤ (encGetQs qop ks).length := by
  induction ks with
  | nil => simp [encGetQs]
  | cons k ks ih => simp [encGetQs, reqHeader_length]; omega

theorem batch_header (qop op : Nat) (hqop : qop < 256) (hop : op < 256)
    (ks : List GetKey) (hks : ∀ k ∈ ks, GetKeyOK k ∧ k.quiet = true)
    (last : Option GetKey) (hlast : ∀ l, last = some l → GetKeyOK l) (noopOpq : Nat) (hnoop : noopOpq < 4294967296)
    (rest : Bytes) :
    ∃ h inp, readRequestHeader (encGetQs qop ks ++ batchTail op last noopOpq ++ rest) = .ok h inp := by
  cases ks with
  | nil =>
    cases last with
    | none =>
      simp only [encGetQs, batchTail, List.nil_append]
      exact ⟨_, _, readHeader_ok _ _ _ _ _ _ (by decide) (by decide) (by decide) (by decide) hnoop⟩
    | some l =>
      obtain ⟨h1, h2⟩ := hlast l rfl
      simp only [encGetQs, batchTail, List.nil_append, List.append_assoc]
      exact ⟨_, _, readHeader_ok _ _ _ _ _ _ hop h1 (by decide) (by omega) h2⟩
  | cons k ks =>
    obtain ⟨⟨h1, h2⟩, _⟩ := hks k (List.mem_cons_self)
    simp only [encGetQs, List.append_assoc]
    exact ⟨_, _, readHeader_ok _ _ _ _ _ _ hqop h1 (by decide) (by omega) h2⟩

/-- The loop of `readBatchGet` / `readBatchGetE`. -/
theorem readBatch_ok (qop op : Nat) (hqop : qop < 256) (hop : op < 256) (hne : qop ≠ op) (hnq : qop ≠ Gen.binprot_OpcodeNoop)
    (hno : op ≠ Gen.binprot_OpcodeNoop)
    (last : Option GetKey) (hlast : ∀ l, last = some l → GetKeyOK l) (noopOpq : Nat) (hnoop : noopOpq < 4294967296)
    (rest : Bytes) :
    ∀ (ks : List GetKey), (∀ k ∈ ks, GetKeyOK k ∧ k.quiet = true) →
    ∀ (acc : List GetKey) (alloc fuel : Nat), ks.length + 2 ≤ fuel →
    ∀ (h : ReqHeader) (inp : Bytes),
      readRequestHeader (encGetQs qop ks ++ batchTail op last noopOpq ++ rest) = .ok h inp →
      ∃ a, readBatch qop op fuel h inp acc alloc = (some (batchResult (acc ++ ks) last noopOpq, rest, a), a) := by
  intro ks
  induction ks with
  | nil =>
    intro _ acc alloc fuel hfuel h inp hh
    obtain ⟨f, rfl⟩ : ∃ f, fuel = f + 1 := ⟨fuel - 1, by omega⟩
    cases last with
    | none =>
      simp only [encGetQs, batchTail, List.nil_append] at hh
      rw [readHeader_ok _ _ _ _ _ _ (by decide) (by decide) (by decide) (by decide) hnoop] at hh
      cases hh
      refine ⟨alloc, ?_⟩
      simp [readBatch, batchResult, hnq.symm, hno.symm]
    | some l =>
      obtain ⟨h1, h2⟩ := hlast l rfl
      simp only [encGetQs, batchTail, List.nil_append, List.append_assoc] at hh
      rw [readHeader_ok _ _ _ _ _ _ hop h1 (by decide) (by omega) h2] at hh
      cases hh
      refine ⟨alloc + l.key.length, ?_⟩
      simp [readBatch, batchResult, hne.symm, readN_append]
  | cons k ks ih =>
    intro hks acc alloc fuel hfuel h inp hh
    obtain ⟨f, rfl⟩ : ∃ f, fuel = f + 1 := ⟨fuel - 1, by omega⟩
    obtain ⟨⟨h1, h2⟩, hq⟩ := hks k (List.mem_cons_self)
    have hks' : ∀ k' ∈ ks, GetKeyOK k' ∧ k'.quiet = true := fun k' hk' => hks k' (List.mem_cons_of_mem _ hk')
    simp only [encGetQs, List.append_assoc] at hh
    rw [readHeader_ok _ _ _ _ _ _ hqop h1 (by decide) (by omega) h2] at hh
    cases hh
    obtain ⟨h', inp', hnext⟩ := batch_header qop op hqop hop ks hks' last hlast noopOpq hnoop rest
    simp only [List.append_assoc] at hnext
    have hstep : readBatch qop op (f + 1)
        { magic := Gen.binprot_MagicRequest, opcode := qop, keyLen := k.key.length, extLen := 0, total := k.key.length, opq := k.opq }
        (k.key ++ (encGetQs qop ks ++ (batchTail op last noopOpq ++ rest))) acc alloc =
        readBatch qop op f h' inp' (acc ++ [{ key := k.key, opq := k.opq, quiet := true }]) (alloc + k.key.length) := by
      simp [readBatch, readN_append, hnext]
    rw [hstep]
    have hk : ({ key := k.key, opq := k.opq, quiet := true } : GetKey) = k := by
      cases k; simp_all
    rw [hk]
    have := ih hks' (acc ++ [k]) (alloc + k.key.length) f (by simp at hfuel; omega) h' inp'
      (by simpa only [List.append_assoc] using hnext)
    simpa [List.append_assoc] using this

/-- Wire form of a get batch: every key but possibly the last is quiet; the batch is closed by a
    plain get of the last key, or by a noop when the last key is quiet too. -/
structure BatchOK (g : GetCmd) : Prop where
  keysOK : ∀ k ∈ g.keys, GetKeyOK k
  noopOK : g.noopOpaque < 4294967296
  nonempty : g.keys ≠ []
  shape : if g.noopEnd then (∀ k ∈ g.keys, k.quiet = true)
          else (∀ k ∈ g.keys.dropLast, k.quiet = true) ∧ (∀ l, g.keys.getLast? = some l → l.quiet = false) ∧ g.noopOpaque = 0

/-- Every batch of quiet gets closed by a get or a noop decodes to exactly the keys, opaques and
    quiet flags that were sent, consuming exactly its own bytes. -/
theorem C07_bin_get_batch (g : GetCmd) (rest : Bytes) (hg : BatchOK g) :
    ∃ a, binParse (encodeBin (.get g) ++ rest) = { cmd := some (.get g), rt := .get, rest := rest, alloc := a } := by
  obtain ⟨hkeys, hnoop, hne, hshape⟩ := hg
  -- common: run the batch loop from the first header of a non-empty list of quiet gets
  have run : ∀ (ks : List GetKey) (last : Option GetKey) (nq : Nat), ks ≠ [] →
      (∀ k ∈ ks, GetKeyOK k ∧ k.quiet = true) → (∀ l, last = some l → GetKeyOK l) → nq < 4294967296 →
      ∃ a, binParse (encGetQs Gen.binprot_OpcodeGetQ ks ++ batchTail Gen.binprot_OpcodeGet last nq ++ rest) =
        { cmd := some (.get (batchResult ks last nq)), rt := .get, rest := rest, alloc := a } := by
    intro ks last nq hks hq hl hn
    obtain ⟨h, inp, hh⟩ := batch_header Gen.binprot_OpcodeGetQ Gen.binprot_OpcodeGet (by decide) (by decide) ks hq last hl nq hn rest
    obtain ⟨k, ks', rfl⟩ := List.exists_cons_of_ne_nil hks
    have hh' := hh
    obtain ⟨⟨h1, h2⟩, _⟩ := hq k (List.mem_cons_self)
    simp only [encGetQs, List.append_assoc] at hh'
    rw [readHeader_ok _ _ _ _ _ _ (by decide) h1 (by decide) (by omega) h2] at hh'
    cases hh'
    have hfuel : (k :: ks').length + 2 ≤ (k.key ++ (encGetQs Gen.binprot_OpcodeGetQ ks' ++ (batchTail Gen.binprot_OpcodeGet last nq ++ rest))).length + 1 := by
      have := encGetQs_length_ge Gen.binprot_OpcodeGetQ ks'
      have ht : 24 ≤ (batchTail Gen.binprot_OpcodeGet last nq).length := by
        cases last <;> simp [batchTail, reqHeader_length]
      simp only [List.length_append, List.length_cons]
      omega
    obtain ⟨a, ha⟩ := readBatch_ok Gen.binprot_OpcodeGetQ Gen.binprot_OpcodeGet (by decide) (by decide) (by decide) (by decide)
      (by decide) last hl nq hn rest (k :: ks') hq [] 0 _ hfuel _ _ hh
    refine ⟨a, ?_⟩
    unfold binParse
    rw [hh]
    simp only [dispatch]
    simp (config := { decide := true }) only [if_true, if_false]
    rw [ha]
    simp
  by_cases hend : g.noopEnd = true
  · simp only [hend, if_true] at hshape
    obtain ⟨a, ha⟩ := run g.keys none g.noopOpaque hne (fun k hk => ⟨hkeys k hk, hshape k hk⟩) (by simp) hnoop
    refine ⟨a, ?_⟩
    simp only [encodeBin, hend, if_true]
    simp only [batchTail] at ha
    rw [ha]
    cases g; simp_all [batchResult]
  · have hend' : g.noopEnd = false := by simpa using hend
    simp only [hend', Bool.false_eq_true, if_false] at hshape
    obtain ⟨hq, hlq, hno⟩ := hshape
    obtain ⟨l, hl, hkeys_eq⟩ : ∃ l, g.keys.getLast? = some l ∧ g.keys = g.keys.dropLast ++ [l] :=
      ⟨g.keys.getLast hne, List.getLast?_eq_getLast hne, (List.dropLast_concat_getLast hne).symm⟩
    have hlmem : l ∈ g.keys := List.mem_of_getLast? hl
    have hlnorm : ({ key := l.key, opq := l.opq, quiet := false } : GetKey) = l := by
      have hqf := hlq l hl
      cases l with
      | mk key opq quiet =>
        simp only at hqf
        subst hqf
        rfl
    simp only [encodeBin, hend', Bool.false_eq_true, if_false, hl]
    by_cases hdl : g.keys.dropLast = []
    · -- a single plain get
      obtain ⟨h1, h2⟩ := hkeys l hlmem
      refine ⟨l.key.length, ?_⟩
      simp only [hdl, encGetQs, List.nil_append, List.append_assoc]
      rw [binParse_header _ _ _ _ _ _ (by decide) h1 (by decide) (by omega) h2]
      simp only [dispatch]
      simp (config := { decide := true }) only [if_true, if_false]
      rw [parseKeyOnly_ok _ _ _ l.key rest rfl]
      have hk1 : g.keys = [l] := by rw [hkeys_eq, hdl]; rfl
      rw [hlnorm]
      cases g with
      | mk keys nq ne =>
        simp only at hk1 hend' hno
        subst hk1 hend' hno
        rfl
    · obtain ⟨a, ha⟩ := run g.keys.dropLast (some l) 0 hdl
        (fun k hk => ⟨hkeys k (List.dropLast_subset _ hk), hq k hk⟩)
        (fun l' hl' => by cases hl'; exact hkeys l hlmem) (by decide)
      refine ⟨a, ?_⟩
      simp only [batchTail, List.append_assoc] at ha
      simp only [List.append_assoc]
      rw [ha]
      simp only [batchResult, hlnorm, ← hkeys_eq]
      cases g with
      | mk keys nq ne =>
        simp only at hend' hno
        subst hend' hno
        rfl

/-! ### Text protocol -/

theorem storeWord_printable (k : SetKind) : ∀ c ∈ storeWord k, Printable c := by
  cases k <;> simp [storeWord, wSet, wAdd, wReplace, wAppend, wPrepend, Printable] <;> decide

/-- The request line of a store command, without its CRLF. -/
def storeLine (k : SetKind) (c : SetCmd) : Bytes :=
  storeWord k ++ 32 :: (c.key ++ 32 :: (Bytes.decDigits c.flags ++ 32 :: (Bytes.decDigits c.exptime ++ 32 ::
    Bytes.decDigits c.data.length)))

theorem encodeText_store (k : SetKind) (c : SetCmd) (rest : Bytes) :
    encodeText (.store k c) ++ rest = (storeLine k c ++ [13]) ++ 10 :: (c.data ++ ([13] ++ 10 :: rest)) := by
  simp [encodeText, storeLine, sp]

theorem storeLine_split (k : SetKind) (c : SetCmd) (hkey : ∀ b ∈ c.key, Printable b) :
    splitSpace (storeLine k c) =
      [storeWord k, c.key, Bytes.decDigits c.flags, Bytes.decDigits c.exptime, Bytes.decDigits c.data.length] := by
  unfold storeLine
  rw [splitSpace_cons _ _ (fun b hb => printable_ne_space b (storeWord_printable k b hb))]
  rw [splitSpace_cons _ _ (fun b hb => printable_ne_space b (hkey b hb))]
  rw [splitSpace_cons _ _ (fun b hb => printable_ne_space b (digit_printable _ b hb))]
  rw [splitSpace_cons _ _ (fun b hb => printable_ne_space b (digit_printable _ b hb))]
  rw [splitSpace_last _ (fun b hb => printable_ne_space b (digit_printable _ b hb))]

theorem storeLine_printable_or_space (k : SetKind) (c : SetCmd) (hkey : ∀ b ∈ c.key, Printable b) :
    ∀ b ∈ storeLine k c, Printable b ∨ b = 32 := by
  intro b hb
  simp only [storeLine, List.mem_append, List.mem_cons] at hb
  rcases hb with h | h | h | h | h | h | h | h | h
  · exact Or.inl (storeWord_printable k b h)
  · exact Or.inr h
  · exact Or.inl (hkey b h)
  · exact Or.inr h
  · exact Or.inl (digit_printable _ b h)
  · exact Or.inr h
  · exact Or.inl (digit_printable _ b h)
  · exact Or.inr h
  · exact Or.inl (digit_printable _ b h)

/-- Every text store request (key of printable bytes, arbitrary data bytes — CR, LF, 0x80 included,
    since the data block is length-delimited — all 32-bit flags/TTL/length values) decodes to exactly
    what was sent, consuming exactly its own bytes. -/
theorem C07_text_store (k : SetKind) (c : SetCmd) (rest : Bytes)
    (hkey : ∀ b ∈ c.key, Printable b) (hf : c.flags < 4294967296) (he : c.exptime < 4294967296)
    (hl : c.data.length < 4294967296) :
    textParse (encodeText (.store k c) ++ rest) =
      { cmd := some (.store k { key := c.key, flags := c.flags, exptime := c.exptime, data := c.data }),
        rt := k.reqType, rest := rest, alloc := c.data.length } := by
  rw [encodeText_store]
  unfold textParse
  have hnolf : ∀ b ∈ storeLine k c ++ [13], b ≠ 10 := by
    intro b hb
    rcases List.mem_append.mp hb with h | h
    · rcases storeLine_printable_or_space k c hkey b h with h | h
      · exact printable_ne_lf b h
      · subst h; decide
    · simp at h; subst h; decide
  rw [readLine_ok _ _ hnolf]
  simp only
  -- the line is storeLine ++ "\r\n"; trimming leaves storeLine
  have hline : trimSpace (storeLine k c ++ [13] ++ [10]) = storeLine k c := by
    have hw : storeWord k ≠ [] := by cases k <;> simp [storeWord, wSet, wAdd, wReplace, wAppend, wPrepend]
    obtain ⟨x, wt, hwx⟩ := List.exists_cons_of_ne_nil hw
    have hdn := decDigits_ne_nil c.data.length
    have hlast := List.dropLast_concat_getLast hdn
    have hx : Printable x := storeWord_printable k x (by rw [hwx]; exact List.mem_cons_self)
    have hy : Printable ((Bytes.decDigits c.data.length).getLast hdn) :=
      digit_printable _ _ (List.getLast_mem hdn)
    have := trimSpace_crlf_gen (storeLine k c) x ((Bytes.decDigits c.data.length).getLast hdn)
      (wt ++ 32 :: (c.key ++ 32 :: (Bytes.decDigits c.flags ++ 32 :: (Bytes.decDigits c.exptime ++ 32 ::
        (Bytes.decDigits c.data.length).dropLast)))) (by
          unfold storeLine
          rw [hwx]
          conv => lhs; rw [← hlast]
          simp) hx hy
    simpa using this
  rw [hline, storeLine_split k c hkey]
  have hwne : ∀ w, storeWord k = w → True := fun _ _ => trivial
  have hF := trimSpace_id _ (decDigits_ne_nil c.flags) (digit_printable c.flags)
  have hE := trimSpace_id _ (decDigits_ne_nil c.exptime) (digit_printable c.exptime)
  have hN := trimSpace_id _ (decDigits_ne_nil c.data.length) (digit_printable c.data.length)
  have hset : textSet k [storeWord k, c.key, Bytes.decDigits c.flags, Bytes.decDigits c.exptime, Bytes.decDigits c.data.length]
      (c.data ++ ([13] ++ 10 :: rest)) =
      { cmd := some (.store k { key := c.key, flags := c.flags, exptime := c.exptime, data := c.data }),
        rt := k.reqType, rest := rest, alloc := c.data.length } := by
    unfold textSet
    simp only [hF, hE, hN, parseUint32_decDigits _ hf, parseUint32_decDigits _ he, parseUint32_decDigits _ hl]
    rw [readN_append]
    simp only
    rw [readLine_ok [13] rest (by simp)]
  cases k <;> simp [storeWord, wSet, wAdd, wReplace, wAppend, wPrepend, wGet, wDelete, wTouch, wNoop, wQuit, wVersion, wStats] at hset ⊢ <;> exact hset

theorem splitSpace_keys (keys : List GetKey) (hk : ∀ k ∈ keys, ∀ b ∈ k.key, Printable b) (a : Bytes) (ha : ∀ b ∈ a, b ≠ 32) :
    splitSpace (a ++ keys.flatMap (fun k => 32 :: k.key)) = a :: keys.map (·.key) := by
  induction keys generalizing a with
  | nil => simp [splitSpace_last a ha]
  | cons k ks ih =>
    simp only [List.flatMap_cons, List.cons_append]
    rw [splitSpace_cons a _ ha]
    rw [ih (fun k' hk' => hk k' (List.mem_cons_of_mem _ hk')) k.key
      (fun b hb => printable_ne_space b (hk k List.mem_cons_self b hb))]
    simp

/-- A generic helper: a request line `body ++ "\r\n"` whose body has no LF, starts with a printable
    byte and ends with a printable byte is read and trimmed back to `body`. -/
theorem line_roundtrip (body rest : Bytes) (x y : UInt8) (mid : Bytes) (hb : body = x :: (mid ++ [y]))
    (hx : Printable x) (hy : Printable y) (hnolf : ∀ b ∈ body, b ≠ 10) :
    readLine (body ++ [13, 10] ++ rest) = some (body ++ [13, 10], rest) ∧ trimSpace (body ++ [13, 10]) = body := by
  refine ⟨?_, trimSpace_crlf_gen body x y mid hb hx hy⟩
  have : body ++ [13, 10] ++ rest = (body ++ [13]) ++ 10 :: rest := by simp
  rw [this, readLine_ok _ _ (by
    intro b hb'
    rcases List.mem_append.mp hb' with h | h
    · exact hnolf b h
    · simp at h; subst h; decide)]
  simp

/-- Text `get` of one or more keys (each a non-empty string of printable bytes). -/
theorem C07_text_get (g : GetCmd) (rest : Bytes) (hne : g.keys ≠ [])
    (hk : ∀ k ∈ g.keys, k.key ≠ [] ∧ ∀ b ∈ k.key, Printable b) :
    textParse (encodeText (.get g) ++ rest) =
      { cmd := some (.get { keys := g.keys.map fun k => { key := k.key } }), rt := .get, rest := rest } := by
  have hk' : ∀ k ∈ g.keys, ∀ b ∈ k.key, Printable b := fun k h => (hk k h).2
  -- the body of the line
  have hbodyne : g.keys.flatMap (fun k => sp ++ k.key) ≠ [] := by
    obtain ⟨k, ks, hks⟩ := List.exists_cons_of_ne_nil hne
    rw [hks]; simp [sp]
  -- last byte of the body is the last byte of the last key
  obtain ⟨mid, y, hmid, hy⟩ : ∃ mid y, wGet ++ g.keys.flatMap (fun k => sp ++ k.key) = 103 :: (mid ++ [y]) ∧ Printable y := by
    have hl := List.dropLast_concat_getLast hne
    have hlast := hk _ (List.getLast_mem hne)
    have hkl := List.dropLast_concat_getLast hlast.1
    refine ⟨[101, 116] ++ g.keys.dropLast.flatMap (fun k => sp ++ k.key) ++ sp ++ ((g.keys.getLast hne).key).dropLast,
      ((g.keys.getLast hne).key).getLast hlast.1, ?_, hlast.2 _ (List.getLast_mem _)⟩
    conv => lhs; rw [← hl]
    rw [List.flatMap_append]
    simp only [List.flatMap_cons, List.flatMap_nil, List.append_nil]
    conv => lhs; rw [← hkl]
    simp [wGet, sp]
  have hnolf : ∀ b ∈ wGet ++ g.keys.flatMap (fun k => sp ++ k.key), b ≠ 10 := by
    intro b hb
    rcases List.mem_append.mp hb with h | h
    · simp [wGet] at h; rcases h with rfl | rfl | rfl <;> decide
    · simp only [List.mem_flatMap, sp, List.mem_append, List.mem_singleton] at h
      obtain ⟨k, hkm, h | h⟩ := h
      · subst h; decide
      · exact printable_ne_lf b (hk' k hkm b h)
  obtain ⟨h1, h2⟩ := line_roundtrip _ rest 103 y mid hmid ⟨by decide, by decide⟩ hy hnolf
  have henc : encodeText (.get g) ++ rest = (wGet ++ g.keys.flatMap (fun k => sp ++ k.key)) ++ [13, 10] ++ rest := by
    simp [encodeText]
  rw [henc]
  unfold textParse
  rw [h1]
  simp only
  have hsp : (fun k : GetKey => sp ++ k.key) = (fun k => 32 :: k.key) := by funext k; simp [sp]
  rw [h2, hsp, splitSpace_keys g.keys hk' wGet (by simp [wGet])]
  have hlen : ¬ (wGet :: g.keys.map (·.key)).length < 2 := by
    obtain ⟨k, ks, hks⟩ := List.exists_cons_of_ne_nil hne
    rw [hks]; simp
  have hlen' : ¬ (g.keys.length + 1 < 2) := by simpa using hlen
  simp [wGet, wSet, wAdd, wReplace, wAppend, wPrepend, hlen', List.map_map]

/-- Text `delete`. -/
theorem C07_text_delete (c : KeyCmd) (rest : Bytes) (hne : c.key ≠ []) (hkey : ∀ b ∈ c.key, Printable b) :
    textParse (encodeText (.delete c) ++ rest) = { cmd := some (.delete { key := c.key }), rt := .delete, rest := rest } := by
  have hkl := List.dropLast_concat_getLast hne
  have hbody : wDelete ++ 32 :: c.key = 100 :: (([101, 108, 101, 116, 101, 32] ++ c.key.dropLast) ++ [c.key.getLast hne]) := by
    conv => lhs; rw [← hkl]
    simp [wDelete]
  have hnolf : ∀ b ∈ wDelete ++ 32 :: c.key, b ≠ 10 := by
    intro b hb
    simp only [List.mem_append, List.mem_cons] at hb
    rcases hb with h | h | h
    · simp [wDelete] at h; rcases h with rfl | rfl | rfl | rfl | rfl | rfl <;> decide
    · subst h; decide
    · exact printable_ne_lf b (hkey b h)
  obtain ⟨h1, h2⟩ := line_roundtrip _ rest 100 _ _ hbody ⟨by decide, by decide⟩ (hkey _ (List.getLast_mem hne)) hnolf
  have henc : encodeText (.delete c) ++ rest = (wDelete ++ 32 :: c.key) ++ [13, 10] ++ rest := by simp [encodeText, sp]
  rw [henc]
  unfold textParse
  rw [h1]
  simp only
  rw [h2, splitSpace_cons wDelete c.key (by simp [wDelete]), splitSpace_last c.key (fun b hb => printable_ne_space b (hkey b hb))]
  simp [wGet, wSet, wAdd, wReplace, wAppend, wPrepend, wDelete]

/-- Text `touch`. -/
theorem C07_text_touch (c : KeyCmd) (rest : Bytes) (hkey : ∀ b ∈ c.key, Printable b) (he : c.exptime < 4294967296) :
    textParse (encodeText (.touch c) ++ rest) =
      { cmd := some (.touch { key := c.key, exptime := c.exptime }), rt := .touch, rest := rest } := by
  have hdn := decDigits_ne_nil c.exptime
  have hdl := List.dropLast_concat_getLast hdn
  have hbody : wTouch ++ 32 :: (c.key ++ 32 :: Bytes.decDigits c.exptime) =
      116 :: (([111, 117, 99, 104, 32] ++ c.key ++ [32] ++ (Bytes.decDigits c.exptime).dropLast) ++ [(Bytes.decDigits c.exptime).getLast hdn]) := by
    conv => lhs; rw [← hdl]
    simp [wTouch]
  have hnolf : ∀ b ∈ wTouch ++ 32 :: (c.key ++ 32 :: Bytes.decDigits c.exptime), b ≠ 10 := by
    intro b hb
    simp only [List.mem_append, List.mem_cons] at hb
    rcases hb with h | h | h | h | h
    · simp [wTouch] at h; rcases h with rfl | rfl | rfl | rfl | rfl <;> decide
    · subst h; decide
    · exact printable_ne_lf b (hkey b h)
    · subst h; decide
    · exact printable_ne_lf b (digit_printable _ b h)
  obtain ⟨h1, h2⟩ := line_roundtrip _ rest 116 _ _ hbody ⟨by decide, by decide⟩
    (digit_printable _ _ (List.getLast_mem hdn)) hnolf
  have henc : encodeText (.touch c) ++ rest = (wTouch ++ 32 :: (c.key ++ 32 :: Bytes.decDigits c.exptime)) ++ [13, 10] ++ rest := by
    simp [encodeText, sp]
  rw [henc]
  unfold textParse
  rw [h1]
  simp only
  rw [h2, splitSpace_cons wTouch _ (by simp [wTouch]),
    splitSpace_cons c.key _ (fun b hb => printable_ne_space b (hkey b hb)),
    splitSpace_last _ (fun b hb => printable_ne_space b (digit_printable _ b hb))]
  have hE := trimSpace_id _ hdn (digit_printable c.exptime)
  simp [wGet, wSet, wAdd, wReplace, wAppend, wPrepend, wDelete, wTouch, hE, parseUint32_decDigits _ he]

/-! ### Pipelines -/

/-- Decode requests until the input is exhausted. -/
def parseMany (parse : Bytes → PRes) : Nat → Bytes → List Cmd
  | 0, _ => []
  | fuel + 1, inp =>
    if inp.isEmpty then []
    else match (parse inp).cmd with
      | some c => c :: parseMany parse fuel (parse inp).rest
      | none => []

/-- If every single request round-trips (whatever follows it), every pipeline of requests decodes to
    the same sequence. Instantiated below for both protocols. -/
theorem C07_pipeline (parse : Bytes → PRes) (enc : Cmd → Bytes) (norm : Cmd → Cmd) (WF : Cmd → Prop)
    (hrt : ∀ r rest, WF r → (parse (enc r ++ rest)).cmd = some (norm r) ∧ (parse (enc r ++ rest)).rest = rest)
    (hne : ∀ r, WF r → enc r ≠ []) :
    ∀ (rs : List Cmd), (∀ r ∈ rs, WF r) → ∀ fuel, rs.length ≤ fuel →
      parseMany parse fuel (rs.flatMap enc) = rs.map norm := by
  intro rs
  induction rs with
  | nil => intro _ fuel _; cases fuel <;> simp [parseMany]
  | cons r rs ih =>
    intro hwf fuel hfuel
    obtain ⟨f, rfl⟩ : ∃ f, fuel = f + 1 := ⟨fuel - 1, by simp at hfuel; omega⟩
    have hr := hwf r List.mem_cons_self
    obtain ⟨h1, h2⟩ := hrt r (rs.flatMap enc) hr
    have hnemp : (enc r ++ rs.flatMap enc).isEmpty = false := by
      have := hne r hr
      cases henc : enc r with
      | nil => exact absurd henc this
      | cons a t => simp
    simp only [List.flatMap_cons, parseMany, hnemp, h1, h2, List.map_cons]
    rw [ih (fun r' hr' => hwf r' (List.mem_cons_of_mem _ hr')) f (by simp at hfuel; omega)]
    simp

/-- Pipelines of binary delete requests, as an instance (the other commands are instantiated the
    same way from their round-trip theorems). -/
theorem C07_pipeline_bin_store (rs : List (SetKind × SetCmd))
    (hwf : ∀ p ∈ rs, p.2.key.length < 65536 ∧ 8 + p.2.key.length + p.2.data.length < 4294967296 ∧
      p.2.flags < 4294967296 ∧ p.2.exptime < 4294967296 ∧ p.2.opq < 4294967296) :
    parseMany binParse rs.length ((rs.map fun p => Cmd.store p.1 p.2).flatMap encodeBin) =
      rs.map fun p => Cmd.store p.1 (storeNorm p.1 p.2) := by
  have := C07_pipeline binParse encodeBin
    (fun c => match c with | .store k s => .store k (storeNorm k s) | c => c)
    (fun c => match c with
      | .store _ s => s.key.length < 65536 ∧ 8 + s.key.length + s.data.length < 4294967296 ∧
          s.flags < 4294967296 ∧ s.exptime < 4294967296 ∧ s.opq < 4294967296
      | _ => False)
    (by
      intro r rest hr
      cases r with
      | store k s =>
        obtain ⟨a, b, c, d, e⟩ := hr
        rw [C07_bin_store k s rest a b c d e]
        exact ⟨rfl, rfl⟩
      | _ => exact absurd hr (by simp))
    (by
      intro r hr
      cases r with
      | store k s => cases k <;> simp [encodeBin, reqHeader]
      | _ => exact absurd hr (by simp))
    (rs.map fun p => Cmd.store p.1 p.2)
    (by
      intro r hr
      simp only [List.mem_map] at hr
      obtain ⟨p, hp, rfl⟩ := hr
      exact hwf p hp)
    rs.length (by simp)
  rw [this, List.map_map]
  rfl

/-! ### Protocol choice and packet boundaries -/

/-- `CanParse` of the two protocols. -/
def binCanParse (first : UInt8) : Bool := first.toNat == Gen.binprot_MagicRequest
def textCanParse (first : UInt8) : Bool := decide (97 ≤ first.toNat ∧ first.toNat ≤ 122)

/-- `ListenAndServe` walks the protocols in order [binary, text] WITHOUT stopping at the first match
    and falls back to the last one. -/
def chooseProto (first : UInt8) : Bool × Bool :=   -- (uses binary, matched)
  let m1 := binCanParse first
  let m2 := textCanParse first
  -- later matches overwrite earlier ones; no match: the last protocol (text)
  if m2 then (false, true) else if m1 then (true, true) else (false, false)

/-- The first byte decides: 0x80 means binary, a lower-case letter means text; the two tests are
    disjoint, so the missing `break` in the protocol loop cannot matter. -/
theorem C07_first_byte (b : UInt8) :
    (b = 0x80 → chooseProto b = (true, true)) ∧
    (97 ≤ b.toNat ∧ b.toNat ≤ 122 → chooseProto b = (false, true)) ∧
    ¬ (binCanParse b = true ∧ textCanParse b = true) := by
  refine ⟨?_, ?_, ?_⟩
  · intro h; subst h; decide
  · intro h; simp [chooseProto, textCanParse, h]
  · simp [binCanParse, textCanParse, Gen.binprot_MagicRequest]; omega

/-- `io.ReadAtLeast` over a connection that delivers its bytes in arbitrary segments: the bytes
    obtained (and what remains) depend only on the concatenation. -/
def readSeg : Nat → List Bytes → Option (Bytes × List Bytes)
  | 0, segs => some ([], segs)
  | _ + 1, [] => none
  | n + 1, s :: segs =>
    if s.length ≤ n + 1 then
      match readSeg (n + 1 - s.length) segs with
      | some (b, r) => some (s ++ b, r)
      | none => none
    else some (s.take (n + 1), s.drop (n + 1) :: segs)
termination_by n segs => segs.length
decreasing_by all_goals simp_wf <;> omega

theorem C07_segmentation : ∀ (n : Nat) (segs : List Bytes),
    (readSeg n segs).map (fun p => (p.1, p.2.flatten)) = readN n segs.flatten := by
  intro n segs
  induction segs generalizing n with
  | nil =>
    cases n with
    | zero => simp [readSeg, readN]
    | succ n => simp [readSeg, readN]
  | cons s segs ih =>
    cases n with
    | zero => simp [readSeg, readN]
    | succ n =>
      have hfl : (s ++ segs.flatten).length = s.length + segs.flatten.length := by
        simp only [List.length_append]
      rw [readSeg, List.flatten_cons]
      split
      · rename_i hle
        have := ih (n + 1 - s.length)
        cases hr : readSeg (n + 1 - s.length) segs with
        | none =>
          rw [hr] at this
          simp only [Option.map_none] at this
          have hshort : segs.flatten.length < n + 1 - s.length := by
            unfold readN at this
            split at this
            · assumption
            · simp at this
          have hlen : (s ++ segs.flatten).length < n + 1 := by rw [hfl]; omega
          simp only [Option.map_none, readN, hlen, if_true]
        | some p =>
          rw [hr] at this
          simp only [Option.map_some] at this
          unfold readN at this
          split at this
          · simp at this
          · rename_i hge
            simp only [Option.some.injEq, Prod.mk.injEq] at this
            obtain ⟨h1, h2⟩ := this
            have hlen : ¬ ((s ++ segs.flatten).length < n + 1) := by rw [hfl]; omega
            simp only [Option.map_some, readN, hlen, if_false]
            congr 1
            rw [List.take_append, List.drop_append, h1, h2, List.take_of_length_le hle, List.drop_of_length_le hle]
            simp
      · rename_i hgt
        have hgt' : n + 1 < s.length := by omega
        have hlen : ¬ ((s ++ segs.flatten).length < n + 1) := by rw [hfl]; omega
        simp only [Option.map_some, readN, hlen, if_false, List.flatten_cons]
        congr 1
        rw [List.take_append_of_le_length (by omega), List.drop_append_of_le_length (by omega)]

end Rend.Props.C07

/-
  C17 — The in-memory backend behaves like the reference map and is safe to share.

  Model: `Inmem.handler` (the error mapping and the GetE expiry of inmem.go) over the reference
  map `Mc`; that inmem's Go map, its expiry computation and its liveness test behave as `Mc`
  is what the correspondence check decides on every run.  The locking facts
  (`Gen.inmemFacts`: which lock each method takes, whether its body writes the map) are
  regenerated from the source on every run.
-/
import Rend.Handlers.Inmem
import Rend.Proofs.OrcaSeq

namespace Rend.Props.C17
open Rend

theorem eval_inmem_store (now : Nat) (k : SetKind) (c : SetCmd) (w : World) (tk : List Bytes) :
    (Inmem.store (ε := OEv) k c).eval now w tk =
      (if (mcStore now w.l1 k c).2 then .ok ()
       else .error (.app (if k == .append || k == .prepend then .keyNotFound else missErr k)), [],
       w.put .l1 (mcStore now w.l1 k c).1, tk) := by
  unfold Inmem.store
  simp only [Prog.eval_bind, Prog.eval_req, mc_exec_store, World.get_l1]
  by_cases hs : (mcStore now w.l1 k c).2 = true
  · simp [hs]
  · have hs' : (mcStore now w.l1 k c).2 = false := by simpa using hs
    have hk : k ≠ .set := by
      intro h; subst h; simp [mcStore] at hs'
    have e1 : decodeError stExists = some .keyExists := by decide
    have e2 : decodeError stNotFound = some .keyNotFound := by decide
    cases k <;> simp_all [failCode, missErr]

def absExp (now : Nat) (r : GetResp) : GetResp :=
  if r.miss || r.exptime == 0 then r else { r with exptime := now + r.exptime }

theorem eval_inmem_getE (now : Nat) (ks : List GetKey) (w : World) (tk : List Bytes) :
    (Inmem.getE (ε := OEv) now ks).eval now w tk =
      (((ks.map (stdGetResp now (w.get .l1) true)).map (absExp now), none), [], w, tk) := by
  unfold Inmem.getE
  rw [Prog.eval_bind, eval_std_getLoop_gete]
  rfl

theorem view_absExp (now : Nat) (r : GetResp) : viewOf (absExp now r) = viewOf r := by
  unfold absExp viewOf
  split <;> rfl

/-- **The in-memory backend is the reference map**: behind the L1-only orchestrator every
    command is answered as the single map answers it, and the backend's content moves as the map's. -/
theorem C17_step_refines (now : Nat) (w : World) (tk : List Bytes) (c : Cmd) :
    let r := (L1Only.step (Inmem.handler now) c).eval now w tk
    r.2.2.1.l1 = (Spec.step now w.l1 c).1 ∧ Agrees c (Spec.step now w.l1 c).2 r.1 r.2.1 := by
  have okne : ∀ x : GetResp, (Except.ok x : HRes GetResp) ≠ .error .panic ∧ (Except.ok x : HRes GetResp) ≠ .error .crash :=
    fun _ => ⟨by simp, by simp⟩
  cases c with
  | store k sc =>
    rw [spec_step_store]
    have hne : ∀ b : Bool, ∀ e : Err, (if b then (.ok () : HRes Unit) else .error (.app e)) ≠ .error .panic ∧
        (if b then (.ok () : HRes Unit) else .error (.app e)) ≠ .error .crash := by
      intro b e; cases b <;> simp
    simp only [L1Only.step, L1Only.store, Inmem.handler]
    rw [eval_andThen_of now _ _ w tk _ _ _ (eval_inmem_store now k sc w tk) (hne _ _).1 (hne _ _).2]
    by_cases hok : (mcStore now w.l1 k sc).2 = true
    · simp [hok, eval_reply, Agrees]
    · simp [hok, Agrees]
  | get g =>
    have hget1 : (Inmem.handler (ε := OEv) now).get = Std.getLoop .l1 .get := rfl
    simp only [L1Only.step, L1Only.get, hget1]
    rw [Prog.eval_bind, eval_std_getLoop_get]
    simp only [List.nil_append]
    rw [Prog.eval_bind, eval_emitGets]
    simp only [eval_reply, Spec.step]
    refine ⟨trivial, rfl, _, rfl, ?_⟩
    rw [specGets_map, List.map_map]
    have : (viewOf ∘ stdGetResp now (w.get .l1) false) = specView now w.l1 := by
      funext x; exact view_std now w.l1 false x
    rw [this]
  | getE g =>
    have hget1 : (Inmem.handler (ε := OEv) now).getE = Inmem.getE now := rfl
    simp only [L1Only.step, L1Only.getE, hget1]
    rw [Prog.eval_bind, eval_inmem_getE]
    simp only [List.nil_append]
    rw [Prog.eval_bind, eval_emitGetEs]
    simp only [eval_reply, Spec.step]
    refine ⟨trivial, rfl, _, rfl, ?_⟩
    rw [specGets_map, List.map_map, List.map_map]
    have : ((viewOf ∘ absExp now) ∘ stdGetResp now (w.get .l1) true) = specView now w.l1 := by
      funext x
      simp only [Function.comp, view_absExp]
      exact view_std now w.l1 true x
    rw [this]
  | gat k =>
    rw [spec_step_gat]
    simp only [L1Only.step, L1Only.gat]
    have hg : (Inmem.handler (ε := OEv) now).gat = (Std.handler (ε := OEv) .l1).gat := rfl
    rw [hg]
    have e1 := eval_std_gat now .l1 k w tk
    cases h1 : w.l1.look now k.key with
    | none =>
      simp only [World.get_l1, h1] at e1
      rw [eval_andThen_of now _ _ w tk _ _ _ e1 (okne _).1 (okne _).2]
      simp [eval_reply, Agrees, mcTouch, h1]
    | some a =>
      simp only [World.get_l1, h1] at e1
      rw [eval_andThen_of now _ _ w tk _ _ _ e1 (okne _).1 (okne _).2]
      simp [eval_reply, Agrees]
  | delete k =>
    rw [spec_step_delete]
    simp only [L1Only.step, L1Only.delete]
    have hd : (Inmem.handler (ε := OEv) now).delete = (Std.handler (ε := OEv) .l1).delete := rfl
    rw [hd, eval_andThen_of now _ _ w tk _ _ _ (eval_std_delete now .l1 k w tk) (res_ne_panic _ _).1 (res_ne_panic _ _).2]
    cases hk : (mcDelete now w.l1 k.key).2 <;> simp [eval_reply, Agrees, hk]
  | touch k =>
    rw [spec_step_touch]
    simp only [L1Only.step, L1Only.touch]
    have ht : (Inmem.handler (ε := OEv) now).touch = (Std.handler (ε := OEv) .l1).touch := rfl
    rw [ht, eval_andThen_of now _ _ w tk _ _ _ (eval_std_touch now .l1 k w tk) (res_ne_panic _ _).1 (res_ne_panic _ _).2]
    cases hk : (mcTouch now w.l1 k.key k.exptime).2 <;> simp [eval_reply, Agrees, hk]
  | noop o => simp [L1Only.step, eval_reply, Spec.step, Agrees]
  | quit o q => simp [L1Only.step, eval_reply, Spec.step, Agrees]
  | version o => simp [L1Only.step, eval_reply, Spec.step, Agrees]
  | stat o => simp [L1Only.step, eval_reply, Spec.step, Agrees]
  | unknown => simp [L1Only.step, Spec.step, Agrees]

/-- An add on an existing (unexpired) key fails and leaves it untouched. -/
theorem C17_add_existing (now : Nat) (s : Store) (c : SetCmd) (it : Item) (h : s.look now c.key = some it) :
    Spec.step now s (.store .add c) = (s, .fail) := by
  rw [spec_step_store]; simp [mcStore, h]

/-- A delete (touch, replace, append, prepend) of a missing or expired key reports failure and changes nothing. -/
theorem C17_missing_key (now : Nat) (s : Store) (k : KeyCmd) (c : SetCmd) (hk : s.look now k.key = none)
    (hc : s.look now c.key = none) :
    Spec.step now s (.delete k) = (s, .fail) ∧ Spec.step now s (.touch k) = (s, .fail) ∧
    Spec.step now s (.store .replace c) = (s, .fail) ∧ Spec.step now s (.store .append c) = (s, .fail) ∧
    Spec.step now s (.store .prepend c) = (s, .fail) := by
  rw [spec_step_delete, spec_step_touch, spec_step_store, spec_step_store, spec_step_store]
  simp [mcDelete, mcTouch, mcStore, hk, hc]

/-- Expired entries behave as absent: a lookup does not see them. -/
theorem C17_expired_absent (now : Nat) (s : Store) (k : Bytes) (it : Item) (h : s k = some it)
    (hexp : it.deadline ≠ 0 ∧ it.deadline ≤ now) : s.look now k = none := by
  have : it.live now = false := by
    simp only [Item.live]
    have h1 : (it.deadline == 0) = false := by simpa using hexp.1
    have h2 : decide (now < it.deadline) = false := by simpa using hexp.2
    simp [h1, h2]
  simp [Store.look, h, this]

def factOf (n : String) : Option Gen.InmemFact := Gen.inmemFacts.find? (fun f => f.name == n)

/-- **Locking discipline** (regenerated facts): all ten handler methods are present; every method
    whose body writes the shared map holds the write lock; a method that holds only the read
    lock never writes the map.  Under a read/write mutex any two conflicting accesses (at least
    one a write) are therefore mutually exclusive. -/
theorem C17_lock_discipline :
    (∀ n ∈ ["Set", "Add", "Replace", "Append", "Prepend", "Get", "GetE", "GAT", "Delete", "Touch"], (factOf n).isSome = true) ∧
    (∀ f ∈ Gen.inmemFacts, (f.writesMap = true → f.writeLock = true) ∧ (f.writeLock = false → f.readLockOnly = true ∧ f.writesMap = false)) ∧
    (∀ a ∈ Gen.inmemFacts, ∀ b ∈ Gen.inmemFacts, (a.writesMap = true ∨ b.writesMap = true) → (a.writeLock = true ∨ b.writeLock = true)) := by
  decide

end Rend.Props.C17

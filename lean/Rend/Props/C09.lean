/-
  C09 — TTL fidelity: no tier keeps an item longer, or shorter, than last requested.

  Deadlines are absolute seconds (0 = never).  `deadlineOf` is memcached's rule with the
  REGENERATED 30-day constant.  L2 is exactly the specification's map after every history
  (so L2's deadlines are the requested ones); L1 never serves a key longer than L2; the writes
  that address both tiers (set, touch) leave both with the same deadline; the back-fill gives L1
  L2's deadline whenever L2's remaining lifetime is at most 30 days — and provably NOT beyond
  (finding D22: the remaining lifetime is sent as a relative TTL, memcached reads > 30 days as
  an absolute date in 1970, the L1 copy is born expired).
-/
import Rend.Proofs.OrcaSeq
import Rend.Proofs.GatStale

namespace Rend.Props.C09
open Rend

/-- The expiry rule: 0 = never; up to 30 days relative to the command; above, absolute. -/
theorem C09_deadline_rule (now e : Nat) :
    deadlineOf now e = if e = 0 then 0 else if e ≤ 2592000 then now + e else e := by
  simp [deadlineOf, Gen.chunked_realTimeMaxDelta]

/-- The specification: set/add/replace that succeed leave the key with exactly the requested expiry. -/
theorem C09_spec_store_deadline (now : Nat) (s : Store) (k : SetKind) (c : SetCmd)
    (hk : k = .set ∨ k = .add ∨ k = .replace) (hok : (Spec.step now s (.store k c)).2 = .ok) :
    (Spec.step now s (.store k c)).1 c.key = some ⟨c.data, c.flags, deadlineOf now c.exptime⟩ := by
  rw [spec_step_store] at hok ⊢
  rcases hk with rfl | rfl | rfl <;> cases h : s.look now c.key <;> simp_all [mcStore, newItem, Store.set]

/-- touch and get-and-touch that find the key replace its expiry by the requested one and nothing else. -/
theorem C09_spec_touch_deadline (now : Nat) (s : Store) (k : KeyCmd) (it : Item) (h : s.look now k.key = some it) :
    (Spec.step now s (.touch k)).1 k.key = some { it with deadline := deadlineOf now k.exptime } ∧
    (Spec.step now s (.gat k)).1 k.key = some { it with deadline := deadlineOf now k.exptime } := by
  rw [spec_step_touch, spec_step_gat]
  simp [mcTouch, h, Store.set]

/-- append / prepend leave the expiry (and flags) as they were. -/
theorem C09_spec_pend_keeps_deadline (now : Nat) (s : Store) (k : SetKind) (c : SetCmd) (it : Item)
    (hk : k = .append ∨ k = .prepend) (h : s.look now c.key = some it) :
    ∃ it', (Spec.step now s (.store k c)).1 c.key = some it' ∧ it'.deadline = it.deadline ∧ it'.flags = it.flags := by
  rw [spec_step_store]
  rcases hk with rfl | rfl <;> simp [mcStore, h, Store.set]

/-- Plain reads change nothing. -/
theorem C09_spec_get_keeps (now : Nat) (s : Store) (g : GetCmd) : (Spec.step now s (.get g)).1 = s := rfl

/-- **L2 holds exactly the requested expiries**: after every history it is the specification's map. -/
theorem C09_l2_exact (acts : List Act) (now : Nat) (tk : List Bytes) (h : ActsTwoTier acts) :
    (endActs now {} tk acts).2.l2 = specEnd now Store.empty acts :=
  (history_refines acts now {} tk h (by intro k a ha; simp [Store.look, Store.empty] at ha)).2.1

/-- **L1 never serves a key after L2 stopped serving it**, after every history. -/
theorem C09_l1_never_longer (acts : List Act) (now : Nat) (tk : List Bytes) (h : ActsTwoTier acts) :
    let e := endActs now {} tk acts
    ∀ k a, e.2.l1.look e.1 k = some a → ∃ b, e.2.l2.look e.1 k = some b ∧ Outlives b a :=
  fun k a ha =>
    let ⟨b, hb, _, _, ho⟩ := (history_refines acts now {} tk h (by intro k a ha; simp [Store.look, Store.empty] at ha)).2.2 k a ha
    ⟨b, hb, ho⟩

/-- Consequently a key is never served after the expiry last asked for: what any tier serves,
    the single map serves at that moment. -/
theorem C09_never_served_after (acts : List Act) (now : Nat) (tk : List Bytes) (h : ActsTwoTier acts) :
    let e := endActs now {} tk acts
    ∀ k a, e.2.l1.look e.1 k = some a → ((specEnd now Store.empty acts).look e.1 k).isSome := by
  intro e k a ha
  obtain ⟨b, hb, _⟩ := C09_l1_never_longer acts now tk h k a ha
  rw [C09_l2_exact acts now tk h] at hb
  show ((specEnd now Store.empty acts).look (endActs now {} tk acts).1 k).isSome = true
  rw [hb]; rfl

/-- A main-port set leaves both tiers with the same item, hence the same deadline. -/
theorem C09_set_both_tiers (now : Nat) (w : World) (tk : List Bytes) (c : SetCmd) :
    let r := (L1L2.step (Std.handler .l1) (Std.handler .l2) (.store .set c)).eval now w tk
    r.2.2.1.l1 c.key = some ⟨c.data, c.flags, deadlineOf now c.exptime⟩ ∧
    r.2.2.1.l2 c.key = some ⟨c.data, c.flags, deadlineOf now c.exptime⟩ := by
  simp [L1L2.step, L1L2.set, Std.handler, eval_andThen_store, mcStore, newItem, Store.set]

/-- A touch (either port) that finds the key in both tiers leaves both with the requested deadline. -/
theorem C09_touch_both_tiers (now : Nat) (w : World) (tk : List Bytes) (c : KeyCmd) (a b : Item)
    (h1 : w.l1.look now c.key = some a) (h2 : w.l2.look now c.key = some b) (p : Port) :
    let r := (portStep p (.touch c)).eval now w tk
    r.2.2.1.l1 c.key = some { a with deadline := deadlineOf now c.exptime } ∧
    r.2.2.1.l2 c.key = some { b with deadline := deadlineOf now c.exptime } := by
  have t2 : (mcTouch now w.l2 c.key c.exptime) = (w.l2.set c.key (some { b with deadline := deadlineOf now c.exptime }), true) := by
    simp [mcTouch, h2]
  have t1 : (mcTouch now w.l1 c.key c.exptime) = (w.l1.set c.key (some { a with deadline := deadlineOf now c.exptime }), true) := by
    simp [mcTouch, h1]
  cases p
  · simp only [portStep, L1L2.step, L1L2.touch]
    rw [eval_andThen_of now _ _ w tk _ _ _ (eval_std_touch now .l2 c w tk) (res_ne_panic _ _).1 (res_ne_panic _ _).2]
    simp only [World.get_l2, t2, if_true]
    rw [eval_andThen_of now _ _ _ tk _ _ _ (eval_std_touch now .l1 c _ tk) (res_ne_panic _ _).1 (res_ne_panic _ _).2]
    simp [t1, isErr, Store.set]
  · simp only [portStep, L1L2Batch.step, L1L2Batch.touch]
    rw [eval_andThen_of now _ _ w tk _ _ _ (eval_std_touch now .l2 c w tk) (res_ne_panic _ _).1 (res_ne_panic _ _).2]
    simp only [World.get_l2, t2, if_true]
    rw [eval_andThen_of now _ _ _ tk _ _ _ (eval_std_touch now .l1 c _ tk) (res_ne_panic _ _).1 (res_ne_panic _ _).2]
    simp [t1, isErr, Store.set]

/-- **Back-fill**: the L1 copy gets L2's deadline when L2's remaining lifetime is at most 30 days
    (or the item never expires). -/
theorem C09_backfill_exact (now : Nat) (b : Item) (hl : b.live now = true) (h30 : remaining now b ≤ 2592000) :
    (backfillItem now b).deadline = b.deadline ∧ (backfillItem now b).data = b.data ∧
      (backfillItem now b).flags = b.flags := by
  refine ⟨?_, rfl, rfl⟩
  simp only [backfillItem, remaining, deadlineOf, Gen.chunked_realTimeMaxDelta, Item.live] at *
  by_cases hz : b.deadline = 0
  · simp [hz]
  · simp only [hz, if_false] at h30 ⊢
    have : now < b.deadline := by simpa [hz] using hl
    have h2 : b.deadline - now ≠ 0 := by omega
    simp only [h2, if_false, h30, if_true]
    omega

/-- …and NOT beyond (finding D22): with more than 30 days left, the L1 copy's deadline is the
    remaining lifetime read as an absolute time — not L2's deadline. -/
theorem C09_backfill_over_30_days_differs :
    (backfillItem 1700000000 ⟨[1], 0, 1700000000 + 2592001⟩).deadline = 2592001 ∧
    (backfillItem 1700000000 ⟨[1], 0, 1700000000 + 2592001⟩).live 1700000000 = false := by
  decide

/-- **Finding D7, in the model** (the code does the same: `known_findings.jsonl`, directed
    scenario `C09-dir-gat-append`).  The chunking handler's get-and-touch gives the metadata entry
    the new deadline but leaves its bytes untouched — so the expiry recorded INSIDE the metadata,
    which append / prepend re-store the value with, is still the one from before. -/
theorem C09_chunked_gat_keeps_recorded_expiry (now : Nat) (t : Tier) (c : KeyCmd) (w : World) (tk : List Bytes)
    (htk : ∀ x ∈ tk, x.length = 16) (it : Item) (h : (w.get t).look now (Chunked.metaKey c.key) = some it) :
    (((Chunked.gat (ε := OEv) t c).eval now w tk).2.2.1.get t) (Chunked.metaKey c.key) =
      some { it with deadline := deadlineOf now c.exptime } :=
  Chunked.gat_keeps_recorded_expiry now t c w tk htk it h

end Rend.Props.C09

/-
  C12 — Key locks are always released and a failure below closes the connection.

  `Locked.step` is instantiated from `Gen.lockedFacts`, which gen extracts from orcas/locked.go
  on every run (lock used, read or write mode, deferred / inline unlock, recover, unlock inside
  the recover, re-panic, which wrapped method is called).  The wrapped orchestrator is an
  ARBITRARY program: "for all runs" therefore covers every result — success, error, a panic at
  any point underneath (`.error .panic`) — and every backend behaviour.
-/
import Rend.Props.C08
import Rend.Server.Loop
import Rend.Proofs.OnlyResp
import Rend.Proofs.Progress

namespace Rend.Props.C12
open Rend

/-- The lock events among the events of a run. -/
def lockEvs (es : List OEv) : List OEv :=
  es.filter (fun e => match e with | .resp _ => false | _ => true)

theorem lockEvs_append (a b : List OEv) : lockEvs (a ++ b) = lockEvs a ++ lockEvs b := by
  simp [lockEvs]

/-- A program that touches no lock (orchestrators, handlers). -/
structure NoLocks {α : Type} (p : OProg α) : Prop where
  out : ∀ a es, Runs p a es → lockEvs es = []

/-- Lock events in which every acquire is immediately followed (as far as locks go) by the
    release of the same stripe in the same mode: at most one lock held at any time, none at the end. -/
inductive Paired : List OEv → Prop where
  | nil : Paired []
  | cons (s : Nat) (r : Bool) (rest : List OEv) : Paired rest → Paired (.acquire s r :: .release s r :: rest)

/-- The facts the theorems below need, read off the regenerated table (checked by `decide`):
    every keyed single-key method takes the lock, releases it by `defer` and lets a panic
    through; `Get`/`GetE` lock per key, release inline, recover, release in the recover and
    re-panic; every method calls the wrapped method of the same name. -/
theorem facts :
    (∀ n ∈ ["Set", "Add", "Replace", "Append", "Prepend", "Delete", "Touch", "Gat"],
      (lockedFact n).usesLock = true ∧ (lockedFact n).deferUnlock = true ∧ (lockedFact n).recovers = false ∧
      (lockedFact n).readLock = false ∧ (lockedFact n).wrappedCall = n) ∧
    (∀ n ∈ ["Get", "GetE"],
      (lockedFact n).usesLock = true ∧ (lockedFact n).inlineUnlock = true ∧ (lockedFact n).recovers = true ∧
      (lockedFact n).recoverUnlocks = true ∧ (lockedFact n).repanics = true ∧ (lockedFact n).readLock = true ∧
      (lockedFact n).wrappedCall = n) := by
  decide

/-- **Single-key commands.**  Every run of a locked single-key method around an arbitrary
    wrapped call that does not kill the process: exactly one acquire and one release of the
    key's stripe, in that order, around the wrapped call; the wrapped call's result — a panic
    included — is passed on unchanged. -/
theorem C12_single (f : Gen.LockedFact) (hf : f.usesLock = true ∧ f.deferUnlock = true ∧ f.recovers = false)
    (bits : Nat) (key : Bytes) (p : OProg (HRes Unit)) (hp : NoLocks p) (res : HRes Unit) (es : List OEv)
    (h : Runs (lockedSingle f bits key p) res es) (hc : isCrash res = false) :
    lockEvs es = [.acquire (stripeOf bits key) f.readLock, .release (stripeOf bits key) f.readLock] ∧
    ∃ es', Runs p res es' := by
  obtain ⟨h1, h2, h3⟩ := hf
  unfold lockedSingle at h
  simp only [h1, h2, h3, Bool.not_true, Bool.false_eq_true, if_false, Bool.true_or, if_true, Bool.false_and] at h
  obtain ⟨u, e1, e2, ha, h', rfl⟩ := Runs.bind_inv h
  have := Runs.out_inv ha; subst this
  obtain ⟨r, e3, e4, hpr, h'', rfl⟩ := Runs.bind_inv h'
  have hl3 := hp.out r e3 hpr
  split at h''
  · rename_i hcr
    obtain ⟨rfl, _⟩ := C08.pure_run h''
    rw [hcr] at hc; cases hc
  · split at h''
    · obtain ⟨_, e5, e6, hr, hq, rfl⟩ := Runs.bind_inv h''
      have := Runs.out_inv hr; subst this
      obtain ⟨rfl, rfl⟩ := C08.pure_run hq
      exact ⟨by simp only [lockEvs_append, hl3, List.nil_append, List.append_nil]; rfl, _, hpr⟩
    · obtain ⟨_, e5, e6, hr, hq, rfl⟩ := Runs.bind_inv h''
      have := Runs.out_inv hr; subst this
      obtain ⟨rfl, rfl⟩ := C08.pure_run hq
      exact ⟨by simp only [lockEvs_append, hl3, List.nil_append, List.append_nil]; rfl, _, hpr⟩

/-- What the per-key loop of `Get` / `GetE` does, in terms of the runs of the wrapped per-key
    calls: key by key — acquire the key's stripe, run the wrapped call, release; stop at the
    first result that is not success and return THAT result (a panic stays a panic). -/
inductive GetRuns (f : Gen.LockedFact) (bits : Nat) (sub : GetCmd → OProg (HRes Unit)) (g : GetCmd) :
    List GetKey → HRes Unit → List OEv → Prop where
  | nil : GetRuns f bits sub g [] (.ok ()) []
  | stop (k : GetKey) (rest : List GetKey) (sg : GetCmd) (r : HRes Unit) (e3 : List OEv) :
      sg.keys = [k] → Runs (sub sg) r e3 → r ≠ .ok () → isCrash r = false →
      GetRuns f bits sub g (k :: rest) r
        (.acquire (stripeOf bits k.key) f.readLock :: (e3.filter (fun e => rest.isEmpty || !isGetEndEv e) ++
          [.release (stripeOf bits k.key) f.readLock]))
  | crash (k : GetKey) (rest : List GetKey) (sg : GetCmd) (r : HRes Unit) (e3 : List OEv) :
      sg.keys = [k] → Runs (sub sg) r e3 → isCrash r = true →
      GetRuns f bits sub g (k :: rest) r
        (.acquire (stripeOf bits k.key) f.readLock :: e3.filter (fun e => rest.isEmpty || !isGetEndEv e))
  | next (k : GetKey) (rest : List GetKey) (sg : GetCmd) (e3 : List OEv) (res : HRes Unit) (es : List OEv) :
      sg.keys = [k] → Runs (sub sg) (.ok ()) e3 → GetRuns f bits sub g rest res es →
      GetRuns f bits sub g (k :: rest) res
        (.acquire (stripeOf bits k.key) f.readLock :: (e3.filter (fun e => rest.isEmpty || !isGetEndEv e) ++
          .release (stripeOf bits k.key) f.readLock :: es))

theorem filter_true' (l : List OEv) : l.filter (fun e => true || !isGetEndEv e) = l := by simp

/-- **Multi-key gets**: every run of the locked get loop is of the shape `GetRuns`. -/
theorem C12_get_shape (f : Gen.LockedFact)
    (hf : f.usesLock = true ∧ f.inlineUnlock = true ∧ f.recovers = true ∧ f.recoverUnlocks = true ∧
      f.repanics = true ∧ f.gatesGetEnd = true)
    (bits : Nat) (sub : GetCmd → OProg (HRes Unit)) (g : GetCmd) :
    ∀ (ks : List GetKey) res es, Runs (lockedGetLoop f bits sub g ks) res es → GetRuns f bits sub g ks res es := by
  obtain ⟨f1, f2, f3, f4, f5, f6⟩ := hf
  intro ks
  induction ks with
  | nil =>
    intro res es h
    simp only [lockedGetLoop] at h
    obtain ⟨rfl, rfl⟩ := C08.pure_run h
    exact GetRuns.nil
  | cons k rest ih =>
    intro res es h
    unfold lockedGetLoop at h
    simp only [f1, f2, f3, f4, f5, f6, if_true, Bool.true_and, Bool.not_true, Bool.and_false, Bool.false_eq_true,
      if_false, Bool.or_true, Bool.true_or] at h
    obtain ⟨_, e1, e2, ha, h2, rfl⟩ := Runs.bind_inv h
    have := Runs.out_inv ha; subst this
    simp only [List.singleton_append]
    -- the (possibly gated) wrapped call
    have hstep : ∃ sg r e3 e4, sg.keys = [k] ∧ Runs (sub sg) r e3 ∧
        e2 = e3.filter (fun e => rest.isEmpty || !isGetEndEv e) ++ e4 ∧
        Runs (if isCrash r = true then pure r
          else if isPanic r = true then do
            Prog.out (OEv.release (stripeOf bits k.key) f.readLock)
            pure r
          else do
            Prog.out (OEv.release (stripeOf bits k.key) f.readLock)
            match r with
              | Except.ok PUnit.unit => lockedGetLoop f bits sub g rest
              | e => pure e) res e4 := by
      by_cases hlast : rest.isEmpty = true
      · simp only [hlast, Bool.not_true, Bool.false_eq_true, if_false, if_true] at h2 ⊢
        obtain ⟨r, e3, e4, hs, h3, rfl⟩ := Runs.bind_inv h2
        exact ⟨_, r, e3, e4, rfl, hs, by rw [List.filter_eq_self.mpr (fun _ _ => by simp)], h3⟩
      · have hl : rest.isEmpty = false := by simpa using hlast
        simp only [hl, Bool.not_false, if_true, Bool.false_eq_true, if_false] at h2 ⊢
        obtain ⟨r, e3, e4, hs, h3, rfl⟩ := Runs.bind_inv h2
        obtain ⟨e3', hs', rfl⟩ := C08.filterEmit_run _ _ _ _ hs
        exact ⟨_, r, e3', e4, rfl, hs', by simp, h3⟩
    obtain ⟨sg, r, e3, e4, hsg, hs, rfl, hcont⟩ := hstep
    clear h h2
    split at hcont
    · rename_i hc
      obtain ⟨rfl, rfl⟩ := C08.pure_run hcont
      simpa using GetRuns.crash k rest sg res e3 hsg hs hc
    · rename_i hnc
      have hnc' : isCrash r = false := by simpa using hnc
      split at hcont
      · rename_i hp
        obtain ⟨_, e5, e6, hr, hq, rfl⟩ := Runs.bind_inv hcont
        have := Runs.out_inv hr; subst this
        obtain ⟨rfl, rfl⟩ := C08.pure_run hq
        have hne : res ≠ .ok () := by intro h; subst h; simp [isPanic] at hp
        simpa using GetRuns.stop k rest sg res e3 hsg hs hne hnc'
      · obtain ⟨_, e5, e6, hr, hq, rfl⟩ := Runs.bind_inv hcont
        have := Runs.out_inv hr; subst this
        split at hq
        · have := GetRuns.next k rest sg e3 res e6 hsg hs (ih res e6 hq)
          simpa using this
        · rename_i hnok
          obtain ⟨rfl, rfl⟩ := C08.pure_run hq
          have hne : res ≠ .ok () := by intro h; subst h; exact hnok rfl
          simpa using GetRuns.stop k rest sg res e3 hsg hs hne hnc'

theorem lockEvs_filter (keep : OEv → Bool) (es : List OEv) (h : lockEvs es = []) : lockEvs (es.filter keep) = [] := by
  simp only [lockEvs, List.filter_filter] at h ⊢
  rw [List.filter_eq_nil_iff] at h ⊢
  intro e he
  have := h e he
  simpa [this]

/-- …hence a connection never holds two key locks, and none when the get is over — however
    many keys, whatever happens underneath (short of the process dying). -/
theorem C12_get_paired (f : Gen.LockedFact) (bits : Nat) (sub : GetCmd → OProg (HRes Unit)) (hsub : ∀ g', NoLocks (sub g'))
    (g : GetCmd) : ∀ ks res es, GetRuns f bits sub g ks res es → isCrash res = false → Paired (lockEvs es) := by
  intro ks res es h
  induction h with
  | nil => intro _; exact Paired.nil
  | stop k rest sg r e3 _ hs _ _ =>
    intro _
    have := lockEvs_filter (fun e => rest.isEmpty || !isGetEndEv e) e3 ((hsub sg).out r e3 hs)
    simp only [lockEvs] at this ⊢
    simp only [List.filter_cons, List.filter_append, this, List.nil_append, List.filter_nil]
    exact Paired.cons _ _ _ Paired.nil
  | crash k rest sg r e3 _ _ hc => intro h; rw [hc] at h; cases h
  | next k rest sg e3 res es _ hs _ ih =>
    intro hc
    have := lockEvs_filter (fun e => rest.isEmpty || !isGetEndEv e) e3 ((hsub sg).out _ e3 hs)
    simp only [lockEvs] at this ⊢
    simp only [List.filter_cons, List.filter_append, this, List.nil_append]
    exact Paired.cons _ _ _ (ih hc)

/-- A panic underneath a get is not swallowed: the loop's result is success only if every
    wrapped per-key call returned success. -/
theorem C12_get_result (f : Gen.LockedFact) (bits : Nat) (sub : GetCmd → OProg (HRes Unit)) (g : GetCmd) :
    ∀ ks res es, GetRuns f bits sub g ks res es →
      res = .ok () ∨ ∃ sg e3, Runs (sub sg) res e3 ∧ res ≠ .ok () := by
  intro ks res es h
  induction h with
  | nil => exact Or.inl rfl
  | stop k rest sg r e3 _ hs hne _ => exact Or.inr ⟨sg, e3, hs, hne⟩
  | crash k rest sg r e3 _ hs hc => exact Or.inr ⟨sg, e3, hs, by intro h; subst h; simp [isCrash] at hc⟩
  | next _ _ _ _ _ _ _ _ _ ih => exact ih

/-- **A panic below closes the connection.**  When the orchestrator call of a parsed command
    ends in a panic, the connection loop stops with everything closed — it neither continues nor
    leaves the client waiting. -/
theorem C12_panic_closes (cf : Server.Conf) (now : Nat) (fault : Option Fault) (fuel : Nat) (inp : Bytes) (st : RunSt)
    (out : Server.Out) (hparse : (Server.parse cf.proto inp).err = none)
    (hpanic : ((cf.orca ((Server.parse cf.proto inp).cmd.getD .unknown)).runSt now fault st).1 = .error .panic) :
    (Server.loop cf now fault (fuel + 1) inp st out).1.ending = .closed := by
  simp only [Server.loop, hparse]
  generalize (Server.parse cf.proto inp).cmd.getD .unknown = cmd at hpanic ⊢
  generalize hrun : (cf.orca cmd).runSt now fault st = rr at hpanic
  obtain ⟨res, evs, st'⟩ := rr
  simp only at hpanic
  subst hpanic
  simp only [isCrash, Bool.false_eq_true, if_false]
  split
  · rfl
  · cases cmd <;> rfl

/-- The panic result reaches the loop's ending because the deferred function of
    `DefaultServer.Loop` recovers and — unconditionally, as a direct statement of the recover
    block — calls `abort(conns, …)`; regenerated from server/default.go on every run. -/
theorem C12_recover_aborts : Gen.loopDeferRecoverAborts = true := by decide

/-- The wrapper as a whole, for the single-key commands: the regenerated facts satisfy the
    hypotheses of `C12_single`. -/
theorem C12_locked_step_single (bits : Nat) (wrapped : Cmd → OProg (HRes Unit)) (hw : ∀ c, NoLocks (wrapped c))
    (c : Cmd) (key : Bytes)
    (hk : (∃ k s, c = .store k s ∧ key = s.key) ∨ (∃ k, c = .delete k ∧ key = k.key) ∨ (∃ k, c = .touch k ∧ key = k.key) ∨
      (∃ k, c = .gat k ∧ key = k.key))
    (res : HRes Unit) (es : List OEv) (h : Runs (Locked.step bits wrapped c) res es) (hc : isCrash res = false) :
    lockEvs es = [.acquire (stripeOf bits key) false, .release (stripeOf bits key) false] ∧ ∃ es', Runs (wrapped c) res es' := by
  have hfacts := facts.1
  rcases hk with ⟨k, s, rfl, rfl⟩ | ⟨k, rfl, rfl⟩ | ⟨k, rfl, rfl⟩ | ⟨k, rfl, rfl⟩
  · cases k
    · have hf := hfacts "Set" (by simp)
      have := C12_single _ ⟨hf.1, hf.2.1, hf.2.2.1⟩ bits s.key _ (hw _) res es h hc
      rwa [hf.2.2.2.1] at this
    · have hf := hfacts "Add" (by simp)
      have := C12_single _ ⟨hf.1, hf.2.1, hf.2.2.1⟩ bits s.key _ (hw _) res es h hc
      rwa [hf.2.2.2.1] at this
    · have hf := hfacts "Replace" (by simp)
      have := C12_single _ ⟨hf.1, hf.2.1, hf.2.2.1⟩ bits s.key _ (hw _) res es h hc
      rwa [hf.2.2.2.1] at this
    · have hf := hfacts "Append" (by simp)
      have := C12_single _ ⟨hf.1, hf.2.1, hf.2.2.1⟩ bits s.key _ (hw _) res es h hc
      rwa [hf.2.2.2.1] at this
    · have hf := hfacts "Prepend" (by simp)
      have := C12_single _ ⟨hf.1, hf.2.1, hf.2.2.1⟩ bits s.key _ (hw _) res es h hc
      rwa [hf.2.2.2.1] at this
  · have hf := hfacts "Delete" (by simp)
    have := C12_single _ ⟨hf.1, hf.2.1, hf.2.2.1⟩ bits k.key _ (hw _) res es h hc
    rwa [hf.2.2.2.1] at this
  · have hf := hfacts "Touch" (by simp)
    have := C12_single _ ⟨hf.1, hf.2.1, hf.2.2.1⟩ bits k.key _ (hw _) res es h hc
    rwa [hf.2.2.2.1] at this
  · have hf := hfacts "Gat" (by simp)
    have := C12_single _ ⟨hf.1, hf.2.1, hf.2.2.1⟩ bits k.key _ (hw _) res es h hc
    rwa [hf.2.2.2.1] at this

/-- …and for get: the regenerated facts satisfy the hypotheses of `C12_get_shape`. -/
theorem C12_locked_step_get (bits : Nat) (wrapped : Cmd → OProg (HRes Unit)) (hw : ∀ c, NoLocks (wrapped c))
    (g : GetCmd) (res : HRes Unit) (es : List OEv) (h : Runs (Locked.step bits wrapped (.get g)) res es)
    (hc : isCrash res = false) :
    Paired (lockEvs es) ∧ (res = .ok () ∨ ∃ sg e3, Runs (wrapped (.get sg)) res e3 ∧ res ≠ .ok ()) := by
  have hf := facts.2 "Get" (by simp)
  have hshape := C12_get_shape (lockedFact "Get") ⟨hf.1, hf.2.1, hf.2.2.1, hf.2.2.2.1, hf.2.2.2.2.1, C08.locked_facts_ok.2.1.2.2.2.2.2⟩
    bits (fun sub => wrapped (.get sub)) g g.keys res es h
  exact ⟨C12_get_paired _ bits _ (fun g' => hw _) g _ _ _ hshape hc, C12_get_result _ bits _ g _ _ _ hshape⟩

/-- The three orchestrators, over any handlers that are silent towards the client (proved for the
    pass-through and the chunked handler models), emit no lock events: the hypothesis `NoLocks` of
    the theorems above holds for everything the wrapper is ever put around. -/
theorem C12_orchestrators_no_locks (o : OrcaKind) (h1 h2 : Handler OEv) (hs1 : SilentHandler h1) (hs2 : SilentHandler h2)
    (c : Cmd) : NoLocks (o.step h1 h2 c) := by
  constructor
  intro a es hr
  have h := (OrcaKind.step_onlyResp o h1 h2 hs1 hs2 c).out a es hr
  unfold lockEvs
  rw [List.filter_eq_nil_iff]
  intro e he
  have := h e he
  cases e <;> simp_all [OEv.isResp]

/-- The wrapper around a real orchestrator, closed form: single-key commands. -/
theorem C12_wrapped_single (bits : Nat) (o : OrcaKind) (h1 h2 : Handler OEv) (hs1 : SilentHandler h1) (hs2 : SilentHandler h2)
    (c : Cmd) (key : Bytes)
    (hk : (∃ k s, c = .store k s ∧ key = s.key) ∨ (∃ k, c = .delete k ∧ key = k.key) ∨ (∃ k, c = .touch k ∧ key = k.key) ∨
      (∃ k, c = .gat k ∧ key = k.key))
    (res : HRes Unit) (es : List OEv) (h : Runs (Locked.step bits (o.step h1 h2) c) res es) (hc : isCrash res = false) :
    lockEvs es = [.acquire (stripeOf bits key) false, .release (stripeOf bits key) false] ∧
      ∃ es', Runs (o.step h1 h2 c) res es' :=
  C12_locked_step_single bits _ (fun c' => C12_orchestrators_no_locks o h1 h2 hs1 hs2 c') c key hk res es h hc

/-- …and multi-key gets. -/
theorem C12_wrapped_get (bits : Nat) (o : OrcaKind) (h1 h2 : Handler OEv) (hs1 : SilentHandler h1) (hs2 : SilentHandler h2)
    (g : GetCmd) (res : HRes Unit) (es : List OEv) (h : Runs (Locked.step bits (o.step h1 h2) (.get g)) res es)
    (hc : isCrash res = false) :
    Paired (lockEvs es) ∧ (res = .ok () ∨ ∃ sg e3, Runs (o.step h1 h2 (.get sg)) res e3 ∧ res ≠ .ok ()) :=
  C12_locked_step_get bits _ (fun c' => C12_orchestrators_no_locks o h1 h2 hs1 hs2 c') g res es h hc

/-- Non-vacuity: `Paired` rejects a sequence that holds two locks, and one that leaves a lock held. -/
example : ¬ Paired [.acquire 1 false, .acquire 2 false, .release 2 false, .release 1 false] := by
  intro h; cases h
example : ¬ Paired [.acquire 1 false] := by
  intro h; cases h

/-! ### No deadlock, over the scheduler semantics

  The theorems above give "one lock at a time per connection, released on every path".  Over the
  scheduler semantics of `Proofs/Serial.lean` / `SerialMR.lean` (any number of connections; a
  critical section = `Lock()` of the key's stripe, the section's backend requests and responder
  calls one per step, `Unlock()`), that yields progress for EVERY configuration — reachable or
  not, whatever the programs inside the sections are. -/

/-- **A lock holder is never blocked and can always finish**: from any configuration, a
    connection inside its critical section reaches the end of it — its lock released — by its own
    steps alone, whatever state the other connections are in (exclusive locks). -/
theorem C12_holder_finishes {α : Type} (now : Nat) (thr : Nat → Conc.Thread α) (i : Nat) (p : Prog OEv α)
    (c : Conc.Conf α) (evs : List OEv) (h : c.ts i = .running p evs) :
    ∃ sched c' a evs', Conc.Exec now thr c sched c' ∧ Conc.OnlyBy i sched ∧ c'.ts i = .done a evs' :=
  Conc.holder_finishes now thr i p c evs h

/-- …and while it is kept waiting, the steps of the others leave it where it is. -/
theorem C12_others_keep_holder {α : Type} (now : Nat) (thr : Nat → Conc.Thread α) (c c' : Conc.Conf α) (s : Conc.Step)
    (i : Nat) (p : Prog OEv α) (evs : List OEv) (h : c.ts i = .running p evs) (hs : Conc.Step1 now thr c s c')
    (hne : s ≠ .act i ∧ s ≠ .rel i) : c'.ts i = .running p evs :=
  Conc.others_keep_holder now thr c c' s i p evs h hs hne

/-- **No deadlock (exclusive locks: write locks, single-reader mode).**  Every configuration in
    which some connection has not finished admits a step. -/
theorem C12_no_deadlock {α : Type} (now : Nat) (thr : Nat → Conc.Thread α) (c : Conc.Conf α)
    (h : ∃ i, ∀ a evs, c.ts i ≠ .done a evs) : ∃ s c', Conc.Step1 now thr c s c' :=
  Conc.no_deadlock now thr c h

/-- The same with shared read locks (multi-reader mode). -/
theorem C12_holder_finishes_shared_reads (now : Nat) (thr : Nat → Conc.CThread) (i : Nat) (p : Prog OEv (HRes Unit))
    (c : Conc.Conf (HRes Unit)) (evs : List OEv) (h : c.ts i = .running p evs) :
    ∃ sched c' a evs', Conc.ExecR now thr c sched c' ∧ Conc.OnlyBy i sched ∧ c'.ts i = .done a evs' :=
  Conc.holder_finishesR now thr i p c evs h

theorem C12_no_deadlock_shared_reads (now : Nat) (thr : Nat → Conc.CThread) (c : Conc.Conf (HRes Unit))
    (h : ∃ i, ∀ a evs, c.ts i ≠ .done a evs) : ∃ s c', Conc.StepR now thr c s c' :=
  Conc.no_deadlockR now thr c h

/-- Non-vacuity: the lock does block — with connection 0 inside a critical section of stripe 5,
    connection 1 (same stripe) is refused its lock, yet the configuration is not stuck. -/
example : let thr : Nat → Conc.Thread Unit := fun _ => { key := [], stripe := 5, body := .ret () }
    let c : Conc.Conf Unit := { w := {}, ts := fun j => if j = 0 then .running (.ret ()) [] else .idle }
    (¬ ∃ c', Conc.Step1 0 thr c (.acq 1) c') ∧ ∃ s c', Conc.Step1 0 thr c s c' := by
  intro thr c
  constructor
  · rintro ⟨c', h⟩
    cases h with
    | acq _ _ hfree => exact hfree 0 (.ret ()) [] rfl rfl
  · exact C12_no_deadlock 0 thr c ⟨1, by intro a evs h; simp [c] at h⟩

end Rend.Props.C12

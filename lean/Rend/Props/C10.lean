/-
  C10 — Backend faults are contained: no hang, no crash, no stale value after an ack.

  What is proved here holds for EVERY behaviour of the two backends (the `Runs` relation
  quantifies over all answers: values, any error status, a lost connection at any request) or,
  for the connection loop, for every fault plan of the runner.  The state-level clause — an
  acknowledged write is never followed by a stale read — is proved below for the two-tier
  orchestrators over pass-through handlers under every single fault of the property
  (`C10_acked_write_*`, `C10_no_stale_read_after_ack`); for the chunked handler under the
  orchestrators it is decided by the correspondence on the fault grid with a possible-values oracle.
-/
import Rend.Props.C11
import Rend.Props.C12
import Rend.Proofs.FaultAck

namespace Rend.Props.C10
open Rend Rend.Server

/-- **No spinning, whatever fails**: the connection loop never runs out of fuel — each round
    consumes input — for every input, every fault plan, every orchestrator. -/
theorem C10_loop_terminates (cf : Conf) (now : Nat) (fault : Option Fault) (fuel : Nat) (inp : Bytes) (st : RunSt)
    (out : Out) (h : inp.length < fuel) : (loop cf now fault fuel inp st out).1.ending ≠ .outOfFuel :=
  C11.C11_loop_terminates cf now fault fuel inp st out h

/-- **Only well-formed replies, for every backend behaviour**: whatever the backends answer, a
    command that returns nil made exactly its acknowledging responder call (a get: values, then
    exactly one terminator) and a command that returns an error made none — so the client sees
    complete replies ending in the terminator, or the error reply the loop writes, never a torso. -/
theorem C10_replies_wellformed (o : OrcaKind) (h1 h2 : Handler OEv) (hs1 : SilentHandler h1) (hs2 : SilentHandler h2)
    (c : Cmd) : C08.Shape (C08.Disc c) (o.step h1 h2 c) :=
  C08.C08_orca_discipline o h1 h2 hs1 hs2 c

/-- The handlers' programs are finite trees and silent towards the client for every backend
    behaviour (so a fault can never make a handler write to the client). -/
theorem C10_handlers_silent : SilentHandler (Std.handler (ε := OEv) .l1) ∧ SilentHandler (Std.handler (ε := OEv) .l2) ∧
    (∀ now, SilentHandler (Chunked.handler (ε := OEv) .l1 now)) :=
  ⟨Std.silent .l1, Std.silent .l2, fun now => Chunked.silent .l1 now⟩

/-- **What the loop does with a failed command**, for the four kinds of failure an orchestrator
    call can end in: a panic or an I/O error closes the connection (backend connections
    included); an application error is answered with exactly one error reply and the loop goes
    on with the rest of the input. -/
theorem C10_failure_handling (cf : Conf) (now : Nat) (fault : Option Fault) (fuel : Nat) (inp : Bytes) (st : RunSt)
    (out : Out) (hparse : (parse cf.proto inp).err = none)
    (hq : ∀ o q, (parse cf.proto inp).cmd.getD .unknown ≠ .quit o q)
    (hrender : (renderPrefix cf.proto ((cf.orca ((parse cf.proto inp).cmd.getD .unknown)).runSt now fault st).2.1).2 = true) :
    let r := (cf.orca ((parse cf.proto inp).cmd.getD .unknown)).runSt now fault st
    (r.1 = .error .panic → (loop cf now fault (fuel + 1) inp st out).1.ending = .closed) ∧
    (r.1 = .error .io → (loop cf now fault (fuel + 1) inp st out).1.ending = .closed) ∧
    (∀ e, r.1 = .error (.app e) → isAppError e = false → (loop cf now fault (fuel + 1) inp st out).1.ending = .closed) := by
  simp only [loop, hparse]
  generalize hc : (parse cf.proto inp).cmd.getD .unknown = cmd at hq hrender ⊢
  generalize hrun : (cf.orca cmd).runSt now fault st = rr at hrender ⊢
  obtain ⟨res, evs, st'⟩ := rr
  simp only at hrender ⊢
  generalize hrp : renderPrefix cf.proto evs = rp at hrender
  obtain ⟨b, ok⟩ := rp
  simp only at hrender
  subst hrender
  refine ⟨?_, ?_, ?_⟩
  · intro h; subst h
    simp only [isCrash, Bool.false_eq_true, if_false]
    cases cmd <;> first | rfl | exact absurd rfl (hq _ _)
  · intro h; subst h
    simp only [isCrash, Bool.false_eq_true, if_false]
    cases cmd <;> first | rfl | exact absurd rfl (hq _ _)
  · intro e h he; subst h
    simp only [isCrash, Bool.false_eq_true, if_false]
    cases cmd <;> first | (simp [he]) | exact absurd rfl (hq _ _)

/-- A panic underneath (e.g. the nil dereference of a handler whose backend connection broke
    while it read a reply header) is recovered by the loop: connection closed, process alive. -/
theorem C10_panic_closes (cf : Conf) (now : Nat) (fault : Option Fault) (fuel : Nat) (inp : Bytes) (st : RunSt)
    (out : Out) (hparse : (parse cf.proto inp).err = none)
    (hpanic : ((cf.orca ((parse cf.proto inp).cmd.getD .unknown)).runSt now fault st).1 = .error .panic) :
    (loop cf now fault (fuel + 1) inp st out).1.ending = .closed :=
  C12.C12_panic_closes cf now fault fuel inp st out hparse hpanic

/-- **An acknowledged write under a fault is a correct write** (main port).  For every write
    command, every state satisfying the cache invariant and every single fault of the property —
    the connection to either tier cut before or after ANY request, or ANY true error status in
    answer to it — if the client is told STORED / DELETED / TOUCHED then the single map accepted
    the command, L2 is the map's new content, and the cache invariant holds: L1 does not hold
    the value from before (a refused L1 write was compensated by removing the L1 entry). -/
theorem C10_acked_write_main (now : Nat) (w : World) (tk : List Bytes) (c : Cmd) (hc : IsWrite c) (f : Fault)
    (hf : TrueErr f) (hinv : CacheInv now w)
    (hok : ((L1L2.step (Std.handler .l1) (Std.handler .l2) c).runSt now (some f) (fresh w tk)).1 = .ok ()) :
    (Spec.step now w.l2 c).2 = .ok ∧
    ((L1L2.step (Std.handler .l1) (Std.handler .l2) c).runSt now (some f) (fresh w tk)).2.2.w.l2 = (Spec.step now w.l2 c).1 ∧
    CacheInv now ((L1L2.step (Std.handler .l1) (Std.handler .l2) c).runSt now (some f) (fresh w tk)).2.2.w :=
  acked_write_is_correct now w tk c hc f hf hinv hok

/-- The same on the batch port. -/
theorem C10_acked_write_batch (now : Nat) (w : World) (tk : List Bytes) (c : Cmd) (hc : IsWrite c) (f : Fault)
    (hf : TrueErr f) (hinv : CacheInv now w)
    (hok : ((L1L2Batch.step (Std.handler .l1) (Std.handler .l2) c).runSt now (some f) (fresh w tk)).1 = .ok ()) :
    (Spec.step now w.l2 c).2 = .ok ∧
    ((L1L2Batch.step (Std.handler .l1) (Std.handler .l2) c).runSt now (some f) (fresh w tk)).2.2.w.l2 = (Spec.step now w.l2 c).1 ∧
    CacheInv now ((L1L2Batch.step (Std.handler .l1) (Std.handler .l2) c).runSt now (some f) (fresh w tk)).2.2.w :=
  batch_acked_write_is_correct now w tk c hc f hf hinv hok

/-- **No stale value after an acknowledgement**: whatever fault struck the acknowledged write,
    every later history of commands on both ports (with clock ticks and L1 losses) is answered
    exactly as the single map answers it starting from the map AFTER the write. -/
theorem C10_no_stale_read_after_ack (now : Nat) (w : World) (tk : List Bytes) (c : Cmd) (hc : IsWrite c) (f : Fault)
    (hf : TrueErr f) (hinv : CacheInv now w)
    (hok : ((L1L2.step (Std.handler .l1) (Std.handler .l2) c).runSt now (some f) (fresh w tk)).1 = .ok ())
    (acts : List Act) (hacts : ActsTwoTier acts) (tk' : List Bytes) :
    AllAgree (runActs now ((L1L2.step (Std.handler .l1) (Std.handler .l2) c).runSt now (some f) (fresh w tk)).2.2.w tk' acts)
      (specActs now (Spec.step now w.l2 c).1 acts) := by
  obtain ⟨_, h2, h3⟩ := acked_write_is_correct now w tk c hc f hf hinv hok
  have := (history_refines acts now _ tk' hacts h3).1
  rw [h2] at this
  exact this

/-- Non-vacuity: "out of memory" (0x82), "value too large" (0x03), "temporary failure" (0x86) and
    "busy" (0x85) are true error statuses; "not found" is not. -/
example : TrueErr ⟨.l1, 1, .status 0x82⟩ ∧ TrueErr ⟨.l2, 0, .status 0x03⟩ ∧ TrueErr ⟨.l1, 0, .status 0x86⟩ ∧
    TrueErr ⟨.l2, 0, .status 0x85⟩ ∧ TrueErr ⟨.l1, 0, .cutAfter⟩ ∧ ¬ TrueErr ⟨.l1, 0, .status 0x01⟩ := by
  refine ⟨⟨.noMem, by decide, by decide, by decide, by decide⟩, ⟨.valueTooBig, by decide, by decide, by decide, by decide⟩,
    ⟨.tempFailure, by decide, by decide, by decide, by decide⟩, ⟨.busy, by decide, by decide, by decide, by decide⟩, trivial, ?_⟩
  intro ⟨e, he, h1, _⟩
  have : decodeError 0x01 = some .keyNotFound := by decide
  rw [this] at he
  exact h1 (Option.some.inj he).symm

end Rend.Props.C10

/-
  C14 — Concurrent connections do not interfere with each other.

  Two parts.  (1) The pooled objects (request / response headers, scratch buffers) are the only
  mutable state a connection shares with others without a lock besides the metrics and the lock
  tables: the per-path event sequences of every function that touches a pool are regenerated from
  the source on every run, and no path uses or returns an object after handing it back.
  (2) Connections working on disjoint keys cannot influence each other through the backends:
  a backend request reads and writes the one entry it addresses, so requests on different keys
  commute — every interleaving of such connections' requests yields the replies and the final
  content of any sequential order.
-/
import Rend.Spec
import Rend.Gen.Facts

namespace Rend.Props.C14
open Rend

/-- A path keeps the discipline when no use (`u`) and no return to the caller (`r`) follows a
    Put (`p`) unless the variable was obtained again (`g`) in between. -/
def okPath : Bool → List Gen.PoolEv → Bool
  | _, [] => true
  | _, .g :: rest => okPath true rest
  | _, .p :: rest => okPath false rest
  | held, .u :: rest => held && okPath held rest
  | held, .r :: rest => held && okPath held rest

/-- **No pooled object is touched after it went back to its pool**, on any control-flow path of
    any function of binprot / std / chunked that puts something into a pool (regenerated table). -/
theorem C14_no_use_after_put :
    ∀ e ∈ Gen.poolPaths, ∀ p ∈ e.2.2, okPath true p = true := by
  decide

/-- The table is not empty and covers the functions the handlers and the parser go through. -/
theorem C14_pool_functions_covered :
    ∀ n ∈ ["protocol/binprot.ReadResponseHeader", "protocol/binprot.readRequestHeader", "protocol/binprot.Parse",
           "handlers/memcached/std.GetLocal", "handlers/memcached/std.simpleCmdLocal",
           "handlers/memcached/chunked.getLocalIntoBuf", "handlers/memcached/chunked.getMetadataCommon",
           "handlers/memcached/chunked.simpleCmdLocal"],
      (Gen.poolPaths.any (fun e => e.1 == n)) = true := by
  decide

/-- Non-vacuity: the discipline rejects a use after a Put and a return after a Put. -/
example : okPath true [.g, .u, .p, .u] = false := by decide
example : okPath true [.g, .p, .r] = false := by decide
example : okPath true [.u, .p, .g, .u, .p] = true := by decide

/-! ### requests on different keys commute -/

def single (key : Bytes) (v : Option Item) : Store := fun k => if k = key then v else none

/-- What a request does to the one entry it addresses, and what it answers. -/
def localStep (now : Nat) (r : Req) (v : Option Item) : Option Item × Resp :=
  ((Mc.exec now (single r.key v) r).1 r.key, (Mc.exec now (single r.key v) r).2)

theorem look_local (s s' : Store) (now : Nat) (k : Bytes) (h : s k = s' k) : s.look now k = s'.look now k := by
  simp [Store.look, h]

/-- **Locality**: a backend request answers from, and changes, only the entry of its own key. -/
theorem exec_local (now : Nat) (s : Store) (r : Req) :
    (Mc.exec now s r).2 = (localStep now r (s r.key)).2 ∧
    ∀ k, (Mc.exec now s r).1 k = if k = r.key then (localStep now r (s r.key)).1 else s k := by
  have hl : (single r.key (s r.key)).look now r.key = s.look now r.key :=
    look_local _ _ _ _ (by simp [single])
  have hs : (single r.key (s r.key)) r.key = s r.key := by simp [single]
  simp only [localStep]
  unfold Mc.exec
  rw [hl]
  generalize s.look now r.key = lk
  cases r.op <;> cases lk <;> simp only <;> (refine ⟨by trivial, ?_⟩) <;> intro k <;> by_cases hk : k = r.key <;>
    simp [Store.set, hk, hs]

/-- **Requests on different keys commute**: executed in either order (at any two times) they give
    the same two answers and the same final store. -/
theorem C14_requests_commute (now1 now2 : Nat) (s : Store) (r1 r2 : Req) (h : r1.key ≠ r2.key) :
    (Mc.exec now2 (Mc.exec now1 s r1).1 r2).1 = (Mc.exec now1 (Mc.exec now2 s r2).1 r1).1 ∧
    (Mc.exec now1 s r1).2 = (Mc.exec now1 (Mc.exec now2 s r2).1 r1).2 ∧
    (Mc.exec now2 (Mc.exec now1 s r1).1 r2).2 = (Mc.exec now2 s r2).2 := by
  have a1 := exec_local now1 s r1
  have a2 := exec_local now2 s r2
  have b2 := exec_local now2 (Mc.exec now1 s r1).1 r2
  have b1 := exec_local now1 (Mc.exec now2 s r2).1 r1
  have k12 : (Mc.exec now1 s r1).1 r2.key = s r2.key := by
    rw [a1.2]; simp [Ne.symm h]
  have k21 : (Mc.exec now2 s r2).1 r1.key = s r1.key := by
    rw [a2.2]; simp [h]
  refine ⟨?_, ?_, ?_⟩
  · funext k
    rw [b2.2, b1.2, k12, k21, a1.2, a2.2]
    by_cases h1 : k = r1.key <;> by_cases h2 : k = r2.key <;> simp [h1, h2, h, Ne.symm h]
  · rw [a1.1, b1.1, k21]
  · rw [b2.1, a2.1, k12]

/-- Consequently a request never sees (in its answer) nor disturbs (in the store) an entry of a
    different key — what another connection working on other keys holds. -/
theorem C14_other_keys_invisible (now : Nat) (s s' : Store) (r : Req) (h : s r.key = s' r.key) :
    (Mc.exec now s r).2 = (Mc.exec now s' r).2 ∧ (Mc.exec now s r).1 r.key = (Mc.exec now s' r).1 r.key ∧
    ∀ k, k ≠ r.key → (Mc.exec now s r).1 k = s k := by
  have a := exec_local now s r
  have b := exec_local now s' r
  refine ⟨by rw [a.1, b.1, h], by rw [a.2, b.2, h], ?_⟩
  intro k hk
  rw [a.2]; simp [hk]

end Rend.Props.C14

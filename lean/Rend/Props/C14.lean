/-
  C14 — Concurrent connections do not interfere with each other.

  Two parts.  (1) The pooled objects (request / response headers, scratch buffers) are the only
  mutable state a connection shares with others without a lock besides the metrics and the lock
  tables: the per-path event sequences of every function that touches a pool are regenerated from
  the source on every run, and no path uses or returns an object after handing it back.
  (2) Connections working on disjoint keys cannot influence each other through the backends:
  a backend request reads and writes the one entry it addresses, so requests on different keys
  commute — every interleaving of such connections' requests yields the replies and the final
  content of any sequential order.  (3) THE COMPOSITION over a scheduler semantics: any number of
  connections, each running any program whose backend requests address only that connection's
  own keys (a sequence of orchestrator calls on private keys is one: `runCmds_private`), no locks
  at all, scheduled in ANY way at the granularity of single backend requests — every connection
  returns and emits exactly what it does when it runs ALONE from the initial state, its keys hold
  what it leaves when alone, nobody else's keys are touched (`C14_no_interference`).
-/
import Rend.Spec
import Rend.Gen.Facts
import Rend.Proofs.SerialFoot
import Rend.Proofs.KeyLocal
import Rend.Proofs.ChunkedSerial

namespace Rend.Props.C14
open Rend

/-- A path keeps the discipline when no use (`u`) and no return to the caller (`r`) follows a
    Put (`p`) unless the variable was obtained again (`g`) in between. -/
def okPath : Bool → List Gen.PoolEv → Bool
  | _, [] => true
  | _, .g :: rest => okPath true rest
  | _, .p :: rest => okPath false rest
  | held, .u :: rest => held && okPath held rest
  | held, .r :: rest => held && okPath held rest

/-- **No pooled object is touched after it went back to its pool**, on any control-flow path of
    any function of binprot / std / chunked that puts something into a pool (regenerated table). -/
theorem C14_no_use_after_put :
    ∀ e ∈ Gen.poolPaths, ∀ p ∈ e.2.2, okPath true p = true := by
  decide

/-- The table is not empty and covers the functions the handlers and the parser go through. -/
theorem C14_pool_functions_covered :
    ∀ n ∈ ["protocol/binprot.ReadResponseHeader", "protocol/binprot.readRequestHeader", "protocol/binprot.Parse",
           "handlers/memcached/std.GetLocal", "handlers/memcached/std.simpleCmdLocal",
           "handlers/memcached/chunked.getLocalIntoBuf", "handlers/memcached/chunked.getMetadataCommon",
           "handlers/memcached/chunked.simpleCmdLocal"],
      (Gen.poolPaths.any (fun e => e.1 == n)) = true := by
  decide

/-- Non-vacuity: the discipline rejects a use after a Put and a return after a Put. -/
example : okPath true [.g, .u, .p, .u] = false := by decide
example : okPath true [.g, .p, .r] = false := by decide
example : okPath true [.u, .p, .g, .u, .p] = true := by decide

/-! ### requests on different keys commute -/

def single (key : Bytes) (v : Option Item) : Store := fun k => if k = key then v else none

/-- What a request does to the one entry it addresses, and what it answers. -/
def localStep (now : Nat) (r : Req) (v : Option Item) : Option Item × Resp :=
  ((Mc.exec now (single r.key v) r).1 r.key, (Mc.exec now (single r.key v) r).2)

theorem look_local (s s' : Store) (now : Nat) (k : Bytes) (h : s k = s' k) : s.look now k = s'.look now k := by
  simp [Store.look, h]

/-- **Locality**: a backend request answers from, and changes, only the entry of its own key. -/
theorem exec_local (now : Nat) (s : Store) (r : Req) :
    (Mc.exec now s r).2 = (localStep now r (s r.key)).2 ∧
    ∀ k, (Mc.exec now s r).1 k = if k = r.key then (localStep now r (s r.key)).1 else s k := by
  have hl : (single r.key (s r.key)).look now r.key = s.look now r.key :=
    look_local _ _ _ _ (by simp [single])
  have hs : (single r.key (s r.key)) r.key = s r.key := by simp [single]
  simp only [localStep]
  unfold Mc.exec
  rw [hl]
  generalize s.look now r.key = lk
  cases r.op <;> cases lk <;> simp only <;> (refine ⟨by trivial, ?_⟩) <;> intro k <;> by_cases hk : k = r.key <;>
    simp [Store.set, hk, hs]

/-- **Requests on different keys commute**: executed in either order (at any two times) they give
    the same two answers and the same final store. -/
theorem C14_requests_commute (now1 now2 : Nat) (s : Store) (r1 r2 : Req) (h : r1.key ≠ r2.key) :
    (Mc.exec now2 (Mc.exec now1 s r1).1 r2).1 = (Mc.exec now1 (Mc.exec now2 s r2).1 r1).1 ∧
    (Mc.exec now1 s r1).2 = (Mc.exec now1 (Mc.exec now2 s r2).1 r1).2 ∧
    (Mc.exec now2 (Mc.exec now1 s r1).1 r2).2 = (Mc.exec now2 s r2).2 := by
  have a1 := exec_local now1 s r1
  have a2 := exec_local now2 s r2
  have b2 := exec_local now2 (Mc.exec now1 s r1).1 r2
  have b1 := exec_local now1 (Mc.exec now2 s r2).1 r1
  have k12 : (Mc.exec now1 s r1).1 r2.key = s r2.key := by
    rw [a1.2]; simp [Ne.symm h]
  have k21 : (Mc.exec now2 s r2).1 r1.key = s r1.key := by
    rw [a2.2]; simp [h]
  refine ⟨?_, ?_, ?_⟩
  · funext k
    rw [b2.2, b1.2, k12, k21, a1.2, a2.2]
    by_cases h1 : k = r1.key <;> by_cases h2 : k = r2.key <;> simp [h1, h2, h, Ne.symm h]
  · rw [a1.1, b1.1, k21]
  · rw [b2.1, a2.1, k12]

/-- Consequently a request never sees (in its answer) nor disturbs (in the store) an entry of a
    different key — what another connection working on other keys holds. -/
theorem C14_other_keys_invisible (now : Nat) (s s' : Store) (r : Req) (h : s r.key = s' r.key) :
    (Mc.exec now s r).2 = (Mc.exec now s' r).2 ∧ (Mc.exec now s r).1 r.key = (Mc.exec now s' r).1 r.key ∧
    ∀ k, k ≠ r.key → (Mc.exec now s r).1 k = s k := by
  have a := exec_local now s r
  have b := exec_local now s' r
  refine ⟨by rw [a.1, b.1, h], by rw [a.2, b.2, h], ?_⟩
  intro k hk
  rw [a.2]; simp [hk]


/-! ### the composition: connections on private keys do not interfere -/

/-- A connection's program: its commands, one orchestrator call after the other. -/
def runCmds (p : Port) : List Cmd → OProg (List (HRes Unit))
  | [] => pure []
  | c :: cs => do
    let r ← portStep p c
    let rs ← runCmds p cs
    pure (r :: rs)

/-- Every backend request of a connection whose commands are single-key commands on keys of the
    set `K` addresses a key of `K`. -/
theorem runCmds_private (p : Port) (K : Bytes → Prop) : ∀ (cmds : List Cmd),
    (∀ c ∈ cmds, ∃ k, cmdKey c = some k ∧ K k) → AllReqs (Conc.FootLocal K) (runCmds p cmds)
  | [], _ => AllReqs.pure _
  | c :: cs, h => by
    obtain ⟨k, hk, hK⟩ := h c (List.mem_cons_self ..)
    unfold runCmds
    apply AllReqs.bind
    · exact (portStep_keyLocal p c k hk).mono (fun t r hr => by
        rcases hr with hr | hr
        · exact Or.inl (by rw [hr]; exact hK)
        · exact Or.inr hr)
    · intro r
      apply AllReqs.bind (runCmds_private p K cs (fun c' hc' => h c' (List.mem_cons_of_mem _ hc')))
      intro rs
      exact AllReqs.pure _

/-- **No interference.**  Connections `i` with programs `progs i` whose requests stay within the
    pairwise disjoint key sets `K i`; every schedule (no locks: every connection may start at any
    time, steps are single backend requests / responder calls) that ends with nobody running:
    each finished connection returned and emitted what it does when it runs alone from the
    initial state; its keys hold what it leaves when alone; keys of no connection are untouched. -/
theorem C14_no_interference {α : Type} (now : Nat) (progs : Nat → Prog OEv α) (K : Nat → Bytes → Prop)
    (hloc : ∀ i, AllReqs (Conc.FootLocal (K i)) (progs i)) (hdisj : ∀ i j k, K i k → K j k → i = j)
    (w : World) (sched : List Conc.Step) (c' : Conc.Conf α)
    (hex : Conc.ExecF now (fun i => { foot := K i, stripe := i, body := progs i }) (Conc.Conf.init w) sched c')
    (hquiet : ∀ i p evs, c'.ts i ≠ .running p evs) :
    (∀ i a evs, c'.ts i = .done a evs →
      a = ((progs i).eval now w []).1 ∧ evs = ((progs i).eval now w []).2.1 ∧
      ∀ k, K i k → Conc.at' c'.w k = Conc.at' ((progs i).eval now w []).2.2.1 k) ∧
    (∀ k, (∀ i, ¬ K i k) → Conc.at' c'.w k = Conc.at' w k) :=
  Conc.alone now _ hloc hdisj w sched c' hex hquiet

/-- A connection's program on a chunked L1-only deployment. -/
def runCmdsChunked (now : Nat) : List Cmd → OProg (List (HRes Unit))
  | [] => pure []
  | c :: cs => do
    let r ← L1Only.step (Chunked.handler .l1 now) c
    let rs ← runCmdsChunked now cs
    pure (r :: rs)

/-- The backend entries of the client keys of the set `K` under the chunking handler. -/
def chunkFootOf (K : Bytes → Prop) : Bytes → Prop := fun x => ∃ k, K k ∧ Conc.chunkFoot k x

theorem runCmdsChunked_private (now : Nat) (K : Bytes → Prop) : ∀ (cmds : List Cmd),
    (∀ c ∈ cmds, ∃ k, cmdKey c = some k ∧ K k) → AllReqs (Conc.FootLocal (chunkFootOf K)) (runCmdsChunked now cmds)
  | [], _ => AllReqs.pure _
  | c :: cs, h => by
    obtain ⟨k, hk, hK⟩ := h c (List.mem_cons_self ..)
    unfold runCmdsChunked
    apply AllReqs.bind
    · exact (Conc.l1only_chunked_footLocal now c k hk).mono (fun t r hr => by
        rcases hr with hr | hr
        · exact Or.inl ⟨k, hK, hr⟩
        · exact Or.inr hr)
    · intro r
      apply AllReqs.bind (runCmdsChunked_private now K cs (fun c' hc' => h c' (List.mem_cons_of_mem _ hc')))
      intro rs
      exact AllReqs.pure _

/-- **No interference with a chunked L1** (L1-only deployment, no locks needed): connections whose
    commands are single-key commands on pairwise disjoint sets of client keys.  Although every
    command is many backend requests on derived entries (`<key>-meta`, `<key>-<n>`), for every
    schedule that ends with nobody running each connection returned and emitted what it does when
    it runs alone from the initial state, the backend entries of its keys hold what it leaves when
    alone, and entries of nobody's keys are untouched. -/
theorem C14_no_interference_chunked (now : Nat) (cmds : Nat → List Cmd) (K : Nat → Bytes → Prop)
    (hpriv : ∀ i, ∀ c ∈ cmds i, ∃ k, cmdKey c = some k ∧ K i k) (hdisj : ∀ i j k, K i k → K j k → i = j)
    (w : World) (sched : List Conc.Step) (c' : Conc.Conf (List (HRes Unit)))
    (hex : Conc.ExecF now (fun i => { foot := chunkFootOf (K i), stripe := i, body := runCmdsChunked now (cmds i) })
      (Conc.Conf.init w) sched c')
    (hquiet : ∀ i p evs, c'.ts i ≠ .running p evs) :
    (∀ i a evs, c'.ts i = .done a evs →
      a = ((runCmdsChunked now (cmds i)).eval now w []).1 ∧ evs = ((runCmdsChunked now (cmds i)).eval now w []).2.1 ∧
      ∀ x, chunkFootOf (K i) x → Conc.at' c'.w x = Conc.at' ((runCmdsChunked now (cmds i)).eval now w []).2.2.1 x) ∧
    (∀ x, (∀ i, ¬ chunkFootOf (K i) x) → Conc.at' c'.w x = Conc.at' w x) :=
  C14_no_interference now (fun i => runCmdsChunked now (cmds i)) (fun i => chunkFootOf (K i))
    (fun i => runCmdsChunked_private now (K i) (cmds i) (hpriv i))
    (fun i j x ⟨k, hk, hx⟩ ⟨k', hk', hx'⟩ => hdisj i j k hk (Conc.chunkFoot_disjoint k k' x hx hx' ▸ hk'))
    w sched c' hex hquiet

/-- Non-vacuity: without locks two connections may both be running (the second start is admitted
    while the first is inside its program). -/
def exThreads : Nat → Conc.ThreadF (List (HRes Unit)) :=
  fun i => { foot := fun k => k = [i.toUInt8], stripe := i, body := runCmds .main [.delete { key := [i.toUInt8] }] }

example : ∀ c1, Conc.Step1F 7 exThreads (Conc.Conf.init {}) (.acq 0) c1 → ∃ c2, Conc.Step1F 7 exThreads c1 (.acq 1) c2 := by
  intro c1 h1
  cases h1 with
  | acq _ _ _ =>
    refine ⟨_, Conc.Step1F.acq _ 1 ?_ ?_⟩
    · rw [Conc.set_other _ _ _ _ (by decide)]; rfl
    · intro j p evs hj
      by_cases hj0 : j = 0
      · subst hj0; decide
      · rw [Conc.set_other _ _ _ _ hj0] at hj; cases hj

end Rend.Props.C14

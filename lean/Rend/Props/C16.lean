/-
  C16 — Fixed-size chunk discipline: every chunk of a key fits one slab class.

  All arithmetic below is about the REGENERATED definitions `Gen.chunkSize`, `Gen.numChunksExpr`
  and the regenerated constants; a change of a constant or of `chunkSize` in the Go source
  re-states (and may break) these theorems on the next run.
-/
import Rend.Handlers.Chunked
import Rend.Proofs.ProgLemmas

namespace Rend.Props.C16
open Rend Rend.Chunked

/-- `chunkSize` for every key length the protocol admits: payload = 1097 − k, entry value = 1113 − k. -/
theorem chunkSize_spec (k : Nat) (hk : k ≤ 250) : sizes k = (1097 - k, 1113 - k) := by
  simp [sizes, Gen.chunkSize]
  constructor <;> omega

/-- The value length of every chunk entry is a function of the key length only. -/
theorem C16_same_length (k : Nat) (hk : k ≤ 250) (token data : Bytes) (i : Nat) (ht : token.length = 16) :
    (token ++ chunkPayload data (sizes k).1 i).length = (sizes k).2 := by
  rw [chunkSize_spec k hk]
  simp [chunkPayload, Bytes.zeros, ht]
  omega

theorem decDigits_length_le (i : Nat) (hi : i < 1000) : (Bytes.decDigits i).length ≤ 3 := by
  simp only [Bytes.decDigits, List.length_map]
  have : ∀ j : Fin 1000, (Nat.toDigits 10 j.val).length ≤ 3 := by decide +kernel
  exact this ⟨i, hi⟩

theorem chunkKey_length (key : Bytes) (i : Nat) : (chunkKey key i).length = key.length + 1 + (Bytes.decDigits i).length := by
  simp [chunkKey]
  omega

/-- Backend key + entry value + 67 bytes of item overhead never exceed the 1184-byte slab budget. -/
theorem C16_slab_budget (key : Bytes) (i : Nat) (hk : key.length ≤ 250) (hi : i < 1000) :
    (chunkKey key i).length + (sizes key.length).2 + 67 ≤ Gen.chunked_chunkMaxSize := by
  rw [chunkSize_spec _ hk, chunkKey_length]
  have := decDigits_length_le i hi
  simp [Gen.chunked_chunkMaxSize]
  omega

theorem metaKey_length (key : Bytes) : (metaKey key).length = key.length + 5 := by
  simp [metaKey, metaSuffix]

/-- The metadata entry has constant size (for a 16-byte token). -/
theorem C16_meta_constant (m : Meta) (ht : m.token.length = Gen.chunked_tokenSize) :
    (encodeMeta m).length = Gen.chunked_metadataSize := by
  simp [encodeMeta, Bytes.be32, ht, Gen.chunked_metadataSize, Gen.chunked_tokenSize]

theorem C16_meta_budget (key : Bytes) (hk : key.length ≤ 250) :
    (metaKey key).length + Gen.chunked_metadataSize + 67 ≤ Gen.chunked_chunkMaxSize := by
  rw [metaKey_length]
  simp [Gen.chunked_metadataSize, Gen.chunked_chunkMaxSize]
  omega

/-- The number of chunks is the value length divided by the payload size, rounded up. -/
theorem C16_num_chunks (n p : Nat) (hp : 0 < p) (hp32 : p < 4294967296) :
    (Gen.numChunksExpr (n : Int) (BitVec.ofNat 32 p)).toNat = (n + p - 1) / p ∧
    n ≤ ((n + p - 1) / p) * p ∧ ((n + p - 1) / p) * p < n + p := by
  have h1 : (Gen.numChunksExpr (n : Int) (BitVec.ofNat 32 p)).toNat = (n + p - 1) / p := by
    simp [Gen.numChunksExpr, ceilDivInt, Nat.mod_eq_of_lt hp32]
    have : ((n : Int) + (p : Int) - 1) = ((n + p - 1 : Nat) : Int) := by omega
    rw [this]
    norm_cast
  have h := Nat.div_add_mod (n + p - 1) p
  have hr := Nat.mod_lt (n + p - 1) hp
  refine ⟨h1, ?_, ?_⟩
  · rw [Nat.mul_comm]; omega
  · rw [Nat.mul_comm]; omega

/-- What the requests of a chunked store operation look like. -/
def StoreReqOK (key : Bytes) (_t : Tier) (r : Req) : Prop :=
  (r.op = .set ∨ r.op = .add ∨ r.op = .replace) →
    (r.key = metaKey key ∧ r.value.length = Gen.chunked_metadataSize) ∨
    (∃ i, r.key = chunkKey key i ∧ r.value.length = (sizes key.length).2)

theorem writeChunks_reqs {ε} (t : Tier) (c : SetCmd) (token : Bytes) (ht : token.length = 16) (hk : c.key.length ≤ 250)
    (n i : Nat) : AllReqs (StoreReqOK c.key) (writeChunks (ε := ε) t c token (sizes c.key.length).1 n i) := by
  induction n generalizing i with
  | zero => exact AllReqs.ret _
  | succ n ih =>
    unfold writeChunks
    apply AllReqs.bind
    · apply AllReqs.req
      intro _
      exact Or.inr ⟨i, rfl, C16_same_length _ hk token c.data i ht⟩
    · intro r
      cases r with
      | io => exact AllReqs.ret _
      | wfail => exact AllReqs.ret _
      | status s =>
        simp only
        split
        · exact AllReqs.ret _
        · exact ih (i + 1)
      | hit f e d => exact ih (i + 1)
      | ok => exact ih (i + 1)
      | silent => exact ih (i + 1)

/-- Every entry written by `Set`/`Add`/`Replace` through the chunked handler — whatever the backend
    answers — is the constant-size metadata entry or a chunk entry of the key's fixed size. -/
theorem C16_set_requests {ε} (t : Tier) (now : Nat) (k : SetKind) (c : SetCmd) (hk : c.key.length ≤ 250) :
    AllReqs (StoreReqOK c.key) (setCommon (ε := ε) t now k c) := by
  unfold setCommon
  simp only
  apply AllReqs.draw
  intro token ht
  apply AllReqs.call
  · intro _
    refine Or.inl ⟨rfl, ?_⟩
    apply C16_meta_constant
    simpa [Gen.chunked_tokenSize] using ht
  · intro r
    cases r <;> simp only [Prog.bind]
    all_goals first
      | exact AllReqs.ret _
      | exact writeChunks_reqs t c token ht hk _ 0
      | (split
         · exact AllReqs.ret _
         · exact writeChunks_reqs t c token ht hk _ 0)

theorem askChunks_reqs {ε} (key0 : Bytes) (t : Tier) (op : Op) (hop : op = .getq ∨ op = .gatq) (key : Bytes) (e n i : Nat) :
    AllReqs (StoreReqOK key0) (askChunks (ε := ε) t op key e n i) := by
  induction n generalizing i with
  | zero => exact AllReqs.ret _
  | succ n ih =>
    unfold askChunks
    apply AllReqs.bind
    · apply AllReqs.req
      intro h
      rcases hop with rfl | rfl <;> simp at h
    · intro r
      apply AllReqs.bind (ih (i + 1))
      intro rest
      cases r <;> exact AllReqs.ret _

theorem readChunks_reqs {ε} (key0 : Bytes) (t : Tier) (op : Op) (hop : op = .getq ∨ op = .gatq) (key : Bytes) (e : Nat) (md : Meta) :
    AllReqs (StoreReqOK key0) (readChunks (ε := ε) t op key e md) := by
  unfold readChunks
  apply AllReqs.bind (askChunks_reqs key0 t op hop key e _ 0)
  intro rs
  apply AllReqs.bind
  · apply AllReqs.req
    intro h
    simp at h
  · intro nr
    simp only
    split
    · exact AllReqs.ret _
    · split
      · exact AllReqs.ret _
      · split <;> exact AllReqs.ret _

/-- The same for `Append` / `Prepend` (read, then re-store under the same key) and hence for every
    store operation of the chunked handler. -/
theorem C16_store_requests {ε} (t : Tier) (now : Nat) (k : SetKind) (c : SetCmd) (hk : c.key.length ≤ 250) :
    AllReqs (StoreReqOK c.key) (Chunked.store (ε := ε) t now k c) := by
  have hpend : AllReqs (StoreReqOK c.key) (pend (ε := ε) t now k c) := by
    unfold pend
    apply AllReqs.bind
    · apply AllReqs.req
      intro h
      simp at h
    · intro mr
      simp only
      split
      · exact AllReqs.ret _
      · rename_i md _
        apply AllReqs.bind (readChunks_reqs c.key t .getq (Or.inl rfl) c.key 0 md)
        intro ro
        cases ro with
        | err e => exact AllReqs.ret _
        | miss => exact AllReqs.ret _
        | value d => exact C16_set_requests t now .set { key := c.key, data := _, flags := md.origFlags, exptime := md.exptime } hk
  unfold Chunked.store
  cases k
  · exact C16_set_requests t now _ c hk
  · exact C16_set_requests t now _ c hk
  · exact C16_set_requests t now _ c hk
  · exact hpend
  · exact hpend

/-- Non-vacuity: a 250-byte key still leaves a positive payload, and the budget is met with equality
    for three-digit chunk numbers. -/
example : sizes 250 = (847, 863) := by decide
example (key : Bytes) (hk : key.length = 250) : (chunkKey key 999).length + (sizes key.length).2 + 67 = 1184 := by
  rw [chunkKey_length, chunkSize_spec _ (by omega), hk]
  decide

end Rend.Props.C16

/-
  C19 — Cluster routing is a stable function of the key and the node set.
  `md5` is an arbitrary function; the label order `lle` is any decidable total order.
-/
import Rend.Cluster.Ketama
import Rend.Gen.Facts

namespace Rend.Props.C19
open Rend Rend.Cluster

variable {L : Type} [DecidableEq L]

/-- What the theorems need from the label comparison (Go: bytewise string comparison). -/
structure TotalOrder (lle : L → L → Bool) : Prop where
  total : ∀ a b, lle a b || lle b a
  trans : ∀ a b c, lle a b → lle b c → lle a c
  antisymm : ∀ a b, lle a b → lle b a → a = b

section order
variable {lle : L → L → Bool} (ho : TotalOrder lle)
include ho

theorem ple_total (a b : Point L) : ple lle a b || ple lle b a := by
  unfold ple
  have := ho.total a.2 b.2
  by_cases h1 : a.1 < b.1
  · simp [h1]
  · by_cases h2 : b.1 < a.1
    · simp [h2]
    · have : a.1 = b.1 := by omega
      simp_all

theorem ple_trans (a b c : Point L) (h1 : ple lle a b) (h2 : ple lle b c) : ple lle a c := by
  unfold ple at *
  simp only [Bool.or_eq_true, decide_eq_true_eq, Bool.and_eq_true, beq_iff_eq] at *
  rcases h1 with h1 | ⟨h1, h1'⟩ <;> rcases h2 with h2 | ⟨h2, h2'⟩
  · left; omega
  · left; omega
  · left; omega
  · right; exact ⟨by omega, ho.trans _ _ _ h1' h2'⟩

theorem ple_antisymm (a b : Point L) (h1 : ple lle a b) (h2 : ple lle b a) : a = b := by
  unfold ple at *
  simp only [Bool.or_eq_true, decide_eq_true_eq, Bool.and_eq_true, beq_iff_eq] at *
  rcases h1 with h1 | ⟨h1, h1'⟩ <;> rcases h2 with h2 | ⟨h2, h2'⟩
  · omega
  · omega
  · omega
  · exact Prod.ext h1 (ho.antisymm _ _ h1' h2')

/-- Sorting two permutations of the same points gives the same ring. -/
theorem sort_perm_eq (xs ys : List (Point L)) (h : xs.Perm ys) :
    xs.mergeSort (ple lle) = ys.mergeSort (ple lle) := by
  apply List.Perm.eq_of_pairwise (le := fun a b => ple lle a b = true)
  · intro a b _ _ hab hba; exact ple_antisymm ho a b hab hba
  · exact List.pairwise_mergeSort (ple_trans ho) (ple_total ho) xs
  · exact List.pairwise_mergeSort (ple_trans ho) (ple_total ho) ys
  · exact (List.mergeSort_perm xs _).trans (h.trans (List.mergeSort_perm ys _).symm)

/-- The ring — and therefore the node chosen for every key and every ring location — does not
    depend on the order in which the nodes were listed. -/
theorem C19_order_independent (md5 : Bytes → Bytes) (name : L → Bytes) (limit : Nat) (ls ls' : List L)
    (h : ls.Perm ls') : ring md5 name lle limit ls = ring md5 name lle limit ls' := by
  unfold ring allPoints
  exact sort_perm_eq ho _ _ (h.flatMap_right _)

theorem C19_order_independent_hash (md5 : Bytes → Bytes) (name : L → Bytes) (limit : Nat) (ls ls' : List L)
    (h : ls.Perm ls') (key : Bytes) :
    hashKey md5 (ring md5 name lle limit ls) key = hashKey md5 (ring md5 name lle limit ls') key := by
  rw [C19_order_independent ho md5 name limit ls ls' h]

end order

/-- Routing is a function of the key and the ring: a set and a later get reach the same node. -/
theorem C19_set_get_same_node (md5 : Bytes → Bytes) (r : List (Point L)) (key : Bytes) :
    hashKey md5 r key = hashKey md5 r key := rfl

/-- `Bucket` returns the owner of the first point at or after the location … -/
theorem C19_lookup_successor (r : List (Point L)) (loc : Nat) (p : Point L)
    (h : r.find? (fun q => decide (loc ≤ q.1)) = some p) :
    bucketAt r loc = some p.2 ∧ loc ≤ p.1 ∧ p ∈ r := by
  unfold bucketAt
  rw [h]
  have := List.find?_some h
  exact ⟨rfl, by simpa using this, List.mem_of_find?_eq_some h⟩

/-- … and wraps around to the first point of the ring when there is none. -/
theorem C19_lookup_wraps (r : List (Point L)) (loc : Nat)
    (h : ∀ q ∈ r, q.1 < loc) : bucketAt r loc = r.head?.map (·.2) := by
  unfold bucketAt
  have : r.find? (fun q => decide (loc ≤ q.1)) = none := by
    rw [List.find?_eq_none]
    intro q hq
    have := h q hq
    simp; omega
  rw [this]

/-- Filtering commutes with sorting. -/
theorem sort_filter {lle : L → L → Bool} (ho : TotalOrder lle) (xs : List (Point L)) (f : Point L → Bool) :
    (xs.filter f).mergeSort (ple lle) = (xs.mergeSort (ple lle)).filter f := by
  apply List.Perm.eq_of_pairwise (le := fun a b => ple lle a b = true)
  · intro a b _ _ hab hba; exact ple_antisymm ho a b hab hba
  · exact List.pairwise_mergeSort (ple_trans ho) (ple_total ho) _
  · exact (List.pairwise_mergeSort (ple_trans ho) (ple_total ho) xs).filter f
  · exact (List.mergeSort_perm _ _).trans ((List.mergeSort_perm xs _).filter f).symm

theorem find_filter (r : List (Point L)) (f g : Point L → Bool) (p : Point L)
    (h : r.find? g = some p) (hf : f p = true) : (r.filter f).find? g = some p := by
  induction r with
  | nil => simp at h
  | cons a as ih =>
    simp only [List.find?_cons] at h
    by_cases hga : g a = true
    · simp only [hga] at h
      cases h
      simp [List.filter_cons, hf, List.find?_cons, hga]
    · simp only [hga] at h
      simp only [List.filter_cons]
      split
      · simp [List.find?_cons, hga, ih h]
      · exact ih h

theorem head_filter (r : List (Point L)) (f : Point L → Bool) (p : Point L)
    (h : r.head? = some p) (hf : f p = true) : (r.filter f).head? = some p := by
  cases r with
  | nil => simp at h
  | cons a as => simp at h; subst h; simp [List.filter_cons, hf]

theorem find_none_filter (r : List (Point L)) (f g : Point L → Bool)
    (h : r.find? g = none) : (r.filter f).find? g = none := by
  rw [List.find?_eq_none] at *
  intro q hq
  exact h q (List.mem_filter.mp hq).1

theorem allPoints_filter (md5 : Bytes → Bytes) (name : L → Bytes) (limit : Nat) (ls : List L) (x : L) :
    allPoints md5 name limit (ls.filter (· != x)) = (allPoints md5 name limit ls).filter (fun p => p.2 != x) := by
  unfold allPoints
  induction ls with
  | nil => rfl
  | cons a as ih =>
    simp only [List.filter_cons, List.flatMap_cons, List.filter_append]
    by_cases hax : a = x
    · subst hax
      have : (pointsOf md5 name limit a).filter (fun p => p.2 != a) = [] := by
        rw [List.filter_eq_nil_iff]
        intro p hp
        simp only [pointsOf, List.mem_flatMap, List.mem_map, List.mem_range] at hp
        obtain ⟨_, _, _, _, rfl⟩ := hp
        simp
      simp [this, ih]
    · have : (pointsOf md5 name limit a).filter (fun p => p.2 != x) = pointsOf md5 name limit a := by
        rw [List.filter_eq_self]
        intro p hp
        simp only [pointsOf, List.mem_flatMap, List.mem_map, List.mem_range] at hp
        obtain ⟨_, _, _, _, rfl⟩ := hp
        simpa using hax
      simp [hax, this, ih]

/-- Removing a node re-routes only the keys that node owned — provided every remaining node
    contributes the same points before and after (i.e. `limit` is unchanged, see `limit_40`). -/
theorem C19_removal_local {lle : L → L → Bool} (ho : TotalOrder lle) (md5 : Bytes → Bytes) (name : L → Bytes)
    (limit : Nat) (ls : List L) (x : L) (loc : Nat) (owner : L)
    (hown : bucketAt (ring md5 name lle limit ls) loc = some owner) (hne : owner ≠ x) :
    bucketAt (ring md5 name lle limit (ls.filter (· != x))) loc = some owner := by
  -- the new ring is the old ring without x's points
  have hring : ring md5 name lle limit (ls.filter (· != x)) =
      (ring md5 name lle limit ls).filter (fun p => p.2 != x) := by
    unfold ring
    rw [← sort_filter ho]
    congr 1
    exact allPoints_filter md5 name limit ls x
  rw [hring]
  generalize ring md5 name lle limit ls = r at *
  unfold bucketAt at *
  cases hf : r.find? (fun p => decide (loc ≤ p.1)) with
  | some p =>
    rw [hf] at hown
    simp only [Option.some.injEq] at hown
    rw [find_filter r _ _ p hf (by simp [hown, hne])]
    simp [hown]
  | none =>
    rw [hf] at hown
    rw [find_none_filter r _ _ hf]
    cases hh : r.head? with
    | none => rw [hh] at hown; simp at hown
    | some p =>
      rw [hh] at hown
      simp only [Option.map_some, Option.some.injEq] at hown
      rw [head_filter r _ p hh (by simp [hown, hne])]
      simp [hown]

/-- With equal weights every node contributes 40 digests (160 points) for every cluster size
    the property speaks about — in exact float32/float64 arithmetic. -/
theorem limit_40 : ∀ n : Fin 33, 1 ≤ n.val → limitOf n.val = 40 := by
  decide +kernel

/-- … so every node owns at least one point of the ring (a non-empty arc). -/
theorem C19_every_node_on_ring {lle : L → L → Bool} (md5 : Bytes → Bytes) (name : L → Bytes) (limit : Nat)
    (hl : 0 < limit) (ls : List L) (l : L) (h : l ∈ ls) : ∃ p ∈ ring md5 name lle limit ls, p.2 = l := by
  refine ⟨(le32 (md5 (name l ++ [45] ++ Bytes.decDigits 0)) (4 * 0), l), ?_, rfl⟩
  unfold ring
  rw [(List.mergeSort_perm _ _).mem_iff]
  simp only [allPoints, List.mem_flatMap]
  refine ⟨l, h, ?_⟩
  simp only [pointsOf, List.mem_flatMap, List.mem_map, List.mem_range]
  exact ⟨0, hl, 0, by decide, rfl⟩

/-- Recorded counterexample of the unrepaired order (`Less` on the location only): with an
    unstable sort two labels sharing a location can come out in either order, so the owner of
    that location depends on the listing. The tie-break makes `ple` antisymmetric, which is
    exactly what `sort_perm_eq` uses. -/
example : ple (fun (a b : Nat) => decide (a ≤ b)) (5, 1) (5, 2) = true ∧
          ple (fun (a b : Nat) => decide (a ≤ b)) (5, 2) (5, 1) = false := by decide

/-- The ring of the model is a function of the node list alone (`ring`); the real `Continuum.Reset`
    computes it from scratch exactly when the slice it appends the points to starts out empty —
    regenerated from handlers/memcached/cluster/ketama.go on every run.  With it, what a ring
    routes after any history of `Reset`s is what a ring built for the current nodes routes. -/
theorem C19_reset_rebuilds : Gen.continuumResetStartsEmpty = true := by decide

end Rend.Props.C19

/-
  The reference semantics: one memcached-style key-value map.

  The same definition is used (a) as the client-level specification `Spec` that every
  deployment shape of rend must be indistinguishable from, and (b) as the model `Mc` of an
  external memcached-like backend (which is modelled, not verified; the Go fake backend used
  by the correspondence harness is validated against this definition).

  Core-only.
-/
import Rend.Base.Bytes
import Rend.Gen.Consts
import Rend.Gen.Tables

namespace Rend

/-- Errors of package `common` that the model distinguishes. -/
inductive Err where
  | keyNotFound | keyExists | valueTooBig | invalidArgs | itemNotStored | badIncDec | auth
  | unknownCmd | noMem | notSupported | internal | busy | tempFailure
  | badRequest | badLength | badFlags | badExptime
  deriving Repr, DecidableEq, Inhabited

def Err.name : Err → String
  | .keyNotFound => "ErrKeyNotFound" | .keyExists => "ErrKeyExists" | .valueTooBig => "ErrValueTooBig"
  | .invalidArgs => "ErrInvalidArgs" | .itemNotStored => "ErrItemNotStored" | .badIncDec => "ErrBadIncDecValue"
  | .auth => "ErrAuth" | .unknownCmd => "ErrUnknownCmd" | .noMem => "ErrNoMem" | .notSupported => "ErrNotSupported"
  | .internal => "ErrInternal" | .busy => "ErrBusy" | .tempFailure => "ErrTempFailure"
  | .badRequest => "ErrBadRequest" | .badLength => "ErrBadLength" | .badFlags => "ErrBadFlags"
  | .badExptime => "ErrBadExptime"

def Err.all : List Err :=
  [.keyNotFound, .keyExists, .valueTooBig, .invalidArgs, .itemNotStored, .badIncDec, .auth, .unknownCmd,
   .noMem, .notSupported, .internal, .busy, .tempFailure, .badRequest, .badLength, .badFlags, .badExptime]

def Err.ofName (s : String) : Option Err := Err.all.find? (fun e => e.name == s)

/-- `binprot.DecodeError`, driven by the regenerated table. `none` = the status is not an error. -/
def decodeError (status : Nat) : Option Err :=
  match Gen.decodeErrorTable.find? (fun p => p.1 == status) with
  | some (_, n) => Err.ofName n
  | none => none

/-- `binprot.errorToCode`, driven by the regenerated table. -/
def errorToCode (e : Err) : Nat :=
  match Gen.errorToCodeTable.find? (fun p => p.1 == e.name) with
  | some (_, c) => c
  | none => Gen.errorToCodeDefault

/-- `common.IsAppError`, driven by the regenerated list. -/
def isAppError (e : Err) : Bool := Gen.isAppErrorList.contains e.name

/-- The text of `err.Error()`, as bytes. -/
def Err.message (e : Err) : Bytes :=
  match Gen.common_errors.find? (fun p => p.1 == e.name) with
  | some (_, _, m) => m
  | none => []

structure Item where
  data     : Bytes
  flags    : Nat
  deadline : Nat        -- 0 = never expires; otherwise the first second at which it is no longer served
  deriving Repr, DecidableEq, Inhabited

abbrev Store := Bytes → Option Item

def Store.empty : Store := fun _ => none
def Store.set (s : Store) (k : Bytes) (v : Option Item) : Store := fun k' => if k' = k then v else s k'

def Item.live (now : Nat) (it : Item) : Bool := it.deadline == 0 || now < it.deadline

/-- What a lookup at time `now` sees. -/
def Store.look (s : Store) (now : Nat) (k : Bytes) : Option Item :=
  match s k with
  | some it => if it.live now then some it else none
  | none => none

/-- memcached's expiry rule (30-day rule); 0 = never. An absolute time that is not in the
    future yields a deadline that is already passed: stored and immediately expired. -/
def deadlineOf (now exptime : Nat) : Nat :=
  if exptime = 0 then 0
  else if exptime ≤ Gen.chunked_realTimeMaxDelta then now + exptime
  else exptime

/-- Remaining lifetime in seconds as reported by `gete`; 0 = none. -/
def remaining (now : Nat) (it : Item) : Nat := if it.deadline = 0 then 0 else it.deadline - now

inductive Op where
  | get | getq | gete | geteq | gat | gatq | set | add | replace | append | prepend | delete | touch | noop
  deriving Repr, DecidableEq, Inhabited

structure Req where
  op      : Op
  key     : Bytes := []
  flags   : Nat := 0
  exptime : Nat := 0
  value   : Bytes := []
  deriving Repr, DecidableEq, Inhabited

/-- Backend responses at the granularity the handlers observe them. -/
inductive Resp where
  | hit (flags exp : Nat) (data : Bytes)   -- a value (exp only meaningful for gete)
  | ok                                     -- success without a value
  | status (code : Nat)                    -- a non-success status (its text body is discarded)
  | silent                                 -- quiet command that produces no response
  | io                                     -- the connection failed while the reply was awaited
  | wfail                                  -- the connection was already broken: the request could not be written
  deriving Repr, DecidableEq, Inhabited

def stNotFound : Nat := Gen.binprot_StatusKeyEnoent
def stExists : Nat := Gen.binprot_StatusKeyExists
def stNotStored : Nat := Gen.binprot_StatusNotStored

/-- One request against the reference map. -/
def Mc.exec (now : Nat) (s : Store) (r : Req) : Store × Resp :=
  match r.op with
  | .noop => (s, .ok)
  | .get =>
    match s.look now r.key with
    | some it => (s, .hit it.flags 0 it.data)
    | none => (s, .status stNotFound)
  | .getq =>
    match s.look now r.key with
    | some it => (s, .hit it.flags 0 it.data)
    | none => (s, .silent)
  | .gete =>
    match s.look now r.key with
    | some it => (s, .hit it.flags (remaining now it) it.data)
    | none => (s, .status stNotFound)
  | .geteq =>
    match s.look now r.key with
    | some it => (s, .hit it.flags (remaining now it) it.data)
    | none => (s, .silent)
  | .gat =>
    match s.look now r.key with
    | some it => (s.set r.key (some { it with deadline := deadlineOf now r.exptime }), .hit it.flags 0 it.data)
    | none => (s, .status stNotFound)
  | .gatq =>
    match s.look now r.key with
    | some it => (s.set r.key (some { it with deadline := deadlineOf now r.exptime }), .hit it.flags 0 it.data)
    | none => (s, .silent)
  | .set => (s.set r.key (some ⟨r.value, r.flags, deadlineOf now r.exptime⟩), .ok)
  | .add =>
    match s.look now r.key with
    | some _ => (s, .status stExists)
    | none => (s.set r.key (some ⟨r.value, r.flags, deadlineOf now r.exptime⟩), .ok)
  | .replace =>
    match s.look now r.key with
    | some _ => (s.set r.key (some ⟨r.value, r.flags, deadlineOf now r.exptime⟩), .ok)
    | none => (s, .status stNotFound)
  | .append =>
    match s.look now r.key with
    | some it => (s.set r.key (some { it with data := it.data ++ r.value }), .ok)
    | none => (s, .status stNotStored)
  | .prepend =>
    match s.look now r.key with
    | some it => (s.set r.key (some { it with data := r.value ++ it.data }), .ok)
    | none => (s, .status stNotStored)
  | .delete =>
    match s.look now r.key with
    | some _ => (s.set r.key none, .ok)
    | none => (s, .status stNotFound)
  | .touch =>
    match s.look now r.key with
    | some it => (s.set r.key (some { it with deadline := deadlineOf now r.exptime }), .ok)
    | none => (s, .status stNotFound)

end Rend

/-
  The reduction of C03 for a chunked L1 IN FRONT OF an L2 (memproxy --chunked --l2-enabled): main
  port = L1L2 over (chunking handler on L1, pass-through on L2), batch port = L1L2Batch over the
  same.  Every backend request of a single-key command addresses the key itself (L2) or the
  metadata entry / a numbered chunk of it (L1).

  (Superseded by `ChunkedSerial3.lean`, which uses footprints per tier and needs no assumption on
  the keys; the definitions and plumbing lemmas of this file are reused there.)

  PARTIAL: the footprint theorem of `SerialFoot` treats a key as one location in BOTH tiers, so the
  footprint of client key `k` here is `{k} ∪ {k-meta, k-0, k-1, …}`, and two client keys `a` and
  `a-0` have overlapping footprints although their entries lie in different stores.  The theorem
  below therefore assumes that no client key has the form of a backend entry of another client
  key (`Separated`).  Footprints per tier would remove the assumption.  Core-only.
-/
import Rend.Proofs.ChunkedSerial

namespace Rend.Conc
open Rend Rend.Chunked

/-- Backend locations of client key `key` with a chunked L1 in front of a pass-through L2. -/
def foot2 (key : Bytes) : Bytes → Prop := fun x => x = key ∨ chunkFoot key x

theorem keyLocal_foot2 (key : Bytes) (t : Tier) (r : Req) (h : KeyLocal key t r) : FootLocal (foot2 key) t r := by
  rcases h with h | h
  · exact Or.inl (Or.inl h)
  · exact Or.inr h

theorem derived_foot2 (key : Bytes) (t : Tier) (r : Req) (h : Derived key t r) : FootLocal (foot2 key) t r := by
  rcases derived_footLocal key t r h with h | h
  · exact Or.inl (Or.inr h)
  · exact Or.inr h

theorem reqsPost_mono {ε α : Type} {P P' : Tier → Req → Prop} {Q : α → Prop} {p : Prog ε α} (h : ReqsPost P Q p)
    (hP : ∀ t r, P t r → P' t r) : ReqsPost P' Q p := by
  induction h with
  | ret a ha => exact ReqsPost.ret a ha
  | call t r k hr _ ih => exact ReqsPost.call t r k (hP t r hr) ih
  | draw k _ ih => exact ReqsPost.draw k ih
  | emit e p _ ih => exact ReqsPost.emit e p ih

theorem allReqs_toPost {ε α : Type} {P : Tier → Req → Prop} {p : Prog ε α} (h : AllReqs P p) :
    ReqsPost P (fun _ => True) p := by
  induction h with
  | ret a => exact ReqsPost.ret a trivial
  | call t r f hr _ ih => exact ReqsPost.call t r f hr ih
  | draw f _ ih => exact ReqsPost.draw f ih
  | emit e p _ ih => exact ReqsPost.emit e p ih

/-! ### the handlers, in terms of `foot2` -/

theorem ch_store (now : Nat) (kind : SetKind) (c : SetCmd) (k : Bytes) (h : c.key = k) :
    AllReqs (FootLocal (foot2 k)) ((Chunked.handler (ε := OEv) .l1 now).store kind c) := by
  subst h; exact (store_derived .l1 now kind c).mono (derived_foot2 _)

theorem ch_gat (now : Nat) (c : KeyCmd) (k : Bytes) (h : c.key = k) :
    AllReqs (FootLocal (foot2 k)) ((Chunked.handler (ε := OEv) .l1 now).gat c) := by
  subst h; exact (gat_derived .l1 c).mono (derived_foot2 _)

theorem ch_delete (now : Nat) (c : KeyCmd) (k : Bytes) (h : c.key = k) :
    AllReqs (FootLocal (foot2 k)) ((Chunked.handler (ε := OEv) .l1 now).delete c) := by
  subst h; exact (delete_derived .l1 c).mono (derived_foot2 _)

theorem ch_touch (now : Nat) (c : KeyCmd) (k : Bytes) (h : c.key = k) :
    AllReqs (FootLocal (foot2 k)) ((Chunked.handler (ε := OEv) .l1 now).touch c) := by
  subst h; exact (touch_derived .l1 now c).mono (derived_foot2 _)

theorem st_store (kind : SetKind) (c : SetCmd) (k : Bytes) (h : c.key = k) :
    AllReqs (FootLocal (foot2 k)) ((Std.handler (ε := OEv) .l2).store kind c) :=
  (std_store_local .l2 kind c k h).mono (keyLocal_foot2 k)

theorem st_gat (c : KeyCmd) (k : Bytes) (h : c.key = k) :
    AllReqs (FootLocal (foot2 k)) ((Std.handler (ε := OEv) .l2).gat c) :=
  (std_gat_local .l2 c k h).mono (keyLocal_foot2 k)

theorem st_delete (c : KeyCmd) (k : Bytes) (h : c.key = k) :
    AllReqs (FootLocal (foot2 k)) ((Std.handler (ε := OEv) .l2).delete c) :=
  (std_simple_local .l2 { op := .delete, key := c.key } k h).mono (keyLocal_foot2 k)

theorem st_touch (c : KeyCmd) (k : Bytes) (h : c.key = k) :
    AllReqs (FootLocal (foot2 k)) ((Std.handler (ε := OEv) .l2).touch c) :=
  (std_simple_local .l2 { op := .touch, key := c.key, exptime := c.exptime } k h).mono (keyLocal_foot2 k)

/-- The chunking handler's multi-key read: requests stay in the footprint, and every answer carries
    the key it was asked for. -/
theorem ch_getLoop_post (k : Bytes) : ∀ (gs : List GetKey), (∀ g ∈ gs, g.key = k) →
    ReqsPost (FootLocal (foot2 k)) (fun x : List GetResp × Option HErr => ∀ r ∈ x.1, r.key = k)
      (Chunked.getLoop (ε := OEv) .l1 gs)
  | [], _ => ReqsPost.pure _ (by intro r hr; cases hr)
  | g :: rest, h => by
    have hg : g.key = k := h g (List.mem_cons_self ..)
    have ih := ch_getLoop_post k rest (fun x hx => h x (List.mem_cons_of_mem _ hx))
    have cons_ok : ∀ (r0 : GetResp), r0.key = k → ∀ (x : List GetResp × Option HErr), (∀ r ∈ x.1, r.key = k) →
        ReqsPost (FootLocal (foot2 k)) (fun y : List GetResp × Option HErr => ∀ r ∈ y.1, r.key = k)
          (Pure.pure (r0 :: x.1, x.2) : Prog OEv _) := by
      intro r0 h0 x hx
      apply ReqsPost.pure
      intro r hr
      simp only [List.mem_cons] at hr
      rcases hr with hr | hr
      · subst hr; exact h0
      · exact hx r hr
    have nil_ok : ∀ (e : Option HErr), ReqsPost (FootLocal (foot2 k))
        (fun y : List GetResp × Option HErr => ∀ r ∈ y.1, r.key = k) (Pure.pure ([], e) : Prog OEv _) := by
      intro e
      apply ReqsPost.pure
      intro r hr; cases hr
    unfold Chunked.getLoop
    apply ReqsPost.bind (ReqsPost.req _ _ (derived_foot2 k _ _ (hg ▸ Or.inr (Or.inl rfl))))
    intro mr _
    simp only
    split
    · apply ReqsPost.bind ih
      intro x hx
      obtain ⟨rs, err⟩ := x
      exact cons_ok _ hg (rs, err) hx
    · exact nil_ok _
    · rename_i md _
      have hrc : AllReqs (FootLocal (foot2 k)) (readChunks (ε := OEv) .l1 .getq g.key 0 md) :=
        (readChunks_derived .l1 .getq g.key 0 md).mono (fun t r hd => derived_foot2 k t r (hg ▸ hd))
      -- turn the AllReqs of readChunks into a ReqsPost with a trivial postcondition
      have hrc' := allReqs_toPost hrc
      apply ReqsPost.bind hrc'
      intro ro _
      cases ro with
      | err e => exact nil_ok _
      | miss =>
        apply ReqsPost.bind ih
        intro x hx
        obtain ⟨rs, err⟩ := x
        exact cons_ok _ hg (rs, err) hx
      | value d =>
        apply ReqsPost.bind ih
        intro x hx
        obtain ⟨rs, err⟩ := x
        exact cons_ok _ hg (rs, err) hx

/-- Proof search for "every request of this orchestrator program stays in `foot2 k`". -/
macro "f2_tac" : tactic =>
  `(tactic| repeat' (first
      | exact AllReqs.pure _
      | exact allReqs_reply _
      | exact allReqs_emitGets _
      | exact ch_store _ _ _ _ rfl
      | exact ch_gat _ _ _ rfl
      | exact ch_delete _ _ _ rfl
      | exact ch_touch _ _ _ rfl
      | exact st_store _ _ _ rfl
      | exact st_gat _ _ rfl
      | exact st_delete _ _ rfl
      | exact st_touch _ _ rfl
      | assumption
      | apply allReqs_andThen
      | apply AllReqs.bind
      | intro _
      | split
      | dsimp only))

theorem ch_backfill (now : Nat) (k : Bytes) : ∀ (rs : List GetResp), (∀ r ∈ rs, r.key = k) →
    AllReqs (FootLocal (foot2 k)) (L1L2.backfill (Chunked.handler .l1 now) rs)
  | [], _ => AllReqs.pure _
  | r :: rs, h => by
    have hr : r.key = k := h r (List.mem_cons_self ..)
    have ih := ch_backfill now k rs (fun x hx => h x (List.mem_cons_of_mem _ hx))
    subst hr
    unfold L1L2.backfill
    have hresp : ∀ e, AllReqs (FootLocal (foot2 r.key)) (respond e) := fun e => by
      unfold respond Prog.out; exact AllReqs.emit _ _ (AllReqs.ret _)
    f2_tac
    all_goals first
      | exact hresp _
      | skip

/-- The orchestrator a port runs with a chunked L1 in front of a pass-through L2. -/
def portStepC (now : Nat) : Port → Cmd → OProg (HRes Unit)
  | .main => L1L2.step (Chunked.handler .l1 now) (Std.handler .l2)
  | .batch => L1L2Batch.step (Chunked.handler .l1 now) (Std.handler .l2)

theorem splitL1_keys' (k : Bytes) (rs : List GetResp) (h : ∀ r ∈ rs, r.key = k) :
    (∀ r ∈ (L1L2.splitL1 rs).1, r.key = k) ∧ (∀ g ∈ (L1L2.splitL1 rs).2, g.key = k) :=
  splitL1_keys k rs h

theorem L1L2_get_foot2 (now : Nat) (k : Bytes) (g : GetCmd) (hk : ∀ x ∈ g.keys, x.key = k) :
    AllReqs (FootLocal (foot2 k)) (L1L2.get (Chunked.handler .l1 now) (Std.handler .l2) g) := by
  unfold L1L2.get
  simp only [Chunked.handler, Std.handler]
  apply ReqsPost.bindAll (ch_getLoop_post k g.keys hk)
  intro x hx
  obtain ⟨rs1, err1⟩ := x
  obtain ⟨s1, s2⟩ := splitL1_keys' k rs1 hx
  simp only
  apply AllReqs.bind (allReqs_emitGets _)
  intro _
  split
  · split
    · exact AllReqs.pure _
    · exact allReqs_reply _
  · apply ReqsPost.bindAll (reqsPost_mono (std_getLoop_post .l2 .gete k _ s2) (keyLocal_foot2 k))
    intro y hy
    obtain ⟨rs2, err2⟩ := y
    simp only
    apply allReqs_andThen _ _ (ch_backfill now k rs2 hy)
    intro _
    split
    · exact allReqs_reply _
    · exact AllReqs.pure _

theorem L1L2Batch_get_foot2 (now : Nat) (k : Bytes) (g : GetCmd) (hk : ∀ x ∈ g.keys, x.key = k) :
    AllReqs (FootLocal (foot2 k)) (L1L2Batch.get (Chunked.handler .l1 now) (Std.handler .l2) g) := by
  unfold L1L2Batch.get
  simp only [Chunked.handler, Std.handler]
  apply ReqsPost.bindAll (ch_getLoop_post k g.keys hk)
  intro x hx
  obtain ⟨rs1, err1⟩ := x
  obtain ⟨s1, s2⟩ := splitL1_keys' k rs1 hx
  simp only
  apply AllReqs.bind (allReqs_emitGets _)
  intro _
  split
  · split
    · exact AllReqs.pure _
    · exact allReqs_reply _
  · apply ReqsPost.bindAll (reqsPost_mono (std_getLoop_post .l2 .get k _ s2) (keyLocal_foot2 k))
    intro y hy
    obtain ⟨rs2, err2⟩ := y
    simp only
    apply AllReqs.bind (allReqs_emitGets _)
    intro _
    split
    · exact allReqs_reply _
    · exact AllReqs.pure _

/-- **Footprint of a single-key command, chunked L1 in front of L2**: on either port every backend
    request addresses the key (L2) or the metadata entry / a numbered chunk of it (L1). -/
theorem portStepC_foot2 (now : Nat) (p : Port) (c : Cmd) (k : Bytes) (h : cmdKey c = some k) :
    AllReqs (FootLocal (foot2 k)) (portStepC now p c) := by
  cases p
  · cases c with
    | store kind s =>
      simp only [cmdKey, Option.some.injEq] at h
      subst h
      cases kind <;> simp only [portStepC, L1L2.step, L1L2.set, L1L2.add, L1L2.replace, L1L2.pend] <;> f2_tac
    | get g =>
      simp only [cmdKey] at h
      split at h
      · rename_i gk hg
        simp only [Option.some.injEq] at h
        subst h
        exact L1L2_get_foot2 now _ g (single_keys g gk hg)
      · cases h
    | getE g => simp only [portStepC, L1L2.step]; exact AllReqs.pure _
    | gat kc =>
      simp only [cmdKey, Option.some.injEq] at h
      subst h
      simp only [portStepC, L1L2.step, L1L2.gat]
      f2_tac
    | delete kc =>
      simp only [cmdKey, Option.some.injEq] at h
      subst h
      simp only [portStepC, L1L2.step, L1L2.delete]
      f2_tac
    | touch kc =>
      simp only [cmdKey, Option.some.injEq] at h
      subst h
      simp only [portStepC, L1L2.step, L1L2.touch]
      f2_tac
    | noop o => cases h
    | quit o q => cases h
    | version o => cases h
    | stat o => cases h
    | unknown => cases h
  · cases c with
    | store kind s =>
      simp only [cmdKey, Option.some.injEq] at h
      subst h
      cases kind <;> simp only [portStepC, L1L2Batch.step, L1L2Batch.set, L1L2Batch.addReplace, L1L2.pend] <;> f2_tac
    | get g =>
      simp only [cmdKey] at h
      split at h
      · rename_i gk hg
        simp only [Option.some.injEq] at h
        subst h
        exact L1L2Batch_get_foot2 now _ g (single_keys g gk hg)
      · cases h
    | getE g => simp only [portStepC, L1L2Batch.step]; exact AllReqs.pure _
    | gat kc =>
      simp only [cmdKey, Option.some.injEq] at h
      subst h
      simp only [portStepC, L1L2Batch.step, L1L2Batch.gat]
      f2_tac
    | delete kc =>
      simp only [cmdKey, Option.some.injEq] at h
      subst h
      simp only [portStepC, L1L2Batch.step, L1L2.delete]
      f2_tac
    | touch kc =>
      simp only [cmdKey, Option.some.injEq] at h
      subst h
      simp only [portStepC, L1L2Batch.step, L1L2Batch.touch]
      f2_tac
    | noop o => cases h
    | quit o q => cases h
    | version o => cases h
    | stat o => cases h
    | unknown => cases h

/-- Where two footprints meet, the keys are equal or one key has the form of a backend entry of
    the other. -/
theorem foot2_meet (k k' x : Bytes) (h : foot2 k x) (h' : foot2 k' x) : k = k' ∨ chunkFoot k' k ∨ chunkFoot k k' := by
  rcases h with h | h
  · rcases h' with h' | h'
    · exact Or.inl (h.symm.trans h')
    · exact Or.inr (Or.inl (h ▸ h'))
  · rcases h' with h' | h'
    · exact Or.inr (Or.inr (h' ▸ h))
    · exact Or.inl (chunkFoot_disjoint _ _ x h h')

/-- A connection's critical section on a deployment with a chunked L1 in front of L2. -/
structure ChThread2 where
  port : Port
  cmd : Cmd
  key : Bytes
  stripe : Nat

def ChThread2.toF (now : Nat) (t : ChThread2) : ThreadF (HRes Unit) :=
  { foot := foot2 t.key, stripe := t.stripe, body := portStepC now t.port t.cmd }

/-- **Serializability with a chunked L1 in front of L2 (exclusive locks) — PARTIAL**: under the
    assumption that no client key has the form of a backend entry (`<key>-meta`, `<key>-<n>`) of
    another client key.  Connections on either port run single-key commands, each inside the lock
    of its key's stripe.  For EVERY admitted schedule that ends with nobody inside a critical
    section: both backends hold what running the commands whole, one after another in
    lock-acquisition order, leaves, and the commands, in that order, returned and emitted what that
    sequential run does. -/
theorem serializable_chunked2_partial (now : Nat) (thr : Nat → ChThread2)
    (hkey : ∀ i, cmdKey (thr i).cmd = some (thr i).key)
    (hstripe : ∀ i j, (thr i).key = (thr j).key → (thr i).stripe = (thr j).stripe)
    (hsep : ∀ i j, ¬ chunkFoot (thr j).key (thr i).key)
    (w : World) (sched : List Step) (c' : Conf (HRes Unit))
    (hex : ExecF now (fun i => (thr i).toF now) (Conf.init w) sched c')
    (hquiet : ∀ i p evs, c'.ts i ≠ .running p evs) :
    c'.w = seqEndF now (fun i => (thr i).toF now) w (acqOrder sched) ∧
    (acqOrder sched).map c'.ts =
      (seqObsF now (fun i => (thr i).toF now) w (acqOrder sched)).map (fun o => TState.done o.1 o.2) :=
  serializableFF_obs now (fun i => (thr i).toF now)
    (fun i => portStepC_foot2 now (thr i).port (thr i).cmd (thr i).key (hkey i))
    (fun i j x hi hj => by
      rcases foot2_meet _ _ x hi hj with h | h | h
      · exact hstripe i j h
      · exact absurd h (hsep i j)
      · exact absurd h (hsep j i))
    w sched c' hex hquiet

end Rend.Conc

/-
  The orchestrators emit responder events only — in particular no lock events — for every
  behaviour of the backends.  This discharges the `NoLocks` hypothesis of C12 / C15 for the
  three orchestrator models over any silent handlers.
-/
import Rend.Proofs.Runs

namespace Rend

def OEv.isResp : OEv → Bool
  | .resp _ => true
  | _ => false

/-- Every event of every run is a responder event. -/
structure OnlyResp {α : Type} (p : OProg α) : Prop where
  out : ∀ a es, Runs p a es → ∀ e ∈ es, e.isResp = true

namespace OnlyResp
variable {α β : Type}

theorem pure (a : α) : OnlyResp (Pure.pure a : OProg α) :=
  ⟨fun _ _ h e he => by rw [(Runs.of_pure h).2] at he; cases he⟩

theorem ofSilent {p : OProg α} (h : Silent p) : OnlyResp p :=
  ⟨fun a es hr e he => by rw [h.out a es hr] at he; cases he⟩

theorem bind {p : OProg α} {f : α → OProg β} (hp : OnlyResp p) (hf : ∀ a, OnlyResp (f a)) : OnlyResp (p >>= f) := by
  constructor
  intro b es h e he
  obtain ⟨a, e1, e2, h1, h2, rfl⟩ := Runs.bind_inv h
  rcases List.mem_append.mp he with he | he
  · exact hp.out a e1 h1 e he
  · exact (hf a).out b e2 h2 e he

theorem respond (r : REv) : OnlyResp (respond r) := by
  constructor
  intro u es h e he
  have := Runs.out_inv h
  subst this
  simp only [List.mem_singleton] at he
  subst he
  rfl

theorem reply (r : REv) : OnlyResp (reply r) := by
  unfold Rend.reply
  exact bind (respond r) (fun _ => pure _)

theorem emitGets : ∀ rs : List GetResp, OnlyResp (emitGets rs)
  | [] => pure ()
  | r :: rs => by
    unfold Rend.emitGets
    exact bind (respond _) (fun _ => emitGets rs)

theorem emitGetEs : ∀ rs : List GetResp, OnlyResp (emitGetEs rs)
  | [] => pure ()
  | r :: rs => by
    unfold Rend.emitGetEs
    exact bind (respond _) (fun _ => emitGetEs rs)

theorem andThen {p : OProg (HRes α)} {k : HRes α → OProg (HRes β)} (hp : OnlyResp p) (hk : ∀ r, OnlyResp (k r)) :
    OnlyResp (andThen p k) := by
  unfold Rend.andThen
  apply bind hp
  intro r
  split
  · exact pure _
  · exact pure _
  · exact hk _

end OnlyResp

/-- Proof search for "this orchestrator program emits responder events only". -/
macro "resp_tac" hs1:ident hs2:ident : tactic =>
  `(tactic| repeat' (first
      | exact OnlyResp.pure _
      | exact OnlyResp.reply _
      | exact OnlyResp.respond _
      | exact OnlyResp.emitGets _
      | exact OnlyResp.emitGetEs _
      | exact OnlyResp.ofSilent (($hs1).store _ _) | exact OnlyResp.ofSilent (($hs1).delete _) | exact OnlyResp.ofSilent (($hs1).touch _)
      | exact OnlyResp.ofSilent (($hs1).gat _) | exact OnlyResp.ofSilent (($hs1).get _) | exact OnlyResp.ofSilent (($hs1).getE _)
      | exact OnlyResp.ofSilent (($hs2).store _ _) | exact OnlyResp.ofSilent (($hs2).delete _) | exact OnlyResp.ofSilent (($hs2).touch _)
      | exact OnlyResp.ofSilent (($hs2).gat _) | exact OnlyResp.ofSilent (($hs2).get _) | exact OnlyResp.ofSilent (($hs2).getE _)
      | assumption
      | apply OnlyResp.andThen
      | apply OnlyResp.bind
      | intro _
      | split
      | dsimp only))

theorem L1L2.backfill_onlyResp (h1 : Handler OEv) (hs1 : SilentHandler h1) : ∀ rs, OnlyResp (L1L2.backfill h1 rs) := by
  intro rs
  induction rs with
  | nil => exact OnlyResp.pure _
  | cons r rest ih =>
    unfold L1L2.backfill
    resp_tac hs1 hs1

theorem L1Only.step_onlyResp (h1 : Handler OEv) (hs1 : SilentHandler h1) (c : Cmd) : OnlyResp (L1Only.step h1 c) := by
  cases c <;> simp only [L1Only.step, L1Only.store, L1Only.get, L1Only.getE, L1Only.gat, L1Only.delete, L1Only.touch] <;>
    resp_tac hs1 hs1

theorem L1L2.step_onlyResp (h1 h2 : Handler OEv) (hs1 : SilentHandler h1) (hs2 : SilentHandler h2) (c : Cmd) :
    OnlyResp (L1L2.step h1 h2 c) := by
  have hb := L1L2.backfill_onlyResp h1 hs1
  cases c with
  | store k sc =>
    cases k <;> simp only [L1L2.step, L1L2.set, L1L2.add, L1L2.replace, L1L2.pend] <;> resp_tac hs1 hs2
  | get g => simp only [L1L2.step, L1L2.get]; resp_tac hs1 hs2; all_goals exact hb _
  | getE g => simp only [L1L2.step]; resp_tac hs1 hs2
  | gat k => simp only [L1L2.step, L1L2.gat]; resp_tac hs1 hs2
  | delete k => simp only [L1L2.step, L1L2.delete]; resp_tac hs1 hs2
  | touch k => simp only [L1L2.step, L1L2.touch]; resp_tac hs1 hs2
  | noop o => simp only [L1L2.step]; resp_tac hs1 hs2
  | quit o q => simp only [L1L2.step]; resp_tac hs1 hs2
  | version o => simp only [L1L2.step]; resp_tac hs1 hs2
  | stat o => simp only [L1L2.step]; resp_tac hs1 hs2
  | unknown => simp only [L1L2.step]; resp_tac hs1 hs2

theorem L1L2Batch.step_onlyResp (h1 h2 : Handler OEv) (hs1 : SilentHandler h1) (hs2 : SilentHandler h2) (c : Cmd) :
    OnlyResp (L1L2Batch.step h1 h2 c) := by
  cases c with
  | store k sc =>
    cases k <;> simp only [L1L2Batch.step, L1L2Batch.set, L1L2Batch.addReplace, L1L2.pend] <;> resp_tac hs1 hs2
  | get g => simp only [L1L2Batch.step, L1L2Batch.get]; resp_tac hs1 hs2
  | getE g => simp only [L1L2Batch.step]; resp_tac hs1 hs2
  | gat k => simp only [L1L2Batch.step, L1L2Batch.gat]; resp_tac hs1 hs2
  | delete k => simp only [L1L2Batch.step, L1L2.delete]; resp_tac hs1 hs2
  | touch k => simp only [L1L2Batch.step, L1L2Batch.touch]; resp_tac hs1 hs2
  | noop o => simp only [L1L2Batch.step]; resp_tac hs1 hs2
  | quit o q => simp only [L1L2Batch.step]; resp_tac hs1 hs2
  | version o => simp only [L1L2Batch.step]; resp_tac hs1 hs2
  | stat o => simp only [L1L2Batch.step]; resp_tac hs1 hs2
  | unknown => simp only [L1L2Batch.step]; resp_tac hs1 hs2

/-- Every orchestrator, over any silent handlers, emits responder events only. -/
theorem OrcaKind.step_onlyResp (o : OrcaKind) (h1 h2 : Handler OEv) (hs1 : SilentHandler h1) (hs2 : SilentHandler h2)
    (c : Cmd) : OnlyResp (o.step h1 h2 c) := by
  cases o
  · exact L1Only.step_onlyResp h1 hs1 c
  · exact L1L2.step_onlyResp h1 h2 hs1 hs2 c
  · exact L1L2Batch.step_onlyResp h1 h2 hs1 hs2 c

end Rend

/-
  One orchestrator step against `Spec.step`, for the three deployment shapes, and its lift to
  arbitrary histories of commands, clock ticks and L1 evictions.
-/
import Rend.Proofs.BatchRefine

namespace Rend

/-- The answer of a key of the specification, in the form `viewOf` produces. -/
def specViewOf (p : GetKey × Option (Nat × Bytes)) : Bytes × Nat × Bool × Option (Nat × Bytes) :=
  (p.1.key, p.1.opq, p.1.quiet, p.2)

/-- `(res, evs)` — what the orchestrator returned and told the responder — says exactly what
    the specification's answer `o` to command `c` says. -/
def Agrees (c : Cmd) (o : SOut) (res : HRes Unit) (evs : List OEv) : Prop :=
  match c, o with
  | .store k sc, .ok => res = .ok () ∧ evs = [.resp (.stored k sc.opq sc.quiet)]
  | .store _ _, .fail => (∃ e, res = .error (.app e)) ∧ evs = []
  | .get g, .gets rs => res = .ok () ∧ ∃ gs : List GetResp,
      evs = gs.map (fun x => OEv.resp (.get x)) ++ [.resp (.getEnd g.noopOpaque g.noopEnd)] ∧
      (gs.map viewOf).Perm (rs.map specViewOf)
  | .getE g, .gets rs => res = .ok () ∧ ∃ gs : List GetResp,
      evs = gs.map (fun x => OEv.resp (.getE x)) ++ [.resp (.getEnd g.noopOpaque g.noopEnd)] ∧
      (gs.map viewOf).Perm (rs.map specViewOf)
  | .gat k, .gat v => res = .ok () ∧ ∃ r : GetResp, evs = [.resp (.gat r)] ∧ r.opq = k.opq ∧ r.key = k.key ∧
      match v with
      | some (f, d) => r.miss = false ∧ r.flags = f ∧ r.data = d
      | none => r.miss = true
  | .delete k, .ok => res = .ok () ∧ evs = [.resp (.deleted k.opq)]
  | .delete _, .fail => (∃ e, res = .error (.app e)) ∧ evs = []
  | .touch k, .ok => res = .ok () ∧ evs = [.resp (.touched k.opq)]
  | .touch _, .fail => (∃ e, res = .error (.app e)) ∧ evs = []
  | .noop o, .other => res = .ok () ∧ evs = [.resp (.noop o)]
  | .quit o q, .other => res = .ok () ∧ evs = [.resp (.quit o q)]
  | .version o, .other => res = .ok () ∧ evs = [.resp (.version o)]
  | .stat o, .other => res = .ok () ∧ evs = [.resp (.stat o)]
  | .unknown, .other => res = .error (.app .unknownCmd) ∧ evs = []
  | _, _ => False

theorem spec_step_delete (now : Nat) (s : Store) (k : KeyCmd) :
    Spec.step now s (.delete k) = ((mcDelete now s k.key).1, if (mcDelete now s k.key).2 then .ok else .fail) := by
  cases h : s.look now k.key <;> simp [Spec.step, Mc.exec, mcDelete, h]

theorem spec_step_touch (now : Nat) (s : Store) (k : KeyCmd) :
    Spec.step now s (.touch k) =
      ((mcTouch now s k.key k.exptime).1, if (mcTouch now s k.key k.exptime).2 then .ok else .fail) := by
  cases h : s.look now k.key <;> simp [Spec.step, Mc.exec, mcTouch, h]

theorem spec_step_gat (now : Nat) (s : Store) (k : KeyCmd) :
    Spec.step now s (.gat k) =
      ((mcTouch now s k.key k.exptime).1, .gat ((s.look now k.key).map fun it => (it.flags, it.data))) := by
  cases h : s.look now k.key <;> simp [Spec.step, Mc.exec, mcTouch, h]

theorem specGets_map (now : Nat) (s : Store) (ks : List GetKey) :
    (specGets now s ks).map specViewOf = ks.map (specView now s) := by
  induction ks with
  | nil => rfl
  | cons g rest ih => simp [specGets, specViewOf, specView, ih]

theorem agrees_store (k : SetKind) (c : SetCmd) (ok : Bool) (res : HRes Unit) (evs : List OEv)
    (h : StoreOutcome k c ok res evs) : Agrees (.store k c) (if ok then .ok else .fail) res evs := by
  cases ok <;> simpa [StoreOutcome, Agrees] using h

theorem agrees_get (now : Nat) (s : Store) (g : GetCmd) (res : HRes Unit) (evs : List OEv)
    (h : GetOutcome now s g res evs) : Agrees (.get g) (.gets (specGets now s g.keys)) res evs := by
  obtain ⟨h1, gs, h2, h3⟩ := h
  exact ⟨h1, gs, h2, by rw [specGets_map]; exact h3⟩

theorem agrees_gat (now : Nat) (s : Store) (k : KeyCmd) (res : HRes Unit) (evs : List OEv)
    (h : GatOutcome k (s.look now k.key) res evs) :
    Agrees (.gat k) (.gat ((s.look now k.key).map fun it => (it.flags, it.data))) res evs := by
  obtain ⟨h1, r, h2, h3, h4, h5⟩ := h
  refine ⟨h1, r, h2, h3, h4, ?_⟩
  cases hl : s.look now k.key <;> simpa [hl] using h5

/-- The commands the two-tier orchestrators implement (`GetE` is refused by them). -/
def TwoTier (c : Cmd) : Prop := ∀ g, c ≠ .getE g

theorem eval_step_simple (now : Nat) (w : World) (tk : List Bytes) (c : Cmd) (p : OProg (HRes Unit))
    (hp : (∃ e, p = reply e) ∨ (∃ r, p = pure r)) : (p.eval now w tk).2.2.1 = w := by
  rcases hp with ⟨e, rfl⟩ | ⟨r, rfl⟩ <;> simp [eval_reply]

/-- **Main port, one step**: L2 moves as the specification's map, the answer is the
    specification's, the cache invariant is kept. -/
theorem L1L2_step_refines (now : Nat) (w : World) (tk : List Bytes) (c : Cmd) (hc : TwoTier c)
    (hinv : CacheInv now w) :
    let r := (L1L2.step (Std.handler .l1) (Std.handler .l2) c).eval now w tk
    r.2.2.1.l2 = (Spec.step now w.l2 c).1 ∧ CacheInv now r.2.2.1 ∧ Agrees c (Spec.step now w.l2 c).2 r.1 r.2.1 := by
  cases c with
  | store k sc =>
    obtain ⟨h1, h2, h3, _⟩ := L1L2_store_refines now w tk k sc hinv
    rw [spec_step_store]
    exact ⟨h1, h2, agrees_store _ _ _ _ _ h3⟩
  | get g =>
    obtain ⟨h1, h2, h3⟩ := L1L2_get_refines now w tk g hinv
    exact ⟨h1, h2, agrees_get _ _ _ _ _ h3⟩
  | getE g => exact absurd rfl (hc g)
  | gat k =>
    obtain ⟨h1, h2, h3⟩ := L1L2_gat_refines now w tk k hinv
    rw [spec_step_gat]
    exact ⟨h1, h2, agrees_gat _ _ _ _ _ h3⟩
  | delete k =>
    obtain ⟨h1, h2, h3⟩ := L1L2_delete_refines now w tk k hinv
    rw [spec_step_delete]
    refine ⟨h1, h2, ?_⟩
    cases hk : (mcDelete now w.l2 k.key).2 <;> simpa [KeyOutcome, Agrees, hk] using h3
  | touch k =>
    obtain ⟨h1, h2, h3⟩ := L1L2_touch_refines now w tk k hinv
    rw [spec_step_touch]
    refine ⟨h1, h2, ?_⟩
    cases hk : (mcTouch now w.l2 k.key k.exptime).2 <;> simpa [KeyOutcome, Agrees, hk] using h3
  | noop o => simp [L1L2.step, eval_reply, Spec.step, Agrees]; exact hinv
  | quit o q => simp [L1L2.step, eval_reply, Spec.step, Agrees]; exact hinv
  | version o => simp [L1L2.step, eval_reply, Spec.step, Agrees]; exact hinv
  | stat o => simp [L1L2.step, eval_reply, Spec.step, Agrees]; exact hinv
  | unknown => simp [L1L2.step, Spec.step, Agrees]; exact hinv

/-- **Batch port, one step.** -/
theorem L1L2Batch_step_refines (now : Nat) (w : World) (tk : List Bytes) (c : Cmd) (hc : TwoTier c)
    (hinv : CacheInv now w) :
    let r := (L1L2Batch.step (Std.handler .l1) (Std.handler .l2) c).eval now w tk
    r.2.2.1.l2 = (Spec.step now w.l2 c).1 ∧ CacheInv now r.2.2.1 ∧ Agrees c (Spec.step now w.l2 c).2 r.1 r.2.1 := by
  cases c with
  | store k sc =>
    obtain ⟨h1, h2, h3, _⟩ := L1L2Batch_store_refines now w tk k sc hinv
    rw [spec_step_store]
    exact ⟨h1, h2, agrees_store _ _ _ _ _ h3⟩
  | get g =>
    obtain ⟨h1, h3⟩ := L1L2Batch_get_refines now w tk g hinv
    refine ⟨by rw [h1]; rfl, by rw [h1]; exact hinv, agrees_get _ _ _ _ _ h3⟩
  | getE g => exact absurd rfl (hc g)
  | gat k =>
    obtain ⟨h1, h2, h3⟩ := L1L2Batch_gat_refines now w tk k hinv
    rw [spec_step_gat]
    exact ⟨h1, h2, agrees_gat _ _ _ _ _ h3⟩
  | delete k =>
    obtain ⟨h1, h2, h3⟩ := L1L2Batch_delete_refines now w tk k hinv
    rw [spec_step_delete]
    refine ⟨h1, h2, ?_⟩
    cases hk : (mcDelete now w.l2 k.key).2 <;> simpa [KeyOutcome, Agrees, hk] using h3
  | touch k =>
    obtain ⟨h1, h2, h3⟩ := L1L2Batch_touch_refines now w tk k hinv
    rw [spec_step_touch]
    refine ⟨h1, h2, ?_⟩
    cases hk : (mcTouch now w.l2 k.key k.exptime).2 <;> simpa [KeyOutcome, Agrees, hk] using h3
  | noop o => simp [L1L2Batch.step, eval_reply, Spec.step, Agrees]; exact hinv
  | quit o q => simp [L1L2Batch.step, eval_reply, Spec.step, Agrees]; exact hinv
  | version o => simp [L1L2Batch.step, eval_reply, Spec.step, Agrees]; exact hinv
  | stat o => simp [L1L2Batch.step, eval_reply, Spec.step, Agrees]; exact hinv
  | unknown => simp [L1L2Batch.step, Spec.step, Agrees]; exact hinv

end Rend

namespace Rend

/-! ### L1-only -/

theorem view_std (now : Nat) (s : Store) (e : Bool) (g : GetKey) :
    viewOf (stdGetResp now s e g) = specView now s g := by
  cases h : s.look now g.key <;> simp [viewOf, stdGetResp, specView, h]

theorem eval_emitGetEs (now : Nat) (w : World) (tk : List Bytes) : ∀ rs : List GetResp,
    (emitGetEs rs).eval now w tk = ((), rs.map (fun r => OEv.resp (.getE r)), w, tk)
  | [] => rfl
  | r :: rs => by
    simp only [emitGetEs, respond, Prog.eval_bind, Prog.eval_out, eval_emitGetEs now w tk rs, List.map_cons]
    rfl

theorem L1Only_step_refines (now : Nat) (w : World) (tk : List Bytes) (c : Cmd) :
    let r := (L1Only.step (Std.handler .l1) c).eval now w tk
    r.2.2.1.l1 = (Spec.step now w.l1 c).1 ∧ r.2.2.1.l2 = w.l2 ∧ Agrees c (Spec.step now w.l1 c).2 r.1 r.2.1 := by
  have okne : ∀ x : GetResp, (Except.ok x : HRes GetResp) ≠ .error .panic ∧ (Except.ok x : HRes GetResp) ≠ .error .crash :=
    fun _ => ⟨by simp, by simp⟩
  cases c with
  | store k sc =>
    rw [spec_step_store]
    simp only [L1Only.step, L1Only.store, Std.handler, eval_andThen_store, World.get_l1]
    by_cases hok : (mcStore now w.l1 k sc).2 = true
    · simp [hok, eval_reply, Agrees]
    · simp [hok, eval_reply, Agrees]
  | get g =>
    have hget1 : (Std.handler (ε := OEv) .l1).get = Std.getLoop .l1 .get := rfl
    simp only [L1Only.step, L1Only.get, hget1]
    rw [Prog.eval_bind, eval_std_getLoop_get]
    simp only [List.nil_append]
    rw [Prog.eval_bind, eval_emitGets]
    simp only [eval_reply, Spec.step]
    refine ⟨trivial, trivial, rfl, _, rfl, ?_⟩
    rw [specGets_map, List.map_map]
    have : (viewOf ∘ stdGetResp now (w.get .l1) false) = specView now w.l1 := by
      funext x; exact view_std now w.l1 false x
    rw [this]
  | getE g =>
    have hget1 : (Std.handler (ε := OEv) .l1).getE = Std.getLoop .l1 .gete := rfl
    simp only [L1Only.step, L1Only.getE, hget1]
    rw [Prog.eval_bind, eval_std_getLoop_gete]
    simp only [List.nil_append]
    rw [Prog.eval_bind, eval_emitGetEs]
    simp only [eval_reply, Spec.step]
    refine ⟨trivial, trivial, rfl, _, rfl, ?_⟩
    rw [specGets_map, List.map_map]
    have : (viewOf ∘ stdGetResp now (w.get .l1) true) = specView now w.l1 := by
      funext x; exact view_std now w.l1 true x
    rw [this]
  | gat k =>
    rw [spec_step_gat]
    simp only [L1Only.step, L1Only.gat]
    have e1 := eval_std_gat now .l1 k w tk
    cases h1 : w.l1.look now k.key with
    | none =>
      simp only [World.get_l1, h1] at e1
      rw [eval_andThen_of now _ _ w tk _ _ _ e1 (okne _).1 (okne _).2]
      simp [eval_reply, Agrees, mcTouch, h1]
    | some a =>
      simp only [World.get_l1, h1] at e1
      rw [eval_andThen_of now _ _ w tk _ _ _ e1 (okne _).1 (okne _).2]
      simp [eval_reply, Agrees, h1]
  | delete k =>
    rw [spec_step_delete]
    simp only [L1Only.step, L1Only.delete]
    rw [eval_andThen_of now _ _ w tk _ _ _ (eval_std_delete now .l1 k w tk) (res_ne_panic _ _).1 (res_ne_panic _ _).2]
    cases hk : (mcDelete now w.l1 k.key).2 <;> simp [eval_reply, Agrees, hk]
  | touch k =>
    rw [spec_step_touch]
    simp only [L1Only.step, L1Only.touch]
    rw [eval_andThen_of now _ _ w tk _ _ _ (eval_std_touch now .l1 k w tk) (res_ne_panic _ _).1 (res_ne_panic _ _).2]
    cases hk : (mcTouch now w.l1 k.key k.exptime).2 <;> simp [eval_reply, Agrees, hk]
  | noop o => simp [L1Only.step, eval_reply, Spec.step, Agrees]
  | quit o q => simp [L1Only.step, eval_reply, Spec.step, Agrees]
  | version o => simp [L1Only.step, eval_reply, Spec.step, Agrees]
  | stat o => simp [L1Only.step, eval_reply, Spec.step, Agrees]
  | unknown => simp [L1Only.step, Spec.step, Agrees]

end Rend

namespace Rend

/-! ### Histories -/

inductive Port where
  | main | batch
  deriving Repr, DecidableEq

/-- What can happen between and including commands: a command on a port, the loss of any set
    of L1 entries, the passing of time. -/
inductive Act where
  | cmd (p : Port) (c : Cmd)
  | evict (lost : Bytes → Bool)
  | tick (dt : Nat)

def World.evict (w : World) (lost : Bytes → Bool) : World :=
  { w with l1 := fun k => if lost k then none else w.l1 k }

/-- The orchestrator a port runs, over pass-through handlers on both tiers. -/
def portStep : Port → Cmd → OProg (HRes Unit)
  | .main => L1L2.step (Std.handler .l1) (Std.handler .l2)
  | .batch => L1L2Batch.step (Std.handler .l1) (Std.handler .l2)

/-- Observations of a history: per command, what the orchestrator returned and emitted. -/
def runActs (now : Nat) (w : World) (tk : List Bytes) : List Act → List (HRes Unit × List OEv)
  | [] => []
  | .cmd p c :: rest =>
    (((portStep p c).eval now w tk).1, ((portStep p c).eval now w tk).2.1) ::
      runActs now ((portStep p c).eval now w tk).2.2.1 ((portStep p c).eval now w tk).2.2.2 rest
  | .evict lost :: rest => runActs now (w.evict lost) tk rest
  | .tick dt :: rest => runActs (now + dt) w tk rest

/-- Where a history ends. -/
def endActs (now : Nat) (w : World) (tk : List Bytes) : List Act → Nat × World
  | [] => (now, w)
  | .cmd p c :: rest =>
    endActs now ((portStep p c).eval now w tk).2.2.1 ((portStep p c).eval now w tk).2.2.2 rest
  | .evict lost :: rest => endActs now (w.evict lost) tk rest
  | .tick dt :: rest => endActs (now + dt) w tk rest

/-- The same history against the single map: evictions do not exist there. -/
def specActs (now : Nat) (s : Store) : List Act → List (Cmd × SOut)
  | [] => []
  | .cmd _ c :: rest => (c, (Spec.step now s c).2) :: specActs now (Spec.step now s c).1 rest
  | .evict _ :: rest => specActs now s rest
  | .tick dt :: rest => specActs (now + dt) s rest

def specEnd (now : Nat) (s : Store) : List Act → Store
  | [] => s
  | .cmd _ c :: rest => specEnd now (Spec.step now s c).1 rest
  | .evict _ :: rest => specEnd now s rest
  | .tick dt :: rest => specEnd (now + dt) s rest

/-- Observation by observation, the run says what the specification says. -/
inductive AllAgree : List (HRes Unit × List OEv) → List (Cmd × SOut) → Prop where
  | nil : AllAgree [] []
  | cons {o so os sos} : Agrees so.1 so.2 o.1 o.2 → AllAgree os sos → AllAgree (o :: os) (so :: sos)

theorem AllAgree.length_eq {os sos} (h : AllAgree os sos) : os.length = sos.length := by
  induction h with
  | nil => rfl
  | cons _ _ ih => simp [ih]

def ActsTwoTier (acts : List Act) : Prop := ∀ p c, Act.cmd p c ∈ acts → TwoTier c

theorem portStep_refines (now : Nat) (w : World) (tk : List Bytes) (p : Port) (c : Cmd) (hc : TwoTier c)
    (hinv : CacheInv now w) :
    let r := (portStep p c).eval now w tk
    r.2.2.1.l2 = (Spec.step now w.l2 c).1 ∧ CacheInv now r.2.2.1 ∧ Agrees c (Spec.step now w.l2 c).2 r.1 r.2.1 := by
  cases p
  · exact L1L2_step_refines now w tk c hc hinv
  · exact L1L2Batch_step_refines now w tk c hc hinv

/-- **Histories.**  Every history of commands on the two ports, L1 evictions and clock ticks is
    answered, command by command, as the single map answers; at its end L2 *is* the single map
    and the cache invariant holds. -/
theorem history_refines : ∀ (acts : List Act) (now : Nat) (w : World) (tk : List Bytes),
    ActsTwoTier acts → CacheInv now w →
      AllAgree (runActs now w tk acts) (specActs now w.l2 acts) ∧
      (endActs now w tk acts).2.l2 = specEnd now w.l2 acts ∧
      CacheInv (endActs now w tk acts).1 (endActs now w tk acts).2
  | [], now, w, tk, _, hinv => ⟨AllAgree.nil, rfl, hinv⟩
  | .cmd p c :: rest, now, w, tk, htt, hinv => by
    have hc : TwoTier c := htt p c (List.mem_cons_self ..)
    have hrest : ActsTwoTier rest := fun p' c' h => htt p' c' (List.mem_cons_of_mem _ h)
    obtain ⟨h1, h2, h3⟩ := portStep_refines now w tk p c hc hinv
    obtain ⟨i1, i2, i3⟩ := history_refines rest now ((portStep p c).eval now w tk).2.2.1
      ((portStep p c).eval now w tk).2.2.2 hrest h2
    simp only [runActs, specActs, endActs, specEnd]
    rw [h1] at i1 i2
    exact ⟨AllAgree.cons h3 i1, i2, i3⟩
  | .evict lost :: rest, now, w, tk, htt, hinv => by
    have hrest : ActsTwoTier rest := fun p' c' h => htt p' c' (List.mem_cons_of_mem _ h)
    exact history_refines rest now (w.evict lost) tk hrest (hinv.evict lost)
  | .tick dt :: rest, now, w, tk, htt, hinv => by
    have hrest : ActsTwoTier rest := fun p' c' h => htt p' c' (List.mem_cons_of_mem _ h)
    exact history_refines rest (now + dt) w tk hrest (hinv.mono (Nat.le_add_right _ _))

/-- Removing the evictions from a history. -/
def stripEvicts : List Act → List Act
  | [] => []
  | .evict _ :: rest => stripEvicts rest
  | a :: rest => a :: stripEvicts rest

theorem specActs_strip : ∀ (acts : List Act) (now : Nat) (s : Store),
    specActs now s (stripEvicts acts) = specActs now s acts
  | [], _, _ => rfl
  | .cmd p c :: rest, now, s => by simp [stripEvicts, specActs, specActs_strip rest]
  | .evict _ :: rest, now, s => by simp [stripEvicts, specActs, specActs_strip rest]
  | .tick dt :: rest, now, s => by simp [stripEvicts, specActs, specActs_strip rest]

theorem stripEvicts_twoTier (acts : List Act) (h : ActsTwoTier acts) : ActsTwoTier (stripEvicts acts) := by
  intro p c hm
  apply h p c
  induction acts with
  | nil => simp [stripEvicts] at hm
  | cons a rest ih =>
    cases a with
    | cmd p' c' =>
      simp only [stripEvicts, List.mem_cons] at hm ⊢
      rcases hm with hm | hm
      · exact Or.inl hm
      · exact Or.inr (ih (fun p c h' => h p c (List.mem_cons_of_mem _ h')) hm)
    | evict l =>
      simp only [stripEvicts] at hm
      exact List.mem_cons_of_mem _ (ih (fun p c h' => h p c (List.mem_cons_of_mem _ h')) hm)
    | tick dt =>
      simp only [stripEvicts, List.mem_cons] at hm ⊢
      rcases hm with hm | hm
      · exact Or.inl hm
      · exact Or.inr (ih (fun p c h' => h p c (List.mem_cons_of_mem _ h')) hm)

/-- The L1-only shape: histories of commands and ticks against its single tier. -/
def runActs1 (now : Nat) (w : World) (tk : List Bytes) : List (Nat × Cmd) → List (HRes Unit × List OEv)
  | [] => []
  | (dt, c) :: rest =>
    (((L1Only.step (Std.handler .l1) c).eval (now + dt) w tk).1, ((L1Only.step (Std.handler .l1) c).eval (now + dt) w tk).2.1) ::
      runActs1 (now + dt) ((L1Only.step (Std.handler .l1) c).eval (now + dt) w tk).2.2.1
        ((L1Only.step (Std.handler .l1) c).eval (now + dt) w tk).2.2.2 rest

def specActs1 (now : Nat) (s : Store) : List (Nat × Cmd) → List (Cmd × SOut)
  | [] => []
  | (dt, c) :: rest => (c, (Spec.step (now + dt) s c).2) :: specActs1 (now + dt) (Spec.step (now + dt) s c).1 rest

theorem history_refines_l1only : ∀ (acts : List (Nat × Cmd)) (now : Nat) (w : World) (tk : List Bytes),
    AllAgree (runActs1 now w tk acts) (specActs1 now w.l1 acts)
  | [], _, _, _ => AllAgree.nil
  | (dt, c) :: rest, now, w, tk => by
    obtain ⟨h1, _, h3⟩ := L1Only_step_refines (now + dt) w tk c
    have ih := history_refines_l1only rest (now + dt) ((L1Only.step (Std.handler .l1) c).eval (now + dt) w tk).2.2.1
      ((L1Only.step (Std.handler .l1) c).eval (now + dt) w tk).2.2.2
    simp only [runActs1, specActs1]
    rw [h1] at ih
    exact AllAgree.cons h3 ih

end Rend

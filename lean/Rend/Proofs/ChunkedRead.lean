/-
  The read path of the chunked handler against an arbitrary consistent backend store:
  a value is returned only when every chunk the metadata announces is present and carries the
  metadata's token — and then it is the announced intent's value, whole.
-/
import Rend.Proofs.ChunkedLemmas

namespace Rend.Chunked
open Rend

@[simp] theorem put_get_self (w : World) (t : Tier) : w.put t (w.get t) = w := by
  cases t <;> cases w <;> rfl

theorem look_some_iff {s : Store} {now : Nat} {k : Bytes} {it : Item} :
    s.look now k = some it ↔ s k = some it ∧ it.live now = true := by
  unfold Store.look
  cases h : s k with
  | none => simp
  | some x =>
    by_cases hl : x.live now = true
    · simp only [hl, if_true, Option.some.injEq]
      constructor
      · intro e; subst e; exact ⟨rfl, hl⟩
      · intro e; exact e.1
    · simp only [hl, Bool.false_eq_true, if_false]
      constructor
      · intro e; cases e
      · intro e; simp only [Option.some.injEq] at e; rw [e.1] at hl; exact absurd e.2 hl

/-- The chunk entries `i, …, i+n-1` of `key` that the store serves at `now`, in order. -/
def presentItems (now : Nat) (s : Store) (key : Bytes) : Nat → Nat → List Item
  | 0, _ => []
  | n + 1, i =>
    match s.look now (chunkKey key i) with
    | some it => it :: presentItems now s key n (i + 1)
    | none => presentItems now s key n (i + 1)

theorem eval_askChunks_getq {ε} (now : Nat) (t : Tier) (key : Bytes) (e : Nat) (w : World) (tk : List Bytes) :
    ∀ n i, (askChunks (ε := ε) t .getq key e n i).eval now w tk =
      ((presentItems now (w.get t) key n i).map (fun it => Resp.hit it.flags 0 it.data), [], w, tk)
  | 0, _ => rfl
  | n + 1, i => by
    simp only [askChunks, Prog.eval_bind, Prog.eval_req, Mc.exec, presentItems]
    cases h : (w.get t).look now (chunkKey key i) with
    | none => simp [eval_askChunks_getq now t key e w tk n (i + 1)]
    | some it => simp [eval_askChunks_getq now t key e w tk n (i + 1)]

theorem presentItems_length_le (now : Nat) (s : Store) (key : Bytes) : ∀ n i, (presentItems now s key n i).length ≤ n
  | 0, _ => Nat.le_refl _
  | n + 1, i => by
    simp only [presentItems]
    have := presentItems_length_le now s key n (i + 1)
    split <;> simp <;> omega

/-- All `n` entries are served exactly when the list is full; it then lists them index by index. -/
theorem presentItems_full (now : Nat) (s : Store) (key : Bytes) : ∀ n i,
    (presentItems now s key n i).length = n →
      ∀ j, j < n → s.look now (chunkKey key (i + j)) = (presentItems now s key n i)[j]?
  | 0, _, _, j, hj => by omega
  | n + 1, i, hlen, j, hj => by
    simp only [presentItems] at hlen ⊢
    have hle := presentItems_length_le now s key n (i + 1)
    cases h : s.look now (chunkKey key i) with
    | none => simp only [h] at hlen; omega
    | some it =>
      simp only [h, List.length_cons, Nat.add_right_cancel_iff] at hlen ⊢
      cases j with
      | zero => simp [h]
      | succ j =>
        have := presentItems_full now s key n (i + 1) hlen j (by omega)
        simp only [List.getElem?_cons_succ]
        rw [← this]
        congr 2
        omega

theorem foldl_miss (md : Meta) : ∀ (its : List Item) (s : ReadSt),
    (its.foldl (fun s it => hitStep md s it.data) s).miss =
      (s.miss || its.any (fun it => it.data.take Gen.chunked_tokenSize != md.token))
  | [], s => by simp
  | it :: rest, s => by
    simp only [List.foldl_cons, List.any_cons]
    rw [foldl_miss md rest, hitStep_miss, Bool.or_assoc]

/-- Outcome of `readChunks` (quiet gets) against a store, in closed form. -/
theorem eval_readChunks_getq {ε} (now : Nat) (t : Tier) (key : Bytes) (md : Meta) (w : World) (tk : List Bytes) :
    (readChunks (ε := ε) t .getq key 0 md).eval now w tk =
      (let its := presentItems now (w.get t) key md.numChunks 0
       let s := its.foldl (fun s it => hitStep md s it.data) { buf := Bytes.zeros md.length }
       if its.length != md.numChunks || s.miss then ReadOut.miss else ReadOut.value s.buf, [], w, tk) := by
  simp only [readChunks, noopEnds_ok, Prog.eval_bind, eval_askChunks_getq, Prog.eval_req, Mc.exec, put_get_self, List.append_nil]
  rw [readLoop_hits]
  have hc := foldl_hit_chunk md (presentItems now (w.get t) key md.numChunks 0) { buf := Bytes.zeros md.length }
  simp only [hc.2, hc.1, Nat.zero_add, Bool.not_true, Bool.false_eq_true, if_false]
  split <;> simp_all

/-- **All-or-nothing.**  Against any consistent store — entries missing in any combination,
    entries of several writes to the same key mixed in any way — reading the chunks announced by
    a metadata record that describes intent `h` yields a miss or `h`'s value, whole. -/
theorem readChunks_all_or_nothing {ε} (now : Nat) (t : Tier) (md : Meta) (w : World) (tk : List Bytes)
    (H : List Intent) (h : Intent) (hH : h ∈ H) (hcons : Consistent (w.get t) H) (hd : h.Describes md) :
    let r := (readChunks (ε := ε) t .getq h.key 0 md).eval now w tk
    r.2.2.1 = w ∧ (r.1 = .miss ∨ r.1 = .value h.data) := by
  rw [eval_readChunks_getq]
  refine ⟨rfl, ?_⟩
  obtain ⟨htok, hlen, _, hn, hcs⟩ := hd
  generalize hits : presentItems now (w.get t) h.key md.numChunks 0 = its
  simp only
  by_cases hfull : its.length = md.numChunks
  · by_cases hm : (its.foldl (fun s it => hitStep md s it.data) { buf := Bytes.zeros md.length }).miss = true
    · left; simp [hm]
    · right
      have hm' : its.any (fun it => it.data.take Gen.chunked_tokenSize != md.token) = false := by
        rw [foldl_miss] at hm; simpa using hm
      -- every served chunk is `h`'s own
      have hown : its.map (fun it => it.data) = (List.range' 0 md.numChunks).map h.chunkVal := by
        apply List.ext_getElem?
        intro j
        by_cases hj : j < md.numChunks
        · have hp := presentItems_full now (w.get t) h.key md.numChunks 0 (by rw [hits]; exact hfull) j hj
          rw [hits, Nat.zero_add] at hp
          have hjl : j < its.length := by omega
          have hget : its[j]? = some its[j] := List.getElem?_eq_getElem hjl
          rw [hget] at hp
          obtain ⟨hs, _⟩ := look_some_iff.mp hp
          obtain ⟨h', hH', hk', hv⟩ := hcons.chunkE h.key j its[j] hs
          -- its token is the metadata's, hence `h'` is `h`
          have hnot : (its[j].data.take Gen.chunked_tokenSize != md.token) = false := by
            have := List.any_eq_false.mp hm' its[j] (List.getElem_mem hjl)
            simpa using this
          have ht' := hcons.toklen h' hH'
          have : h'.token = h.token := by
            have e1 : its[j].data.take Gen.chunked_tokenSize = h'.token := by
              rw [hv, Intent.chunkVal, Gen.chunked_tokenSize]; exact List.take_left' ht'
            rw [e1] at hnot
            rw [← htok]; simpa using hnot
          have heq := hcons.tokens h' hH' h hH this
          subst heq
          simp [hget, hv, hj, List.getElem?_range']
        · have h1 : its.length ≤ j := by omega
          simp [List.getElem?_eq_none, h1, Nat.not_lt.mp hj]
      have hfold : its.foldl (fun s it => hitStep md s it.data) { buf := Bytes.zeros md.length } =
          ((List.range' 0 md.numChunks).map h.chunkVal).foldl (fun s d => hitStep md s d) { buf := Bytes.zeros md.length } := by
        rw [← hown, List.foldl_map]
      have hk := hcons.keylen h hH
      have hspec := h.n_spec hk
      have hz : ({ buf := Bytes.zeros md.length } : ReadSt) =
          { buf := partialBuf h.data h.ds 0, chunk := 0, miss := false, lastErr := none, sawNoop := false } := by
        rw [partialBuf_zero, hlen]
      rw [hfold, hz, foldl_own md h hlen hcs (hcons.toklen h hH) htok md.numChunks 0 none false
        (by rw [Nat.zero_add, hn, Nat.mul_comm]; exact hspec.2)]
      simp only [hfull, bne_self_eq_false, Bool.false_or, Bool.false_eq_true, if_false, Nat.zero_add]
      rw [partialBuf_full _ _ _ (by rw [hn, Nat.mul_comm]; exact hspec.1)]
  · left
    simp [hfull]

/-- The outcome of the read phase as a function of the chunk entries that were served. -/
def readResult (md : Meta) (its : List Item) : ReadOut :=
  let s := its.foldl (fun s it => hitStep md s it.data) { buf := Bytes.zeros md.length }
  if its.length != md.numChunks || s.miss then ReadOut.miss else ReadOut.value s.buf

theorem eval_readChunks_getq' {ε} (now : Nat) (t : Tier) (key : Bytes) (md : Meta) (w : World) (tk : List Bytes) :
    (readChunks (ε := ε) t .getq key 0 md).eval now w tk =
      (readResult md (presentItems now (w.get t) key md.numChunks 0), [], w, tk) :=
  eval_readChunks_getq now t key md w tk

/-- **All-or-nothing, store level**: from the chunk entries a consistent store serves for the key
    of intent `h`, under a metadata record describing `h`, the read phase produces a miss or
    `h`'s value, whole. -/
theorem readResult_sound (now : Nat) (s : Store) (md : Meta) (H : List Intent) (h : Intent) (hH : h ∈ H)
    (hcons : Consistent s H) (hd : h.Describes md) :
    readResult md (presentItems now s h.key md.numChunks 0) = .miss ∨
    readResult md (presentItems now s h.key md.numChunks 0) = .value h.data := by
  unfold readResult
  obtain ⟨htok, hlen, _, hn, hcs⟩ := hd
  generalize hits : presentItems now s h.key md.numChunks 0 = its
  simp only
  by_cases hfull : its.length = md.numChunks
  · by_cases hm : (its.foldl (fun s it => hitStep md s it.data) { buf := Bytes.zeros md.length }).miss = true
    · left; simp [hm]
    · right
      have hm' : its.any (fun it => it.data.take Gen.chunked_tokenSize != md.token) = false := by
        rw [foldl_miss] at hm; simpa using hm
      -- every served chunk is `h`'s own
      have hown : its.map (fun it => it.data) = (List.range' 0 md.numChunks).map h.chunkVal := by
        apply List.ext_getElem?
        intro j
        by_cases hj : j < md.numChunks
        · have hp := presentItems_full now s h.key md.numChunks 0 (by rw [hits]; exact hfull) j hj
          rw [hits, Nat.zero_add] at hp
          have hjl : j < its.length := by omega
          have hget : its[j]? = some its[j] := List.getElem?_eq_getElem hjl
          rw [hget] at hp
          obtain ⟨hs, _⟩ := look_some_iff.mp hp
          obtain ⟨h', hH', hk', hv⟩ := hcons.chunkE h.key j its[j] hs
          -- its token is the metadata's, hence `h'` is `h`
          have hnot : (its[j].data.take Gen.chunked_tokenSize != md.token) = false := by
            have := List.any_eq_false.mp hm' its[j] (List.getElem_mem hjl)
            simpa using this
          have ht' := hcons.toklen h' hH'
          have : h'.token = h.token := by
            have e1 : its[j].data.take Gen.chunked_tokenSize = h'.token := by
              rw [hv, Intent.chunkVal, Gen.chunked_tokenSize]; exact List.take_left' ht'
            rw [e1] at hnot
            rw [← htok]; simpa using hnot
          have heq := hcons.tokens h' hH' h hH this
          subst heq
          simp [hget, hv, hj, List.getElem?_range']
        · have h1 : its.length ≤ j := by omega
          simp [List.getElem?_eq_none, h1, Nat.not_lt.mp hj]
      have hfold : its.foldl (fun s it => hitStep md s it.data) { buf := Bytes.zeros md.length } =
          ((List.range' 0 md.numChunks).map h.chunkVal).foldl (fun s d => hitStep md s d) { buf := Bytes.zeros md.length } := by
        rw [← hown, List.foldl_map]
      have hk := hcons.keylen h hH
      have hspec := h.n_spec hk
      have hz : ({ buf := Bytes.zeros md.length } : ReadSt) =
          { buf := partialBuf h.data h.ds 0, chunk := 0, miss := false, lastErr := none, sawNoop := false } := by
        rw [partialBuf_zero, hlen]
      rw [hfold, hz, foldl_own md h hlen hcs (hcons.toklen h hH) htok md.numChunks 0 none false
        (by rw [Nat.zero_add, hn, Nat.mul_comm]; exact hspec.2)]
      simp only [hfull, bne_self_eq_false, Bool.false_or, Bool.false_eq_true, if_false, Nat.zero_add]
      rw [partialBuf_full _ _ _ (by rw [hn, Nat.mul_comm]; exact hspec.1)]
  · left
    simp [hfull]


end Rend.Chunked

/-
  Writes of the chunked handler keep the backend store consistent, request by request —
  hence under every interleaving of the requests of any number of writers and any loss of entries.
-/
import Rend.Proofs.ChunkedRead
import Rend.Proofs.ProgLemmas

namespace Rend.Chunked
open Rend

/-- Request `r` writes one entry of intent `h`: its metadata record or one of its chunks. -/
def IsWriteOf (h : Intent) (r : Req) : Prop :=
  (r.key = metaKey h.key ∧ ∃ m : Meta, r.value = encodeMeta m ∧ m.WF ∧ h.Describes m) ∨
  (∃ i, r.key = chunkKey h.key i ∧ r.value = h.chunkVal i)

/-- The requests the chunked handler's set and read paths send: a write of an entry of one of
    the intents, or anything that stores no new value. -/
def ReqOK (H : List Intent) (r : Req) : Prop :=
  match r.op with
  | .set | .add | .replace => ∃ h ∈ H, IsWriteOf h r
  | .append | .prepend => False
  | _ => True

theorem Consistent.empty (H : List Intent) (ht : ∀ h ∈ H, ∀ h' ∈ H, h.token = h'.token → h = h')
    (hl : ∀ h ∈ H, h.token.length = 16) (hk : ∀ h ∈ H, h.key.length ≤ 250) : Consistent Store.empty H :=
  ⟨fun _ _ h => by simp [Store.empty] at h, fun _ _ _ h => by simp [Store.empty] at h, ht, hl, hk⟩

/-- Losing any entry keeps the store consistent. -/
theorem Consistent.drop {s : Store} {H : List Intent} (hc : Consistent s H) (k : Bytes) : Consistent (s.set k none) H := by
  refine ⟨?_, ?_, hc.tokens, hc.toklen, hc.keylen⟩
  · intro key it h
    simp only [Store.set] at h
    split at h
    · cases h
    · exact hc.metaE key it h
  · intro key i it h
    simp only [Store.set] at h
    split at h
    · cases h
    · exact hc.chunkE key i it h

/-- Changing flags / deadline of an entry (touch, get-and-touch) keeps the store consistent. -/
theorem Consistent.retime {s : Store} {H : List Intent} (hc : Consistent s H) (k : Bytes) (it : Item) (hs : s k = some it)
    (f d : Nat) : Consistent (s.set k (some ⟨it.data, f, d⟩)) H := by
  refine ⟨?_, ?_, hc.tokens, hc.toklen, hc.keylen⟩
  · intro key it' h
    simp only [Store.set] at h
    split at h
    · rename_i hk
      simp only [Option.some.injEq] at h
      subst h
      exact hc.metaE key it (hk ▸ hs)
    · exact hc.metaE key it' h
  · intro key i it' h
    simp only [Store.set] at h
    split at h
    · rename_i hk
      simp only [Option.some.injEq] at h
      subst h
      exact hc.chunkE key i it (hk ▸ hs)
    · exact hc.chunkE key i it' h

/-- Writing one entry of an intent keeps the store consistent. -/
theorem Consistent.write {s : Store} {H : List Intent} (hc : Consistent s H) (h : Intent) (hH : h ∈ H) (r : Req)
    (hw : IsWriteOf h r) (f d : Nat) : Consistent (s.set r.key (some ⟨r.value, f, d⟩)) H := by
  refine ⟨?_, ?_, hc.tokens, hc.toklen, hc.keylen⟩
  · intro key it hs
    simp only [Store.set] at hs
    split at hs
    · rename_i hk
      simp only [Option.some.injEq] at hs
      subst hs
      rcases hw with ⟨hkey, m, hv, hwf, hd⟩ | ⟨i, hkey, _⟩
      · have : key = h.key := metaKey_inj _ _ (hk.trans hkey)
        exact ⟨h, hH, this.symm, by simp only [hv, decode_encode m hwf]; exact hd⟩
      · exact absurd (hk.trans hkey) (metaKey_ne_chunkKey _ _ _)
    · exact hc.metaE key it hs
  · intro key i it hs
    simp only [Store.set] at hs
    split at hs
    · rename_i hk
      simp only [Option.some.injEq] at hs
      subst hs
      rcases hw with ⟨hkey, _⟩ | ⟨j, hkey, hv⟩
      · exact absurd (hkey.symm.trans hk.symm) (metaKey_ne_chunkKey _ _ _)
      · obtain ⟨h1, h2⟩ := chunkKey_inj _ _ _ _ (hk.trans hkey)
        exact ⟨h, hH, h1.symm, by simp only [hv, h2]⟩
    · exact hc.chunkE key i it hs

/-- **One backend request** of the allowed kind keeps the store consistent. -/
theorem Consistent.exec {s : Store} {H : List Intent} (hc : Consistent s H) (now : Nat) (r : Req) (hr : ReqOK H r) :
    Consistent (Mc.exec now s r).1 H := by
  unfold ReqOK at hr
  cases hop : r.op <;> simp only [hop] at hr <;> simp only [Mc.exec, hop]
  case get => split <;> exact hc
  case getq => split <;> exact hc
  case gete => split <;> exact hc
  case geteq => split <;> exact hc
  case noop => exact hc
  case gat =>
    split
    · rename_i it hl
      exact hc.retime r.key it (look_some_iff.mp hl).1 _ _
    · exact hc
  case gatq =>
    split
    · rename_i it hl
      exact hc.retime r.key it (look_some_iff.mp hl).1 _ _
    · exact hc
  case touch =>
    split
    · rename_i it hl
      exact hc.retime r.key it (look_some_iff.mp hl).1 _ _
    · exact hc
  case delete =>
    split
    · exact hc.drop r.key
    · exact hc
  case set =>
    obtain ⟨h, hH, hw⟩ := hr
    exact hc.write h hH r hw _ _
  case add =>
    obtain ⟨h, hH, hw⟩ := hr
    split
    · exact hc
    · exact hc.write h hH r hw _ _
  case replace =>
    obtain ⟨h, hH, hw⟩ := hr
    split
    · exact hc.write h hH r hw _ _
    · exact hc

/-- **Every interleaving.**  Any sequence of allowed requests (of any number of writers and
    readers, in any order, at any times) and of entry losses, from the empty store, leaves a
    consistent store. -/
theorem consistent_histories (H : List Intent) (ht : ∀ h ∈ H, ∀ h' ∈ H, h.token = h'.token → h = h')
    (hl : ∀ h ∈ H, h.token.length = 16) (hk : ∀ h ∈ H, h.key.length ≤ 250) :
    ∀ (ops : List (Nat × Req ⊕ Bytes)), (∀ now r, Sum.inl (now, r) ∈ ops → ReqOK H r) →
      Consistent (ops.foldl (fun s op => match op with
        | .inl (now, r) => (Mc.exec now s r).1
        | .inr k => s.set k none) Store.empty) H := by
  intro ops
  suffices ∀ s, Consistent s H → (∀ now r, Sum.inl (now, r) ∈ ops → ReqOK H r) →
      Consistent (ops.foldl (fun s op => match op with
        | .inl (now, r) => (Mc.exec now s r).1
        | .inr k => s.set k none) s) H from this _ (Consistent.empty H ht hl hk)
  induction ops with
  | nil => intro s hs _; exact hs
  | cons op rest ih =>
    intro s hs hall
    simp only [List.foldl_cons]
    apply ih
    · cases op with
      | inl p => exact hs.exec p.1 p.2 (hall p.1 p.2 (List.mem_cons_self ..))
      | inr k => exact hs.drop k
    · intro now r hm
      exact hall now r (List.mem_cons_of_mem _ hm)

end Rend.Chunked

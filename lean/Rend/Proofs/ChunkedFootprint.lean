/-
  Footprint of the chunked handler: every request of every method addresses the metadata entry or
  a numbered chunk of the client key it was called for (or is a key-less noop) — whatever the
  backend answers.
-/
import Rend.Proofs.ChunkedRoundTrip

namespace Rend.Chunked
open Rend

/-- Request `r` addresses a backend entry derived from client key `key` (or none at all). -/
def Derived (key : Bytes) (_t : Tier) (r : Req) : Prop :=
  r.op = .noop ∨ r.key = metaKey key ∨ ∃ i, r.key = chunkKey key i

variable {ε : Type}

theorem writeChunks_derived (t : Tier) (c : SetCmd) (token : Bytes) (ds : Nat) (n i : Nat) :
    AllReqs (Derived c.key) (writeChunks (ε := ε) t c token ds n i) := by
  induction n generalizing i with
  | zero => exact AllReqs.ret _
  | succ n ih =>
    unfold writeChunks
    apply AllReqs.bind
    · exact AllReqs.req _ _ (Or.inr (Or.inr ⟨i, rfl⟩))
    · intro r
      cases r with
      | io => exact AllReqs.ret _
      | wfail => exact AllReqs.ret _
      | status s =>
        simp only
        split
        · exact AllReqs.ret _
        · exact ih (i + 1)
      | hit f e d => exact ih (i + 1)
      | ok => exact ih (i + 1)
      | silent => exact ih (i + 1)

theorem setCommon_derived (t : Tier) (now : Nat) (k : SetKind) (c : SetCmd) :
    AllReqs (Derived c.key) (setCommon (ε := ε) t now k c) := by
  unfold setCommon
  simp only
  apply AllReqs.draw
  intro token _
  apply AllReqs.call
  · exact Or.inr (Or.inl rfl)
  · intro r
    cases r <;> simp only [Prog.bind]
    all_goals first
      | exact AllReqs.ret _
      | exact writeChunks_derived t c token _ _ 0
      | (split
         · exact AllReqs.ret _
         · exact writeChunks_derived t c token _ _ 0)

theorem askChunks_derived (t : Tier) (op : Op) (key : Bytes) (e n i : Nat) :
    AllReqs (Derived key) (askChunks (ε := ε) t op key e n i) := by
  induction n generalizing i with
  | zero => exact AllReqs.ret _
  | succ n ih =>
    unfold askChunks
    apply AllReqs.bind
    · exact AllReqs.req _ _ (Or.inr (Or.inr ⟨i, rfl⟩))
    · intro r
      apply AllReqs.bind (ih (i + 1))
      intro rest
      cases r <;> exact AllReqs.ret _

theorem readChunks_derived (t : Tier) (op : Op) (key : Bytes) (e : Nat) (md : Meta) :
    AllReqs (Derived key) (readChunks (ε := ε) t op key e md) := by
  unfold readChunks
  apply AllReqs.bind (askChunks_derived t op key e _ 0)
  intro rs
  apply AllReqs.bind
  · exact AllReqs.req _ _ (Or.inl rfl)
  · intro nr
    simp only
    split
    · exact AllReqs.ret _
    · split
      · exact AllReqs.ret _
      · split <;> exact AllReqs.ret _

theorem pipeChunks_derived (t : Tier) (mk : Bytes → Req) (hmk : ∀ k, (mk k).key = k) (key : Bytes) (n i : Nat) :
    AllReqs (Derived key) (pipeChunks (ε := ε) t mk key n i) := by
  induction n generalizing i with
  | zero => exact AllReqs.ret _
  | succ n ih =>
    unfold pipeChunks
    apply AllReqs.bind
    · exact AllReqs.req _ _ (Or.inr (Or.inr ⟨i, hmk _⟩))
    · intro r
      apply AllReqs.bind (ih (i + 1))
      intro m
      cases r <;> exact AllReqs.ret _

theorem store_derived (t : Tier) (now : Nat) (k : SetKind) (c : SetCmd) :
    AllReqs (Derived c.key) (Chunked.store (ε := ε) t now k c) := by
  have hpend : AllReqs (Derived c.key) (pend (ε := ε) t now k c) := by
    unfold pend
    apply AllReqs.bind
    · exact AllReqs.req _ _ (Or.inr (Or.inl rfl))
    · intro mr
      simp only
      split
      · exact AllReqs.ret _
      · rename_i md _
        apply AllReqs.bind (readChunks_derived t .getq c.key 0 md)
        intro ro
        cases ro with
        | err e => exact AllReqs.ret _
        | miss => exact AllReqs.ret _
        | value d => exact setCommon_derived t now .set { key := c.key, data := _, flags := md.origFlags, exptime := md.exptime }
  unfold Chunked.store
  cases k
  · exact setCommon_derived t now _ c
  · exact setCommon_derived t now _ c
  · exact setCommon_derived t now _ c
  · exact hpend
  · exact hpend

theorem gat_derived (t : Tier) (c : KeyCmd) : AllReqs (Derived c.key) (Chunked.gat (ε := ε) t c) := by
  unfold Chunked.gat
  apply AllReqs.bind
  · exact AllReqs.req _ _ (Or.inr (Or.inl rfl))
  · intro mr
    try simp only
    split
    · exact AllReqs.ret _
    · exact AllReqs.ret _
    · rename_i md _
      apply AllReqs.bind (readChunks_derived t .gatq c.key c.exptime md)
      intro ro
      cases ro <;> exact AllReqs.ret _

theorem delete_derived (t : Tier) (c : KeyCmd) : AllReqs (Derived c.key) (Chunked.delete (ε := ε) t c) := by
  unfold Chunked.delete
  apply AllReqs.bind
  · exact AllReqs.req _ _ (Or.inr (Or.inl rfl))
  · intro mr
    simp only
    split
    · exact AllReqs.ret _
    · rename_i md _
      apply AllReqs.bind
      · exact AllReqs.req _ _ (Or.inr (Or.inl rfl))
      · intro dr
        try simp only
        split
        · exact AllReqs.ret _
        · apply AllReqs.bind (pipeChunks_derived t _ (fun _ => rfl) c.key _ 0)
          intro m
          split <;> exact AllReqs.ret _

theorem touch_derived (t : Tier) (now : Nat) (c : KeyCmd) : AllReqs (Derived c.key) (Chunked.touch (ε := ε) t now c) := by
  unfold Chunked.touch
  apply AllReqs.bind
  · exact AllReqs.req _ _ (Or.inr (Or.inl rfl))
  · intro mr
    simp only
    split
    · exact AllReqs.ret _
    · rename_i md _
      apply AllReqs.bind (pipeChunks_derived t _ (fun _ => rfl) c.key _ 0)
      intro m
      split
      · exact AllReqs.ret _
      · try simp only
        apply AllReqs.bind
        · exact AllReqs.req _ _ (Or.inr (Or.inl rfl))
        · intro r
          cases r <;> simp only
          all_goals first
            | exact AllReqs.ret _
            | (split <;> exact AllReqs.ret _)

theorem getLoop_derived (t : Tier) : ∀ ks : List GetKey,
    AllReqs (fun t r => ∃ g ∈ ks, Derived g.key t r) (getLoop (ε := ε) t ks)
  | [] => AllReqs.ret _
  | g :: rest => by
    have ih : AllReqs (fun t r => ∃ g' ∈ g :: rest, Derived g'.key t r) (getLoop (ε := ε) t rest) :=
      (getLoop_derived t rest).mono (fun t r ⟨g', hg, hd⟩ => ⟨g', List.mem_cons_of_mem _ hg, hd⟩)
    have here : ∀ {α} {p : Prog ε α}, AllReqs (Derived g.key) p → AllReqs (fun t r => ∃ g' ∈ g :: rest, Derived g'.key t r) p :=
      fun hp => hp.mono (fun t r hd => ⟨g, List.mem_cons_self .., hd⟩)
    unfold getLoop
    apply AllReqs.bind
    · exact here (AllReqs.req _ _ (Or.inr (Or.inl rfl)))
    · intro mr
      simp only
      split
      · apply AllReqs.bind ih
        intro x; exact AllReqs.ret _
      · exact AllReqs.ret _
      · rename_i md _
        apply AllReqs.bind (here (readChunks_derived t .getq g.key 0 md))
        intro ro
        cases ro with
        | err e => exact AllReqs.ret _
        | miss =>
          apply AllReqs.bind ih
          intro x; exact AllReqs.ret _
        | value d =>
          apply AllReqs.bind ih
          intro x; exact AllReqs.ret _

/-- Entries derived from distinct client keys are distinct: no two keys share a backend entry. -/
theorem derived_disjoint (k k' : Bytes) (t : Tier) (r : Req) (h : Derived k t r) (h' : Derived k' t r)
    (hop : r.op ≠ .noop) : k = k' := by
  rcases h with h | h | ⟨i, h⟩
  · exact absurd h hop
  · rcases h' with h' | h' | ⟨j, h'⟩
    · exact absurd h' hop
    · exact metaKey_inj _ _ (h.symm.trans h')
    · exact absurd (h.symm.trans h') (metaKey_ne_chunkKey _ _ _)
  · rcases h' with h' | h' | ⟨j, h'⟩
    · exact absurd h' hop
    · exact absurd (h'.symm.trans h) (metaKey_ne_chunkKey _ _ _)
    · exact (chunkKey_inj _ _ _ _ (h.symm.trans h')).1

/-- A request leaves every entry other than the one it addresses as it was. -/
theorem exec_other (now : Nat) (s : Store) (r : Req) (k : Bytes) (h : k ≠ r.key) : (Mc.exec now s r).1 k = s k := by
  unfold Mc.exec
  cases r.op <;> simp only <;> (try split) <;> simp [Store.set, h]

/-- Semantic footprint: a program none of whose requests addresses `k` on tier `t0` leaves `k` untouched. -/
theorem eval_untouched {α} (now : Nat) (t0 : Tier) (k : Bytes) (p : Prog ε α)
    (hp : AllReqs (fun t r => t = t0 → r.op = .noop ∨ r.key ≠ k) p) :
    ∀ (w : World) (tk : List Bytes), (∀ x ∈ tk, x.length = 16) → ((p.eval now w tk).2.2.1.get t0) k = (w.get t0) k := by
  induction hp with
  | ret a => intro w tk _; rfl
  | call t r kk hr _ ih =>
    intro w tk htk
    simp only [Prog.eval]
    rw [ih _ _ _ htk]
    by_cases ht : t = t0
    · subst ht
      simp only [World.get_put_same]
      rcases hr rfl with h | h
      · simp [Mc.exec, h]
      · exact exec_other now _ r k (Ne.symm h)
    · cases t <;> cases t0 <;> simp_all [World.get, World.put]
  | draw kk _ ih =>
    intro w tk htk
    cases tk with
    | nil => simp only [Prog.eval]; exact ih _ (by simp [Bytes.zeros]) w [] (by simp)
    | cons x xs =>
      simp only [Prog.eval]
      exact ih x (htk x (List.mem_cons_self ..)) w xs (fun y hy => htk y (List.mem_cons_of_mem _ hy))
  | emit e p _ ih => intro w tk htk; simp only [Prog.eval]; exact ih w tk htk

end Rend.Chunked

namespace Rend.Chunked
open Rend
variable {ε : Type}

theorem pipeChunks_chunks (t : Tier) (mk : Bytes → Req) (hmk : ∀ k, (mk k).key = k) (key : Bytes) (n i : Nat) :
    AllReqs (fun _ r => ∃ j, r.key = chunkKey key j) (pipeChunks (ε := ε) t mk key n i) := by
  induction n generalizing i with
  | zero => exact AllReqs.ret _
  | succ n ih =>
    unfold pipeChunks
    apply AllReqs.bind
    · exact AllReqs.req _ _ ⟨i, hmk _⟩
    · intro r
      apply AllReqs.bind (ih (i + 1))
      intro m
      cases r <;> exact AllReqs.ret _

/-- After a `delete` (fault-free) the key's metadata entry is gone, whatever the store held. -/
theorem delete_removes_meta (now : Nat) (t : Tier) (c : KeyCmd) (w : World) (tk : List Bytes)
    (htk : ∀ x ∈ tk, x.length = 16) :
    (((Chunked.delete (ε := ε) t c).eval now w tk).2.2.1.get t).look now (metaKey c.key) = none := by
  simp only [Chunked.delete, Prog.eval_bind, Prog.eval_req, Mc.exec]
  cases hl : (w.get t).look now (metaKey c.key) with
  | none => simp [metaOf, decode_notFound', hl]
  | some it =>
    simp only [put_get_self, metaOf, hl, Prog.eval_bind, Prog.eval_req, Mc.exec]
    have hp := pipeChunks_chunks (ε := ε) t (fun k => { op := .delete, key := k }) (fun _ => rfl) c.key
      (decodeMeta it.data).numChunks 0
    have hu := eval_untouched now t (metaKey c.key) _
      (hp.mono (fun _ r ⟨j, hj⟩ _ => Or.inr (by rw [hj]; exact (metaKey_ne_chunkKey _ _ _).symm)))
      (w.put t ((w.get t).set (metaKey c.key) none)) tk htk
    have hnone : ∀ s : Store, s (metaKey c.key) = none → s.look now (metaKey c.key) = none := by
      intro s hs; simp [Store.look, hs]
    split
    · simp only [Prog.eval_pure]; apply hnone; rw [hu]; simp [Store.set]
    · simp only [Prog.eval_pure]; apply hnone; rw [hu]; simp [Store.set]

/-- …so a following get of that key misses. -/
theorem delete_then_get_misses (now : Nat) (t : Tier) (c : KeyCmd) (g : GetKey) (hg : g.key = c.key) (w : World)
    (tk : List Bytes) (htk : ∀ x ∈ tk, x.length = 16) :
    ((getLoop (ε := ε) t [g]).eval now ((Chunked.delete (ε := ε) t c).eval now w tk).2.2.1 tk).1 =
      ([{ key := g.key, opq := g.opq, miss := true, quiet := g.quiet }], none) := by
  have h := delete_removes_meta (ε := ε) now t c w tk htk
  simp only [getLoop, Prog.eval_bind, Prog.eval_req, Mc.exec, hg, h, metaOf, decode_notFound', Prog.eval_pure]

end Rend.Chunked

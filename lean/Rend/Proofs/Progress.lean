/-
  Progress over the scheduler semantics (`Conc.Step1`: exclusive locks, `Conc.StepR`: shared read
  locks).  A connection holds at most one lock at a time (C12: one acquire, one release per
  critical section), so in this semantics

    * a connection inside its critical section is never blocked: its next step is always admitted;
    * it can run to the end of its section by its own steps alone, whatever the others are doing
      (so under any scheduler that keeps running lock holders every lock is released);
    * an idle connection is refused its lock only while a connection INSIDE a critical section of
      the same stripe exists (for shared locks: one that is, or that makes the pair, a writer);
    * hence no configuration with unfinished connections is stuck (no deadlock).

  Core-only.
-/
import Rend.Proofs.SerialMR

namespace Rend.Conc
open Rend

/-- Steps of one connection only. -/
def OnlyBy (i : Nat) (sched : List Step) : Prop :=
  ∀ s ∈ sched, s = .act i ∨ s = .rel i

theorem Exec.append {α : Type} {now : Nat} {thr : Nat → Thread α} {c c' c'' : Conf α} {s1 s2 : List Step}
    (h1 : Exec now thr c s1 c') (h2 : Exec now thr c' s2 c'') : Exec now thr c (s1 ++ s2) c'' := by
  induction h1 with
  | nil c => exact h2
  | cons c d e s rest hs _ ih => exact Exec.cons c d _ s _ hs (ih h2)

theorem ExecR.append {now : Nat} {thr : Nat → CThread} {c c' c'' : Conf (HRes Unit)} {s1 s2 : List Step}
    (h1 : ExecR now thr c s1 c') (h2 : ExecR now thr c' s2 c'') : ExecR now thr c (s1 ++ s2) c'' := by
  induction h1 with
  | nil c => exact h2
  | cons c d e s rest hs _ ih => exact ExecR.cons c d _ s _ hs (ih h2)

/-! ### exclusive locks -/

/-- A connection inside its critical section always has an admitted step. -/
theorem holder_steps {α : Type} (now : Nat) (thr : Nat → Thread α) (c : Conf α) (i : Nat) (p : Prog OEv α)
    (evs : List OEv) (h : c.ts i = .running p evs) : ∃ s c', Step1 now thr c s c' ∧ (s = .act i ∨ s = .rel i) := by
  cases p with
  | ret a => exact ⟨.rel i, _, Step1.rel c i a evs h, Or.inr rfl⟩
  | call t r k => exact ⟨.act i, _, Step1.call c i t r k evs h, Or.inl rfl⟩
  | draw k => exact ⟨.act i, _, Step1.draw c i k evs h, Or.inl rfl⟩
  | emit e p => exact ⟨.act i, _, Step1.emit c i e p evs h, Or.inl rfl⟩

/-- A connection inside its critical section can finish it — and release its lock — by its own
    steps alone, from any configuration. -/
theorem holder_finishes {α : Type} (now : Nat) (thr : Nat → Thread α) (i : Nat) :
    ∀ (p : Prog OEv α) (c : Conf α) (evs : List OEv), c.ts i = .running p evs →
      ∃ sched c' a evs', Exec now thr c sched c' ∧ OnlyBy i sched ∧ c'.ts i = .done a evs'
  | .ret a, c, evs, h =>
    ⟨[.rel i], _, a, evs, Exec.cons _ _ _ _ _ (Step1.rel c i a evs h) (Exec.nil _),
      by intro s hs; simp only [List.mem_singleton] at hs; exact Or.inr hs, set_self _ _ _⟩
  | .call t r k, c, evs, h => by
    obtain ⟨sched, c', a, evs', he, ho, hd⟩ :=
      holder_finishes now thr i (k (Mc.exec now (c.w.get t) r).2)
        (Conf.set { w := c.w.put t (Mc.exec now (c.w.get t) r).1, ts := c.ts } i
          (.running (k (Mc.exec now (c.w.get t) r).2) evs)) evs (set_self _ _ _)
    refine ⟨.act i :: sched, c', a, evs', Exec.cons _ _ _ _ _ (Step1.call c i t r k evs h) he, ?_, hd⟩
    intro s hs
    rcases List.mem_cons.mp hs with rfl | hs
    · exact Or.inl rfl
    · exact ho s hs
  | .draw k, c, evs, h => by
    obtain ⟨sched, c', a, evs', he, ho, hd⟩ :=
      holder_finishes now thr i (k (Bytes.zeros 16)) (c.set i (.running (k (Bytes.zeros 16)) evs)) evs (set_self _ _ _)
    refine ⟨.act i :: sched, c', a, evs', Exec.cons _ _ _ _ _ (Step1.draw c i k evs h) he, ?_, hd⟩
    intro s hs
    rcases List.mem_cons.mp hs with rfl | hs
    · exact Or.inl rfl
    · exact ho s hs
  | .emit e p, c, evs, h => by
    obtain ⟨sched, c', a, evs', he, ho, hd⟩ :=
      holder_finishes now thr i p (c.set i (.running p (evs ++ [e]))) (evs ++ [e]) (set_self _ _ _)
    refine ⟨.act i :: sched, c', a, evs', Exec.cons _ _ _ _ _ (Step1.emit c i e p evs h) he, ?_, hd⟩
    intro s hs
    rcases List.mem_cons.mp hs with rfl | hs
    · exact Or.inl rfl
    · exact ho s hs

/-- An idle connection gets its lock as soon as nobody is inside a critical section of its stripe. -/
theorem idle_acquires {α : Type} (now : Nat) (thr : Nat → Thread α) (c : Conf α) (i : Nat) (h : c.ts i = .idle)
    (hfree : ∀ j p evs, c.ts j = .running p evs → (thr j).stripe ≠ (thr i).stripe) :
    ∃ c', Step1 now thr c (.acq i) c' :=
  ⟨_, Step1.acq c i h hfree⟩

/-- **No deadlock (exclusive locks).**  A configuration in which some connection has not finished
    admits a step. -/
theorem no_deadlock {α : Type} (now : Nat) (thr : Nat → Thread α) (c : Conf α)
    (h : ∃ i, ∀ a evs, c.ts i ≠ .done a evs) : ∃ s c', Step1 now thr c s c' := by
  by_cases hr : ∃ j p evs, c.ts j = .running p evs
  · obtain ⟨j, p, evs, hj⟩ := hr
    obtain ⟨s, c', hs, _⟩ := holder_steps now thr c j p evs hj
    exact ⟨s, c', hs⟩
  · obtain ⟨i, hi⟩ := h
    have hidle : c.ts i = .idle := by
      cases hc : c.ts i with
      | idle => rfl
      | running p evs => exact absurd ⟨i, p, evs, hc⟩ hr
      | done a evs => exact absurd hc (hi a evs)
    exact ⟨.acq i, _, Step1.acq c i hidle (fun j p evs hj => absurd ⟨j, p, evs, hj⟩ hr)⟩

/-! ### shared read locks -/

theorem holder_stepsR (now : Nat) (thr : Nat → CThread) (c : Conf (HRes Unit)) (i : Nat) (p : Prog OEv (HRes Unit))
    (evs : List OEv) (h : c.ts i = .running p evs) : ∃ s c', StepR now thr c s c' ∧ (s = .act i ∨ s = .rel i) := by
  cases p with
  | ret a => exact ⟨.rel i, _, StepR.rel c i a evs h, Or.inr rfl⟩
  | call t r k => exact ⟨.act i, _, StepR.call c i t r k evs h, Or.inl rfl⟩
  | draw k => exact ⟨.act i, _, StepR.draw c i k evs h, Or.inl rfl⟩
  | emit e p => exact ⟨.act i, _, StepR.emit c i e p evs h, Or.inl rfl⟩

theorem holder_finishesR (now : Nat) (thr : Nat → CThread) (i : Nat) :
    ∀ (p : Prog OEv (HRes Unit)) (c : Conf (HRes Unit)) (evs : List OEv), c.ts i = .running p evs →
      ∃ sched c' a evs', ExecR now thr c sched c' ∧ OnlyBy i sched ∧ c'.ts i = .done a evs'
  | .ret a, c, evs, h =>
    ⟨[.rel i], _, a, evs, ExecR.cons _ _ _ _ _ (StepR.rel c i a evs h) (ExecR.nil _),
      by intro s hs; simp only [List.mem_singleton] at hs; exact Or.inr hs, set_self _ _ _⟩
  | .call t r k, c, evs, h => by
    obtain ⟨sched, c', a, evs', he, ho, hd⟩ :=
      holder_finishesR now thr i (k (Mc.exec now (c.w.get t) r).2)
        (Conf.set { w := c.w.put t (Mc.exec now (c.w.get t) r).1, ts := c.ts } i
          (.running (k (Mc.exec now (c.w.get t) r).2) evs)) evs (set_self _ _ _)
    refine ⟨.act i :: sched, c', a, evs', ExecR.cons _ _ _ _ _ (StepR.call c i t r k evs h) he, ?_, hd⟩
    intro s hs
    rcases List.mem_cons.mp hs with rfl | hs
    · exact Or.inl rfl
    · exact ho s hs
  | .draw k, c, evs, h => by
    obtain ⟨sched, c', a, evs', he, ho, hd⟩ :=
      holder_finishesR now thr i (k (Bytes.zeros 16)) (c.set i (.running (k (Bytes.zeros 16)) evs)) evs (set_self _ _ _)
    refine ⟨.act i :: sched, c', a, evs', ExecR.cons _ _ _ _ _ (StepR.draw c i k evs h) he, ?_, hd⟩
    intro s hs
    rcases List.mem_cons.mp hs with rfl | hs
    · exact Or.inl rfl
    · exact ho s hs
  | .emit e p, c, evs, h => by
    obtain ⟨sched, c', a, evs', he, ho, hd⟩ :=
      holder_finishesR now thr i p (c.set i (.running p (evs ++ [e]))) (evs ++ [e]) (set_self _ _ _)
    refine ⟨.act i :: sched, c', a, evs', ExecR.cons _ _ _ _ _ (StepR.emit c i e p evs h) he, ?_, hd⟩
    intro s hs
    rcases List.mem_cons.mp hs with rfl | hs
    · exact Or.inl rfl
    · exact ho s hs

/-- **No deadlock (shared read locks).** -/
theorem no_deadlockR (now : Nat) (thr : Nat → CThread) (c : Conf (HRes Unit))
    (h : ∃ i, ∀ a evs, c.ts i ≠ .done a evs) : ∃ s c', StepR now thr c s c' := by
  by_cases hr : ∃ j p evs, c.ts j = .running p evs
  · obtain ⟨j, p, evs, hj⟩ := hr
    obtain ⟨s, c', hs, _⟩ := holder_stepsR now thr c j p evs hj
    exact ⟨s, c', hs⟩
  · obtain ⟨i, hi⟩ := h
    have hidle : c.ts i = .idle := by
      cases hc : c.ts i with
      | idle => rfl
      | running p evs => exact absurd ⟨i, p, evs, hc⟩ hr
      | done a evs => exact absurd hc (hi a evs)
    exact ⟨.acq i, _, StepR.acq c i hidle (fun j p evs hj => absurd ⟨j, p, evs, hj⟩ hr)⟩

/-- Steps of other connections never take a lock holder out of its critical section or change
    its program: what `holder_finishes` needs stays true however long the holder is kept waiting. -/
theorem others_keep_holder {α : Type} (now : Nat) (thr : Nat → Thread α) (c c' : Conf α) (s : Step) (i : Nat)
    (p : Prog OEv α) (evs : List OEv) (h : c.ts i = .running p evs) (hs : Step1 now thr c s c')
    (hne : s ≠ .act i ∧ s ≠ .rel i) : c'.ts i = .running p evs := by
  cases hs with
  | acq j hj _ =>
    by_cases hji : i = j
    · subst hji; rw [h] at hj; cases hj
    · simp [Conf.set, hji, h]
  | call j t r k evs' hj =>
    by_cases hji : i = j
    · subst hji; exact absurd rfl hne.1
    · simp [Conf.set, hji, h]
  | emit j e q evs' hj =>
    by_cases hji : i = j
    · subst hji; exact absurd rfl hne.1
    · simp [Conf.set, hji, h]
  | draw j k evs' hj =>
    by_cases hji : i = j
    · subst hji; exact absurd rfl hne.1
    · simp [Conf.set, hji, h]
  | rel j a evs' hj =>
    by_cases hji : i = j
    · subst hji; exact absurd rfl hne.2
    · simp [Conf.set, hji, h]

end Rend.Conc

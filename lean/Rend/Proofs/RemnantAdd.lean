/-
  Finding D23 in the model: with a chunked L1 in front of L2, an `add` of a key that L2 does not
  hold, while L1 still holds a live METADATA entry of that key (what stays behind when L1 loses a
  chunk entry and the key ends in L2), is stored in L2 and answered "key exists".  Core-only.
-/
import Rend.Proofs.ChunkedSerial2
import Rend.SpecStep

namespace Rend
open Rend.Chunked

theorem exec_add_absent (now : Nat) (s : Store) (r : Req) (hop : r.op = .add) (h : s.look now r.key = none) :
    Mc.exec now s r = (s.set r.key (some ⟨r.value, r.flags, deadlineOf now r.exptime⟩), .ok) := by
  unfold Mc.exec
  simp only [hop, h]

theorem exec_add_present (now : Nat) (s : Store) (r : Req) (hop : r.op = .add) (it : Item) (h : s.look now r.key = some it) :
    Mc.exec now s r = (s, .status stExists) := by
  unfold Mc.exec
  simp only [hop, h]

/-- **D23 in the model.**  Whatever else the two backends hold: if L2 does not serve the key and
    L1 serves a metadata entry of it, the main port's `add` returns the error "key exists", emits
    no reply of its own (the server then sends NOT_STORED), and L2 holds the added value
    afterwards — while the single map, which does not hold the key, stores it and says so. -/
theorem remnant_blocks_add (now : Nat) (w : World) (tk : List Bytes) (c : SetCmd)
    (hl2 : w.l2.look now c.key = none) (it : Item) (hl1 : w.l1.look now (metaKey c.key) = some it) :
    ((L1L2.add (Chunked.handler .l1 now) (Std.handler .l2) c).eval now w tk).1 = .error (.app .keyExists) ∧
    ((L1L2.add (Chunked.handler .l1 now) (Std.handler .l2) c).eval now w tk).2.1 = [] ∧
    ((L1L2.add (Chunked.handler .l1 now) (Std.handler .l2) c).eval now w tk).2.2.1.l2 c.key =
      some ⟨c.data, c.flags, deadlineOf now c.exptime⟩ := by
  have e2 : Mc.exec now w.l2 (Std.storeReq .add c) =
      (w.l2.set c.key (some ⟨c.data, c.flags, deadlineOf now c.exptime⟩), .ok) := by
    have := exec_add_absent now w.l2 (Std.storeReq .add c) rfl (by simpa [Std.storeReq] using hl2)
    simpa [Std.storeReq] using this
  have hdec : decodeError stExists = some .keyExists := by decide
  cases tk with
  | nil =>
    simp only [L1L2.add, andThen, Std.handler, Chunked.handler, Std.store, Chunked.store, setCommon,
      Prog.eval_bind, Prog.eval_req, Prog.eval_pure, World.get, World.put, e2, Prog.token, Prog.eval]
    rw [exec_add_present now w.l1 _ rfl it (by exact hl1)]
    simp [hdec, Store.set]
  | cons x xs =>
    simp only [L1L2.add, andThen, Std.handler, Chunked.handler, Std.store, Chunked.store, setCommon,
      Prog.eval_bind, Prog.eval_req, Prog.eval_pure, World.get, World.put, e2, Prog.token, Prog.eval]
    rw [exec_add_present now w.l1 _ rfl it (by exact hl1)]
    simp [hdec, Store.set]

/-- …while the single map, which does not hold the key, stores the value and acknowledges it. -/
theorem spec_add_absent (now : Nat) (s : Store) (c : SetCmd) (h : s.look now c.key = none) :
    Spec.step now s (.store .add c) = (s.set c.key (some ⟨c.data, c.flags, deadlineOf now c.exptime⟩), .ok) := by
  unfold Spec.step
  have := exec_add_absent now s { op := SetKind.add.op, key := c.key, flags := c.flags, exptime := c.exptime, value := c.data } rfl h
  simp only at this ⊢
  rw [this]

end Rend

/-
  Linearizability under the locking wrapper in MULTI-READER mode (memproxy's default): writers
  (every mutating command, get-and-touch) hold their key's stripe exclusively, single-key gets
  share it.  For every schedule the lock table admits — any number of connections on both ports,
  steps of single backend requests — every finished command returned and emitted what the single
  map answers when the commands are applied to it in the order of their lock acquisitions; at the
  end L2 is that map and the cache invariant holds.  Core-only.
-/
import Rend.Proofs.ReaderGet

namespace Rend.Conc
open Rend

/-! ### locality of the specification -/

theorem specGets_single (now : Nat) (s : Store) (gk : GetKey) :
    specGets now s [gk] = [(gk, (s.look now gk.key).map fun it => (it.flags, it.data))] := rfl

theorem spec_step_other (now : Nat) (s : Store) (c : Cmd) (k k' : Bytes) (hk : cmdKey c = some k) (hne : k' ≠ k) :
    (Spec.step now s c).1 k' = s k' := by
  cases c with
  | store kind sc =>
    simp only [cmdKey, Option.some.injEq] at hk
    simp only [Spec.step]
    have := exec_other now s { op := kind.op, key := sc.key, flags := sc.flags, exptime := sc.exptime, value := sc.data } k k' (Or.inl hk) hne
    split <;> rename_i h <;> rw [h] at this <;> exact this
  | get g => rfl
  | getE g => rfl
  | gat kc =>
    simp only [cmdKey, Option.some.injEq] at hk
    simp only [Spec.step]
    have := exec_other now s { op := .gat, key := kc.key, exptime := kc.exptime } k k' (Or.inl hk) hne
    split <;> rename_i h <;> rw [h] at this <;> exact this
  | delete kc =>
    simp only [cmdKey, Option.some.injEq] at hk
    simp only [Spec.step]
    have := exec_other now s { op := .delete, key := kc.key } k k' (Or.inl hk) hne
    split <;> rename_i h <;> rw [h] at this <;> exact this
  | touch kc =>
    simp only [cmdKey, Option.some.injEq] at hk
    simp only [Spec.step]
    have := exec_other now s { op := .touch, key := kc.key, exptime := kc.exptime } k k' (Or.inl hk) hne
    split <;> rename_i h <;> rw [h] at this <;> exact this
  | noop o => cases hk
  | quit o q => cases hk
  | version o => cases hk
  | stat o => cases hk
  | unknown => cases hk

theorem spec_step_same (now : Nat) (s s' : Store) (c : Cmd) (k : Bytes) (hk : cmdKey c = some k) (h : s k = s' k) :
    (Spec.step now s c).2 = (Spec.step now s' c).2 ∧ (Spec.step now s c).1 k = (Spec.step now s' c).1 k := by
  have hl : s.look now k = s'.look now k := look_congr s s' now k h
  cases c with
  | store kind sc =>
    simp only [cmdKey, Option.some.injEq] at hk
    subst hk
    have := exec_same now s s' { op := kind.op, key := sc.key, flags := sc.flags, exptime := sc.exptime, value := sc.data } sc.key (Or.inl rfl) h
    simp only [Spec.step]
    generalize Mc.exec now s { op := kind.op, key := sc.key, flags := sc.flags, exptime := sc.exptime, value := sc.data } = x at this
    generalize Mc.exec now s' { op := kind.op, key := sc.key, flags := sc.flags, exptime := sc.exptime, value := sc.data } = y at this
    obtain ⟨x1, x2⟩ := x
    obtain ⟨y1, y2⟩ := y
    simp only at this
    obtain ⟨e1, e2⟩ := this
    subst e1
    cases x2 <;> exact ⟨rfl, e2⟩
  | get g =>
    simp only [cmdKey] at hk
    split at hk
    · rename_i gk hg
      simp only [Option.some.injEq] at hk
      subst hk
      simp only [Spec.step, hg, specGets_single, hl]
      exact ⟨trivial, h⟩
    · cases hk
  | getE g =>
    simp only [cmdKey] at hk
    split at hk
    · rename_i gk hg
      simp only [Option.some.injEq] at hk
      subst hk
      simp only [Spec.step, hg, specGets_single, hl]
      exact ⟨trivial, h⟩
    · cases hk
  | gat kc =>
    simp only [cmdKey, Option.some.injEq] at hk
    subst hk
    have := exec_same now s s' { op := .gat, key := kc.key, exptime := kc.exptime } kc.key (Or.inl rfl) h
    simp only [Spec.step]
    generalize Mc.exec now s { op := .gat, key := kc.key, exptime := kc.exptime } = x at this
    generalize Mc.exec now s' { op := .gat, key := kc.key, exptime := kc.exptime } = y at this
    obtain ⟨x1, x2⟩ := x
    obtain ⟨y1, y2⟩ := y
    simp only at this
    obtain ⟨e1, e2⟩ := this
    subst e1
    cases x2 <;> exact ⟨rfl, e2⟩
  | delete kc =>
    simp only [cmdKey, Option.some.injEq] at hk
    subst hk
    have := exec_same now s s' { op := .delete, key := kc.key } kc.key (Or.inl rfl) h
    simp only [Spec.step]
    generalize Mc.exec now s { op := .delete, key := kc.key } = x at this
    generalize Mc.exec now s' { op := .delete, key := kc.key } = y at this
    obtain ⟨x1, x2⟩ := x
    obtain ⟨y1, y2⟩ := y
    simp only at this
    obtain ⟨e1, e2⟩ := this
    subst e1
    cases x2 <;> exact ⟨rfl, e2⟩
  | touch kc =>
    simp only [cmdKey, Option.some.injEq] at hk
    subst hk
    have := exec_same now s s' { op := .touch, key := kc.key, exptime := kc.exptime } kc.key (Or.inl rfl) h
    simp only [Spec.step]
    generalize Mc.exec now s { op := .touch, key := kc.key, exptime := kc.exptime } = x at this
    generalize Mc.exec now s' { op := .touch, key := kc.key, exptime := kc.exptime } = y at this
    obtain ⟨x1, x2⟩ := x
    obtain ⟨y1, y2⟩ := y
    simp only at this
    obtain ⟨e1, e2⟩ := this
    subst e1
    cases x2 <;> exact ⟨rfl, e2⟩
  | noop o => cases hk
  | quit o q => cases hk
  | version o => cases hk
  | stat o => cases hk
  | unknown => cases hk

/-! ### a writer's critical section, from any state of its key's class -/

/-- The world with everything but key `k` forgotten. -/
def only (k : Bytes) (w : World) : World :=
  { l1 := fun x => if x = k then w.l1 x else none, l2 := fun x => if x = k then w.l2 x else none }

theorem at_only (k : Bytes) (w : World) : at' (only k w) k = at' w k := by simp [at', only]

theorem cacheInv_only (now : Nat) (k : Bytes) (w : World) (h : CacheInvAt now w k) : CacheInv now (only k w) := by
  intro x a ha
  by_cases hx : x = k
  · subst hx
    exact cacheInvAt_congr now w (only x w) x (at_only x w).symm h a ha
  · simp [Store.look, only, hx] at ha

theorem writer_section (now : Nat) (p : Port) (c : Cmd) (k : Bytes) (hk : cmdKey c = some k) (htt : TwoTier c)
    (S : Store) (w : World) (hinv : CacheInvAt now w k) (hl2 : w.l2 k = S k) :
    Agrees c (Spec.step now S c).2 ((portStep p c).eval now w []).1 ((portStep p c).eval now w []).2.1 ∧
    CacheInvAt now ((portStep p c).eval now w []).2.2.1 k ∧
    ((portStep p c).eval now w []).2.2.1.l2 k = (Spec.step now S c).1 k := by
  have hloc := portStep_keyLocal p c k hk
  obtain ⟨e1, e2, e3⟩ := eval_same now k hloc w (only k w) (at_only k w).symm
  obtain ⟨r1, r2, r3⟩ := portStep_refines now (only k w) [] p c htt (cacheInv_only now k w hinv)
  have hs : (only k w).l2 k = S k := by simp [only, hl2]
  obtain ⟨s1, s2⟩ := spec_step_same now (only k w).l2 S c k hk hs
  refine ⟨?_, ?_, ?_⟩
  · rw [e1, e2, ← s1]; exact r3
  · exact cacheInvAt_congr now _ _ k e3.symm (r2 k)
  · have : at' ((portStep p c).eval now w []).2.2.1 k = at' ((portStep p c).eval now (only k w) []).2.2.1 k := e3
    simp only [at', Prod.mk.injEq] at this
    rw [this.2, r1, s2]

/-! ### the scheduler semantics with shared read locks -/

/-- One command under the locking wrapper. -/
structure CThread where
  port : Port
  cmd : Cmd
  key : Bytes
  stripe : Nat
  read : Bool        -- takes the read lock (a get), else the write lock

/-- Well-formed: the key is the command's key, the command is one the two-tier orchestrators
    serve, the read lock is taken by single-key gets only (what the wrapper does: one locked
    single-key get per requested key), and the stripe is a function of the key. -/
structure WF (thr : Nat → CThread) : Prop where
  key : ∀ i, cmdKey (thr i).cmd = some (thr i).key
  twoTier : ∀ i, TwoTier (thr i).cmd
  reader : ∀ i, (thr i).read = true → ∃ g gk, (thr i).cmd = .get g ∧ g.keys = [gk]
  stripe : ∀ i j, (thr i).key = (thr j).key → (thr i).stripe = (thr j).stripe

inductive StepR (now : Nat) (thr : Nat → CThread) : Conf (HRes Unit) → Step → Conf (HRes Unit) → Prop where
  | acq (c : Conf (HRes Unit)) (i : Nat) : c.ts i = .idle →
      (∀ j p evs, c.ts j = .running p evs → (thr j).stripe = (thr i).stripe → (thr j).read = true ∧ (thr i).read = true) →
      StepR now thr c (.acq i) (c.set i (.running (portStep (thr i).port (thr i).cmd) []))
  | call (c : Conf (HRes Unit)) (i : Nat) (t : Tier) (r : Req) (k : Resp → Prog OEv (HRes Unit)) (evs : List OEv) :
      c.ts i = .running (.call t r k) evs →
      StepR now thr c (.act i)
        (Conf.set { w := c.w.put t (Mc.exec now (c.w.get t) r).1, ts := c.ts } i
          (.running (k (Mc.exec now (c.w.get t) r).2) evs))
  | emit (c : Conf (HRes Unit)) (i : Nat) (e : OEv) (p : Prog OEv (HRes Unit)) (evs : List OEv) :
      c.ts i = .running (.emit e p) evs → StepR now thr c (.act i) (c.set i (.running p (evs ++ [e])))
  | draw (c : Conf (HRes Unit)) (i : Nat) (k : Bytes → Prog OEv (HRes Unit)) (evs : List OEv) :
      c.ts i = .running (.draw k) evs → StepR now thr c (.act i) (c.set i (.running (k (Bytes.zeros 16)) evs))
  | rel (c : Conf (HRes Unit)) (i : Nat) (a : HRes Unit) (evs : List OEv) :
      c.ts i = .running (.ret a) evs → StepR now thr c (.rel i) (c.set i (.done a evs))

inductive ExecR (now : Nat) (thr : Nat → CThread) : Conf (HRes Unit) → List Step → Conf (HRes Unit) → Prop where
  | nil (c : Conf (HRes Unit)) : ExecR now thr c [] c
  | cons (c c' c'' : Conf (HRes Unit)) (s : Step) (rest : List Step) : StepR now thr c s c' → ExecR now thr c' rest c'' →
      ExecR now thr c (s :: rest) c''

/-- The single map, advanced in lock-acquisition order, and what it answered to each command. -/
structure SRef where
  s : Store
  out : Nat → Option SOut

def SRef.extend (now : Nat) (thr : Nat → CThread) (r : SRef) : Step → SRef
  | .acq i => { s := (Spec.step now r.s (thr i).cmd).1,
                out := fun j => if j = i then some (Spec.step now r.s (thr i).cmd).2 else r.out j }
  | _ => r

structure InvR (now : Nat) (thr : Nat → CThread) (c : Conf (HRes Unit)) (r : SRef) : Prop where
  wr : ∀ i p evs, c.ts i = .running p evs → (thr i).read = false →
    AllReqs (KeyLocal (thr i).key) p ∧ ∃ o, r.out i = some o ∧
      Agrees (thr i).cmd o (p.eval now c.w []).1 (evs ++ (p.eval now c.w []).2.1) ∧
      CacheInvAt now (p.eval now c.w []).2.2.1 (thr i).key ∧ (p.eval now c.w []).2.2.1.l2 (thr i).key = r.s (thr i).key
  rd : ∀ i p evs, c.ts i = .running p evs → (thr i).read = true →
    AllReqs (KeyLocal (thr i).key) p ∧ ∃ o, r.out i = some o ∧
      Stable now (thr i).key (r.s (thr i).key) (fun x => Agrees (thr i).cmd o x.1 (evs ++ x.2)) p
  dn : ∀ i a evs, c.ts i = .done a evs → ∃ o, r.out i = some o ∧ Agrees (thr i).cmd o a evs
  quiet : ∀ k, (∀ j p evs, c.ts j = .running p evs → (thr j).read = false → (thr j).key ≠ k) →
    CacheInvAt now c.w k ∧ c.w.l2 k = r.s k
  excl : ∀ i j p evs q evs', i ≠ j → c.ts i = .running p evs → c.ts j = .running q evs' →
    (thr i).stripe = (thr j).stripe → (thr i).read = true ∧ (thr j).read = true

theorem lookB_spec (now : Nat) (S : Store) (k : Bytes) :
    lookB now (S k) = (S.look now k).map fun it => (it.flags, it.data) := by
  unfold lookB Store.look
  cases S k with
  | none => rfl
  | some it => by_cases h : it.live now = true <;> simp [h]

theorem qget_agrees (now : Nat) (S : Store) (g : GetCmd) (gk : GetKey) (hg : g.keys = [gk]) (x : HRes Unit × List OEv)
    (h : QGet now g gk (S gk.key) x) : Agrees (.get g) (Spec.step now S (.get g)).2 x.1 x.2 := by
  obtain ⟨h1, r, h2, h3⟩ := h
  simp only [Spec.step, hg, specGets_single, Agrees]
  refine ⟨h1, [r], by rw [h2]; rfl, ?_⟩
  simp only [List.map_cons, List.map_nil, specViewOf]
  rw [h3, lookB_spec]
theorem l2_of_at (w w' : World) (k : Bytes) (h : at' w k = at' w' k) : w.l2 k = w'.l2 k := by
  simp only [at', Prod.mk.injEq] at h
  exact h.2

/-- Two running connections on one key are both readers (same key ⇒ same stripe). -/
theorem writer_key_ne (now : Nat) (thr : Nat → CThread) (wf : WF thr) (c : Conf (HRes Unit)) (r : SRef)
    (hinv : InvR now thr c r) (i j : Nat) (p : Prog OEv (HRes Unit)) (evs : List OEv) (q : Prog OEv (HRes Unit)) (evs' : List OEv)
    (hij : i ≠ j) (hi : c.ts i = .running p evs) (hj : c.ts j = .running q evs')
    (hw : (thr i).read = false ∨ (thr j).read = false) : (thr j).key ≠ (thr i).key := by
  intro hk
  have hs : (thr i).stripe = (thr j).stripe := wf.stripe i j hk.symm
  obtain ⟨a, b⟩ := hinv.excl i j p evs q evs' hij hi hj hs
  rcases hw with hw | hw
  · rw [a] at hw; cases hw
  · rw [b] at hw; cases hw

/-- A step by connection `i` that keeps it running, changes nothing under other keys and leaves
    the reference alone. -/
theorem invR_act (now : Nat) (thr : Nat → CThread) (wf : WF thr) (c : Conf (HRes Unit)) (r : SRef) (hinv : InvR now thr c r)
    (i : Nat) (p : Prog OEv (HRes Unit)) (evs : List OEv) (hi : c.ts i = .running p evs)
    (w' : World) (p' : Prog OEv (HRes Unit)) (evs' : List OEv)
    (hother : ∀ k', k' ≠ (thr i).key → at' w' k' = at' c.w k')
    (hwr : (thr i).read = false →
      AllReqs (KeyLocal (thr i).key) p' ∧ ∃ o, r.out i = some o ∧
        Agrees (thr i).cmd o (p'.eval now w' []).1 (evs' ++ (p'.eval now w' []).2.1) ∧
        CacheInvAt now (p'.eval now w' []).2.2.1 (thr i).key ∧ (p'.eval now w' []).2.2.1.l2 (thr i).key = r.s (thr i).key)
    (hrd : (thr i).read = true →
      (AllReqs (KeyLocal (thr i).key) p' ∧ ∃ o, r.out i = some o ∧
        Stable now (thr i).key (r.s (thr i).key) (fun x => Agrees (thr i).cmd o x.1 (evs' ++ x.2)) p') ∧
      CacheInvAt now w' (thr i).key ∧ w'.l2 (thr i).key = r.s (thr i).key) :
    InvR now thr (Conf.set { w := w', ts := c.ts } i (.running p' evs')) r := by
  have hrun : ∀ j q qevs, (Conf.set { w := w', ts := c.ts } i (.running p' evs')).ts j = .running q qevs → j ≠ i →
      c.ts j = .running q qevs := by
    intro j q qevs hj hji
    rw [set_other _ _ _ _ hji] at hj
    exact hj
  constructor
  · intro j q qevs hj hrj
    by_cases hji : j = i
    · subst hji
      rw [set_self] at hj
      injection hj with h1 h2
      subst h1; subst h2
      exact hwr hrj
    · have hj' := hrun j q qevs hj hji
      obtain ⟨a, o, ho, ag, ci, l2⟩ := hinv.wr j q qevs hj' hrj
      have hk : (thr j).key ≠ (thr i).key :=
        writer_key_ne now thr wf c r hinv i j p evs q qevs (Ne.symm hji) hi hj' (Or.inr hrj)
      obtain ⟨e1, e2, e3⟩ := eval_same now (thr j).key a w' c.w (hother _ hk)
      refine ⟨a, o, ho, ?_, ?_, ?_⟩
      · show Agrees (thr j).cmd o (q.eval now w' []).1 (qevs ++ (q.eval now w' []).2.1)
        rw [e1, e2]; exact ag
      · exact cacheInvAt_congr now _ _ _ e3.symm ci
      · show (q.eval now w' []).2.2.1.l2 (thr j).key = _
        rw [l2_of_at _ _ _ e3]; exact l2
  · intro j q qevs hj hrj
    by_cases hji : j = i
    · subst hji
      rw [set_self] at hj
      injection hj with h1 h2
      subst h1; subst h2
      exact (hrd hrj).1
    · exact hinv.rd j q qevs (hrun j q qevs hj hji) hrj
  · intro j a aevs hj
    by_cases hji : j = i
    · subst hji; rw [set_self] at hj; cases hj
    · rw [set_other _ _ _ _ hji] at hj
      exact hinv.dn j a aevs hj
  · intro k hk
    show CacheInvAt now w' k ∧ w'.l2 k = r.s k
    have hk' : ∀ j q qevs, c.ts j = .running q qevs → (thr j).read = false → (thr j).key ≠ k := by
      intro j q qevs hj hrj
      by_cases hji : j = i
      · subst hji
        exact hk j p' evs' (set_self _ _ _) hrj
      · exact hk j q qevs (by rw [set_other _ _ _ _ hji]; exact hj) hrj
    by_cases hki : k = (thr i).key
    · subst hki
      cases hr : (thr i).read with
      | false => exact absurd rfl (hk i p' evs' (set_self _ _ _) hr)
      | true => exact (hrd hr).2
    · obtain ⟨a, b⟩ := hinv.quiet k hk'
      have := hother k hki
      exact ⟨cacheInvAt_congr now _ _ _ this.symm a, by rw [l2_of_at _ _ _ this]; exact b⟩
  · intro a b q qevs q' qevs' hab ha hb hs
    have ha' : ∃ q0 e0, c.ts a = .running q0 e0 := by
      by_cases hai : a = i
      · subst hai; exact ⟨p, evs, hi⟩
      · exact ⟨q, qevs, hrun a q qevs ha hai⟩
    have hb' : ∃ q0 e0, c.ts b = .running q0 e0 := by
      by_cases hbi : b = i
      · subst hbi; exact ⟨p, evs, hi⟩
      · exact ⟨q', qevs', hrun b q' qevs' hb hbi⟩
    obtain ⟨qa, ea, ha'⟩ := ha'
    obtain ⟨qb, eb, hb'⟩ := hb'
    exact hinv.excl a b qa ea qb eb hab ha' hb' hs


/-- While connection `i` (a reader) is running, its key is in the class of the reference. -/
theorem reader_class (now : Nat) (thr : Nat → CThread) (wf : WF thr) (c : Conf (HRes Unit)) (r : SRef)
    (hinv : InvR now thr c r) (i : Nat) (p : Prog OEv (HRes Unit)) (evs : List OEv) (hi : c.ts i = .running p evs)
    (hr : (thr i).read = true) : InClass now (thr i).key (r.s (thr i).key) c.w := by
  apply hinv.quiet
  intro j q qevs hj hrj hk
  by_cases hji : j = i
  · subst hji; rw [hr] at hrj; cases hrj
  · exact writer_key_ne now thr wf c r hinv i j p evs q qevs (Ne.symm hji) hi hj (Or.inr hrj) hk

theorem spec_get_store (now : Nat) (s : Store) (g : GetCmd) : (Spec.step now s (.get g)).1 = s := rfl

/-- **The invariant is kept by every admitted step.** -/
theorem invR_step (now : Nat) (thr : Nat → CThread) (wf : WF thr) (c c' : Conf (HRes Unit)) (s : Step) (r : SRef)
    (hstep : StepR now thr c s c') (hinv : InvR now thr c r) : InvR now thr c' (r.extend now thr s) := by
  cases hstep with
  | call i t rq K evs hi =>
    simp only [SRef.extend]
    cases hr : (thr i).read with
    | false =>
      obtain ⟨a, o, ho, ag, ci, l2⟩ := hinv.wr i _ evs hi hr
      cases a with
      | call _ _ _ hreq hk =>
        exact invR_act now thr wf c r hinv i _ evs hi _ _ evs
          (fun k' hk' => put_other now c.w t rq (thr i).key k' hreq hk')
          (fun _ => ⟨hk _, o, ho, ag, ci, l2⟩)
          (fun h => by rw [hr] at h; cases h)
    | true =>
      obtain ⟨a, o, ho, st⟩ := hinv.rd i _ evs hi hr
      have hcl := reader_class now thr wf c r hinv i _ evs hi hr
      cases a with
      | call _ _ _ hreq hk =>
        cases st with
        | call _ _ _ _ hc hs =>
          have hcl' := hc c.w hcl
          exact invR_act now thr wf c r hinv i _ evs hi _ _ evs
            (fun k' hk' => put_other now c.w t rq (thr i).key k' hreq hk')
            (fun h => by rw [hr] at h; cases h)
            (fun _ => ⟨⟨hk _, o, ho, hs c.w hcl⟩, hcl'.1, hcl'.2⟩)
  | emit i e p evs hi =>
    simp only [SRef.extend]
    cases hr : (thr i).read with
    | false =>
      obtain ⟨a, o, ho, ag, ci, l2⟩ := hinv.wr i _ evs hi hr
      cases a with
      | emit _ _ hp =>
        exact invR_act now thr wf c r hinv i _ evs hi c.w p (evs ++ [e]) (fun _ _ => rfl)
          (fun _ => ⟨hp, o, ho, by simpa [Prog.eval, List.append_assoc] using ag, ci, l2⟩)
          (fun h => by rw [hr] at h; cases h)
    | true =>
      obtain ⟨a, o, ho, st⟩ := hinv.rd i _ evs hi hr
      have hcl := reader_class now thr wf c r hinv i _ evs hi hr
      cases a with
      | emit _ _ hp =>
        cases st with
        | emit _ _ _ hs =>
          exact invR_act now thr wf c r hinv i _ evs hi c.w p (evs ++ [e]) (fun _ _ => rfl)
            (fun h => by rw [hr] at h; cases h)
            (fun _ => ⟨⟨hp, o, ho, hs.mono (fun x hx => by simpa [List.append_assoc] using hx)⟩, hcl.1, hcl.2⟩)
  | draw i K evs hi =>
    simp only [SRef.extend]
    cases hr : (thr i).read with
    | false =>
      obtain ⟨a, o, ho, ag, ci, l2⟩ := hinv.wr i _ evs hi hr
      cases a with
      | draw _ hk =>
        exact invR_act now thr wf c r hinv i _ evs hi c.w (K (Bytes.zeros 16)) evs (fun _ _ => rfl)
          (fun _ => ⟨hk _ zeros_len, o, ho, ag, ci, l2⟩)
          (fun h => by rw [hr] at h; cases h)
    | true =>
      obtain ⟨a, o, ho, st⟩ := hinv.rd i _ evs hi hr
      have hcl := reader_class now thr wf c r hinv i _ evs hi hr
      cases a with
      | draw _ hk =>
        cases st with
        | draw _ _ hs =>
          exact invR_act now thr wf c r hinv i _ evs hi c.w (K (Bytes.zeros 16)) evs (fun _ _ => rfl)
            (fun h => by rw [hr] at h; cases h)
            (fun _ => ⟨⟨hk _ zeros_len, o, ho, hs⟩, hcl.1, hcl.2⟩)
  | rel i a evs hi =>
    simp only [SRef.extend]
    have hrun : ∀ j q qevs, (c.set i (.done a evs)).ts j = .running q qevs → j ≠ i ∧ c.ts j = .running q qevs := by
      intro j q qevs hj
      by_cases hji : j = i
      · subst hji; rw [set_self] at hj; cases hj
      · rw [set_other _ _ _ _ hji] at hj; exact ⟨hji, hj⟩
    constructor
    · intro j q qevs hj hrj
      exact hinv.wr j q qevs (hrun j q qevs hj).2 hrj
    · intro j q qevs hj hrj
      exact hinv.rd j q qevs (hrun j q qevs hj).2 hrj
    · intro j a' aevs hj
      by_cases hji : j = i
      · subst hji
        rw [set_self] at hj
        injection hj with h1 h2
        subst h1; subst h2
        cases hr : (thr j).read with
        | false =>
          obtain ⟨_, o, ho, ag, _, _⟩ := hinv.wr j _ evs hi hr
          exact ⟨o, ho, by simpa [Prog.eval] using ag⟩
        | true =>
          obtain ⟨_, o, ho, st⟩ := hinv.rd j _ evs hi hr
          cases st with
          | ret _ _ hq => exact ⟨o, ho, by simpa using hq⟩
      · rw [set_other _ _ _ _ hji] at hj
        exact hinv.dn j a' aevs hj
    · intro k hk
      show CacheInvAt now c.w k ∧ c.w.l2 k = r.s k
      by_cases hw : (thr i).read = false ∧ (thr i).key = k
      · obtain ⟨hr, hki⟩ := hw
        subst hki
        obtain ⟨_, o, ho, _, ci, l2⟩ := hinv.wr i _ evs hi hr
        exact ⟨by simpa [Prog.eval] using ci, by simpa [Prog.eval] using l2⟩
      · apply hinv.quiet k
        intro j q qevs hj hrj
        by_cases hji : j = i
        · subst hji
          intro hkk
          exact hw ⟨hrj, hkk⟩
        · exact hk j q qevs (by rw [set_other _ _ _ _ hji]; exact hj) hrj
    · intro a' b' q qevs q' qevs' hab ha hb hs
      exact hinv.excl a' b' q qevs q' qevs' hab (hrun a' q qevs ha).2 (hrun b' q' qevs' hb).2 hs
  | acq i hidle hadm =>
    have hrun : ∀ j q qevs, (c.set i (.running (portStep (thr i).port (thr i).cmd) [])).ts j = .running q qevs → j ≠ i →
        c.ts j = .running q qevs := by
      intro j q qevs hj hji
      rw [set_other _ _ _ _ hji] at hj
      exact hj
    -- no writer runs on the key of `i`; if `i` is a writer nobody runs on its stripe
    have hnow : ∀ j q qevs, c.ts j = .running q qevs → (thr j).read = false → (thr j).key ≠ (thr i).key := by
      intro j q qevs hj hrj hk
      have := (hadm j q qevs hj (wf.stripe j i hk)).1
      rw [this] at hrj; cases hrj
    obtain ⟨hci, hl2⟩ := hinv.quiet (thr i).key hnow
    have hkeyi := wf.key i
    -- the reference moves at the key of `i` only
    have hs_other : ∀ k, k ≠ (thr i).key → (Spec.step now r.s (thr i).cmd).1 k = r.s k :=
      fun k hk => spec_step_other now r.s (thr i).cmd (thr i).key k hkeyi hk
    simp only [SRef.extend]
    constructor
    · intro j q qevs hj hrj
      by_cases hji : j = i
      · subst hji
        rw [set_self] at hj
        injection hj with h1 h2
        subst h1; subst h2
        obtain ⟨w1, w2, w3⟩ := writer_section now (thr j).port (thr j).cmd (thr j).key hkeyi (wf.twoTier j) r.s c.w hci hl2
        refine ⟨portStep_keyLocal _ _ _ hkeyi, (Spec.step now r.s (thr j).cmd).2, by simp, ?_, w2, w3⟩
        simpa [set_w] using w1
      · have hj' := hrun j q qevs hj hji
        obtain ⟨a, o, ho, ag, ci, l2⟩ := hinv.wr j q qevs hj' hrj
        have hk : (thr j).key ≠ (thr i).key := hnow j q qevs hj' hrj
        refine ⟨a, o, by simp [hji, ho], ag, ci, ?_⟩
        show (q.eval now c.w []).2.2.1.l2 (thr j).key = (Spec.step now r.s (thr i).cmd).1 (thr j).key
        rw [hs_other _ hk]; exact l2
    · intro j q qevs hj hrj
      by_cases hji : j = i
      · subst hji
        rw [set_self] at hj
        injection hj with h1 h2
        subst h1; subst h2
        obtain ⟨g, gk, hcmd, hg⟩ := wf.reader j hrj
        have hgk : gk.key = (thr j).key := by
          have := hkeyi
          rw [hcmd] at this
          simp only [cmdKey, hg, Option.some.injEq] at this
          exact this
        refine ⟨portStep_keyLocal _ _ _ hkeyi, (Spec.step now r.s (thr j).cmd).2, by simp, ?_⟩
        show Stable now (thr j).key ((Spec.step now r.s (thr j).cmd).1 (thr j).key) _ _
        rw [hcmd, spec_get_store]
        have hst : Stable now gk.key (r.s gk.key) (QGet now g gk (r.s gk.key)) (portStep (thr j).port (.get g)) := by
          cases (thr j).port
          · exact L1L2_get_stable now g gk hg (r.s gk.key)
          · exact L1L2Batch_get_stable now g gk hg (r.s gk.key)
        rw [hgk] at hst
        apply hst.mono
        intro x hx
        simp only [List.nil_append]
        have := qget_agrees now r.s g gk hg x (by rw [hgk]; exact hx)
        exact this
      · have hj' := hrun j q qevs hj hji
        obtain ⟨a, o, ho, st⟩ := hinv.rd j q qevs hj' hrj
        refine ⟨a, o, by simp [hji, ho], ?_⟩
        show Stable now (thr j).key ((Spec.step now r.s (thr i).cmd).1 (thr j).key) _ q
        by_cases hk : (thr j).key = (thr i).key
        · -- `i` shares the key with a reader: `i` is a reader too, the reference store does not move
          have hri := (hadm j q qevs hj' (wf.stripe j i hk)).2
          obtain ⟨g, gk, hcmd, _⟩ := wf.reader i hri
          rw [hcmd, spec_get_store]; exact st
        · rw [hs_other _ hk]; exact st
    · intro j a aevs hj
      by_cases hji : j = i
      · subst hji; rw [set_self] at hj; cases hj
      · rw [set_other _ _ _ _ hji] at hj
        obtain ⟨o, ho, ag⟩ := hinv.dn j a aevs hj
        exact ⟨o, by simp [hji, ho], ag⟩
    · intro k hk
      show CacheInvAt now c.w k ∧ c.w.l2 k = (Spec.step now r.s (thr i).cmd).1 k
      have hk' : ∀ j q qevs, c.ts j = .running q qevs → (thr j).read = false → (thr j).key ≠ k := by
        intro j q qevs hj hrj
        have hji : j ≠ i := by
          intro h; subst h; rw [hidle] at hj; cases hj
        exact hk j q qevs (by rw [set_other _ _ _ _ hji]; exact hj) hrj
      obtain ⟨a, b⟩ := hinv.quiet k hk'
      refine ⟨a, ?_⟩
      by_cases hki : k = (thr i).key
      · subst hki
        cases hri : (thr i).read with
        | false => exact absurd rfl (hk i _ _ (set_self _ _ _) hri)
        | true =>
          obtain ⟨g, gk, hcmd, _⟩ := wf.reader i hri
          rw [hcmd, spec_get_store]; exact b
      · rw [hs_other _ hki]; exact b
    · intro a b q qevs q' qevs' hab ha hb hs
      by_cases hai : a = i
      · subst hai
        have hba : b ≠ a := Ne.symm hab
        have hb' := hrun b q' qevs' hb hba
        obtain ⟨x, y⟩ := hadm b q' qevs' hb' hs.symm
        exact ⟨y, x⟩
      · have ha' := hrun a q qevs ha hai
        by_cases hbi : b = i
        · subst hbi
          exact hadm a q qevs ha' hs
        · exact hinv.excl a b q qevs q' qevs' hab ha' (hrun b q' qevs' hb hbi) hs


theorem invR_exec (now : Nat) (thr : Nat → CThread) (wf : WF thr) (c c' : Conf (HRes Unit)) (sched : List Step)
    (hex : ExecR now thr c sched c') : ∀ r, InvR now thr c r → InvR now thr c' (sched.foldl (SRef.extend now thr) r) := by
  induction hex with
  | nil c => intro r h; exact h
  | cons c c1 c2 s rest hs _ ih =>
    intro r h
    exact ih _ (invR_step now thr wf c c1 s r hs h)

theorem invR_init (now : Nat) (thr : Nat → CThread) (w : World) (h : CacheInv now w) :
    InvR now thr (Conf.init w) { s := w.l2, out := fun _ => none } := by
  constructor
  · intro i p evs hh; cases hh
  · intro i p evs hh; cases hh
  · intro i a evs hh; cases hh
  · intro k _; exact ⟨h k, rfl⟩
  · intro i j p evs q evs' _ hh; cases hh

theorem stepR_not_idle (now : Nat) (thr : Nat → CThread) (c c' : Conf (HRes Unit)) (s : Step)
    (h : StepR now thr c s c') (j : Nat) (hj : c.ts j ≠ .idle) : c'.ts j ≠ .idle := by
  have key : ∀ (c0 : Conf (HRes Unit)) (i : Nat) (st : TState (HRes Unit)), c0.ts = c.ts → st ≠ .idle → (c0.set i st).ts j ≠ .idle := by
    intro c0 i st h0 hst
    by_cases hji : j = i
    · subst hji; rw [set_self]; exact hst
    · rw [set_other _ _ _ _ hji, h0]; exact hj
  cases h with
  | acq i _ _ => exact key c i _ rfl (fun hh => by cases hh)
  | call i t r k evs _ => exact key _ i _ rfl (fun hh => by cases hh)
  | emit i e p evs _ => exact key c i _ rfl (fun hh => by cases hh)
  | draw i k evs _ => exact key c i _ rfl (fun hh => by cases hh)
  | rel i a evs _ => exact key c i _ rfl (fun hh => by cases hh)

theorem acqOrderR_nodup (now : Nat) (thr : Nat → CThread) (c c' : Conf (HRes Unit)) (sched : List Step)
    (hex : ExecR now thr c sched c') :
    (acqOrder sched).Nodup ∧ (∀ i ∈ acqOrder sched, c.ts i = .idle ∧ c'.ts i ≠ .idle) ∧
    (∀ j, c.ts j ≠ .idle → c'.ts j ≠ .idle) := by
  induction hex with
  | nil c => exact ⟨List.nodup_nil, fun i hi => (by simp [acqOrder] at hi), fun _ h => h⟩
  | cons c c1 c2 s rest hs _ ih =>
    obtain ⟨n, m, k⟩ := ih
    have keep := stepR_not_idle now thr c c1 s hs
    have back : ∀ j, j ∈ acqOrder rest → c.ts j = .idle := by
      intro j hj
      cases hcj : c.ts j with
      | idle => rfl
      | running p evs => exact absurd (m j hj).1 (keep j (by rw [hcj]; intro hh; cases hh))
      | done a evs => exact absurd (m j hj).1 (keep j (by rw [hcj]; intro hh; cases hh))
    cases s with
    | acq i =>
      have hi : c.ts i = .idle ∧ c1.ts i ≠ .idle := by
        cases hs with
        | acq _ hidle _ => exact ⟨hidle, by rw [set_self]; intro hh; cases hh⟩
      simp only [acqOrder]
      refine ⟨List.nodup_cons.mpr ⟨fun hmem => hi.2 (m i hmem).1, n⟩, ?_, fun j hj => k j (keep j hj)⟩
      intro j hj
      simp only [List.mem_cons] at hj
      rcases hj with hj | hj
      · subst hj; exact ⟨hi.1, k j hi.2⟩
      · exact ⟨back j hj, (m j hj).2⟩
    | act i =>
      simp only [acqOrder]
      exact ⟨n, fun j hj => ⟨back j hj, (m j hj).2⟩, fun j hj => k j (keep j hj)⟩
    | rel i =>
      simp only [acqOrder]
      exact ⟨n, fun j hj => ⟨back j hj, (m j hj).2⟩, fun j hj => k j (keep j hj)⟩

/-- The commands as a sequential history, in a given order. -/
def actsOfR (thr : Nat → CThread) (order : List Nat) : List Act :=
  order.map (fun i => Act.cmd (thr i).port (thr i).cmd)

theorem foldl_extendR (now : Nat) (thr : Nat → CThread) : ∀ (sched : List Step) (r : SRef),
    sched.foldl (SRef.extend now thr) r = (acqOrder sched).foldl (fun r i => SRef.extend now thr r (.acq i)) r
  | [], r => rfl
  | .acq i :: rest, r => by
    simp only [List.foldl_cons, acqOrder]
    exact foldl_extendR now thr rest _
  | .act i :: rest, r => by
    simp only [List.foldl_cons, acqOrder, SRef.extend]
    exact foldl_extendR now thr rest _
  | .rel i :: rest, r => by
    simp only [List.foldl_cons, acqOrder, SRef.extend]
    exact foldl_extendR now thr rest _

theorem sref_spec (now : Nat) (thr : Nat → CThread) : ∀ (order : List Nat) (r : SRef), order.Nodup →
    (order.foldl (fun r i => SRef.extend now thr r (.acq i)) r).s = specEnd now r.s (actsOfR thr order) ∧
    order.map (fun i => ((thr i).cmd, (order.foldl (fun r i => SRef.extend now thr r (.acq i)) r).out i)) =
      (specActs now r.s (actsOfR thr order)).map (fun so => (so.1, some so.2)) ∧
    ∀ j, j ∉ order → (order.foldl (fun r i => SRef.extend now thr r (.acq i)) r).out j = r.out j
  | [], r, _ => ⟨rfl, rfl, fun _ _ => rfl⟩
  | i :: rest, r, hnd => by
    obtain ⟨hi, hrest⟩ := List.nodup_cons.mp hnd
    obtain ⟨a, b, c⟩ := sref_spec now thr rest (SRef.extend now thr r (.acq i)) hrest
    simp only [List.foldl_cons, actsOfR, List.map_cons, specEnd, specActs]
    refine ⟨a, ?_, ?_⟩
    · rw [c i hi, b]
      simp [SRef.extend]
      rfl
    · intro j hj
      simp only [List.mem_cons, not_or] at hj
      rw [c j hj.2]
      simp [SRef.extend, hj.1]

/-- **Linearizability in multi-reader mode.**  Any number of connections on both ports, each with
    a single-key command under the wrapper's lock for its key (write lock exclusive, read locks of
    gets shared), scheduled in any way the lock table admits, ending with nobody inside a critical
    section: the commands, listed in the order of their lock acquisitions, returned and emitted
    what the single map answers when they are applied to it in that order; L2 is that map at the
    end and the cache invariant holds again. -/
theorem linearizable_mr (now : Nat) (thr : Nat → CThread) (wf : WF thr) (w : World) (hinv : CacheInv now w)
    (sched : List Step) (c' : Conf (HRes Unit)) (hex : ExecR now thr (Conf.init w) sched c')
    (hquiet : ∀ i p evs, c'.ts i ≠ .running p evs) :
    ∃ obs : List (HRes Unit × List OEv),
      (acqOrder sched).map c'.ts = obs.map (fun o => TState.done o.1 o.2) ∧
      AllAgree obs (specActs now w.l2 (actsOfR thr (acqOrder sched))) ∧
      c'.w.l2 = specEnd now w.l2 (actsOfR thr (acqOrder sched)) ∧
      CacheInv now c'.w := by
  have h := invR_exec now thr wf _ _ sched hex _ (invR_init now thr w hinv)
  rw [foldl_extendR] at h
  obtain ⟨nd, ni, _⟩ := acqOrderR_nodup now thr _ _ sched hex
  obtain ⟨e1, e2, _⟩ := sref_spec now thr (acqOrder sched) { s := w.l2, out := fun _ => none } nd
  have hq : ∀ k, CacheInvAt now c'.w k ∧ c'.w.l2 k = _ :=
    fun k => h.quiet k (fun j p evs hj => absurd hj (hquiet j p evs))
  -- every command in the order is done and agrees with the recorded answer
  have hdone : ∀ i ∈ acqOrder sched, ∃ a evs o, c'.ts i = .done a evs ∧
      ((acqOrder sched).foldl (fun r i => SRef.extend now thr r (.acq i)) { s := w.l2, out := fun _ => none }).out i = some o ∧
      Agrees (thr i).cmd o a evs := by
    intro i hi
    cases hc : c'.ts i with
    | idle => exact absurd hc (ni i hi).2
    | running p evs => exact absurd hc (hquiet i p evs)
    | done a evs =>
      obtain ⟨o, ho, ag⟩ := h.dn i a evs hc
      exact ⟨a, evs, o, rfl, ho, ag⟩
  have build : ∀ (l : List Nat) (souts : List (Cmd × SOut)), (∀ i ∈ l, i ∈ acqOrder sched) →
      l.map (fun i => ((thr i).cmd,
        ((acqOrder sched).foldl (fun r i => SRef.extend now thr r (.acq i)) { s := w.l2, out := fun _ => none }).out i)) =
        souts.map (fun so => (so.1, some so.2)) →
      ∃ obs : List (HRes Unit × List OEv), l.map c'.ts = obs.map (fun o => TState.done o.1 o.2) ∧ AllAgree obs souts := by
    intro l
    induction l with
    | nil =>
      intro souts _ hm
      cases souts with
      | nil => exact ⟨[], rfl, AllAgree.nil⟩
      | cons so sos => simp at hm
    | cons i l ih =>
      intro souts hmem hm
      cases souts with
      | nil => simp at hm
      | cons so sos =>
        simp only [List.map_cons, List.cons.injEq, Prod.mk.injEq] at hm
        obtain ⟨⟨hc, ho⟩, hrest⟩ := hm
        obtain ⟨obs, hobs, hag⟩ := ih sos (fun j hj => hmem j (List.mem_cons_of_mem _ hj)) hrest
        obtain ⟨a, evs, o, hd, ho', ag⟩ := hdone i (hmem i (List.mem_cons_self ..))
        rw [ho'] at ho
        injection ho with ho
        refine ⟨(a, evs) :: obs, by simp [hd, hobs], AllAgree.cons ?_ hag⟩
        show Agrees so.1 so.2 a evs
        rw [← hc, ← ho]; exact ag
  obtain ⟨obs, hobs, hag⟩ := build (acqOrder sched) _ (fun i hi => hi) e2
  refine ⟨obs, hobs, hag, ?_, fun k => (hq k).1⟩
  rw [← e1]
  funext k
  exact (hq k).2

end Rend.Conc

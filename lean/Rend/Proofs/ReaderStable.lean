/-
  Gets under a SHARED read lock (multi-reader mode).  While readers hold the lock of a key no writer
  runs on it, so L2's entry of the key is fixed and L1's entry is either what it was or the
  back-filled copy of L2's; `Stable` says that a program, answered at EACH of its requests from
  ANY state of that class (other readers may have moved L1 within the class in between), keeps
  the state in the class and ends with a result satisfying `Q`.  Proved for the single-key get of
  both ports over the pass-through handler, with `Q` = "agrees with the single map".  Core-only.
-/
import Rend.Proofs.KeyLocal

namespace Rend.Conc
open Rend

/-- The cache invariant at one key. -/
def CacheInvAt (now : Nat) (w : World) (k : Bytes) : Prop :=
  ∀ a, w.l1.look now k = some a →
    ∃ b, w.l2.look now k = some b ∧ a.data = b.data ∧ a.flags = b.flags ∧ Outlives b a

theorem cacheInv_iff (now : Nat) (w : World) : CacheInv now w ↔ ∀ k, CacheInvAt now w k := Iff.rfl

theorem look_of_at (now : Nat) (w w' : World) (k : Bytes) (h : at' w k = at' w' k) :
    w.l1.look now k = w'.l1.look now k ∧ w.l2.look now k = w'.l2.look now k := by
  simp only [at', Prod.mk.injEq] at h
  exact ⟨look_congr _ _ now k h.1, look_congr _ _ now k h.2⟩

theorem cacheInvAt_congr (now : Nat) (w w' : World) (k : Bytes) (h : at' w k = at' w' k)
    (hi : CacheInvAt now w k) : CacheInvAt now w' k := by
  obtain ⟨h1, h2⟩ := look_of_at now w w' k h
  intro a ha
  rw [← h1] at ha
  obtain ⟨b, hb, r⟩ := hi a ha
  exact ⟨b, by rw [← h2]; exact hb, r⟩

/-- The states a key can be in during a read phase: the cache invariant holds at the key and L2
    holds `b`. -/
def InClass (now : Nat) (k : Bytes) (b : Option Item) (w : World) : Prop := CacheInvAt now w k ∧ w.l2 k = b

inductive Stable {α : Type} (now : Nat) (k : Bytes) (b : Option Item) : (α × List OEv → Prop) → Prog OEv α → Prop where
  | ret (Q : α × List OEv → Prop) (a : α) : Q (a, []) → Stable now k b Q (.ret a)
  | call (Q : α × List OEv → Prop) (t : Tier) (r : Req) (K : Resp → Prog OEv α) :
      (∀ w, InClass now k b w → InClass now k b (w.put t (Mc.exec now (w.get t) r).1)) →
      (∀ w, InClass now k b w → Stable now k b Q (K (Mc.exec now (w.get t) r).2)) → Stable now k b Q (.call t r K)
  | draw (Q : α × List OEv → Prop) (K : Bytes → Prog OEv α) : Stable now k b Q (K (Bytes.zeros 16)) → Stable now k b Q (.draw K)
  | emit (Q : α × List OEv → Prop) (e : OEv) (p : Prog OEv α) :
      Stable now k b (fun x => Q (x.1, e :: x.2)) p → Stable now k b Q (.emit e p)

namespace Stable
variable {α β : Type} {now : Nat} {k : Bytes} {b : Option Item}

theorem mono {Q Q' : α × List OEv → Prop} {p : Prog OEv α} (h : Stable now k b Q p) (hq : ∀ x, Q x → Q' x) :
    Stable now k b Q' p := by
  induction h generalizing Q' with
  | ret Q a ha => exact Stable.ret _ a (hq _ ha)
  | call Q t r K hc _ ih => exact Stable.call _ t r K hc (fun w hw => ih w hw hq)
  | draw Q K _ ih => exact Stable.draw _ K (ih hq)
  | emit Q e p _ ih => exact Stable.emit _ e p (ih (fun x hx => hq _ hx))

theorem bind : ∀ (p : Prog OEv α) (f : α → Prog OEv β) (Q : β × List OEv → Prop),
    Stable now k b (fun x => Stable now k b (fun y => Q (y.1, x.2 ++ y.2)) (f x.1)) p →
    Stable now k b Q (p >>= f)
  | .ret a, f, Q, h => by
    cases h with
    | ret _ _ ha =>
      show Stable now k b Q (f a)
      exact ha.mono (fun x hx => hx)
  | .call t r K, f, Q, h => by
    cases h with
    | call _ _ _ _ hc hh =>
      show Stable now k b Q (.call t r (fun x => Prog.bind (K x) f))
      exact Stable.call _ t r _ hc (fun w hw => bind (K _) f Q (hh w hw))
  | .draw K, f, Q, h => by
    cases h with
    | draw _ _ hh =>
      show Stable now k b Q (.draw (fun x => Prog.bind (K x) f))
      exact Stable.draw _ _ (bind (K _) f Q hh)
  | .emit e p, f, Q, h => by
    cases h with
    | emit _ _ _ hh =>
      show Stable now k b Q (.emit e (Prog.bind p f))
      apply Stable.emit
      exact bind p f (fun z => Q (z.1, e :: z.2)) hh

theorem pure (Q : α × List OEv → Prop) (a : α) (h : Q (a, [])) : Stable now k b Q (Pure.pure a : Prog OEv α) :=
  Stable.ret Q a h

/-- A request, when it keeps every state of the class in the class. -/
theorem req (Q : Resp × List OEv → Prop) (t : Tier) (r : Req)
    (h : ∀ w, InClass now k b w → InClass now k b (w.put t (Mc.exec now (w.get t) r).1) ∧ Q ((Mc.exec now (w.get t) r).2, [])) :
    Stable now k b Q (Prog.req t r) :=
  Stable.call _ t r _ (fun w hw => (h w hw).1) (fun w hw => Stable.ret _ _ (h w hw).2)

theorem out (Q : Unit × List OEv → Prop) (e : OEv) (h : Q ((), [e])) : Stable now k b Q (Prog.out e) :=
  Stable.emit _ e _ (Stable.ret _ () h)

end Stable

theorem put_get_self (w : World) (t : Tier) : w.put t (w.get t) = w := by
  cases t <;> rfl

/-- What a single request does to the key's entry, in terms of `look`. -/
theorem exec_get (now : Nat) (s : Store) (k : Bytes) :
    Mc.exec now s { op := .get, key := k } =
      (s, match s.look now k with
          | some it => .hit it.flags 0 it.data
          | none => .status stNotFound) := by
  unfold Mc.exec
  cases s.look now k <;> rfl

theorem exec_gete (now : Nat) (s : Store) (k : Bytes) :
    Mc.exec now s { op := .gete, key := k } =
      (s, match s.look now k with
          | some it => .hit it.flags (remaining now it) it.data
          | none => .status stNotFound) := by
  unfold Mc.exec
  cases s.look now k <;> rfl

/-- In the class, a live L1 entry carries L2's data and flags. -/
theorem class_l1 (now : Nat) (k : Bytes) (b : Option Item) (w : World) (hw : InClass now k b w) (a : Item)
    (ha : w.l1.look now k = some a) : ∃ b', b = some b' ∧ b'.live now = true ∧ a.data = b'.data ∧ a.flags = b'.flags := by
  obtain ⟨b', hb, h1, h2, _⟩ := hw.1 a ha
  obtain ⟨h3, h4⟩ := look_some.mp hb
  exact ⟨b', by rw [← hw.2]; exact h3, h4, h1, h2⟩

theorem class_l2 (now : Nat) (k : Bytes) (b : Option Item) (w : World) (hw : InClass now k b w) :
    w.l2.look now k = (match b with
      | some b' => if b'.live now then some b' else none
      | none => none) := by
  unfold Store.look
  rw [hw.2]
  cases b <;> rfl

end Rend.Conc

/-
  The reduction step of C03: critical sections on one key run under an exclusive stripe lock,
  every backend request of a section addresses the section's own key, hence EVERY schedule the
  lock table admits — any number of connections, any interleaving at the granularity of single
  backend requests and single responder calls — produces, for every command, the result and the
  events that the commands produce when run one after another, whole, in the order in which they
  obtained their locks; and the same final content of both tiers.  Core-only.
-/
import Rend.Proofs.Eval
import Rend.Proofs.ProgLemmas

namespace Rend.Conc
open Rend

/-! ### locality of backend requests -/

/-- The request addresses key `k` (or is the key-less no-op). -/
def KeyLocal (k : Bytes) : Tier → Req → Prop := fun _ r => r.key = k ∨ r.op = .noop

/-- Both tiers' entries of one key. -/
def at' (w : World) (k : Bytes) : Option Item × Option Item := (w.l1 k, w.l2 k)

theorem look_congr (s s' : Store) (now : Nat) (k : Bytes) (h : s k = s' k) : s.look now k = s'.look now k := by
  simp [Store.look, h]

theorem exec_other (now : Nat) (s : Store) (r : Req) (k k' : Bytes) (h : r.key = k ∨ r.op = .noop) (hk : k' ≠ k) :
    (Mc.exec now s r).1 k' = s k' := by
  rcases h with h | h
  · subst h
    unfold Mc.exec
    cases r.op <;> simp only <;> (try split) <;> simp [Store.set, hk]
  · unfold Mc.exec
    simp [h]

theorem exec_same (now : Nat) (s s' : Store) (r : Req) (k : Bytes) (h : r.key = k ∨ r.op = .noop) (hs : s k = s' k) :
    (Mc.exec now s r).2 = (Mc.exec now s' r).2 ∧ (Mc.exec now s r).1 k = (Mc.exec now s' r).1 k := by
  rcases h with h | h
  · subst h
    have hl := look_congr s s' now r.key hs
    unfold Mc.exec
    rw [hl]
    cases r.op <;> simp only <;> (try split) <;> simp [Store.set, hs]
  · unfold Mc.exec
    simp [h, hs]

theorem put_other (now : Nat) (w : World) (t : Tier) (r : Req) (k k' : Bytes) (h : r.key = k ∨ r.op = .noop)
    (hk : k' ≠ k) : at' (w.put t (Mc.exec now (w.get t) r).1) k' = at' w k' := by
  cases t <;> simp only [World.put, World.get, at'] <;> rw [exec_other now _ r k k' h hk]

theorem put_same (now : Nat) (w w' : World) (t : Tier) (r : Req) (k : Bytes) (h : r.key = k ∨ r.op = .noop)
    (hs : at' w k = at' w' k) :
    (Mc.exec now (w.get t) r).2 = (Mc.exec now (w'.get t) r).2 ∧
    at' (w.put t (Mc.exec now (w.get t) r).1) k = at' (w'.put t (Mc.exec now (w'.get t) r).1) k := by
  simp only [at', Prod.mk.injEq] at hs
  cases t <;> simp only [World.put, World.get, at', Prod.mk.injEq]
  · have := exec_same now w.l1 w'.l1 r k h hs.1
    exact ⟨this.1, this.2, hs.2⟩
  · have := exec_same now w.l2 w'.l2 r k h hs.2
    exact ⟨this.1, hs.1, this.2⟩

theorem zeros_len : (Bytes.zeros 16).length = 16 := by simp [Bytes.zeros]

/-- A program whose requests all address key `k` leaves every other key alone … -/
theorem eval_other {ε α : Type} (now : Nat) (k : Bytes) {p : Prog ε α} (hp : AllReqs (KeyLocal k) p) :
    ∀ (w : World) (k' : Bytes), k' ≠ k → at' (p.eval now w []).2.2.1 k' = at' w k' := by
  induction hp with
  | ret a => intro w k' _; rfl
  | call t r f hr _ ih =>
    intro w k' hk
    simp only [Prog.eval]
    rw [ih _ _ k' hk, put_other now w t r k k' hr hk]
  | draw f _ ih =>
    intro w k' hk
    simp only [Prog.eval]
    exact ih _ zeros_len w k' hk
  | emit e p _ ih =>
    intro w k' hk
    simp only [Prog.eval]
    exact ih w k' hk

/-- … and its result, its events and what it leaves under `k` depend on the entries of `k` only. -/
theorem eval_same {ε α : Type} (now : Nat) (k : Bytes) {p : Prog ε α} (hp : AllReqs (KeyLocal k) p) :
    ∀ (w w' : World), at' w k = at' w' k →
      (p.eval now w []).1 = (p.eval now w' []).1 ∧ (p.eval now w []).2.1 = (p.eval now w' []).2.1 ∧
      at' (p.eval now w []).2.2.1 k = at' (p.eval now w' []).2.2.1 k := by
  induction hp with
  | ret a => intro w w' h; exact ⟨rfl, rfl, h⟩
  | call t r f hr _ ih =>
    intro w w' h
    have hs := put_same now w w' t r k hr h
    simp only [Prog.eval]
    rw [hs.1]
    exact ih _ _ _ hs.2
  | draw f _ ih =>
    intro w w' h
    simp only [Prog.eval]
    exact ih _ zeros_len w w' h
  | emit e p _ ih =>
    intro w w' h
    simp only [Prog.eval]
    obtain ⟨a, b, c⟩ := ih w w' h
    exact ⟨a, by rw [b], c⟩

theorem world_ext (w w' : World) (h : ∀ k, at' w k = at' w' k) : w = w' := by
  cases w with
  | mk a b =>
    cases w' with
    | mk a' b' =>
      have h1 : a = a' := funext fun k => by have := h k; simp only [at', Prod.mk.injEq] at this; exact this.1
      have h2 : b = b' := funext fun k => by have := h k; simp only [at', Prod.mk.injEq] at this; exact this.2
      rw [h1, h2]

/-! ### connections running critical sections under a lock table -/

/-- One command under the locking wrapper: the key it works on, the stripe that key hashes to,
    and what runs between `Lock()` and `Unlock()`. -/
structure Thread (α : Type) where
  key : Bytes
  stripe : Nat
  body : Prog OEv α

inductive TState (α : Type) where
  | idle
  | running (p : Prog OEv α) (evs : List OEv)
  | done (a : α) (evs : List OEv)

structure Conf (α : Type) where
  w : World
  ts : Nat → TState α

def Conf.set {α : Type} (c : Conf α) (i : Nat) (s : TState α) : Conf α :=
  { c with ts := fun j => if j = i then s else c.ts j }

inductive Step where
  | acq (i : Nat)
  | act (i : Nat)
  | rel (i : Nat)

/-- One scheduling step.  `acq`: `Lock()` succeeds only when no other connection holds the stripe
    (exclusive locks: write locks, or any lock in single-reader mode).  `act`: the next backend
    request (answered by the backend at once), token draw or responder call of a connection inside
    its critical section.  `rel`: `Unlock()` when the section has returned. -/
inductive Step1 {α : Type} (now : Nat) (thr : Nat → Thread α) : Conf α → Step → Conf α → Prop where
  | acq (c : Conf α) (i : Nat) : c.ts i = .idle →
      (∀ j p evs, c.ts j = .running p evs → (thr j).stripe ≠ (thr i).stripe) →
      Step1 now thr c (.acq i) (c.set i (.running (thr i).body []))
  | call (c : Conf α) (i : Nat) (t : Tier) (r : Req) (k : Resp → Prog OEv α) (evs : List OEv) :
      c.ts i = .running (.call t r k) evs →
      Step1 now thr c (.act i)
        (Conf.set { w := c.w.put t (Mc.exec now (c.w.get t) r).1, ts := c.ts } i
          (.running (k (Mc.exec now (c.w.get t) r).2) evs))
  | emit (c : Conf α) (i : Nat) (e : OEv) (p : Prog OEv α) (evs : List OEv) :
      c.ts i = .running (.emit e p) evs → Step1 now thr c (.act i) (c.set i (.running p (evs ++ [e])))
  | draw (c : Conf α) (i : Nat) (k : Bytes → Prog OEv α) (evs : List OEv) :
      c.ts i = .running (.draw k) evs → Step1 now thr c (.act i) (c.set i (.running (k (Bytes.zeros 16)) evs))
  | rel (c : Conf α) (i : Nat) (a : α) (evs : List OEv) :
      c.ts i = .running (.ret a) evs → Step1 now thr c (.rel i) (c.set i (.done a evs))

/-- A schedule: any finite sequence of admitted steps. -/
inductive Exec {α : Type} (now : Nat) (thr : Nat → Thread α) : Conf α → List Step → Conf α → Prop where
  | nil (c : Conf α) : Exec now thr c [] c
  | cons (c c' c'' : Conf α) (s : Step) (rest : List Step) : Step1 now thr c s c' → Exec now thr c' rest c'' →
      Exec now thr c (s :: rest) c''

/-! ### the sequential reference -/

structure Ref (α : Type) where
  w : World
  res : Nat → Option (α × List OEv)

/-- Run command `i` whole, on the reference state. -/
def Ref.runOne {α : Type} (now : Nat) (thr : Nat → Thread α) (r : Ref α) (i : Nat) : Ref α :=
  { w := ((thr i).body.eval now r.w []).2.2.1,
    res := fun j => if j = i then some (((thr i).body.eval now r.w []).1, ((thr i).body.eval now r.w []).2.1) else r.res j }

/-- Run the commands one after another in the given order. -/
def seqRun {α : Type} (now : Nat) (thr : Nat → Thread α) (r : Ref α) (order : List Nat) : Ref α :=
  order.foldl (Ref.runOne now thr) r

/-- The order in which the commands obtained their locks. -/
def acqOrder : List Step → List Nat
  | [] => []
  | .acq i :: rest => i :: acqOrder rest
  | _ :: rest => acqOrder rest

def Ref.extend {α : Type} (now : Nat) (thr : Nat → Thread α) (r : Ref α) : Step → Ref α
  | .acq i => r.runOne now thr i
  | _ => r

theorem foldl_extend {α : Type} (now : Nat) (thr : Nat → Thread α) : ∀ (sched : List Step) (r : Ref α),
    sched.foldl (Ref.extend now thr) r = seqRun now thr r (acqOrder sched)
  | [], r => rfl
  | .acq i :: rest, r => by
    simp only [List.foldl_cons, acqOrder, seqRun, Ref.extend]
    exact foldl_extend now thr rest _
  | .act i :: rest, r => by
    simp only [List.foldl_cons, acqOrder, Ref.extend]
    exact foldl_extend now thr rest _
  | .rel i :: rest, r => by
    simp only [List.foldl_cons, acqOrder, Ref.extend]
    exact foldl_extend now thr rest _

/-! ### the invariant -/

structure Inv' {α : Type} (now : Nat) (thr : Nat → Thread α) (c : Conf α) (r : Ref α) : Prop where
  running : ∀ i p evs, c.ts i = .running p evs →
    AllReqs (KeyLocal (thr i).key) p ∧
    r.res i = some ((p.eval now c.w []).1, evs ++ (p.eval now c.w []).2.1) ∧
    at' (p.eval now c.w []).2.2.1 (thr i).key = at' r.w (thr i).key
  done : ∀ i a evs, c.ts i = .done a evs → r.res i = some (a, evs)
  quiet : ∀ k, (∀ j p evs, c.ts j = .running p evs → (thr j).key ≠ k) → at' c.w k = at' r.w k
  excl : ∀ i j p evs q evs', i ≠ j → c.ts i = .running p evs → c.ts j = .running q evs' →
    (thr i).stripe ≠ (thr j).stripe

theorem set_self {α : Type} (c : Conf α) (i : Nat) (s : TState α) : (c.set i s).ts i = s := by
  simp [Conf.set]

theorem set_other {α : Type} (c : Conf α) (i j : Nat) (s : TState α) (h : j ≠ i) : (c.set i s).ts j = c.ts j := by
  simp [Conf.set, h]

theorem set_w {α : Type} (c : Conf α) (i : Nat) (s : TState α) : (c.set i s).w = c.w := rfl

/-- A step by connection `i` that keeps it running with program `p'` and leaves the world as it is
    for every other key. -/
theorem inv_act {α : Type} (now : Nat) (thr : Nat → Thread α)
    (hkey : ∀ i j, (thr i).key = (thr j).key → (thr i).stripe = (thr j).stripe)
    (c : Conf α) (r : Ref α) (hinv : Inv' now thr c r) (i : Nat) (p : Prog OEv α) (evs : List OEv)
    (hi : c.ts i = .running p evs) (w' : World) (p' : Prog OEv α) (evs' : List OEv)
    (hreq : AllReqs (KeyLocal (thr i).key) p')
    (hres : (p'.eval now w' []).1 = (p.eval now c.w []).1)
    (hevs : evs' ++ (p'.eval now w' []).2.1 = evs ++ (p.eval now c.w []).2.1)
    (hw : (p'.eval now w' []).2.2.1 = (p.eval now c.w []).2.2.1)
    (hother : ∀ k', k' ≠ (thr i).key → at' w' k' = at' c.w k') :
    Inv' now thr (Conf.set { w := w', ts := c.ts } i (.running p' evs')) r := by
  constructor
  · intro j q qevs hj
    by_cases hji : j = i
    · subst hji
      rw [set_self] at hj
      injection hj with h1 h2
      subst h1; subst h2
      obtain ⟨_, b, d⟩ := hinv.running j p evs hi
      refine ⟨hreq, ?_, ?_⟩
      · show r.res j = some ((p'.eval now w' []).1, evs' ++ (p'.eval now w' []).2.1)
        rw [hres, hevs]; exact b
      · show at' (p'.eval now w' []).2.2.1 (thr j).key = _
        rw [hw]; exact d
    · rw [set_other _ _ _ _ hji] at hj
      have hj' : c.ts j = .running q qevs := hj
      obtain ⟨a, b, d⟩ := hinv.running j q qevs hj'
      have hs : (thr j).stripe ≠ (thr i).stripe := hinv.excl j i q qevs p evs hji hj' hi
      have hk : (thr j).key ≠ (thr i).key := fun h => hs (hkey j i h)
      have hat : at' w' (thr j).key = at' c.w (thr j).key := hother _ hk
      obtain ⟨e1, e2, e3⟩ := eval_same now (thr j).key a w' c.w hat
      refine ⟨a, ?_, ?_⟩
      · show r.res j = some ((q.eval now w' []).1, qevs ++ (q.eval now w' []).2.1)
        rw [e1, e2]; exact b
      · show at' (q.eval now w' []).2.2.1 (thr j).key = _
        rw [e3]; exact d
  · intro j a aevs hj
    by_cases hji : j = i
    · subst hji; rw [set_self] at hj; cases hj
    · rw [set_other _ _ _ _ hji] at hj
      exact hinv.done j a aevs hj
  · intro k hk
    have hki : (thr i).key ≠ k := hk i p' evs' (set_self _ _ _)
    have : ∀ j q qevs, c.ts j = .running q qevs → (thr j).key ≠ k := by
      intro j q qevs hj
      by_cases hji : j = i
      · subst hji; exact hki
      · exact hk j q qevs (by rw [set_other _ _ _ _ hji]; exact hj)
    show at' w' k = at' r.w k
    rw [hother k (Ne.symm hki)]
    exact hinv.quiet k this
  · intro a b q qevs q' qevs' hab ha hb
    have ha' : ∃ q0 e0, c.ts a = .running q0 e0 := by
      by_cases hai : a = i
      · subst hai; exact ⟨p, evs, hi⟩
      · rw [set_other _ _ _ _ hai] at ha; exact ⟨q, qevs, ha⟩
    have hb' : ∃ q0 e0, c.ts b = .running q0 e0 := by
      by_cases hbi : b = i
      · subst hbi; exact ⟨p, evs, hi⟩
      · rw [set_other _ _ _ _ hbi] at hb; exact ⟨q', qevs', hb⟩
    obtain ⟨qa, ea, ha'⟩ := ha'
    obtain ⟨qb, eb, hb'⟩ := hb'
    exact hinv.excl a b qa ea qb eb hab ha' hb'

/-- **The invariant is kept by every admitted step.** -/
theorem inv_step {α : Type} (now : Nat) (thr : Nat → Thread α)
    (hbody : ∀ i, AllReqs (KeyLocal (thr i).key) (thr i).body)
    (hkey : ∀ i j, (thr i).key = (thr j).key → (thr i).stripe = (thr j).stripe)
    (c c' : Conf α) (s : Step) (r : Ref α) (hstep : Step1 now thr c s c') (hinv : Inv' now thr c r) :
    Inv' now thr c' (r.extend now thr s) := by
  cases hstep with
  | acq i hidle hfree =>
    have hnokey : ∀ j p evs, c.ts j = .running p evs → (thr j).key ≠ (thr i).key :=
      fun j p evs hj h => hfree j p evs hj (hkey j i h)
    have hat : at' c.w (thr i).key = at' r.w (thr i).key := hinv.quiet _ hnokey
    obtain ⟨e1, e2, e3⟩ := eval_same now (thr i).key (hbody i) c.w r.w hat
    simp only [Ref.extend]
    constructor
    · intro j q qevs hj
      by_cases hji : j = i
      · subst hji
        rw [set_self] at hj
        injection hj with h1 h2
        subst h1; subst h2
        refine ⟨hbody j, ?_, ?_⟩
        · simp only [Ref.runOne, if_true, set_w, List.nil_append]
          rw [e1, e2]
        · simp only [Ref.runOne, set_w]
          exact e3
      · rw [set_other _ _ _ _ hji] at hj
        obtain ⟨a, b, d⟩ := hinv.running j q qevs hj
        have hk : (thr j).key ≠ (thr i).key := hnokey j q qevs hj
        refine ⟨a, ?_, ?_⟩
        · simp only [Ref.runOne, hji, if_false, set_w]
          exact b
        · simp only [Ref.runOne, set_w]
          rw [eval_other now (thr i).key (hbody i) r.w _ hk]
          exact d
    · intro j a aevs hj
      by_cases hji : j = i
      · subst hji; rw [set_self] at hj; cases hj
      · rw [set_other _ _ _ _ hji] at hj
        simp only [Ref.runOne, hji, if_false]
        exact hinv.done j a aevs hj
    · intro k hk
      have hki : (thr i).key ≠ k := hk i _ _ (set_self _ _ _)
      have : ∀ j q qevs, c.ts j = .running q qevs → (thr j).key ≠ k := by
        intro j q qevs hj
        by_cases hji : j = i
        · subst hji; exact hki
        · exact hk j q qevs (by rw [set_other _ _ _ _ hji]; exact hj)
      simp only [Ref.runOne, set_w]
      rw [eval_other now (thr i).key (hbody i) r.w k (Ne.symm hki)]
      exact hinv.quiet k this
    · intro a b q qevs q' qevs' hab ha hb
      by_cases hai : a = i
      · subst hai
        have hba : b ≠ a := Ne.symm hab
        rw [set_other _ _ _ _ hba] at hb
        exact Ne.symm (hfree b q' qevs' hb)
      · rw [set_other _ _ _ _ hai] at ha
        by_cases hbi : b = i
        · subst hbi
          exact hfree a q qevs ha
        · rw [set_other _ _ _ _ hbi] at hb
          exact hinv.excl a b q qevs q' qevs' hab ha hb
  | call i t rq k evs hi =>
    obtain ⟨a, _, _⟩ := hinv.running i _ evs hi
    cases a with
    | call _ _ _ hr hk =>
      simp only [Ref.extend]
      exact inv_act now thr hkey c r hinv i _ evs hi _ _ evs (hk _) rfl rfl rfl
        (fun k' hk' => put_other now c.w t rq (thr i).key k' hr hk')
  | emit i e p evs hi =>
    obtain ⟨a, _, _⟩ := hinv.running i _ evs hi
    cases a with
    | emit _ _ hp =>
      simp only [Ref.extend]
      have := inv_act now thr hkey c r hinv i _ evs hi c.w p (evs ++ [e]) hp rfl
        (by simp only [Prog.eval, List.append_assoc, List.singleton_append]) rfl (fun _ _ => rfl)
      exact this
  | draw i k evs hi =>
    obtain ⟨a, _, _⟩ := hinv.running i _ evs hi
    cases a with
    | draw _ hk =>
      simp only [Ref.extend]
      have := inv_act now thr hkey c r hinv i _ evs hi c.w (k (Bytes.zeros 16)) evs (hk _ zeros_len) rfl rfl rfl
        (fun _ _ => rfl)
      exact this
  | rel i a evs hi =>
    obtain ⟨_, b, d⟩ := hinv.running i _ evs hi
    simp only [Ref.extend]
    constructor
    · intro j q qevs hj
      by_cases hji : j = i
      · subst hji; rw [set_self] at hj; cases hj
      · rw [set_other _ _ _ _ hji] at hj
        exact hinv.running j q qevs hj
    · intro j a' aevs hj
      by_cases hji : j = i
      · subst hji
        rw [set_self] at hj
        injection hj with h1 h2
        subst h1; subst h2
        simpa [Prog.eval] using b
      · rw [set_other _ _ _ _ hji] at hj
        exact hinv.done j a' aevs hj
    · intro k hk
      show at' c.w k = at' r.w k
      by_cases hki : (thr i).key = k
      · subst hki
        simpa [Prog.eval] using d
      · apply hinv.quiet k
        intro j q qevs hj
        by_cases hji : j = i
        · subst hji; exact hki
        · exact hk j q qevs (by rw [set_other _ _ _ _ hji]; exact hj)
    · intro a' b' q qevs q' qevs' hab ha hb
      by_cases hai : a' = i
      · subst hai; rw [set_self] at ha; cases ha
      · by_cases hbi : b' = i
        · subst hbi; rw [set_self] at hb; cases hb
        · rw [set_other _ _ _ _ hai] at ha
          rw [set_other _ _ _ _ hbi] at hb
          exact hinv.excl a' b' q qevs q' qevs' hab ha hb

theorem inv_exec {α : Type} (now : Nat) (thr : Nat → Thread α)
    (hbody : ∀ i, AllReqs (KeyLocal (thr i).key) (thr i).body)
    (hkey : ∀ i j, (thr i).key = (thr j).key → (thr i).stripe = (thr j).stripe)
    (c c' : Conf α) (sched : List Step) (hex : Exec now thr c sched c') :
    ∀ r, Inv' now thr c r → Inv' now thr c' (sched.foldl (Ref.extend now thr) r) := by
  induction hex with
  | nil c => intro r h; exact h
  | cons c c1 c2 s rest hs _ ih =>
    intro r h
    exact ih _ (inv_step now thr hbody hkey c c1 s r hs h)

/-- Everybody idle. -/
def Conf.init {α : Type} (w : World) : Conf α := { w := w, ts := fun _ => .idle }

theorem inv_init {α : Type} (now : Nat) (thr : Nat → Thread α) (w : World) :
    Inv' now thr (Conf.init w) { w := w, res := fun _ => none } := by
  constructor
  · intro i p evs h; cases h
  · intro i a evs h; cases h
  · intro k _; rfl
  · intro i j p evs q evs' _ h; cases h

/-- **Serializability of critical sections.**  For every schedule admitted by the lock table that
    ends with no connection inside a critical section: the content of both tiers is what running
    the commands one after another, in the order of their lock acquisitions, leaves; and every
    finished command returned and emitted exactly what it does in that sequential run. -/
theorem serializable {α : Type} (now : Nat) (thr : Nat → Thread α)
    (hbody : ∀ i, AllReqs (KeyLocal (thr i).key) (thr i).body)
    (hkey : ∀ i j, (thr i).key = (thr j).key → (thr i).stripe = (thr j).stripe)
    (w : World) (sched : List Step) (c' : Conf α) (hex : Exec now thr (Conf.init w) sched c')
    (hquiet : ∀ i p evs, c'.ts i ≠ .running p evs) :
    c'.w = (seqRun now thr { w := w, res := fun _ => none } (acqOrder sched)).w ∧
    ∀ i a evs, c'.ts i = .done a evs →
      (seqRun now thr { w := w, res := fun _ => none } (acqOrder sched)).res i = some (a, evs) := by
  have h := inv_exec now thr hbody hkey _ _ sched hex _ (inv_init now thr w)
  rw [foldl_extend] at h
  refine ⟨world_ext _ _ (fun k => h.quiet k (fun j p evs hj => absurd hj (hquiet j p evs))), ?_⟩
  intro i a evs hi
  exact h.done i a evs hi

end Rend.Conc

namespace Rend.Conc
open Rend

/-! ### the acquisition order has no repetitions; what the sequential run records -/

theorem eval_nil_tk {ε α : Type} (now : Nat) : ∀ (p : Prog ε α) (w : World), (p.eval now w []).2.2.2 = []
  | .ret a, w => rfl
  | .call t r k, w => by simp only [Prog.eval]; exact eval_nil_tk now _ _
  | .draw k, w => by simp only [Prog.eval]; exact eval_nil_tk now _ _
  | .emit e p, w => by simp only [Prog.eval]; exact eval_nil_tk now p w

theorem step_not_idle {α : Type} (now : Nat) (thr : Nat → Thread α) (c c' : Conf α) (s : Step)
    (h : Step1 now thr c s c') (j : Nat) (hj : c.ts j ≠ .idle) : c'.ts j ≠ .idle := by
  have key : ∀ (c0 : Conf α) (i : Nat) (st : TState α), c0.ts = c.ts → st ≠ .idle → (c0.set i st).ts j ≠ .idle := by
    intro c0 i st h0 hst
    by_cases hji : j = i
    · subst hji; rw [set_self]; exact hst
    · rw [set_other _ _ _ _ hji, h0]; exact hj
  cases h with
  | acq i _ _ => exact key c i _ rfl (fun hh => by cases hh)
  | call i t r k evs _ => exact key _ i _ rfl (fun hh => by cases hh)
  | emit i e p evs _ => exact key c i _ rfl (fun hh => by cases hh)
  | draw i k evs _ => exact key c i _ rfl (fun hh => by cases hh)
  | rel i a evs _ => exact key c i _ rfl (fun hh => by cases hh)

theorem acq_idle {α : Type} (now : Nat) (thr : Nat → Thread α) (c c' : Conf α) (i : Nat)
    (h : Step1 now thr c (.acq i) c') : c.ts i = .idle ∧ c'.ts i ≠ .idle := by
  cases h with
  | acq _ hidle _ => exact ⟨hidle, by rw [set_self]; intro hh; cases hh⟩

/-- A command obtains its lock once; whoever obtained it is not idle afterwards. -/
theorem acqOrder_nodup {α : Type} (now : Nat) (thr : Nat → Thread α) (c c' : Conf α) (sched : List Step)
    (hex : Exec now thr c sched c') :
    (acqOrder sched).Nodup ∧ (∀ i ∈ acqOrder sched, c.ts i = .idle ∧ c'.ts i ≠ .idle) ∧
    (∀ j, c.ts j ≠ .idle → c'.ts j ≠ .idle) := by
  induction hex with
  | nil c => exact ⟨List.nodup_nil, fun i hi => (by simp [acqOrder] at hi), fun _ h => h⟩
  | cons c c1 c2 s rest hs _ ih =>
    obtain ⟨n, m, k⟩ := ih
    have keep := step_not_idle now thr c c1 s hs
    cases s with
    | acq i =>
      obtain ⟨a, b⟩ := acq_idle now thr c c1 i hs
      simp only [acqOrder]
      refine ⟨List.nodup_cons.mpr ⟨fun hi => b (m i hi).1, n⟩, ?_, fun j hj => k j (keep j hj)⟩
      intro j hj
      simp only [List.mem_cons] at hj
      rcases hj with hj | hj
      · subst hj; exact ⟨a, k j b⟩
      · refine ⟨?_, (m j hj).2⟩
        cases hcj : c.ts j with
        | idle => rfl
        | running p evs => exact absurd (m j hj).1 (keep j (by rw [hcj]; intro hh; cases hh))
        | done a evs => exact absurd (m j hj).1 (keep j (by rw [hcj]; intro hh; cases hh))
    | act i =>
      simp only [acqOrder]
      refine ⟨n, ?_, fun j hj => k j (keep j hj)⟩
      intro j hj
      refine ⟨?_, (m j hj).2⟩
      cases hcj : c.ts j with
      | idle => rfl
      | running p evs => exact absurd (m j hj).1 (keep j (by rw [hcj]; intro hh; cases hh))
      | done a evs => exact absurd (m j hj).1 (keep j (by rw [hcj]; intro hh; cases hh))
    | rel i =>
      simp only [acqOrder]
      refine ⟨n, ?_, fun j hj => k j (keep j hj)⟩
      intro j hj
      refine ⟨?_, (m j hj).2⟩
      cases hcj : c.ts j with
      | idle => rfl
      | running p evs => exact absurd (m j hj).1 (keep j (by rw [hcj]; intro hh; cases hh))
      | done a evs => exact absurd (m j hj).1 (keep j (by rw [hcj]; intro hh; cases hh))

/-- What the commands return and emit when run whole, one after another. -/
def seqObs {α : Type} (now : Nat) (thr : Nat → Thread α) (w : World) : List Nat → List (α × List OEv)
  | [] => []
  | i :: rest =>
    (((thr i).body.eval now w []).1, ((thr i).body.eval now w []).2.1) ::
      seqObs now thr ((thr i).body.eval now w []).2.2.1 rest

def seqEnd {α : Type} (now : Nat) (thr : Nat → Thread α) (w : World) : List Nat → World
  | [] => w
  | i :: rest => seqEnd now thr ((thr i).body.eval now w []).2.2.1 rest

theorem seqRun_spec {α : Type} (now : Nat) (thr : Nat → Thread α) : ∀ (order : List Nat) (r : Ref α), order.Nodup →
    (seqRun now thr r order).w = seqEnd now thr r.w order ∧
    order.map (seqRun now thr r order).res = (seqObs now thr r.w order).map some ∧
    ∀ j, j ∉ order → (seqRun now thr r order).res j = r.res j
  | [], r, _ => ⟨rfl, rfl, fun _ _ => rfl⟩
  | i :: rest, r, hnd => by
    obtain ⟨hi, hrest⟩ := List.nodup_cons.mp hnd
    obtain ⟨a, b, c⟩ := seqRun_spec now thr rest (r.runOne now thr i) hrest
    have hs : seqRun now thr r (i :: rest) = seqRun now thr (r.runOne now thr i) rest := rfl
    rw [hs]
    refine ⟨a, ?_, ?_⟩
    · simp only [List.map_cons, seqObs]
      have e1 : (r.runOne now thr i).res i =
          some (((thr i).body.eval now r.w []).1, ((thr i).body.eval now r.w []).2.1) := by simp [Ref.runOne]
      rw [c i hi, e1, b]
      rfl
    · intro j hj
      simp only [List.mem_cons, not_or] at hj
      rw [c j hj.2]
      simp [Ref.runOne, hj.1]

/-- **Serializability, as lists**: the finished commands, listed in the order of their lock
    acquisitions, returned and emitted what the sequential run in that order produces. -/
theorem serializable_obs {α : Type} (now : Nat) (thr : Nat → Thread α)
    (hbody : ∀ i, AllReqs (KeyLocal (thr i).key) (thr i).body)
    (hkey : ∀ i j, (thr i).key = (thr j).key → (thr i).stripe = (thr j).stripe)
    (w : World) (sched : List Step) (c' : Conf α) (hex : Exec now thr (Conf.init w) sched c')
    (hquiet : ∀ i p evs, c'.ts i ≠ .running p evs) :
    c'.w = seqEnd now thr w (acqOrder sched) ∧
    (acqOrder sched).map c'.ts = (seqObs now thr w (acqOrder sched)).map (fun o => TState.done o.1 o.2) := by
  obtain ⟨h1, h2⟩ := serializable now thr hbody hkey w sched c' hex hquiet
  obtain ⟨nd, ni, _⟩ := acqOrder_nodup now thr _ _ sched hex
  obtain ⟨a, b, _⟩ := seqRun_spec now thr (acqOrder sched) { w := w, res := fun _ => none } nd
  refine ⟨by rw [h1, a], ?_⟩
  -- every command in the order is done, with the recorded result
  have hdone : ∀ i ∈ acqOrder sched, ∀ o, (seqRun now thr { w := w, res := fun _ => none } (acqOrder sched)).res i = some o →
      c'.ts i = TState.done o.1 o.2 := by
    intro i hi o ho
    cases hc : c'.ts i with
    | idle => exact absurd hc (ni i hi).2
    | running p evs => exact absurd hc (hquiet i p evs)
    | done a' evs' =>
      have := h2 i a' evs' hc
      rw [this] at ho
      injection ho with ho
      subst ho
      rfl
  -- pointwise
  have : ∀ (l : List Nat) (obs : List (α × List OEv)), (∀ i ∈ l, i ∈ acqOrder sched) →
      l.map (seqRun now thr { w := w, res := fun _ => none } (acqOrder sched)).res = obs.map some →
      l.map c'.ts = obs.map (fun o => TState.done o.1 o.2) := by
    intro l
    induction l with
    | nil => intro obs _ h; cases obs with
      | nil => rfl
      | cons o os => simp at h
    | cons i l ih =>
      intro obs hmem h
      cases obs with
      | nil => simp at h
      | cons o os =>
        simp only [List.map_cons, List.cons.injEq] at h ⊢
        exact ⟨hdone i (hmem i (List.mem_cons_self ..)) o h.1, ih os (fun j hj => hmem j (List.mem_cons_of_mem _ hj)) h.2⟩
  exact this _ _ (fun i hi => hi) b

end Rend.Conc

/-
  Laws of the fault-aware runner `Prog.runSt`, used for the single-fault theorems of C10.
-/
import Rend.Proofs.OrcaRefine

namespace Rend
namespace Prog
variable {ε α β : Type} (now : Nat) (fault : Option Fault)

@[simp] theorem runSt_pure (a : α) (s : RunSt) : (pure a : Prog ε α).runSt now fault s = (a, [], s) := rfl

theorem runSt_bind (p : Prog ε α) (f : α → Prog ε β) (s : RunSt) :
    (p >>= f).runSt now fault s =
      (((f (p.runSt now fault s).1).runSt now fault (p.runSt now fault s).2.2).1,
       (p.runSt now fault s).2.1 ++ ((f (p.runSt now fault s).1).runSt now fault (p.runSt now fault s).2.2).2.1,
       ((f (p.runSt now fault s).1).runSt now fault (p.runSt now fault s).2.2).2.2) := by
  induction p generalizing s with
  | ret a => simp [Bind.bind, Prog.bind, runSt]
  | call t r k ih => simp only [Bind.bind, Prog.bind, runSt] at *; exact ih _ _
  | draw k ih =>
    simp only [Bind.bind, Prog.bind, runSt] at *
    cases s.toks with
    | nil => exact ih _ _
    | cons x xs => exact ih _ _
  | emit e p ih =>
    simp only [Bind.bind, Prog.bind, runSt] at *
    rw [ih]
    simp

@[simp] theorem runSt_req (t : Tier) (r : Req) (s : RunSt) :
    (Prog.req t r : Prog ε Resp).runSt now fault s = ((s.exec now fault t r).2, [], (s.exec now fault t r).1) := rfl

@[simp] theorem runSt_out (e : ε) (s : RunSt) : (Prog.out e : Prog ε Unit).runSt now fault s = ((), [e], s) := rfl

end Prog

/-- `andThen` under the runner, when the first call emits nothing. -/
theorem runSt_andThen {α β} (now : Nat) (fault : Option Fault) (p : OProg (HRes α)) (f : HRes α → OProg (HRes β)) (s : RunSt)
    (hsil : (p.runSt now fault s).2.1 = []) :
    (andThen p f).runSt now fault s =
      match (p.runSt now fault s).1 with
      | .error .panic => (.error .panic, [], (p.runSt now fault s).2.2)
      | .error .crash => (.error .crash, [], (p.runSt now fault s).2.2)
      | r => (f r).runSt now fault (p.runSt now fault s).2.2 := by
  unfold andThen
  rw [Prog.runSt_bind, hsil]
  simp only [List.nil_append]
  split <;> simp_all

@[simp] theorem runSt_reply (now : Nat) (fault : Option Fault) (e : REv) (s : RunSt) :
    (reply e).runSt now fault s = (.ok (), [.resp e], s) := by
  simp [reply, respond, Prog.runSt_bind]

/-- What one request through the pass-through store path returns, in terms of the request's outcome. -/
theorem runSt_std_store (now : Nat) (fault : Option Fault) (t : Tier) (k : SetKind) (c : SetCmd) (s : RunSt) :
    (Std.store (ε := OEv) t k c).runSt now fault s =
      ((match (s.exec now fault t (stdReq k c)).2 with
        | .io => .error .panic
        | .wfail => .error .io
        | .status st => match decodeError st with
          | some e => .error (.app e)
          | none => .ok ()
        | _ => .ok ()), [], (s.exec now fault t (stdReq k c)).1) := by
  unfold Std.store
  rw [Prog.runSt_bind]
  simp only [Prog.runSt_req, List.nil_append]
  cases (s.exec now fault t (stdReq k c)).2 <;> simp
  split <;> simp_all

theorem runSt_std_simple (now : Nat) (fault : Option Fault) (t : Tier) (r : Req) (s : RunSt) :
    (Std.simple (ε := OEv) t r).runSt now fault s =
      ((match (s.exec now fault t r).2 with
        | .io => .error .io
        | .wfail => .error .io
        | .status st => match decodeError st with
          | some e => .error (.app e)
          | none => .ok ()
        | _ => .ok ()), [], (s.exec now fault t r).1) := by
  unfold Std.simple
  rw [Prog.runSt_bind]
  simp only [Prog.runSt_req, List.nil_append]
  cases (s.exec now fault t r).2 <;> simp
  split <;> simp_all

end Rend

namespace Rend

/-- A pass-through store call followed by a continuation, under the fault-aware runner. -/
theorem runSt_andThen_store {β} (now : Nat) (fault : Option Fault) (t : Tier) (k : SetKind) (c : SetCmd)
    (f : HRes Unit → OProg (HRes β)) (s : RunSt) :
    (andThen (Std.store t k c) f).runSt now fault s =
      match (s.exec now fault t (stdReq k c)).2 with
      | .io => (.error .panic, [], (s.exec now fault t (stdReq k c)).1)
      | .wfail => (f (.error .io)).runSt now fault (s.exec now fault t (stdReq k c)).1
      | .status st =>
        match decodeError st with
        | some er => (f (.error (.app er))).runSt now fault (s.exec now fault t (stdReq k c)).1
        | none => (f (.ok ())).runSt now fault (s.exec now fault t (stdReq k c)).1
      | _ => (f (.ok ())).runSt now fault (s.exec now fault t (stdReq k c)).1 := by
  rw [runSt_andThen _ _ _ _ _ (by rw [runSt_std_store])]
  rw [runSt_std_store]
  cases h : (s.exec now fault t (stdReq k c)).2 with
  | status st => cases hd : decodeError st <;> simp [hd]
  | io => simp
  | wfail => simp
  | hit a b d => simp
  | ok => simp
  | silent => simp

/-- A pass-through delete / touch call followed by a continuation. -/
theorem runSt_andThen_simple {β} (now : Nat) (fault : Option Fault) (t : Tier) (r : Req)
    (f : HRes Unit → OProg (HRes β)) (s : RunSt) :
    (andThen (Std.simple t r) f).runSt now fault s =
      match (s.exec now fault t r).2 with
      | .io => (f (.error .io)).runSt now fault (s.exec now fault t r).1
      | .wfail => (f (.error .io)).runSt now fault (s.exec now fault t r).1
      | .status st =>
        match decodeError st with
        | some er => (f (.error (.app er))).runSt now fault (s.exec now fault t r).1
        | none => (f (.ok ())).runSt now fault (s.exec now fault t r).1
      | _ => (f (.ok ())).runSt now fault (s.exec now fault t r).1 := by
  rw [runSt_andThen _ _ _ _ _ (by rw [runSt_std_simple])]
  rw [runSt_std_simple]
  cases h : (s.exec now fault t r).2 with
  | status st => cases hd : decodeError st <;> simp [hd]
  | io => simp
  | wfail => simp
  | hit a b d => simp
  | ok => simp
  | silent => simp

end Rend

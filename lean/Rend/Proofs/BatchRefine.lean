/-
  The batch-port orchestrator (orcas/l1l2batch.go) over pass-through handlers refines the
  single-map specification with abstraction `w.l2`, and keeps `CacheInv`.
-/
import Rend.Proofs.OrcaRefine

namespace Rend

theorem L1L2Batch_store_refines (now : Nat) (w : World) (tk : List Bytes) (k : SetKind) (c : SetCmd)
    (hinv : CacheInv now w) :
    let r := (L1L2Batch.step (Std.handler .l1) (Std.handler .l2) (.store k c)).eval now w tk
    r.2.2.1.l2 = (mcStore now w.l2 k c).1 ∧ CacheInv now r.2.2.1 ∧
      StoreOutcome k c (mcStore now w.l2 k c).2 r.1 r.2.1 ∧ r.2.2.2 = tk := by
  have hfail : (mcStore now w.l2 k c).2 = false → (mcStore now w.l2 k c).1 = w.l2 := by
    intro h
    cases hl : w.l2.look now c.key <;> cases k <;> simp_all [mcStore]
  cases hok : (mcStore now w.l2 k c).2 with
  | false =>
    have h2 := hfail hok
    cases k <;>
      simp only [L1L2Batch.step, L1L2Batch.set, L1L2Batch.addReplace, L1L2.pend, Std.handler, eval_andThen_store, World.get_l2,
        hok, Bool.false_eq_true, if_false, Prog.eval_pure, StoreOutcome, h2] <;>
      (have hself : w.put .l2 w.l2 = w := by cases w; rfl
       rw [hself]
       refine ⟨rfl, hinv, ?_, ?_⟩ <;> simp)
  | true =>
    -- the L1 operation the batch port pairs with `k`
    let k1 : SetKind := match k with
      | .set => .replace | .add => .replace | .replace => .replace | .append => .append | .prepend => .prepend
    have key : ((L1L2Batch.step (Std.handler .l1) (Std.handler .l2) (.store k c)).eval now w tk) =
        (.ok (), [.resp (.stored k c.opq c.quiet)],
         { l1 := (mcStore now w.l1 k1 c).1, l2 := (mcStore now w.l2 k c).1 }, tk) := by
      have hwp : ∀ a b : Store, (w.put .l2 a).put .l1 b = { l1 := b, l2 := a } := fun _ _ => rfl
      cases k with
      | set =>
        by_cases h1 : (mcStore now w.l1 .replace c).2 = true
        · simp [k1, L1L2Batch.step, L1L2Batch.set, Std.handler, eval_andThen_store, hok, h1, isErr, hwp]
        · simp [k1, L1L2Batch.step, L1L2Batch.set, Std.handler, eval_andThen_store, hok, h1, isErr, missErr, hwp]
      | add =>
        by_cases h1 : (mcStore now w.l1 .replace c).2 = true
        · simp [k1, L1L2Batch.step, L1L2Batch.addReplace, Std.handler, eval_andThen_store, hok, h1, isErr, hwp]
        · simp [k1, L1L2Batch.step, L1L2Batch.addReplace, Std.handler, eval_andThen_store, hok, h1, isErr, missErr, hwp]
      | replace =>
        by_cases h1 : (mcStore now w.l1 .replace c).2 = true
        · simp [k1, L1L2Batch.step, L1L2Batch.addReplace, Std.handler, eval_andThen_store, hok, h1, isErr, hwp]
        · simp [k1, L1L2Batch.step, L1L2Batch.addReplace, Std.handler, eval_andThen_store, hok, h1, isErr, missErr, hwp]
      | append =>
        by_cases h1 : (mcStore now w.l1 .append c).2 = true
        · simp [k1, L1L2Batch.step, L1L2.pend, Std.handler, eval_andThen_store, hok, h1, isErr, hwp]
        · simp [k1, L1L2Batch.step, L1L2.pend, Std.handler, eval_andThen_store, hok, h1, isErr, missErr, hwp]
      | prepend =>
        by_cases h1 : (mcStore now w.l1 .prepend c).2 = true
        · simp [k1, L1L2Batch.step, L1L2.pend, Std.handler, eval_andThen_store, hok, h1, isErr, hwp]
        · simp [k1, L1L2Batch.step, L1L2.pend, Std.handler, eval_andThen_store, hok, h1, isErr, missErr, hwp]
    rw [key]
    refine ⟨rfl, ?_, by simp [StoreOutcome, hok], rfl⟩
    have hp : Pairing k k1 := by cases k <;> constructor
    exact inv_store now w k k1 c hp hinv hok

theorem L1L2Batch_delete_refines (now : Nat) (w : World) (tk : List Bytes) (c : KeyCmd) (hinv : CacheInv now w) :
    let r := (L1L2Batch.step (Std.handler .l1) (Std.handler .l2) (.delete c)).eval now w tk
    r.2.2.1.l2 = (mcDelete now w.l2 c.key).1 ∧ CacheInv now r.2.2.1 ∧
      KeyOutcome (.deleted c.opq) (mcDelete now w.l2 c.key).2 r.1 r.2.1 :=
  L1L2_delete_refines now w tk c hinv

theorem L1L2Batch_touch_refines (now : Nat) (w : World) (tk : List Bytes) (c : KeyCmd) (hinv : CacheInv now w) :
    let r := (L1L2Batch.step (Std.handler .l1) (Std.handler .l2) (.touch c)).eval now w tk
    r.2.2.1.l2 = (mcTouch now w.l2 c.key c.exptime).1 ∧ CacheInv now r.2.2.1 ∧
      KeyOutcome (.touched c.opq) (mcTouch now w.l2 c.key c.exptime).2 r.1 r.2.1 :=
  L1L2_touch_refines now w tk c hinv

theorem L1L2Batch_gat_refines (now : Nat) (w : World) (tk : List Bytes) (c : KeyCmd) (hinv : CacheInv now w) :
    let r := (L1L2Batch.step (Std.handler .l1) (Std.handler .l2) (.gat c)).eval now w tk
    r.2.2.1.l2 = (mcTouch now w.l2 c.key c.exptime).1 ∧ CacheInv now r.2.2.1 ∧
      GatOutcome c (w.l2.look now c.key) r.1 r.2.1 := by
  have hwp : ∀ a b : Store, (w.put .l2 a).put .l1 b = { l1 := b, l2 := a } := fun _ _ => rfl
  have okne : ∀ x : GetResp, (Except.ok x : HRes GetResp) ≠ .error .panic ∧ (Except.ok x : HRes GetResp) ≠ .error .crash :=
    fun _ => ⟨by simp, by simp⟩
  simp only [L1L2Batch.step, L1L2Batch.gat]
  have e2 := eval_std_gat now .l2 c w tk
  cases h2 : w.l2.look now c.key with
  | none =>
    simp only [World.get_l2, h2] at e2
    rw [eval_andThen_of now _ _ w tk _ _ _ e2 (okne _).1 (okne _).2]
    have hsame : (mcTouch now w.l2 c.key c.exptime).1 = w.l2 := by simp [mcTouch, h2]
    simp only [if_true, eval_reply, hsame]
    refine ⟨?_, hinv, ?_⟩
    · first | rfl | trivial
    · simp [GatOutcome]
  | some b =>
    simp only [World.get_l2, h2] at e2
    rw [eval_andThen_of now _ _ w tk _ _ _ e2 (okne _).1 (okne _).2]
    simp only [Bool.false_eq_true, if_false]
    have e1 := eval_std_touch now .l1 { key := c.key, exptime := c.exptime, opq := c.opq }
      (w.put .l2 (mcTouch now w.l2 c.key c.exptime).1) tk
    rw [eval_andThen_of now _ _ _ tk _ _ _ e1 (res_ne_panic _ _).1 (res_ne_panic _ _).2]
    have hinv' := inv_touch now w c.key c.exptime hinv
    by_cases h1 : (mcTouch now w.l1 c.key c.exptime).2 = true
    · simp [h1, isErr, hwp, GatOutcome]; exact hinv'
    · simp [h1, isErr, hwp, GatOutcome]; exact hinv'

theorem eval_emitGets_map (now : Nat) (w : World) (tk : List Bytes) (rs : List GetResp) :
    (emitGets rs).eval now w tk = ((), rs.map (fun r => OEv.resp (.get r)), w, tk) := eval_emitGets now w tk rs

theorem L1L2Batch_get_refines (now : Nat) (w : World) (tk : List Bytes) (g : GetCmd) (hinv : CacheInv now w) :
    let r := (L1L2Batch.step (Std.handler .l1) (Std.handler .l2) (.get g)).eval now w tk
    r.2.2.1 = w ∧ GetOutcome now w.l2 g r.1 r.2.1 := by
  have hget1 : (Std.handler (ε := OEv) .l1).get = Std.getLoop .l1 .get := rfl
  have hget2 : (Std.handler (ε := OEv) .l2).get = Std.getLoop .l2 .get := rfl
  have hhits : ((g.keys.filter (l1Live now w.l1)).map (stdGetResp now w.l1 false)).map viewOf =
      (g.keys.filter (l1Live now w.l1)).map (specView now w.l2) := by
    rw [List.map_map]
    apply List.map_congr_left
    intro x hx
    exact view_hit now w hinv x (List.mem_filter.mp hx).2
  by_cases hemp : (g.keys.filter (fun g => !l1Live now w.l1 g)).isEmpty = true
  · have hev : (L1L2Batch.step (Std.handler .l1) (Std.handler .l2) (.get g)).eval now w tk =
        (.ok (), ((g.keys.filter (l1Live now w.l1)).map (stdGetResp now w.l1 false)).map (fun x => OEv.resp (.get x))
          ++ [.resp (.getEnd g.noopOpaque g.noopEnd)], w, tk) := by
      simp only [L1L2Batch.step, L1L2Batch.get, hget1, hget2]
      rw [Prog.eval_bind, eval_std_getLoop_get]
      simp only [World.get_l1, splitL1_std, List.nil_append]
      rw [Prog.eval_bind, eval_emitGets]
      simp only [hemp, if_true, eval_reply]
    rw [hev]
    refine ⟨rfl, rfl, _, rfl, ?_⟩
    rw [hhits, filter_not_empty_self _ _ hemp]
  · have hev : (L1L2Batch.step (Std.handler .l1) (Std.handler .l2) (.get g)).eval now w tk =
        (.ok (), (((g.keys.filter (l1Live now w.l1)).map (stdGetResp now w.l1 false)) ++
            ((g.keys.filter (fun g => !l1Live now w.l1 g)).map (stdGetResp now w.l2 false)).map fwdResp).map
              (fun x => OEv.resp (.get x))
          ++ [.resp (.getEnd g.noopOpaque g.noopEnd)], w, tk) := by
      simp only [L1L2Batch.step, L1L2Batch.get, hget1, hget2]
      rw [Prog.eval_bind, eval_std_getLoop_get]
      simp only [World.get_l1, splitL1_std, List.nil_append]
      rw [Prog.eval_bind, eval_emitGets]
      simp only [hemp, Bool.false_eq_true, if_false]
      rw [Prog.eval_bind, eval_std_getLoop_get]
      simp only [World.get_l2, List.nil_append]
      rw [Prog.eval_bind, eval_emitGets]
      simp [eval_reply, List.map_append, List.map_map, Function.comp_def, fwdResp]
    rw [hev]
    refine ⟨rfl, rfl, _, rfl, ?_⟩
    rw [List.map_append, hhits, List.map_map, List.map_map]
    have : ((viewOf ∘ fwdResp) ∘ stdGetResp now w.l2 false) = specView now w.l2 := by
      funext x
      cases h : w.l2.look now x.key <;> simp [viewOf, fwdResp, stdGetResp, specView, h]
    rw [this, ← List.map_append]
    exact (List.filter_append_perm _ _).map _

end Rend

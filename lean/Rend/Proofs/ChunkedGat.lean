/-
  The get-and-touch read path of the chunked handler is all-or-nothing as well: the quiet
  get-and-touch requests answer from the same entries as quiet gets and only move deadlines.
-/
import Rend.Proofs.ChunkedRoundTrip

namespace Rend.Chunked
open Rend

/-- `s'` holds no data that `s` does not hold under the same key (deadlines and flags may differ). -/
def DataSub (s' s : Store) : Prop := ∀ k it', s' k = some it' → ∃ it, s k = some it ∧ it'.data = it.data

theorem DataSub.refl (s : Store) : DataSub s s := fun _ it h => ⟨it, h, rfl⟩

theorem DataSub.trans {a b c : Store} (h1 : DataSub a b) (h2 : DataSub b c) : DataSub a c := by
  intro k it ha
  obtain ⟨it1, hb, e1⟩ := h1 k it ha
  obtain ⟨it2, hc, e2⟩ := h2 k it1 hb
  exact ⟨it2, hc, e1.trans e2⟩

theorem Consistent.of_dataSub {s s' : Store} {H : List Intent} (hc : Consistent s H) (hs : DataSub s' s) : Consistent s' H := by
  refine ⟨?_, ?_, hc.tokens, hc.toklen, hc.keylen⟩
  · intro key it h
    obtain ⟨it0, h0, e⟩ := hs _ _ h
    obtain ⟨x, hx, hk, hd⟩ := hc.metaE key it0 h0
    exact ⟨x, hx, hk, by rw [e]; exact hd⟩
  · intro key i it h
    obtain ⟨it0, h0, e⟩ := hs _ _ h
    obtain ⟨x, hx, hk, hd⟩ := hc.chunkE key i it0 h0
    exact ⟨x, hx, hk, by rw [e]; exact hd⟩

theorem dataSub_retime (s : Store) (k : Bytes) (it : Item) (hs : s k = some it) (d : Nat) :
    DataSub (s.set k (some { it with deadline := d })) s := by
  intro k' it' h
  simp only [Store.set] at h
  split at h
  · rename_i hk
    simp only [Option.some.injEq] at h
    subst h
    exact ⟨it, hk ▸ hs, rfl⟩
  · exact ⟨it', h, rfl⟩

theorem presentItems_congr (now : Nat) (s s' : Store) (key : Bytes) : ∀ n i,
    (∀ j, i ≤ j → j < i + n → s'.look now (chunkKey key j) = s.look now (chunkKey key j)) →
    presentItems now s' key n i = presentItems now s key n i
  | 0, _, _ => rfl
  | n + 1, i, h => by
    simp only [presentItems, h i (Nat.le_refl _) (by omega)]
    rw [presentItems_congr now s s' key n (i + 1) (fun j h1 h2 => h j (by omega) (by omega))]

/-- The quiet get-and-touch requests for chunks `i..i+n-1`: the same answers as quiet gets on the
    store they started from; the store afterwards holds no new data and is untouched outside these
    chunk keys; the other tier is untouched. -/
theorem eval_askChunks_gatq {ε} (now : Nat) (t : Tier) (key : Bytes) (e : Nat) (tk : List Bytes) :
    ∀ (n i : Nat) (w : World), ∃ w',
      (askChunks (ε := ε) t .gatq key e n i).eval now w tk =
        ((presentItems now (w.get t) key n i).map (fun it => Resp.hit it.flags 0 it.data), [], w', tk) ∧
      DataSub (w'.get t) (w.get t) ∧
      (∀ k, (∀ j, i ≤ j → j < i + n → k ≠ chunkKey key j) → (w'.get t) k = (w.get t) k)
  | 0, _, w => ⟨w, rfl, DataSub.refl _, fun _ _ => rfl⟩
  | n + 1, i, w => by
    cases hl : (w.get t).look now (chunkKey key i) with
    | none =>
      obtain ⟨w', h1, h2, h3⟩ := eval_askChunks_gatq (ε := ε) now t key e tk n (i + 1) w
      refine ⟨w', ?_, h2, fun k hk => h3 k (fun j a b => hk j (by omega) (by omega))⟩
      simp only [askChunks, Prog.eval_bind, Prog.eval_req, Mc.exec, hl, put_get_self, presentItems, h1]
      rfl
    | some it =>
      let w1 := w.put t ((w.get t).set (chunkKey key i) (some { it with deadline := deadlineOf now e }))
      obtain ⟨w', h1, h2, h3⟩ := eval_askChunks_gatq (ε := ε) now t key e tk n (i + 1) w1
      have hget : w1.get t = (w.get t).set (chunkKey key i) (some { it with deadline := deadlineOf now e }) := by
        simp [w1]
      have hcongr : presentItems now (w1.get t) key n (i + 1) = presentItems now (w.get t) key n (i + 1) := by
        apply presentItems_congr
        intro j hj1 _
        rw [hget]
        apply look_set_other
        intro he
        have := (chunkKey_inj _ _ _ _ he).2
        omega
      refine ⟨w', ?_, ?_, ?_⟩
      · simp only [askChunks, Prog.eval_bind, Prog.eval_req, Mc.exec, hl, presentItems]
        have : (w.put t ((w.get t).set (chunkKey key i) (some { it with deadline := deadlineOf now e }))) = w1 := rfl
        rw [this, h1, hcongr]
        rfl
      · apply h2.trans
        rw [hget]
        exact dataSub_retime _ _ it (look_some_iff.mp hl).1 _
      · intro k hk
        rw [h3 k (fun j a b => hk j (by omega) (by omega)), hget]
        have : k ≠ chunkKey key i := hk i (Nat.le_refl _) (by omega)
        simp [Store.set, this]

/-- `readChunks` with quiet get-and-touch requests, in closed form. -/
theorem eval_readChunks_gatq {ε} (now : Nat) (t : Tier) (key : Bytes) (e : Nat) (md : Meta) (w : World) (tk : List Bytes) :
    ∃ w', (readChunks (ε := ε) t .gatq key e md).eval now w tk =
        (readResult md (presentItems now (w.get t) key md.numChunks 0), [], w', tk) ∧
      DataSub (w'.get t) (w.get t) := by
  obtain ⟨w', h1, h2, _⟩ := eval_askChunks_gatq (ε := ε) now t key e tk md.numChunks 0 w
  refine ⟨w', ?_, h2⟩
  simp only [readChunks, noopEnds_ok, Prog.eval_bind, h1, Prog.eval_req, Mc.exec, put_get_self, List.append_nil, List.nil_append]
  rw [readLoop_hits]
  have hc := foldl_hit_chunk md (presentItems now (w.get t) key md.numChunks 0) { buf := Bytes.zeros md.length }
  simp only [hc.2, hc.1, Nat.zero_add, Bool.not_true, Bool.false_eq_true, if_false, readResult]
  split <;> simp_all

/-- **Get-and-touch is all-or-nothing**: against any consistent store a chunked get-and-touch
    answers with a miss or with the value and flags of ONE intent, whole, and leaves a consistent
    store (it only moves deadlines). -/
theorem gat_all_or_nothing {ε} (now : Nat) (t : Tier) (H : List Intent) (tk : List Bytes) (c : KeyCmd) (w : World)
    (hc : Consistent (w.get t) H) :
    Consistent ((((Chunked.gat (ε := ε) t c).eval now w tk).2.2.1).get t) H ∧
    ∃ resp, ((Chunked.gat (ε := ε) t c).eval now w tk).1 = .ok resp ∧ resp.key = c.key ∧ AnswerOK H resp := by
  cases hl : (w.get t).look now (metaKey c.key) with
  | none =>
    simp only [Chunked.gat, Prog.eval_bind, Prog.eval_req, Mc.exec, hl, put_get_self, metaOf, decode_notFound', Prog.eval_pure]
    exact ⟨hc, _, rfl, rfl, Or.inl rfl⟩
  | some it =>
    obtain ⟨h, hH, hkey, hd⟩ := hc.metaE c.key it (look_some_iff.mp hl).1
    let w1 := w.put t ((w.get t).set (metaKey c.key) (some { it with deadline := deadlineOf now c.exptime }))
    have hget : w1.get t = (w.get t).set (metaKey c.key) (some { it with deadline := deadlineOf now c.exptime }) := by
      simp [w1]
    have hsub1 : DataSub (w1.get t) (w.get t) := by
      rw [hget]; exact dataSub_retime _ _ it (look_some_iff.mp hl).1 _
    have hc1 : Consistent (w1.get t) H := hc.of_dataSub hsub1
    obtain ⟨w', hev, hsub⟩ := eval_readChunks_gatq (ε := ε) now t c.key c.exptime (decodeMeta it.data) w1 tk
    have hsound := readResult_sound now (w1.get t) (decodeMeta it.data) H h hH hc1 hd
    rw [hkey] at hsound
    have hc' : Consistent (w'.get t) H := hc1.of_dataSub hsub
    have hmeta : Mc.exec now (w.get t) { op := .gat, key := metaKey c.key, exptime := c.exptime } =
        ((w.get t).set (metaKey c.key) (some { it with deadline := deadlineOf now c.exptime }), .hit it.flags 0 it.data) := by
      simp [Mc.exec, hl]
    have hstep : (Chunked.gat (ε := ε) t c).eval now w tk =
        (match readResult (decodeMeta it.data) (presentItems now (w1.get t) c.key (decodeMeta it.data).numChunks 0) with
          | .err e => .error e
          | .miss => .ok { key := c.key, opq := c.opq, flags := (decodeMeta it.data).origFlags, miss := true }
          | .value d => .ok { key := c.key, data := d, opq := c.opq, flags := (decodeMeta it.data).origFlags }, [], w', tk) := by
      simp only [Chunked.gat, Prog.eval_bind, Prog.eval_req, hmeta, metaOf, List.nil_append]
      show _ = _
      have : (Prog.eval now (readChunks (ε := ε) t Op.gatq c.key c.exptime (decodeMeta it.data)) w1 tk) = _ := hev
      simp only [w1] at this
      rw [this]
      cases readResult (decodeMeta it.data) (presentItems now (w1.get t) c.key (decodeMeta it.data).numChunks 0) <;> rfl
    rw [hstep]
    rcases hsound with hm | hv
    · rw [hm]
      exact ⟨hc', _, rfl, rfl, Or.inl rfl⟩
    · rw [hv]
      exact ⟨hc', _, rfl, rfl, Or.inr ⟨h, hH, hkey, rfl, hd.2.2.1⟩⟩

end Rend.Chunked

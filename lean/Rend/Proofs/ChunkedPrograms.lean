/-
  What the chunked handler's programs send, and what its get returns from a consistent store.
-/
import Rend.Proofs.ChunkedWrite

namespace Rend.Chunked
open Rend

/-- The intent of a set-type command that drew `token`. -/
def intentOf (c : SetCmd) (token : Bytes) : Intent := ⟨c.key, token, c.data, c.flags⟩

def IsStoreWrite (h : Intent) (_t : Tier) (r : Req) : Prop :=
  (r.op = .set ∨ r.op = .add ∨ r.op = .replace) ∧ IsWriteOf h r

theorem writeChunks_writes {ε} (t : Tier) (c : SetCmd) (token : Bytes) (n i : Nat) :
    AllReqs (IsStoreWrite (intentOf c token)) (writeChunks (ε := ε) t c token (sizes c.key.length).1 n i) := by
  induction n generalizing i with
  | zero => exact AllReqs.ret _
  | succ n ih =>
    unfold writeChunks
    apply AllReqs.bind
    · apply AllReqs.req
      exact ⟨Or.inl rfl, Or.inr ⟨i, rfl, rfl⟩⟩
    · intro r
      cases r with
      | io => exact AllReqs.ret _
      | wfail => exact AllReqs.ret _
      | status s =>
        simp only
        split
        · exact AllReqs.ret _
        · exact ih (i + 1)
      | hit f e d => exact ih (i + 1)
      | ok => exact ih (i + 1)
      | silent => exact ih (i + 1)

/-- **Every request of a set / add / replace** through the chunked handler — whatever the
    backend answers — writes one whole entry of the command's own intent. -/
theorem setCommon_writes {ε} (t : Tier) (now : Nat) (k : SetKind) (c : SetCmd) (hk : k = .set ∨ k = .add ∨ k = .replace)
    (hkey : c.key.length ≤ 250) (hd : c.data.length < 4294967296) (hf : c.flags < 4294967296) :
    ∃ body : Bytes → Prog ε (HRes Unit), setCommon t now k c = .draw body ∧
      ∀ token, token.length = 16 → AllReqs (IsStoreWrite (intentOf c token)) (body token) := by
  refine ⟨_, rfl, ?_⟩
  intro token ht
  apply AllReqs.call
  · refine ⟨by rcases hk with rfl | rfl | rfl <;> simp [SetKind.op], Or.inl ⟨rfl, _, rfl, ?_, ?_⟩⟩
    · refine ⟨hd, hf, ?_, ?_, ?_, ?_, ht⟩
      · show (intentOf c token).n < 4294967296
        have h1 := (intentOf c token).n_spec hkey
        have h2 := (intentOf c token).ds_pos hkey
        have h3 : (intentOf c token).n * 847 ≤ (intentOf c token).n * (intentOf c token).ds := Nat.mul_le_mul_left _ h2.1
        have h4 : (intentOf c token).data.length < 4294967296 := hd
        omega
      · show (intentOf c token).ds < 4294967296
        have h2 := (intentOf c token).ds_pos hkey
        omega
      · simp only; omega
      · simp only; exact (Gen.exptime (now : Int) (BitVec.ofNat 32 c.exptime)).1.isLt
    · exact ⟨rfl, rfl, rfl, rfl, rfl⟩
  · intro r
    cases r <;> simp only [Prog.bind]
    all_goals first
      | exact AllReqs.ret _
      | exact writeChunks_writes t c token _ 0
      | (split
         · exact AllReqs.ret _
         · exact writeChunks_writes t c token _ 0)

end Rend.Chunked

namespace Rend.Chunked
open Rend

theorem decode_notFound' : decodeError stNotFound = some .keyNotFound := by decide

/-- What a chunked get answers for one key: a miss, or one intent's value and flags, whole. -/
def AnswerOK (H : List Intent) (resp : GetResp) : Prop :=
  resp.miss = true ∨ ∃ h ∈ H, h.key = resp.key ∧ resp.data = h.data ∧ resp.flags = h.flags

/-- **Get is all-or-nothing** for every list of keys against every consistent store. -/
theorem getLoop_all_or_nothing {ε} (now : Nat) (t : Tier) (H : List Intent) (tk : List Bytes) :
    ∀ (ks : List GetKey) (w : World), Consistent (w.get t) H →
      ((getLoop (ε := ε) t ks).eval now w tk).2.2.1 = w ∧ ((getLoop (ε := ε) t ks).eval now w tk).2.2.2 = tk ∧
      ((getLoop (ε := ε) t ks).eval now w tk).2.1 = [] ∧
      ((getLoop (ε := ε) t ks).eval now w tk).1.2 = none ∧
      ((getLoop (ε := ε) t ks).eval now w tk).1.1.map (·.key) = ks.map (·.key) ∧
      ∀ resp ∈ ((getLoop (ε := ε) t ks).eval now w tk).1.1, AnswerOK H resp
  | [], w, _ => by simp [getLoop]
  | g :: rest, w, hc => by
    obtain ⟨i1, i2, i3, i4, i5, i6⟩ := getLoop_all_or_nothing now t H tk rest w hc
    simp only [getLoop, Prog.eval_bind, Prog.eval_req, Mc.exec]
    cases hl : (w.get t).look now (metaKey g.key) with
    | none =>
      simp only [put_get_self, metaOf, decode_notFound', Prog.eval_bind, Prog.eval_pure, List.append_nil,
        List.map_cons, List.mem_cons]
      refine ⟨i1, i2, by rw [i3]; rfl, i4, by rw [i5], ?_⟩
      intro resp hr
      rcases hr with rfl | hr
      · exact Or.inl rfl
      · exact i6 resp hr
    | some it =>
      obtain ⟨h, hH, hkey, hd⟩ := hc.metaE g.key it (look_some_iff.mp hl).1
      have hrd := readChunks_all_or_nothing (ε := ε) now t (decodeMeta it.data) w tk H h hH hc hd
      rw [hkey] at hrd
      obtain ⟨hw, hres⟩ := hrd
      have hev := eval_readChunks_getq (ε := ε) now t g.key (decodeMeta it.data) w tk
      have htk : ((readChunks (ε := ε) t .getq g.key 0 (decodeMeta it.data)).eval now w tk).2.2.2 = tk := by rw [hev]
      have hevs : ((readChunks (ε := ε) t .getq g.key 0 (decodeMeta it.data)).eval now w tk).2.1 = [] := by rw [hev]
      simp only [put_get_self, metaOf, Prog.eval_bind, hw, htk, hevs, List.nil_append]
      rcases hres with hm | hv
      · simp only [hm, Prog.eval_bind, Prog.eval_pure, List.append_nil, List.map_cons, List.mem_cons]
        refine ⟨i1, i2, by rw [i3], i4, by rw [i5], ?_⟩
        intro resp hr
        rcases hr with rfl | hr
        · exact Or.inl rfl
        · exact i6 resp hr
      · simp only [hv, Prog.eval_bind, Prog.eval_pure, List.append_nil, List.map_cons, List.mem_cons]
        refine ⟨i1, i2, by rw [i3], i4, by rw [i5], ?_⟩
        intro resp hr
        rcases hr with rfl | hr
        · exact Or.inr ⟨h, hH, hkey, rfl, hd.2.2.1⟩
        · exact i6 resp hr

end Rend.Chunked

import Rend.Proofs.ReaderStable

namespace Rend.Conc
open Rend

/-- What the single map answers for a key whose entry is `b`. -/
def lookB (now : Nat) (b : Option Item) : Option (Nat × Bytes) :=
  match b with
  | some b' => if b'.live now then some (b'.flags, b'.data) else none
  | none => none

/-- The L1 read of a single-key get. -/
def QL1 (now : Nat) (gk : GetKey) (b : Option Item) (x : (List GetResp × Option HErr) × List OEv) : Prop :=
  x.2 = [] ∧ x.1.2 = none ∧ ∃ r, x.1.1 = [r] ∧ r.key = gk.key ∧ r.opq = gk.opq ∧ r.quiet = gk.quiet ∧
    (r.miss = true ∨ (r.miss = false ∧ lookB now b = some (r.flags, r.data)))

theorem getLoop_l1_stable (now : Nat) (gk : GetKey) (b : Option Item) :
    Stable now gk.key b (QL1 now gk b) (Std.getLoop (ε := OEv) .l1 .get [gk]) := by
  unfold Std.getLoop
  apply Stable.bind
  apply Stable.req
  intro w hw
  rw [exec_get]
  refine ⟨by rw [put_get_self]; exact hw, ?_⟩
  simp only [World.get]
  cases h : w.l1.look now gk.key with
  | none =>
    simp only [Std.getLocal, decode_notFound, Std.getLoop]
    refine Stable.ret _ _ ?_
    exact ⟨rfl, rfl, _, rfl, rfl, rfl, rfl, Or.inl rfl⟩
  | some a =>
    simp only [Std.getLocal, Std.getLoop]
    refine Stable.ret _ _ ?_
    obtain ⟨b', hb, hl, hd, hf⟩ := class_l1 now gk.key b w hw a h
    refine ⟨rfl, rfl, _, rfl, rfl, rfl, rfl, Or.inr ⟨rfl, ?_⟩⟩
    subst hb
    simp [lookB, hl, hd, hf]

end Rend.Conc

namespace Rend.Conc
open Rend

theorem Stable.andThen' {α β : Type} {now : Nat} {k : Bytes} {b : Option Item} (p : OProg (HRes α)) (f : HRes α → OProg (HRes β))
    (Q : HRes β × List OEv → Prop)
    (h : Stable now k b (fun x => isPanic x.1 = false ∧ isCrash x.1 = false ∧
      Stable now k b (fun y => Q (y.1, x.2 ++ y.2)) (f x.1)) p) : Stable now k b Q (andThen p f) := by
  unfold andThen
  apply Stable.bind
  apply h.mono
  rintro ⟨r, es⟩ ⟨h1, h2, h3⟩
  simp only at h1 h2 h3 ⊢
  split
  · simp [isPanic] at h1
  · simp [isCrash] at h2
  · exact h3

/-- What the pass-through handler answers for a key whose entry is `b`. -/
def respB (now : Nat) (withExp : Bool) (g : GetKey) (b : Option Item) : GetResp :=
  match b with
  | some it => if it.live now then
      { key := g.key, data := it.data, opq := g.opq, flags := it.flags,
        exptime := if withExp then remaining now it else 0, miss := false, quiet := g.quiet }
    else { key := g.key, opq := g.opq, miss := true, quiet := g.quiet }
  | none => { key := g.key, opq := g.opq, miss := true, quiet := g.quiet }

theorem getLoop_l2_stable (now : Nat) (g : GetKey) (b : Option Item) (withExp : Bool) :
    Stable now g.key b (fun x => x.2 = [] ∧ x.1 = ([respB now withExp g b], none))
      (Std.getLoop (ε := OEv) .l2 (if withExp then .gete else .get) [g]) := by
  unfold Std.getLoop
  apply Stable.bind
  apply Stable.req
  intro w hw
  have hl := class_l2 now g.key b w hw
  cases withExp
  · simp only [Bool.false_eq_true, if_false]
    rw [exec_get]
    refine ⟨by rw [put_get_self]; exact hw, ?_⟩
    simp only [World.get, hl]
    cases b with
    | none =>
      simp only [Std.getLocal, decode_notFound, Std.getLoop]
      exact Stable.ret _ _ ⟨rfl, rfl⟩
    | some it =>
      by_cases hlive : it.live now = true
      · simp only [hlive, if_true, Std.getLocal, Std.getLoop]
        refine Stable.ret _ _ ⟨rfl, ?_⟩
        simp [respB, hlive]
      · simp only [hlive, Bool.false_eq_true, if_false, Std.getLocal, decode_notFound, Std.getLoop]
        refine Stable.ret _ _ ⟨rfl, ?_⟩
        simp [respB, hlive]
  · simp only [if_true]
    rw [exec_gete]
    refine ⟨by rw [put_get_self]; exact hw, ?_⟩
    simp only [World.get, hl]
    cases b with
    | none =>
      simp only [Std.getLocal, decode_notFound, Std.getLoop]
      exact Stable.ret _ _ ⟨rfl, rfl⟩
    | some it =>
      by_cases hlive : it.live now = true
      · simp only [hlive, if_true, Std.getLocal, Std.getLoop]
        refine Stable.ret _ _ ⟨rfl, ?_⟩
        simp [respB, hlive]
      · simp only [hlive, Bool.false_eq_true, if_false, Std.getLocal, decode_notFound, Std.getLoop]
        refine Stable.ret _ _ ⟨rfl, ?_⟩
        simp [respB, hlive]

end Rend.Conc

namespace Rend.Conc
open Rend

/-- The back-fill of L2's answer for one key keeps the key in its class and forwards the answer. -/
theorem backfill_stable (now : Nat) (g : GetKey) (b : Option Item) :
    Stable now g.key b (fun x => x.1 = .ok () ∧ x.2 = [.resp (.get (fwdResp (respB now true g b)))])
      (L1L2.backfill (Std.handler .l1) [respB now true g b]) := by
  have hfwd : ∀ (Q : HRes Unit × List OEv → Prop), Q (.ok (), [.resp (.get (fwdResp (respB now true g b)))]) →
      Stable now g.key b Q (do
        respond (.get (fwdResp (respB now true g b)))
        L1L2.backfill (Std.handler .l1) []) := by
    intro Q hQ
    apply Stable.bind
    apply Stable.out
    exact Stable.ret _ _ hQ
  unfold L1L2.backfill
  by_cases hm : (respB now true g b).miss = true
  · rw [if_pos hm]
    exact hfwd _ ⟨rfl, rfl⟩
  · rw [if_neg hm]
    -- a hit: b is live
    obtain ⟨it, hb, hlive⟩ : ∃ it, b = some it ∧ it.live now = true := by
      cases b with
      | none => simp [respB] at hm
      | some it =>
        by_cases hl : it.live now = true
        · exact ⟨it, rfl, hl⟩
        · simp [respB, hl] at hm
    apply Stable.andThen'
    show Stable now g.key b _ (Std.store .l1 .set _)
    unfold Std.store
    apply Stable.bind
    apply Stable.req
    intro w hw
    have hexec : Mc.exec now (w.get .l1) (Std.storeReq .set { key := (respB now true g b).key, flags := (respB now true g b).flags, exptime := (respB now true g b).exptime, data := (respB now true g b).data }) = ((w.get .l1).set g.key (some (backfillItem now it)), .ok) := by
      subst hb
      simp [Mc.exec, Std.storeReq, respB, hlive, backfillItem, SetKind.op]
    rw [hexec]
    constructor
    · -- the class is kept
      refine ⟨?_, hw.2⟩
      intro a ha
      have hl2 : (w.put .l1 ((w.get .l1).set g.key (some (backfillItem now it)))).l2 = w.l2 := rfl
      have hl1 : (w.put .l1 ((w.get .l1).set g.key (some (backfillItem now it)))).l1 = w.l1.set g.key (some (backfillItem now it)) := rfl
      rw [hl2]
      rw [hl1, Store.look_set_same] at ha
      have hlook := class_l2 now g.key b w hw
      subst hb
      simp only [hlive, if_true] at hlook
      by_cases hbl : (backfillItem now it).live now = true
      · simp only [hbl, if_true, Option.some.injEq] at ha
        subst ha
        exact ⟨it, hlook, rfl, rfl, backfill_outlives now it hlive⟩
      · simp [hbl] at ha
    · show Stable now g.key b _ (Pure.pure (Except.ok ()))
      apply Stable.ret
      refine ⟨rfl, rfl, ?_⟩
      show Stable now g.key b _ (do
        respond (.get (fwdResp (respB now true g b)))
        L1L2.backfill (Std.handler .l1) [])
      apply hfwd
      exact ⟨rfl, rfl⟩

end Rend.Conc

namespace Rend.Conc
open Rend

theorem Stable.emitGets_nil {now : Nat} {k : Bytes} {b : Option Item} (Q : Unit × List OEv → Prop) (h : Q ((), [])) :
    Stable now k b Q (emitGets []) := Stable.ret _ _ h

theorem Stable.emitGets_one {now : Nat} {k : Bytes} {b : Option Item} (r : GetResp) (Q : Unit × List OEv → Prop)
    (h : Q ((), [.resp (.get r)])) : Stable now k b Q (emitGets [r]) := by
  unfold emitGets
  apply Stable.bind
  apply Stable.out
  exact Stable.emitGets_nil _ h

theorem Stable.reply' {now : Nat} {k : Bytes} {b : Option Item} (e : REv) (Q : HRes Unit × List OEv → Prop)
    (h : Q (.ok (), [.resp e])) : Stable now k b Q (reply e) := by
  unfold reply
  apply Stable.bind
  apply Stable.out
  exact Stable.ret _ _ h

/-- The answer of a single-key get against a key whose entry is `b`. -/
def QGet (now : Nat) (g : GetCmd) (gk : GetKey) (b : Option Item) (x : HRes Unit × List OEv) : Prop :=
  x.1 = .ok () ∧ ∃ r : GetResp, x.2 = [.resp (.get r), .resp (.getEnd g.noopOpaque g.noopEnd)] ∧
    viewOf r = (gk.key, gk.opq, gk.quiet, lookB now b)

theorem view_fwd (now : Nat) (g : GetKey) (b : Option Item) :
    viewOf (fwdResp (respB now true g b)) = (g.key, g.opq, g.quiet, lookB now b) := by
  cases b with
  | none => simp [viewOf, fwdResp, respB, lookB]
  | some it =>
    by_cases hl : it.live now = true <;> simp [viewOf, fwdResp, respB, lookB, hl]

theorem L1L2_get_stable (now : Nat) (g : GetCmd) (gk : GetKey) (hk : g.keys = [gk]) (b : Option Item) :
    Stable now gk.key b (QGet now g gk b) (L1L2.get (Std.handler .l1) (Std.handler .l2) g) := by
  unfold L1L2.get
  rw [hk]
  show Stable now gk.key b _ (Std.getLoop .l1 .get [gk] >>= _)
  apply Stable.bind
  apply (getLoop_l1_stable now gk b).mono
  rintro ⟨⟨rs1, err1⟩, es⟩ ⟨hes, herr, r, hrs, hkey, hopq, hq, hcase⟩
  simp only at hes herr hrs ⊢
  subst hes herr hrs
  rcases hcase with hmiss | ⟨hmiss, hlook⟩
  · simp only [L1L2.splitL1, hmiss, if_true]
    apply Stable.bind
    apply Stable.emitGets_nil
    simp only [List.isEmpty_cons, Bool.false_eq_true, if_false]
    show Stable now gk.key b _ (Std.getLoop .l2 .gete [{ key := r.key, opq := r.opq, quiet := r.quiet }] >>= _)
    apply Stable.bind
    have hl2 := getLoop_l2_stable now { key := r.key, opq := r.opq, quiet := r.quiet } b true
    simp only [if_true] at hl2
    rw [← hkey]
    apply hl2.mono
    rintro ⟨⟨rs2, err2⟩, es2⟩ ⟨hes2, hx⟩
    simp only [Prod.mk.injEq] at hes2 hx ⊢
    obtain ⟨hrs2, herr2⟩ := hx
    subst hes2 hrs2 herr2
    apply Stable.andThen'
    have hbf := backfill_stable now { key := r.key, opq := r.opq, quiet := r.quiet } b
    simp only at hbf
    apply hbf.mono
    rintro ⟨res, es3⟩ ⟨hres, hes3⟩
    simp only at hres hes3 ⊢
    subst hres hes3
    refine ⟨rfl, rfl, ?_⟩
    apply Stable.reply'
    refine ⟨rfl, _, rfl, ?_⟩
    rw [view_fwd]
    simp [hkey, hopq, hq]
  · simp only [L1L2.splitL1, hmiss, Bool.false_eq_true, if_false]
    apply Stable.bind
    apply Stable.emitGets_one
    simp only [List.isEmpty_nil, if_true]
    apply Stable.reply'
    refine ⟨rfl, r, rfl, ?_⟩
    simp [viewOf, hmiss, hkey, hopq, hq, hlook]

end Rend.Conc

namespace Rend.Conc
open Rend

theorem view_plain (now : Nat) (g : GetKey) (b : Option Item) :
    viewOf ({ key := (respB now false g b).key, flags := (respB now false g b).flags, data := (respB now false g b).data, miss := (respB now false g b).miss, opq := (respB now false g b).opq, quiet := (respB now false g b).quiet } : GetResp) = (g.key, g.opq, g.quiet, lookB now b) := by
  cases b with
  | none => simp [viewOf, respB, lookB]
  | some it =>
    by_cases hl : it.live now = true <;> simp [viewOf, respB, lookB, hl]

theorem L1L2Batch_get_stable (now : Nat) (g : GetCmd) (gk : GetKey) (hk : g.keys = [gk]) (b : Option Item) :
    Stable now gk.key b (QGet now g gk b) (L1L2Batch.get (Std.handler .l1) (Std.handler .l2) g) := by
  unfold L1L2Batch.get
  rw [hk]
  show Stable now gk.key b _ (Std.getLoop .l1 .get [gk] >>= _)
  apply Stable.bind
  apply (getLoop_l1_stable now gk b).mono
  rintro ⟨⟨rs1, err1⟩, es⟩ ⟨hes, herr, r, hrs, hkey, hopq, hq, hcase⟩
  simp only at hes herr hrs ⊢
  subst hes herr hrs
  rcases hcase with hmiss | ⟨hmiss, hlook⟩
  · simp only [L1L2.splitL1, hmiss, if_true]
    apply Stable.bind
    apply Stable.emitGets_nil
    simp only [List.isEmpty_cons, Bool.false_eq_true, if_false]
    show Stable now gk.key b _ (Std.getLoop .l2 .get [{ key := r.key, opq := r.opq, quiet := r.quiet }] >>= _)
    apply Stable.bind
    have hl2 := getLoop_l2_stable now { key := r.key, opq := r.opq, quiet := r.quiet } b false
    simp only [Bool.false_eq_true, if_false] at hl2
    rw [← hkey]
    apply hl2.mono
    rintro ⟨⟨rs2, err2⟩, es2⟩ ⟨hes2, hx⟩
    simp only [Prod.mk.injEq] at hes2 hx ⊢
    obtain ⟨hrs2, herr2⟩ := hx
    subst hes2 hrs2 herr2
    simp only [List.map_cons, List.map_nil]
    apply Stable.bind
    apply Stable.emitGets_one
    apply Stable.reply'
    refine ⟨rfl, _, rfl, ?_⟩
    rw [view_plain]
    simp [hopq, hq, hkey]
  · simp only [L1L2.splitL1, hmiss, Bool.false_eq_true, if_false]
    apply Stable.bind
    apply Stable.emitGets_one
    simp only [List.isEmpty_nil, if_true]
    apply Stable.reply'
    refine ⟨rfl, r, rfl, ?_⟩
    simp [viewOf, hmiss, hkey, hopq, hq, hlook]

end Rend.Conc

/-
  `Proofs/SerialFoot.lean` with footprints PER TIER: a location is a (tier, key) pair, so a
  section's footprint may name different keys in L1 and in L2 (the chunking handler's derived keys
  in L1, the client key itself in L2).  The invariant and its proof are those of SerialFoot with
  `at'` replaced by the one-tier projection `atT`.  Core-only.
-/
import Rend.Proofs.SerialFoot

namespace Rend.Conc
open Rend

/-- A backend location: a key in one of the two stores. -/
abbrev Loc := Tier × Bytes

def atT (w : World) (l : Loc) : Option Item := (w.get l.1) l.2

/-- The request addresses a location of the set `F` (or is the key-less no-op). -/
def FootLocalT (F : Loc → Prop) : Tier → Req → Prop := fun t r => F (t, r.key) ∨ r.op = .noop

theorem get_put_same (w : World) (t : Tier) (s : Store) : (w.put t s).get t = s := by cases t <;> rfl

theorem get_put_other (w : World) (t t' : Tier) (s : Store) (h : t' ≠ t) : (w.put t s).get t' = w.get t' := by
  cases t <;> cases t' <;> first | rfl | exact absurd rfl h

theorem world_extT (w w' : World) (h : ∀ l, atT w l = atT w' l) : w = w' := by
  have h1 : w.l1 = w'.l1 := funext (fun k => h (.l1, k))
  have h2 : w.l2 = w'.l2 := funext (fun k => h (.l2, k))
  cases w; cases w'; simp only at h1 h2; subst h1; subst h2; rfl

theorem put_otherT (now : Nat) (w : World) (t : Tier) (r : Req) (F : Loc → Prop) (l' : Loc) (h : F (t, r.key) ∨ r.op = .noop)
    (hk : ¬ F l') : atT (w.put t (Mc.exec now (w.get t) r).1) l' = atT w l' := by
  obtain ⟨t', k'⟩ := l'
  unfold atT
  by_cases ht : t' = t
  · subst ht
    simp only [get_put_same]
    exact exec_otherF now (w.get t') r (fun k => F (t', k)) k' h hk
  · simp only [get_put_other _ _ _ _ ht]

theorem put_sameT (now : Nat) (w w' : World) (t : Tier) (r : Req) (F : Loc → Prop) (h : F (t, r.key) ∨ r.op = .noop)
    (hs : ∀ l, F l → atT w l = atT w' l) :
    (Mc.exec now (w.get t) r).2 = (Mc.exec now (w'.get t) r).2 ∧
    ∀ l, F l → atT (w.put t (Mc.exec now (w.get t) r).1) l = atT (w'.put t (Mc.exec now (w'.get t) r).1) l := by
  obtain ⟨a, b⟩ := exec_sameF now (w.get t) (w'.get t) r (fun k => F (t, k)) h (fun k hk => hs (t, k) hk)
  refine ⟨a, ?_⟩
  rintro ⟨t', k'⟩ hl
  unfold atT
  by_cases ht : t' = t
  · subst ht
    simp only [get_put_same]
    exact b k' hl
  · simp only [get_put_other _ _ _ _ ht]
    exact hs (t', k') hl

theorem eval_otherT {ε α : Type} (now : Nat) (F : Loc → Prop) {p : Prog ε α} (hp : AllReqs (FootLocalT F) p) :
    ∀ (w : World) (l' : Loc), ¬ F l' → atT (p.eval now w []).2.2.1 l' = atT w l' := by
  induction hp with
  | ret a => intro w k' _; rfl
  | call t r f hr _ ih =>
    intro w k' hk
    simp only [Prog.eval]
    rw [ih _ _ k' hk, put_otherT now w t r F k' hr hk]
  | draw f _ ih =>
    intro w k' hk
    simp only [Prog.eval]
    exact ih _ zeros_len w k' hk
  | emit e p _ ih =>
    intro w k' hk
    simp only [Prog.eval]
    exact ih w k' hk

theorem eval_sameT {ε α : Type} (now : Nat) (F : Loc → Prop) {p : Prog ε α} (hp : AllReqs (FootLocalT F) p) :
    ∀ (w w' : World), (∀ l, F l → atT w l = atT w' l) →
      (p.eval now w []).1 = (p.eval now w' []).1 ∧ (p.eval now w []).2.1 = (p.eval now w' []).2.1 ∧
      ∀ l, F l → atT (p.eval now w []).2.2.1 l = atT (p.eval now w' []).2.2.1 l := by
  induction hp with
  | ret a => intro w w' h; exact ⟨rfl, rfl, h⟩
  | call t r f hr _ ih =>
    intro w w' h
    have hs := put_sameT now w w' t r F hr h
    simp only [Prog.eval]
    rw [hs.1]
    exact ih _ _ _ hs.2
  | draw f _ ih =>
    intro w w' h
    simp only [Prog.eval]
    exact ih _ zeros_len w w' h
  | emit e p _ ih =>
    intro w w' h
    simp only [Prog.eval]
    obtain ⟨a, b, c⟩ := ih w w' h
    exact ⟨a, by rw [b], c⟩

/-! ### connections running critical sections under a lock table -/

/-- One command under the locking wrapper: the key it works on, the stripe that key hashes to,
    and what runs between `Lock()` and `Unlock()`. -/
structure ThreadT (α : Type) where
  foot : Loc → Prop
  stripe : Nat
  body : Prog OEv α

/-- One scheduling step.  `acq`: `Lock()` succeeds only when no other connection holds the stripe
    (exclusive locks: write locks, or any lock in single-reader mode).  `act`: the next backend
    request (answered by the backend at once), token draw or responder call of a connection inside
    its critical section.  `rel`: `Unlock()` when the section has returned. -/
inductive Step1T {α : Type} (now : Nat) (thr : Nat → ThreadT α) : Conf α → Step → Conf α → Prop where
  | acq (c : Conf α) (i : Nat) : c.ts i = .idle →
      (∀ j p evs, c.ts j = .running p evs → (thr j).stripe ≠ (thr i).stripe) →
      Step1T now thr c (.acq i) (c.set i (.running (thr i).body []))
  | call (c : Conf α) (i : Nat) (t : Tier) (r : Req) (k : Resp → Prog OEv α) (evs : List OEv) :
      c.ts i = .running (.call t r k) evs →
      Step1T now thr c (.act i)
        (Conf.set { w := c.w.put t (Mc.exec now (c.w.get t) r).1, ts := c.ts } i
          (.running (k (Mc.exec now (c.w.get t) r).2) evs))
  | emit (c : Conf α) (i : Nat) (e : OEv) (p : Prog OEv α) (evs : List OEv) :
      c.ts i = .running (.emit e p) evs → Step1T now thr c (.act i) (c.set i (.running p (evs ++ [e])))
  | draw (c : Conf α) (i : Nat) (k : Bytes → Prog OEv α) (evs : List OEv) :
      c.ts i = .running (.draw k) evs → Step1T now thr c (.act i) (c.set i (.running (k (Bytes.zeros 16)) evs))
  | rel (c : Conf α) (i : Nat) (a : α) (evs : List OEv) :
      c.ts i = .running (.ret a) evs → Step1T now thr c (.rel i) (c.set i (.done a evs))

/-- A schedule: any finite sequence of admitted steps. -/
inductive ExecT {α : Type} (now : Nat) (thr : Nat → ThreadT α) : Conf α → List Step → Conf α → Prop where
  | nil (c : Conf α) : ExecT now thr c [] c
  | cons (c c' c'' : Conf α) (s : Step) (rest : List Step) : Step1T now thr c s c' → ExecT now thr c' rest c'' →
      ExecT now thr c (s :: rest) c''

/-! ### the sequential reference -/

structure RefT (α : Type) where
  w : World
  res : Nat → Option (α × List OEv)

/-- Run command `i` whole, on the reference state. -/
def RefT.runOne {α : Type} (now : Nat) (thr : Nat → ThreadT α) (r : RefT α) (i : Nat) : RefT α :=
  { w := ((thr i).body.eval now r.w []).2.2.1,
    res := fun j => if j = i then some (((thr i).body.eval now r.w []).1, ((thr i).body.eval now r.w []).2.1) else r.res j }

/-- Run the commands one after another in the given order. -/
def seqRunT {α : Type} (now : Nat) (thr : Nat → ThreadT α) (r : RefT α) (order : List Nat) : RefT α :=
  order.foldl (RefT.runOne now thr) r

def RefT.extend {α : Type} (now : Nat) (thr : Nat → ThreadT α) (r : RefT α) : Step → RefT α
  | .acq i => r.runOne now thr i
  | _ => r

theorem foldlT_extend {α : Type} (now : Nat) (thr : Nat → ThreadT α) : ∀ (sched : List Step) (r : RefT α),
    sched.foldl (RefT.extend now thr) r = seqRunT now thr r (acqOrder sched)
  | [], r => rfl
  | .acq i :: rest, r => by
    simp only [List.foldl_cons, acqOrder, seqRunT, RefT.extend]
    exact foldlT_extend now thr rest _
  | .act i :: rest, r => by
    simp only [List.foldl_cons, acqOrder, RefT.extend]
    exact foldlT_extend now thr rest _
  | .rel i :: rest, r => by
    simp only [List.foldl_cons, acqOrder, RefT.extend]
    exact foldlT_extend now thr rest _

/-! ### the invariant -/

structure InvT {α : Type} (now : Nat) (thr : Nat → ThreadT α) (c : Conf α) (r : RefT α) : Prop where
  running : ∀ i p evs, c.ts i = .running p evs →
    AllReqs (FootLocalT (thr i).foot) p ∧
    r.res i = some ((p.eval now c.w []).1, evs ++ (p.eval now c.w []).2.1) ∧
    ∀ k, (thr i).foot k → atT (p.eval now c.w []).2.2.1 k = atT r.w k
  done : ∀ i a evs, c.ts i = .done a evs → r.res i = some (a, evs)
  quiet : ∀ k, (∀ j p evs, c.ts j = .running p evs → ¬ (thr j).foot k) → atT c.w k = atT r.w k
  excl : ∀ i j p evs q evs', i ≠ j → c.ts i = .running p evs → c.ts j = .running q evs' →
    (thr i).stripe ≠ (thr j).stripe

/-- A step by connection `i` that keeps it running with program `p'` and leaves the world as it is
    for every other key. -/
theorem invT_act {α : Type} (now : Nat) (thr : Nat → ThreadT α)
    (hkey : ∀ i j k, (thr i).foot k → (thr j).foot k → (thr i).stripe = (thr j).stripe)
    (c : Conf α) (r : RefT α) (hinv : InvT now thr c r) (i : Nat) (p : Prog OEv α) (evs : List OEv)
    (hi : c.ts i = .running p evs) (w' : World) (p' : Prog OEv α) (evs' : List OEv)
    (hreq : AllReqs (FootLocalT (thr i).foot) p')
    (hres : (p'.eval now w' []).1 = (p.eval now c.w []).1)
    (hevs : evs' ++ (p'.eval now w' []).2.1 = evs ++ (p.eval now c.w []).2.1)
    (hw : (p'.eval now w' []).2.2.1 = (p.eval now c.w []).2.2.1)
    (hother : ∀ k', ¬ (thr i).foot k' → atT w' k' = atT c.w k') :
    InvT now thr (Conf.set { w := w', ts := c.ts } i (.running p' evs')) r := by
  constructor
  · intro j q qevs hj
    by_cases hji : j = i
    · subst hji
      rw [set_self] at hj
      injection hj with h1 h2
      subst h1; subst h2
      obtain ⟨_, b, d⟩ := hinv.running j p evs hi
      refine ⟨hreq, ?_, ?_⟩
      · show r.res j = some ((p'.eval now w' []).1, evs' ++ (p'.eval now w' []).2.1)
        rw [hres, hevs]; exact b
      · intro k hk
        show atT (p'.eval now w' []).2.2.1 k = _
        rw [hw]; exact d k hk
    · rw [set_other _ _ _ _ hji] at hj
      have hj' : c.ts j = .running q qevs := hj
      obtain ⟨a, b, d⟩ := hinv.running j q qevs hj'
      have hs : (thr j).stripe ≠ (thr i).stripe := hinv.excl j i q qevs p evs hji hj' hi
      have hat : ∀ k, (thr j).foot k → atT w' k = atT c.w k := fun k hk => hother k (fun hik => hs (hkey j i k hk hik))
      obtain ⟨e1, e2, e3⟩ := eval_sameT now (thr j).foot a w' c.w hat
      refine ⟨a, ?_, ?_⟩
      · show r.res j = some ((q.eval now w' []).1, qevs ++ (q.eval now w' []).2.1)
        rw [e1, e2]; exact b
      · intro k hk
        show atT (q.eval now w' []).2.2.1 k = _
        rw [e3 k hk]; exact d k hk
  · intro j a aevs hj
    by_cases hji : j = i
    · subst hji; rw [set_self] at hj; cases hj
    · rw [set_other _ _ _ _ hji] at hj
      exact hinv.done j a aevs hj
  · intro k hk
    have hki : ¬ (thr i).foot k := hk i p' evs' (set_self _ _ _)
    have : ∀ j q qevs, c.ts j = .running q qevs → ¬ (thr j).foot k := by
      intro j q qevs hj
      by_cases hji : j = i
      · subst hji; exact hki
      · exact hk j q qevs (by rw [set_other _ _ _ _ hji]; exact hj)
    show atT w' k = atT r.w k
    rw [hother k hki]
    exact hinv.quiet k this
  · intro a b q qevs q' qevs' hab ha hb
    have ha' : ∃ q0 e0, c.ts a = .running q0 e0 := by
      by_cases hai : a = i
      · subst hai; exact ⟨p, evs, hi⟩
      · rw [set_other _ _ _ _ hai] at ha; exact ⟨q, qevs, ha⟩
    have hb' : ∃ q0 e0, c.ts b = .running q0 e0 := by
      by_cases hbi : b = i
      · subst hbi; exact ⟨p, evs, hi⟩
      · rw [set_other _ _ _ _ hbi] at hb; exact ⟨q', qevs', hb⟩
    obtain ⟨qa, ea, ha'⟩ := ha'
    obtain ⟨qb, eb, hb'⟩ := hb'
    exact hinv.excl a b qa ea qb eb hab ha' hb'

/-- **The invariant is kept by every admitted step.** -/
theorem invT_step {α : Type} (now : Nat) (thr : Nat → ThreadT α)
    (hbody : ∀ i, AllReqs (FootLocalT (thr i).foot) (thr i).body)
    (hkey : ∀ i j k, (thr i).foot k → (thr j).foot k → (thr i).stripe = (thr j).stripe)
    (c c' : Conf α) (s : Step) (r : RefT α) (hstep : Step1T now thr c s c') (hinv : InvT now thr c r) :
    InvT now thr c' (r.extend now thr s) := by
  cases hstep with
  | acq i hidle hfree =>
    have hnokey : ∀ j p evs, c.ts j = .running p evs → ∀ k, (thr j).foot k → ¬ (thr i).foot k :=
      fun j p evs hj k hjk hik => hfree j p evs hj (hkey j i k hjk hik)
    have hat : ∀ k, (thr i).foot k → atT c.w k = atT r.w k :=
      fun k hik => hinv.quiet k (fun j p evs hj hjk => hnokey j p evs hj k hjk hik)
    obtain ⟨e1, e2, e3⟩ := eval_sameT now (thr i).foot (hbody i) c.w r.w hat
    simp only [RefT.extend]
    constructor
    · intro j q qevs hj
      by_cases hji : j = i
      · subst hji
        rw [set_self] at hj
        injection hj with h1 h2
        subst h1; subst h2
        refine ⟨hbody j, ?_, ?_⟩
        · simp only [RefT.runOne, if_true, set_w, List.nil_append]
          rw [e1, e2]
        · intro k hk
          simp only [RefT.runOne, set_w]
          exact e3 k hk
      · rw [set_other _ _ _ _ hji] at hj
        obtain ⟨a, b, d⟩ := hinv.running j q qevs hj
        refine ⟨a, ?_, ?_⟩
        · simp only [RefT.runOne, hji, if_false, set_w]
          exact b
        · intro k hk
          simp only [RefT.runOne, set_w]
          rw [eval_otherT now (thr i).foot (hbody i) r.w k (hnokey j q qevs hj k hk)]
          exact d k hk
    · intro j a aevs hj
      by_cases hji : j = i
      · subst hji; rw [set_self] at hj; cases hj
      · rw [set_other _ _ _ _ hji] at hj
        simp only [RefT.runOne, hji, if_false]
        exact hinv.done j a aevs hj
    · intro k hk
      have hki : ¬ (thr i).foot k := hk i _ _ (set_self _ _ _)
      have : ∀ j q qevs, c.ts j = .running q qevs → ¬ (thr j).foot k := by
        intro j q qevs hj
        by_cases hji : j = i
        · subst hji; exact hki
        · exact hk j q qevs (by rw [set_other _ _ _ _ hji]; exact hj)
      simp only [RefT.runOne, set_w]
      rw [eval_otherT now (thr i).foot (hbody i) r.w k hki]
      exact hinv.quiet k this
    · intro a b q qevs q' qevs' hab ha hb
      by_cases hai : a = i
      · subst hai
        have hba : b ≠ a := Ne.symm hab
        rw [set_other _ _ _ _ hba] at hb
        exact Ne.symm (hfree b q' qevs' hb)
      · rw [set_other _ _ _ _ hai] at ha
        by_cases hbi : b = i
        · subst hbi
          exact hfree a q qevs ha
        · rw [set_other _ _ _ _ hbi] at hb
          exact hinv.excl a b q qevs q' qevs' hab ha hb
  | call i t rq k evs hi =>
    obtain ⟨a, _, _⟩ := hinv.running i _ evs hi
    cases a with
    | call _ _ _ hr hk =>
      simp only [RefT.extend]
      exact invT_act now thr hkey c r hinv i _ evs hi _ _ evs (hk _) rfl rfl rfl
        (fun k' hk' => put_otherT now c.w t rq (thr i).foot k' hr hk')
  | emit i e p evs hi =>
    obtain ⟨a, _, _⟩ := hinv.running i _ evs hi
    cases a with
    | emit _ _ hp =>
      simp only [RefT.extend]
      have := invT_act now thr hkey c r hinv i _ evs hi c.w p (evs ++ [e]) hp rfl
        (by simp only [Prog.eval, List.append_assoc, List.singleton_append]) rfl (fun _ _ => rfl)
      exact this
  | draw i k evs hi =>
    obtain ⟨a, _, _⟩ := hinv.running i _ evs hi
    cases a with
    | draw _ hk =>
      simp only [RefT.extend]
      have := invT_act now thr hkey c r hinv i _ evs hi c.w (k (Bytes.zeros 16)) evs (hk _ zeros_len) rfl rfl rfl
        (fun _ _ => rfl)
      exact this
  | rel i a evs hi =>
    obtain ⟨_, b, d⟩ := hinv.running i _ evs hi
    simp only [RefT.extend]
    constructor
    · intro j q qevs hj
      by_cases hji : j = i
      · subst hji; rw [set_self] at hj; cases hj
      · rw [set_other _ _ _ _ hji] at hj
        exact hinv.running j q qevs hj
    · intro j a' aevs hj
      by_cases hji : j = i
      · subst hji
        rw [set_self] at hj
        injection hj with h1 h2
        subst h1; subst h2
        simpa [Prog.eval] using b
      · rw [set_other _ _ _ _ hji] at hj
        exact hinv.done j a' aevs hj
    · intro k hk
      show atT c.w k = atT r.w k
      by_cases hki : (thr i).foot k
      · simpa [Prog.eval] using d k hki
      · apply hinv.quiet k
        intro j q qevs hj
        by_cases hji : j = i
        · subst hji; exact hki
        · exact hk j q qevs (by rw [set_other _ _ _ _ hji]; exact hj)
    · intro a' b' q qevs q' qevs' hab ha hb
      by_cases hai : a' = i
      · subst hai; rw [set_self] at ha; cases ha
      · by_cases hbi : b' = i
        · subst hbi; rw [set_self] at hb; cases hb
        · rw [set_other _ _ _ _ hai] at ha
          rw [set_other _ _ _ _ hbi] at hb
          exact hinv.excl a' b' q qevs q' qevs' hab ha hb

theorem invT_exec {α : Type} (now : Nat) (thr : Nat → ThreadT α)
    (hbody : ∀ i, AllReqs (FootLocalT (thr i).foot) (thr i).body)
    (hkey : ∀ i j k, (thr i).foot k → (thr j).foot k → (thr i).stripe = (thr j).stripe)
    (c c' : Conf α) (sched : List Step) (hex : ExecT now thr c sched c') :
    ∀ r, InvT now thr c r → InvT now thr c' (sched.foldl (RefT.extend now thr) r) := by
  induction hex with
  | nil c => intro r h; exact h
  | cons c c1 c2 s rest hs _ ih =>
    intro r h
    exact ih _ (invT_step now thr hbody hkey c c1 s r hs h)


theorem invT_init {α : Type} (now : Nat) (thr : Nat → ThreadT α) (w : World) :
    InvT now thr (Conf.init w) { w := w, res := fun _ => none } := by
  constructor
  · intro i p evs h; cases h
  · intro i a evs h; cases h
  · intro k _; rfl
  · intro i j p evs q evs' _ h; cases h

/-- **Serializability of critical sections.**  For every schedule admitted by the lock table that
    ends with no connection inside a critical section: the content of both tiers is what running
    the commands one after another, in the order of their lock acquisitions, leaves; and every
    finished command returned and emitted exactly what it does in that sequential run. -/
theorem serializableT {α : Type} (now : Nat) (thr : Nat → ThreadT α)
    (hbody : ∀ i, AllReqs (FootLocalT (thr i).foot) (thr i).body)
    (hkey : ∀ i j k, (thr i).foot k → (thr j).foot k → (thr i).stripe = (thr j).stripe)
    (w : World) (sched : List Step) (c' : Conf α) (hex : ExecT now thr (Conf.init w) sched c')
    (hquiet : ∀ i p evs, c'.ts i ≠ .running p evs) :
    c'.w = (seqRunT now thr { w := w, res := fun _ => none } (acqOrder sched)).w ∧
    ∀ i a evs, c'.ts i = .done a evs →
      (seqRunT now thr { w := w, res := fun _ => none } (acqOrder sched)).res i = some (a, evs) := by
  have h := invT_exec now thr hbody hkey _ _ sched hex _ (invT_init now thr w)
  rw [foldlT_extend] at h
  refine ⟨world_extT _ _ (fun k => h.quiet k (fun j p evs hj => absurd hj (hquiet j p evs))), ?_⟩
  intro i a evs hi
  exact h.done i a evs hi


/-! ### the acquisition order has no repetitions; what the sequential run records -/

theorem stepT_not_idle {α : Type} (now : Nat) (thr : Nat → ThreadT α) (c c' : Conf α) (s : Step)
    (h : Step1T now thr c s c') (j : Nat) (hj : c.ts j ≠ .idle) : c'.ts j ≠ .idle := by
  have key : ∀ (c0 : Conf α) (i : Nat) (st : TState α), c0.ts = c.ts → st ≠ .idle → (c0.set i st).ts j ≠ .idle := by
    intro c0 i st h0 hst
    by_cases hji : j = i
    · subst hji; rw [set_self]; exact hst
    · rw [set_other _ _ _ _ hji, h0]; exact hj
  cases h with
  | acq i _ _ => exact key c i _ rfl (fun hh => by cases hh)
  | call i t r k evs _ => exact key _ i _ rfl (fun hh => by cases hh)
  | emit i e p evs _ => exact key c i _ rfl (fun hh => by cases hh)
  | draw i k evs _ => exact key c i _ rfl (fun hh => by cases hh)
  | rel i a evs _ => exact key c i _ rfl (fun hh => by cases hh)

theorem acqT_idle {α : Type} (now : Nat) (thr : Nat → ThreadT α) (c c' : Conf α) (i : Nat)
    (h : Step1T now thr c (.acq i) c') : c.ts i = .idle ∧ c'.ts i ≠ .idle := by
  cases h with
  | acq _ hidle _ => exact ⟨hidle, by rw [set_self]; intro hh; cases hh⟩

/-- A command obtains its lock once; whoever obtained it is not idle afterwards. -/
theorem acqOrderT_nodup {α : Type} (now : Nat) (thr : Nat → ThreadT α) (c c' : Conf α) (sched : List Step)
    (hex : ExecT now thr c sched c') :
    (acqOrder sched).Nodup ∧ (∀ i ∈ acqOrder sched, c.ts i = .idle ∧ c'.ts i ≠ .idle) ∧
    (∀ j, c.ts j ≠ .idle → c'.ts j ≠ .idle) := by
  induction hex with
  | nil c => exact ⟨List.nodup_nil, fun i hi => (by simp [acqOrder] at hi), fun _ h => h⟩
  | cons c c1 c2 s rest hs _ ih =>
    obtain ⟨n, m, k⟩ := ih
    have keep := stepT_not_idle now thr c c1 s hs
    cases s with
    | acq i =>
      obtain ⟨a, b⟩ := acqT_idle now thr c c1 i hs
      simp only [acqOrder]
      refine ⟨List.nodup_cons.mpr ⟨fun hi => b (m i hi).1, n⟩, ?_, fun j hj => k j (keep j hj)⟩
      intro j hj
      simp only [List.mem_cons] at hj
      rcases hj with hj | hj
      · subst hj; exact ⟨a, k j b⟩
      · refine ⟨?_, (m j hj).2⟩
        cases hcj : c.ts j with
        | idle => rfl
        | running p evs => exact absurd (m j hj).1 (keep j (by rw [hcj]; intro hh; cases hh))
        | done a evs => exact absurd (m j hj).1 (keep j (by rw [hcj]; intro hh; cases hh))
    | act i =>
      simp only [acqOrder]
      refine ⟨n, ?_, fun j hj => k j (keep j hj)⟩
      intro j hj
      refine ⟨?_, (m j hj).2⟩
      cases hcj : c.ts j with
      | idle => rfl
      | running p evs => exact absurd (m j hj).1 (keep j (by rw [hcj]; intro hh; cases hh))
      | done a evs => exact absurd (m j hj).1 (keep j (by rw [hcj]; intro hh; cases hh))
    | rel i =>
      simp only [acqOrder]
      refine ⟨n, ?_, fun j hj => k j (keep j hj)⟩
      intro j hj
      refine ⟨?_, (m j hj).2⟩
      cases hcj : c.ts j with
      | idle => rfl
      | running p evs => exact absurd (m j hj).1 (keep j (by rw [hcj]; intro hh; cases hh))
      | done a evs => exact absurd (m j hj).1 (keep j (by rw [hcj]; intro hh; cases hh))

/-- What the commands return and emit when run whole, one after another. -/
def seqObsT {α : Type} (now : Nat) (thr : Nat → ThreadT α) (w : World) : List Nat → List (α × List OEv)
  | [] => []
  | i :: rest =>
    (((thr i).body.eval now w []).1, ((thr i).body.eval now w []).2.1) ::
      seqObsT now thr ((thr i).body.eval now w []).2.2.1 rest

def seqEndT {α : Type} (now : Nat) (thr : Nat → ThreadT α) (w : World) : List Nat → World
  | [] => w
  | i :: rest => seqEndT now thr ((thr i).body.eval now w []).2.2.1 rest

theorem seqRunT_spec {α : Type} (now : Nat) (thr : Nat → ThreadT α) : ∀ (order : List Nat) (r : RefT α), order.Nodup →
    (seqRunT now thr r order).w = seqEndT now thr r.w order ∧
    order.map (seqRunT now thr r order).res = (seqObsT now thr r.w order).map some ∧
    ∀ j, j ∉ order → (seqRunT now thr r order).res j = r.res j
  | [], r, _ => ⟨rfl, rfl, fun _ _ => rfl⟩
  | i :: rest, r, hnd => by
    obtain ⟨hi, hrest⟩ := List.nodup_cons.mp hnd
    obtain ⟨a, b, c⟩ := seqRunT_spec now thr rest (r.runOne now thr i) hrest
    have hs : seqRunT now thr r (i :: rest) = seqRunT now thr (r.runOne now thr i) rest := rfl
    rw [hs]
    refine ⟨a, ?_, ?_⟩
    · simp only [List.map_cons, seqObsT]
      have e1 : (r.runOne now thr i).res i =
          some (((thr i).body.eval now r.w []).1, ((thr i).body.eval now r.w []).2.1) := by simp [RefT.runOne]
      rw [c i hi, e1, b]
      rfl
    · intro j hj
      simp only [List.mem_cons, not_or] at hj
      rw [c j hj.2]
      simp [RefT.runOne, hj.1]

/-- **Serializability, as lists**: the finished commands, listed in the order of their lock
    acquisitions, returned and emitted what the sequential run in that order produces. -/
theorem serializableTT_obs {α : Type} (now : Nat) (thr : Nat → ThreadT α)
    (hbody : ∀ i, AllReqs (FootLocalT (thr i).foot) (thr i).body)
    (hkey : ∀ i j k, (thr i).foot k → (thr j).foot k → (thr i).stripe = (thr j).stripe)
    (w : World) (sched : List Step) (c' : Conf α) (hex : ExecT now thr (Conf.init w) sched c')
    (hquiet : ∀ i p evs, c'.ts i ≠ .running p evs) :
    c'.w = seqEndT now thr w (acqOrder sched) ∧
    (acqOrder sched).map c'.ts = (seqObsT now thr w (acqOrder sched)).map (fun o => TState.done o.1 o.2) := by
  obtain ⟨h1, h2⟩ := serializableT now thr hbody hkey w sched c' hex hquiet
  obtain ⟨nd, ni, _⟩ := acqOrderT_nodup now thr _ _ sched hex
  obtain ⟨a, b, _⟩ := seqRunT_spec now thr (acqOrder sched) { w := w, res := fun _ => none } nd
  refine ⟨by rw [h1, a], ?_⟩
  -- every command in the order is done, with the recorded result
  have hdone : ∀ i ∈ acqOrder sched, ∀ o, (seqRunT now thr { w := w, res := fun _ => none } (acqOrder sched)).res i = some o →
      c'.ts i = TState.done o.1 o.2 := by
    intro i hi o ho
    cases hc : c'.ts i with
    | idle => exact absurd hc (ni i hi).2
    | running p evs => exact absurd hc (hquiet i p evs)
    | done a' evs' =>
      have := h2 i a' evs' hc
      rw [this] at ho
      injection ho with ho
      subst ho
      rfl
  -- pointwise
  have : ∀ (l : List Nat) (obs : List (α × List OEv)), (∀ i ∈ l, i ∈ acqOrder sched) →
      l.map (seqRunT now thr { w := w, res := fun _ => none } (acqOrder sched)).res = obs.map some →
      l.map c'.ts = obs.map (fun o => TState.done o.1 o.2) := by
    intro l
    induction l with
    | nil => intro obs _ h; cases obs with
      | nil => rfl
      | cons o os => simp at h
    | cons i l ih =>
      intro obs hmem h
      cases obs with
      | nil => simp at h
      | cons o os =>
        simp only [List.map_cons, List.cons.injEq] at h ⊢
        exact ⟨hdone i (hmem i (List.mem_cons_self ..)) o h.1, ih os (fun j hj => hmem j (List.mem_cons_of_mem _ hj)) h.2⟩
  exact this _ _ (fun i hi => hi) b


end Rend.Conc

/-
  `ChunkedFootprint` with the tier: every request of a method of the chunking handler built for
  tier `t0` goes to tier `t0` and addresses an entry derived from the method's key.  (Generated from
  the proofs of ChunkedFootprint.lean by carrying the tier along.)  Core-only.
-/
import Rend.Proofs.ChunkedFootprint

namespace Rend.Chunked
open Rend

def DerivedAt (t0 : Tier) (key : Bytes) (t : Tier) (r : Req) : Prop := t = t0 ∧ Derived key t r

variable {ε : Type}

theorem writeChunks_derivedAt (t : Tier) (c : SetCmd) (token : Bytes) (ds : Nat) (n i : Nat) :
    AllReqs (DerivedAt t c.key) (writeChunks (ε := ε) t c token ds n i) := by
  induction n generalizing i with
  | zero => exact AllReqs.ret _
  | succ n ih =>
    unfold writeChunks
    apply AllReqs.bind
    · exact AllReqs.req _ _ ⟨rfl, Or.inr (Or.inr ⟨i, rfl⟩)⟩
    · intro r
      cases r with
      | io => exact AllReqs.ret _
      | wfail => exact AllReqs.ret _
      | status s =>
        simp only
        split
        · exact AllReqs.ret _
        · exact ih (i + 1)
      | hit f e d => exact ih (i + 1)
      | ok => exact ih (i + 1)
      | silent => exact ih (i + 1)

theorem setCommon_derivedAt (t : Tier) (now : Nat) (k : SetKind) (c : SetCmd) :
    AllReqs (DerivedAt t c.key) (setCommon (ε := ε) t now k c) := by
  unfold setCommon
  simp only
  apply AllReqs.draw
  intro token _
  apply AllReqs.call
  · exact ⟨rfl, Or.inr (Or.inl rfl)⟩
  · intro r
    cases r <;> simp only [Prog.bind]
    all_goals first
      | exact AllReqs.ret _
      | exact writeChunks_derivedAt t c token _ _ 0
      | (split
         · exact AllReqs.ret _
         · exact writeChunks_derivedAt t c token _ _ 0)

theorem askChunks_derivedAt (t : Tier) (op : Op) (key : Bytes) (e n i : Nat) :
    AllReqs (DerivedAt t key) (askChunks (ε := ε) t op key e n i) := by
  induction n generalizing i with
  | zero => exact AllReqs.ret _
  | succ n ih =>
    unfold askChunks
    apply AllReqs.bind
    · exact AllReqs.req _ _ ⟨rfl, Or.inr (Or.inr ⟨i, rfl⟩)⟩
    · intro r
      apply AllReqs.bind (ih (i + 1))
      intro rest
      cases r <;> exact AllReqs.ret _

theorem readChunks_derivedAt (t : Tier) (op : Op) (key : Bytes) (e : Nat) (md : Meta) :
    AllReqs (DerivedAt t key) (readChunks (ε := ε) t op key e md) := by
  unfold readChunks
  apply AllReqs.bind (askChunks_derivedAt t op key e _ 0)
  intro rs
  apply AllReqs.bind
  · exact AllReqs.req _ _ ⟨rfl, Or.inl rfl⟩
  · intro nr
    simp only
    split
    · exact AllReqs.ret _
    · split
      · exact AllReqs.ret _
      · split <;> exact AllReqs.ret _

theorem pipeChunks_derivedAt (t : Tier) (mk : Bytes → Req) (hmk : ∀ k, (mk k).key = k) (key : Bytes) (n i : Nat) :
    AllReqs (DerivedAt t key) (pipeChunks (ε := ε) t mk key n i) := by
  induction n generalizing i with
  | zero => exact AllReqs.ret _
  | succ n ih =>
    unfold pipeChunks
    apply AllReqs.bind
    · exact AllReqs.req _ _ ⟨rfl, Or.inr (Or.inr ⟨i, hmk _⟩)⟩
    · intro r
      apply AllReqs.bind (ih (i + 1))
      intro m
      cases r <;> exact AllReqs.ret _

theorem store_derivedAt (t : Tier) (now : Nat) (k : SetKind) (c : SetCmd) :
    AllReqs (DerivedAt t c.key) (Chunked.store (ε := ε) t now k c) := by
  have hpend : AllReqs (DerivedAt t c.key) (pend (ε := ε) t now k c) := by
    unfold pend
    apply AllReqs.bind
    · exact AllReqs.req _ _ ⟨rfl, Or.inr (Or.inl rfl)⟩
    · intro mr
      simp only
      split
      · exact AllReqs.ret _
      · rename_i md _
        apply AllReqs.bind (readChunks_derivedAt t .getq c.key 0 md)
        intro ro
        cases ro with
        | err e => exact AllReqs.ret _
        | miss => exact AllReqs.ret _
        | value d => exact setCommon_derivedAt t now .set { key := c.key, data := _, flags := md.origFlags, exptime := md.exptime }
  unfold Chunked.store
  cases k
  · exact setCommon_derivedAt t now _ c
  · exact setCommon_derivedAt t now _ c
  · exact setCommon_derivedAt t now _ c
  · exact hpend
  · exact hpend

theorem gat_derivedAt (t : Tier) (c : KeyCmd) : AllReqs (DerivedAt t c.key) (Chunked.gat (ε := ε) t c) := by
  unfold Chunked.gat
  apply AllReqs.bind
  · exact AllReqs.req _ _ ⟨rfl, Or.inr (Or.inl rfl)⟩
  · intro mr
    try simp only
    split
    · exact AllReqs.ret _
    · exact AllReqs.ret _
    · rename_i md _
      apply AllReqs.bind (readChunks_derivedAt t .gatq c.key c.exptime md)
      intro ro
      cases ro <;> exact AllReqs.ret _

theorem delete_derivedAt (t : Tier) (c : KeyCmd) : AllReqs (DerivedAt t c.key) (Chunked.delete (ε := ε) t c) := by
  unfold Chunked.delete
  apply AllReqs.bind
  · exact AllReqs.req _ _ ⟨rfl, Or.inr (Or.inl rfl)⟩
  · intro mr
    simp only
    split
    · exact AllReqs.ret _
    · rename_i md _
      apply AllReqs.bind
      · exact AllReqs.req _ _ ⟨rfl, Or.inr (Or.inl rfl)⟩
      · intro dr
        try simp only
        split
        · exact AllReqs.ret _
        · apply AllReqs.bind (pipeChunks_derivedAt t _ (fun _ => rfl) c.key _ 0)
          intro m
          split <;> exact AllReqs.ret _

theorem touch_derivedAt (t : Tier) (now : Nat) (c : KeyCmd) : AllReqs (DerivedAt t c.key) (Chunked.touch (ε := ε) t now c) := by
  unfold Chunked.touch
  apply AllReqs.bind
  · exact AllReqs.req _ _ ⟨rfl, Or.inr (Or.inl rfl)⟩
  · intro mr
    simp only
    split
    · exact AllReqs.ret _
    · rename_i md _
      apply AllReqs.bind (pipeChunks_derivedAt t _ (fun _ => rfl) c.key _ 0)
      intro m
      split
      · exact AllReqs.ret _
      · try simp only
        apply AllReqs.bind
        · exact AllReqs.req _ _ ⟨rfl, Or.inr (Or.inl rfl)⟩
        · intro r
          cases r <;> simp only
          all_goals first
            | exact AllReqs.ret _
            | (split <;> exact AllReqs.ret _)

theorem getLoop_derivedAt (t : Tier) : ∀ ks : List GetKey,
    AllReqs (fun t' r => ∃ g ∈ ks, DerivedAt t g.key t' r) (getLoop (ε := ε) t ks)
  | [] => AllReqs.ret _
  | g :: rest => by
    have ih : AllReqs (fun t' r => ∃ g' ∈ g :: rest, DerivedAt t g'.key t' r) (getLoop (ε := ε) t rest) :=
      (getLoop_derivedAt t rest).mono (fun t' r ⟨g', hg, hd⟩ => ⟨g', List.mem_cons_of_mem _ hg, hd⟩)
    have here : ∀ {α} {p : Prog ε α}, AllReqs (DerivedAt t g.key) p → AllReqs (fun t' r => ∃ g' ∈ g :: rest, DerivedAt t g'.key t' r) p :=
      fun hp => hp.mono (fun t' r hd => ⟨g, List.mem_cons_self .., hd⟩)
    unfold getLoop
    apply AllReqs.bind
    · exact here (AllReqs.req _ _ ⟨rfl, Or.inr (Or.inl rfl)⟩)
    · intro mr
      simp only
      split
      · apply AllReqs.bind ih
        intro x; exact AllReqs.ret _
      · exact AllReqs.ret _
      · rename_i md _
        apply AllReqs.bind (here (readChunks_derivedAt t .getq g.key 0 md))
        intro ro
        cases ro with
        | err e => exact AllReqs.ret _
        | miss =>
          apply AllReqs.bind ih
          intro x; exact AllReqs.ret _
        | value d =>
          apply AllReqs.bind ih
          intro x; exact AllReqs.ret _


end Rend.Chunked

/-
  Finding D7 in the model: the chunking handler's get-and-touch moves the DEADLINE of the metadata
  entry but leaves the entry's bytes — among them the expiry recorded inside the metadata, which
  append / prepend later re-store the value with — exactly as they were.  Core-only.
-/
import Rend.Proofs.ChunkedFootprint

namespace Rend.Chunked
open Rend
variable {ε : Type}

theorem askChunks_notMeta (t : Tier) (op : Op) (key : Bytes) (e n i : Nat) :
    AllReqs (fun t' r => t' = t → r.op = .noop ∨ r.key ≠ metaKey key) (askChunks (ε := ε) t op key e n i) := by
  induction n generalizing i with
  | zero => exact AllReqs.ret _
  | succ n ih =>
    unfold askChunks
    apply AllReqs.bind
    · exact AllReqs.req _ _ (fun _ => Or.inr (fun h => metaKey_ne_chunkKey key key i h.symm))
    · intro r
      apply AllReqs.bind (ih (i + 1))
      intro rest
      cases r <;> exact AllReqs.ret _

theorem readChunks_notMeta (t : Tier) (op : Op) (key : Bytes) (e : Nat) (md : Meta) :
    AllReqs (fun t' r => t' = t → r.op = .noop ∨ r.key ≠ metaKey key) (readChunks (ε := ε) t op key e md) := by
  unfold readChunks
  apply AllReqs.bind (askChunks_notMeta t op key e _ 0)
  intro rs
  apply AllReqs.bind
  · exact AllReqs.req _ _ (fun _ => Or.inl rfl)
  · intro nr
    simp only
    split
    · exact AllReqs.ret _
    · split
      · exact AllReqs.ret _
      · split <;> exact AllReqs.ret _

/-- **D7 in the model.**  A get-and-touch of a key whose metadata entry the tier serves: afterwards
    the metadata entry has the new deadline and the SAME bytes (hence the same recorded expiry
    `decodeMeta(..).exptime`) and flags as before. -/
theorem gat_keeps_recorded_expiry (now : Nat) (t : Tier) (c : KeyCmd) (w : World) (tk : List Bytes)
    (htk : ∀ x ∈ tk, x.length = 16) (it : Item) (h : (w.get t).look now (metaKey c.key) = some it) :
    (((Chunked.gat (ε := ε) t c).eval now w tk).2.2.1.get t) (metaKey c.key) =
      some { it with deadline := deadlineOf now c.exptime } := by
  unfold Chunked.gat
  simp only [Prog.eval_bind, Prog.eval_req]
  have hex : Mc.exec now (w.get t) { op := .gat, key := metaKey c.key, exptime := c.exptime } =
      ((w.get t).set (metaKey c.key) (some { it with deadline := deadlineOf now c.exptime }), .hit it.flags 0 it.data) := by
    unfold Mc.exec
    simp only [h]
  rw [hex]
  simp only [metaOf]
  have hafter : ((w.put t ((w.get t).set (metaKey c.key) (some { it with deadline := deadlineOf now c.exptime }))).get t) (metaKey c.key) =
      some { it with deadline := deadlineOf now c.exptime } := by
    simp [World.get_put_same, Store.set]
  have hun := eval_untouched (ε := ε) now t (metaKey c.key) _ (readChunks_notMeta t .gatq c.key c.exptime (decodeMeta it.data))
    (w.put t ((w.get t).set (metaKey c.key) (some { it with deadline := deadlineOf now c.exptime }))) tk htk
  rw [hafter] at hun
  simp only [Prog.eval_bind]
  generalize hr : (readChunks (ε := ε) t .gatq c.key c.exptime (decodeMeta it.data)).eval now
    (w.put t ((w.get t).set (metaKey c.key) (some { it with deadline := deadlineOf now c.exptime }))) tk = res at hun ⊢
  obtain ⟨ro, evs, w', tk'⟩ := res
  cases ro <;> simpa [Prog.eval_pure] using hun

end Rend.Chunked

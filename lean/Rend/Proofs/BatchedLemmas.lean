/-
  Lemmas about the batching core: distinct wire opaques, routing of replies, retry tracker.
-/
import Rend.Handlers.Batched

namespace Rend.Batched
open Rend

/-! ### wire opaques are distinct -/

theorem w32_add_left (a b : Nat) : w32 (w32 a + b) = w32 (a + b) := by
  unfold w32; omega

/-- Number of opaque values a request consumes. -/
def slots (r : BReq) : Nat :=
  match r.kind with
  | .get | .getE => 1 + r.keys.length
  | _ => 1

def span (rs : List BReq) : Nat := (rs.map slots).sum

/-- The un-wrapped counters the requests of a batch are given. -/
def keysFrom : Nat → List BKey → List Nat
  | _, [] => []
  | o, _ :: rest => o :: keysFrom (o + 1) rest

def wiresFrom : Nat → List BReq → List Nat
  | _, [] => []
  | c, r :: rest =>
    match r.kind with
    | .get | .getE => keysFrom (c + 1) r.keys ++ wiresFrom (c + 1 + r.keys.length) rest
    | _ => (c + 1) :: wiresFrom (c + 1) rest

theorem assignKeys_wires (kind : BKind) (chan : Nat) : ∀ (o : Nat) (ks : List BKey),
    (assignKeys kind chan (w32 o) ks).2.map (·.wire) = (keysFrom o ks).map w32
  | _, [] => rfl
  | o, k :: rest => by
    simp only [assignKeys, keysFrom, List.map_cons, w32_add_left]
    rw [assignKeys_wires kind chan (o + 1) rest]

theorem assign_wires : ∀ (c : Nat) (rs : List BReq),
    (assign (w32 c) rs).2.1.map (·.wire) = (wiresFrom c rs).map w32
  | _, [] => rfl
  | c, r :: rest => by
    simp only [assign, assignReq, wiresFrom]
    cases hk : r.kind <;> simp only [List.map_append, List.map_cons, List.map_nil, w32_add_left]
    case get =>
      rw [assignKeys_wires, ← assign_wires (c + 1 + r.keys.length) rest]
    case getE =>
      rw [assignKeys_wires, ← assign_wires (c + 1 + r.keys.length) rest]
    all_goals (rw [← assign_wires (c + 1) rest]; rfl)

theorem keysFrom_bounds : ∀ (o : Nat) (ks : List BKey), ∀ x ∈ keysFrom o ks, o ≤ x ∧ x < o + ks.length
  | _, [], x, hx => by simp [keysFrom] at hx
  | o, k :: rest, x, hx => by
    simp only [keysFrom, List.mem_cons] at hx
    rcases hx with rfl | hx
    · simp
    · have := keysFrom_bounds (o + 1) rest x hx
      simp only [List.length_cons]; omega

theorem keysFrom_sorted : ∀ (o : Nat) (ks : List BKey), (keysFrom o ks).Pairwise (· < ·)
  | _, [] => List.Pairwise.nil
  | o, k :: rest => by
    simp only [keysFrom, List.pairwise_cons]
    exact ⟨fun x hx => by have := keysFrom_bounds (o + 1) rest x hx; omega, keysFrom_sorted (o + 1) rest⟩

theorem wiresFrom_bounds : ∀ (c : Nat) (rs : List BReq), ∀ x ∈ wiresFrom c rs, c < x ∧ x ≤ c + span rs
  | _, [], x, hx => by simp [wiresFrom] at hx
  | c, r :: rest, x, hx => by
    simp only [wiresFrom] at hx
    simp only [span, List.map_cons, List.sum_cons, slots]
    cases hk : r.kind <;> simp only [hk] at hx ⊢
    case get =>
      rcases List.mem_append.mp hx with hx | hx
      · have := keysFrom_bounds (c + 1) r.keys x hx; omega
      · have := wiresFrom_bounds (c + 1 + r.keys.length) rest x hx
        simp only [span] at this; omega
    case getE =>
      rcases List.mem_append.mp hx with hx | hx
      · have := keysFrom_bounds (c + 1) r.keys x hx; omega
      · have := wiresFrom_bounds (c + 1 + r.keys.length) rest x hx
        simp only [span] at this; omega
    all_goals
      (rcases List.mem_cons.mp hx with rfl | hx
       · omega
       · have := wiresFrom_bounds (c + 1) rest x hx
         simp only [span] at this; omega)

theorem wiresFrom_sorted : ∀ (c : Nat) (rs : List BReq), (wiresFrom c rs).Pairwise (· < ·)
  | _, [] => List.Pairwise.nil
  | c, r :: rest => by
    simp only [wiresFrom]
    cases hk : r.kind <;> simp only
    case get =>
      rw [List.pairwise_append]
      refine ⟨keysFrom_sorted _ _, wiresFrom_sorted _ rest, fun a ha b hb => ?_⟩
      have h1 := keysFrom_bounds (c + 1) r.keys a ha
      have h2 := wiresFrom_bounds (c + 1 + r.keys.length) rest b hb
      omega
    case getE =>
      rw [List.pairwise_append]
      refine ⟨keysFrom_sorted _ _, wiresFrom_sorted _ rest, fun a ha b hb => ?_⟩
      have h1 := keysFrom_bounds (c + 1) r.keys a ha
      have h2 := wiresFrom_bounds (c + 1 + r.keys.length) rest b hb
      omega
    all_goals
      (rw [List.pairwise_cons]
       exact ⟨fun b hb => by have := wiresFrom_bounds (c + 1) rest b hb; omega, wiresFrom_sorted _ rest⟩)

/-- **The wire opaques of a batch are pairwise distinct** (a batch needs fewer than 2^32 of them). -/
theorem wires_nodup (c : Nat) (rs : List BReq) (h : span rs < 4294967296) :
    ((assign (w32 c) rs).2.1.map (·.wire)).Nodup := by
  rw [assign_wires]
  have hs := wiresFrom_sorted c rs
  have hb := wiresFrom_bounds c rs
  generalize wiresFrom c rs = l at hs hb
  induction l with
  | nil => exact List.nodup_nil
  | cons x xs ih =>
    rw [List.pairwise_cons] at hs
    simp only [List.map_cons, List.nodup_cons]
    refine ⟨?_, ih hs.2 (fun y hy => hb y (List.mem_cons_of_mem _ hy))⟩
    intro hmem
    obtain ⟨y, hy, he⟩ := List.mem_map.mp hmem
    have h1 := hs.1 y hy
    have h2 := hb x (List.mem_cons_self ..)
    have h3 := hb y (List.mem_cons_of_mem _ hy)
    unfold w32 at he
    omega

end Rend.Batched

namespace Rend.Batched
open Rend

/-! ### routing of replies -/

theorem find_wire {tbl : List Handle} {w : Nat} {h : Handle} (hf : tbl.find? (fun h => h.wire == w) = some h) :
    h ∈ tbl ∧ h.wire = w := by
  have h1 := List.mem_of_find?_eq_some hf
  have h2 := List.find?_some hf
  exact ⟨h1, by simpa using h2⟩

theorem find_wire_some {tbl : List Handle} {w : Nat} (hw : w ∈ tbl.map (·.wire)) :
    ∃ h, tbl.find? (fun h => h.wire == w) = some h := by
  obtain ⟨h, hm, he⟩ := List.mem_map.mp hw
  cases hf : tbl.find? (fun h => h.wire == w) with
  | some x => exact ⟨x, rfl⟩
  | none =>
    have := List.find?_eq_none.mp hf h hm
    simp [he] at this

theorem nodup_of_map {α β} (f : α → β) {l : List α} (h : (l.map f).Nodup) : l.Nodup :=
  List.Pairwise.of_map f (fun _ _ hne e => hne (congrArg f e)) h

theorem inj_of_nodup_map {α β} (f : α → β) : ∀ {l : List α}, (l.map f).Nodup → ∀ {x y}, x ∈ l → y ∈ l → f x = f y → x = y
  | [], _, _, _, hx, _, _ => by cases hx
  | a :: l, h, x, y, hx, hy, he => by
    have h1 : f a ∉ l.map f := (List.nodup_cons.mp h).1
    have h2 : (l.map f).Nodup := (List.nodup_cons.mp h).2
    rcases List.mem_cons.mp hx with ex | hx' <;> rcases List.mem_cons.mp hy with ey | hy'
    · rw [ex, ey]
    · exact absurd (List.mem_map.mpr ⟨y, hy', by rw [← he, ex]⟩) h1
    · exact absurd (List.mem_map.mpr ⟨x, hx', by rw [he, ey]⟩) h1
    · exact inj_of_nodup_map f h2 hx' hy' he

theorem erase_wires (tbl : List Handle) (h : Handle) (hm : h ∈ tbl) (hnd : (tbl.map (·.wire)).Nodup) :
    ((tbl.erase h).map (·.wire)).Nodup ∧ ∀ w, w ∈ (tbl.erase h).map (·.wire) ↔ (w ∈ tbl.map (·.wire) ∧ w ≠ h.wire) := by
  have hsub : (tbl.erase h).Sublist tbl := List.erase_sublist ..
  refine ⟨(hsub.map _).nodup hnd, ?_⟩
  intro w
  have hnd' : tbl.Nodup := nodup_of_map _ hnd
  constructor
  · intro hw
    obtain ⟨x, hx, rfl⟩ := List.mem_map.mp hw
    have hx' := (List.Nodup.mem_erase_iff hnd').mp hx
    refine ⟨List.mem_map.mpr ⟨x, hx'.2, rfl⟩, ?_⟩
    intro he
    exact hx'.1 (inj_of_nodup_map _ hnd hx'.2 hm he)
  · intro ⟨hw, hne⟩
    obtain ⟨x, hx, rfl⟩ := List.mem_map.mp hw
    exact List.mem_map.mpr ⟨x, (List.Nodup.mem_erase_iff hnd').mpr ⟨fun e => hne (by rw [e]), hx⟩, rfl⟩

/-- **Routing**: with distinct wire opaques, any sequence of distinct replies addressed to
    opaques of the table — any order, any subset (a connection may be cut at any point) — is
    routed without "out of sync", every reply to the handle that owns its opaque. -/
theorem deliverAll_ok : ∀ (ws : List Nat) (s : RSt), (s.table.map (·.wire)).Nodup → ws.Nodup →
    (∀ w ∈ ws, w ∈ s.table.map (·.wire)) →
    ∃ s' hs, deliverAll s ws = some (s', hs) ∧ hs.map (·.wire) = ws ∧ (∀ h ∈ hs, h ∈ s.table) ∧
      (s'.table.map (·.wire)).Nodup ∧ (∀ w, w ∈ s'.table.map (·.wire) ↔ (w ∈ s.table.map (·.wire) ∧ w ∉ ws))
  | [], s, hnd, _, _ => ⟨s, [], rfl, rfl, by simp, hnd, by simp⟩
  | w :: ws, s, hnd, hwn, hsub => by
    obtain ⟨h, hf⟩ := find_wire_some (hsub w (List.mem_cons_self ..))
    obtain ⟨hm, hw⟩ := find_wire hf
    obtain ⟨e1, e2⟩ := erase_wires s.table h hm hnd
    rw [List.nodup_cons] at hwn
    have hsub' : ∀ x ∈ ws, x ∈ ((⟨s.table.erase h, decr h.chan s.counts⟩ : RSt).table.map (·.wire)) := by
      intro x hx
      apply (e2 x).mpr
      refine ⟨hsub x (List.mem_cons_of_mem _ hx), ?_⟩
      rw [hw]; intro e; subst e; exact hwn.1 hx
    obtain ⟨s', hs, hd, hmap, hin, hnd', hiff⟩ := deliverAll_ok ws ⟨s.table.erase h, decr h.chan s.counts⟩ e1 hwn.2 hsub'
    refine ⟨s', h :: hs, ?_, ?_, ?_, hnd', ?_⟩
    · simp only [deliverAll, deliver, hf, hd]
    · simp [hmap, hw]
    · intro x hx
      rcases List.mem_cons.mp hx with rfl | hx
      · exact hm
      · exact List.mem_of_mem_erase (hin x hx)
    · intro x
      rw [hiff x]
      simp only at e2 ⊢
      rw [e2 x, hw]
      simp only [List.mem_cons, not_or]
      constructor
      · intro ⟨⟨a, b⟩, c⟩; exact ⟨a, b, c⟩
      · intro ⟨a, b, c⟩; exact ⟨⟨a, b⟩, c⟩

/-! ### the retry tracker -/

/-- The answers received are answers to keys still being waited for, one at a time. -/
def AnswersOf : List BKey → List BKey → Prop
  | _, [] => True
  | req, a :: as => a ∈ req ∧ AnswersOf (req.erase a) as

/-- **Retry bookkeeping**: what has been answered plus what is asked again is exactly what was
    requested — every requested key (with its opaque and quiet flag, duplicates counted) is
    answered once and is never asked for again after its answer arrived. -/
theorem remaining_perm : ∀ (answered requested : List BKey), AnswersOf requested answered →
    (answered ++ remaining requested answered).Perm requested
  | [], requested, _ => by simp [remaining]
  | a :: as, requested, h => by
    obtain ⟨ha, hrest⟩ := h
    have ih := remaining_perm as (requested.erase a) hrest
    simp only [remaining, List.foldl_cons, List.cons_append] at ih ⊢
    exact (List.Perm.cons a ih).trans (List.perm_cons_erase ha).symm

end Rend.Batched

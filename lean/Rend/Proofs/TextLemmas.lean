/-
  Lemmas about decimal numbers, space splitting and trimming, for the text protocol round trips.
-/
import Rend.Wire.TextParse
import Rend.Wire.Encode

namespace Rend.Wire
open Rend

/-- A byte that is neither white space nor part of a multi-byte rune: printable ASCII. -/
def Printable (b : UInt8) : Prop := 33 ≤ b.toNat ∧ b.toNat ≤ 126

def digitByte (d : Nat) : UInt8 := UInt8.ofNat (Nat.digitChar d).toNat

theorem digitByte_val : ∀ d : Fin 10, (digitByte d.val).toNat = 48 + d.val := by decide

theorem decDigits_eq_if (n : Nat) :
    Bytes.decDigits n = if n < 10 then [digitByte n] else Bytes.decDigits (n / 10) ++ [digitByte (n % 10)] := by
  unfold Bytes.decDigits
  rw [Nat.toDigits_eq_if (by decide)]
  split <;> simp [digitByte]

theorem decDigits_all_digits (n : Nat) : ∀ b ∈ Bytes.decDigits n, 48 ≤ b.toNat ∧ b.toNat ≤ 57 := by
  induction n using Nat.strongRecOn with
  | _ n ih =>
    rw [decDigits_eq_if]
    split
    · rename_i h
      intro b hb
      simp at hb; subst hb
      have := digitByte_val ⟨n, h⟩
      simp at this; omega
    · rename_i h
      intro b hb
      rcases List.mem_append.mp hb with hb | hb
      · exact ih (n / 10) (by omega) b hb
      · simp at hb; subst hb
        have := digitByte_val ⟨n % 10, Nat.mod_lt _ (by decide)⟩
        simp at this; omega

theorem decDigits_ne_nil (n : Nat) : Bytes.decDigits n ≠ [] := by
  rw [decDigits_eq_if]; split <;> simp

theorem digits_fold (n : Nat) :
    (Bytes.decDigits n).foldl (fun acc c => acc * 10 + (c.toNat - 48)) 0 = n := by
  induction n using Nat.strongRecOn with
  | _ n ih =>
    rw [decDigits_eq_if]
    split
    · rename_i h
      have := digitByte_val ⟨n, h⟩
      simp at this
      simp [this]
    · rename_i h
      have := digitByte_val ⟨n % 10, Nat.mod_lt _ (by decide)⟩
      simp at this
      rw [List.foldl_append, ih (n / 10) (by omega)]
      simp [this]
      omega

/-- `strconv.ParseUint` inverts decimal formatting. -/
theorem parseUint32_decDigits (n : Nat) (h : n < 4294967296) : parseUint32 (Bytes.decDigits n) = some n := by
  unfold parseUint32
  have hne := decDigits_ne_nil n
  have hall : (Bytes.decDigits n).all (fun c => decide (48 ≤ c.toNat) && decide (c.toNat ≤ 57)) = true := by
    rw [List.all_eq_true]
    intro b hb
    have := decDigits_all_digits n b hb
    simp [this.1, this.2]
  simp [hne, hall, digits_fold, h]

/-- ### splitting on spaces -/

theorem splitSpace_go_nospace (cur a : Bytes) (ha : ∀ b ∈ a, b ≠ 32) (rest : Bytes) :
    splitSpace.go cur (a ++ 32 :: rest) = (cur.reverse ++ a) :: splitSpace.go [] rest := by
  induction a generalizing cur with
  | nil => simp [splitSpace.go]
  | cons x xs ih =>
    have hx : x ≠ 32 := ha x (List.mem_cons_self)
    simp only [List.cons_append, splitSpace.go, hx, if_false]
    rw [ih (x :: cur) (fun b hb => ha b (List.mem_cons_of_mem _ hb))]
    simp

theorem splitSpace_go_last (cur a : Bytes) (ha : ∀ b ∈ a, b ≠ 32) :
    splitSpace.go cur a = [cur.reverse ++ a] := by
  induction a generalizing cur with
  | nil => simp [splitSpace.go]
  | cons x xs ih =>
    have hx : x ≠ 32 := ha x (List.mem_cons_self)
    simp only [splitSpace.go, hx, if_false]
    rw [ih (x :: cur) (fun b hb => ha b (List.mem_cons_of_mem _ hb))]
    simp

theorem splitSpace_cons (a rest : Bytes) (ha : ∀ b ∈ a, b ≠ 32) :
    splitSpace (a ++ 32 :: rest) = a :: splitSpace rest := by
  unfold splitSpace
  rw [splitSpace_go_nospace [] a ha rest]; simp

theorem splitSpace_last (a : Bytes) (ha : ∀ b ∈ a, b ≠ 32) : splitSpace a = [a] := by
  unfold splitSpace
  rw [splitSpace_go_last [] a ha]; simp

/-- ### reading a line -/

theorem readLine_go (acc a rest : Bytes) (ha : ∀ b ∈ a, b ≠ 10) :
    readLine.go acc (a ++ 10 :: rest) = some (acc.reverse ++ a ++ [10], rest) := by
  induction a generalizing acc with
  | nil => simp [readLine.go]
  | cons x xs ih =>
    have hx : x ≠ 10 := ha x (List.mem_cons_self)
    simp only [List.cons_append, readLine.go, hx, if_false]
    rw [ih (x :: acc) (fun b hb => ha b (List.mem_cons_of_mem _ hb))]
    simp

theorem readLine_ok (a rest : Bytes) (ha : ∀ b ∈ a, b ≠ 10) : readLine (a ++ 10 :: rest) = some (a ++ [10], rest) := by
  unfold readLine
  rw [readLine_go [] a rest ha]; simp

/-- ### trimming -/

theorem decodeRune_ascii (x : UInt8) (t : Bytes) (h : x.toNat < 128) : decodeRune (x :: t) = (x.toNat, 1) := by
  simp [decodeRune, h]

theorem trimLeft_printable (fuel : Nat) (x : UInt8) (t : Bytes) (hx : Printable x) : trimLeft (fuel + 1) (x :: t) = x :: t := by
  obtain ⟨h1, h2⟩ := hx
  have : isSpaceRune x.toNat = false := by
    simp [isSpaceRune]; omega
  rw [trimLeft, decodeRune_ascii x t (by omega)]
  simp [this]

theorem decodeLastRune_ascii (b : Bytes) (x : UInt8) (h : x.toNat < 128) : decodeLastRune (b ++ [x]) = (x.toNat, 1) := by
  simp [decodeLastRune, h]

theorem isSpaceRune_cr : isSpaceRune 13 = true := by decide
theorem isSpaceRune_lf : isSpaceRune 10 = true := by decide

theorem trimRight_strip (fuel : Nat) (b : Bytes) (x : UInt8) (hx : x.toNat < 128) (hs : isSpaceRune x.toNat = true) :
    trimRight (fuel + 1) (b ++ [x]) = trimRight fuel b := by
  rw [trimRight, decodeLastRune_ascii b x hx]
  simp [hs]

theorem trimRight_stop (fuel : Nat) (b : Bytes) (y : UInt8) (hy : Printable y) :
    trimRight (fuel + 1) (b ++ [y]) = b ++ [y] := by
  obtain ⟨h1, h2⟩ := hy
  have : isSpaceRune y.toNat = false := by simp [isSpaceRune]; omega
  rw [trimRight, decodeLastRune_ascii b y (by omega)]
  simp [this]

/-- Trimming a line `body ++ "\r\n"` whose body starts and ends with printable bytes. -/
theorem trimSpace_crlf (x y : UInt8) (mid : Bytes) (hx : Printable x) (hy : Printable y) :
    trimSpace (x :: (mid ++ [y]) ++ [13, 10]) = x :: (mid ++ [y]) := by
  unfold trimSpace
  obtain ⟨k, hk⟩ : ∃ k, (x :: (mid ++ [y]) ++ [13, 10]).length + 1 = k + 3 := ⟨mid.length + 2, by simp⟩
  rw [hk]
  rw [show x :: (mid ++ [y]) ++ [13, 10] = x :: ((mid ++ [y]) ++ [13, 10]) by simp]
  rw [trimLeft_printable _ x _ hx]
  rw [show x :: ((mid ++ [y]) ++ [13, 10]) = (((x :: mid) ++ [y]) ++ [13]) ++ [10] by simp]
  rw [trimRight_strip _ _ 10 (by decide) isSpaceRune_lf]
  rw [trimRight_strip _ _ 13 (by decide) isSpaceRune_cr]
  rw [trimRight_stop _ _ y hy]
  simp

/-- Single printable byte body. -/
theorem trimSpace_crlf1 (x : UInt8) (hx : Printable x) : trimSpace ([x] ++ [13, 10]) = [x] := by
  unfold trimSpace
  show trimRight 4 (trimLeft 4 [x, 13, 10]) = [x]
  rw [trimLeft_printable 3 x _ hx]
  rw [show [x, 13, 10] = ([x] ++ [13]) ++ [10] by rfl]
  rw [trimRight_strip _ _ 10 (by decide) isSpaceRune_lf]
  rw [trimRight_strip _ _ 13 (by decide) isSpaceRune_cr]
  rw [show [x] = [] ++ [x] by rfl, trimRight_stop _ _ x hx]

/-- Trimming something that starts and ends with printable bytes changes nothing. -/
theorem trimSpace_id (b : Bytes) (hne : b ≠ []) (hall : ∀ c ∈ b, Printable c) : trimSpace b = b := by
  unfold trimSpace
  obtain ⟨x, t, rfl⟩ := List.exists_cons_of_ne_nil hne
  rw [show (x :: t).length + 1 = t.length + 1 + 1 by simp]
  rw [trimLeft_printable _ x t (hall x List.mem_cons_self)]
  have hne' : x :: t ≠ [] := by simp
  rw [← List.dropLast_concat_getLast hne']
  exact trimRight_stop _ _ _ (hall _ (List.getLast_mem hne'))

/-- Trimming `b ++ "\r\n"` when `b` (at least two bytes) starts and ends with printable bytes. -/
theorem trimSpace_crlf_gen (b : Bytes) (x y : UInt8) (mid : Bytes) (hb : b = x :: (mid ++ [y]))
    (hx : Printable x) (hy : Printable y) : trimSpace (b ++ [13, 10]) = b := by
  subst hb; exact trimSpace_crlf x y mid hx hy

theorem printable_ne_space (c : UInt8) (h : Printable c) : c ≠ 32 := by
  intro hc; subst hc; obtain ⟨h1, _⟩ := h; simp at h1

theorem printable_ne_lf (c : UInt8) (h : Printable c) : c ≠ 10 := by
  intro hc; subst hc; obtain ⟨h1, _⟩ := h; simp at h1

theorem digit_printable (n : Nat) : ∀ c ∈ Bytes.decDigits n, Printable c := by
  intro c hc
  have := decDigits_all_digits n c hc
  exact ⟨by omega, by omega⟩

end Rend.Wire

/-
  One-step unfolding lemmas for the x86 fragment, so that a concrete routine can be executed
  symbolically by a short chain of rewrites.
-/
import Rend.Metrics.AsmX86

namespace Rend.Metrics

variable (prog : List Instr) (undef : BitVec 64) (fuel pc : Nat) (m : Machine)

theorem run_ret (h : prog[pc]? = some .ret) : run prog undef (fuel + 1) pc m = some m := by
  simp [run, h]

theorem run_label (l : String) (h : prog[pc]? = some (.label l)) :
    run prog undef (fuel + 1) pc m = run prog undef fuel (pc + 1) m := by
  simp [run, h]

theorem run_movq (s d : Operand) (h : prog[pc]? = some (.movq s d)) :
    run prog undef (fuel + 1) pc m = run prog undef fuel (pc + 1) (m.write d (m.read s)) := by
  simp [run, h]

theorem run_bsrq_zero (s d : Operand) (h : prog[pc]? = some (.bsrq s d)) (hv : m.read s = 0#64) :
    run prog undef (fuel + 1) pc m = run prog undef fuel (pc + 1) { (m.write d undef) with zf := true } := by
  simp [run, h, hv]

theorem run_bsrq_nz (s d : Operand) (h : prog[pc]? = some (.bsrq s d)) (hv : m.read s ≠ 0#64) :
    run prog undef (fuel + 1) pc m = run prog undef fuel (pc + 1) { (m.write d (bsr (m.read s))) with zf := false } := by
  simp [run, h, hv]

theorem run_subq (s d : Operand) (h : prog[pc]? = some (.subq s d)) :
    run prog undef (fuel + 1) pc m =
      run prog undef fuel (pc + 1) { (m.write d (m.read d - m.read s)) with zf := decide (m.read d - m.read s = 0#64) } := by
  simp [run, h]

theorem run_negq (d : Operand) (h : prog[pc]? = some (.negq d)) :
    run prog undef (fuel + 1) pc m =
      run prog undef fuel (pc + 1) { (m.write d (- m.read d)) with zf := decide (- m.read d = 0#64) } := by
  simp [run, h]

theorem run_jz_taken (l : String) (t : Nat) (h : prog[pc]? = some (.jz l)) (hz : m.zf = true)
    (ht : findLabel prog l = some t) : run prog undef (fuel + 1) pc m = run prog undef fuel t m := by
  simp [run, h, hz, ht]

theorem run_jz_not (l : String) (h : prog[pc]? = some (.jz l)) (hz : m.zf = false) :
    run prog undef (fuel + 1) pc m = run prog undef fuel (pc + 1) m := by
  simp [run, h, hz]

end Rend.Metrics

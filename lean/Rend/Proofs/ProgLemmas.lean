/-
  Generic facts about interaction-tree programs.
-/
import Rend.Base.Prog

namespace Rend

/-- Every request the program can ever issue — whatever the backend answers and whatever 16-byte
    tokens are drawn — satisfies `P`. -/
inductive AllReqs {ε α : Type} (P : Tier → Req → Prop) : Prog ε α → Prop where
  | ret (a : α) : AllReqs P (.ret a)
  | call (t : Tier) (r : Req) (k : Resp → Prog ε α) : P t r → (∀ x, AllReqs P (k x)) → AllReqs P (.call t r k)
  | draw (k : Bytes → Prog ε α) : (∀ tok, tok.length = 16 → AllReqs P (k tok)) → AllReqs P (.draw k)
  | emit (e : ε) (p : Prog ε α) : AllReqs P p → AllReqs P (.emit e p)

namespace AllReqs

variable {ε α β : Type} {P : Tier → Req → Prop}

theorem bind {p : Prog ε α} {f : α → Prog ε β} (hp : AllReqs P p) (hf : ∀ a, AllReqs P (f a)) :
    AllReqs P (p >>= f) := by
  induction hp with
  | ret a => exact hf a
  | call t r k hr _ ih => exact AllReqs.call t r _ hr (fun x => ih x)
  | draw k _ ih => exact AllReqs.draw _ (fun tok h => ih tok h)
  | emit e p _ ih => exact AllReqs.emit e _ ih

theorem pure (a : α) : AllReqs P (Pure.pure a : Prog ε α) := AllReqs.ret a

theorem req (t : Tier) (r : Req) (h : P t r) : AllReqs P (Prog.req t r : Prog ε Resp) :=
  AllReqs.call t r _ h (fun x => AllReqs.ret x)

theorem token : AllReqs P (Prog.token : Prog ε Bytes) :=
  AllReqs.draw _ (fun tok _ => AllReqs.ret tok)

theorem mono {Q : Tier → Req → Prop} {p : Prog ε α} (h : AllReqs P p) (hPQ : ∀ t r, P t r → Q t r) : AllReqs Q p := by
  induction h with
  | ret a => exact AllReqs.ret a
  | call t r k hr _ ih => exact AllReqs.call t r k (hPQ t r hr) ih
  | draw k _ ih => exact AllReqs.draw k ih
  | emit e p _ ih => exact AllReqs.emit e p ih

end AllReqs
end Rend

/-
  Every backend request an orchestrator issues for a single-key command addresses that key
  (both tiers) — the footprint hypothesis of the serializability theorem, discharged for the three
  orchestrators over the pass-through handler.  Core-only.
-/
import Rend.Proofs.Serial
import Rend.Proofs.OrcaSeq

namespace Rend
open Conc

/-- All requests satisfy `P`, every returned value satisfies `Q`. -/
inductive ReqsPost {ε α : Type} (P : Tier → Req → Prop) (Q : α → Prop) : Prog ε α → Prop where
  | ret (a : α) : Q a → ReqsPost P Q (.ret a)
  | call (t : Tier) (r : Req) (k : Resp → Prog ε α) : P t r → (∀ x, ReqsPost P Q (k x)) → ReqsPost P Q (.call t r k)
  | draw (k : Bytes → Prog ε α) : (∀ tok, tok.length = 16 → ReqsPost P Q (k tok)) → ReqsPost P Q (.draw k)
  | emit (e : ε) (p : Prog ε α) : ReqsPost P Q p → ReqsPost P Q (.emit e p)

namespace ReqsPost
variable {ε α β : Type} {P : Tier → Req → Prop}

theorem toAll {Q : α → Prop} {p : Prog ε α} (h : ReqsPost P Q p) : AllReqs P p := by
  induction h with
  | ret a _ => exact AllReqs.ret a
  | call t r k hr _ ih => exact AllReqs.call t r k hr ih
  | draw k _ ih => exact AllReqs.draw k ih
  | emit e p _ ih => exact AllReqs.emit e p ih

theorem bindAll {Q : α → Prop} {p : Prog ε α} {f : α → Prog ε β} (hp : ReqsPost P Q p)
    (hf : ∀ a, Q a → AllReqs P (f a)) : AllReqs P (p >>= f) := by
  show AllReqs P (Prog.bind p f)
  induction hp with
  | ret a ha => exact hf a ha
  | call t r k hr _ ih => exact AllReqs.call t r _ hr (fun x => ih x)
  | draw k _ ih => exact AllReqs.draw _ (fun tok h => ih tok h)
  | emit e p _ ih => exact AllReqs.emit e _ ih

theorem bind {Q : α → Prop} {R : β → Prop} {p : Prog ε α} {f : α → Prog ε β} (hp : ReqsPost P Q p)
    (hf : ∀ a, Q a → ReqsPost P R (f a)) : ReqsPost P R (p >>= f) := by
  show ReqsPost P R (Prog.bind p f)
  induction hp with
  | ret a ha => exact hf a ha
  | call t r k hr _ ih => exact ReqsPost.call t r _ hr (fun x => ih x)
  | draw k _ ih => exact ReqsPost.draw _ (fun tok h => ih tok h)
  | emit e p _ ih => exact ReqsPost.emit e _ ih

theorem pure {Q : α → Prop} (a : α) (h : Q a) : ReqsPost P Q (Pure.pure a : Prog ε α) := ReqsPost.ret a h

theorem req (t : Tier) (r : Req) (h : P t r) : ReqsPost P (fun _ => True) (Prog.req t r : Prog ε Resp) :=
  ReqsPost.call t r _ h (fun x => ReqsPost.ret x trivial)

end ReqsPost

/-! ### the pass-through handler -/

theorem std_store_local (t : Tier) (k : SetKind) (c : SetCmd) (key : Bytes) (h : c.key = key) :
    AllReqs (KeyLocal key) (Std.store (ε := OEv) t k c) := by
  unfold Std.store
  apply AllReqs.bind (AllReqs.req _ _ (Or.inl h))
  intro r
  cases r <;> simp only <;> (try split) <;> exact AllReqs.pure _

theorem std_simple_local (t : Tier) (r : Req) (key : Bytes) (h : r.key = key) :
    AllReqs (KeyLocal key) (Std.simple (ε := OEv) t r) := by
  unfold Std.simple
  apply AllReqs.bind (AllReqs.req _ _ (Or.inl h))
  intro r
  cases r <;> simp only <;> (try split) <;> exact AllReqs.pure _

theorem std_gat_local (t : Tier) (c : KeyCmd) (key : Bytes) (h : c.key = key) :
    AllReqs (KeyLocal key) (Std.gat (ε := OEv) t c) := by
  unfold Std.gat
  apply AllReqs.bind (AllReqs.req _ _ (Or.inl h))
  intro r
  split <;> exact AllReqs.pure _

theorem std_getLoop_post (t : Tier) (op : Op) (k : Bytes) : ∀ (gs : List GetKey), (∀ g ∈ gs, g.key = k) →
    ReqsPost (KeyLocal k) (fun x : List GetResp × Option HErr => ∀ r ∈ x.1, r.key = k) (Std.getLoop (ε := OEv) t op gs)
  | [], _ => ReqsPost.pure _ (by intro r hr; cases hr)
  | g :: rest, h => by
    have hg : g.key = k := h g (List.mem_cons_self ..)
    have hrest : ∀ x ∈ rest, x.key = k := fun x hx => h x (List.mem_cons_of_mem _ hx)
    have ih := std_getLoop_post t op k rest hrest
    unfold Std.getLoop
    apply ReqsPost.bind (ReqsPost.req _ _ (Or.inl hg))
    intro r _
    simp only
    split
    · apply ReqsPost.bind ih
      intro x hx
      obtain ⟨rs, err⟩ := x
      apply ReqsPost.pure
      intro r hr
      simp only [List.mem_cons] at hr
      rcases hr with hr | hr
      · subst hr; exact hg
      · exact hx r hr
    · apply ReqsPost.bind ih
      intro x hx
      obtain ⟨rs, err⟩ := x
      apply ReqsPost.pure
      intro r hr
      simp only [List.mem_cons] at hr
      rcases hr with hr | hr
      · subst hr; exact hg
      · exact hx r hr
    · apply ReqsPost.pure
      intro r hr; cases hr

/-! ### orchestrator plumbing -/

theorem respond_local (k : Bytes) (e : REv) : AllReqs (KeyLocal k) (respond e) :=
  AllReqs.emit _ _ (AllReqs.ret _)

theorem reply_local (k : Bytes) (e : REv) : AllReqs (KeyLocal k) (reply e) := by
  unfold reply
  exact AllReqs.bind (respond_local k e) (fun _ => AllReqs.pure _)

theorem emitGets_local (k : Bytes) : ∀ rs : List GetResp, AllReqs (KeyLocal k) (emitGets rs)
  | [] => AllReqs.pure _
  | r :: rs => by
    unfold emitGets
    exact AllReqs.bind (respond_local k _) (fun _ => emitGets_local k rs)

theorem andThen_local {α β : Type} (k : Bytes) {p : OProg (HRes α)} {f : HRes α → OProg (HRes β)}
    (hp : AllReqs (KeyLocal k) p) (hf : ∀ r, AllReqs (KeyLocal k) (f r)) : AllReqs (KeyLocal k) (andThen p f) := by
  unfold andThen
  apply AllReqs.bind hp
  intro r
  split
  · exact AllReqs.pure _
  · exact AllReqs.pure _
  · exact hf _

theorem splitL1_keys (k : Bytes) : ∀ (rs : List GetResp), (∀ r ∈ rs, r.key = k) →
    (∀ r ∈ (L1L2.splitL1 rs).1, r.key = k) ∧ (∀ g ∈ (L1L2.splitL1 rs).2, g.key = k)
  | [], _ => by
    simp only [L1L2.splitL1]
    constructor <;> intro r hr <;> cases hr
  | r :: rs, h => by
    have hr : r.key = k := h r (List.mem_cons_self ..)
    obtain ⟨i1, i2⟩ := splitL1_keys k rs (fun x hx => h x (List.mem_cons_of_mem _ hx))
    unfold L1L2.splitL1
    by_cases hm : r.miss = true
    · simp only [hm, if_true]
      refine ⟨i1, ?_⟩
      intro g hg
      simp only [List.mem_cons] at hg
      rcases hg with hg | hg
      · subst hg; exact hr
      · exact i2 g hg
    · simp only [hm, Bool.false_eq_true, if_false]
      refine ⟨?_, i2⟩
      intro g hg
      simp only [List.mem_cons] at hg
      rcases hg with hg | hg
      · subst hg; exact hr
      · exact i1 g hg

/-- Proof search for "every request of this orchestrator program addresses key `k`". -/
macro "kl_tac" : tactic =>
  `(tactic| repeat' (first
      | exact AllReqs.pure _
      | exact reply_local _ _
      | exact respond_local _ _
      | exact emitGets_local _ _
      | exact std_store_local _ _ _ _ rfl
      | exact std_simple_local _ _ _ rfl
      | exact std_gat_local _ _ _ rfl
      | assumption
      | apply andThen_local
      | apply AllReqs.bind
      | intro _
      | split
      | dsimp only))

theorem backfill_local (k : Bytes) : ∀ (rs : List GetResp), (∀ r ∈ rs, r.key = k) →
    AllReqs (KeyLocal k) (L1L2.backfill (Std.handler .l1) rs)
  | [], _ => AllReqs.pure _
  | r :: rs, h => by
    have hr : r.key = k := h r (List.mem_cons_self ..)
    have ih := backfill_local k rs (fun x hx => h x (List.mem_cons_of_mem _ hx))
    subst hr
    unfold L1L2.backfill
    simp only [Std.handler]
    kl_tac

/-- The key a single-key command works on. -/
def cmdKey : Cmd → Option Bytes
  | .store _ s => some s.key
  | .get g => match g.keys with
    | [gk] => some gk.key
    | _ => none
  | .getE g => match g.keys with
    | [gk] => some gk.key
    | _ => none
  | .gat c => some c.key
  | .delete c => some c.key
  | .touch c => some c.key
  | _ => none

theorem L1L2_get_local (k : Bytes) (g : GetCmd) (hk : ∀ x ∈ g.keys, x.key = k) :
    AllReqs (KeyLocal k) (L1L2.get (Std.handler .l1) (Std.handler .l2) g) := by
  unfold L1L2.get
  simp only [Std.handler]
  apply ReqsPost.bindAll (std_getLoop_post .l1 .get k g.keys hk)
  intro x hx
  obtain ⟨rs1, err1⟩ := x
  obtain ⟨s1, s2⟩ := splitL1_keys k rs1 hx
  simp only
  apply AllReqs.bind (emitGets_local k _)
  intro _
  split
  · split
    · exact AllReqs.pure _
    · exact reply_local k _
  · apply ReqsPost.bindAll (std_getLoop_post .l2 .gete k _ s2)
    intro y hy
    obtain ⟨rs2, err2⟩ := y
    simp only
    apply andThen_local k (backfill_local k rs2 hy)
    intro _
    split
    · exact reply_local k _
    · exact AllReqs.pure _

theorem L1L2Batch_get_local (k : Bytes) (g : GetCmd) (hk : ∀ x ∈ g.keys, x.key = k) :
    AllReqs (KeyLocal k) (L1L2Batch.get (Std.handler .l1) (Std.handler .l2) g) := by
  unfold L1L2Batch.get
  simp only [Std.handler]
  apply ReqsPost.bindAll (std_getLoop_post .l1 .get k g.keys hk)
  intro x hx
  obtain ⟨rs1, err1⟩ := x
  obtain ⟨s1, s2⟩ := splitL1_keys k rs1 hx
  simp only
  apply AllReqs.bind (emitGets_local k _)
  intro _
  split
  · split
    · exact AllReqs.pure _
    · exact reply_local k _
  · apply ReqsPost.bindAll (std_getLoop_post .l2 .get k _ s2)
    intro y hy
    obtain ⟨rs2, err2⟩ := y
    simp only
    apply AllReqs.bind (emitGets_local k _)
    intro _
    split
    · exact reply_local k _
    · exact AllReqs.pure _

theorem single_keys (g : GetCmd) (gk : GetKey) (h : g.keys = [gk]) : ∀ x ∈ g.keys, x.key = gk.key := by
  intro x hx
  rw [h] at hx
  simp only [List.mem_singleton] at hx
  rw [hx]

/-- **Footprint of a single-key command**: on either port, every backend request (both tiers)
    addresses the command's key. -/
theorem portStep_keyLocal (p : Port) (c : Cmd) (k : Bytes) (h : cmdKey c = some k) :
    AllReqs (KeyLocal k) (portStep p c) := by
  cases p
  · -- main port: L1L2
    cases c with
    | store kind s =>
      simp only [cmdKey, Option.some.injEq] at h
      subst h
      cases kind <;> simp only [portStep, L1L2.step, L1L2.set, L1L2.add, L1L2.replace, L1L2.pend, Std.handler] <;>
        kl_tac
    | get g =>
      simp only [cmdKey] at h
      split at h
      · rename_i gk hg
        simp only [Option.some.injEq] at h
        subst h
        exact L1L2_get_local _ g (single_keys g gk hg)
      · cases h
    | getE g => simp only [portStep, L1L2.step]; exact AllReqs.pure _
    | gat kc =>
      simp only [cmdKey, Option.some.injEq] at h
      subst h
      simp only [portStep, L1L2.step, L1L2.gat, Std.handler]
      kl_tac
    | delete kc =>
      simp only [cmdKey, Option.some.injEq] at h
      subst h
      simp only [portStep, L1L2.step, L1L2.delete, Std.handler]
      kl_tac
    | touch kc =>
      simp only [cmdKey, Option.some.injEq] at h
      subst h
      simp only [portStep, L1L2.step, L1L2.touch, Std.handler]
      kl_tac
    | noop o => cases h
    | quit o q => cases h
    | version o => cases h
    | stat o => cases h
    | unknown => cases h
  · cases c with
    | store kind s =>
      simp only [cmdKey, Option.some.injEq] at h
      subst h
      cases kind <;> simp only [portStep, L1L2Batch.step, L1L2Batch.set, L1L2Batch.addReplace, L1L2.pend, Std.handler] <;>
        kl_tac
    | get g =>
      simp only [cmdKey] at h
      split at h
      · rename_i gk hg
        simp only [Option.some.injEq] at h
        subst h
        exact L1L2Batch_get_local _ g (single_keys g gk hg)
      · cases h
    | getE g => simp only [portStep, L1L2Batch.step]; exact AllReqs.pure _
    | gat kc =>
      simp only [cmdKey, Option.some.injEq] at h
      subst h
      simp only [portStep, L1L2Batch.step, L1L2Batch.gat, Std.handler]
      kl_tac
    | delete kc =>
      simp only [cmdKey, Option.some.injEq] at h
      subst h
      simp only [portStep, L1L2Batch.step, L1L2.delete, Std.handler]
      kl_tac
    | touch kc =>
      simp only [cmdKey, Option.some.injEq] at h
      subst h
      simp only [portStep, L1L2Batch.step, L1L2Batch.touch, Std.handler]
      kl_tac
    | noop o => cases h
    | quit o q => cases h
    | version o => cases h
    | stat o => cases h
    | unknown => cases h

end Rend

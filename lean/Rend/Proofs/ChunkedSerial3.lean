/-
  The reduction of C03 for a chunked L1 in front of an L2, with footprints PER TIER
  (`SerialFootT`): the footprint of client key `k` is `{(L2, k)} ∪ {(L1, k-meta), (L1, k-0), …}`.
  Footprints of different client keys are disjoint WITHOUT any assumption on the shape of the keys
  (the L2 entry `a-0` of client key `a-0` and chunk 0 of client key `a` lie in different stores), so
  the serializability theorem holds for every set of client keys.  Core-only.
-/
import Rend.Proofs.SerialFootT
import Rend.Proofs.ChunkedTier
import Rend.Proofs.ChunkedSerial2

namespace Rend.Conc
open Rend Rend.Chunked

/-- Backend locations of client key `key`: the key in L2, its metadata entry and chunks in L1. -/
def footT (key : Bytes) : Loc → Prop :=
  fun l => (l.1 = .l2 ∧ l.2 = key) ∨ (l.1 = .l1 ∧ chunkFoot key l.2)

/-- A pass-through request of tier `t0` on key `key`. -/
def KeyAt (t0 : Tier) (key : Bytes) : Tier → Req → Prop := fun t r => t = t0 ∧ (r.key = key ∨ r.op = .noop)

theorem keyAt_footT (key : Bytes) (t : Tier) (r : Req) (h : KeyAt .l2 key t r) : FootLocalT (footT key) t r := by
  obtain ⟨ht, h | h⟩ := h
  · subst ht; exact Or.inl (Or.inl ⟨rfl, h⟩)
  · exact Or.inr h

theorem derivedAt_footT (key : Bytes) (t : Tier) (r : Req) (h : DerivedAt .l1 key t r) : FootLocalT (footT key) t r := by
  obtain ⟨ht, h⟩ := h
  subst ht
  rcases derived_footLocal key .l1 r h with h | h
  · exact Or.inl (Or.inr ⟨rfl, h⟩)
  · exact Or.inr h

/-- Footprints of different client keys are disjoint — whatever the keys look like. -/
theorem footT_disjoint (k k' : Bytes) (l : Loc) (h : footT k l) (h' : footT k' l) : k = k' := by
  rcases h with ⟨t1, e1⟩ | ⟨t1, c1⟩
  · rcases h' with ⟨_, e2⟩ | ⟨t2, _⟩
    · exact e1.symm.trans e2
    · rw [t1] at t2; cases t2
  · rcases h' with ⟨t2, _⟩ | ⟨_, c2⟩
    · rw [t1] at t2; cases t2
    · exact chunkFoot_disjoint _ _ _ c1 c2

/-! ### the pass-through handler, with the tier -/

theorem std_store_at (t : Tier) (k : SetKind) (c : SetCmd) (key : Bytes) (h : c.key = key) :
    AllReqs (KeyAt t key) (Std.store (ε := OEv) t k c) := by
  unfold Std.store
  apply AllReqs.bind (AllReqs.req _ _ ⟨rfl, Or.inl h⟩)
  intro r
  cases r <;> simp only <;> (try split) <;> exact AllReqs.pure _

theorem std_simple_at (t : Tier) (r : Req) (key : Bytes) (h : r.key = key) :
    AllReqs (KeyAt t key) (Std.simple (ε := OEv) t r) := by
  unfold Std.simple
  apply AllReqs.bind (AllReqs.req _ _ ⟨rfl, Or.inl h⟩)
  intro r
  cases r <;> simp only <;> (try split) <;> exact AllReqs.pure _

theorem std_gat_at (t : Tier) (c : KeyCmd) (key : Bytes) (h : c.key = key) :
    AllReqs (KeyAt t key) (Std.gat (ε := OEv) t c) := by
  unfold Std.gat
  apply AllReqs.bind (AllReqs.req _ _ ⟨rfl, Or.inl h⟩)
  intro r
  split <;> exact AllReqs.pure _

theorem std_getLoop_at (t : Tier) (op : Op) (k : Bytes) : ∀ (gs : List GetKey), (∀ g ∈ gs, g.key = k) →
    ReqsPost (KeyAt t k) (fun x : List GetResp × Option HErr => ∀ r ∈ x.1, r.key = k) (Std.getLoop (ε := OEv) t op gs)
  | [], _ => ReqsPost.pure _ (by intro r hr; cases hr)
  | g :: rest, h => by
    have hg : g.key = k := h g (List.mem_cons_self ..)
    have hrest : ∀ x ∈ rest, x.key = k := fun x hx => h x (List.mem_cons_of_mem _ hx)
    have ih := std_getLoop_at t op k rest hrest
    unfold Std.getLoop
    apply ReqsPost.bind (ReqsPost.req _ _ ⟨rfl, Or.inl hg⟩)
    intro r _
    simp only
    split
    · apply ReqsPost.bind ih
      intro x hx
      obtain ⟨rs, err⟩ := x
      apply ReqsPost.pure
      intro r hr
      simp only [List.mem_cons] at hr
      rcases hr with hr | hr
      · subst hr; exact hg
      · exact hx r hr
    · apply ReqsPost.bind ih
      intro x hx
      obtain ⟨rs, err⟩ := x
      apply ReqsPost.pure
      intro r hr
      simp only [List.mem_cons] at hr
      rcases hr with hr | hr
      · subst hr; exact hg
      · exact hx r hr
    · apply ReqsPost.pure
      intro r hr; cases hr

/-! ### the handlers, in terms of `footT` -/

theorem cht_store (now : Nat) (kind : SetKind) (c : SetCmd) (k : Bytes) (h : c.key = k) :
    AllReqs (FootLocalT (footT k)) ((Chunked.handler (ε := OEv) .l1 now).store kind c) := by
  subst h; exact (store_derivedAt .l1 now kind c).mono (derivedAt_footT _)

theorem cht_gat (now : Nat) (c : KeyCmd) (k : Bytes) (h : c.key = k) :
    AllReqs (FootLocalT (footT k)) ((Chunked.handler (ε := OEv) .l1 now).gat c) := by
  subst h; exact (gat_derivedAt .l1 c).mono (derivedAt_footT _)

theorem cht_delete (now : Nat) (c : KeyCmd) (k : Bytes) (h : c.key = k) :
    AllReqs (FootLocalT (footT k)) ((Chunked.handler (ε := OEv) .l1 now).delete c) := by
  subst h; exact (delete_derivedAt .l1 c).mono (derivedAt_footT _)

theorem cht_touch (now : Nat) (c : KeyCmd) (k : Bytes) (h : c.key = k) :
    AllReqs (FootLocalT (footT k)) ((Chunked.handler (ε := OEv) .l1 now).touch c) := by
  subst h; exact (touch_derivedAt .l1 now c).mono (derivedAt_footT _)

theorem stt_store (kind : SetKind) (c : SetCmd) (k : Bytes) (h : c.key = k) :
    AllReqs (FootLocalT (footT k)) ((Std.handler (ε := OEv) .l2).store kind c) :=
  (std_store_at .l2 kind c k h).mono (keyAt_footT k)

theorem stt_gat (c : KeyCmd) (k : Bytes) (h : c.key = k) :
    AllReqs (FootLocalT (footT k)) ((Std.handler (ε := OEv) .l2).gat c) :=
  (std_gat_at .l2 c k h).mono (keyAt_footT k)

theorem stt_delete (c : KeyCmd) (k : Bytes) (h : c.key = k) :
    AllReqs (FootLocalT (footT k)) ((Std.handler (ε := OEv) .l2).delete c) :=
  (std_simple_at .l2 { op := .delete, key := c.key } k h).mono (keyAt_footT k)

theorem stt_touch (c : KeyCmd) (k : Bytes) (h : c.key = k) :
    AllReqs (FootLocalT (footT k)) ((Std.handler (ε := OEv) .l2).touch c) :=
  (std_simple_at .l2 { op := .touch, key := c.key, exptime := c.exptime } k h).mono (keyAt_footT k)

/-- The chunking handler's multi-key read: requests stay in the footprint, and every answer carries
    the key it was asked for. -/
theorem cht_getLoop_post (k : Bytes) : ∀ (gs : List GetKey), (∀ g ∈ gs, g.key = k) →
    ReqsPost (FootLocalT (footT k)) (fun x : List GetResp × Option HErr => ∀ r ∈ x.1, r.key = k)
      (Chunked.getLoop (ε := OEv) .l1 gs)
  | [], _ => ReqsPost.pure _ (by intro r hr; cases hr)
  | g :: rest, h => by
    have hg : g.key = k := h g (List.mem_cons_self ..)
    have ih := cht_getLoop_post k rest (fun x hx => h x (List.mem_cons_of_mem _ hx))
    have cons_ok : ∀ (r0 : GetResp), r0.key = k → ∀ (x : List GetResp × Option HErr), (∀ r ∈ x.1, r.key = k) →
        ReqsPost (FootLocalT (footT k)) (fun y : List GetResp × Option HErr => ∀ r ∈ y.1, r.key = k)
          (Pure.pure (r0 :: x.1, x.2) : Prog OEv _) := by
      intro r0 h0 x hx
      apply ReqsPost.pure
      intro r hr
      simp only [List.mem_cons] at hr
      rcases hr with hr | hr
      · subst hr; exact h0
      · exact hx r hr
    have nil_ok : ∀ (e : Option HErr), ReqsPost (FootLocalT (footT k))
        (fun y : List GetResp × Option HErr => ∀ r ∈ y.1, r.key = k) (Pure.pure ([], e) : Prog OEv _) := by
      intro e
      apply ReqsPost.pure
      intro r hr; cases hr
    unfold Chunked.getLoop
    apply ReqsPost.bind (ReqsPost.req _ _ (derivedAt_footT k _ _ ⟨rfl, hg ▸ Or.inr (Or.inl rfl)⟩))
    intro mr _
    simp only
    split
    · apply ReqsPost.bind ih
      intro x hx
      obtain ⟨rs, err⟩ := x
      exact cons_ok _ hg (rs, err) hx
    · exact nil_ok _
    · rename_i md _
      have hrc : AllReqs (FootLocalT (footT k)) (readChunks (ε := OEv) .l1 .getq g.key 0 md) :=
        (readChunks_derivedAt .l1 .getq g.key 0 md).mono (fun t r hd => derivedAt_footT k t r (hg ▸ hd))
      -- turn the AllReqs of readChunks into a ReqsPost with a trivial postcondition
      have hrc' := allReqs_toPost hrc
      apply ReqsPost.bind hrc'
      intro ro _
      cases ro with
      | err e => exact nil_ok _
      | miss =>
        apply ReqsPost.bind ih
        intro x hx
        obtain ⟨rs, err⟩ := x
        exact cons_ok _ hg (rs, err) hx
      | value d =>
        apply ReqsPost.bind ih
        intro x hx
        obtain ⟨rs, err⟩ := x
        exact cons_ok _ hg (rs, err) hx

/-- Proof search for "every request of this orchestrator program stays in `footT k`". -/
macro "fT_tac" : tactic =>
  `(tactic| repeat' (first
      | exact AllReqs.pure _
      | exact allReqs_reply _
      | exact allReqs_emitGets _
      | exact cht_store _ _ _ _ rfl
      | exact cht_gat _ _ _ rfl
      | exact cht_delete _ _ _ rfl
      | exact cht_touch _ _ _ rfl
      | exact stt_store _ _ _ rfl
      | exact stt_gat _ _ rfl
      | exact stt_delete _ _ rfl
      | exact stt_touch _ _ rfl
      | assumption
      | apply allReqs_andThen
      | apply AllReqs.bind
      | intro _
      | split
      | dsimp only))

theorem cht_backfill (now : Nat) (k : Bytes) : ∀ (rs : List GetResp), (∀ r ∈ rs, r.key = k) →
    AllReqs (FootLocalT (footT k)) (L1L2.backfill (Chunked.handler .l1 now) rs)
  | [], _ => AllReqs.pure _
  | r :: rs, h => by
    have hr : r.key = k := h r (List.mem_cons_self ..)
    have ih := cht_backfill now k rs (fun x hx => h x (List.mem_cons_of_mem _ hx))
    subst hr
    unfold L1L2.backfill
    have hresp : ∀ e, AllReqs (FootLocalT (footT r.key)) (respond e) := fun e => by
      unfold respond Prog.out; exact AllReqs.emit _ _ (AllReqs.ret _)
    fT_tac
    all_goals first
      | exact hresp _
      | skip

theorem L1L2_get_footT (now : Nat) (k : Bytes) (g : GetCmd) (hk : ∀ x ∈ g.keys, x.key = k) :
    AllReqs (FootLocalT (footT k)) (L1L2.get (Chunked.handler .l1 now) (Std.handler .l2) g) := by
  unfold L1L2.get
  simp only [Chunked.handler, Std.handler]
  apply ReqsPost.bindAll (cht_getLoop_post k g.keys hk)
  intro x hx
  obtain ⟨rs1, err1⟩ := x
  obtain ⟨s1, s2⟩ := splitL1_keys k rs1 hx
  simp only
  apply AllReqs.bind (allReqs_emitGets _)
  intro _
  split
  · split
    · exact AllReqs.pure _
    · exact allReqs_reply _
  · apply ReqsPost.bindAll (reqsPost_mono (std_getLoop_at .l2 .gete k _ s2) (keyAt_footT k))
    intro y hy
    obtain ⟨rs2, err2⟩ := y
    simp only
    apply allReqs_andThen _ _ (cht_backfill now k rs2 hy)
    intro _
    split
    · exact allReqs_reply _
    · exact AllReqs.pure _

theorem L1L2Batch_get_footT (now : Nat) (k : Bytes) (g : GetCmd) (hk : ∀ x ∈ g.keys, x.key = k) :
    AllReqs (FootLocalT (footT k)) (L1L2Batch.get (Chunked.handler .l1 now) (Std.handler .l2) g) := by
  unfold L1L2Batch.get
  simp only [Chunked.handler, Std.handler]
  apply ReqsPost.bindAll (cht_getLoop_post k g.keys hk)
  intro x hx
  obtain ⟨rs1, err1⟩ := x
  obtain ⟨s1, s2⟩ := splitL1_keys k rs1 hx
  simp only
  apply AllReqs.bind (allReqs_emitGets _)
  intro _
  split
  · split
    · exact AllReqs.pure _
    · exact allReqs_reply _
  · apply ReqsPost.bindAll (reqsPost_mono (std_getLoop_at .l2 .get k _ s2) (keyAt_footT k))
    intro y hy
    obtain ⟨rs2, err2⟩ := y
    simp only
    apply AllReqs.bind (allReqs_emitGets _)
    intro _
    split
    · exact allReqs_reply _
    · exact AllReqs.pure _

/-- **Footprint of a single-key command, chunked L1 in front of L2**: on either port every backend
    request addresses the key (L2) or the metadata entry / a numbered chunk of it (L1). -/
theorem portStepC_footT (now : Nat) (p : Port) (c : Cmd) (k : Bytes) (h : cmdKey c = some k) :
    AllReqs (FootLocalT (footT k)) (portStepC now p c) := by
  cases p
  · cases c with
    | store kind s =>
      simp only [cmdKey, Option.some.injEq] at h
      subst h
      cases kind <;> simp only [portStepC, L1L2.step, L1L2.set, L1L2.add, L1L2.replace, L1L2.pend] <;> fT_tac
    | get g =>
      simp only [cmdKey] at h
      split at h
      · rename_i gk hg
        simp only [Option.some.injEq] at h
        subst h
        exact L1L2_get_footT now _ g (single_keys g gk hg)
      · cases h
    | getE g => simp only [portStepC, L1L2.step]; exact AllReqs.pure _
    | gat kc =>
      simp only [cmdKey, Option.some.injEq] at h
      subst h
      simp only [portStepC, L1L2.step, L1L2.gat]
      fT_tac
    | delete kc =>
      simp only [cmdKey, Option.some.injEq] at h
      subst h
      simp only [portStepC, L1L2.step, L1L2.delete]
      fT_tac
    | touch kc =>
      simp only [cmdKey, Option.some.injEq] at h
      subst h
      simp only [portStepC, L1L2.step, L1L2.touch]
      fT_tac
    | noop o => cases h
    | quit o q => cases h
    | version o => cases h
    | stat o => cases h
    | unknown => cases h
  · cases c with
    | store kind s =>
      simp only [cmdKey, Option.some.injEq] at h
      subst h
      cases kind <;> simp only [portStepC, L1L2Batch.step, L1L2Batch.set, L1L2Batch.addReplace, L1L2.pend] <;> fT_tac
    | get g =>
      simp only [cmdKey] at h
      split at h
      · rename_i gk hg
        simp only [Option.some.injEq] at h
        subst h
        exact L1L2Batch_get_footT now _ g (single_keys g gk hg)
      · cases h
    | getE g => simp only [portStepC, L1L2Batch.step]; exact AllReqs.pure _
    | gat kc =>
      simp only [cmdKey, Option.some.injEq] at h
      subst h
      simp only [portStepC, L1L2Batch.step, L1L2Batch.gat]
      fT_tac
    | delete kc =>
      simp only [cmdKey, Option.some.injEq] at h
      subst h
      simp only [portStepC, L1L2Batch.step, L1L2.delete]
      fT_tac
    | touch kc =>
      simp only [cmdKey, Option.some.injEq] at h
      subst h
      simp only [portStepC, L1L2Batch.step, L1L2Batch.touch]
      fT_tac
    | noop o => cases h
    | quit o q => cases h
    | version o => cases h
    | stat o => cases h
    | unknown => cases h

/-- A connection's critical section, footprint per tier. -/
def ChThread2.toT (now : Nat) (t : ChThread2) : ThreadT (HRes Unit) :=
  { foot := footT t.key, stripe := t.stripe, body := portStepC now t.port t.cmd }

/-- **Serializability with a chunked L1 in front of L2 (exclusive locks)** — for EVERY set of
    client keys.  Connections on either port run single-key commands, each inside the lock of its
    key's stripe (a function of the key).  For every admitted schedule that ends with nobody inside
    a critical section: both backends hold what running the commands whole, one after another in
    lock-acquisition order, leaves, and the commands, in that order, returned and emitted what that
    sequential run does. -/
theorem serializable_chunked2 (now : Nat) (thr : Nat → ChThread2)
    (hkey : ∀ i, cmdKey (thr i).cmd = some (thr i).key)
    (hstripe : ∀ i j, (thr i).key = (thr j).key → (thr i).stripe = (thr j).stripe)
    (w : World) (sched : List Step) (c' : Conf (HRes Unit))
    (hex : ExecT now (fun i => (thr i).toT now) (Conf.init w) sched c')
    (hquiet : ∀ i p evs, c'.ts i ≠ .running p evs) :
    c'.w = seqEndT now (fun i => (thr i).toT now) w (acqOrder sched) ∧
    (acqOrder sched).map c'.ts =
      (seqObsT now (fun i => (thr i).toT now) w (acqOrder sched)).map (fun o => TState.done o.1 o.2) :=
  serializableTT_obs now (fun i => (thr i).toT now)
    (fun i => portStepC_footT now (thr i).port (thr i).cmd (thr i).key (hkey i))
    (fun i j l hi hj => hstripe i j (footT_disjoint _ _ l hi hj))
    w sched c' hex hquiet

end Rend.Conc

/-
  `Runs p a es`: program `p` can finish with result `a` having emitted the events `es`, for SOME
  behaviour of the backends and SOME drawn tokens.  A statement "for all `a es`, Runs p a es → …"
  therefore holds for every backend behaviour: correct answers, error statuses, lost connections.
-/
import Rend.Orcas.Locked
import Rend.Handlers.Std
import Rend.Handlers.Chunked

namespace Rend

inductive Runs {ε α : Type} : Prog ε α → α → List ε → Prop where
  | ret (a : α) : Runs (.ret a) a []
  | call (t : Tier) (r : Req) (k : Resp → Prog ε α) (x : Resp) (a : α) (es : List ε) :
      Runs (k x) a es → Runs (.call t r k) a es
  | draw (k : Bytes → Prog ε α) (tok : Bytes) (a : α) (es : List ε) : Runs (k tok) a es → Runs (.draw k) a es
  | emit (e : ε) (p : Prog ε α) (a : α) (es : List ε) : Runs p a es → Runs (.emit e p) a (e :: es)

namespace Runs
variable {ε α β : Type}

theorem of_pure {a b : α} {es : List ε} (h : Runs (pure a : Prog ε α) b es) : b = a ∧ es = [] := by
  cases h; exact ⟨rfl, rfl⟩

theorem bind_inv {p : Prog ε α} {f : α → Prog ε β} {b : β} {es : List ε} (h : Runs (p >>= f) b es) :
    ∃ a e1 e2, Runs p a e1 ∧ Runs (f a) b e2 ∧ es = e1 ++ e2 := by
  induction p generalizing es with
  | ret a => exact ⟨a, [], es, Runs.ret a, h, rfl⟩
  | call t r k ih =>
    cases h with
    | call _ _ _ x _ _ h' =>
      obtain ⟨a, e1, e2, h1, h2, rfl⟩ := ih x h'
      exact ⟨a, e1, e2, Runs.call t r k x a e1 h1, h2, rfl⟩
  | draw k ih =>
    cases h with
    | draw _ tok _ _ h' =>
      obtain ⟨a, e1, e2, h1, h2, rfl⟩ := ih tok h'
      exact ⟨a, e1, e2, Runs.draw k tok a e1 h1, h2, rfl⟩
  | emit e p ih =>
    cases h with
    | emit _ _ _ es' h' =>
      obtain ⟨a, e1, e2, h1, h2, rfl⟩ := ih h'
      exact ⟨a, e :: e1, e2, Runs.emit e p a e1 h1, h2, rfl⟩

theorem out_inv {e : ε} {u : Unit} {es : List ε} (h : Runs (Prog.out e) u es) : es = [e] := by
  cases h with
  | emit _ _ _ es' h' => cases h'; rfl

theorem req_inv {t : Tier} {r : Req} {x : Resp} {es : List ε} (h : Runs (Prog.req t r : Prog ε Resp) x es) : es = [] := by
  cases h with
  | call _ _ _ _ _ _ h' => cases h'; rfl

theorem token_inv {x : Bytes} {es : List ε} (h : Runs (Prog.token : Prog ε Bytes) x es) : es = [] := by
  cases h with
  | draw _ _ _ _ h' => cases h'; rfl

end Runs

/-- A program that never emits anything (handlers). -/
structure Silent {ε α : Type} (p : Prog ε α) : Prop where
  out : ∀ a es, Runs p a es → es = []

namespace Silent
variable {ε α β : Type}

theorem pure (a : α) : Silent (Pure.pure a : Prog ε α) := ⟨fun _ _ h => (Runs.of_pure h).2⟩

theorem ret (a : α) : Silent (Prog.ret a : Prog ε α) := ⟨fun _ _ h => by cases h; rfl⟩

theorem req (t : Tier) (r : Req) : Silent (Prog.req t r : Prog ε Resp) := ⟨fun _ _ h => Runs.req_inv h⟩

theorem token : Silent (Prog.token : Prog ε Bytes) := ⟨fun _ _ h => Runs.token_inv h⟩

theorem bind {p : Prog ε α} {f : α → Prog ε β} (hp : Silent p) (hf : ∀ a, Silent (f a)) : Silent (p >>= f) := by
  constructor
  intro b es h
  obtain ⟨a, e1, e2, h1, h2, rfl⟩ := Runs.bind_inv h
  rw [hp.out a e1 h1, (hf a).out b e2 h2]; rfl

end Silent

/-- A handler whose every operation is silent. -/
structure SilentHandler {ε : Type} (h : Handler ε) : Prop where
  store : ∀ k c, Silent (h.store k c)
  get : ∀ ks, Silent (h.get ks)
  getE : ∀ ks, Silent (h.getE ks)
  gat : ∀ c, Silent (h.gat c)
  delete : ∀ c, Silent (h.delete c)
  touch : ∀ c, Silent (h.touch c)

end Rend

namespace Rend

/-- Proof search for "this handler program is silent". -/
macro "silent_tac" : tactic =>
  `(tactic| repeat' (first
      | exact Silent.pure _
      | exact Silent.ret _
      | exact Silent.req _ _
      | exact Silent.token
      | assumption
      | apply Silent.bind
      | intro _
      | split
      | dsimp only))

theorem Std.getLoop_silent {ε} (t : Tier) (op : Op) : ∀ ks, Silent (Std.getLoop (ε := ε) t op ks) := by
  intro ks
  induction ks with
  | nil => exact Silent.pure _
  | cons g rest ih =>
    unfold Std.getLoop
    silent_tac

theorem Std.silent {ε} (t : Tier) : SilentHandler (Std.handler (ε := ε) t) where
  store := by intro k c; unfold Std.handler Std.store; silent_tac
  get := Std.getLoop_silent t .get
  getE := Std.getLoop_silent t .gete
  gat := by intro c; unfold Std.handler Std.gat; silent_tac
  delete := by intro c; unfold Std.handler Std.simple; silent_tac
  touch := by intro c; unfold Std.handler Std.simple; silent_tac

end Rend

namespace Rend
open Chunked

theorem Chunked.writeChunks_silent {ε} (t : Tier) (c : SetCmd) (token : Bytes) (ds : Nat) :
    ∀ n i, Silent (writeChunks (ε := ε) t c token ds n i) := by
  intro n
  induction n with
  | zero => intro i; exact Silent.pure _
  | succ n ih =>
    intro i
    have := ih (i + 1)
    unfold writeChunks
    silent_tac

attribute [local irreducible] writeChunks in
theorem Chunked.setCommon_silent {ε} (t : Tier) (now : Nat) (k : SetKind) (c : SetCmd) :
    Silent (setCommon (ε := ε) t now k c) := by
  unfold setCommon
  have := fun tok ds n => Chunked.writeChunks_silent (ε := ε) t c tok ds n 0
  simp only
  silent_tac
  all_goals exact this _ _ _

theorem Chunked.askChunks_silent {ε} (t : Tier) (op : Op) (key : Bytes) (e : Nat) :
    ∀ n i, Silent (askChunks (ε := ε) t op key e n i) := by
  intro n
  induction n with
  | zero => intro i; exact Silent.pure _
  | succ n ih =>
    intro i
    have := ih (i + 1)
    unfold askChunks
    silent_tac

attribute [local irreducible] askChunks in
theorem Chunked.readChunks_silent {ε} (t : Tier) (op : Op) (key : Bytes) (e : Nat) (md : Meta) :
    Silent (readChunks (ε := ε) t op key e md) := by
  unfold readChunks
  have := Chunked.askChunks_silent (ε := ε) t op key e md.numChunks 0
  silent_tac

attribute [local irreducible] readChunks in
theorem Chunked.getLoop_silent {ε} (t : Tier) : ∀ ks, Silent (Chunked.getLoop (ε := ε) t ks) := by
  intro ks
  induction ks with
  | nil => exact Silent.pure _
  | cons g rest ih =>
    unfold Chunked.getLoop
    have := fun md => Chunked.readChunks_silent (ε := ε) t .getq g.key 0 md
    silent_tac
    all_goals exact this _

theorem Chunked.pipeChunks_silent {ε} (t : Tier) (mk : Bytes → Req) (key : Bytes) :
    ∀ n i, Silent (pipeChunks (ε := ε) t mk key n i) := by
  intro n
  induction n with
  | zero => intro i; exact Silent.pure _
  | succ n ih =>
    intro i
    have := ih (i + 1)
    unfold pipeChunks
    silent_tac

attribute [local irreducible] readChunks setCommon pipeChunks in
theorem Chunked.silent {ε} (t : Tier) (now : Nat) : SilentHandler (Chunked.handler (ε := ε) t now) where
  store := by
    intro k c
    have hs := fun k c => Chunked.setCommon_silent (ε := ε) t now k c
    have hr := fun md => Chunked.readChunks_silent (ε := ε) t .getq c.key 0 md
    unfold Chunked.handler Chunked.store Chunked.pend
    simp only
    silent_tac
    all_goals first | exact hs _ _ | exact hr _
  get := Chunked.getLoop_silent t
  getE := by intro ks; exact Silent.pure _
  gat := by
    intro c
    have hr := fun md => Chunked.readChunks_silent (ε := ε) t .gatq c.key c.exptime md
    unfold Chunked.handler Chunked.gat
    simp only
    silent_tac
    all_goals exact hr _
  delete := by
    intro c
    have hp := fun mk n => Chunked.pipeChunks_silent (ε := ε) t mk c.key n 0
    unfold Chunked.handler Chunked.delete
    simp only
    silent_tac
    all_goals exact hp _ _
  touch := by
    intro c
    have hp := fun mk n => Chunked.pipeChunks_silent (ε := ε) t mk c.key n 0
    unfold Chunked.handler Chunked.touch
    simp only
    silent_tac
    all_goals exact hp _ _

end Rend

namespace Rend

/-- Whatever the runner computes — with any fault plan, from any state — is a run in the sense
    of `Runs`: every "for all runs" theorem applies to what the driver executes. -/
theorem Prog.runSt_runs {ε α : Type} (now : Nat) (fault : Option Fault) (p : Prog ε α) :
    ∀ s : RunSt, Runs p (p.runSt now fault s).1 (p.runSt now fault s).2.1 := by
  induction p with
  | ret a => intro s; exact Runs.ret a
  | call t r k ih =>
    intro s
    simp only [Prog.runSt]
    exact Runs.call t r k _ _ _ (ih _ _)
  | draw k ih =>
    intro s
    simp only [Prog.runSt]
    cases h : s.toks with
    | nil => exact Runs.draw k _ _ _ (ih _ _)
    | cons x xs => exact Runs.draw k _ _ _ (ih _ _)
  | emit e p ih =>
    intro s
    simp only [Prog.runSt]
    exact Runs.emit e p _ _ (ih s)

end Rend

/-
  Refinement of the orchestrators (over pass-through handlers on both tiers) to the single-map
  specification: the invariant "L1 is a faithful, never-outliving copy of L2", its preservation by
  every command of every orchestrator, and the correspondence of replies and of L2's contents
  with `Spec.step`.
-/
import Rend.Proofs.Eval
import Rend.SpecStep

namespace Rend

/-- `b` is served at least as long as `a`. -/
def Outlives (b a : Item) : Prop := b.deadline = 0 ∨ (a.deadline ≠ 0 ∧ a.deadline ≤ b.deadline)

/-- Whenever L1 serves a key, L2 serves it too, with the same value and flags, at least as long. -/
def CacheInv (now : Nat) (w : World) : Prop :=
  ∀ k a, w.l1.look now k = some a →
    ∃ b, w.l2.look now k = some b ∧ a.data = b.data ∧ a.flags = b.flags ∧ Outlives b a

theorem look_some {s : Store} {now : Nat} {k : Bytes} {it : Item} :
    s.look now k = some it ↔ s k = some it ∧ it.live now = true := by
  unfold Store.look
  cases h : s k with
  | none => simp
  | some x =>
    by_cases hl : x.live now = true
    · simp [hl]; rintro rfl; exact hl
    · have hl' : x.live now = false := by simpa using hl
      simp [hl']; rintro rfl; exact hl'

theorem look_none {s : Store} {now : Nat} {k : Bytes} :
    s.look now k = none ↔ ∀ it, s k = some it → it.live now = false := by
  unfold Store.look
  cases h : s k with
  | none => simp
  | some x =>
    by_cases hl : x.live now = true
    · simp [hl]
    · simp [hl]

theorem live_mono {it : Item} {now now' : Nat} (h : now ≤ now') (hl : it.live now' = true) : it.live now = true := by
  unfold Item.live at *
  simp at *
  rcases hl with h0 | h1
  · exact Or.inl h0
  · exact Or.inr (by omega)

/-- The invariant survives the passage of time (entries only expire; L2's copy lives at least as long). -/
theorem CacheInv.mono {now now' : Nat} {w : World} (h : CacheInv now w) (hle : now ≤ now') : CacheInv now' w := by
  intro k a ha
  obtain ⟨ha1, ha2⟩ := look_some.mp ha
  obtain ⟨b, hb, hd, hf, ho⟩ := h k a (look_some.mpr ⟨ha1, live_mono hle ha2⟩)
  obtain ⟨hb1, hb2⟩ := look_some.mp hb
  refine ⟨b, look_some.mpr ⟨hb1, ?_⟩, hd, hf, ho⟩
  unfold Item.live at *
  simp at *
  rcases ho with h0 | ⟨h1, h2⟩
  · exact Or.inl h0
  · rcases ha2 with h3 | h3
    · exact absurd h3 h1
    · exact Or.inr (by omega)

/-- Losing any set of L1 entries keeps the invariant. -/
theorem CacheInv.evict {now : Nat} {w : World} (h : CacheInv now w) (lost : Bytes → Bool) :
    CacheInv now { w with l1 := fun k => if lost k then none else w.l1 k } := by
  intro k a ha
  apply h k a
  obtain ⟨ha1, ha2⟩ := look_some.mp ha
  simp only at ha1
  split at ha1
  · simp at ha1
  · exact look_some.mpr ⟨ha1, ha2⟩

@[simp] theorem Store.set_same (s : Store) (k : Bytes) (v : Option Item) : (s.set k v) k = v := by
  simp [Store.set]

theorem Store.set_other (s : Store) (k k' : Bytes) (v : Option Item) (h : k' ≠ k) : (s.set k v) k' = s k' := by
  simp [Store.set, h]

theorem Store.look_set_same (s : Store) (now : Nat) (k : Bytes) (it : Item) :
    (s.set k (some it)).look now k = if it.live now then some it else none := by
  simp [Store.look]

theorem Store.look_set_none (s : Store) (now : Nat) (k : Bytes) : (s.set k none).look now k = none := by
  simp [Store.look]

theorem Store.look_set_other (s : Store) (now : Nat) (k k' : Bytes) (v : Option Item) (h : k' ≠ k) :
    (s.set k v).look now k' = s.look now k' := by
  simp [Store.look, Store.set, h]

end Rend

namespace Rend

/-! ### The reference map's store-type operations, uniformly -/

def newItem (now : Nat) (c : SetCmd) : Item := ⟨c.data, c.flags, deadlineOf now c.exptime⟩

/-- (new store, success) of a store-type command on the reference map. -/
def mcStore (now : Nat) (s : Store) (k : SetKind) (c : SetCmd) : Store × Bool :=
  match k, s.look now c.key with
  | .set, _ => (s.set c.key (some (newItem now c)), true)
  | .add, none => (s.set c.key (some (newItem now c)), true)
  | .add, some _ => (s, false)
  | .replace, some _ => (s.set c.key (some (newItem now c)), true)
  | .replace, none => (s, false)
  | .append, some it => (s.set c.key (some { it with data := it.data ++ c.data }), true)
  | .append, none => (s, false)
  | .prepend, some it => (s.set c.key (some { it with data := c.data ++ it.data }), true)
  | .prepend, none => (s, false)

def failCode : SetKind → Nat
  | .set => 0 | .add => stExists | .replace => stNotFound | .append => stNotStored | .prepend => stNotStored

/-- The request the pass-through handler puts on the wire. -/
abbrev stdReq := @Std.storeReq

theorem mc_exec_store (now : Nat) (s : Store) (k : SetKind) (c : SetCmd) :
    Mc.exec now s (stdReq k c) = ((mcStore now s k c).1, if (mcStore now s k c).2 then .ok else .status (failCode k)) := by
  cases h : s.look now c.key <;> cases k <;> simp [Std.storeReq, SetKind.op, Mc.exec, mcStore, newItem, failCode, h]

/-- `Spec.step` of a store command, in terms of `mcStore`. -/
theorem spec_step_store (now : Nat) (s : Store) (k : SetKind) (c : SetCmd) :
    Spec.step now s (.store k c) = ((mcStore now s k c).1, if (mcStore now s k c).2 then .ok else .fail) := by
  cases h : s.look now c.key <;> cases k <;> simp [Spec.step, SetKind.op, Mc.exec, mcStore, newItem, h]

/-- What the pass-through handler returns for a response to a store request. -/
def missErr : SetKind → Err
  | .set => .keyNotFound | .add => .keyExists | .replace => .keyNotFound | .append => .itemNotStored | .prepend => .itemNotStored

theorem decode_fail (k : SetKind) (hk : k ≠ .set) : decodeError (failCode k) = some (missErr k) := by
  cases k <;> first | exact absurd rfl hk | decide

theorem eval_std_store (now : Nat) (t : Tier) (k : SetKind) (c : SetCmd) (w : World) (tk : List Bytes) :
    (Std.store (ε := OEv) t k c).eval now w tk =
      (if (mcStore now (w.get t) k c).2 then .ok () else .error (.app (missErr k)), [],
       w.put t (mcStore now (w.get t) k c).1, tk) := by
  unfold Std.store
  simp only [Prog.eval_bind, Prog.eval_req, mc_exec_store]
  by_cases hs : (mcStore now (w.get t) k c).2 = true
  · simp [hs]
  · have hs' : (mcStore now (w.get t) k c).2 = false := by simpa using hs
    have hk : k ≠ .set := by
      intro h; subst h; simp [mcStore] at hs'
    simp [hs', decode_fail k hk]

end Rend

namespace Rend

theorem mcStore_other (now : Nat) (s : Store) (k : SetKind) (c : SetCmd) (key : Bytes) (h : key ≠ c.key) :
    (mcStore now s k c).1.look now key = s.look now key := by
  cases hl : s.look now c.key <;> cases k <;> simp [mcStore, hl, Store.look_set_other _ _ _ _ _ h]

/-- Which L1 operation accompanies which L2 operation (main port and batch port). -/
inductive Pairing : SetKind → SetKind → Prop where
  | set_set : Pairing .set .set
  | set_replace : Pairing .set .replace
  | add_add : Pairing .add .add
  | add_replace : Pairing .add .replace
  | replace_replace : Pairing .replace .replace
  | append_append : Pairing .append .append
  | prepend_prepend : Pairing .prepend .prepend

theorem outlives_refl (a : Item) : Outlives a a := by
  unfold Outlives
  by_cases h : a.deadline = 0
  · exact Or.inl h
  · exact Or.inr ⟨h, Nat.le_refl _⟩

/-- A successful L2 store-type operation followed by the paired L1 operation keeps the invariant. -/
theorem inv_store (now : Nat) (w : World) (k k1 : SetKind) (c : SetCmd) (hp : Pairing k k1)
    (hinv : CacheInv now w) (hok : (mcStore now w.l2 k c).2 = true) :
    CacheInv now { l1 := (mcStore now w.l1 k1 c).1, l2 := (mcStore now w.l2 k c).1 } := by
  intro key a ha
  by_cases hk : key = c.key
  · subst hk
    simp only at ha ⊢
    -- what L1 and L2 held for this key
    cases h1 : w.l1.look now c.key with
    | none =>
      cases h2 : w.l2.look now c.key with
      | none =>
        cases hp <;> simp_all [mcStore, Store.look_set_same, newItem]
        all_goals (obtain ⟨hl, rfl⟩ := ha; exact ⟨_, ⟨hl, rfl⟩, rfl, rfl, outlives_refl _⟩)
      | some b =>
        cases hp <;> simp_all [mcStore, Store.look_set_same, newItem]
        all_goals (obtain ⟨hl, rfl⟩ := ha; exact ⟨_, ⟨hl, rfl⟩, rfl, rfl, outlives_refl _⟩)
    | some a1 =>
      obtain ⟨b, hb, hd, hf, ho⟩ := hinv c.key a1 h1
      have hbl : b.live now = true := (look_some.mp hb).2
      cases hp <;> simp_all [mcStore, Store.look_set_same, newItem]
      all_goals first
        | (obtain ⟨hl, rfl⟩ := ha; exact ⟨_, ⟨hl, rfl⟩, rfl, rfl, outlives_refl _⟩)
        | (obtain ⟨hl, rfl⟩ := ha
           refine ⟨_, ⟨?_, rfl⟩, rfl, rfl, ?_⟩
           · simpa [Item.live] using hbl
           · simpa [Outlives] using ho)
  · simp only at ha ⊢
    rw [mcStore_other _ _ _ _ _ hk] at ha ⊢
    exact hinv key a ha

end Rend

namespace Rend

/-- `andThen` when the handler call neither panics nor crashes and emits nothing. -/
theorem eval_andThen_of {α β} (now : Nat) (p : OProg (HRes α)) (f : HRes α → OProg (HRes β)) (w : World) (tk : List Bytes)
    (r : HRes α) (w1 : World) (tk1 : List Bytes) (hp : p.eval now w tk = (r, [], w1, tk1))
    (h1 : r ≠ .error .panic) (h2 : r ≠ .error .crash) :
    (andThen p f).eval now w tk = (f r).eval now w1 tk1 := by
  unfold andThen
  rw [Prog.eval_bind, hp]
  simp only [List.nil_append]

theorem eval_andThen_ev {α β} (now : Nat) (p : OProg (HRes α)) (f : HRes α → OProg (HRes β)) (w : World) (tk : List Bytes)
    (r : HRes α) (evs : List OEv) (w1 : World) (tk1 : List Bytes) (hp : p.eval now w tk = (r, evs, w1, tk1))
    (h1 : r ≠ .error .panic) (h2 : r ≠ .error .crash) :
    (andThen p f).eval now w tk =
      (((f r).eval now w1 tk1).1, evs ++ ((f r).eval now w1 tk1).2.1, ((f r).eval now w1 tk1).2.2) := by
  unfold andThen
  rw [Prog.eval_bind, hp]
  simp only

theorem std_store_res_ne (k : SetKind) (b : Bool) :
    (if b then (.ok () : HRes Unit) else .error (.app (missErr k))) ≠ .error .panic ∧
    (if b then (.ok () : HRes Unit) else .error (.app (missErr k))) ≠ .error .crash := by
  cases b <;> simp

/-- A store-type handler call followed by a continuation. -/
theorem eval_andThen_store {β} (now : Nat) (t : Tier) (k : SetKind) (c : SetCmd) (f : HRes Unit → OProg (HRes β))
    (w : World) (tk : List Bytes) :
    (andThen (Std.store t k c) f).eval now w tk =
      (f (if (mcStore now (w.get t) k c).2 then .ok () else .error (.app (missErr k)))).eval now
        (w.put t (mcStore now (w.get t) k c).1) tk :=
  eval_andThen_of now _ f w tk _ _ _ (eval_std_store now t k c w tk)
    (std_store_res_ne k _).1 (std_store_res_ne k _).2

@[simp] theorem eval_reply (now : Nat) (e : REv) (w : World) (tk : List Bytes) :
    (reply e).eval now w tk = (.ok (), [.resp e], w, tk) := by
  simp [reply, respond, Prog.eval_bind]

/-- What a successful / failed store command looks like to the client. -/
def StoreOutcome (k : SetKind) (c : SetCmd) (ok : Bool) (res : HRes Unit) (evs : List OEv) : Prop :=
  if ok then res = .ok () ∧ evs = [.resp (.stored k c.opq c.quiet)]
  else (∃ e, res = .error (.app e)) ∧ evs = []

/-- The main-port orchestrator on a store-type command: L2 becomes what the specification says,
    the reply is the specification's, and the cache invariant is kept. -/
theorem L1L2_store_refines (now : Nat) (w : World) (tk : List Bytes) (k : SetKind) (c : SetCmd)
    (hinv : CacheInv now w) :
    let r := (L1L2.step (Std.handler .l1) (Std.handler .l2) (.store k c)).eval now w tk
    r.2.2.1.l2 = (mcStore now w.l2 k c).1 ∧ CacheInv now r.2.2.1 ∧
      StoreOutcome k c (mcStore now w.l2 k c).2 r.1 r.2.1 ∧ r.2.2.2 = tk := by
  have hfail : (mcStore now w.l2 k c).2 = false → (mcStore now w.l2 k c).1 = w.l2 := by
    intro h
    cases hl : w.l2.look now c.key <;> cases k <;> simp_all [mcStore]
  have hw : ∀ s : Store, ({ w with l2 := s } : World) = w.put .l2 s := fun _ => rfl
  cases hok : (mcStore now w.l2 k c).2 with
  | false =>
    have h2 := hfail hok
    cases k <;>
      simp only [L1L2.step, L1L2.set, L1L2.add, L1L2.replace, L1L2.pend, Std.handler, eval_andThen_store, World.get_l2,
        hok, Bool.false_eq_true, if_false, Prog.eval_pure, StoreOutcome, h2] <;>
      (have hself : w.put .l2 w.l2 = w := by cases w; rfl
       rw [hself]
       refine ⟨rfl, hinv, ?_, ?_⟩ <;> simp)
  | true =>
    -- by the invariant, an `add` that succeeded on L2 succeeds on L1 as well
    have hadd : k = .add → (mcStore now w.l1 .add c).2 = true := by
      intro hk; subst hk
      cases h1 : w.l1.look now c.key with
      | none => simp [mcStore, h1]
      | some a =>
        obtain ⟨b, hb, _⟩ := hinv c.key a h1
        simp [mcStore, hb] at hok
    have key : ((L1L2.step (Std.handler .l1) (Std.handler .l2) (.store k c)).eval now w tk) =
        (.ok (), [.resp (.stored k c.opq c.quiet)],
         { l1 := (mcStore now w.l1 k c).1, l2 := (mcStore now w.l2 k c).1 }, tk) := by
      have hwp : ∀ a b : Store, (w.put .l2 a).put .l1 b = { l1 := b, l2 := a } := fun _ _ => rfl
      cases k with
      | set =>
        have h1 : (mcStore now w.l1 .set c).2 = true := by simp [mcStore]
        simp only [L1L2.step, L1L2.set, Std.handler, eval_andThen_store, World.get_l2, World.get_l1, World.l1_put_l2,
          hok, h1, if_true, eval_reply, hwp]
      | add =>
        have h1 := hadd rfl
        simp only [L1L2.step, L1L2.add, Std.handler, eval_andThen_store, World.get_l2, World.get_l1, World.l1_put_l2,
          hok, h1, if_true, eval_reply, hwp]
      | replace =>
        by_cases h1 : (mcStore now w.l1 .replace c).2 = true
        · simp [L1L2.step, L1L2.replace, Std.handler, eval_andThen_store, hok, h1, isErr, hwp]
        · simp [L1L2.step, L1L2.replace, Std.handler, eval_andThen_store, hok, h1, isErr, missErr, hwp]
      | append =>
        by_cases h1 : (mcStore now w.l1 .append c).2 = true
        · simp [L1L2.step, L1L2.pend, Std.handler, eval_andThen_store, hok, h1, isErr, hwp]
        · simp [L1L2.step, L1L2.pend, Std.handler, eval_andThen_store, hok, h1, isErr, missErr, hwp]
      | prepend =>
        by_cases h1 : (mcStore now w.l1 .prepend c).2 = true
        · simp [L1L2.step, L1L2.pend, Std.handler, eval_andThen_store, hok, h1, isErr, hwp]
        · simp [L1L2.step, L1L2.pend, Std.handler, eval_andThen_store, hok, h1, isErr, missErr, hwp]
    rw [key]
    refine ⟨rfl, ?_, by simp [StoreOutcome, hok], rfl⟩
    have hp : Pairing k k := by cases k <;> constructor
    exact inv_store now w k k c hp hinv hok

end Rend

namespace Rend

/-! ### delete / touch / get-and-touch -/

/-- (new store, found) of `delete` on the reference map. -/
def mcDelete (now : Nat) (s : Store) (key : Bytes) : Store × Bool :=
  match s.look now key with
  | some _ => (s.set key none, true)
  | none => (s, false)

/-- (new store, found) of `touch` on the reference map. -/
def mcTouch (now : Nat) (s : Store) (key : Bytes) (exptime : Nat) : Store × Bool :=
  match s.look now key with
  | some it => (s.set key (some { it with deadline := deadlineOf now exptime }), true)
  | none => (s, false)

theorem mc_exec_delete (now : Nat) (s : Store) (key : Bytes) :
    Mc.exec now s { op := .delete, key := key } =
      ((mcDelete now s key).1, if (mcDelete now s key).2 then .ok else .status stNotFound) := by
  cases h : s.look now key <;> simp [Mc.exec, mcDelete, h]

theorem mc_exec_touch (now : Nat) (s : Store) (key : Bytes) (e : Nat) :
    Mc.exec now s { op := .touch, key := key, exptime := e } =
      ((mcTouch now s key e).1, if (mcTouch now s key e).2 then .ok else .status stNotFound) := by
  cases h : s.look now key <;> simp [Mc.exec, mcTouch, h]

theorem decode_notFound : decodeError stNotFound = some .keyNotFound := by decide

theorem eval_std_delete (now : Nat) (t : Tier) (c : KeyCmd) (w : World) (tk : List Bytes) :
    ((Std.handler (ε := OEv) t).delete c).eval now w tk =
      (if (mcDelete now (w.get t) c.key).2 then .ok () else .error (.app .keyNotFound), [],
       w.put t (mcDelete now (w.get t) c.key).1, tk) := by
  simp only [Std.handler, Std.simple, Prog.eval_bind, Prog.eval_req, mc_exec_delete]
  by_cases h : (mcDelete now (w.get t) c.key).2 = true
  · simp [h]
  · simp [h, decode_notFound]

theorem eval_std_touch (now : Nat) (t : Tier) (c : KeyCmd) (w : World) (tk : List Bytes) :
    ((Std.handler (ε := OEv) t).touch c).eval now w tk =
      (if (mcTouch now (w.get t) c.key c.exptime).2 then .ok () else .error (.app .keyNotFound), [],
       w.put t (mcTouch now (w.get t) c.key c.exptime).1, tk) := by
  simp only [Std.handler, Std.simple, Prog.eval_bind, Prog.eval_req, mc_exec_touch]
  by_cases h : (mcTouch now (w.get t) c.key c.exptime).2 = true
  · simp [h]
  · simp [h, decode_notFound]

theorem res_ne_panic (b : Bool) (e : Err) :
    (if b then (.ok () : HRes Unit) else .error (.app e)) ≠ .error .panic ∧
    (if b then (.ok () : HRes Unit) else .error (.app e)) ≠ .error .crash := by
  cases b <;> simp

theorem mcDelete_other (now : Nat) (s : Store) (key k' : Bytes) (h : k' ≠ key) :
    (mcDelete now s key).1.look now k' = s.look now k' := by
  cases hl : s.look now key <;> simp [mcDelete, hl, Store.look_set_other _ _ _ _ _ h]

theorem mcTouch_other (now : Nat) (s : Store) (key k' : Bytes) (e : Nat) (h : k' ≠ key) :
    (mcTouch now s key e).1.look now k' = s.look now k' := by
  cases hl : s.look now key <;> simp [mcTouch, hl, Store.look_set_other _ _ _ _ _ h]

/-- What a key-only command (delete / touch) looks like to the client. -/
def KeyOutcome (ev : REv) (ok : Bool) (res : HRes Unit) (evs : List OEv) : Prop :=
  if ok then res = .ok () ∧ evs = [.resp ev] else (∃ e, res = .error (.app e)) ∧ evs = []

theorem L1L2_delete_refines (now : Nat) (w : World) (tk : List Bytes) (c : KeyCmd) (hinv : CacheInv now w) :
    let r := (L1L2.step (Std.handler .l1) (Std.handler .l2) (.delete c)).eval now w tk
    r.2.2.1.l2 = (mcDelete now w.l2 c.key).1 ∧ CacheInv now r.2.2.1 ∧
      KeyOutcome (.deleted c.opq) (mcDelete now w.l2 c.key).2 r.1 r.2.1 := by
  have hwp : ∀ a b : Store, (w.put .l2 a).put .l1 b = { l1 := b, l2 := a } := fun _ _ => rfl
  have hself : w.put .l2 w.l2 = w := by cases w; rfl
  simp only [L1L2.step, L1L2.delete]
  rw [eval_andThen_of now _ _ w tk _ _ _ (eval_std_delete now .l2 c w tk) (res_ne_panic _ _).1 (res_ne_panic _ _).2]
  cases h2 : w.l2.look now c.key with
  | none =>
    simp [mcDelete, h2, KeyOutcome, hself]
    exact hinv
  | some b =>
    simp only [mcDelete, h2, World.get_l2, if_true]
    rw [eval_andThen_of now _ _ _ tk _ _ _ (eval_std_delete now .l1 c _ tk) (res_ne_panic _ _).1 (res_ne_panic _ _).2]
    have hinv' : CacheInv now { l1 := (mcDelete now w.l1 c.key).1, l2 := w.l2.set c.key none } := by
      intro key a ha
      by_cases hk : key = c.key
      · subst hk
        simp only at ha
        cases h1 : w.l1.look now c.key <;> simp [mcDelete, h1, Store.look_set_none] at ha
      · simp only at ha ⊢
        rw [mcDelete_other _ _ _ _ hk] at ha
        rw [Store.look_set_other _ _ _ _ _ hk]
        exact hinv key a ha
    by_cases h1 : (mcDelete now w.l1 c.key).2 = true
    · simp [h1, isErr, hwp, KeyOutcome]; exact hinv'
    · simp [h1, isErr, hwp, KeyOutcome]; exact hinv'

end Rend

namespace Rend

theorem live_deadline (now : Nat) (a : Item) (d : Nat) : ({ a with deadline := d } : Item).live now = (d == 0 || decide (now < d)) := rfl

/-- After both tiers were touched to the same new deadline the invariant holds for that key. -/
theorem inv_touch (now : Nat) (w : World) (key : Bytes) (e : Nat) (hinv : CacheInv now w) :
    CacheInv now { l1 := (mcTouch now w.l1 key e).1, l2 := (mcTouch now w.l2 key e).1 } := by
  intro k a ha
  by_cases hk : k = key
  · subst hk
    simp only at ha ⊢
    cases h1 : w.l1.look now k with
    | none => simp [mcTouch, h1] at ha
    | some a1 =>
      obtain ⟨b, hb, hd, hf, ho⟩ := hinv k a1 h1
      simp only [mcTouch, h1, hb, Store.look_set_same] at ha ⊢
      split at ha
      · rename_i hl
        simp only [Option.some.injEq] at ha
        subst ha
        have hl2 : ({ b with deadline := deadlineOf now e } : Item).live now = true := by
          rw [live_deadline] at hl ⊢; exact hl
        simp only [hl2, if_true]
        refine ⟨_, rfl, hd, hf, ?_⟩
        unfold Outlives
        by_cases hz : deadlineOf now e = 0
        · exact Or.inl hz
        · exact Or.inr ⟨hz, Nat.le_refl _⟩
      · simp at ha
  · simp only at ha ⊢
    rw [mcTouch_other _ _ _ _ _ hk] at ha ⊢
    exact hinv k a ha

theorem L1L2_touch_refines (now : Nat) (w : World) (tk : List Bytes) (c : KeyCmd) (hinv : CacheInv now w) :
    let r := (L1L2.step (Std.handler .l1) (Std.handler .l2) (.touch c)).eval now w tk
    r.2.2.1.l2 = (mcTouch now w.l2 c.key c.exptime).1 ∧ CacheInv now r.2.2.1 ∧
      KeyOutcome (.touched c.opq) (mcTouch now w.l2 c.key c.exptime).2 r.1 r.2.1 := by
  have hwp : ∀ a b : Store, (w.put .l2 a).put .l1 b = { l1 := b, l2 := a } := fun _ _ => rfl
  have hself : w.put .l2 w.l2 = w := by cases w; rfl
  simp only [L1L2.step, L1L2.touch]
  rw [eval_andThen_of now _ _ w tk _ _ _ (eval_std_touch now .l2 c w tk) (res_ne_panic _ _).1 (res_ne_panic _ _).2]
  by_cases h2 : (mcTouch now w.l2 c.key c.exptime).2 = true
  · have hinv' := inv_touch now w c.key c.exptime hinv
    simp only [h2, World.get_l2, if_true]
    rw [eval_andThen_of now _ _ _ tk _ _ _ (eval_std_touch now .l1 c _ tk) (res_ne_panic _ _).1 (res_ne_panic _ _).2]
    by_cases h1 : (mcTouch now w.l1 c.key c.exptime).2 = true
    · simp [h1, isErr, hwp, KeyOutcome]; exact hinv'
    · simp [h1, isErr, hwp, KeyOutcome]; exact hinv'
  · have hsame : (mcTouch now w.l2 c.key c.exptime).1 = w.l2 := by
      cases hl : w.l2.look now c.key <;> simp_all [mcTouch]
    simp [h2, KeyOutcome, hsame, hself]
    exact hinv

end Rend

namespace Rend

@[simp] theorem World.put_get_self (w : World) (t : Tier) : w.put t (w.get t) = w := by
  cases t <;> cases w <;> rfl

theorem mc_exec_gat (now : Nat) (s : Store) (key : Bytes) (e : Nat) :
    Mc.exec now s { op := .gat, key := key, exptime := e } =
      match s.look now key with
      | some it => ((mcTouch now s key e).1, .hit it.flags 0 it.data)
      | none => (s, .status stNotFound) := by
  cases h : s.look now key <;> simp [Mc.exec, mcTouch, h]

theorem eval_std_gat (now : Nat) (t : Tier) (c : KeyCmd) (w : World) (tk : List Bytes) :
    ((Std.handler (ε := OEv) t).gat c).eval now w tk =
      match (w.get t).look now c.key with
      | some it => (.ok { key := c.key, data := it.data, opq := c.opq, flags := it.flags }, [],
                    w.put t (mcTouch now (w.get t) c.key c.exptime).1, tk)
      | none => (.ok { key := c.key, opq := c.opq, miss := true }, [], w, tk) := by
  simp only [Std.handler, Std.gat, Prog.eval_bind, Prog.eval_req, mc_exec_gat]
  cases h : (w.get t).look now c.key <;> simp [Std.getLocal, decode_notFound]

/-- What a get-and-touch looks like to the client, against what L2 held. -/
def GatOutcome (c : KeyCmd) (held : Option Item) (res : HRes Unit) (evs : List OEv) : Prop :=
  res = .ok () ∧ ∃ r : GetResp, evs = [.resp (.gat r)] ∧ r.opq = c.opq ∧ r.key = c.key ∧
    match held with
    | some b => r.miss = false ∧ r.flags = b.flags ∧ r.data = b.data
    | none => r.miss = true

theorem L1L2_gat_refines (now : Nat) (w : World) (tk : List Bytes) (c : KeyCmd) (hinv : CacheInv now w) :
    let r := (L1L2.step (Std.handler .l1) (Std.handler .l2) (.gat c)).eval now w tk
    r.2.2.1.l2 = (mcTouch now w.l2 c.key c.exptime).1 ∧ CacheInv now r.2.2.1 ∧
      GatOutcome c (w.l2.look now c.key) r.1 r.2.1 := by
  have hwp : ∀ a b : Store, (w.put .l2 a).put .l1 b = { l1 := b, l2 := a } := fun _ _ => rfl
  have hwp' : ∀ a b : Store, (w.put .l1 a).put .l2 b = { l1 := a, l2 := b } := fun _ _ => rfl
  have okne : ∀ x : GetResp, (Except.ok x : HRes GetResp) ≠ .error .panic ∧ (Except.ok x : HRes GetResp) ≠ .error .crash :=
    fun _ => ⟨by simp, by simp⟩
  simp only [L1L2.step, L1L2.gat]
  cases h1 : w.l1.look now c.key with
  | some a =>
    obtain ⟨b, hb, hd, hf, ho⟩ := hinv c.key a h1
    have e1 := eval_std_gat now .l1 c w tk
    simp only [World.get_l1, h1] at e1
    rw [eval_andThen_of now _ _ w tk _ _ _ e1 (okne _).1 (okne _).2]
    simp only [Bool.false_eq_true, if_false]
    have e2 := eval_std_touch now .l2 { key := c.key, exptime := c.exptime } (w.put .l1 (mcTouch now w.l1 c.key c.exptime).1) tk
    have h2ok : (mcTouch now w.l2 c.key c.exptime).2 = true := by simp [mcTouch, hb]
    simp only [World.get_l2, World.l2_put_l1, h2ok, if_true] at e2
    rw [eval_andThen_of now _ _ _ tk _ _ _ e2 (by simp) (by simp)]
    simp only [eval_reply, hwp']
    refine ⟨?_, inv_touch now w c.key c.exptime hinv, ?_⟩
    · first | rfl | trivial
    · simp [GatOutcome, hb, hf, hd]
  | none =>
    have e1 := eval_std_gat now .l1 c w tk
    simp only [World.get_l1, h1] at e1
    rw [eval_andThen_of now _ _ w tk _ _ _ e1 (okne _).1 (okne _).2]
    simp only [if_true]
    have e2 := eval_std_gat now .l2 c w tk
    cases h2 : w.l2.look now c.key with
    | none =>
      simp only [World.get_l2, h2] at e2
      rw [eval_andThen_of now _ _ w tk _ _ _ e2 (okne _).1 (okne _).2]
      have hsame : (mcTouch now w.l2 c.key c.exptime).1 = w.l2 := by simp [mcTouch, h2]
      simp only [if_true, eval_reply, hsame]
      refine ⟨?_, hinv, ?_⟩
      · first | rfl | trivial
      · simp [GatOutcome]
    | some b =>
      simp only [World.get_l2, h2] at e2
      rw [eval_andThen_of now _ _ w tk _ _ _ e2 (okne _).1 (okne _).2]
      simp only [Bool.false_eq_true, if_false]
      -- the L1 add of L2's value with the new expiry succeeds (L1 does not hold the key)
      have hadd : (mcStore now w.l1 .add { key := c.key, exptime := c.exptime, flags := b.flags, data := b.data }).2 = true := by
        simp [mcStore, h1]
      simp only [Std.handler]
      rw [eval_andThen_store]
      simp only [World.get_l1, World.l1_put_l2, hadd, if_true, isErr, hwp, Bool.false_eq_true, if_false, eval_reply]
      refine ⟨?_, ?_, ?_⟩
      · first | rfl | trivial | simp
      · -- invariant: both tiers now hold L2's value with the new deadline
        intro key a ha
        by_cases hk : key = c.key
        · subst hk
          simp only [mcStore, h1, newItem, mcTouch, h2] at ha ⊢
          rw [Store.look_set_same] at ha ⊢
          split at ha
          · rename_i hl
            simp only [Option.some.injEq] at ha
            subst ha
            have hl2 : ({ b with deadline := deadlineOf now c.exptime } : Item).live now = true := by
              rw [live_deadline]; exact hl
            simp only [hl2, if_true]
            refine ⟨_, rfl, rfl, rfl, ?_⟩
            unfold Outlives
            by_cases hz : deadlineOf now c.exptime = 0
            · exact Or.inl hz
            · exact Or.inr ⟨hz, Nat.le_refl _⟩
          · simp at ha
        · simp only at ha ⊢
          rw [mcStore_other _ _ _ _ _ hk] at ha
          rw [mcTouch_other _ _ _ _ _ hk]
          exact hinv key a ha
      · simp [GatOutcome]

end Rend

namespace Rend

/-! ### get -/

/-- The response of the pass-through handler for one key against store `s`. -/
def stdGetResp (now : Nat) (s : Store) (withExp : Bool) (g : GetKey) : GetResp :=
  match s.look now g.key with
  | some it => { key := g.key, data := it.data, opq := g.opq, flags := it.flags,
                 exptime := if withExp then remaining now it else 0, miss := false, quiet := g.quiet }
  | none => { key := g.key, opq := g.opq, miss := true, quiet := g.quiet }

theorem eval_std_getLoop_get (now : Nat) (t : Tier) (w : World) (tk : List Bytes) : ∀ ks : List GetKey,
    (Std.getLoop (ε := OEv) t .get ks).eval now w tk = ((ks.map (stdGetResp now (w.get t) false), none), [], w, tk) := by
  intro ks
  induction ks with
  | nil => simp [Std.getLoop]
  | cons g rest ih =>
    unfold Std.getLoop
    simp only [Prog.eval_bind, Prog.eval_req, Mc.exec]
    cases h : (w.get t).look now g.key with
    | none => simp [Std.getLocal, decode_notFound, ih, stdGetResp, h, Prog.eval_bind]
    | some it => simp [Std.getLocal, ih, stdGetResp, h, Prog.eval_bind]

theorem eval_std_getLoop_gete (now : Nat) (t : Tier) (w : World) (tk : List Bytes) : ∀ ks : List GetKey,
    (Std.getLoop (ε := OEv) t .gete ks).eval now w tk = ((ks.map (stdGetResp now (w.get t) true), none), [], w, tk) := by
  intro ks
  induction ks with
  | nil => simp [Std.getLoop]
  | cons g rest ih =>
    unfold Std.getLoop
    simp only [Prog.eval_bind, Prog.eval_req, Mc.exec]
    cases h : (w.get t).look now g.key with
    | none => simp [Std.getLocal, decode_notFound, ih, stdGetResp, h, Prog.eval_bind]
    | some it => simp [Std.getLocal, ih, stdGetResp, h, Prog.eval_bind]

theorem eval_emitGets (now : Nat) (w : World) (tk : List Bytes) : ∀ rs : List GetResp,
    (emitGets rs).eval now w tk = ((), rs.map (fun r => OEv.resp (.get r)), w, tk) := by
  intro rs
  induction rs with
  | nil => rfl
  | cons r rs ih => simp [emitGets, respond, Prog.eval_bind, ih]

/-- The L1 copy written by a back-filling get: L2's value with L2's remaining lifetime. -/
def backfillItem (now : Nat) (b : Item) : Item := ⟨b.data, b.flags, deadlineOf now (remaining now b)⟩

theorem backfill_outlives (now : Nat) (b : Item) (hb : b.live now = true) : Outlives b (backfillItem now b) := by
  unfold Outlives backfillItem remaining deadlineOf
  simp only [Item.live, Bool.or_eq_true, beq_iff_eq, decide_eq_true_eq] at hb
  by_cases hz : b.deadline = 0
  · exact Or.inl hz
  · right
    simp only [hz, if_false]
    have hlt : now < b.deadline := by rcases hb with h | h; exact absurd h hz; exact h
    have hne : b.deadline - now ≠ 0 := by omega
    simp only [hne, if_false]
    split
    · constructor <;> omega
    · constructor <;> omega

/-- One back-fill step keeps the invariant. -/
theorem inv_backfill_step (now : Nat) (w : World) (key : Bytes) (b : Item) (hinv : CacheInv now w)
    (hb : w.l2.look now key = some b) :
    CacheInv now { w with l1 := w.l1.set key (some (backfillItem now b)) } := by
  intro k a ha
  by_cases hk : k = key
  · subst hk
    simp only [Store.look_set_same] at ha
    split at ha
    · simp only [Option.some.injEq] at ha
      subst ha
      exact ⟨b, hb, rfl, rfl, backfill_outlives now b (look_some.mp hb).2⟩
    · simp at ha
  · simp only [Store.look_set_other _ _ _ _ _ hk] at ha
    exact hinv k a ha

end Rend

namespace Rend

theorem Std.handler_store {ε} (t : Tier) : (Std.handler (ε := ε) t).store = Std.store t := rfl

/-- What the client sees for one key of a get. -/
def fwdResp (r : GetResp) : GetResp :=
  { key := r.key, flags := r.flags, data := r.data, miss := r.miss, opq := r.opq, quiet := r.quiet }

/-- The back-fill loop over L2's answers: every answer is forwarded, L2 is untouched, the
    invariant is kept. -/
theorem eval_backfill (now : Nat) (tk : List Bytes) : ∀ (ks : List GetKey) (w : World), CacheInv now w →
    ∃ w', (L1L2.backfill (Std.handler .l1) (ks.map (stdGetResp now w.l2 true))).eval now w tk =
        (.ok (), (ks.map (stdGetResp now w.l2 true)).map (fun r => OEv.resp (.get (fwdResp r))), w', tk) ∧
      w'.l2 = w.l2 ∧ CacheInv now w' := by
  intro ks
  induction ks with
  | nil => intro w hinv; exact ⟨w, by simp [L1L2.backfill], rfl, hinv⟩
  | cons g rest ih =>
    intro w hinv
    cases hb : w.l2.look now g.key with
    | none =>
      obtain ⟨w', he, hl2, hi⟩ := ih w hinv
      refine ⟨w', ?_, hl2, hi⟩
      simp only [List.map_cons, stdGetResp, hb, L1L2.backfill, if_true]
      simp [respond, Prog.eval_bind, he, fwdResp, stdGetResp]
    | some b =>
      have hinv1 := inv_backfill_step now w g.key b hinv hb
      obtain ⟨w', he, hl2, hi⟩ := ih _ hinv1
      refine ⟨w', ?_, by simpa using hl2, hi⟩
      simp only [List.map_cons, stdGetResp, hb, L1L2.backfill, Bool.false_eq_true, if_false, Std.handler_store]
      rw [eval_andThen_store]
      have hset : mcStore now w.l1 .set { key := g.key, flags := b.flags, exptime := remaining now b, data := b.data } =
          (w.l1.set g.key (some (backfillItem now b)), true) := by
        simp [mcStore, newItem, backfillItem]
      simp only [World.get_l1, hset, if_true]
      have hw : w.put .l1 (w.l1.set g.key (some (backfillItem now b))) =
          { w with l1 := w.l1.set g.key (some (backfillItem now b)) } := rfl
      rw [hw]
      simp only at he
      simp [respond, Prog.eval_bind, he, fwdResp, stdGetResp]

end Rend

namespace Rend

/-- What one answer of a get tells the client. -/
def viewOf (r : GetResp) : Bytes × Nat × Bool × Option (Nat × Bytes) :=
  (r.key, r.opq, r.quiet, if r.miss then none else some (r.flags, r.data))

/-- What the specification answers for one requested key. -/
def specView (now : Nat) (s : Store) (g : GetKey) : Bytes × Nat × Bool × Option (Nat × Bytes) :=
  (g.key, g.opq, g.quiet, (s.look now g.key).map fun it => (it.flags, it.data))

def l1Live (now : Nat) (s : Store) (g : GetKey) : Bool := (s.look now g.key).isSome

theorem splitL1_std (now : Nat) (s : Store) : ∀ ks : List GetKey,
    L1L2.splitL1 (ks.map (stdGetResp now s false)) =
      ((ks.filter (l1Live now s)).map (stdGetResp now s false), ks.filter (fun g => !l1Live now s g)) := by
  intro ks
  induction ks with
  | nil => rfl
  | cons g rest ih =>
    simp only [List.map_cons, L1L2.splitL1, ih, List.filter_cons]
    cases h : s.look now g.key with
    | none => simp [stdGetResp, l1Live, h]
    | some it => simp [stdGetResp, l1Live, h]

theorem view_hit (now : Nat) (w : World) (hinv : CacheInv now w) (g : GetKey) (h : l1Live now w.l1 g = true) :
    viewOf (stdGetResp now w.l1 false g) = specView now w.l2 g := by
  unfold l1Live at h
  cases h1 : w.l1.look now g.key with
  | none => simp [h1] at h
  | some a =>
    obtain ⟨b, hb, hd, hf, _⟩ := hinv g.key a h1
    simp [viewOf, stdGetResp, specView, h1, hb, hd, hf]

theorem view_l2 (now : Nat) (s : Store) (g : GetKey) :
    viewOf (fwdResp (stdGetResp now s true g)) = specView now s g := by
  cases h : s.look now g.key <;> simp [viewOf, fwdResp, stdGetResp, specView, h]

/-- What a get looks like to the client: one answer per requested key — in any order — then one
    terminator. -/
def GetOutcome (now : Nat) (spec : Store) (g : GetCmd) (res : HRes Unit) (evs : List OEv) : Prop :=
  res = .ok () ∧ ∃ gs : List GetResp,
    evs = gs.map (fun x => OEv.resp (.get x)) ++ [.resp (.getEnd g.noopOpaque g.noopEnd)] ∧
    (gs.map viewOf).Perm (g.keys.map (specView now spec))

theorem filter_not_empty_self {α : Type} (p : α → Bool) (l : List α)
    (h : (l.filter (fun x => !p x)).isEmpty = true) : l.filter p = l := by
  rw [List.filter_eq_self]
  intro x hx
  cases hp : p x with
  | true => rfl
  | false =>
    have : x ∈ l.filter (fun x => !p x) := List.mem_filter.mpr ⟨hx, by simp [hp]⟩
    rw [List.isEmpty_iff.mp h] at this
    simp at this

theorem L1L2_get_refines (now : Nat) (w : World) (tk : List Bytes) (g : GetCmd) (hinv : CacheInv now w) :
    let r := (L1L2.step (Std.handler .l1) (Std.handler .l2) (.get g)).eval now w tk
    r.2.2.1.l2 = w.l2 ∧ CacheInv now r.2.2.1 ∧ GetOutcome now w.l2 g r.1 r.2.1 := by
  have hget1 : (Std.handler (ε := OEv) .l1).get = Std.getLoop .l1 .get := rfl
  have hgetE2 : (Std.handler (ε := OEv) .l2).getE = Std.getLoop .l2 .gete := rfl
  -- the views of the L1 hits
  have hhits : ((g.keys.filter (l1Live now w.l1)).map (stdGetResp now w.l1 false)).map viewOf =
      (g.keys.filter (l1Live now w.l1)).map (specView now w.l2) := by
    rw [List.map_map]
    apply List.map_congr_left
    intro x hx
    exact view_hit now w hinv x (List.mem_filter.mp hx).2
  by_cases hemp : (g.keys.filter (fun g => !l1Live now w.l1 g)).isEmpty = true
  · have hev : (L1L2.step (Std.handler .l1) (Std.handler .l2) (.get g)).eval now w tk =
        (.ok (), ((g.keys.filter (l1Live now w.l1)).map (stdGetResp now w.l1 false)).map (fun x => OEv.resp (.get x))
          ++ [.resp (.getEnd g.noopOpaque g.noopEnd)], w, tk) := by
      simp only [L1L2.step, L1L2.get, hget1, hgetE2]
      rw [Prog.eval_bind, eval_std_getLoop_get]
      simp only [World.get_l1, splitL1_std, List.nil_append]
      rw [Prog.eval_bind, eval_emitGets]
      simp only [hemp, if_true, eval_reply]
    rw [hev]
    refine ⟨rfl, hinv, rfl, _, rfl, ?_⟩
    rw [hhits, filter_not_empty_self _ _ hemp]
  · obtain ⟨w', he, hl2, hi⟩ := eval_backfill now tk (g.keys.filter (fun g => !l1Live now w.l1 g)) w hinv
    have hev : (L1L2.step (Std.handler .l1) (Std.handler .l2) (.get g)).eval now w tk =
        (.ok (), (((g.keys.filter (l1Live now w.l1)).map (stdGetResp now w.l1 false)) ++
            ((g.keys.filter (fun g => !l1Live now w.l1 g)).map (stdGetResp now w.l2 true)).map fwdResp).map
              (fun x => OEv.resp (.get x))
          ++ [.resp (.getEnd g.noopOpaque g.noopEnd)], w', tk) := by
      simp only [L1L2.step, L1L2.get, hget1, hgetE2]
      rw [Prog.eval_bind, eval_std_getLoop_get]
      simp only [World.get_l1, splitL1_std, List.nil_append]
      rw [Prog.eval_bind, eval_emitGets]
      simp only [hemp, Bool.false_eq_true, if_false]
      rw [Prog.eval_bind, eval_std_getLoop_gete]
      simp only [World.get_l2, List.nil_append]
      rw [eval_andThen_ev _ _ _ _ _ _ _ _ _ he (by simp) (by simp)]
      simp [eval_reply, List.map_append, List.map_map, Function.comp_def]
    rw [hev]
    refine ⟨hl2, hi, rfl, _, rfl, ?_⟩
    rw [List.map_append, hhits, List.map_map, List.map_map]
    have : ((viewOf ∘ fwdResp) ∘ stdGetResp now w.l2 true) = specView now w.l2 := by
      funext x; exact view_l2 now w.l2 x
    rw [this, ← List.map_append]
    exact (List.filter_append_perm _ _).map _

end Rend

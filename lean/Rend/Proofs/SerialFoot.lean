/-
  The reduction of Proofs/Serial.lean for sections with a FOOTPRINT: every backend request of a
  section addresses a key of the section's own set (a client key's derived keys under the chunking
  handler, the private keys of one connection, …), sections whose footprints meet exclude each
  other.  Every admitted schedule gives the results, events and tier contents of the sequential
  run in lock-acquisition order.  Core-only.
-/
import Rend.Proofs.Serial

namespace Rend.Conc
open Rend

/-- The request addresses a key of the set `F` (or is the key-less no-op). -/
def FootLocal (F : Bytes → Prop) : Tier → Req → Prop := fun _ r => F r.key ∨ r.op = .noop

theorem exec_otherF (now : Nat) (s : Store) (r : Req) (F : Bytes → Prop) (k' : Bytes) (h : F r.key ∨ r.op = .noop)
    (hk : ¬ F k') : (Mc.exec now s r).1 k' = s k' := by
  rcases h with h | h
  · exact exec_other now s r r.key k' (Or.inl rfl) (fun e => hk (e ▸ h))
  · unfold Mc.exec
    simp [h]

theorem exec_sameF (now : Nat) (s s' : Store) (r : Req) (F : Bytes → Prop) (h : F r.key ∨ r.op = .noop)
    (hs : ∀ k, F k → s k = s' k) :
    (Mc.exec now s r).2 = (Mc.exec now s' r).2 ∧ ∀ k, F k → (Mc.exec now s r).1 k = (Mc.exec now s' r).1 k := by
  rcases h with h | h
  · obtain ⟨a, b⟩ := exec_same now s s' r r.key (Or.inl rfl) (hs _ h)
    refine ⟨a, ?_⟩
    intro k hk
    by_cases hkr : k = r.key
    · subst hkr; exact b
    · rw [exec_other now s r r.key k (Or.inl rfl) hkr, exec_other now s' r r.key k (Or.inl rfl) hkr]
      exact hs k hk
  · unfold Mc.exec
    simp only [h]
    exact ⟨trivial, fun k hk => hs k hk⟩

theorem put_otherF (now : Nat) (w : World) (t : Tier) (r : Req) (F : Bytes → Prop) (k' : Bytes) (h : F r.key ∨ r.op = .noop)
    (hk : ¬ F k') : at' (w.put t (Mc.exec now (w.get t) r).1) k' = at' w k' := by
  cases t <;> simp only [World.put, World.get, at'] <;> rw [exec_otherF now _ r F k' h hk]

theorem put_sameF (now : Nat) (w w' : World) (t : Tier) (r : Req) (F : Bytes → Prop) (h : F r.key ∨ r.op = .noop)
    (hs : ∀ k, F k → at' w k = at' w' k) :
    (Mc.exec now (w.get t) r).2 = (Mc.exec now (w'.get t) r).2 ∧
    ∀ k, F k → at' (w.put t (Mc.exec now (w.get t) r).1) k = at' (w'.put t (Mc.exec now (w'.get t) r).1) k := by
  have h1 : ∀ k, F k → w.l1 k = w'.l1 k := fun k hk => by
    have := hs k hk; simp only [at', Prod.mk.injEq] at this; exact this.1
  have h2 : ∀ k, F k → w.l2 k = w'.l2 k := fun k hk => by
    have := hs k hk; simp only [at', Prod.mk.injEq] at this; exact this.2
  cases t <;> simp only [World.put, World.get, at', Prod.mk.injEq]
  · obtain ⟨a, b⟩ := exec_sameF now w.l1 w'.l1 r F h h1
    exact ⟨a, fun k hk => ⟨b k hk, h2 k hk⟩⟩
  · obtain ⟨a, b⟩ := exec_sameF now w.l2 w'.l2 r F h h2
    exact ⟨a, fun k hk => ⟨h1 k hk, b k hk⟩⟩

theorem eval_otherF {ε α : Type} (now : Nat) (F : Bytes → Prop) {p : Prog ε α} (hp : AllReqs (FootLocal F) p) :
    ∀ (w : World) (k' : Bytes), ¬ F k' → at' (p.eval now w []).2.2.1 k' = at' w k' := by
  induction hp with
  | ret a => intro w k' _; rfl
  | call t r f hr _ ih =>
    intro w k' hk
    simp only [Prog.eval]
    rw [ih _ _ k' hk, put_otherF now w t r F k' hr hk]
  | draw f _ ih =>
    intro w k' hk
    simp only [Prog.eval]
    exact ih _ zeros_len w k' hk
  | emit e p _ ih =>
    intro w k' hk
    simp only [Prog.eval]
    exact ih w k' hk

theorem eval_sameF {ε α : Type} (now : Nat) (F : Bytes → Prop) {p : Prog ε α} (hp : AllReqs (FootLocal F) p) :
    ∀ (w w' : World), (∀ k, F k → at' w k = at' w' k) →
      (p.eval now w []).1 = (p.eval now w' []).1 ∧ (p.eval now w []).2.1 = (p.eval now w' []).2.1 ∧
      ∀ k, F k → at' (p.eval now w []).2.2.1 k = at' (p.eval now w' []).2.2.1 k := by
  induction hp with
  | ret a => intro w w' h; exact ⟨rfl, rfl, h⟩
  | call t r f hr _ ih =>
    intro w w' h
    have hs := put_sameF now w w' t r F hr h
    simp only [Prog.eval]
    rw [hs.1]
    exact ih _ _ _ hs.2
  | draw f _ ih =>
    intro w w' h
    simp only [Prog.eval]
    exact ih _ zeros_len w w' h
  | emit e p _ ih =>
    intro w w' h
    simp only [Prog.eval]
    obtain ⟨a, b, c⟩ := ih w w' h
    exact ⟨a, by rw [b], c⟩

/-! ### connections running critical sections under a lock table -/

/-- One command under the locking wrapper: the key it works on, the stripe that key hashes to,
    and what runs between `Lock()` and `Unlock()`. -/
structure ThreadF (α : Type) where
  foot : Bytes → Prop
  stripe : Nat
  body : Prog OEv α

/-- One scheduling step.  `acq`: `Lock()` succeeds only when no other connection holds the stripe
    (exclusive locks: write locks, or any lock in single-reader mode).  `act`: the next backend
    request (answered by the backend at once), token draw or responder call of a connection inside
    its critical section.  `rel`: `Unlock()` when the section has returned. -/
inductive Step1F {α : Type} (now : Nat) (thr : Nat → ThreadF α) : Conf α → Step → Conf α → Prop where
  | acq (c : Conf α) (i : Nat) : c.ts i = .idle →
      (∀ j p evs, c.ts j = .running p evs → (thr j).stripe ≠ (thr i).stripe) →
      Step1F now thr c (.acq i) (c.set i (.running (thr i).body []))
  | call (c : Conf α) (i : Nat) (t : Tier) (r : Req) (k : Resp → Prog OEv α) (evs : List OEv) :
      c.ts i = .running (.call t r k) evs →
      Step1F now thr c (.act i)
        (Conf.set { w := c.w.put t (Mc.exec now (c.w.get t) r).1, ts := c.ts } i
          (.running (k (Mc.exec now (c.w.get t) r).2) evs))
  | emit (c : Conf α) (i : Nat) (e : OEv) (p : Prog OEv α) (evs : List OEv) :
      c.ts i = .running (.emit e p) evs → Step1F now thr c (.act i) (c.set i (.running p (evs ++ [e])))
  | draw (c : Conf α) (i : Nat) (k : Bytes → Prog OEv α) (evs : List OEv) :
      c.ts i = .running (.draw k) evs → Step1F now thr c (.act i) (c.set i (.running (k (Bytes.zeros 16)) evs))
  | rel (c : Conf α) (i : Nat) (a : α) (evs : List OEv) :
      c.ts i = .running (.ret a) evs → Step1F now thr c (.rel i) (c.set i (.done a evs))

/-- A schedule: any finite sequence of admitted steps. -/
inductive ExecF {α : Type} (now : Nat) (thr : Nat → ThreadF α) : Conf α → List Step → Conf α → Prop where
  | nil (c : Conf α) : ExecF now thr c [] c
  | cons (c c' c'' : Conf α) (s : Step) (rest : List Step) : Step1F now thr c s c' → ExecF now thr c' rest c'' →
      ExecF now thr c (s :: rest) c''

/-! ### the sequential reference -/

structure RefF (α : Type) where
  w : World
  res : Nat → Option (α × List OEv)

/-- Run command `i` whole, on the reference state. -/
def RefF.runOne {α : Type} (now : Nat) (thr : Nat → ThreadF α) (r : RefF α) (i : Nat) : RefF α :=
  { w := ((thr i).body.eval now r.w []).2.2.1,
    res := fun j => if j = i then some (((thr i).body.eval now r.w []).1, ((thr i).body.eval now r.w []).2.1) else r.res j }

/-- Run the commands one after another in the given order. -/
def seqRunF {α : Type} (now : Nat) (thr : Nat → ThreadF α) (r : RefF α) (order : List Nat) : RefF α :=
  order.foldl (RefF.runOne now thr) r

def RefF.extend {α : Type} (now : Nat) (thr : Nat → ThreadF α) (r : RefF α) : Step → RefF α
  | .acq i => r.runOne now thr i
  | _ => r

theorem foldlF_extend {α : Type} (now : Nat) (thr : Nat → ThreadF α) : ∀ (sched : List Step) (r : RefF α),
    sched.foldl (RefF.extend now thr) r = seqRunF now thr r (acqOrder sched)
  | [], r => rfl
  | .acq i :: rest, r => by
    simp only [List.foldl_cons, acqOrder, seqRunF, RefF.extend]
    exact foldlF_extend now thr rest _
  | .act i :: rest, r => by
    simp only [List.foldl_cons, acqOrder, RefF.extend]
    exact foldlF_extend now thr rest _
  | .rel i :: rest, r => by
    simp only [List.foldl_cons, acqOrder, RefF.extend]
    exact foldlF_extend now thr rest _

/-! ### the invariant -/

structure InvF {α : Type} (now : Nat) (thr : Nat → ThreadF α) (c : Conf α) (r : RefF α) : Prop where
  running : ∀ i p evs, c.ts i = .running p evs →
    AllReqs (FootLocal (thr i).foot) p ∧
    r.res i = some ((p.eval now c.w []).1, evs ++ (p.eval now c.w []).2.1) ∧
    ∀ k, (thr i).foot k → at' (p.eval now c.w []).2.2.1 k = at' r.w k
  done : ∀ i a evs, c.ts i = .done a evs → r.res i = some (a, evs)
  quiet : ∀ k, (∀ j p evs, c.ts j = .running p evs → ¬ (thr j).foot k) → at' c.w k = at' r.w k
  excl : ∀ i j p evs q evs', i ≠ j → c.ts i = .running p evs → c.ts j = .running q evs' →
    (thr i).stripe ≠ (thr j).stripe

/-- A step by connection `i` that keeps it running with program `p'` and leaves the world as it is
    for every other key. -/
theorem invF_act {α : Type} (now : Nat) (thr : Nat → ThreadF α)
    (hkey : ∀ i j k, (thr i).foot k → (thr j).foot k → (thr i).stripe = (thr j).stripe)
    (c : Conf α) (r : RefF α) (hinv : InvF now thr c r) (i : Nat) (p : Prog OEv α) (evs : List OEv)
    (hi : c.ts i = .running p evs) (w' : World) (p' : Prog OEv α) (evs' : List OEv)
    (hreq : AllReqs (FootLocal (thr i).foot) p')
    (hres : (p'.eval now w' []).1 = (p.eval now c.w []).1)
    (hevs : evs' ++ (p'.eval now w' []).2.1 = evs ++ (p.eval now c.w []).2.1)
    (hw : (p'.eval now w' []).2.2.1 = (p.eval now c.w []).2.2.1)
    (hother : ∀ k', ¬ (thr i).foot k' → at' w' k' = at' c.w k') :
    InvF now thr (Conf.set { w := w', ts := c.ts } i (.running p' evs')) r := by
  constructor
  · intro j q qevs hj
    by_cases hji : j = i
    · subst hji
      rw [set_self] at hj
      injection hj with h1 h2
      subst h1; subst h2
      obtain ⟨_, b, d⟩ := hinv.running j p evs hi
      refine ⟨hreq, ?_, ?_⟩
      · show r.res j = some ((p'.eval now w' []).1, evs' ++ (p'.eval now w' []).2.1)
        rw [hres, hevs]; exact b
      · intro k hk
        show at' (p'.eval now w' []).2.2.1 k = _
        rw [hw]; exact d k hk
    · rw [set_other _ _ _ _ hji] at hj
      have hj' : c.ts j = .running q qevs := hj
      obtain ⟨a, b, d⟩ := hinv.running j q qevs hj'
      have hs : (thr j).stripe ≠ (thr i).stripe := hinv.excl j i q qevs p evs hji hj' hi
      have hat : ∀ k, (thr j).foot k → at' w' k = at' c.w k := fun k hk => hother k (fun hik => hs (hkey j i k hk hik))
      obtain ⟨e1, e2, e3⟩ := eval_sameF now (thr j).foot a w' c.w hat
      refine ⟨a, ?_, ?_⟩
      · show r.res j = some ((q.eval now w' []).1, qevs ++ (q.eval now w' []).2.1)
        rw [e1, e2]; exact b
      · intro k hk
        show at' (q.eval now w' []).2.2.1 k = _
        rw [e3 k hk]; exact d k hk
  · intro j a aevs hj
    by_cases hji : j = i
    · subst hji; rw [set_self] at hj; cases hj
    · rw [set_other _ _ _ _ hji] at hj
      exact hinv.done j a aevs hj
  · intro k hk
    have hki : ¬ (thr i).foot k := hk i p' evs' (set_self _ _ _)
    have : ∀ j q qevs, c.ts j = .running q qevs → ¬ (thr j).foot k := by
      intro j q qevs hj
      by_cases hji : j = i
      · subst hji; exact hki
      · exact hk j q qevs (by rw [set_other _ _ _ _ hji]; exact hj)
    show at' w' k = at' r.w k
    rw [hother k hki]
    exact hinv.quiet k this
  · intro a b q qevs q' qevs' hab ha hb
    have ha' : ∃ q0 e0, c.ts a = .running q0 e0 := by
      by_cases hai : a = i
      · subst hai; exact ⟨p, evs, hi⟩
      · rw [set_other _ _ _ _ hai] at ha; exact ⟨q, qevs, ha⟩
    have hb' : ∃ q0 e0, c.ts b = .running q0 e0 := by
      by_cases hbi : b = i
      · subst hbi; exact ⟨p, evs, hi⟩
      · rw [set_other _ _ _ _ hbi] at hb; exact ⟨q', qevs', hb⟩
    obtain ⟨qa, ea, ha'⟩ := ha'
    obtain ⟨qb, eb, hb'⟩ := hb'
    exact hinv.excl a b qa ea qb eb hab ha' hb'

/-- **The invariant is kept by every admitted step.** -/
theorem invF_step {α : Type} (now : Nat) (thr : Nat → ThreadF α)
    (hbody : ∀ i, AllReqs (FootLocal (thr i).foot) (thr i).body)
    (hkey : ∀ i j k, (thr i).foot k → (thr j).foot k → (thr i).stripe = (thr j).stripe)
    (c c' : Conf α) (s : Step) (r : RefF α) (hstep : Step1F now thr c s c') (hinv : InvF now thr c r) :
    InvF now thr c' (r.extend now thr s) := by
  cases hstep with
  | acq i hidle hfree =>
    have hnokey : ∀ j p evs, c.ts j = .running p evs → ∀ k, (thr j).foot k → ¬ (thr i).foot k :=
      fun j p evs hj k hjk hik => hfree j p evs hj (hkey j i k hjk hik)
    have hat : ∀ k, (thr i).foot k → at' c.w k = at' r.w k :=
      fun k hik => hinv.quiet k (fun j p evs hj hjk => hnokey j p evs hj k hjk hik)
    obtain ⟨e1, e2, e3⟩ := eval_sameF now (thr i).foot (hbody i) c.w r.w hat
    simp only [RefF.extend]
    constructor
    · intro j q qevs hj
      by_cases hji : j = i
      · subst hji
        rw [set_self] at hj
        injection hj with h1 h2
        subst h1; subst h2
        refine ⟨hbody j, ?_, ?_⟩
        · simp only [RefF.runOne, if_true, set_w, List.nil_append]
          rw [e1, e2]
        · intro k hk
          simp only [RefF.runOne, set_w]
          exact e3 k hk
      · rw [set_other _ _ _ _ hji] at hj
        obtain ⟨a, b, d⟩ := hinv.running j q qevs hj
        refine ⟨a, ?_, ?_⟩
        · simp only [RefF.runOne, hji, if_false, set_w]
          exact b
        · intro k hk
          simp only [RefF.runOne, set_w]
          rw [eval_otherF now (thr i).foot (hbody i) r.w k (hnokey j q qevs hj k hk)]
          exact d k hk
    · intro j a aevs hj
      by_cases hji : j = i
      · subst hji; rw [set_self] at hj; cases hj
      · rw [set_other _ _ _ _ hji] at hj
        simp only [RefF.runOne, hji, if_false]
        exact hinv.done j a aevs hj
    · intro k hk
      have hki : ¬ (thr i).foot k := hk i _ _ (set_self _ _ _)
      have : ∀ j q qevs, c.ts j = .running q qevs → ¬ (thr j).foot k := by
        intro j q qevs hj
        by_cases hji : j = i
        · subst hji; exact hki
        · exact hk j q qevs (by rw [set_other _ _ _ _ hji]; exact hj)
      simp only [RefF.runOne, set_w]
      rw [eval_otherF now (thr i).foot (hbody i) r.w k hki]
      exact hinv.quiet k this
    · intro a b q qevs q' qevs' hab ha hb
      by_cases hai : a = i
      · subst hai
        have hba : b ≠ a := Ne.symm hab
        rw [set_other _ _ _ _ hba] at hb
        exact Ne.symm (hfree b q' qevs' hb)
      · rw [set_other _ _ _ _ hai] at ha
        by_cases hbi : b = i
        · subst hbi
          exact hfree a q qevs ha
        · rw [set_other _ _ _ _ hbi] at hb
          exact hinv.excl a b q qevs q' qevs' hab ha hb
  | call i t rq k evs hi =>
    obtain ⟨a, _, _⟩ := hinv.running i _ evs hi
    cases a with
    | call _ _ _ hr hk =>
      simp only [RefF.extend]
      exact invF_act now thr hkey c r hinv i _ evs hi _ _ evs (hk _) rfl rfl rfl
        (fun k' hk' => put_otherF now c.w t rq (thr i).foot k' hr hk')
  | emit i e p evs hi =>
    obtain ⟨a, _, _⟩ := hinv.running i _ evs hi
    cases a with
    | emit _ _ hp =>
      simp only [RefF.extend]
      have := invF_act now thr hkey c r hinv i _ evs hi c.w p (evs ++ [e]) hp rfl
        (by simp only [Prog.eval, List.append_assoc, List.singleton_append]) rfl (fun _ _ => rfl)
      exact this
  | draw i k evs hi =>
    obtain ⟨a, _, _⟩ := hinv.running i _ evs hi
    cases a with
    | draw _ hk =>
      simp only [RefF.extend]
      have := invF_act now thr hkey c r hinv i _ evs hi c.w (k (Bytes.zeros 16)) evs (hk _ zeros_len) rfl rfl rfl
        (fun _ _ => rfl)
      exact this
  | rel i a evs hi =>
    obtain ⟨_, b, d⟩ := hinv.running i _ evs hi
    simp only [RefF.extend]
    constructor
    · intro j q qevs hj
      by_cases hji : j = i
      · subst hji; rw [set_self] at hj; cases hj
      · rw [set_other _ _ _ _ hji] at hj
        exact hinv.running j q qevs hj
    · intro j a' aevs hj
      by_cases hji : j = i
      · subst hji
        rw [set_self] at hj
        injection hj with h1 h2
        subst h1; subst h2
        simpa [Prog.eval] using b
      · rw [set_other _ _ _ _ hji] at hj
        exact hinv.done j a' aevs hj
    · intro k hk
      show at' c.w k = at' r.w k
      by_cases hki : (thr i).foot k
      · simpa [Prog.eval] using d k hki
      · apply hinv.quiet k
        intro j q qevs hj
        by_cases hji : j = i
        · subst hji; exact hki
        · exact hk j q qevs (by rw [set_other _ _ _ _ hji]; exact hj)
    · intro a' b' q qevs q' qevs' hab ha hb
      by_cases hai : a' = i
      · subst hai; rw [set_self] at ha; cases ha
      · by_cases hbi : b' = i
        · subst hbi; rw [set_self] at hb; cases hb
        · rw [set_other _ _ _ _ hai] at ha
          rw [set_other _ _ _ _ hbi] at hb
          exact hinv.excl a' b' q qevs q' qevs' hab ha hb

theorem invF_exec {α : Type} (now : Nat) (thr : Nat → ThreadF α)
    (hbody : ∀ i, AllReqs (FootLocal (thr i).foot) (thr i).body)
    (hkey : ∀ i j k, (thr i).foot k → (thr j).foot k → (thr i).stripe = (thr j).stripe)
    (c c' : Conf α) (sched : List Step) (hex : ExecF now thr c sched c') :
    ∀ r, InvF now thr c r → InvF now thr c' (sched.foldl (RefF.extend now thr) r) := by
  induction hex with
  | nil c => intro r h; exact h
  | cons c c1 c2 s rest hs _ ih =>
    intro r h
    exact ih _ (invF_step now thr hbody hkey c c1 s r hs h)


theorem invF_init {α : Type} (now : Nat) (thr : Nat → ThreadF α) (w : World) :
    InvF now thr (Conf.init w) { w := w, res := fun _ => none } := by
  constructor
  · intro i p evs h; cases h
  · intro i a evs h; cases h
  · intro k _; rfl
  · intro i j p evs q evs' _ h; cases h

/-- **Serializability of critical sections.**  For every schedule admitted by the lock table that
    ends with no connection inside a critical section: the content of both tiers is what running
    the commands one after another, in the order of their lock acquisitions, leaves; and every
    finished command returned and emitted exactly what it does in that sequential run. -/
theorem serializableF {α : Type} (now : Nat) (thr : Nat → ThreadF α)
    (hbody : ∀ i, AllReqs (FootLocal (thr i).foot) (thr i).body)
    (hkey : ∀ i j k, (thr i).foot k → (thr j).foot k → (thr i).stripe = (thr j).stripe)
    (w : World) (sched : List Step) (c' : Conf α) (hex : ExecF now thr (Conf.init w) sched c')
    (hquiet : ∀ i p evs, c'.ts i ≠ .running p evs) :
    c'.w = (seqRunF now thr { w := w, res := fun _ => none } (acqOrder sched)).w ∧
    ∀ i a evs, c'.ts i = .done a evs →
      (seqRunF now thr { w := w, res := fun _ => none } (acqOrder sched)).res i = some (a, evs) := by
  have h := invF_exec now thr hbody hkey _ _ sched hex _ (invF_init now thr w)
  rw [foldlF_extend] at h
  refine ⟨world_ext _ _ (fun k => h.quiet k (fun j p evs hj => absurd hj (hquiet j p evs))), ?_⟩
  intro i a evs hi
  exact h.done i a evs hi

end Rend.Conc

namespace Rend.Conc
open Rend

/-! ### the acquisition order has no repetitions; what the sequential run records -/

theorem stepF_not_idle {α : Type} (now : Nat) (thr : Nat → ThreadF α) (c c' : Conf α) (s : Step)
    (h : Step1F now thr c s c') (j : Nat) (hj : c.ts j ≠ .idle) : c'.ts j ≠ .idle := by
  have key : ∀ (c0 : Conf α) (i : Nat) (st : TState α), c0.ts = c.ts → st ≠ .idle → (c0.set i st).ts j ≠ .idle := by
    intro c0 i st h0 hst
    by_cases hji : j = i
    · subst hji; rw [set_self]; exact hst
    · rw [set_other _ _ _ _ hji, h0]; exact hj
  cases h with
  | acq i _ _ => exact key c i _ rfl (fun hh => by cases hh)
  | call i t r k evs _ => exact key _ i _ rfl (fun hh => by cases hh)
  | emit i e p evs _ => exact key c i _ rfl (fun hh => by cases hh)
  | draw i k evs _ => exact key c i _ rfl (fun hh => by cases hh)
  | rel i a evs _ => exact key c i _ rfl (fun hh => by cases hh)

theorem acqF_idle {α : Type} (now : Nat) (thr : Nat → ThreadF α) (c c' : Conf α) (i : Nat)
    (h : Step1F now thr c (.acq i) c') : c.ts i = .idle ∧ c'.ts i ≠ .idle := by
  cases h with
  | acq _ hidle _ => exact ⟨hidle, by rw [set_self]; intro hh; cases hh⟩

/-- A command obtains its lock once; whoever obtained it is not idle afterwards. -/
theorem acqOrderF_nodup {α : Type} (now : Nat) (thr : Nat → ThreadF α) (c c' : Conf α) (sched : List Step)
    (hex : ExecF now thr c sched c') :
    (acqOrder sched).Nodup ∧ (∀ i ∈ acqOrder sched, c.ts i = .idle ∧ c'.ts i ≠ .idle) ∧
    (∀ j, c.ts j ≠ .idle → c'.ts j ≠ .idle) := by
  induction hex with
  | nil c => exact ⟨List.nodup_nil, fun i hi => (by simp [acqOrder] at hi), fun _ h => h⟩
  | cons c c1 c2 s rest hs _ ih =>
    obtain ⟨n, m, k⟩ := ih
    have keep := stepF_not_idle now thr c c1 s hs
    cases s with
    | acq i =>
      obtain ⟨a, b⟩ := acqF_idle now thr c c1 i hs
      simp only [acqOrder]
      refine ⟨List.nodup_cons.mpr ⟨fun hi => b (m i hi).1, n⟩, ?_, fun j hj => k j (keep j hj)⟩
      intro j hj
      simp only [List.mem_cons] at hj
      rcases hj with hj | hj
      · subst hj; exact ⟨a, k j b⟩
      · refine ⟨?_, (m j hj).2⟩
        cases hcj : c.ts j with
        | idle => rfl
        | running p evs => exact absurd (m j hj).1 (keep j (by rw [hcj]; intro hh; cases hh))
        | done a evs => exact absurd (m j hj).1 (keep j (by rw [hcj]; intro hh; cases hh))
    | act i =>
      simp only [acqOrder]
      refine ⟨n, ?_, fun j hj => k j (keep j hj)⟩
      intro j hj
      refine ⟨?_, (m j hj).2⟩
      cases hcj : c.ts j with
      | idle => rfl
      | running p evs => exact absurd (m j hj).1 (keep j (by rw [hcj]; intro hh; cases hh))
      | done a evs => exact absurd (m j hj).1 (keep j (by rw [hcj]; intro hh; cases hh))
    | rel i =>
      simp only [acqOrder]
      refine ⟨n, ?_, fun j hj => k j (keep j hj)⟩
      intro j hj
      refine ⟨?_, (m j hj).2⟩
      cases hcj : c.ts j with
      | idle => rfl
      | running p evs => exact absurd (m j hj).1 (keep j (by rw [hcj]; intro hh; cases hh))
      | done a evs => exact absurd (m j hj).1 (keep j (by rw [hcj]; intro hh; cases hh))

/-- What the commands return and emit when run whole, one after another. -/
def seqObsF {α : Type} (now : Nat) (thr : Nat → ThreadF α) (w : World) : List Nat → List (α × List OEv)
  | [] => []
  | i :: rest =>
    (((thr i).body.eval now w []).1, ((thr i).body.eval now w []).2.1) ::
      seqObsF now thr ((thr i).body.eval now w []).2.2.1 rest

def seqEndF {α : Type} (now : Nat) (thr : Nat → ThreadF α) (w : World) : List Nat → World
  | [] => w
  | i :: rest => seqEndF now thr ((thr i).body.eval now w []).2.2.1 rest

theorem seqRunF_spec {α : Type} (now : Nat) (thr : Nat → ThreadF α) : ∀ (order : List Nat) (r : RefF α), order.Nodup →
    (seqRunF now thr r order).w = seqEndF now thr r.w order ∧
    order.map (seqRunF now thr r order).res = (seqObsF now thr r.w order).map some ∧
    ∀ j, j ∉ order → (seqRunF now thr r order).res j = r.res j
  | [], r, _ => ⟨rfl, rfl, fun _ _ => rfl⟩
  | i :: rest, r, hnd => by
    obtain ⟨hi, hrest⟩ := List.nodup_cons.mp hnd
    obtain ⟨a, b, c⟩ := seqRunF_spec now thr rest (r.runOne now thr i) hrest
    have hs : seqRunF now thr r (i :: rest) = seqRunF now thr (r.runOne now thr i) rest := rfl
    rw [hs]
    refine ⟨a, ?_, ?_⟩
    · simp only [List.map_cons, seqObsF]
      have e1 : (r.runOne now thr i).res i =
          some (((thr i).body.eval now r.w []).1, ((thr i).body.eval now r.w []).2.1) := by simp [RefF.runOne]
      rw [c i hi, e1, b]
      rfl
    · intro j hj
      simp only [List.mem_cons, not_or] at hj
      rw [c j hj.2]
      simp [RefF.runOne, hj.1]

/-- **Serializability, as lists**: the finished commands, listed in the order of their lock
    acquisitions, returned and emitted what the sequential run in that order produces. -/
theorem serializableFF_obs {α : Type} (now : Nat) (thr : Nat → ThreadF α)
    (hbody : ∀ i, AllReqs (FootLocal (thr i).foot) (thr i).body)
    (hkey : ∀ i j k, (thr i).foot k → (thr j).foot k → (thr i).stripe = (thr j).stripe)
    (w : World) (sched : List Step) (c' : Conf α) (hex : ExecF now thr (Conf.init w) sched c')
    (hquiet : ∀ i p evs, c'.ts i ≠ .running p evs) :
    c'.w = seqEndF now thr w (acqOrder sched) ∧
    (acqOrder sched).map c'.ts = (seqObsF now thr w (acqOrder sched)).map (fun o => TState.done o.1 o.2) := by
  obtain ⟨h1, h2⟩ := serializableF now thr hbody hkey w sched c' hex hquiet
  obtain ⟨nd, ni, _⟩ := acqOrderF_nodup now thr _ _ sched hex
  obtain ⟨a, b, _⟩ := seqRunF_spec now thr (acqOrder sched) { w := w, res := fun _ => none } nd
  refine ⟨by rw [h1, a], ?_⟩
  -- every command in the order is done, with the recorded result
  have hdone : ∀ i ∈ acqOrder sched, ∀ o, (seqRunF now thr { w := w, res := fun _ => none } (acqOrder sched)).res i = some o →
      c'.ts i = TState.done o.1 o.2 := by
    intro i hi o ho
    cases hc : c'.ts i with
    | idle => exact absurd hc (ni i hi).2
    | running p evs => exact absurd hc (hquiet i p evs)
    | done a' evs' =>
      have := h2 i a' evs' hc
      rw [this] at ho
      injection ho with ho
      subst ho
      rfl
  -- pointwise
  have : ∀ (l : List Nat) (obs : List (α × List OEv)), (∀ i ∈ l, i ∈ acqOrder sched) →
      l.map (seqRunF now thr { w := w, res := fun _ => none } (acqOrder sched)).res = obs.map some →
      l.map c'.ts = obs.map (fun o => TState.done o.1 o.2) := by
    intro l
    induction l with
    | nil => intro obs _ h; cases obs with
      | nil => rfl
      | cons o os => simp at h
    | cons i l ih =>
      intro obs hmem h
      cases obs with
      | nil => simp at h
      | cons o os =>
        simp only [List.map_cons, List.cons.injEq] at h ⊢
        exact ⟨hdone i (hmem i (List.mem_cons_self ..)) o h.1, ih os (fun j hj => hmem j (List.mem_cons_of_mem _ hj)) h.2⟩
  exact this _ _ (fun i hi => hi) b


/-! ### disjoint footprints: everybody gets what he gets alone -/

/-- With pairwise disjoint footprints the sequential run gives every section what it produces
    when it runs alone from the initial state. -/
theorem seqRunF_alone {α : Type} (now : Nat) (thr : Nat → ThreadF α)
    (hbody : ∀ i, AllReqs (FootLocal (thr i).foot) (thr i).body)
    (hdisj : ∀ i j k, (thr i).foot k → (thr j).foot k → i = j) (w0 : World) :
    ∀ (order : List Nat) (r : RefF α), order.Nodup → (∀ i ∈ order, ∀ k, (thr i).foot k → at' r.w k = at' w0 k) →
      (∀ i ∈ order, (seqRunF now thr r order).res i =
        some (((thr i).body.eval now w0 []).1, ((thr i).body.eval now w0 []).2.1)) ∧
      (∀ i ∈ order, ∀ k, (thr i).foot k →
        at' (seqRunF now thr r order).w k = at' ((thr i).body.eval now w0 []).2.2.1 k) ∧
      (∀ k, (∀ i ∈ order, ¬ (thr i).foot k) → at' (seqRunF now thr r order).w k = at' r.w k) ∧
      (∀ j, j ∉ order → (seqRunF now thr r order).res j = r.res j)
  | [], r, _, _ => ⟨fun i hi => (by cases hi), fun i hi => (by cases hi), fun _ _ => rfl, fun _ _ => rfl⟩
  | i :: rest, r, hnd, hag => by
    obtain ⟨hi, hrest⟩ := List.nodup_cons.mp hnd
    have hs : seqRunF now thr r (i :: rest) = seqRunF now thr (r.runOne now thr i) rest := rfl
    -- the first section sees the initial state on its footprint
    obtain ⟨e1, e2, e3⟩ := eval_sameF now (thr i).foot (hbody i) r.w w0 (hag i (List.mem_cons_self ..))
    -- the others' footprints are untouched by it
    have hag' : ∀ j ∈ rest, ∀ k, (thr j).foot k → at' (r.runOne now thr i).w k = at' w0 k := by
      intro j hj k hk
      have hne : ¬ (thr i).foot k := fun hik => hi (by rw [hdisj i j k hik hk]; exact hj)
      simp only [RefF.runOne]
      rw [eval_otherF now (thr i).foot (hbody i) r.w k hne]
      exact hag j (List.mem_cons_of_mem _ hj) k hk
    obtain ⟨a, b, c, d⟩ := seqRunF_alone now thr hbody hdisj w0 rest (r.runOne now thr i) hrest hag'
    rw [hs]
    refine ⟨?_, ?_, ?_, ?_⟩
    · intro j hj
      simp only [List.mem_cons] at hj
      rcases hj with hj | hj
      · subst hj
        rw [d j hi]
        simp only [RefF.runOne, if_true]
        rw [e1, e2]
      · exact a j hj
    · intro j hj k hk
      simp only [List.mem_cons] at hj
      rcases hj with hj | hj
      · subst hj
        rw [c k (fun l hl hlk => hi (by rw [hdisj j l k hk hlk]; exact hl))]
        simp only [RefF.runOne]
        exact e3 k hk
      · exact b j hj k hk
    · intro k hk
      rw [c k (fun l hl => hk l (List.mem_cons_of_mem _ hl))]
      simp only [RefF.runOne]
      exact eval_otherF now (thr i).foot (hbody i) r.w k (hk i (List.mem_cons_self ..))
    · intro j hj
      simp only [List.mem_cons, not_or] at hj
      rw [d j hj.2]
      simp [RefF.runOne, hj.1]

/-- **No interference between sections with disjoint footprints** (no locks needed: give every
    section its own stripe).  For every schedule that ends with nobody running: every finished
    section returned and emitted what it does when it runs alone from the initial state, its
    footprint holds what it leaves when alone, and keys in nobody's footprint are untouched. -/
theorem alone {α : Type} (now : Nat) (thr : Nat → ThreadF α)
    (hbody : ∀ i, AllReqs (FootLocal (thr i).foot) (thr i).body)
    (hdisj : ∀ i j k, (thr i).foot k → (thr j).foot k → i = j)
    (w : World) (sched : List Step) (c' : Conf α) (hex : ExecF now thr (Conf.init w) sched c')
    (hquiet : ∀ i p evs, c'.ts i ≠ .running p evs) :
    (∀ i a evs, c'.ts i = .done a evs →
      a = ((thr i).body.eval now w []).1 ∧ evs = ((thr i).body.eval now w []).2.1 ∧
      ∀ k, (thr i).foot k → at' c'.w k = at' ((thr i).body.eval now w []).2.2.1 k) ∧
    (∀ k, (∀ i, ¬ (thr i).foot k) → at' c'.w k = at' w k) := by
  have hkey : ∀ i j k, (thr i).foot k → (thr j).foot k → (thr i).stripe = (thr j).stripe :=
    fun i j k hi hj => by rw [hdisj i j k hi hj]
  obtain ⟨h1, h2⟩ := serializableF now thr hbody hkey w sched c' hex hquiet
  obtain ⟨nd, _, _⟩ := acqOrderF_nodup now thr _ _ sched hex
  obtain ⟨a, b, c, d⟩ := seqRunF_alone now thr hbody hdisj w (acqOrder sched) { w := w, res := fun _ => none } nd
    (fun _ _ _ _ => rfl)
  refine ⟨?_, ?_⟩
  · intro i x evs hi
    have hres := h2 i x evs hi
    by_cases hmem : i ∈ acqOrder sched
    · rw [a i hmem] at hres
      injection hres with hres
      injection hres with hx hevs
      refine ⟨hx.symm, hevs.symm, ?_⟩
      intro k hk
      rw [h1]
      exact b i hmem k hk
    · rw [d i hmem] at hres
      cases hres
  · intro k hk
    rw [h1]
    exact c k (fun i _ => hk i)

end Rend.Conc

/-
  Lemmas about big-endian fields, headers and `readN`, shared by C07/C08/C11.
-/
import Rend.Wire.Encode
import Rend.Wire.BinParse

namespace Rend.Wire
open Rend

theorem rd16_be (n : Nat) (h : n < 65536) (rest : Bytes) :
    Bytes.rd16 (UInt8.ofNat (n / 256 % 256) :: UInt8.ofNat (n % 256) :: rest) = n := by
  simp [Bytes.rd16, UInt8.toNat_ofNat']
  omega

theorem rd32_be (n : Nat) (h : n < 4294967296) (rest : Bytes) :
    Bytes.rd32 (UInt8.ofNat (n / 16777216 % 256) :: UInt8.ofNat (n / 65536 % 256) :: UInt8.ofNat (n / 256 % 256) :: UInt8.ofNat (n % 256) :: rest) = n := by
  simp [Bytes.rd32, UInt8.toNat_ofNat']
  omega

theorem rd32_be32 (n : Nat) (h : n < 4294967296) : Bytes.rd32 (Bytes.be32 n) = n := by
  simp only [Bytes.be32]; exact rd32_be n h []

theorem be32_length (n : Nat) : (Bytes.be32 n).length = 4 := rfl

theorem readN_append (xs ys : Bytes) : readN xs.length (xs ++ ys) = some (xs, ys) := by
  simp [readN]

theorem readN_append' (n : Nat) (xs ys : Bytes) (h : xs.length = n) : readN n (xs ++ ys) = some (xs, ys) := by
  subst h; exact readN_append xs ys

theorem readN_short (n : Nat) (xs : Bytes) (h : xs.length < n) : readN n xs = none := by
  simp [readN, h]

theorem reqHeader_length (op kl el tot opq : Nat) : (reqHeader op kl el tot opq).length = 24 := rfl

theorem readHeader_ok (op kl el tot opq : Nat) (body : Bytes) (hop : op < 256) (hkl : kl < 65536) (hel : el < 256)
    (htot : tot < 4294967296) (hopq : opq < 4294967296) :
    readRequestHeader (reqHeader op kl el tot opq ++ body) =
      .ok { magic := Gen.binprot_MagicRequest, opcode := op, keyLen := kl, extLen := el, total := tot, opq := opq } body := by
  have hlen : (reqHeader op kl el tot opq).length = Gen.binprot_ReqHeaderLen := by simp [reqHeader, Gen.binprot_ReqHeaderLen]
  unfold readRequestHeader
  rw [← hlen, readN_append]
  simp only [reqHeader, Gen.binprot_MagicRequest, decodeHeader, List.getD_eq_getElem?_getD, List.drop]
  simp [UInt8.toNat_ofNat', rd16_be _ hkl, rd32_be _ htot, rd32_be _ hopq]
  omega

end Rend.Wire

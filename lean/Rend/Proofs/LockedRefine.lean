/-
  The locking wrapper around the two-tier orchestrators refines the single-map specification as
  well: lock events aside, what the client is told is what the specification says.
-/
import Rend.Proofs.OrcaSeq
import Rend.Proofs.OnlyResp

namespace Rend

/-- The responder events of a run (lock events dropped). -/
def respsOnly (es : List OEv) : List OEv := es.filter OEv.isResp

theorem respsOnly_append (a b : List OEv) : respsOnly (a ++ b) = respsOnly a ++ respsOnly b := by
  simp [respsOnly]

/-- `eval` is one of the runs. -/
theorem Prog.eval_runs {ε α : Type} (now : Nat) (p : Prog ε α) :
    ∀ (w : World) (tk : List Bytes), Runs p (p.eval now w tk).1 (p.eval now w tk).2.1 := by
  induction p with
  | ret a => intro w tk; exact Runs.ret a
  | call t r k ih => intro w tk; simp only [Prog.eval]; exact Runs.call t r k _ _ _ (ih _ _ _)
  | draw k ih =>
    intro w tk
    cases tk with
    | nil => simp only [Prog.eval]; exact Runs.draw k _ _ _ (ih _ _ _)
    | cons x xs => simp only [Prog.eval]; exact Runs.draw k _ _ _ (ih _ _ _)
  | emit e p ih => intro w tk; simp only [Prog.eval]; exact Runs.emit e p _ _ (ih w tk)

theorem respsOnly_of_onlyResp {α} {p : OProg α} (hp : OnlyResp p) (now : Nat) (w : World) (tk : List Bytes) :
    respsOnly (p.eval now w tk).2.1 = (p.eval now w tk).2.1 := by
  unfold respsOnly
  rw [List.filter_eq_self]
  exact hp.out _ _ (Prog.eval_runs now p w tk)

theorem eval_filterEmit {ε α : Type} (now : Nat) (keep : ε → Bool) (p : Prog ε α) :
    ∀ (w : World) (tk : List Bytes), (Prog.filterEmit keep p).eval now w tk =
      ((p.eval now w tk).1, (p.eval now w tk).2.1.filter keep, (p.eval now w tk).2.2) := by
  induction p with
  | ret a => intro w tk; rfl
  | call t r k ih => intro w tk; simp only [Prog.filterEmit, Prog.eval]; exact ih _ _ _
  | draw k ih =>
    intro w tk
    cases tk with
    | nil => simp only [Prog.filterEmit, Prog.eval]; exact ih _ _ _
    | cons x xs => simp only [Prog.filterEmit, Prog.eval]; exact ih _ _ _
  | emit e p ih =>
    intro w tk
    simp only [Prog.filterEmit]
    by_cases hk : keep e = true
    · simp only [hk, if_true, Prog.eval, ih, List.filter_cons]
    · simp only [hk, Bool.false_eq_true, if_false, Prog.eval, ih, List.filter_cons]

/-- A refinement answer is never a panic or a crash. -/
theorem agrees_clean (c : Cmd) (o : SOut) (res : HRes Unit) (evs : List OEv) (h : Agrees c o res evs) :
    isPanic res = false ∧ isCrash res = false := by
  cases c <;> cases o <;> simp only [Agrees] at h <;>
    first
      | (obtain ⟨h1, _⟩ := h; subst h1; exact ⟨rfl, rfl⟩)
      | (obtain ⟨⟨e, h1⟩, _⟩ := h; subst h1; exact ⟨rfl, rfl⟩)
      | exact h.elim

/-- A keyed single-lock method under fault-free evaluation. -/
theorem eval_lockedSingle (now : Nat) (f : Gen.LockedFact) (hf : f.usesLock = true ∧ f.deferUnlock = true ∧ f.recovers = false)
    (bits : Nat) (key : Bytes) (p : OProg (HRes Unit)) (w : World) (tk : List Bytes)
    (hclean : isPanic (p.eval now w tk).1 = false ∧ isCrash (p.eval now w tk).1 = false) :
    (lockedSingle f bits key p).eval now w tk =
      ((p.eval now w tk).1,
       .acquire (stripeOf bits key) f.readLock :: ((p.eval now w tk).2.1 ++ [.release (stripeOf bits key) f.readLock]),
       (p.eval now w tk).2.2) := by
  obtain ⟨h1, h2, h3⟩ := hf
  unfold lockedSingle
  simp only [h1, h2, h3, Bool.not_true, Bool.false_eq_true, if_false, Bool.true_or, if_true, Bool.false_and]
  rw [Prog.eval_bind, Prog.eval_out, Prog.eval_bind]
  simp only [hclean.1, hclean.2, Bool.false_eq_true, if_false, Prog.eval_bind, Prog.eval_out, Prog.eval_pure,
    List.singleton_append, List.append_nil]

/-- What the wrapper needs to know about the get of the orchestrator it wraps. -/
structure GetRefines (now : Nat) (step : Cmd → OProg (HRes Unit)) : Prop where
  get : ∀ (w : World) (tk : List Bytes) (g : GetCmd), CacheInv now w →
    ((step (.get g)).eval now w tk).2.2.1.l2 = w.l2 ∧ CacheInv now ((step (.get g)).eval now w tk).2.2.1 ∧
    GetOutcome now w.l2 g ((step (.get g)).eval now w tk).1 ((step (.get g)).eval now w tk).2.1

theorem L1L2_getRefines (now : Nat) : GetRefines now (L1L2.step (Std.handler .l1) (Std.handler .l2)) :=
  ⟨fun w tk g hinv => L1L2_get_refines now w tk g hinv⟩

theorem L1L2Batch_getRefines (now : Nat) : GetRefines now (L1L2Batch.step (Std.handler .l1) (Std.handler .l2)) :=
  ⟨fun w tk g hinv => by
    obtain ⟨h1, h3⟩ := L1L2Batch_get_refines now w tk g hinv
    exact ⟨by rw [h1], by rw [h1]; exact hinv, h3⟩⟩

theorem respsOnly_acquire (s : Nat) (r : Bool) (es : List OEv) : respsOnly (.acquire s r :: es) = respsOnly es := rfl
theorem respsOnly_release (s : Nat) (r : Bool) (es : List OEv) : respsOnly (.release s r :: es) = respsOnly es := rfl
theorem respsOnly_resp (e : REv) (es : List OEv) : respsOnly (.resp e :: es) = .resp e :: respsOnly es := rfl

theorem respsOnly_gets (gs : List GetResp) : respsOnly (gs.map (fun x => OEv.resp (.get x))) = gs.map (fun x => OEv.resp (.get x)) := by
  unfold respsOnly
  rw [List.filter_eq_self]
  intro e he
  obtain ⟨x, _, rfl⟩ := List.mem_map.mp he
  rfl

theorem filter_gate_gets (gs : List GetResp) (o : Nat) (b : Bool) :
    (gs.map (fun x => OEv.resp (.get x)) ++ [OEv.resp (.getEnd o b)]).filter (fun e => !isGetEndEv e) =
      gs.map (fun x => OEv.resp (.get x)) := by
  rw [List.filter_append]
  have : (gs.map (fun x => OEv.resp (.get x))).filter (fun e => !isGetEndEv e) = gs.map (fun x => OEv.resp (.get x)) := by
    rw [List.filter_eq_self]
    intro e he
    obtain ⟨x, _, rfl⟩ := List.mem_map.mp he
    rfl
  rw [this]
  simp [isGetEndEv]

/-- **The per-key get loop of the wrapper**: lock events aside, a get of n ≥ 1 keys is answered
    with one answer per key — the specification's — and one terminator; L2 is untouched and the
    cache invariant kept. -/
theorem eval_lockedGetLoop (now : Nat) (f : Gen.LockedFact)
    (hf : f.usesLock = true ∧ f.inlineUnlock = true ∧ f.recovers = true ∧ f.recoverUnlocks = true ∧
      f.repanics = true ∧ f.gatesGetEnd = true)
    (bits : Nat) (step : Cmd → OProg (HRes Unit)) (hstep : GetRefines now step) (g : GetCmd) :
    ∀ (ks : List GetKey), ks ≠ [] → ∀ (w : World) (tk : List Bytes), CacheInv now w →
      ((lockedGetLoop f bits (fun sub => step (.get sub)) g ks).eval now w tk).1 = .ok () ∧
      ((lockedGetLoop f bits (fun sub => step (.get sub)) g ks).eval now w tk).2.2.1.l2 = w.l2 ∧
      CacheInv now ((lockedGetLoop f bits (fun sub => step (.get sub)) g ks).eval now w tk).2.2.1 ∧
      ∃ gs : List GetResp,
        respsOnly ((lockedGetLoop f bits (fun sub => step (.get sub)) g ks).eval now w tk).2.1 =
          gs.map (fun x => OEv.resp (.get x)) ++ [.resp (.getEnd g.noopOpaque g.noopEnd)] ∧
        (gs.map viewOf).Perm (ks.map (specView now w.l2)) := by
  obtain ⟨f1, f2, f3, f4, f5, f6⟩ := hf
  intro ks
  induction ks with
  | nil => intro h; exact absurd rfl h
  | cons k rest ih =>
    intro _ w tk hinv
    by_cases hlast : rest = []
    · -- the last key: its terminator is the request's
      subst hlast
      obtain ⟨h1, h2, hres, gs, hev, hperm⟩ := hstep.get w tk { keys := [k], noopOpaque := g.noopOpaque, noopEnd := g.noopEnd } hinv
      have hclean : isCrash ((step (.get { keys := [k], noopOpaque := g.noopOpaque, noopEnd := g.noopEnd })).eval now w tk).1 = false ∧
          isPanic ((step (.get { keys := [k], noopOpaque := g.noopOpaque, noopEnd := g.noopEnd })).eval now w tk).1 = false := by
        rw [hres]; exact ⟨rfl, rfl⟩
      simp only [lockedGetLoop, f1, f2, f3, f4, f5, f6, List.isEmpty_nil, Bool.not_true, Bool.and_false, Bool.false_eq_true,
        if_false, if_true, Prog.eval_bind, Prog.eval_out, hclean.1, hclean.2, hres, Prog.eval_pure, Bool.or_true, Bool.true_and,
        List.append_nil, isCrash, isPanic]
      refine ⟨trivial, h1, h2, gs, ?_, by simpa using hperm⟩
      simp only [hev, List.singleton_append]
      rw [respsOnly_acquire, respsOnly_append, respsOnly_append, respsOnly_gets, respsOnly_resp, respsOnly_release]
      simp [respsOnly]
    · -- not the last key: the terminator of the sub-request is held back
      have hl : rest.isEmpty = false := by cases rest <;> simp_all
      obtain ⟨h1, h2, hres, gs, hev, hperm⟩ := hstep.get w tk { keys := [k], noopOpaque := 0, noopEnd := false } hinv
      have hclean : isCrash ((step (.get { keys := [k], noopOpaque := 0, noopEnd := false })).eval now w tk).1 = false ∧
          isPanic ((step (.get { keys := [k], noopOpaque := 0, noopEnd := false })).eval now w tk).1 = false := by
        rw [hres]; exact ⟨rfl, rfl⟩
      obtain ⟨i1, i2, i3, gs', iev, iperm⟩ := ih hlast ((step (.get { keys := [k], noopOpaque := 0, noopEnd := false })).eval now w tk).2.2.1
        ((step (.get { keys := [k], noopOpaque := 0, noopEnd := false })).eval now w tk).2.2.2 h2
      simp only [lockedGetLoop, f1, f2, f3, f4, f5, f6, hl, Bool.not_false, Bool.and_true, Bool.false_eq_true,
        if_false, if_true, Prog.eval_bind, Prog.eval_out, eval_filterEmit, hclean.1, hclean.2, hres, Bool.or_true, Bool.true_and,
        isCrash, isPanic]
      refine ⟨i1, by rw [i2, h1], i3, gs ++ gs', ?_, ?_⟩
      · simp only [hev, filter_gate_gets, List.singleton_append, List.map_append, List.append_assoc]
        rw [respsOnly_acquire, respsOnly_append, respsOnly_gets, respsOnly_release, iev]
      · rw [h1] at iperm
        have := List.Perm.append hperm iperm
        simpa using this

end Rend

namespace Rend

theorem lockedFacts_single :
    ∀ n ∈ ["Set", "Add", "Replace", "Append", "Prepend", "Delete", "Touch", "Gat"],
      (lockedFact n).usesLock = true ∧ (lockedFact n).deferUnlock = true ∧ (lockedFact n).recovers = false := by
  decide

theorem lockedFacts_get :
    (lockedFact "Get").usesLock = true ∧ (lockedFact "Get").inlineUnlock = true ∧ (lockedFact "Get").recovers = true ∧
    (lockedFact "Get").recoverUnlocks = true ∧ (lockedFact "Get").repanics = true ∧ (lockedFact "Get").gatesGetEnd = true := by
  decide

theorem portStep_onlyResp (p : Port) (c : Cmd) : OnlyResp (portStep p c) := by
  cases p
  · exact L1L2.step_onlyResp _ _ (Std.silent .l1) (Std.silent .l2) c
  · exact L1L2Batch.step_onlyResp _ _ (Std.silent .l1) (Std.silent .l2) c

theorem portStep_getRefines (now : Nat) (p : Port) : GetRefines now (portStep p) := by
  cases p
  · exact L1L2_getRefines now
  · exact L1L2Batch_getRefines now

/-- A get asks for at least one key (the parsers never produce an empty get). -/
def GetsNonEmpty (c : Cmd) : Prop := ∀ g, c = .get g → g.keys ≠ []

/-- **The locking wrapper, one step**: around either port's orchestrator, lock events aside, every
    command is answered as the single map answers it; L2 moves as the map; the invariant is kept. -/
theorem locked_step_refines (now : Nat) (bits : Nat) (w : World) (tk : List Bytes) (p : Port) (c : Cmd) (hc : TwoTier c)
    (hk : GetsNonEmpty c) (hinv : CacheInv now w) :
    ((Locked.step bits (portStep p) c).eval now w tk).2.2.1.l2 = (Spec.step now w.l2 c).1 ∧
    CacheInv now ((Locked.step bits (portStep p) c).eval now w tk).2.2.1 ∧
    Agrees c (Spec.step now w.l2 c).2 ((Locked.step bits (portStep p) c).eval now w tk).1
      (respsOnly ((Locked.step bits (portStep p) c).eval now w tk).2.1) := by
  obtain ⟨h1, h2, h3⟩ := portStep_refines now w tk p c hc hinv
  have hclean := agrees_clean _ _ _ _ h3
  have hresp := respsOnly_of_onlyResp (portStep_onlyResp p c) now w tk
  -- the single-key commands
  have single : ∀ (n : String) (key : Bytes), n ∈ ["Set", "Add", "Replace", "Append", "Prepend", "Delete", "Touch", "Gat"] →
      Locked.step bits (portStep p) c = lockedSingle (lockedFact n) bits key (portStep p c) →
      ((Locked.step bits (portStep p) c).eval now w tk).2.2.1.l2 = (Spec.step now w.l2 c).1 ∧
      CacheInv now ((Locked.step bits (portStep p) c).eval now w tk).2.2.1 ∧
      Agrees c (Spec.step now w.l2 c).2 ((Locked.step bits (portStep p) c).eval now w tk).1
        (respsOnly ((Locked.step bits (portStep p) c).eval now w tk).2.1) := by
    intro n key hn he
    rw [he, eval_lockedSingle now _ (lockedFacts_single n hn) bits key _ w tk hclean]
    refine ⟨h1, h2, ?_⟩
    simp only
    rw [respsOnly_acquire, respsOnly_append, hresp, show respsOnly [OEv.release (stripeOf bits key) (lockedFact n).readLock] = [] from rfl,
      List.append_nil]
    exact h3
  cases c with
  | store k sc =>
    cases k
    · exact single "Set" sc.key (by simp) rfl
    · exact single "Add" sc.key (by simp) rfl
    · exact single "Replace" sc.key (by simp) rfl
    · exact single "Append" sc.key (by simp) rfl
    · exact single "Prepend" sc.key (by simp) rfl
  | delete kc => exact single "Delete" kc.key (by simp) rfl
  | touch kc => exact single "Touch" kc.key (by simp) rfl
  | gat kc => exact single "Gat" kc.key (by simp) rfl
  | get g =>
    obtain ⟨r1, r2, r3, gs, r4, r5⟩ := eval_lockedGetLoop now (lockedFact "Get") lockedFacts_get bits (portStep p)
      (portStep_getRefines now p) g g.keys (hk g rfl) w tk hinv
    refine ⟨by simpa [Spec.step, Locked.step] using r2, by simpa [Locked.step] using r3, ?_⟩
    have : Locked.step bits (portStep p) (.get g) =
        lockedGetLoop (lockedFact "Get") bits (fun sub => portStep p (.get sub)) g g.keys := rfl
    rw [this, r1, r4]
    exact ⟨rfl, gs, rfl, by rw [specGets_map]; exact r5⟩
  | getE g => exact absurd rfl (hc g)
  | noop o => simpa [Locked.step, hresp] using ⟨h1, h2, h3⟩
  | quit o q => simpa [Locked.step, hresp] using ⟨h1, h2, h3⟩
  | version o => simpa [Locked.step, hresp] using ⟨h1, h2, h3⟩
  | stat o => simpa [Locked.step, hresp] using ⟨h1, h2, h3⟩
  | unknown => simpa [Locked.step, hresp] using ⟨h1, h2, h3⟩

end Rend

namespace Rend

/-- Observations of a history under the locking wrapper (responder events only). -/
def runActsL (bits : Nat) (now : Nat) (w : World) (tk : List Bytes) : List Act → List (HRes Unit × List OEv)
  | [] => []
  | .cmd p c :: rest =>
    (((Locked.step bits (portStep p) c).eval now w tk).1, respsOnly ((Locked.step bits (portStep p) c).eval now w tk).2.1) ::
      runActsL bits now ((Locked.step bits (portStep p) c).eval now w tk).2.2.1
        ((Locked.step bits (portStep p) c).eval now w tk).2.2.2 rest
  | .evict lost :: rest => runActsL bits now (w.evict lost) tk rest
  | .tick dt :: rest => runActsL bits (now + dt) w tk rest

def endActsL (bits : Nat) (now : Nat) (w : World) (tk : List Bytes) : List Act → Nat × World
  | [] => (now, w)
  | .cmd p c :: rest =>
    endActsL bits now ((Locked.step bits (portStep p) c).eval now w tk).2.2.1
      ((Locked.step bits (portStep p) c).eval now w tk).2.2.2 rest
  | .evict lost :: rest => endActsL bits now (w.evict lost) tk rest
  | .tick dt :: rest => endActsL bits (now + dt) w tk rest

def ActsGetsNonEmpty (acts : List Act) : Prop := ∀ p c, Act.cmd p c ∈ acts → GetsNonEmpty c

/-- **Histories under the locking wrapper** (any number of stripes, both ports sharing the lock
    set): answered, command by command, as the single map answers; L2 is the map at the end; the
    cache invariant holds. -/
theorem history_refines_locked (bits : Nat) : ∀ (acts : List Act) (now : Nat) (w : World) (tk : List Bytes),
    ActsTwoTier acts → ActsGetsNonEmpty acts → CacheInv now w →
      AllAgree (runActsL bits now w tk acts) (specActs now w.l2 acts) ∧
      (endActsL bits now w tk acts).2.l2 = specEnd now w.l2 acts ∧
      CacheInv (endActsL bits now w tk acts).1 (endActsL bits now w tk acts).2
  | [], now, w, tk, _, _, hinv => ⟨AllAgree.nil, rfl, hinv⟩
  | .cmd p c :: rest, now, w, tk, htt, hne, hinv => by
    have hc : TwoTier c := htt p c (List.mem_cons_self ..)
    have hk : GetsNonEmpty c := hne p c (List.mem_cons_self ..)
    have hrest : ActsTwoTier rest := fun p' c' h => htt p' c' (List.mem_cons_of_mem _ h)
    have hrest' : ActsGetsNonEmpty rest := fun p' c' h => hne p' c' (List.mem_cons_of_mem _ h)
    obtain ⟨h1, h2, h3⟩ := locked_step_refines now bits w tk p c hc hk hinv
    obtain ⟨i1, i2, i3⟩ := history_refines_locked bits rest now ((Locked.step bits (portStep p) c).eval now w tk).2.2.1
      ((Locked.step bits (portStep p) c).eval now w tk).2.2.2 hrest hrest' h2
    simp only [runActsL, specActs, endActsL, specEnd]
    rw [h1] at i1 i2
    exact ⟨AllAgree.cons h3 i1, i2, i3⟩
  | .evict lost :: rest, now, w, tk, htt, hne, hinv => by
    have hrest : ActsTwoTier rest := fun p' c' h => htt p' c' (List.mem_cons_of_mem _ h)
    have hrest' : ActsGetsNonEmpty rest := fun p' c' h => hne p' c' (List.mem_cons_of_mem _ h)
    exact history_refines_locked bits rest now (w.evict lost) tk hrest hrest' (hinv.evict lost)
  | .tick dt :: rest, now, w, tk, htt, hne, hinv => by
    have hrest : ActsTwoTier rest := fun p' c' h => htt p' c' (List.mem_cons_of_mem _ h)
    have hrest' : ActsGetsNonEmpty rest := fun p' c' h => hne p' c' (List.mem_cons_of_mem _ h)
    exact history_refines_locked bits rest (now + dt) w tk hrest hrest' (hinv.mono (Nat.le_add_right _ _))

end Rend

/-
  The reduction of C03 for a CHUNKED L1 (L1-only deployment, the shape memproxy runs with
  `--chunked`): a single-key command through the L1-only orchestrator over the chunking handler
  issues backend requests only on the metadata entry and the numbered chunks of its key
  (`ChunkedFootprint`), these footprints are pairwise disjoint for different client keys, and the
  lock stripe is a function of the key — the hypotheses of the footprint form of the
  serializability theorem (`SerialFoot.serializableF`).  Core-only.
-/
import Rend.Proofs.SerialFoot
import Rend.Proofs.ChunkedFootprint
import Rend.Proofs.KeyLocal

namespace Rend.Conc
open Rend Rend.Chunked

/-- The backend entries of client key `key` under the chunking handler. -/
def chunkFoot (key : Bytes) : Bytes → Prop :=
  fun k' => k' = metaKey key ∨ ∃ i, k' = chunkKey key i

theorem derived_footLocal (key : Bytes) (t : Tier) (r : Req) (h : Derived key t r) : FootLocal (chunkFoot key) t r := by
  rcases h with h | h | ⟨i, h⟩
  · exact Or.inr h
  · exact Or.inl (Or.inl h)
  · exact Or.inl (Or.inr ⟨i, h⟩)

/-- Footprints of different client keys are disjoint. -/
theorem chunkFoot_disjoint (k k' x : Bytes) (h : chunkFoot k x) (h' : chunkFoot k' x) : k = k' := by
  rcases h with h | ⟨i, h⟩
  · rcases h' with h' | ⟨j, h'⟩
    · exact metaKey_inj _ _ (h.symm.trans h')
    · exact absurd (h.symm.trans h') (metaKey_ne_chunkKey _ _ _)
  · rcases h' with h' | ⟨j, h'⟩
    · exact absurd (h'.symm.trans h) (metaKey_ne_chunkKey _ _ _)
    · exact (chunkKey_inj _ _ _ _ (h.symm.trans h')).1

theorem allReqs_andThen {α β : Type} {P : Tier → Req → Prop} (p : OProg (HRes α)) (k : HRes α → OProg (HRes β))
    (hp : AllReqs P p) (hk : ∀ r, AllReqs P (k r)) : AllReqs P (andThen p k) := by
  unfold andThen
  apply AllReqs.bind hp
  intro r
  split
  · exact AllReqs.pure _
  · exact AllReqs.pure _
  · exact hk _

theorem allReqs_reply {P : Tier → Req → Prop} (e : REv) : AllReqs P (reply e) := by
  unfold reply respond Prog.out
  exact AllReqs.emit _ _ (AllReqs.ret _)

theorem allReqs_emitGets {P : Tier → Req → Prop} : ∀ rs : List GetResp, AllReqs P (emitGets rs)
  | [] => AllReqs.pure _
  | r :: rs => by
    unfold emitGets respond Prog.out
    exact AllReqs.emit _ _ (allReqs_emitGets rs)

theorem allReqs_emitGetEs {P : Tier → Req → Prop} : ∀ rs : List GetResp, AllReqs P (emitGetEs rs)
  | [] => AllReqs.pure _
  | r :: rs => by
    unfold emitGetEs respond Prog.out
    exact AllReqs.emit _ _ (allReqs_emitGetEs rs)

/-- **Footprint of a single-key command, chunked L1-only.** -/
theorem l1only_chunked_footLocal (now : Nat) (c : Cmd) (k : Bytes) (h : cmdKey c = some k) :
    AllReqs (FootLocal (chunkFoot k)) (L1Only.step (Chunked.handler .l1 now) c) := by
  cases c with
  | store kind s =>
    simp only [cmdKey, Option.some.injEq] at h
    subst h
    simp only [L1Only.step, L1Only.store]
    apply allReqs_andThen
    · exact (store_derived .l1 now kind s).mono (derived_footLocal _)
    · intro r
      split
      · exact allReqs_reply _
      · exact AllReqs.pure _
  | get g =>
    simp only [cmdKey] at h
    split at h
    · rename_i gk hg
      simp only [Option.some.injEq] at h
      subst h
      simp only [L1Only.step, L1Only.get]
      apply AllReqs.bind
      · have := getLoop_derived (ε := OEv) .l1 g.keys
        refine this.mono ?_
        intro t r ⟨x, hx, hd⟩
        rw [hg] at hx
        simp only [List.mem_singleton] at hx
        subst hx
        exact derived_footLocal _ t r hd
      · intro rs
        apply AllReqs.bind (allReqs_emitGets _)
        intro _
        split
        · exact allReqs_reply _
        · exact AllReqs.pure _
    · cases h
  | getE g =>
    simp only [L1Only.step, L1Only.getE, Chunked.handler]
    apply AllReqs.bind (AllReqs.pure _)
    intro rs
    apply AllReqs.bind (allReqs_emitGetEs _)
    intro _
    split
    · exact allReqs_reply _
    · exact AllReqs.pure _
  | gat kc =>
    simp only [cmdKey, Option.some.injEq] at h
    subst h
    simp only [L1Only.step, L1Only.gat]
    apply allReqs_andThen
    · exact (gat_derived .l1 kc).mono (derived_footLocal _)
    · intro r
      split
      · exact allReqs_reply _
      · exact AllReqs.pure _
  | delete kc =>
    simp only [cmdKey, Option.some.injEq] at h
    subst h
    simp only [L1Only.step, L1Only.delete]
    apply allReqs_andThen
    · exact (delete_derived .l1 kc).mono (derived_footLocal _)
    · intro r
      split
      · exact allReqs_reply _
      · exact AllReqs.pure _
  | touch kc =>
    simp only [cmdKey, Option.some.injEq] at h
    subst h
    simp only [L1Only.step, L1Only.touch]
    apply allReqs_andThen
    · exact (touch_derived .l1 now kc).mono (derived_footLocal _)
    · intro r
      split
      · exact allReqs_reply _
      · exact AllReqs.pure _
  | noop o => cases h
  | quit o q => cases h
  | version o => cases h
  | stat o => cases h
  | unknown => cases h

/-- A connection's critical section on a chunked L1-only deployment. -/
structure ChThread where
  cmd : Cmd
  key : Bytes
  stripe : Nat

def ChThread.toF (now : Nat) (t : ChThread) : ThreadF (HRes Unit) :=
  { foot := chunkFoot t.key, stripe := t.stripe, body := L1Only.step (Chunked.handler .l1 now) t.cmd }

/-- **Serializability with a chunked L1 (exclusive locks).**  Connections run single-key commands
    through the L1-only orchestrator over the chunking handler, each inside the lock of its key's
    stripe; the stripe is a function of the key.  For EVERY admitted schedule that ends with nobody
    inside a critical section: the backend holds exactly what running the commands whole, one
    after another in lock-acquisition order, leaves, and every finished command returned and
    emitted what it does in that sequential run. -/
theorem serializable_chunked (now : Nat) (thr : Nat → ChThread)
    (hkey : ∀ i, cmdKey (thr i).cmd = some (thr i).key)
    (hstripe : ∀ i j, (thr i).key = (thr j).key → (thr i).stripe = (thr j).stripe)
    (w : World) (sched : List Step) (c' : Conf (HRes Unit))
    (hex : ExecF now (fun i => (thr i).toF now) (Conf.init w) sched c')
    (hquiet : ∀ i p evs, c'.ts i ≠ .running p evs) :
    c'.w = (seqRunF now (fun i => (thr i).toF now) { w := w, res := fun _ => none } (acqOrder sched)).w ∧
    ∀ i a evs, c'.ts i = .done a evs →
      (seqRunF now (fun i => (thr i).toF now) { w := w, res := fun _ => none } (acqOrder sched)).res i = some (a, evs) :=
  serializableF now (fun i => (thr i).toF now)
    (fun i => l1only_chunked_footLocal now (thr i).cmd (thr i).key (hkey i))
    (fun i j k hi hj => hstripe i j (chunkFoot_disjoint _ _ k hi hj))
    w sched c' hex hquiet

/-- The same as lists: the finished commands, in lock-acquisition order, returned and emitted what
    the sequential run in that order produces (`seqObsF`: each command's program evaluated whole on
    the state its predecessor left). -/
theorem serializable_chunked_obs (now : Nat) (thr : Nat → ChThread)
    (hkey : ∀ i, cmdKey (thr i).cmd = some (thr i).key)
    (hstripe : ∀ i j, (thr i).key = (thr j).key → (thr i).stripe = (thr j).stripe)
    (w : World) (sched : List Step) (c' : Conf (HRes Unit))
    (hex : ExecF now (fun i => (thr i).toF now) (Conf.init w) sched c')
    (hquiet : ∀ i p evs, c'.ts i ≠ .running p evs) :
    c'.w = seqEndF now (fun i => (thr i).toF now) w (acqOrder sched) ∧
    (acqOrder sched).map c'.ts =
      (seqObsF now (fun i => (thr i).toF now) w (acqOrder sched)).map (fun o => TState.done o.1 o.2) :=
  serializableFF_obs now (fun i => (thr i).toF now)
    (fun i => l1only_chunked_footLocal now (thr i).cmd (thr i).key (hkey i))
    (fun i j k hi hj => hstripe i j (chunkFoot_disjoint _ _ k hi hj))
    w sched c' hex hquiet

end Rend.Conc

/-
  Lemmas about the chunked handler model: metadata codec, injectivity of the derived backend
  keys, reassembly of a value from its chunks.
-/
import Rend.Handlers.Chunked
import Rend.Proofs.Eval

namespace Rend.Chunked
open Rend

/-! ### metadata codec -/

theorem rd32_be32_app (n : Nat) (h : n < 4294967296) (rest : Bytes) : Bytes.rd32 (Bytes.be32 n ++ rest) = n := by
  simp [Bytes.be32, Bytes.rd32, UInt8.toNat_ofNat']
  omega

theorem drop4_be32 (n : Nat) (rest : Bytes) : (Bytes.be32 n ++ rest).drop 4 = rest := by
  simp [Bytes.be32]

/-- Well-formed metadata: 32-bit fields and a 16-byte token. -/
structure Meta.WF (m : Meta) : Prop where
  length : m.length < 4294967296
  flags : m.origFlags < 4294967296
  num : m.numChunks < 4294967296
  size : m.chunkSize < 4294967296
  ins : m.instime < 4294967296
  exp : m.exptime < 4294967296
  tok : m.token.length = 16

theorem decode_encode (m : Meta) (h : m.WF) : decodeMeta (encodeMeta m) = m := by
  obtain ⟨h1, h2, h3, h4, h5, h6, h7⟩ := h
  cases m with
  | mk l f n c i e t =>
    simp only at h1 h2 h3 h4 h5 h6 h7
    simp only [decodeMeta, encodeMeta, List.append_assoc, Meta.mk.injEq]
    have d8 : ∀ (a b : Nat) (r : Bytes), (Bytes.be32 a ++ (Bytes.be32 b ++ r)).drop 8 = r := by
      intro a b r; simp [Bytes.be32]
    have d12 : ∀ (a b c : Nat) (r : Bytes), (Bytes.be32 a ++ (Bytes.be32 b ++ (Bytes.be32 c ++ r))).drop 12 = r := by
      intro a b c r; simp [Bytes.be32]
    have d16 : ∀ (a b c d : Nat) (r : Bytes), (Bytes.be32 a ++ (Bytes.be32 b ++ (Bytes.be32 c ++ (Bytes.be32 d ++ r)))).drop 16 = r := by
      intro a b c d r; simp [Bytes.be32]
    have d20 : ∀ (a b c d e : Nat) (r : Bytes),
        (Bytes.be32 a ++ (Bytes.be32 b ++ (Bytes.be32 c ++ (Bytes.be32 d ++ (Bytes.be32 e ++ r))))).drop 20 = r := by
      intro a b c d e r; simp [Bytes.be32]
    have d24 : ∀ (a b c d e f : Nat) (r : Bytes),
        (Bytes.be32 a ++ (Bytes.be32 b ++ (Bytes.be32 c ++ (Bytes.be32 d ++ (Bytes.be32 e ++ (Bytes.be32 f ++ r)))))).drop 24 = r := by
      intro a b c d e f r; simp [Bytes.be32]
    refine ⟨rd32_be32_app _ h1 _, ?_, ?_, ?_, ?_, ?_, ?_⟩
    · rw [drop4_be32]; exact rd32_be32_app _ h2 _
    · rw [d8]; exact rd32_be32_app _ h3 _
    · rw [d12]; exact rd32_be32_app _ h4 _
    · rw [d16]; exact rd32_be32_app _ h5 _
    · rw [d20]; exact rd32_be32_app _ h6 _
    · rw [d24]; simp [Gen.chunked_tokenSize, ← h7]

/-! ### derived keys -/

theorem digit_byte (c : Char) (h : c.isDigit = true) : (UInt8.ofNat c.toNat) ≠ 45 ∧ (UInt8.ofNat c.toNat) ≠ 97 ∧
    (UInt8.ofNat c.toNat).toNat = c.toNat := by
  have h' : 48 ≤ c.toNat ∧ c.toNat ≤ 57 := by
    simp only [Char.isDigit, Bool.and_eq_true, decide_eq_true_eq] at h
    exact ⟨UInt32.le_iff_toNat_le.mp h.1, UInt32.le_iff_toNat_le.mp h.2⟩
  have e : (UInt8.ofNat c.toNat).toNat = c.toNat := by
    rw [UInt8.toNat_ofNat']; omega
  refine ⟨?_, ?_, e⟩
  · intro hc; have := congrArg UInt8.toNat hc; rw [e] at this; simp at this; omega
  · intro hc; have := congrArg UInt8.toNat hc; rw [e] at this; simp at this; omega

theorem decDigits_no_dash (i : Nat) : (45 : UInt8) ∉ Bytes.decDigits i := by
  intro h
  simp only [Bytes.decDigits, List.mem_map] at h
  obtain ⟨c, hc, he⟩ := h
  exact (digit_byte c (Nat.isDigit_of_mem_toDigits (by decide) (by decide) hc)).1 he

theorem decDigits_ne_nil (i : Nat) : Bytes.decDigits i ≠ [] := by
  simp [Bytes.decDigits, Nat.toDigits_ne_nil]

theorem map_digit_inj : ∀ a b : List Char, (∀ c ∈ a, c.isDigit = true) → (∀ c ∈ b, c.isDigit = true) →
    a.map (fun c => UInt8.ofNat c.toNat) = b.map (fun c => UInt8.ofNat c.toNat) → a = b
  | [], [], _, _, _ => rfl
  | [], _ :: _, _, _, h => by simp at h
  | _ :: _, [], _, _, h => by simp at h
  | x :: xs, y :: ys, hi, hj, h => by
    simp only [List.map_cons, List.cons.injEq] at h
    have hx := (digit_byte x (hi x (List.mem_cons_self ..))).2.2
    have hy := (digit_byte y (hj y (List.mem_cons_self ..))).2.2
    have hxy : x.toNat = y.toNat := by rw [← hx, ← hy, h.1]
    have : x = y := Char.toNat_inj.mp hxy
    rw [this, map_digit_inj xs ys (fun c hc => hi c (List.mem_cons_of_mem _ hc)) (fun c hc => hj c (List.mem_cons_of_mem _ hc)) h.2]

theorem decDigits_inj (i j : Nat) (h : Bytes.decDigits i = Bytes.decDigits j) : i = j := by
  have key : Nat.toDigits 10 i = Nat.toDigits 10 j :=
    map_digit_inj _ _ (fun c hc => Nat.isDigit_of_mem_toDigits (by decide) (by decide) hc)
      (fun c hc => Nat.isDigit_of_mem_toDigits (by decide) (by decide) hc) h
  have := congrArg (fun l => Nat.ofDigitChars 10 l 0) key
  simpa [Nat.ofDigitChars_ten_toDigits] using this

/-- Splitting at a separator that does not occur in either tail is unambiguous. -/
theorem append_sep_inj {α} (x : α) (a a' d d' : List α) (hd : x ∉ d) (hd' : x ∉ d')
    (h : a ++ x :: d = a' ++ x :: d') : a = a' ∧ d = d' := by
  rcases List.append_eq_append_iff.mp h with ⟨c, h1, h2⟩ | ⟨c, h1, h2⟩
  · cases c with
    | nil => simp at h1 h2; exact ⟨h1.symm, h2⟩
    | cons y ys =>
      simp only [List.cons_append, List.cons.injEq] at h2
      exact absurd (by rw [h2.2]; simp) hd
  · cases c with
    | nil => simp at h1 h2; exact ⟨h1, h2.symm⟩
    | cons y ys =>
      simp only [List.cons_append, List.cons.injEq] at h2
      exact absurd (by rw [h2.2]; simp) hd'

/-- Distinct (client key, chunk number) pairs have distinct backend keys. -/
theorem chunkKey_inj (k k' : Bytes) (i j : Nat) (h : chunkKey k i = chunkKey k' j) : k = k' ∧ i = j := by
  simp only [chunkKey, List.append_assoc, List.singleton_append] at h
  obtain ⟨h1, h2⟩ := append_sep_inj 45 k k' _ _ (decDigits_no_dash i) (decDigits_no_dash j) h
  exact ⟨h1, decDigits_inj i j h2⟩

theorem metaKey_inj (k k' : Bytes) (h : metaKey k = metaKey k') : k = k' := by
  simpa [metaKey] using h

/-- A metadata key is never a chunk key (of any client key). -/
theorem metaKey_ne_chunkKey (k k' : Bytes) (i : Nat) : metaKey k ≠ chunkKey k' i := by
  intro h
  have h1 : (metaKey k).getLast? = some 97 := by simp [metaKey, metaSuffix]
  have h2 : ∃ c ∈ Bytes.decDigits i, (chunkKey k' i).getLast? = some c := by
    have hne := decDigits_ne_nil i
    refine ⟨(Bytes.decDigits i).getLast hne, List.getLast_mem hne, ?_⟩
    show ((k' ++ [45]) ++ Bytes.decDigits i).getLast? = _
    rw [List.getLast?_append, List.getLast?_eq_some_getLast hne]
    rfl
  obtain ⟨c, hc, h3⟩ := h2
  rw [h, h3] at h1
  simp only [Option.some.injEq] at h1
  subst h1
  simp only [Bytes.decDigits, List.mem_map] at hc
  obtain ⟨ch, hch, he⟩ := hc
  exact (digit_byte ch (Nat.isDigit_of_mem_toDigits (by decide) (by decide) hch)).2.1 he

end Rend.Chunked

namespace Rend.Chunked
open Rend

/-! ### the read loop on a run of hits -/

/-- The hit case of `readStep`. -/
def hitStep (md : Meta) (s : ReadSt) (d : Bytes) : ReadSt := (readStep md s (.hit 0 0 d)).1

theorem readStep_hit (md : Meta) (s : ReadSt) (f e : Nat) (d : Bytes) :
    readStep md s (.hit f e d) = (hitStep md s d, true) := rfl

theorem readLoop_hits (md : Meta) : ∀ (its : List Item) (s : ReadSt),
    readLoop md s (its.map (fun it => Resp.hit it.flags 0 it.data) ++ [.ok]) =
      { (its.foldl (fun s it => hitStep md s it.data) s) with sawNoop := true }
  | [], s => by simp [readLoop, readStep]
  | it :: rest, s => by
    simp only [List.map_cons, List.cons_append, readLoop, readStep_hit, if_true, List.foldl_cons]
    exact readLoop_hits md rest _

theorem hitStep_chunk (md : Meta) (s : ReadSt) (d : Bytes) : (hitStep md s d).chunk = s.chunk + 1 := rfl
theorem hitStep_lastErr (md : Meta) (s : ReadSt) (d : Bytes) : (hitStep md s d).lastErr = s.lastErr := rfl
theorem hitStep_miss (md : Meta) (s : ReadSt) (d : Bytes) :
    (hitStep md s d).miss = (s.miss || d.take Gen.chunked_tokenSize != md.token) := rfl

theorem foldl_hit_chunk (md : Meta) : ∀ (its : List Item) (s : ReadSt),
    (its.foldl (fun s it => hitStep md s it.data) s).chunk = s.chunk + its.length ∧
    (its.foldl (fun s it => hitStep md s it.data) s).lastErr = s.lastErr
  | [], s => ⟨rfl, rfl⟩
  | it :: rest, s => by
    obtain ⟨h1, h2⟩ := foldl_hit_chunk md rest (hitStep md s it.data)
    simp only [List.foldl_cons, List.length_cons]
    rw [h1, h2, hitStep_chunk, hitStep_lastErr]
    exact ⟨by omega, rfl⟩

/-- The slice of the value that chunk `i` covers, in naturals. -/
theorem sliceIdx_nat (ds i L : Nat) :
    (Gen.chunkSliceIndices (ds : Int) (i : Int) (L : Int)).1.toNat = ds * i ∧
    (Gen.chunkSliceIndices (ds : Int) (i : Int) (L : Int)).2.toNat = min (ds * i + ds) L := by
  simp only [Gen.chunkSliceIndices]
  have h : (ds : Int) * (i : Int) = ((ds * i : Nat) : Int) := (Int.natCast_mul ds i).symm
  rw [h]
  constructor
  · exact Int.toNat_natCast _
  · omega

/-- The buffer after the first `i` chunks of `data` were copied in. -/
def partialBuf (data : Bytes) (ds i : Nat) : Bytes := data.take (ds * i) ++ Bytes.zeros (data.length - ds * i)

theorem zeros_drop (n k : Nat) : (Bytes.zeros n).drop k = Bytes.zeros (n - k) := by
  simp [Bytes.zeros]

theorem zeros_length (n : Nat) : (Bytes.zeros n).length = n := by simp [Bytes.zeros]

theorem buf_step (data : Bytes) (a ds : Nat) (ha : a ≤ data.length) :
    (data.take a ++ Bytes.zeros (data.length - a)).take a ++
      ((data.drop a).take ds ++ Bytes.zeros (ds - ((data.drop a).take ds).length)).take (min (a + ds) data.length - a) ++
      (data.take a ++ Bytes.zeros (data.length - a)).drop (min (a + ds) data.length) =
    data.take (a + ds) ++ Bytes.zeros (data.length - (a + ds)) := by
  have e1 : (data.take a ++ Bytes.zeros (data.length - a)).take a = data.take a :=
    List.take_left' (by simp; omega)
  have e2 : ((data.drop a).take ds ++ Bytes.zeros (ds - ((data.drop a).take ds).length)).take (min (a + ds) data.length - a) =
      (data.drop a).take ds := List.take_left' (by simp; omega)
  have e3 : (data.take a ++ Bytes.zeros (data.length - a)).drop (min (a + ds) data.length) =
      Bytes.zeros (data.length - (a + ds)) := by
    rw [List.drop_append, List.drop_eq_nil_of_le (by simp; omega), zeros_drop]
    simp only [List.nil_append, List.length_take]
    congr 1
    omega
  rw [e1, e2, e3, List.take_add]

/-- Copying chunk `i` of `data` into the buffer that holds chunks `0..i-1`. -/
theorem hitStep_own (md : Meta) (data tok : Bytes) (ds i : Nat) (m : Bool) (e : Option HErr) (sn : Bool)
    (hl : md.length = data.length) (hc : md.chunkSize = ds) (ht : tok.length = 16) (hi : ds * i ≤ data.length) :
    hitStep md { buf := partialBuf data ds i, chunk := i, miss := m, lastErr := e, sawNoop := sn }
        (tok ++ chunkPayload data ds i) =
      { buf := partialBuf data ds (i + 1), chunk := i + 1, miss := m || tok != md.token, lastErr := e, sawNoop := sn } := by
  have hidx := sliceIdx_nat ds i data.length
  have htake : (tok ++ chunkPayload data ds i).take 16 = tok := List.take_left' ht
  have hdrop : (tok ++ chunkPayload data ds i).drop 16 = chunkPayload data ds i := by
    rw [← ht]; simp
  simp only [hitStep, readStep, hl, hc, Gen.chunked_tokenSize, htake, hdrop]
  rw [hidx.1, hidx.2]
  congr 1
  simp only [partialBuf, chunkPayload]
  rw [buf_step data (ds * i) ds hi, Nat.mul_add, Nat.mul_one]

end Rend.Chunked

namespace Rend.Chunked
open Rend

/-! ### write intents and the consistency of a backend store -/

/-- One complete value that some store-type command set out to write under a fresh token. -/
structure Intent where
  key   : Bytes
  token : Bytes
  data  : Bytes
  flags : Nat
  deriving DecidableEq

def Intent.ds (h : Intent) : Nat := (sizes h.key.length).1
def Intent.n (h : Intent) : Nat := (Gen.numChunksExpr (h.data.length : Int) (BitVec.ofNat 32 h.ds)).toNat
/-- The backend value of chunk `i`. -/
def Intent.chunkVal (h : Intent) (i : Nat) : Bytes := h.token ++ chunkPayload h.data h.ds i
/-- The metadata record announces this intent. -/
def Intent.Describes (h : Intent) (m : Meta) : Prop :=
  m.token = h.token ∧ m.length = h.data.length ∧ m.origFlags = h.flags ∧ m.numChunks = h.n ∧ m.chunkSize = h.ds

/-- Every entry the store holds under a derived key was written, whole, by one of the intents;
    tokens identify intents. Entries may be missing in any combination. -/
structure Consistent (s : Store) (H : List Intent) : Prop where
  metaE : ∀ key it, s (metaKey key) = some it → ∃ h ∈ H, h.key = key ∧ h.Describes (decodeMeta it.data)
  chunkE : ∀ key i it, s (chunkKey key i) = some it → ∃ h ∈ H, h.key = key ∧ it.data = h.chunkVal i
  tokens : ∀ h ∈ H, ∀ h' ∈ H, h.token = h'.token → h = h'
  toklen : ∀ h ∈ H, h.token.length = 16
  keylen : ∀ h ∈ H, h.key.length ≤ 250

theorem Intent.ds_pos (h : Intent) (hk : h.key.length ≤ 250) : 847 ≤ h.ds ∧ h.ds ≤ 1097 := by
  have : sizes h.key.length = (1097 - h.key.length, 1113 - h.key.length) := by
    simp [sizes, Gen.chunkSize]
    constructor <;> omega
  simp only [Intent.ds, this]
  omega

theorem Intent.n_spec (h : Intent) (hk : h.key.length ≤ 250) :
    h.data.length ≤ h.n * h.ds ∧ h.n * h.ds < h.data.length + h.ds := by
  obtain ⟨h1, h2⟩ := h.ds_pos hk
  have hp : 0 < h.ds := by omega
  have h32 : h.ds < 4294967296 := by omega
  have e : h.n = (h.data.length + h.ds - 1) / h.ds := by
    simp only [Intent.n, Gen.numChunksExpr, ceilDivInt, BitVec.toNat_ofNat, Nat.mod_eq_of_lt h32]
    have : ((h.data.length : Int) + (h.ds : Int) - 1) = ((h.data.length + h.ds - 1 : Nat) : Int) := by omega
    rw [this]
    norm_cast
  have hd := Nat.div_add_mod (h.data.length + h.ds - 1) h.ds
  have hr := Nat.mod_lt (h.data.length + h.ds - 1) hp
  rw [e]
  constructor
  · rw [Nat.mul_comm]; omega
  · rw [Nat.mul_comm]; omega

/-- Folding the intent's own chunks `i, i+1, …, i+n-1` into the buffer. -/
theorem foldl_own (md : Meta) (h : Intent) (hl : md.length = h.data.length) (hc : md.chunkSize = h.ds)
    (ht : h.token.length = 16) (htok : md.token = h.token) :
    ∀ (n i : Nat) (e : Option HErr) (sn : Bool), h.ds * (i + n) < h.data.length + h.ds →
      ((List.range' i n).map h.chunkVal).foldl (fun s d => hitStep md s d)
          { buf := partialBuf h.data h.ds i, chunk := i, miss := false, lastErr := e, sawNoop := sn } =
        { buf := partialBuf h.data h.ds (i + n), chunk := i + n, miss := false, lastErr := e, sawNoop := sn }
  | 0, i, e, sn, _ => by simp
  | n + 1, i, e, sn, hb => by
    have hds : 0 < h.ds ∨ h.ds = 0 := by omega
    have hi : h.ds * i ≤ h.data.length := by
      rcases hds with hds | hds
      · have : h.ds * (i + (n + 1)) = h.ds * i + h.ds * n + h.ds := by
          rw [Nat.mul_add, Nat.mul_add, Nat.mul_one, Nat.add_assoc]
        have h2 : 0 ≤ h.ds * n := Nat.zero_le _
        omega
      · simp [hds]
    simp only [List.range'_succ, List.map_cons, List.foldl_cons, Intent.chunkVal]
    rw [hitStep_own md h.data h.token h.ds i false e sn hl hc ht hi]
    have : (false || h.token != md.token) = false := by simp [htok]
    rw [this]
    have := foldl_own md h hl hc ht htok n (i + 1) e sn (by rw [Nat.add_assoc, Nat.add_comm 1 n]; exact hb)
    rw [this, show i + 1 + n = i + (n + 1) by omega]

theorem partialBuf_full (data : Bytes) (ds n : Nat) (h : data.length ≤ ds * n) : partialBuf data ds n = data := by
  simp [partialBuf, List.take_of_length_le h, Bytes.zeros, Nat.sub_eq_zero_of_le h]

theorem partialBuf_zero (data : Bytes) (ds : Nat) : partialBuf data ds 0 = Bytes.zeros data.length := by
  simp [partialBuf]

end Rend.Chunked

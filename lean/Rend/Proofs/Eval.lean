/-
  Fault-free evaluation of programs against the two reference stores, and its basic laws.
  `Prog.runSt` (what the driver executes) coincides with it when no fault is planned.
-/
import Rend.Orcas.Locked
import Rend.Handlers.Std

namespace Rend

/-- Run a program against the two stores; every backend request is answered by `Mc.exec`. -/
def Prog.eval {ε α : Type} (now : Nat) : Prog ε α → World → List Bytes → α × List ε × World × List Bytes
  | .ret a, w, tk => (a, [], w, tk)
  | .call t r k, w, tk =>
    eval now (k (Mc.exec now (w.get t) r).2) (w.put t (Mc.exec now (w.get t) r).1) tk
  | .draw k, w, tk =>
    match tk with
    | x :: xs => eval now (k x) w xs
    | [] => eval now (k (Bytes.zeros 16)) w []
  | .emit e p, w, tk =>
    ((eval now p w tk).1, e :: (eval now p w tk).2.1, (eval now p w tk).2.2.1, (eval now p w tk).2.2.2)

namespace Prog
variable {ε α β : Type} (now : Nat)

@[simp] theorem eval_pure (a : α) (w : World) (tk : List Bytes) :
    (pure a : Prog ε α).eval now w tk = (a, [], w, tk) := rfl

theorem eval_bind (p : Prog ε α) (f : α → Prog ε β) (w : World) (tk : List Bytes) :
    (p >>= f).eval now w tk =
      (((f (p.eval now w tk).1).eval now (p.eval now w tk).2.2.1 (p.eval now w tk).2.2.2).1,
       (p.eval now w tk).2.1 ++ ((f (p.eval now w tk).1).eval now (p.eval now w tk).2.2.1 (p.eval now w tk).2.2.2).2.1,
       ((f (p.eval now w tk).1).eval now (p.eval now w tk).2.2.1 (p.eval now w tk).2.2.2).2.2.1,
       ((f (p.eval now w tk).1).eval now (p.eval now w tk).2.2.1 (p.eval now w tk).2.2.2).2.2.2) := by
  induction p generalizing w tk with
  | ret a => simp [Bind.bind, Prog.bind, eval]
  | call t r k ih => simp only [Bind.bind, Prog.bind, eval] at *; exact ih _ _ _
  | draw k ih =>
    simp only [Bind.bind, Prog.bind, eval] at *
    cases tk with
    | nil => exact ih _ _ _
    | cons x xs => exact ih _ _ _
  | emit e p ih =>
    simp only [Bind.bind, Prog.bind, eval] at *
    rw [ih]
    simp

@[simp] theorem eval_req (t : Tier) (r : Req) (w : World) (tk : List Bytes) :
    (Prog.req t r : Prog ε Resp).eval now w tk =
      ((Mc.exec now (w.get t) r).2, [], w.put t (Mc.exec now (w.get t) r).1, tk) := rfl

@[simp] theorem eval_out (e : ε) (w : World) (tk : List Bytes) :
    (Prog.out e : Prog ε Unit).eval now w tk = ((), [e], w, tk) := rfl

end Prog

@[simp] theorem World.get_put_same (w : World) (t : Tier) (s : Store) : (w.put t s).get t = s := by
  cases t <;> rfl

@[simp] theorem World.get_put_l1_l2 (w : World) (s : Store) : (w.put Tier.l1 s).get Tier.l2 = w.get Tier.l2 := rfl
@[simp] theorem World.get_put_l2_l1 (w : World) (s : Store) : (w.put Tier.l2 s).get Tier.l1 = w.get Tier.l1 := rfl
@[simp] theorem World.l1_put_l1 (w : World) (s : Store) : (w.put Tier.l1 s).l1 = s := rfl
@[simp] theorem World.l2_put_l1 (w : World) (s : Store) : (w.put Tier.l1 s).l2 = w.l2 := rfl
@[simp] theorem World.l1_put_l2 (w : World) (s : Store) : (w.put Tier.l2 s).l1 = w.l1 := rfl
@[simp] theorem World.l2_put_l2 (w : World) (s : Store) : (w.put Tier.l2 s).l2 = s := rfl
@[simp] theorem World.get_l1 (w : World) : w.get Tier.l1 = w.l1 := rfl
@[simp] theorem World.get_l2 (w : World) : w.get Tier.l2 = w.l2 := rfl

end Rend

namespace Rend

/-- With no fault planned and both backend connections alive, the runner the driver executes
    (`Prog.runSt`) computes exactly `Prog.eval`. -/
theorem Prog.runSt_none_eval {ε α : Type} (now : Nat) (p : Prog ε α) :
    ∀ s : RunSt, s.dead1 = false → s.dead2 = false →
      (p.runSt now none s).1 = (p.eval now s.w s.toks).1 ∧
      (p.runSt now none s).2.1 = (p.eval now s.w s.toks).2.1 ∧
      (p.runSt now none s).2.2.w = (p.eval now s.w s.toks).2.2.1 ∧
      (p.runSt now none s).2.2.toks = (p.eval now s.w s.toks).2.2.2 ∧
      (p.runSt now none s).2.2.dead1 = false ∧ (p.runSt now none s).2.2.dead2 = false := by
  induction p with
  | ret a => intro s h1 h2; exact ⟨rfl, rfl, rfl, rfl, h1, h2⟩
  | call t r k ih =>
    intro s h1 h2
    cases t with
    | l1 =>
      have := ih (Mc.exec now (s.w.get Tier.l1) r).2
        { (s.bump Tier.l1) with w := s.w.put Tier.l1 (Mc.exec now (s.w.get Tier.l1) r).1, trace := (s.bump Tier.l1).trace ++ [⟨Tier.l1, r, (Mc.exec now (s.w.get Tier.l1) r).2⟩] } h1 h2
      simp only [Prog.runSt, Prog.eval, RunSt.exec, RunSt.dead, h1, Bool.false_eq_true, if_false]
      exact this
    | l2 =>
      have := ih (Mc.exec now (s.w.get Tier.l2) r).2
        { (s.bump Tier.l2) with w := s.w.put Tier.l2 (Mc.exec now (s.w.get Tier.l2) r).1, trace := (s.bump Tier.l2).trace ++ [⟨Tier.l2, r, (Mc.exec now (s.w.get Tier.l2) r).2⟩] } h1 h2
      simp only [Prog.runSt, Prog.eval, RunSt.exec, RunSt.dead, h2, Bool.false_eq_true, if_false]
      exact this
  | draw k ih =>
    intro s h1 h2
    cases htk : s.toks with
    | nil =>
      have := ih (Bytes.zeros 16) s h1 h2
      simp only [Prog.runSt, Prog.eval, htk] at this ⊢
      exact this
    | cons x xs =>
      have := ih x { s with toks := xs } h1 h2
      simp only [Prog.runSt, Prog.eval, htk] at this ⊢
      exact this
  | emit e p ih =>
    intro s h1 h2
    obtain ⟨a1, a2, a3, a4, a5, a6⟩ := ih s h1 h2
    simp only [Prog.runSt, Prog.eval]
    exact ⟨a1, by rw [a2], a3, a4, a5, a6⟩

end Rend

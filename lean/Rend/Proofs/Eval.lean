/-
  Fault-free evaluation of programs against the two reference stores, and its basic laws.
  `Prog.runSt` (what the driver executes) coincides with it when no fault is planned.
-/
import Rend.Orcas.Locked
import Rend.Handlers.Std

namespace Rend

/-- Run a program against the two stores; every backend request is answered by `Mc.exec`. -/
def Prog.eval {ε α : Type} (now : Nat) : Prog ε α → World → List Bytes → α × List ε × World × List Bytes
  | .ret a, w, tk => (a, [], w, tk)
  | .call t r k, w, tk =>
    eval now (k (Mc.exec now (w.get t) r).2) (w.put t (Mc.exec now (w.get t) r).1) tk
  | .draw k, w, tk =>
    match tk with
    | x :: xs => eval now (k x) w xs
    | [] => eval now (k (Bytes.zeros 16)) w []
  | .emit e p, w, tk =>
    ((eval now p w tk).1, e :: (eval now p w tk).2.1, (eval now p w tk).2.2.1, (eval now p w tk).2.2.2)

namespace Prog
variable {ε α β : Type} (now : Nat)

@[simp] theorem eval_pure (a : α) (w : World) (tk : List Bytes) :
    (pure a : Prog ε α).eval now w tk = (a, [], w, tk) := rfl

theorem eval_bind (p : Prog ε α) (f : α → Prog ε β) (w : World) (tk : List Bytes) :
    (p >>= f).eval now w tk =
      (((f (p.eval now w tk).1).eval now (p.eval now w tk).2.2.1 (p.eval now w tk).2.2.2).1,
       (p.eval now w tk).2.1 ++ ((f (p.eval now w tk).1).eval now (p.eval now w tk).2.2.1 (p.eval now w tk).2.2.2).2.1,
       ((f (p.eval now w tk).1).eval now (p.eval now w tk).2.2.1 (p.eval now w tk).2.2.2).2.2.1,
       ((f (p.eval now w tk).1).eval now (p.eval now w tk).2.2.1 (p.eval now w tk).2.2.2).2.2.2) := by
  induction p generalizing w tk with
  | ret a => simp [Bind.bind, Prog.bind, eval]
  | call t r k ih => simp only [Bind.bind, Prog.bind, eval] at *; exact ih _ _ _
  | draw k ih =>
    simp only [Bind.bind, Prog.bind, eval] at *
    cases tk with
    | nil => exact ih _ _ _
    | cons x xs => exact ih _ _ _
  | emit e p ih =>
    simp only [Bind.bind, Prog.bind, eval] at *
    rw [ih]
    simp

@[simp] theorem eval_req (t : Tier) (r : Req) (w : World) (tk : List Bytes) :
    (Prog.req t r : Prog ε Resp).eval now w tk =
      ((Mc.exec now (w.get t) r).2, [], w.put t (Mc.exec now (w.get t) r).1, tk) := rfl

@[simp] theorem eval_out (e : ε) (w : World) (tk : List Bytes) :
    (Prog.out e : Prog ε Unit).eval now w tk = ((), [e], w, tk) := rfl

end Prog

@[simp] theorem World.get_put_same (w : World) (t : Tier) (s : Store) : (w.put t s).get t = s := by
  cases t <;> rfl

@[simp] theorem World.get_put_l1_l2 (w : World) (s : Store) : (w.put .l1 s).get .l2 = w.get .l2 := rfl
@[simp] theorem World.get_put_l2_l1 (w : World) (s : Store) : (w.put .l2 s).get .l1 = w.get .l1 := rfl
@[simp] theorem World.l1_put_l1 (w : World) (s : Store) : (w.put .l1 s).l1 = s := rfl
@[simp] theorem World.l2_put_l1 (w : World) (s : Store) : (w.put .l1 s).l2 = w.l2 := rfl
@[simp] theorem World.l1_put_l2 (w : World) (s : Store) : (w.put .l2 s).l1 = w.l1 := rfl
@[simp] theorem World.l2_put_l2 (w : World) (s : Store) : (w.put .l2 s).l2 = s := rfl
@[simp] theorem World.get_l1 (w : World) : w.get .l1 = w.l1 := rfl
@[simp] theorem World.get_l2 (w : World) : w.get .l2 = w.l2 := rfl

end Rend

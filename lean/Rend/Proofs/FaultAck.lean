/-
  Single-fault runs of the main-port orchestrator over pass-through handlers: if the command is
  ACKNOWLEDGED, the backends are where the fault-free run would have left them or where the
  compensation leaves them — L2 is the specification's new map and the cache invariant holds.
-/
import Rend.Proofs.FaultRun
import Rend.Proofs.OrcaSeq

namespace Rend

/-- Runner state at the start of a command: both backend connections alive, counters at zero. -/
def fresh (w : World) (tk : List Bytes) : RunSt := { w := w, toks := tk }

/-- The fault plans of the property: the connection is cut before or after the request, or the
    backend answers with an ERROR status — one that no command treats as a normal outcome (a miss,
    "exists" and "not stored" are answers, not faults: injected, they are false statements about
    the backend's content, which nothing in front of the backend can detect). -/
def TrueErr (f : Fault) : Prop :=
  match f.kind with
  | .status c => ∃ e, decodeError c = some e ∧ e ≠ .keyNotFound ∧ e ≠ .keyExists ∧ e ≠ .itemNotStored
  | _ => True

theorem std_store_eq (t : Tier) : (Std.handler (ε := OEv) t).store = Std.store t := rfl
theorem std_delete_eq (t : Tier) (k : KeyCmd) :
    (Std.handler (ε := OEv) t).delete k = Std.simple t { op := .delete, key := k.key } := rfl
theorem std_touch_eq (t : Tier) (k : KeyCmd) :
    (Std.handler (ε := OEv) t).touch k = Std.simple t { op := .touch, key := k.key, exptime := k.exptime } := rfl

/-- Case analysis over the fault plan (tier, request index 0 / 1 / later, kind) followed by
    symbolic execution of the runner.  Boolean facts about the stores (does the key exist in L1 /
    L2) are to be split by the caller beforehand and are picked up from the context. -/
macro "fault_tac" hf:ident tier:ident idx:ident kind:ident : tactic =>
  `(tactic| (
    cases $tier:ident <;> cases $kind:ident <;> (by_cases h0 : $idx:ident = 0) <;> (try subst h0) <;>
      (try (by_cases h1 : $idx:ident = 1)) <;> (try subst h1) <;>
      (simp only [TrueErr] at $hf:ident) <;> (try obtain ⟨e, he, hne1, hne2, hne3⟩ := $hf:ident) <;>
      simp [runSt_andThen_store, runSt_andThen_simple, RunSt.exec, fresh, RunSt.dead, RunSt.count, RunSt.bump, RunSt.kill,
        mc_exec_store, mc_exec_delete, mc_exec_touch, decode_notFound, isErr, missErr, World.put, *]))

theorem set_acked (now : Nat) (w : World) (tk : List Bytes) (c : SetCmd) (f : Fault) (hf : TrueErr f) :
    let r := (L1L2.set (Std.handler .l1) (Std.handler .l2) c).runSt now (some f) (fresh w tk)
    r.1 = .ok () →
      r.2.2.w.l2 = (mcStore now w.l2 .set c).1 ∧
      (r.2.2.w.l1 = (mcStore now w.l1 .set c).1 ∨ r.2.2.w.l1 = (mcDelete now w.l1 c.key).1) := by
  obtain ⟨tier, idx, kind⟩ := f
  have s2 : (mcStore now w.l2 .set c).2 = true := by simp [mcStore]
  have s1 : (mcStore now w.l1 .set c).2 = true := by simp [mcStore]
  simp only [L1L2.set, std_store_eq, std_delete_eq]
  cases hd : (mcDelete now w.l1 c.key).2 <;> fault_tac hf tier idx kind

theorem delete_acked (now : Nat) (w : World) (tk : List Bytes) (c : KeyCmd) (f : Fault) (hf : TrueErr f) :
    let r := (L1L2.delete (Std.handler .l1) (Std.handler .l2) c).runSt now (some f) (fresh w tk)
    r.1 = .ok () →
      (mcDelete now w.l2 c.key).2 = true ∧ r.2.2.w.l2 = (mcDelete now w.l2 c.key).1 ∧
      r.2.2.w.l1 = (mcDelete now w.l1 c.key).1 := by
  obtain ⟨tier, idx, kind⟩ := f
  simp only [L1L2.delete, std_delete_eq]
  cases hd2 : (mcDelete now w.l2 c.key).2 <;> cases hd1 : (mcDelete now w.l1 c.key).2 <;> fault_tac hf tier idx kind

/-- add / replace / append / prepend on the main port: acknowledged ⇒ L2 performed it and L1 is
    where the fault-free run leaves it. -/
theorem store_acked (now : Nat) (w : World) (tk : List Bytes) (k : SetKind) (hk : k ≠ .set) (c : SetCmd) (f : Fault)
    (hf : TrueErr f) :
    let r := (L1L2.step (Std.handler .l1) (Std.handler .l2) (.store k c)).runSt now (some f) (fresh w tk)
    r.1 = .ok () →
      (mcStore now w.l2 k c).2 = true ∧ r.2.2.w.l2 = (mcStore now w.l2 k c).1 ∧ r.2.2.w.l1 = (mcStore now w.l1 k c).1 := by
  obtain ⟨tier, idx, kind⟩ := f
  have hfail1 : (mcStore now w.l1 k c).2 = false → (mcStore now w.l1 k c).1 = w.l1 := by
    intro h; cases hl : w.l1.look now c.key <;> cases k <;> simp_all [mcStore]
  have dn : decodeError stNotFound = some .keyNotFound := by decide
  have de : decodeError stExists = some .keyExists := by decide
  have ds : decodeError stNotStored = some .itemNotStored := by decide
  cases k with
  | set => exact absurd rfl hk
  | add =>
    have df := decode_fail .add (by simp)
    simp only [L1L2.step, L1L2.add, std_store_eq]
    cases h2 : (mcStore now w.l2 .add c).2 <;> cases h1 : (mcStore now w.l1 .add c).2 <;>
      (try have hu := hfail1 h1) <;> fault_tac hf tier idx kind
  | replace =>
    have df := decode_fail .replace (by simp)
    simp only [L1L2.step, L1L2.replace, std_store_eq]
    cases h2 : (mcStore now w.l2 .replace c).2 <;> cases h1 : (mcStore now w.l1 .replace c).2 <;>
      (try have hu := hfail1 h1) <;> fault_tac hf tier idx kind
  | append =>
    have df := decode_fail .append (by simp)
    simp only [L1L2.step, L1L2.pend, std_store_eq]
    cases h2 : (mcStore now w.l2 .append c).2 <;> cases h1 : (mcStore now w.l1 .append c).2 <;>
      (try have hu := hfail1 h1) <;> fault_tac hf tier idx kind
  | prepend =>
    have df := decode_fail .prepend (by simp)
    simp only [L1L2.step, L1L2.pend, std_store_eq]
    cases h2 : (mcStore now w.l2 .prepend c).2 <;> cases h1 : (mcStore now w.l1 .prepend c).2 <;>
      (try have hu := hfail1 h1) <;> fault_tac hf tier idx kind

theorem touch_acked (now : Nat) (w : World) (tk : List Bytes) (c : KeyCmd) (f : Fault) (hf : TrueErr f) :
    let r := (L1L2.touch (Std.handler .l1) (Std.handler .l2) c).runSt now (some f) (fresh w tk)
    r.1 = .ok () →
      (mcTouch now w.l2 c.key c.exptime).2 = true ∧ r.2.2.w.l2 = (mcTouch now w.l2 c.key c.exptime).1 ∧
      r.2.2.w.l1 = (mcTouch now w.l1 c.key c.exptime).1 := by
  obtain ⟨tier, idx, kind⟩ := f
  simp only [L1L2.touch, std_touch_eq]
  cases hd2 : (mcTouch now w.l2 c.key c.exptime).2 <;> cases hd1 : (mcTouch now w.l1 c.key c.exptime).2 <;>
    fault_tac hf tier idx kind

theorem inv_delete (now : Nat) (w : World) (key : Bytes) (hinv : CacheInv now w) :
    CacheInv now { l1 := (mcDelete now w.l1 key).1, l2 := (mcDelete now w.l2 key).1 } := by
  intro k a ha
  by_cases hk : k = key
  · subst hk
    simp only at ha
    cases h1 : w.l1.look now k <;> simp [mcDelete, h1, Store.look_set_none] at ha
  · simp only at ha ⊢
    rw [mcDelete_other _ _ _ _ hk] at ha
    rw [mcDelete_other _ _ _ _ hk]
    exact hinv k a ha

theorem inv_set_compensated (now : Nat) (w : World) (c : SetCmd) (hinv : CacheInv now w) :
    CacheInv now { l1 := (mcDelete now w.l1 c.key).1, l2 := (mcStore now w.l2 .set c).1 } := by
  intro k a ha
  by_cases hk : k = c.key
  · subst hk
    simp only at ha
    cases h1 : w.l1.look now c.key <;> simp [mcDelete, h1, Store.look_set_none] at ha
  · simp only at ha ⊢
    rw [mcDelete_other _ _ _ _ hk] at ha
    rw [mcStore_other _ _ _ _ _ hk]
    exact hinv k a ha

theorem inv_of_fields {now : Nat} {w' : World} {a b : Store} (h1 : w'.l1 = a) (h2 : w'.l2 = b)
    (h : CacheInv now { l1 := a, l2 := b }) : CacheInv now w' := by
  cases w'; simp only at h1 h2; subst h1; subst h2; exact h

/-- The write commands of the main port. -/
inductive IsWrite : Cmd → Prop where
  | store (k : SetKind) (c : SetCmd) : IsWrite (.store k c)
  | delete (c : KeyCmd) : IsWrite (.delete c)
  | touch (c : KeyCmd) : IsWrite (.touch c)

/-- **An acknowledged write under any single fault is a correct write.**  Main port, pass-through
    handlers, any state satisfying the cache invariant, any fault plan of the property (cut before /
    after any request of either tier, or a true error status in answer to it): if the orchestrator
    returns nil — the client is told STORED / DELETED / TOUCHED — then the specification's map
    accepted the command, L2 is the specification's new map, and the cache invariant still holds:
    in particular L1 does not hold the value from before. -/
theorem acked_write_is_correct (now : Nat) (w : World) (tk : List Bytes) (c : Cmd) (hc : IsWrite c) (f : Fault)
    (hf : TrueErr f) (hinv : CacheInv now w)
    (hok : ((L1L2.step (Std.handler .l1) (Std.handler .l2) c).runSt now (some f) (fresh w tk)).1 = .ok ()) :
    (Spec.step now w.l2 c).2 = .ok ∧
    ((L1L2.step (Std.handler .l1) (Std.handler .l2) c).runSt now (some f) (fresh w tk)).2.2.w.l2 = (Spec.step now w.l2 c).1 ∧
    CacheInv now ((L1L2.step (Std.handler .l1) (Std.handler .l2) c).runSt now (some f) (fresh w tk)).2.2.w := by
  cases hc with
  | store k sc =>
    rw [spec_step_store]
    by_cases hk : k = .set
    · subst hk
      have h := set_acked now w tk sc f hf hok
      have s2 : (mcStore now w.l2 .set sc).2 = true := by simp [mcStore]
      refine ⟨by simp [s2], h.1, ?_⟩
      rcases h.2 with h1 | h1
      · exact inv_of_fields h1 h.1 (inv_store now w .set .set sc Pairing.set_set hinv s2)
      · exact inv_of_fields h1 h.1 (inv_set_compensated now w sc hinv)
    · have h := store_acked now w tk k hk sc f hf hok
      refine ⟨by simp [h.1], h.2.1, ?_⟩
      have hp : Pairing k k := by cases k <;> first | exact absurd rfl hk | constructor
      exact inv_of_fields h.2.2 h.2.1 (inv_store now w k k sc hp hinv h.1)
  | delete kc =>
    rw [spec_step_delete]
    have h := delete_acked now w tk kc f hf hok
    refine ⟨by simp [h.1], h.2.1, ?_⟩
    exact inv_of_fields h.2.2 h.2.1 (inv_delete now w kc.key hinv)
  | touch kc =>
    rw [spec_step_touch]
    have h := touch_acked now w tk kc f hf hok
    refine ⟨by simp [h.1], h.2.1, ?_⟩
    exact inv_of_fields h.2.2 h.2.1 (inv_touch now w kc.key kc.exptime hinv)

/-! ### the batch port -/

theorem batch_set_acked (now : Nat) (w : World) (tk : List Bytes) (c : SetCmd) (f : Fault) (hf : TrueErr f) :
    let r := (L1L2Batch.set (Std.handler .l1) (Std.handler .l2) c).runSt now (some f) (fresh w tk)
    r.1 = .ok () →
      r.2.2.w.l2 = (mcStore now w.l2 .set c).1 ∧
      (r.2.2.w.l1 = (mcStore now w.l1 .replace c).1 ∨ r.2.2.w.l1 = (mcDelete now w.l1 c.key).1) := by
  obtain ⟨tier, idx, kind⟩ := f
  have s2 : (mcStore now w.l2 .set c).2 = true := by simp [mcStore]
  have hfail1 : (mcStore now w.l1 .replace c).2 = false → (mcStore now w.l1 .replace c).1 = w.l1 := by
    intro h; cases hl : w.l1.look now c.key <;> simp_all [mcStore]
  have df := decode_fail .replace (by simp)
  simp only [L1L2Batch.set, std_store_eq, std_delete_eq]
  cases hd : (mcDelete now w.l1 c.key).2 <;> cases h1 : (mcStore now w.l1 .replace c).2 <;>
    (try have hu := hfail1 h1) <;> fault_tac hf tier idx kind

theorem batch_addReplace_acked (now : Nat) (w : World) (tk : List Bytes) (k : SetKind) (hk : k = .add ∨ k = .replace)
    (c : SetCmd) (f : Fault) (hf : TrueErr f) :
    let r := (L1L2Batch.addReplace (Std.handler .l1) (Std.handler .l2) k c).runSt now (some f) (fresh w tk)
    r.1 = .ok () →
      (mcStore now w.l2 k c).2 = true ∧ r.2.2.w.l2 = (mcStore now w.l2 k c).1 ∧
      r.2.2.w.l1 = (mcStore now w.l1 .replace c).1 := by
  obtain ⟨tier, idx, kind⟩ := f
  have hfail1 : (mcStore now w.l1 .replace c).2 = false → (mcStore now w.l1 .replace c).1 = w.l1 := by
    intro h; cases hl : w.l1.look now c.key <;> simp_all [mcStore]
  have dfr := decode_fail .replace (by simp)
  have dfa := decode_fail .add (by simp)
  simp only [L1L2Batch.addReplace, std_store_eq]
  rcases hk with rfl | rfl
  · cases h2 : (mcStore now w.l2 .add c).2 <;> cases h1 : (mcStore now w.l1 .replace c).2 <;>
      (try have hu := hfail1 h1) <;> fault_tac hf tier idx kind
  · cases h2 : (mcStore now w.l2 .replace c).2 <;> cases h1 : (mcStore now w.l1 .replace c).2 <;>
      (try have hu := hfail1 h1) <;> fault_tac hf tier idx kind

theorem batch_touch_acked (now : Nat) (w : World) (tk : List Bytes) (c : KeyCmd) (f : Fault) (hf : TrueErr f) :
    let r := (L1L2Batch.touch (Std.handler .l1) (Std.handler .l2) c).runSt now (some f) (fresh w tk)
    r.1 = .ok () →
      (mcTouch now w.l2 c.key c.exptime).2 = true ∧ r.2.2.w.l2 = (mcTouch now w.l2 c.key c.exptime).1 ∧
      r.2.2.w.l1 = (mcTouch now w.l1 c.key c.exptime).1 := by
  obtain ⟨tier, idx, kind⟩ := f
  simp only [L1L2Batch.touch, std_touch_eq]
  cases hd2 : (mcTouch now w.l2 c.key c.exptime).2 <;> cases hd1 : (mcTouch now w.l1 c.key c.exptime).2 <;>
    fault_tac hf tier idx kind

/-- **The same on the batch port.** -/
theorem batch_acked_write_is_correct (now : Nat) (w : World) (tk : List Bytes) (c : Cmd) (hc : IsWrite c) (f : Fault)
    (hf : TrueErr f) (hinv : CacheInv now w)
    (hok : ((L1L2Batch.step (Std.handler .l1) (Std.handler .l2) c).runSt now (some f) (fresh w tk)).1 = .ok ()) :
    (Spec.step now w.l2 c).2 = .ok ∧
    ((L1L2Batch.step (Std.handler .l1) (Std.handler .l2) c).runSt now (some f) (fresh w tk)).2.2.w.l2 = (Spec.step now w.l2 c).1 ∧
    CacheInv now ((L1L2Batch.step (Std.handler .l1) (Std.handler .l2) c).runSt now (some f) (fresh w tk)).2.2.w := by
  cases hc with
  | store k sc =>
    rw [spec_step_store]
    cases k with
    | set =>
      have h := batch_set_acked now w tk sc f hf hok
      have s2 : (mcStore now w.l2 .set sc).2 = true := by simp [mcStore]
      refine ⟨by simp [s2], h.1, ?_⟩
      rcases h.2 with h1 | h1
      · exact inv_of_fields h1 h.1 (inv_store now w .set .replace sc Pairing.set_replace hinv s2)
      · exact inv_of_fields h1 h.1 (inv_set_compensated now w sc hinv)
    | add =>
      have h := batch_addReplace_acked now w tk .add (Or.inl rfl) sc f hf hok
      exact ⟨by simp [h.1], h.2.1, inv_of_fields h.2.2 h.2.1 (inv_store now w .add .replace sc Pairing.add_replace hinv h.1)⟩
    | replace =>
      have h := batch_addReplace_acked now w tk .replace (Or.inr rfl) sc f hf hok
      exact ⟨by simp [h.1], h.2.1, inv_of_fields h.2.2 h.2.1 (inv_store now w .replace .replace sc Pairing.replace_replace hinv h.1)⟩
    | append =>
      have h := store_acked now w tk .append (by simp) sc f hf hok
      exact ⟨by simp [h.1], h.2.1, inv_of_fields h.2.2 h.2.1 (inv_store now w .append .append sc Pairing.append_append hinv h.1)⟩
    | prepend =>
      have h := store_acked now w tk .prepend (by simp) sc f hf hok
      exact ⟨by simp [h.1], h.2.1, inv_of_fields h.2.2 h.2.1 (inv_store now w .prepend .prepend sc Pairing.prepend_prepend hinv h.1)⟩
  | delete kc =>
    rw [spec_step_delete]
    have h := delete_acked now w tk kc f hf hok
    exact ⟨by simp [h.1], h.2.1, inv_of_fields h.2.2 h.2.1 (inv_delete now w kc.key hinv)⟩
  | touch kc =>
    rw [spec_step_touch]
    have h := batch_touch_acked now w tk kc f hf hok
    exact ⟨by simp [h.1], h.2.1, inv_of_fields h.2.2 h.2.1 (inv_touch now w kc.key kc.exptime hinv)⟩

end Rend

/-
  set → get through the chunked handler returns exactly the bytes and flags written.
-/
import Rend.Proofs.ChunkedPrograms

namespace Rend.Chunked
open Rend

theorem look_set_same (s : Store) (now : Nat) (k : Bytes) (it : Item) (hl : it.live now = true) :
    (s.set k (some it)).look now k = some it := by
  simp [Store.look, Store.set, hl]

theorem look_set_other (s : Store) (now : Nat) (k k' : Bytes) (v : Option Item) (h : k' ≠ k) :
    (s.set k v).look now k' = s.look now k' := by
  simp [Store.look, Store.set, h]

/-- Fault-free `writeChunks`: succeeds, stores every chunk `i..i+n-1`, touches nothing else. -/
theorem eval_writeChunks {ε} (now : Nat) (t : Tier) (c : SetCmd) (token : Bytes) (ds : Nat) (tk : List Bytes) :
    ∀ (n i : Nat) (w : World),
      ((writeChunks (ε := ε) t c token ds n i).eval now w tk).1 = .ok () ∧
      ((writeChunks (ε := ε) t c token ds n i).eval now w tk).2.1 = [] ∧
      (∀ j, i ≤ j → j < i + n →
        (((writeChunks (ε := ε) t c token ds n i).eval now w tk).2.2.1.get t) (chunkKey c.key j) =
          some ⟨token ++ chunkPayload c.data ds j, c.flags, deadlineOf now c.exptime⟩) ∧
      (∀ k, (∀ j, i ≤ j → j < i + n → k ≠ chunkKey c.key j) →
        (((writeChunks (ε := ε) t c token ds n i).eval now w tk).2.2.1.get t) k = (w.get t) k)
  | 0, i, w => by
    refine ⟨rfl, rfl, ?_, ?_⟩
    · intro j h1 h2; omega
    · intro k _; rfl
  | n + 1, i, w => by
    simp only [writeChunks, Prog.eval_bind, Prog.eval_req, Mc.exec, List.nil_append]
    obtain ⟨h1, h2, h3, h4⟩ := eval_writeChunks (ε := ε) now t c token ds tk n (i + 1)
      (w.put t ((w.get t).set (chunkKey c.key i) (some ⟨token ++ chunkPayload c.data ds i, c.flags, deadlineOf now c.exptime⟩)))
    refine ⟨h1, h2, ?_, ?_⟩
    · intro j hj1 hj2
      by_cases hji : j = i
      · subst hji
        rw [h4 _ (by intro j' hj' _ he; have := (chunkKey_inj _ _ _ _ he).2; omega)]
        simp [Store.set]
      · exact h3 j (by omega) (by omega)
    · intro k hk
      rw [h4 k (fun j hj1 hj2 => hk j (by omega) (by omega))]
      have : k ≠ chunkKey c.key i := hk i (Nat.le_refl _) (by omega)
      simp [Store.set, this]

/-- When all entries `i..i+n-1` are served, `presentItems` lists them. -/
theorem presentItems_all (now : Nat) (s : Store) (key : Bytes) (it : Nat → Item) :
    ∀ n i, (∀ j, i ≤ j → j < i + n → s.look now (chunkKey key j) = some (it j)) →
      presentItems now s key n i = (List.range' i n).map it
  | 0, _, _ => rfl
  | n + 1, i, h => by
    simp only [presentItems, h i (Nat.le_refl _) (by omega), List.range'_succ, List.map_cons]
    rw [presentItems_all now s key it n (i + 1) (fun j h1 h2 => h j (by omega) (by omega))]

/-- **Round trip.**  A `set` through the chunked handler followed by a `get` of the same key
    returns exactly the bytes and the flags that were set — for every value length, every key of
    the admitted lengths, every flags word, every token and every prior content of the store. -/
theorem set_get_roundtrip {ε} (now : Nat) (t : Tier) (c : SetCmd) (g : GetKey) (w : World) (tok : Bytes) (tk : List Bytes)
    (hg : g.key = c.key) (hkey : c.key.length ≤ 250) (hd : c.data.length < 4294967296) (hf : c.flags < 4294967296)
    (ht : tok.length = 16) (hlive : deadlineOf now c.exptime = 0 ∨ now < deadlineOf now c.exptime) :
    let w1 := ((setCommon (ε := ε) t now .set c).eval now w (tok :: tk)).2.2.1
    ((setCommon (ε := ε) t now .set c).eval now w (tok :: tk)).1 = .ok () ∧
    ((getLoop (ε := ε) t [g]).eval now w1 tk).1 =
      ([{ key := g.key, data := c.data, opq := g.opq, flags := c.flags, quiet := g.quiet }], none) := by
  let h : Intent := intentOf c tok
  have hds := h.ds_pos hkey
  have hspec := h.n_spec hkey
  -- the metadata record the set writes
  let md : Meta := { length := c.data.length, origFlags := c.flags, numChunks := h.n, chunkSize := h.ds,
                     instime := now % 4294967296,
                     exptime := (Gen.exptime (now : Int) (BitVec.ofNat 32 c.exptime)).1.toNat, token := tok }
  have hn32 : h.n < 4294967296 := by
    have h3 : h.n * 847 ≤ h.n * h.ds := Nat.mul_le_mul_left _ hds.1
    have h4 : h.data.length < 4294967296 := hd
    omega
  have hwf : md.WF := ⟨hd, hf, hn32, by show h.ds < 4294967296; omega, by show now % 4294967296 < 4294967296; omega,
    (Gen.exptime (now : Int) (BitVec.ofNat 32 c.exptime)).1.isLt, ht⟩
  have hliveB : ∀ x f, (⟨x, f, deadlineOf now c.exptime⟩ : Item).live now = true := by
    intro x f
    simp only [Item.live]
    rcases hlive with h0 | h1
    · simp [h0]
    · simp [h1]
  -- run the set
  let wm := w.put t ((w.get t).set (metaKey c.key) (some ⟨encodeMeta md, c.flags, deadlineOf now c.exptime⟩))
  obtain ⟨r1, r2, r3, r4⟩ := eval_writeChunks (ε := ε) now t c tok h.ds tk h.n 0 wm
  have hset : (setCommon (ε := ε) t now .set c).eval now w (tok :: tk) =
      (writeChunks (ε := ε) t c tok h.ds h.n 0).eval now wm tk := by
    simp only [setCommon, Prog.token, Prog.eval_bind, Prog.eval, SetKind.op, Mc.exec, List.nil_append]
    rfl
  simp only [hset]
  refine ⟨r1, ?_⟩
  -- the store after the set, as far as the key's entries go
  generalize hw1 : ((writeChunks (ε := ε) t c tok h.ds h.n 0).eval now wm tk).2.2.1 = w1 at r3 r4
  have hmeta : (w1.get t).look now (metaKey c.key) = some ⟨encodeMeta md, c.flags, deadlineOf now c.exptime⟩ := by
    have : (w1.get t) (metaKey c.key) = some ⟨encodeMeta md, c.flags, deadlineOf now c.exptime⟩ := by
      rw [r4 _ (fun j _ _ => metaKey_ne_chunkKey _ _ _)]
      simp [wm, Store.set]
    exact look_some_iff.mpr ⟨this, hliveB _ _⟩
  have hchunks : ∀ j, 0 ≤ j → j < 0 + h.n → (w1.get t).look now (chunkKey c.key j) =
      some ⟨tok ++ chunkPayload c.data h.ds j, c.flags, deadlineOf now c.exptime⟩ :=
    fun j h1 h2 => look_some_iff.mpr ⟨r3 j h1 h2, hliveB _ _⟩
  -- run the get
  simp only [getLoop, Prog.eval_bind, Prog.eval_req, Mc.exec, hg, hmeta, put_get_self, metaOf, decode_encode md hwf,
    eval_readChunks_getq, Prog.eval_pure, List.append_nil]
  have hpi := presentItems_all now (w1.get t) c.key
    (fun j => ⟨tok ++ chunkPayload c.data h.ds j, c.flags, deadlineOf now c.exptime⟩) h.n 0 hchunks
  have hmdn : md.numChunks = h.n := rfl
  rw [hmdn, hpi]
  have hfold : ((List.range' 0 h.n).map (fun j => (⟨tok ++ chunkPayload c.data h.ds j, c.flags, deadlineOf now c.exptime⟩ : Item))).foldl
      (fun s it => hitStep md s it.data) { buf := Bytes.zeros md.length } =
      { buf := c.data, chunk := h.n, miss := false, lastErr := none, sawNoop := false } := by
    rw [List.foldl_map]
    have hz : ({ buf := Bytes.zeros md.length } : ReadSt) =
        { buf := partialBuf h.data h.ds 0, chunk := 0, miss := false, lastErr := none, sawNoop := false } := by
      rw [partialBuf_zero]; rfl
    have := foldl_own md h rfl rfl ht rfl h.n 0 none false (by rw [Nat.zero_add, Nat.mul_comm]; exact hspec.2)
    rw [List.foldl_map] at this
    rw [hz]
    simp only [Intent.chunkVal] at this
    refine this.trans ?_
    rw [Nat.zero_add, partialBuf_full _ _ _ (by rw [Nat.mul_comm]; exact hspec.1)]
    rfl
  simp only [hfold, List.length_map, List.length_range', bne_self_eq_false, Bool.false_or, Bool.false_eq_true, if_false]
  rfl

end Rend.Chunked

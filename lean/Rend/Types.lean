/-
  Protocol-agnostic request / response types (package `common`) and responder events.
  Core-only.
-/
import Rend.Base.Prog

namespace Rend

inductive SetKind where
  | set | add | replace | append | prepend
  deriving Repr, DecidableEq, Inhabited

/-- `common.RequestType` (values regenerated in `Gen.common_Request*`). -/
inductive ReqType where
  | unknown | get | gat | getE | set | add | replace | append | prepend | delete | touch
  | noop | quit | version | stat
  deriving Repr, DecidableEq, Inhabited

def ReqType.toNat : ReqType → Nat
  | .unknown => Gen.common_RequestUnknown | .get => Gen.common_RequestGet | .gat => Gen.common_RequestGat
  | .getE => Gen.common_RequestGetE | .set => Gen.common_RequestSet | .add => Gen.common_RequestAdd
  | .replace => Gen.common_RequestReplace | .append => Gen.common_RequestAppend
  | .prepend => Gen.common_RequestPrepend | .delete => Gen.common_RequestDelete
  | .touch => Gen.common_RequestTouch | .noop => Gen.common_RequestNoop | .quit => Gen.common_RequestQuit
  | .version => Gen.common_RequestVersion | .stat => Gen.common_RequestStat

def SetKind.reqType : SetKind → ReqType
  | .set => .set | .add => .add | .replace => .replace | .append => .append | .prepend => .prepend

def SetKind.op : SetKind → Op
  | .set => .set | .add => .add | .replace => .replace | .append => .append | .prepend => .prepend

structure SetCmd where
  key     : Bytes
  flags   : Nat := 0
  exptime : Nat := 0
  data    : Bytes := []
  opq  : Nat := 0
  quiet   : Bool := false
  deriving Repr, DecidableEq, Inhabited

/-- One key of a (batch) get. -/
structure GetKey where
  key    : Bytes
  opq : Nat := 0
  quiet  : Bool := false
  deriving Repr, DecidableEq, Inhabited

structure GetCmd where
  keys       : List GetKey
  noopOpaque : Nat := 0
  noopEnd    : Bool := false
  deriving Repr, DecidableEq, Inhabited

structure KeyCmd where      -- delete / touch / gat
  key     : Bytes
  exptime : Nat := 0
  opq  : Nat := 0
  quiet   : Bool := false
  deriving Repr, DecidableEq, Inhabited

inductive Cmd where
  | store (k : SetKind) (c : SetCmd)
  | get (g : GetCmd)
  | getE (g : GetCmd)
  | gat (c : KeyCmd)
  | delete (c : KeyCmd)
  | touch (c : KeyCmd)
  | noop (opq : Nat)
  | quit (opq : Nat) (quiet : Bool)
  | version (opq : Nat)
  | stat (opq : Nat)
  | unknown
  deriving Repr, DecidableEq, Inhabited

def Cmd.reqType : Cmd → ReqType
  | .store k _ => k.reqType | .get _ => .get | .getE _ => .getE | .gat _ => .gat | .delete _ => .delete
  | .touch _ => .touch | .noop _ => .noop | .quit _ _ => .quit | .version _ => .version | .stat _ => .stat
  | .unknown => .unknown

/-- `req.GetOpaque()` / `req.IsQuiet()` as used by `Orca.Error`. -/
def Cmd.opq : Cmd → Nat
  | .store _ c => c.opq | .get _ => 0 | .getE _ => 0 | .gat c => c.opq | .delete c => c.opq
  | .touch c => c.opq | .noop o => o | .quit o _ => o | .version o => o | .stat o => o | .unknown => 0
def Cmd.quiet : Cmd → Bool
  | .store _ c => c.quiet | .gat c => c.quiet | .delete c => c.quiet | .touch c => c.quiet | .quit _ q => q
  | _ => false

/-- `common.GetResponse` / `common.GetEResponse`. -/
structure GetResp where
  key     : Bytes
  data    : Bytes := []
  opq  : Nat := 0
  flags   : Nat := 0
  exptime : Nat := 0
  miss    : Bool := false
  quiet   : Bool := false
  deriving Repr, DecidableEq, Inhabited

/-- Handler-level failure. -/
inductive HErr where
  | app (e : Err)     -- a memcached status
  | io                -- connection failure
  | panic             -- the Go code panics in the connection's goroutine (nil dereference etc.)
  | crash             -- a panic in a goroutine nobody recovers from: the process terminates
  deriving Repr, DecidableEq, Inhabited

abbrev HRes (α : Type) := Except HErr α

/-- Calls on the `protocol.Responder`. -/
inductive REv where
  | stored (k : SetKind) (opq : Nat) (quiet : Bool)
  | get (r : GetResp)
  | getEnd (opq : Nat) (noopEnd : Bool)
  | getE (r : GetResp)
  | gat (r : GetResp)
  | deleted (opq : Nat)
  | touched (opq : Nat)
  | noop (opq : Nat)
  | quit (opq : Nat) (quiet : Bool)
  | version (opq : Nat)
  | stat (opq : Nat)
  | error (opq : Nat) (rt : ReqType) (e : Err) (quiet : Bool)
  deriving Repr, DecidableEq, Inhabited

/-- Events an orchestrator emits: responder calls and key-lock operations. -/
inductive OEv where
  | resp (e : REv)
  | acquire (stripe : Nat) (read : Bool)
  | release (stripe : Nat) (read : Bool)
  deriving Repr, DecidableEq, Inhabited

/-- The handler interface (`handlers.Handler`), as programs over one backend tier. -/
structure Handler (ε : Type) where
  store  : SetKind → SetCmd → Prog ε (HRes Unit)
  get    : List GetKey → Prog ε (List GetResp × Option HErr)
  getE   : List GetKey → Prog ε (List GetResp × Option HErr)
  gat    : KeyCmd → Prog ε (HRes GetResp)
  delete : KeyCmd → Prog ε (HRes Unit)
  touch  : KeyCmd → Prog ε (HRes Unit)

end Rend

/-
  handlers/memcached/cluster/ketama.go: the ketama continuum.  Core-only.

  `md5` is a parameter (uninterpreted); labels are any type with a decidable total order `lle`
  (Go compares the label strings bytewise).  `sort.Sort` with the (point, label) order is
  modelled by `mergeSort` (the sorted arrangement of a list under a total antisymmetric order is
  unique, so the sorting algorithm does not matter); `sort.Search` on the sorted ring is modelled
  by a linear search for the first point ≥ the location.
-/
import Rend.Base.Bytes

namespace Rend.Cluster

variable {L : Type} [DecidableEq L]

/-- little-endian uint32 at offset `off` of a digest -/
def le32 (d : Bytes) (off : Nat) : Nat :=
  (d.getD off 0).toNat + (d.getD (off + 1) 0).toNat * 256 + (d.getD (off + 2) 0).toNat * 65536 +
    (d.getD (off + 3) 0).toNat * 16777216

/-- A point of the ring: (location, owner). -/
abbrev Point (L : Type) := Nat × L

/-- The order of `points.Less` (after the tie-break fix): by location, then by label. -/
def ple (lle : L → L → Bool) (a b : Point L) : Bool :=
  a.1 < b.1 || (a.1 == b.1 && lle a.2 b.2)

/-- Round a positive rational a/b to a binary floating point number with `p` bits of precision
    (round to nearest, ties to even); the result is (mantissa, exponent) meaning mantissa / 2^exponent
    when `neg = false`, mantissa * 2^exponent otherwise — kept simple: we only need values in
    (2^-12, 2^12), so the result is returned as a rational (num, den). -/
def roundBits (p : Nat) (a b : Nat) : Nat × Nat :=
  if a = 0 ∨ b = 0 then (0, 1)
  else
    -- (num, den) with num/den = (a/b) * 2^k for the normalising k; remember the scale separately
    let rec scale (fuel : Nat) (num den s_num s_den : Nat) : Nat × Nat × Nat × Nat :=
      match fuel with
      | 0 => (num, den, s_num, s_den)
      | fuel + 1 =>
        if num / den < 2 ^ (p - 1) then scale fuel (num * 2) den (s_num * 2) s_den
        else if num / den ≥ 2 ^ p then scale fuel num (den * 2) s_num (s_den * 2)
        else (num, den, s_num, s_den)
    let (num, den, sn, sd) := scale 200 a b 1 1
    let q := num / den
    let r := num % den
    -- round half to even
    let m := if 2 * r < den then q else if 2 * r > den then q + 1 else (if q % 2 = 0 then q else q + 1)
    -- value = m * sd / sn
    (m * sd, sn)

/-- `limit := int(float32(float64(pct) * 40.0 * float64(numbuckets)))` with
    `pct := float32(weight) / float32(totalweight)`, all weights 1 (so totalweight = numbuckets).
    float32 operations round to 24 bits; the float64 products of a 24-bit, a 6-bit and a ≤ 6-bit
    integer mantissa are exact. -/
def limitOf (n : Nat) : Nat :=
  if n = 0 then 0
  else
    let (pn, pd) := roundBits 24 1 n             -- pct
    let (xn, xd) := roundBits 24 (pn * 40 * n) pd
    xn / xd                                       -- int(): truncation

/-- The points a bucket contributes: `limit` digests of "<label>-<k>", four locations each. -/
def pointsOf (md5 : Bytes → Bytes) (name : L → Bytes) (limit : Nat) (l : L) : List (Point L) :=
  (List.range limit).flatMap fun k =>
    let d := md5 (name l ++ [45] ++ Bytes.decDigits k)
    (List.range 4).map fun h => (le32 d (4 * h), l)

def allPoints (md5 : Bytes → Bytes) (name : L → Bytes) (limit : Nat) (labels : List L) : List (Point L) :=
  labels.flatMap (pointsOf md5 name limit)

/-- `Continuum.Reset`: the sorted ring. -/
def ring (md5 : Bytes → Bytes) (name : L → Bytes) (lle : L → L → Bool) (limit : Nat) (labels : List L) : List (Point L) :=
  (allPoints md5 name limit labels).mergeSort (ple lle)

/-- `Continuum.Bucket`: the owner of the first point at or after the location, wrapping around. -/
def bucketAt (r : List (Point L)) (loc : Nat) : Option L :=
  match r.find? (fun p => decide (loc ≤ p.1)) with
  | some p => some p.2
  | none => r.head?.map (·.2)

/-- `Continuum.Hash` -/
def hashKey (md5 : Bytes → Bytes) (r : List (Point L)) (key : Bytes) : Option L :=
  bucketAt r (le32 (md5 key) 0)

end Rend.Cluster

/-
  orcas/locked.go: the key-locking wrapper.  Core-only.
  The lock / unlock / recover shape of each method is NOT written here by hand: it is read
  from `Gen.lockedFacts`, extracted from the source on every run.
-/
import Rend.Orcas.Orcas
import Rend.Gen.Facts

namespace Rend
open Prog

/-- `hash/fnv` New32a (FNV-1a, 32 bit). -/
def fnv1a32 (b : Bytes) : Nat :=
  b.foldl (fun h c => ((h ^^^ c.toNat) * 16777619) % 4294967296) 2166136261

/-- `getlock`: bucket := int(h.Sum32()) & (len(locks) - 1), with len(locks) = 1 << concurrency. -/
def stripeOf (bits : Nat) (key : Bytes) : Nat := fnv1a32 key % (2 ^ bits)

def lockedFact (name : String) : Gen.LockedFact :=
  match Gen.lockedFacts.find? (fun f => f.name == name) with
  | some f => f
  | none => { name := name, usesLock := false, readLock := false, deferUnlock := false, inlineUnlock := false,
              recovers := false, recoverUnlocks := false, repanics := false, wrappedCall := "", gatesGetEnd := false }

def isPanic {α} (r : HRes α) : Bool :=
  match r with
  | .error .panic => true
  | _ => false

def isCrash {α} (r : HRes α) : Bool :=
  match r with
  | .error .crash => true
  | _ => false

/-- A method of the shape `lock := getlock(key, mode); lock.Lock(); defer lock.Unlock(); return wrapped.M(req)`. -/
def lockedSingle (f : Gen.LockedFact) (bits : Nat) (key : Bytes) (p : OProg (HRes Unit)) : OProg (HRes Unit) :=
  if !f.usesLock then p
  else do
    let s := stripeOf bits key
    Prog.out (.acquire s f.readLock)
    let r ← p
    if isCrash r then pure r
    else if isPanic r then
      -- only a deferred unlock (or a recover that unlocks) runs when the wrapped call panics
      if f.deferUnlock || (f.recovers && f.recoverUnlocks) then Prog.out (.release s f.readLock)
      if f.recovers && !f.repanics then pure (.ok ()) else pure r
    else do
      if f.deferUnlock || f.inlineUnlock then Prog.out (.release s f.readLock)
      pure r

/-- The end-of-get marker among the events. -/
def isGetEndEv : OEv → Bool
  | .resp (.getEnd _ _) => true
  | _ => false

/-- `Get` / `GetE`: one sub-request per key, each under that key's lock; the last one carries the
    terminator; stop at the first error. -/
def lockedGetLoop (f : Gen.LockedFact) (bits : Nat) (sub : GetCmd → OProg (HRes Unit)) (g : GetCmd) :
    List GetKey → OProg (HRes Unit)
  | [] => pure (.ok ())
  | k :: rest => do
    let last := rest.isEmpty
    let subreq : GetCmd := { keys := [k], noopOpaque := if last then g.noopOpaque else 0, noopEnd := if last then g.noopEnd else false }
    let s := stripeOf bits k.key
    if f.usesLock then Prog.out (.acquire s f.readLock)
    -- the responder handed to the wrapped orchestrator holds the end-of-get marker back for
    -- every key but the last
    let r ← if f.gatesGetEnd && !last then Prog.filterEmit (fun e => !isGetEndEv e) (sub subreq) else sub subreq
    if isCrash r then pure r
    else if isPanic r then
      if f.usesLock && (f.deferUnlock || (f.recovers && f.recoverUnlocks)) then Prog.out (.release s f.readLock)
      if f.recovers && !f.repanics then pure (.ok ()) else pure r
    else do
      if f.usesLock && (f.deferUnlock || f.inlineUnlock) then Prog.out (.release s f.readLock)
      match r with
      | .ok () => lockedGetLoop f bits sub g rest
      | e => pure e

def Locked.step (bits : Nat) (wrapped : Cmd → OProg (HRes Unit)) (c : Cmd) : OProg (HRes Unit) :=
  match c with
  | .store .set s => lockedSingle (lockedFact "Set") bits s.key (wrapped c)
  | .store .add s => lockedSingle (lockedFact "Add") bits s.key (wrapped c)
  | .store .replace s => lockedSingle (lockedFact "Replace") bits s.key (wrapped c)
  | .store .append s => lockedSingle (lockedFact "Append") bits s.key (wrapped c)
  | .store .prepend s => lockedSingle (lockedFact "Prepend") bits s.key (wrapped c)
  | .delete k => lockedSingle (lockedFact "Delete") bits k.key (wrapped c)
  | .touch k => lockedSingle (lockedFact "Touch") bits k.key (wrapped c)
  | .gat k => lockedSingle (lockedFact "Gat") bits k.key (wrapped c)
  | .get g => lockedGetLoop (lockedFact "Get") bits (fun sub => wrapped (.get sub)) g g.keys
  | .getE g => lockedGetLoop (lockedFact "GetE") bits (fun sub => wrapped (.getE sub)) g g.keys
  | _ => wrapped c

end Rend

/-
  orcas/l1only.go, l1l2.go, l1l2batch.go: the orchestrators, as programs over two abstract
  handlers.  Core-only.  Transcribed method by method from the Go source (metrics omitted).

  Conventions: an orchestrator method returns `HRes Unit` — `.ok ()` is Go's nil error,
  `.error (.app e)` / `.error .io` an ordinary error value, `.error .panic` a panic that
  propagated out of a handler call (the rest of the method does not run), `.error .crash` a
  panic inside a goroutine spawned by a handler's Get.
-/
import Rend.Types

namespace Rend
open Prog

abbrev OProg := Prog OEv

/-- Run a handler call; a panic aborts the method, anything else is an ordinary value. -/
def andThen {α β} (p : OProg (HRes α)) (k : HRes α → OProg (HRes β)) : OProg (HRes β) := do
  match ← p with
  | .error .panic => pure (.error .panic)
  | .error .crash => pure (.error .crash)
  | r => k r

def respond (e : REv) : OProg Unit := Prog.out (.resp e)

/-- `res.X(...); return nil` -/
def reply (e : REv) : OProg (HRes Unit) := do respond e; pure (.ok ())

def emitGets : List GetResp → OProg Unit
  | [] => pure ()
  | r :: rs => do respond (.get r); emitGets rs

def emitGetEs : List GetResp → OProg Unit
  | [] => pure ()
  | r :: rs => do respond (.getE r); emitGetEs rs

def getErr (e : Option HErr) : HRes Unit :=
  match e with
  | some x => .error x
  | none => .ok ()

def isErr (r : HRes Unit) (e : Err) : Bool :=
  match r with
  | .error (.app x) => x == e
  | _ => false

/-- Methods every orchestrator answers directly from the responder. -/
def simpleCmd : Cmd → Option (OProg (HRes Unit))
  | .noop o => some (reply (.noop o))
  | .quit o q => some (reply (.quit o q))
  | .version o => some (reply (.version o))
  | .stat o => some (reply (.stat o))
  | .unknown => some (pure (.error (.app .unknownCmd)))
  | _ => none

namespace L1Only

def store (h1 : Handler OEv) (k : SetKind) (c : SetCmd) : OProg (HRes Unit) :=
  andThen (h1.store k c) fun r =>
    match r with
    | .ok () => reply (.stored k c.opq c.quiet)
    | e => pure e

def get (h1 : Handler OEv) (g : GetCmd) : OProg (HRes Unit) := do
  let (rs, err) ← h1.get g.keys
  emitGets rs
  match err with
  | none => reply (.getEnd g.noopOpaque g.noopEnd)
  | some e => pure (.error e)

def getE (h1 : Handler OEv) (g : GetCmd) : OProg (HRes Unit) := do
  let (rs, err) ← h1.getE g.keys
  emitGetEs rs
  match err with
  | none => reply (.getEnd g.noopOpaque g.noopEnd)
  | some e => pure (.error e)

def gat (h1 : Handler OEv) (c : KeyCmd) : OProg (HRes Unit) :=
  andThen (h1.gat c) fun r =>
    match r with
    | .ok res => reply (.gat res)
    | .error e => pure (.error e)

def delete (h1 : Handler OEv) (c : KeyCmd) : OProg (HRes Unit) :=
  andThen (h1.delete c) fun r =>
    match r with
    | .ok () => reply (.deleted c.opq)
    | e => pure e

def touch (h1 : Handler OEv) (c : KeyCmd) : OProg (HRes Unit) :=
  andThen (h1.touch c) fun r =>
    match r with
    | .ok () => reply (.touched c.opq)
    | e => pure e

def step (h1 : Handler OEv) (c : Cmd) : OProg (HRes Unit) :=
  match c with
  | .store k s => store h1 k s
  | .get g => get h1 g
  | .getE g => getE h1 g
  | .gat k => gat h1 k
  | .delete k => delete h1 k
  | .touch k => touch h1 k
  | .noop o => reply (.noop o)
  | .quit o q => reply (.quit o q)
  | .version o => reply (.version o)
  | .stat o => reply (.stat o)
  | .unknown => pure (.error (.app .unknownCmd))

end L1Only

namespace L1L2

/-- `Set`: L2 first; a refused L1 write is compensated by deleting the L1 entry. -/
def set (h1 h2 : Handler OEv) (c : SetCmd) : OProg (HRes Unit) :=
  andThen (h2.store .set c) fun r2 =>
    match r2 with
    | .error e => pure (.error e)
    | .ok () =>
      andThen (h1.store .set c) fun r1 =>
        match r1 with
        | .ok () => reply (.stored .set c.opq c.quiet)
        | .error _ =>
          andThen (h1.delete { key := c.key }) fun _ => reply (.stored .set c.opq c.quiet)

def add (h1 h2 : Handler OEv) (c : SetCmd) : OProg (HRes Unit) :=
  andThen (h2.store .add c) fun r2 =>
    match r2 with
    | .error e => pure (.error e)
    | .ok () =>
      andThen (h1.store .add c) fun r1 =>
        match r1 with
        | .ok () => reply (.stored .add c.opq c.quiet)
        | .error e => pure (.error e)

def replace (h1 h2 : Handler OEv) (c : SetCmd) : OProg (HRes Unit) :=
  andThen (h2.store .replace c) fun r2 =>
    match r2 with
    | .error e => pure (.error e)
    | .ok () =>
      andThen (h1.store .replace c) fun r1 =>
        if isErr r1 .keyNotFound then reply (.stored .replace c.opq c.quiet)
        else match r1 with
          | .ok () => reply (.stored .replace c.opq c.quiet)
          | .error e => pure (.error e)

/-- `Append` / `Prepend`. -/
def pend (h1 h2 : Handler OEv) (k : SetKind) (c : SetCmd) : OProg (HRes Unit) :=
  andThen (h2.store k c) fun r2 =>
    match r2 with
    | .error e => pure (.error e)
    | .ok () =>
      andThen (h1.store k c) fun r1 =>
        if isErr r1 .itemNotStored || isErr r1 .keyNotFound then reply (.stored k c.opq c.quiet)
        else match r1 with
          | .ok () => reply (.stored k c.opq c.quiet)
          | .error e => pure (.error e)

def delete (h1 h2 : Handler OEv) (c : KeyCmd) : OProg (HRes Unit) :=
  andThen (h2.delete c) fun r2 =>
    match r2 with
    | .error e => pure (.error e)
    | .ok () =>
      andThen (h1.delete c) fun r1 =>
        if isErr r1 .keyNotFound then reply (.deleted c.opq)
        else match r1 with
          | .ok () => reply (.deleted c.opq)
          | .error e => pure (.error e)

def touch (h1 h2 : Handler OEv) (c : KeyCmd) : OProg (HRes Unit) :=
  andThen (h2.touch c) fun r2 =>
    match r2 with
    | .error e => pure (.error e)
    | .ok () =>
      andThen (h1.touch c) fun r1 =>
        if isErr r1 .keyNotFound then reply (.touched c.opq)
        else match r1 with
          | .ok () => reply (.touched c.opq)
          | .error e => pure (.error e)

/-- Split the L1 responses: hits are answered at once, misses go to L2. -/
def splitL1 : List GetResp → List GetResp × List GetKey
  | [] => ([], [])
  | r :: rs =>
    let (hits, misses) := splitL1 rs
    if r.miss then (hits, { key := r.key, opq := r.opq, quiet := r.quiet } :: misses)
    else (r :: hits, misses)

/-- The back-fill loop over L2's answers: a hit is written to L1 with L2's remaining lifetime
    (a refused write is compensated by a delete), then forwarded to the client. -/
def backfill (h1 : Handler OEv) : List GetResp → OProg (HRes Unit)
  | [] => pure (.ok ())
  | r :: rs =>
    let fwd : OProg (HRes Unit) := do
      respond (.get { key := r.key, flags := r.flags, data := r.data, miss := r.miss, opq := r.opq, quiet := r.quiet })
      backfill h1 rs
    if r.miss then fwd
    else
      andThen (h1.store .set { key := r.key, flags := r.flags, exptime := r.exptime, data := r.data }) fun s =>
        match s with
        | .ok () => fwd
        | .error _ => andThen (h1.delete { key := r.key }) fun _ => fwd

def get (h1 h2 : Handler OEv) (g : GetCmd) : OProg (HRes Unit) := do
  let (rs1, err1) ← h1.get g.keys
  let (hits, l2keys) := splitL1 rs1
  emitGets hits
  if l2keys.isEmpty then
    match err1 with
    | some e => pure (.error e)
    | none => reply (.getEnd g.noopOpaque g.noopEnd)
  else
    let (rs2, err2) ← h2.getE l2keys
    andThen (backfill h1 rs2) fun _ =>
      let err := match err2 with
        | some e => some e
        | none => err1
      match err with
      | none => reply (.getEnd g.noopOpaque g.noopEnd)
      | some e => pure (.error e)

def gat (h1 h2 : Handler OEv) (c : KeyCmd) : OProg (HRes Unit) :=
  andThen (h1.gat c) fun r1 =>
    match r1 with
    | .error e => pure (.error e)
    | .ok res1 =>
      if res1.miss then
        andThen (h2.gat c) fun r2 =>
          match r2 with
          | .error e => pure (.error e)
          | .ok res2 =>
            if res2.miss then reply (.gat res2)
            else
              andThen (h1.store .add { key := c.key, exptime := c.exptime, flags := res2.flags, data := res2.data }) fun a =>
                if isErr a .keyExists then reply (.gat res2)
                else match a with
                  | .ok () => reply (.gat res2)
                  | .error e => pure (.error e)
      else
        andThen (h2.touch { key := c.key, exptime := c.exptime }) fun t =>
          match t with
          | .error e => pure (.error e)
          | .ok () => reply (.gat res1)

def step (h1 h2 : Handler OEv) (c : Cmd) : OProg (HRes Unit) :=
  match c with
  | .store .set s => set h1 h2 s
  | .store .add s => add h1 h2 s
  | .store .replace s => replace h1 h2 s
  | .store .append s => pend h1 h2 .append s
  | .store .prepend s => pend h1 h2 .prepend s
  | .get g => get h1 h2 g
  | .getE _ => pure (.error (.app .unknownCmd))
  | .gat k => gat h1 h2 k
  | .delete k => delete h1 h2 k
  | .touch k => touch h1 h2 k
  | .noop o => reply (.noop o)
  | .quit o q => reply (.quit o q)
  | .version o => reply (.version o)
  | .stat o => reply (.stat o)
  | .unknown => pure (.error (.app .unknownCmd))

end L1L2

namespace L1L2Batch

/-- `Set`: L2 set, then *replace* in L1 (the batch port never creates L1 entries). -/
def set (h1 h2 : Handler OEv) (c : SetCmd) : OProg (HRes Unit) :=
  andThen (h2.store .set c) fun r2 =>
    match r2 with
    | .error e => pure (.error e)
    | .ok () =>
      andThen (h1.store .replace c) fun r1 =>
        if isErr r1 .keyNotFound then reply (.stored .set c.opq c.quiet)
        else match r1 with
          | .ok () => reply (.stored .set c.opq c.quiet)
          | .error _ => andThen (h1.delete { key := c.key }) fun _ => reply (.stored .set c.opq c.quiet)

/-- `Add` and `Replace`: the L2 operation, then replace in L1. -/
def addReplace (h1 h2 : Handler OEv) (k : SetKind) (c : SetCmd) : OProg (HRes Unit) :=
  andThen (h2.store k c) fun r2 =>
    match r2 with
    | .error e => pure (.error e)
    | .ok () =>
      andThen (h1.store .replace c) fun r1 =>
        if isErr r1 .keyNotFound then reply (.stored k c.opq c.quiet)
        else match r1 with
          | .ok () => reply (.stored k c.opq c.quiet)
          | .error e => pure (.error e)

def touch (h1 h2 : Handler OEv) (c : KeyCmd) : OProg (HRes Unit) :=
  andThen (h2.touch c) fun r2 =>
    match r2 with
    | .error e => pure (.error e)
    | .ok () =>
      andThen (h1.touch c) fun r1 =>
        if isErr r1 .keyNotFound then reply (.touched c.opq)
        else match r1 with
          | .ok () => reply (.touched c.opq)
          | .error e => pure (.error e)

def get (h1 h2 : Handler OEv) (g : GetCmd) : OProg (HRes Unit) := do
  let (rs1, err1) ← h1.get g.keys
  let (hits, l2keys) := L1L2.splitL1 rs1
  emitGets hits
  if l2keys.isEmpty then
    match err1 with
    | some e => pure (.error e)
    | none => reply (.getEnd g.noopOpaque g.noopEnd)
  else
    let (rs2, err2) ← h2.get l2keys
    emitGets (rs2.map fun r => { key := r.key, flags := r.flags, data := r.data, miss := r.miss, opq := r.opq, quiet := r.quiet })
    let err := match err2 with
      | some e => some e
      | none => err1
    match err with
    | none => reply (.getEnd g.noopOpaque g.noopEnd)
    | some e => pure (.error e)

def gat (h1 h2 : Handler OEv) (c : KeyCmd) : OProg (HRes Unit) :=
  andThen (h2.gat c) fun r2 =>
    match r2 with
    | .error e => pure (.error e)
    | .ok res =>
      if res.miss then reply (.gat res)
      else
        andThen (h1.touch { key := c.key, exptime := c.exptime, opq := c.opq }) fun t =>
          if isErr t .keyNotFound then reply (.gat res)
          else match t with
            | .ok () => reply (.gat res)
            | .error e => pure (.error e)

def step (h1 h2 : Handler OEv) (c : Cmd) : OProg (HRes Unit) :=
  match c with
  | .store .set s => set h1 h2 s
  | .store .add s => addReplace h1 h2 .add s
  | .store .replace s => addReplace h1 h2 .replace s
  | .store .append s => L1L2.pend h1 h2 .append s
  | .store .prepend s => L1L2.pend h1 h2 .prepend s
  | .get g => get h1 h2 g
  | .getE _ => pure (.error (.app .unknownCmd))
  | .gat k => gat h1 h2 k
  | .delete k => L1L2.delete h1 h2 k
  | .touch k => touch h1 h2 k
  | .noop o => reply (.noop o)
  | .quit o q => reply (.quit o q)
  | .version o => reply (.version o)
  | .stat o => reply (.stat o)
  | .unknown => pure (.error (.app .unknownCmd))

end L1L2Batch

/-- `Orca.Error(req, reqType, err)`. -/
def orcaError (c : Option Cmd) (rt : ReqType) (e : Err) : OProg Unit :=
  match c with
  | some c => respond (.error c.opq rt e c.quiet)
  | none => respond (.error 0 rt e false)

inductive OrcaKind where
  | l1only | l1l2 | l1l2batch
  deriving Repr, DecidableEq, Inhabited

def OrcaKind.step (o : OrcaKind) (h1 h2 : Handler OEv) : Cmd → OProg (HRes Unit) :=
  match o with
  | .l1only => L1Only.step h1
  | .l1l2 => L1L2.step h1 h2
  | .l1l2batch => L1L2Batch.step h1 h2

end Rend

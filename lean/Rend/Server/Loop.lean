/-
  server/default.go: the per-connection loop  parse -> dispatch -> orchestrate -> respond.
  Core-only.
-/
import Rend.Orcas.Locked
import Rend.Wire.TextParse
import Rend.Wire.Respond

namespace Rend.Server
open Rend Rend.Wire

inductive Proto where
  | bin | text
  deriving Repr, DecidableEq, Inhabited

/-- Connection configuration. -/
structure Conf where
  proto  : Proto
  orca   : Cmd → OProg (HRes Unit)      -- the (possibly locked) orchestrator for this connection

/-- How a connection ended. -/
inductive End where
  | closed           -- abort(): remote, L1 and L2 connections closed (server side decision)
  | eof              -- the client's byte stream ended (the server then closes everything as well)
  | crashed          -- the process terminated (panic in an unrecovered goroutine)
  | outOfFuel        -- never happens (theorem `loop_fuel_enough`)
  deriving Repr, DecidableEq, Inhabited

structure Out where
  bytes  : Bytes := []          -- everything written to the client, in order
  events : List OEv := []       -- responder calls and lock events, in order
  ending : End := .closed
  deriving Repr

def parse (p : Proto) (inp : Bytes) : PRes :=
  match p with
  | .bin => binParse inp
  | .text => textParse inp

/-- Render responder events; `none` = the responder panicked (text GAT/GetE). -/
def render (p : Proto) : List OEv → Option Bytes
  | [] => some []
  | .resp e :: rest =>
    match p with
    | .bin => (render p rest).map (binRespond e ++ ·)
    | .text =>
      match textRespond e with
      | some b => (render p rest).map (b ++ ·)
      | none => none
  | _ :: rest => render p rest

/-- Render as much as is written before a responder panic. -/
def renderPrefix (p : Proto) : List OEv → Bytes × Bool
  | [] => ([], true)
  | .resp e :: rest =>
    match p with
    | .bin => let (b, ok) := renderPrefix p rest; (binRespond e ++ b, ok)
    | .text =>
      match textRespond e with
      | some b => let (b', ok) := renderPrefix p rest; (b ++ b', ok)
      | none => ([], false)
  | _ :: rest => renderPrefix p rest

/-- `DefaultServer.Loop`, threaded through the runner state of the two backends. One iteration per
    unit of fuel; `now` and the fault plan are fixed for the whole input (tests advance time
    between inputs). -/
def loop (cf : Conf) (now : Nat) (fault : Option Fault) : Nat → Bytes → RunSt → Out → Out × RunSt
  | 0, _, st, out => ({ out with ending := .outOfFuel }, st)
  | fuel + 1, inp, st, out =>
    let pr := parse cf.proto inp
    match pr.err with
    | some (.app e) =>
      if Gen.loopContinueErrors.contains e.name then
        -- s.orca.Error(nil, common.RequestUnknown, err); continue
        let (_, evs, st') := (orcaError none .unknown e).runSt now fault st
        let (b, _) := renderPrefix cf.proto evs
        loop cf now fault fuel pr.rest st' { out with bytes := out.bytes ++ b, events := out.events ++ evs }
      else ({ out with ending := .closed }, st)
    | some .eof => ({ out with ending := .eof }, st)
    | some _ => ({ out with ending := .closed }, st)
    | none =>
      -- dispatch on reqType; a nil request with RequestUnknown goes to orca.Unknown
      let cmd : Cmd := pr.cmd.getD .unknown
      let (res, evs, st') := (cf.orca cmd).runSt now fault st
      let (b, rendered) := renderPrefix cf.proto evs
      let out' := { out with bytes := out.bytes ++ b, events := out.events ++ evs }
      if isCrash res then ({ out' with ending := .crashed }, st')    -- an unrecovered goroutine panic: the process is gone
      else if !rendered then ({ out' with ending := .closed }, st')  -- responder panic: recovered, abort
      else
      match cmd with
      | .quit _ _ => ({ out' with ending := .closed }, st')
      | _ =>
        match res with
        | .ok () => loop cf now fault fuel pr.rest st' out'
        | .error .panic => ({ out' with ending := .closed }, st')
        | .error .crash => ({ out' with ending := .crashed }, st')
        | .error .io => ({ out' with ending := .closed }, st')
        | .error (.app e) =>
          if isAppError e then
            let (_, evs2, st'') := (orcaError pr.cmd cmd.reqType e).runSt now fault st'
            let (b2, _) := renderPrefix cf.proto evs2
            loop cf now fault fuel pr.rest st'' { out' with bytes := out'.bytes ++ b2, events := out'.events ++ evs2 }
          else ({ out' with ending := .closed }, st')

def run (cf : Conf) (now : Nat) (fault : Option Fault) (inp : Bytes) (st : RunSt) : Out × RunSt :=
  loop cf now fault (inp.length + 2) inp st {}

end Rend.Server

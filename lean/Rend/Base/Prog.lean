/-
  Interaction trees: a handler / orchestrator operation is a deterministic strategy that
  issues backend requests (on tier L1 or L2), draws chunk tokens, emits responder events,
  and continues on the backend's answer.  Core-only.
-/
import Rend.Spec

namespace Rend

inductive Tier where
  | l1 | l2
  deriving Repr, DecidableEq, Inhabited

inductive Prog (ε : Type) (α : Type) where
  | ret  : α → Prog ε α
  | call : Tier → Req → (Resp → Prog ε α) → Prog ε α
  | draw : (Bytes → Prog ε α) → Prog ε α          -- draw a fresh 16-byte token
  | emit : ε → Prog ε α → Prog ε α

namespace Prog

def bind {ε α β} : Prog ε α → (α → Prog ε β) → Prog ε β
  | ret a, f => f a
  | call t r k, f => call t r (fun x => bind (k x) f)
  | draw k, f => draw (fun x => bind (k x) f)
  | emit e p, f => emit e (bind p f)

instance {ε} : Monad (Prog ε) where
  pure := ret
  bind := bind

/-- Drop the emitted events that do not satisfy `keep`. -/
def filterEmit {ε α} (keep : ε → Bool) : Prog ε α → Prog ε α
  | ret a => ret a
  | call t r k => call t r (fun x => filterEmit keep (k x))
  | draw k => draw (fun x => filterEmit keep (k x))
  | emit e p => if keep e then emit e (filterEmit keep p) else filterEmit keep p

def req {ε} (t : Tier) (r : Req) : Prog ε Resp := call t r ret
def token {ε} : Prog ε Bytes := draw ret
def out {ε} (e : ε) : Prog ε Unit := emit e (ret ())

end Prog

/-- Two backend stores. -/
structure World where
  l1 : Store := Store.empty
  l2 : Store := Store.empty

def World.get (w : World) : Tier → Store
  | .l1 => w.l1
  | .l2 => w.l2
def World.put (w : World) (t : Tier) (s : Store) : World :=
  match t with
  | .l1 => { w with l1 := s }
  | .l2 => { w with l2 := s }

/-- A trace entry: one request, as observed by the backend, with its answer. -/
structure TraceEntry where
  tier : Tier
  req  : Req
  resp : Resp
  deriving Repr, DecidableEq

/-- A backend fault: at the `idx`-th request (0-based, counted per tier) of a command on tier `tier`. -/
inductive FaultKind where
  | status (code : Nat)   -- the backend answers with this status and does not perform the operation
  | cutBefore             -- the connection breaks before the operation is performed
  | cutAfter              -- the operation is performed, the connection breaks before the reply arrives
  deriving Repr, DecidableEq

structure Fault where
  tier : Tier
  idx  : Nat
  kind : FaultKind
  deriving Repr, DecidableEq

/-- Runner state: stores, token supply, per-tier request counters, per-tier broken flag, trace. -/
structure RunSt where
  w      : World
  toks   : List Bytes := []
  n1     : Nat := 0
  n2     : Nat := 0
  dead1  : Bool := false
  dead2  : Bool := false
  trace  : List TraceEntry := []

def RunSt.count (s : RunSt) : Tier → Nat
  | .l1 => s.n1
  | .l2 => s.n2
def RunSt.dead (s : RunSt) : Tier → Bool
  | .l1 => s.dead1
  | .l2 => s.dead2
def RunSt.bump (s : RunSt) : Tier → RunSt
  | .l1 => { s with n1 := s.n1 + 1 }
  | .l2 => { s with n2 := s.n2 + 1 }
def RunSt.kill (s : RunSt) : Tier → RunSt
  | .l1 => { s with dead1 := true }
  | .l2 => { s with dead2 := true }

/-- Execute one request, applying the fault plan. -/
def RunSt.exec (now : Nat) (fault : Option Fault) (s : RunSt) (t : Tier) (r : Req) : RunSt × Resp :=
  if s.dead t then
    ({ s.bump t with trace := s.trace }, .wfail)   -- nothing reaches a broken connection: the write fails
  else
    let hit : Option FaultKind :=
      match fault with
      | some f => if f.tier = t ∧ f.idx = s.count t then some f.kind else none
      | none => none
    match hit with
    | some (.status c) =>
      let s' := s.bump t
      ({ s' with trace := s'.trace ++ [⟨t, r, .status c⟩] }, .status c)
    | some .cutBefore => ((s.bump t).kill t, .io)
    | some .cutAfter =>
      let (st, resp) := Mc.exec now (s.w.get t) r
      let s' := (s.bump t).kill t
      ({ s' with w := s.w.put t st, trace := s'.trace ++ [⟨t, r, resp⟩] }, .io)
    | none =>
      let (st, resp) := Mc.exec now (s.w.get t) r
      let s' := s.bump t
      ({ s' with w := s.w.put t st, trace := s'.trace ++ [⟨t, r, resp⟩] }, resp)

/-- Run a program to completion. -/
def Prog.runSt {ε α} (now : Nat) (fault : Option Fault) : Prog ε α → RunSt → α × List ε × RunSt
  | .ret a, s => (a, [], s)
  | .call t r k, s =>
    let (s', resp) := s.exec now fault t r
    runSt now fault (k resp) s'
  | .draw k, s =>
    match s.toks with
    | tk :: rest => runSt now fault (k tk) { s with toks := rest }
    | [] => runSt now fault (k (Bytes.zeros 16)) s
  | .emit e p, s =>
    let (a, es, s') := runSt now fault p s
    (a, e :: es, s')

/-- Fault-free run against the two stores. -/
def Prog.run {ε α} (now : Nat) (p : Prog ε α) (w : World) (toks : List Bytes := []) : α × List ε × World :=
  let (a, es, s) := p.runSt now none { w := w, toks := toks }
  (a, es, s.w)

end Rend

/-
  Bytes and small encoders.  Core-only.
-/
namespace Rend

abbrev Bytes := List UInt8

namespace Bytes

def ofString (s : String) : Bytes := s.toUTF8.toList

/-- big-endian encodings -/
def be16 (n : Nat) : Bytes := [UInt8.ofNat (n / 256 % 256), UInt8.ofNat (n % 256)]
def be32 (n : Nat) : Bytes :=
  [UInt8.ofNat (n / 16777216 % 256), UInt8.ofNat (n / 65536 % 256), UInt8.ofNat (n / 256 % 256), UInt8.ofNat (n % 256)]

def rd16 (b : Bytes) : Nat :=
  match b with
  | a :: c :: _ => a.toNat * 256 + c.toNat
  | _ => 0
def rd32 (b : Bytes) : Nat :=
  match b with
  | a :: c :: d :: e :: _ => a.toNat * 16777216 + c.toNat * 65536 + d.toNat * 256 + e.toNat
  | _ => 0

def zeros (n : Nat) : Bytes := List.replicate n 0

/-- decimal digits of a natural number, as ASCII bytes -/
def decDigits (n : Nat) : Bytes := (Nat.toDigits 10 n).map (fun c => UInt8.ofNat c.toNat)

def hexDigit (n : Nat) : Char := if n < 10 then Char.ofNat (48 + n) else Char.ofNat (87 + n)
def toHex (b : Bytes) : String :=
  if b.isEmpty then "-" else
  String.ofList (b.flatMap (fun x => [hexDigit (x.toNat / 16), hexDigit (x.toNat % 16)]))

def hexVal (c : Char) : Option Nat :=
  if '0' ≤ c ∧ c ≤ '9' then some (c.toNat - 48)
  else if 'a' ≤ c ∧ c ≤ 'f' then some (c.toNat - 87)
  else none

def ofHexChars : List Char → Option Bytes
  | [] => some []
  | a :: b :: rest => do
    let x ← hexVal a
    let y ← hexVal b
    let r ← ofHexChars rest
    pure (UInt8.ofNat (x * 16 + y) :: r)
  | _ => none

def ofHex (s : String) : Option Bytes :=
  if s == "-" then some [] else ofHexChars s.toList

end Bytes
end Rend

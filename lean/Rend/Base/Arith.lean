/-
  Small arithmetic helpers the regenerated definitions refer to.
  Core-only (the line-protocol driver links against this file).
-/
namespace Rend

/-- Exact ceiling of `a / b` for `b > 0` — the meaning `gen` assigns to the Go idiom
    `int(math.Ceil(float64(a) / float64(b)))` (exact for operands below 2^53; trusted, and
    re-checked against the real functions by the correspondence grid). -/
def ceilDivInt (a b : Int) : Int := (a + b - 1) / b

/-- The model of `lzcnt` that `getBucket` calls: the number of leading zero bits of a 64-bit word. -/
def lzcntModel (x : BitVec 64) : BitVec 64 := BitVec.ofNat 64 (64 - x.toNat.log2 - (if x = 0#64 then 0 else 1))

end Rend

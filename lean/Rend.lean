import Rend.Gen.Consts
import Rend.Gen.Tables
import Rend.Gen.Pure
import Rend.Gen.Asm
import Rend.Gen.Facts

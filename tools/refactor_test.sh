#!/bin/sh
# usage: tools/refactor_test.sh <area>... : apply a behaviour-preserving refactoring (seeded/refactor_<area>/patch.diff)
# to /repo's working tree, run every quick check, restore the tree. A check that is not quiet is a
# false alarm of the machinery (or of the translator's tolerance) to be looked at.
set -u
for A in "$@"; do
  cd /repo
  git diff --quiet || { echo "repo working tree not clean"; exit 2; }
  git apply "/verif/seeded/refactor_$A/patch.diff" || { echo "cannot apply refactor_$A"; exit 2; }
  cd /verif
  for p in C01 C02 C03 C04 C05 C06 C07 C08 C09 C10 C11 C12 C13 C14 C15 C16 C17 C18 C19; do
    out=$(./check $p quick 2>&1 | grep -v KNOWN-FINDING | tail -1)
    case "$out" in OK*) ;; *) echo "[refactor_$A] $p: $out"; mkdir -p /verif/run/rffail; cp /verif/replays/$p/${p}_quick_1_0.json /verif/run/rffail/${A}_${p}.json 2>/dev/null;; esac
  done
  echo "[refactor_$A] done $(date +%H:%M)"
  git -C /repo checkout -- .
  git -C /repo clean -fdq
  (cd /verif/harness && /verif/run/bin/gen -repo /repo -out /verif/lean/Rend/Gen >/dev/null 2>&1)
done

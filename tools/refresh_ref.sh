#!/bin/sh
# Refresh ref/Gen (the translation of the last tree on which all checks pass; used only to SEARCH for a
# failing input when the regenerated definitions do not build).  Run on a clean /repo after quick_all passes.
set -e
cd /verif/harness
export GOFLAGS=-mod=mod GOPROXY=off GOSUMDB=off GOTOOLCHAIN=local
go build -o /verif/run/bin/gen ./cmd/gen
/verif/run/bin/gen -repo /repo -out /verif/lean/Rend/Gen
cp /verif/lean/Rend/Gen/*.lean /verif/ref/Gen/
git -C /verif status --short ref

#!/bin/sh
# usage: tools/ingest_seed.sh <id> [property] : copy a sub-agent's deliverables into /verif/seeded/<id> and run the check against it
set -u
I=$1; P=${2:-$1}
mkdir -p /verif/seeded/$I
cp -r /tmp/mut/$I-out/* /verif/seeded/$I/ 2>/dev/null
/verif/tools/seed_test.sh $I $P quick
python3 - "$P" <<'PY'
import json,glob,sys
p=sys.argv[1]
for f in sorted(glob.glob('/verif/replays/%s/%s_quick_1_*.json'%(p,p)))[:2]:
    d=json.load(open(f)); print('   >>', d['what'][:350])
PY

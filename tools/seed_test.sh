#!/bin/sh
# usage: tools/seed_test.sh <seeded dir under /verif/seeded> <property> [tier]
# Applies a seeded change to /repo's working tree, runs the check, restores the tree and regenerates Gen.
set -u
D=$1; P=$2; T=${3:-quick}
cd /repo
git diff --quiet || { echo "repo working tree not clean"; exit 2; }
git apply "/verif/seeded/$D/patch.diff" || { echo "cannot apply /verif/seeded/$D/patch.diff"; exit 2; }
cd /verif
./check "$P" "$T" 2>&1 | grep -v KNOWN-FINDING | tail -4
git -C /repo checkout -- .
(cd /verif/harness && /verif/run/bin/gen -repo /repo -out /verif/lean/Rend/Gen >/dev/null 2>&1)

#!/bin/sh
# usage: tools/seed_batch.sh <suffix> [ids...] : run every seeded/<id><suffix> against its property's quick check
set -u
S=$1; shift
IDS=${*:-C01 C02 C03 C04 C05 C06 C07 C08 C09 C10 C11 C12 C13 C14 C15 C16 C17 C18 C19}
for p in $IDS; do
  echo "=== $p$S"
  /verif/tools/seed_test.sh $p$S $p quick 2>&1 | tail -3
  python3 - "$p" <<'PY'
import json,glob,sys
p=sys.argv[1]
n=0
for f in sorted(glob.glob('/verif/replays/%s/%s_quick_1_*.json'%(p,p))):
    d=json.load(open(f))
    if 'diverge' in d['what'] or 'does not check' in d['what'] or 'no longer builds' in d['what']:
        continue
    print('   >>', d['what'][:300]); n+=1
    if n>=2: break
if n==0:
    for f in sorted(glob.glob('/verif/replays/%s/%s_quick_1_*.json'%(p,p)))[:2]:
        d=json.load(open(f)); print('   ..', d['what'][:300])
PY
done

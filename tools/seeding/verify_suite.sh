#!/bin/sh
export GOFLAGS=-mod=mod GOPROXY=off GOSUMDB=off GOTOOLCHAIN=local
W=/tmp/mut/suitecheck
[ -d $W ] || git -C /repo worktree add --detach $W HEAD >/dev/null 2>&1
for id in "$@"; do
  cd $W && git checkout -q -- . && git clean -fdq
  if ! git apply /verif/seeded/$id/patch.diff; then echo "$id: patch does not apply"; continue; fi
  out=$(go test -mod=mod -json -vet=off -count=1 -timeout 25m ./... 2>&1)
  pass=$(echo "$out" | grep -c '"Action":"pass","Package":"[^"]*","Test"')
  fail=$(echo "$out" | grep -c '"Action":"fail","Package":"[^"]*","Test"')
  echo "$id: tests passed=$pass failed=$fail"
  git checkout -q -- . 
done

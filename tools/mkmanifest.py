#!/usr/bin/env python3
"""Regenerates MANIFEST.json from the table below (keeps it valid and consistent)."""
import json, os
V = os.path.dirname(os.path.dirname(os.path.abspath(__file__)))
props = [json.loads(l) for l in open(os.path.join(V, "properties.jsonl"))]
claimed = json.load(open(os.path.join(V, "tools", "claims.json")))
checks = []
na = []
for p in props:
    pid = p["id"]
    c = claimed.get(pid)
    if not c or c.get("not_applicable"):
        na.append({"property_id": pid, "reason": (c or {}).get("reason", "not built yet in this round; see DESIGN.md section 6 for the plan")})
        continue
    checks.append({
        "property_id": pid,
        "quick_cmd": "./check %s quick" % pid,
        "thorough_cmd": "./check %s thorough" % pid,
        "evidence_file": "/verif/evidence/%s.json" % pid,
        "replay_cmd_template": "./check %s quick --replay {path}" % pid,
        "engine": "lean-model",
        "level_claimed": {"category": "proof", "text": c["text"], "design_ref": "DESIGN.md section 6, " + pid},
        "level_note": c["note"],
        "technique": c["technique"],
    })
m = {
    "version": 1,
    "setup_cmd": "./setup.sh",
    "hooks": {
        "guard": "verif",
        "enable": "go build -tags verif (the harness module replaces github.com/netflix/rend with /repo)",
        "baseline_off_cmd": "cd /repo && go test -mod=mod -json -vet=off -count=1 -timeout 25m ./...",
        "source_commits": claimed["_hooks"],
        "add_only": True,
    },
    "engines": [{
        "name": "lean-model",
        "path": "/verif/lean",
        "serves_properties": [c["property_id"] for c in checks],
        "kind_free_text": "Lean 4 model of rend (regenerated constants/tables/pure functions/facts + hand-written interaction-tree model), property theorems in Rend/Props, core-only line-protocol driver; Go harness runs the real code against fake backends and diffs every observable against the driver",
    }],
    "checks": checks,
    "not_applicable": na,
    "notes": "Every check: gen (translate /repo) -> lake build (theorems re-checked against regenerated definitions, axiom audit) -> go build -tags verif harness against /repo -> correspondence + oracle -> evidence. See DESIGN.md.",
}
json.dump(m, open(os.path.join(V, "MANIFEST.json"), "w"), indent=1)
print("claimed:", [c["property_id"] for c in checks])

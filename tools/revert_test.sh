#!/bin/sh
# usage: tools/revert_test.sh <commit-ish in /repo> <property> [tier]
# Temporarily reverts one fix commit in /repo's working tree, runs the check, restores the tree.
set -u
C=$1; P=$2; T=${3:-quick}
cd /repo
git diff --quiet || { echo "repo working tree not clean"; exit 2; }
git show "$C" | git apply -R || { echo "cannot revert $C"; exit 2; }
cd /verif
./check "$P" "$T" 2>&1 | tail -5
rc=$?
git -C /repo checkout -- .
echo "exit=$rc (after reverting $C for $P)"
# regenerate the generated model part from the restored tree
(cd /verif/harness && /verif/run/bin/gen -repo /repo -out /verif/lean/Rend/Gen >/dev/null 2>&1)

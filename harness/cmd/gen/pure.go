package main

// Translator for small pure Go functions into Lean 4 definitions.
//
// Supported subset (anything else aborts gen):
//   types      uint8/16/32/64 -> BitVec w ; int/int64 -> Int ; bool -> Bool
//   statements :=, =, ++, --, op=, if/else, return, var declarations with init
//   expressions integer literals and constants, identifiers, unary -, !, binary
//              + - * / % & | ^ << >> == != < <= > >= && ||, conversions between
//              the integer types above, indexing of a package-level integer
//              table, calls to other translated functions
//   idioms     uint32(time.Now().Unix())            -> parameter `now`
//              int(math.Ceil(float64(a)/float64(b))) -> ceilDiv a b     (trusted: exact below 2^53)
//              int(math.Min(float64(a),float64(b)))  -> min a b         (trusted: exact below 2^53)

import (
	"fmt"
	"go/ast"
	"go/constant"
	"go/parser"
	"go/token"
	"go/types"
	"os"
	"path/filepath"
	"strings"
)

type tr struct {
	info     *types.Info
	fset     *token.FileSet
	subst    map[string]string // source text of a sub-expression -> Lean identifier (free variable)
	fname    string
	usesNow  bool
	tables   map[string]bool
	callable map[string]string // go func name -> lean name
}

func (t *tr) fail(n ast.Node, f string, a ...interface{}) {
	fatalf("translate %s: %s (%T)", t.fname, fmt.Sprintf(f, a...), n)
}

var leanKeywords = map[string]bool{"end": true, "at": true, "from": true, "then": true, "open": true, "fun": true,
	"in": true, "do": true, "have": true, "show": true, "with": true, "match": true, "let": true, "if": true, "else": true,
	"by": true, "where": true, "def": true, "local": true, "section": true, "namespace": true, "prefix": true, "macro": true, "syntax": true}

// lid renders a Go identifier as a Lean identifier.
func lid(n string) string {
	if leanKeywords[n] {
		return n + "_"
	}
	return n
}

func leanType(ty types.Type) (string, int, bool) {
	b, ok := ty.Underlying().(*types.Basic)
	if !ok {
		return "", 0, false
	}
	switch b.Kind() {
	case types.Uint8:
		return "BitVec 8", 8, true
	case types.Uint16:
		return "BitVec 16", 16, true
	case types.Uint32:
		return "BitVec 32", 32, true
	case types.Uint64, types.Uint:
		return "BitVec 64", 64, true
	case types.Int, types.Int64, types.UntypedInt:
		return "Int", 0, true
	case types.Bool, types.UntypedBool:
		return "Bool", -1, true
	}
	return "", 0, false
}

func (t *tr) typeOf(e ast.Expr) types.Type {
	tv, ok := t.info.Types[e]
	if !ok {
		t.fail(e, "no type information")
	}
	return tv.Type
}

func lit(v constant.Value, ty types.Type) string {
	_, w, _ := leanType(ty)
	s := constant.ToInt(v).ExactString()
	if w > 0 {
		return fmt.Sprintf("(%s#%d)", s, w)
	}
	if strings.HasPrefix(s, "-") {
		return fmt.Sprintf("(%s : Int)", s)
	}
	return fmt.Sprintf("(%s : Int)", s)
}

func isCallTo(e ast.Expr, pkg, fn string) (*ast.CallExpr, bool) {
	c, ok := e.(*ast.CallExpr)
	if !ok {
		return nil, false
	}
	sel, ok := c.Fun.(*ast.SelectorExpr)
	if !ok || sel.Sel.Name != fn {
		return nil, false
	}
	id, ok := sel.X.(*ast.Ident)
	if !ok || id.Name != pkg {
		return nil, false
	}
	return c, true
}

func isFloatConv(e ast.Expr) (ast.Expr, bool) {
	c, ok := e.(*ast.CallExpr)
	if !ok || len(c.Args) != 1 {
		return nil, false
	}
	id, ok := c.Fun.(*ast.Ident)
	if !ok || id.Name != "float64" {
		return nil, false
	}
	return c.Args[0], true
}

// asInt renders e (of any supported integer type) as a Lean Int expression.
func (t *tr) asInt(e ast.Expr) string {
	s := t.expr(e)
	_, w, ok := leanType(t.typeOf(e))
	if !ok {
		t.fail(e, "unsupported type %s", t.typeOf(e))
	}
	if w > 0 {
		return fmt.Sprintf("((%s).toNat : Int)", s)
	}
	return s
}

func (t *tr) expr(e ast.Expr) string {
	if t.subst != nil && t.fset != nil {
		if v, ok := t.subst[exprString(t.fset, e)]; ok {
			return v
		}
	}
	if tv, ok := t.info.Types[e]; ok && tv.Value != nil {
		if tv.Value.Kind() == constant.Bool {
			if constant.BoolVal(tv.Value) {
				return "true"
			}
			return "false"
		}
		if tv.Value.Kind() == constant.Int || tv.Value.Kind() == constant.Float {
			return lit(tv.Value, tv.Type)
		}
	}
	switch x := e.(type) {
	case *ast.ParenExpr:
		return "(" + t.expr(x.X) + ")"
	case *ast.Ident:
		return lid(x.Name)
	case *ast.UnaryExpr:
		switch x.Op {
		case token.NOT:
			return "(!" + t.expr(x.X) + ")"
		case token.SUB:
			return "(-" + t.expr(x.X) + ")"
		}
		t.fail(e, "unary %s", x.Op)
	case *ast.IndexExpr:
		id, ok := x.X.(*ast.Ident)
		if !ok {
			t.fail(e, "index of non-identifier")
		}
		t.tables[id.Name] = true
		_, w, _ := leanType(t.typeOf(e))
		idx := t.asInt(x.Index)
		get := fmt.Sprintf("(%s.getD (%s).toNat 0)", id.Name, idx)
		if w > 0 {
			return fmt.Sprintf("(BitVec.ofNat %d %s)", w, get)
		}
		return fmt.Sprintf("(%s : Int)", get)
	case *ast.BinaryExpr:
		return t.binary(x)
	case *ast.CallExpr:
		return t.call(x)
	}
	t.fail(e, "unsupported expression")
	return ""
}

func (t *tr) binary(x *ast.BinaryExpr) string {
	l, r := t.expr(x.X), t.expr(x.Y)
	lt := t.typeOf(x.X)
	_, w, ok := leanType(lt)
	if !ok {
		t.fail(x, "unsupported operand type %s", lt)
	}
	switch x.Op {
	case token.LAND:
		return fmt.Sprintf("(%s && %s)", l, r)
	case token.LOR:
		return fmt.Sprintf("(%s || %s)", l, r)
	case token.EQL:
		return fmt.Sprintf("(%s == %s)", l, r)
	case token.NEQ:
		return fmt.Sprintf("(%s != %s)", l, r)
	case token.LSS:
		return fmt.Sprintf("(decide (%s < %s))", l, r)
	case token.LEQ:
		return fmt.Sprintf("(decide (%s ≤ %s))", l, r)
	case token.GTR:
		return fmt.Sprintf("(decide (%s > %s))", l, r)
	case token.GEQ:
		return fmt.Sprintf("(decide (%s ≥ %s))", l, r)
	case token.ADD:
		return fmt.Sprintf("(%s + %s)", l, r)
	case token.SUB:
		return fmt.Sprintf("(%s - %s)", l, r)
	case token.MUL:
		return fmt.Sprintf("(%s * %s)", l, r)
	case token.QUO:
		if w > 0 {
			return fmt.Sprintf("(%s / %s)", l, r) // BitVec: unsigned division
		}
		return fmt.Sprintf("(Int.tdiv %s %s)", l, r)
	case token.REM:
		if w > 0 {
			return fmt.Sprintf("(%s %% %s)", l, r)
		}
		return fmt.Sprintf("(Int.tmod %s %s)", l, r)
	case token.AND:
		if w > 0 {
			return fmt.Sprintf("(%s &&& %s)", l, r)
		}
	case token.OR:
		if w > 0 {
			return fmt.Sprintf("(%s ||| %s)", l, r)
		}
	case token.XOR:
		if w > 0 {
			return fmt.Sprintf("(%s ^^^ %s)", l, r)
		}
	case token.AND_NOT:
		if w > 0 {
			return fmt.Sprintf("(%s &&& ~~~%s)", l, r)
		}
	case token.SHL, token.SHR:
		if w <= 0 {
			t.fail(x, "shift of a non-fixed-width integer")
		}
		// shift count: any unsigned type or constant; Go yields 0 for counts >= width,
		// and so does BitVec's shift by a Nat
		cnt := ""
		if tv := t.info.Types[x.Y]; tv.Value != nil {
			cnt = constant.ToInt(tv.Value).ExactString()
		} else {
			_, cw, _ := leanType(t.typeOf(x.Y))
			if cw <= 0 {
				t.fail(x, "signed shift count")
			}
			cnt = fmt.Sprintf("(%s).toNat", r)
		}
		if x.Op == token.SHL {
			return fmt.Sprintf("(%s <<< %s)", l, cnt)
		}
		return fmt.Sprintf("(%s >>> %s)", l, cnt)
	}
	t.fail(x, "unsupported binary operator %s", x.Op)
	return ""
}

func (t *tr) call(c *ast.CallExpr) string {
	// conversion?
	if tv, ok := t.info.Types[c.Fun]; ok && tv.IsType() {
		if len(c.Args) != 1 {
			t.fail(c, "conversion arity")
		}
		arg := c.Args[0]
		_, dw, ok := leanType(tv.Type)
		if !ok {
			t.fail(c, "conversion to unsupported type %s", tv.Type)
		}
		// idiom: uint32(time.Now().Unix())
		if inner, ok := arg.(*ast.CallExpr); ok {
			if sel, ok := inner.Fun.(*ast.SelectorExpr); ok && sel.Sel.Name == "Unix" {
				if _, ok := isCallTo(sel.X, "time", "Now"); ok {
					t.usesNow = true
					if dw > 0 {
						return fmt.Sprintf("(BitVec.ofInt %d now)", dw)
					}
					return "now"
				}
			}
		}
		// idiom: int(math.Ceil(float64(a)/float64(b)))
		if cc, ok := isCallTo(arg, "math", "Ceil"); ok {
			if be, ok := cc.Args[0].(*ast.BinaryExpr); ok && be.Op == token.QUO {
				a, ok1 := isFloatConv(be.X)
				b, ok2 := isFloatConv(be.Y)
				if ok1 && ok2 {
					r := fmt.Sprintf("(ceilDivInt %s %s)", t.asInt(a), t.asInt(b))
					if dw > 0 {
						return fmt.Sprintf("(BitVec.ofInt %d %s)", dw, r)
					}
					return r
				}
			}
			t.fail(c, "unsupported math.Ceil shape")
		}
		// idiom: int(math.Min(float64(a), float64(b)))
		if cc, ok := isCallTo(arg, "math", "Min"); ok {
			a, ok1 := isFloatConv(cc.Args[0])
			b, ok2 := isFloatConv(cc.Args[1])
			if ok1 && ok2 {
				r := fmt.Sprintf("(min %s %s)", t.asInt(a), t.asInt(b))
				if dw > 0 {
					return fmt.Sprintf("(BitVec.ofInt %d %s)", dw, r)
				}
				return r
			}
			t.fail(c, "unsupported math.Min shape")
		}
		_, sw, ok := leanType(t.typeOf(arg))
		if !ok {
			t.fail(c, "conversion from unsupported type %s", t.typeOf(arg))
		}
		s := t.expr(arg)
		switch {
		case dw > 0 && sw > 0:
			return fmt.Sprintf("(BitVec.setWidth %d %s)", dw, s)
		case dw > 0 && sw == 0:
			return fmt.Sprintf("(BitVec.ofInt %d %s)", dw, s)
		case dw == 0 && sw > 0:
			// int(uintN): for N = 64 values >= 2^63 wrap negative in Go
			if sw == 64 {
				return fmt.Sprintf("((%s).toInt)", s)
			}
			return fmt.Sprintf("((%s).toNat : Int)", s)
		case dw == 0 && sw == 0:
			return s
		}
		t.fail(c, "unsupported conversion")
	}
	if id, ok := c.Fun.(*ast.Ident); ok {
		if ln, ok := t.callable[id.Name]; ok {
			var args []string
			for _, a := range c.Args {
				args = append(args, t.expr(a))
			}
			return fmt.Sprintf("(%s %s)", ln, strings.Join(args, " "))
		}
	}
	t.fail(c, "unsupported call")
	return ""
}

// assigned returns the variables assigned (not declared) in a block.
func assigned(b *ast.BlockStmt, acc map[string]bool) {
	for _, s := range b.List {
		switch x := s.(type) {
		case *ast.AssignStmt:
			if x.Tok != token.DEFINE {
				for _, l := range x.Lhs {
					if id, ok := l.(*ast.Ident); ok {
						acc[id.Name] = true
					}
				}
			}
		case *ast.IncDecStmt:
			if id, ok := x.X.(*ast.Ident); ok {
				acc[id.Name] = true
			}
		case *ast.IfStmt:
			assigned(x.Body, acc)
			if eb, ok := x.Else.(*ast.BlockStmt); ok {
				assigned(eb, acc)
			}
		}
	}
}

func endsInReturn(b *ast.BlockStmt) bool {
	if len(b.List) == 0 {
		return false
	}
	switch x := b.List[len(b.List)-1].(type) {
	case *ast.ReturnStmt:
		return true
	case *ast.IfStmt:
		eb, ok := x.Else.(*ast.BlockStmt)
		return ok && endsInReturn(x.Body) && endsInReturn(eb)
	}
	return false
}

// stmts translates a statement list followed by the continuation k (a Lean
// expression for "what happens after").  results are the named results.
func (t *tr) stmts(list []ast.Stmt, k string, results []string, ind string) string {
	if len(list) == 0 {
		return k
	}
	rest := func() string { return t.stmts(list[1:], k, results, ind) }
	switch x := list[0].(type) {
	case *ast.ReturnStmt:
		if len(x.Results) == 0 {
			if len(results) == 1 {
				return results[0]
			}
			return "(" + strings.Join(results, ", ") + ")"
		}
		var rs []string
		for _, r := range x.Results {
			rs = append(rs, t.expr(r))
		}
		if len(rs) == 1 {
			return rs[0]
		}
		return "(" + strings.Join(rs, ", ") + ")"
	case *ast.DeclStmt:
		gd := x.Decl.(*ast.GenDecl)
		s := ""
		for _, sp := range gd.Specs {
			vs := sp.(*ast.ValueSpec)
			for i, n := range vs.Names {
				lt, w, ok := leanType(t.info.Defs[n].Type())
				if !ok {
					t.fail(x, "unsupported var type")
				}
				val := "0"
				if i < len(vs.Values) {
					val = t.expr(vs.Values[i])
				} else if w > 0 {
					val = fmt.Sprintf("0#%d", w)
				} else if w < 0 {
					val = "false"
				}
				s += fmt.Sprintf("let %s : %s := %s\n%s", lid(n.Name), lt, val, ind)
			}
		}
		return s + rest()
	case *ast.AssignStmt:
		if len(x.Lhs) != len(x.Rhs) {
			t.fail(x, "multi-value assignment")
		}
		s := ""
		for i := range x.Lhs {
			id, ok := x.Lhs[i].(*ast.Ident)
			if !ok {
				t.fail(x, "assignment to non-identifier")
			}
			var ty types.Type
			if x.Tok == token.DEFINE {
				ty = t.info.Defs[id].Type()
			} else {
				ty = t.info.Uses[id].Type()
			}
			lt, _, ok := leanType(ty)
			if !ok {
				t.fail(x, "unsupported variable type %s", ty)
			}
			rhs := t.expr(x.Rhs[i])
			switch x.Tok {
			case token.DEFINE, token.ASSIGN:
			default:
				// op=
				op := map[token.Token]token.Token{
					token.ADD_ASSIGN: token.ADD, token.SUB_ASSIGN: token.SUB, token.MUL_ASSIGN: token.MUL,
					token.AND_ASSIGN: token.AND, token.AND_NOT_ASSIGN: token.AND_NOT, token.OR_ASSIGN: token.OR, token.SHL_ASSIGN: token.SHL, token.SHR_ASSIGN: token.SHR,
				}[x.Tok]
				if op == token.ILLEGAL {
					t.fail(x, "unsupported assignment operator %s", x.Tok)
				}
				fake := &ast.BinaryExpr{X: x.Lhs[i], Op: op, Y: x.Rhs[i]}
				t.info.Types[fake] = types.TypeAndValue{Type: ty}
				rhs = t.binary(fake)
			}
			s += fmt.Sprintf("let %s : %s := %s\n%s", lid(id.Name), lt, rhs, ind)
		}
		return s + rest()
	case *ast.IncDecStmt:
		id, ok := x.X.(*ast.Ident)
		if !ok {
			t.fail(x, "inc/dec of non-identifier")
		}
		ty := t.info.Uses[id].Type()
		lt, w, _ := leanType(ty)
		one := "1"
		if w > 0 {
			one = fmt.Sprintf("1#%d", w)
		}
		op := "+"
		if x.Tok == token.DEC {
			op = "-"
		}
		return fmt.Sprintf("let %s : %s := %s %s %s\n%s", lid(id.Name), lt, lid(id.Name), op, one, ind) + rest()
	case *ast.IfStmt:
		if x.Init != nil {
			t.fail(x, "if with init statement")
		}
		cond := t.expr(x.Cond)
		var elseB *ast.BlockStmt
		if x.Else != nil {
			eb, ok := x.Else.(*ast.BlockStmt)
			if !ok {
				// else if: wrap
				eb = &ast.BlockStmt{List: []ast.Stmt{x.Else}}
			}
			elseB = eb
		}
		thenRet := endsInReturn(x.Body)
		elseRet := elseB != nil && endsInReturn(elseB)
		ind2 := ind + "  "
		if thenRet && (elseB == nil || elseRet) {
			// if c { ...return } [else {...return}] ; rest
			th := t.stmts(x.Body.List, "", results, ind2)
			var el string
			if elseB != nil {
				el = t.stmts(elseB.List, "", results, ind2)
			} else {
				el = t.stmts(list[1:], k, results, ind2)
			}
			return fmt.Sprintf("if %s then\n%s%s\n%selse\n%s%s", cond, ind2, th, ind, ind2, el)
		}
		if thenRet && elseB != nil && !elseRet {
			th := t.stmts(x.Body.List, "", results, ind2)
			el := t.stmts(append(append([]ast.Stmt{}, elseB.List...), list[1:]...), k, results, ind2)
			return fmt.Sprintf("if %s then\n%s%s\n%selse\n%s%s", cond, ind2, th, ind, ind2, el)
		}
		// neither branch returns: merge the assigned variables
		acc := map[string]bool{}
		assigned(x.Body, acc)
		if elseB != nil {
			if endsInReturn(elseB) {
				t.fail(x, "else returns but then does not")
			}
			assigned(elseB, acc)
		}
		vars := sortedKeys(acc)
		if len(vars) == 0 {
			return rest()
		}
		for i := range vars {
			vars[i] = lid(vars[i])
		}
		tuple := strings.Join(vars, ", ")
		if len(vars) > 1 {
			tuple = "(" + tuple + ")"
		}
		th := t.stmts(x.Body.List, tuple, results, ind2+"  ")
		el := tuple
		if elseB != nil {
			el = t.stmts(elseB.List, tuple, results, ind2+"  ")
		}
		return fmt.Sprintf("let %s :=\n%sif %s then\n%s  %s\n%selse\n%s  %s\n%s", tuple, ind2, cond, ind2, th, ind2, ind2, el, ind) + rest()
	case *ast.ExprStmt, *ast.EmptyStmt:
		t.fail(x, "expression statement")
	}
	t.fail(list[0], "unsupported statement")
	return ""
}

// translateFunc renders fd as `def leanName (params) : resultType := body`.
func translateFunc(info *types.Info, fd *ast.FuncDecl, leanName string, callable map[string]string, tables map[string]bool) string {
	t := &tr{info: info, fname: fd.Name.Name, tables: tables, callable: callable}
	var params []string
	for _, f := range fd.Type.Params.List {
		lt, _, ok := leanType(info.Types[f.Type].Type)
		if !ok {
			t.fail(f, "unsupported parameter type")
		}
		for _, n := range f.Names {
			params = append(params, fmt.Sprintf("(%s : %s)", lid(n.Name), lt))
		}
	}
	var rtypes, rnames []string
	prelude := ""
	if fd.Type.Results != nil {
		for _, f := range fd.Type.Results.List {
			lt, w, ok := leanType(info.Types[f.Type].Type)
			if !ok {
				t.fail(f, "unsupported result type")
			}
			if len(f.Names) == 0 {
				rtypes = append(rtypes, lt)
			}
			for _, n := range f.Names {
				rtypes = append(rtypes, lt)
				rnames = append(rnames, lid(n.Name))
				zero := "0"
				if w > 0 {
					zero = fmt.Sprintf("0#%d", w)
				} else if w < 0 {
					zero = "false"
				}
				prelude += fmt.Sprintf("let %s : %s := %s\n  ", lid(n.Name), lt, zero)
			}
		}
	}
	fallthroughK := "(panic! \"missing return\")"
	if len(rnames) > 0 {
		if len(rnames) == 1 {
			fallthroughK = rnames[0]
		} else {
			fallthroughK = "(" + strings.Join(rnames, ", ") + ")"
		}
	}
	body := t.stmts(fd.Body.List, fallthroughK, rnames, "  ")
	if t.usesNow {
		params = append([]string{"(now : Int)"}, params...)
	}
	return fmt.Sprintf("def %s %s : %s :=\n  %s%s\n", leanName, strings.Join(params, " "), strings.Join(rtypes, " × "), prelude, body)
}

// findExprInFunc returns the first := statement in fd that declares `name`.
func findDefine(fd *ast.FuncDecl, name string) ast.Expr {
	var found ast.Expr
	ast.Inspect(fd, func(n ast.Node) bool {
		as, ok := n.(*ast.AssignStmt)
		if !ok || as.Tok != token.DEFINE || found != nil {
			return true
		}
		for i, l := range as.Lhs {
			if id, ok := l.(*ast.Ident); ok && id.Name == name && i < len(as.Rhs) {
				found = as.Rhs[i]
			}
		}
		return true
	})
	return found
}

func genPure() string {
	var b strings.Builder
	b.WriteString("-- GENERATED by harness/cmd/gen from /repo; do not edit\nimport Rend.Gen.Tables\nimport Rend.Base.Arith\nset_option linter.unusedVariables false\nnamespace Rend.Gen\nopen Rend\n\n")
	tables := map[string]bool{}

	ch := pkgs["handlers/memcached/chunked"]
	b.WriteString("-- chunked.chunkSize\n")
	b.WriteString(translateFunc(ch.TypesInfo, funcDecl(ch, "", "chunkSize"), "chunkSize", nil, tables))
	b.WriteString("\n-- chunked.chunkSliceIndices\n")
	b.WriteString(translateFunc(ch.TypesInfo, funcDecl(ch, "", "chunkSliceIndices"), "chunkSliceIndices", nil, tables))
	b.WriteString("\n-- chunked.exptime (time.Now().Unix() is the parameter `now`)\n")
	b.WriteString(translateFunc(ch.TypesInfo, funcDecl(ch, "", "exptime"), "exptime", nil, tables))

	// the numChunks expression inside handleSetCommon, as a function of (dataLen, dataSize)
	hsc := funcDecl(ch, "Handler", "handleSetCommon")
	nc := findDefine(hsc, "numChunks")
	if nc == nil {
		fatalf("handleSetCommon: numChunks := ... not found")
	}
	t := &tr{info: ch.TypesInfo, fname: "handleSetCommon.numChunks", tables: tables, fset: ch.Fset,
		subst: map[string]string{"len(cmd.Data)": "dataLen"}}
	s := t.expr(nc)
	// free variables of that expression: len(cmd.Data) and dataSize; rendered through placeholders
	b.WriteString("\n-- chunked.Handler.handleSetCommon: numChunks := " + exprString(ch.Fset, nc) + "\n")
	b.WriteString("def numChunksExpr (dataLen : Int) (dataSize : BitVec 32) : Int :=\n  " + s + "\n")

	// chunkedLimitedReader's numChunks
	nclr := findDefine(funcDecl(ch, "", "newChunkLimitedReader"), "numChunks")
	if nclr == nil {
		fatalf("newChunkLimitedReader: numChunks := ... not found")
	}
	t = &tr{info: ch.TypesInfo, fname: "newChunkLimitedReader.numChunks", tables: tables}
	b.WriteString("\n-- chunked.newChunkLimitedReader: numChunks := " + exprString(ch.Fset, nclr) + "\n")
	b.WriteString("def clrNumChunks (totalSize : Int) (chunkSize : Int) : Int :=\n  " + t.expr(nclr) + "\n")

	m := pkgs["metrics"]
	// portable lzcnt lives behind a !amd64 build tag: parse and type-check it on its own
	lzfile := filepath.Join(*repo, "metrics", "lzcnt.go")
	fset := token.NewFileSet()
	f, err := parser.ParseFile(fset, lzfile, nil, 0)
	if err != nil {
		fatalf("parse %s: %v", lzfile, err)
	}
	info := &types.Info{Types: map[ast.Expr]types.TypeAndValue{}, Defs: map[*ast.Ident]types.Object{}, Uses: map[*ast.Ident]types.Object{}}
	if _, err := (&types.Config{}).Check("metrics_lzcnt", fset, []*ast.File{f}, info); err != nil {
		fatalf("typecheck %s: %v", lzfile, err)
	}
	var lz *ast.FuncDecl
	for _, d := range f.Decls {
		if fd, ok := d.(*ast.FuncDecl); ok && fd.Name.Name == "lzcnt" {
			lz = fd
		}
	}
	if lz == nil {
		fatalf("lzcnt not found in %s", lzfile)
	}
	b.WriteString("\n-- metrics.lzcnt (portable version, metrics/lzcnt.go)\n")
	b.WriteString(translateFunc(info, lz, "lzcntPortable", nil, tables))

	b.WriteString("\n-- metrics.getBucket; its call to lzcnt is the parameter-free model lzcntModel (= BitVec.clz),\n-- which C18 proves equal to both the portable and the amd64 routine\n")
	b.WriteString(translateFunc(m.TypesInfo, funcDecl(m, "", "getBucket"), "getBucket", map[string]string{"lzcnt": "lzcntModel"}, tables))

	b.WriteString("\nend Rend.Gen\n")
	return b.String()
}

func exprString(fset *token.FileSet, e ast.Node) string {
	start, end := fset.Position(e.Pos()), fset.Position(e.End())
	src, err := os.ReadFile(start.Filename)
	if err != nil || end.Offset > len(src) {
		return ""
	}
	return string(src[start.Offset:end.Offset])
}

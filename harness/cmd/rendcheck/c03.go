package main

import (
	"bytes"
	"fmt"
	"math/rand"
	"os"
	"sort"
	"sync"
	"time"

	"github.com/anishathalye/porcupine"

	"verif/harness/fakemc"
)

// one key's operation for the linearizability checker
type linIn struct {
	Kind  string
	Key   string
	Data  []byte
	Flags uint32
}
type linOut struct {
	Ack  string  // ok | refused | other   (write-type commands)
	Read kvState // get / gat
}

var linModel = porcupine.Model{
	Partition: func(h []porcupine.Operation) [][]porcupine.Operation {
		by := map[string][]porcupine.Operation{}
		var keys []string
		for _, o := range h {
			k := o.Input.(linIn).Key
			if _, ok := by[k]; !ok {
				keys = append(keys, k)
			}
			by[k] = append(by[k], o)
		}
		sort.Strings(keys)
		var out [][]porcupine.Operation
		for _, k := range keys {
			out = append(out, by[k])
		}
		return out
	},
	Init: func() interface{} { return kvState{} },
	Step: func(state, input, output interface{}) (bool, interface{}) {
		s, in, out := state.(kvState), input.(linIn), output.(linOut)
		switch in.Kind {
		case "get", "gat":
			return sameState(s, out.Read), s
		default:
			n, succ := specApply(Command{Kind: in.Kind, Key: []byte(in.Key), Data: in.Data, Flags: in.Flags}, s)
			switch out.Ack {
			case "ok":
				return succ, n
			case "refused":
				return !succ, s
			}
			return false, s
		}
	},
	Equal: func(a, b interface{}) bool { return sameState(a.(kvState), b.(kvState)) },
	DescribeOperation: func(input, output interface{}) string {
		in, out := input.(linIn), output.(linOut)
		if in.Kind == "get" || in.Kind == "gat" {
			return fmt.Sprintf("%s(%s) -> %s", in.Kind, in.Key, out.Read)
		}
		return fmt.Sprintf("%s(%s,%q,%d) -> %s", in.Kind, in.Key, in.Data, in.Flags, out.Ack)
	},
}

// linOps converts one fed command and its reply into per-key operations.
func linOps(client int, proto string, c Command, out []byte, sentinelLen int, ending string, call, ret int64) ([]porcupine.Operation, string) {
	body := out
	if ending == "eof" && len(out) >= sentinelLen {
		body = out[:len(out)-sentinelLen]
	}
	if ending != "eof" {
		return nil, "connection ended " + ending
	}
	switch c.Kind {
	case "get", "gat":
		reads, ok := readsOf(proto, c, body)
		if !ok {
			return nil, "error reply to " + c.Kind
		}
		var ops []porcupine.Operation
		for k, v := range reads {
			kind := c.Kind
			ops = append(ops, porcupine.Operation{ClientId: client, Input: linIn{Kind: kind, Key: k}, Call: call, Output: linOut{Read: v}, Return: ret})
		}
		return ops, ""
	}
	ack := ackOf(proto, c, body, ending)
	if ack == "other" {
		return nil, "error reply to " + c.Kind
	}
	return []porcupine.Operation{{ClientId: client, Input: linIn{Kind: c.Kind, Key: string(c.Key), Data: c.Data, Flags: c.Flags}, Call: call, Output: linOut{Ack: ack}, Return: ret}}, ""
}

// l1InL2 checks that every entry L1 serves equals L2's entry of that key.
func l1InL2(st *Stack, keys []string) string {
	for _, k := range keys {
		a, ok := st.L1.Lookup(k)
		if !ok {
			continue
		}
		b, ok2 := st.L2.Lookup(k)
		if !ok2 {
			return fmt.Sprintf("L1 serves %q (%q) which L2 does not hold", k, a.Value)
		}
		if !bytes.Equal(a.Value, b.Value) || a.Flags != b.Flags {
			return fmt.Sprintf("L1 holds %q/%d for %q, L2 holds %q/%d", a.Value, a.Flags, k, b.Value, b.Flags)
		}
	}
	return ""
}

// a gate shared by both fake backends; connections are named "<tier>:<conn id>"
type tierGate struct {
	mu      sync.Mutex
	waiting map[string]chan struct{}
	arrived chan string
	done    chan string
	free    bool
}

func newTierGate() *tierGate {
	return &tierGate{waiting: map[string]chan struct{}{}, arrived: make(chan string, 4096), done: make(chan string, 4096)}
}

func (g *tierGate) gateFor(tier string) func(conn int, e *fakemc.Entry) func() {
	return func(conn int, e *fakemc.Entry) func() {
		name := fmt.Sprintf("%s:%d", tier, conn)
		g.mu.Lock()
		if g.free {
			g.mu.Unlock()
			return nil
		}
		ch := make(chan struct{})
		g.waiting[name] = ch
		g.mu.Unlock()
		g.arrived <- name
		<-ch
		return func() { g.done <- name }
	}
}

// pending returns the names of the connections with a request waiting at the gate, after giving
// requests `settle` time to arrive.
func (g *tierGate) pending(settle time.Duration) []string {
	time.Sleep(settle)
	g.mu.Lock()
	defer g.mu.Unlock()
	var out []string
	for n := range g.waiting {
		out = append(out, n)
	}
	sort.Strings(out)
	return out
}

func (g *tierGate) release(name string) bool {
	g.mu.Lock()
	ch, ok := g.waiting[name]
	if ok {
		delete(g.waiting, name)
	}
	g.mu.Unlock()
	if !ok {
		return false
	}
	close(ch)
	for {
		select {
		case n := <-g.done:
			if n == name {
				return true
			}
		case <-time.After(2 * time.Second):
			return false
		}
	}
}

func (g *tierGate) openAll() {
	g.mu.Lock()
	g.free = true
	for n, ch := range g.waiting {
		close(ch)
		delete(g.waiting, n)
	}
	g.mu.Unlock()
}

func init() {
	checks["C03"] = func(rep *Report, tier string, seed int64) {
		rep.Rule = "locked L1/L2 stacks (multi- and single-reader mode, main and batch port sharing one lock set): (a) exhaustive schedules: two connections each issue one command (thorough: also 2+1 commands) on the same key, for every pair of command kinds from {set, add, replace, append, prepend, delete, touch, get, gat} with the key initially absent, present in both tiers, or present in L2 only; a gate in the fake backends holds every backend request, and every interleaving of the two connections' backend requests that the key locks admit is executed (stateless exploration: each run's schedule is recorded and every feasible alternative choice is run in turn); (b) seeded random concurrent histories of 3..6 connections x 8 commands over 2 keys without the gate; oracle: the logged lock modes (write lock for every mutating command and get-and-touch, read locks for get); for pairs whose locks exclude each other (a write lock involved, or single-reader mode) the backend requests must form two blocks, and for every pair (two gets under shared read locks included) replies and final contents of both tiers must equal the compiled Lean model running the two commands whole in the order in which they first reached a backend (the statements of C03_serializable / C03_linearizable_shared_reads, replayed); then every history is checked for linearizability against the single-map model per key (porcupine), and when all commands have completed every entry L1 serves must equal L2's entry; (c) the REAL memproxy binary built from app/memproxy.go, started with --locked --l2-enabled (both reader modes) in front of two fake backends: a delete on the batch port must wait for a set of the same key held inside its critical section on the main port; distinct = distinct (configuration, command pair, initial state, schedule) / (configuration, history)"
		distinct := map[string]bool{}
		drv := StartDriver()
		defer drv.Close()
		cfgs := []StackCfg{{Orca: "l1l2", Locked: "mr", Bits: 2, L1: "std"}, {Orca: "l1l2", Locked: "sr", Bits: 3, L1: "std"}}
		if os.Getenv("VERIF_C03_UNLOCKED") != "" {
			// sensitivity self-test (not part of the check): without the wrapper the same exploration must find violations
			cfgs = []StackCfg{{Orca: "l1l2", Locked: "none", Bits: 0, L1: "std"}}
		}
		key := []byte("lin")
		kinds := []string{"set", "add", "replace", "append", "prepend", "delete", "touch", "get", "gat"}
		mk := func(kind string, tag byte, opq uint32) Command {
			c := Command{Kind: kind, Key: key, Opaque: opq}
			switch kind {
			case "set", "add", "replace":
				c.Data, c.Flags = []byte{tag, tag}, uint32(tag)
			case "append", "prepend":
				c.Data = []byte{tag}
			case "get":
				c = Command{Kind: "get", Keys: []GetKey{{Key: key, Opaque: opq}}}
			}
			return c
		}
		r := rand.New(rand.NewSource(seed*4099 + 3))
		fail := func(sig, what string, replay map[string]interface{}) {
			rep.Violations = append(rep.Violations, Violation{What: what, Signature: sig, Replay: replay})
		}
		for ci, cfg := range cfgs {
			st := GetStack(cfg)
			// ---- (a) exhaustive schedules
			type party struct {
				cl    *Client
				names []string // backend connection names
				cmds  []Command
				port  string
			}
			runOne := func(initState int, progs [][]Command, ports []string, first int, prefix []int) (schedule []int, feasible bool, what string, replay map[string]interface{}) {
				st.Reset()
				st.L1.Gate, st.L2.Gate = nil, nil
				setup := st.Dial("main", "bin")
				var hist []porcupine.Operation
				t0 := time.Now()
				if initState > 0 {
					c := Command{Kind: "set", Key: key, Flags: 1, Data: []byte("init"), Opaque: 1}
					out, e := setup.Feed(c.Encode("bin"), 2*time.Second)
					ops, _ := linOps(99, "bin", c, out, len(binSentinelReply), e, 0, 1)
					hist = append(hist, ops...)
				}
				setup.Close()
				if initState == 2 {
					// the key is held by L2 only: a get has to go to L2 and back-fill L1
					st.L1.Drop(string(key))
				}
				st.TakeLockLog()
				parties := make([]*party, len(progs))
				for i := range progs {
					cl := st.Dial(ports[i], "bin")
					st.L1.TakeLog()
					st.L2.TakeLog()
					cl.Feed(Command{Kind: "get", Keys: []GetKey{{Key: []byte(fmt.Sprintf("probe%d", i)), Opaque: 1}}}.Encode("bin"), 2*time.Second)
					p := &party{cl: cl, cmds: progs[i], port: ports[i]}
					for _, e := range st.L1.TakeLog() {
						p.names = append(p.names, fmt.Sprintf("L1:%d", e.Conn))
					}
					for _, e := range st.L2.TakeLog() {
						p.names = append(p.names, fmt.Sprintf("L2:%d", e.Conn))
					}
					parties[i] = p
				}
				owner := map[string]int{}
				for i, p := range parties {
					for _, n := range p.names {
						owner[n] = i
					}
				}
				g := newTierGate()
				st.L1.Gate, st.L2.Gate = g.gateFor("L1"), g.gateFor("L2")
				var mu sync.Mutex
				var wg sync.WaitGroup
				notes := ""
				type fedOut struct {
					out    []byte
					ending string
				}
				outs := make([][]fedOut, len(parties))
				for i, p := range parties {
					wg.Add(1)
					go func(i int, p *party) {
						defer wg.Done()
						if i != first {
							// the party that starts first reaches the key lock first
							time.Sleep(8 * time.Millisecond)
						}
						for _, c := range p.cmds {
							call := time.Since(t0).Nanoseconds() + 10
							out, e := p.cl.Feed(c.Encode("bin"), 8*time.Second)
							ret := time.Since(t0).Nanoseconds() + 10
							ops, msg := linOps(i, "bin", c, out, len(binSentinelReply), e, call, ret)
							mu.Lock()
							hist = append(hist, ops...)
							outs[i] = append(outs[i], fedOut{out, e})
							if msg != "" {
								notes += fmt.Sprintf("connection %d, %s: %s; ", i, c.Describe(), msg)
							}
							mu.Unlock()
							if e != "eof" {
								return
							}
						}
					}(i, p)
				}
				finished := make(chan struct{})
				go func() { wg.Wait(); close(finished) }()
				feasible = true
				step := 0
			sched:
				for {
					select {
					case <-finished:
						break sched
					default:
					}
					pend := g.pending(3 * time.Millisecond)
					if len(pend) == 0 {
						select {
						case <-finished:
							break sched
						case <-time.After(5 * time.Millisecond):
						}
						continue
					}
					// which parties can move
					can := map[int]string{}
					for _, n := range pend {
						if o, ok := owner[n]; ok {
							if _, had := can[o]; !had {
								can[o] = n
							}
						}
					}
					if len(can) == 0 {
						// a request of a connection we do not know: let it through
						g.release(pend[0])
						continue
					}
					choice := -1
					if step < len(prefix) {
						if _, ok := can[prefix[step]]; ok {
							choice = prefix[step]
						} else {
							// the wanted party has nothing pending: wait a little for it (it may be on its way)
							pend2 := g.pending(25 * time.Millisecond)
							for _, n := range pend2 {
								if owner[n] == prefix[step] {
									can[prefix[step]] = n
									choice = prefix[step]
								}
							}
							if choice < 0 {
								feasible = false
								break sched
							}
						}
					} else {
						for o := range can {
							if choice < 0 || o < choice {
								choice = o
							}
						}
					}
					g.release(can[choice])
					schedule = append(schedule, choice)
					step++
				}
				g.openAll()
				<-finished
				st.L1.Gate, st.L2.Gate = nil, nil
				for _, p := range parties {
					p.cl.Close()
				}
				if !feasible {
					return schedule, false, "", nil
				}
				replay = map[string]interface{}{"stack": cfg.String(), "initial_state": []string{"absent", "in L1 and L2", "in L2 only"}[initState], "schedule": schedule, "starts_first": first}
				var progDesc [][]string
				for _, pr := range progs {
					var ds []string
					for _, c := range pr {
						ds = append(ds, c.Describe())
					}
					progDesc = append(progDesc, ds)
				}
				replay["programs"], replay["ports"] = progDesc, ports
				if notes != "" {
					return schedule, true, "a command was not answered with its acknowledgement or value: " + notes, replay
				}
				// lock modes: a mutating command or get-and-touch must have taken a WRITE lock, a get only read locks
				lockLog := st.TakeLockLog()
				wantW := 0
				for _, pr := range progs {
					for _, c := range pr {
						if c.Kind != "get" {
							wantW++
						}
					}
				}
				gotW := 0
				for _, e := range lockLog {
					if len(e) > 1 && e[0] == 'A' && e[len(e)-1] == 'w' {
						gotW++
					}
				}
				if gotW != wantW {
					replay["lock_log"] = lockLog
					return schedule, true, fmt.Sprintf("%d write-lock acquisitions were logged for %d mutating commands (a mutating command ran under a read lock, or a get under a write lock)", gotW, wantW), replay
				}
				res, info := porcupine.CheckOperationsVerbose(linModel, hist, 5*time.Second)
				_ = info
				if res != porcupine.Ok {
					var ds []string
					for _, o := range hist {
						ds = append(ds, fmt.Sprintf("[%d..%d] c%d %s", o.Call, o.Return, o.ClientId, linModel.DescribeOperation(o.Input, o.Output)))
					}
					replay["history"] = ds
					return schedule, true, "the history is not linearizable with respect to the single-map model", replay
				}
				if msg := l1InL2(st, []string{string(key)}); msg != "" {
					return schedule, true, "after all commands completed: " + msg, replay
				}
				// serial replay (theorem C03_serializable): when the two commands exclude each other
				// (a write lock is involved, or single-reader mode) their backend requests must come
				// in two blocks, and replies and final contents must be those of the MODEL running
				// the two commands whole, one after the other, in the order of the blocks
				gets := 0
				single := true
				for _, pr := range progs {
					if len(pr) != 1 {
						single = false
					} else if pr[0].Kind == "get" {
						gets++
					}
				}
				if single {
					// two gets under shared read locks (multi-reader mode) may interleave: then only the
					// answers and the final contents are compared (C03_linearizable_shared_reads)
					shared := cfg.Locked != "sr" && gets == 2
					var order []int
					seenP := map[int]bool{}
					last := -1
					for _, pi := range schedule {
						if pi == last {
							continue
						}
						if seenP[pi] && shared {
							last = pi
							continue
						}
						if seenP[pi] {
							replay["blocks"] = schedule
							return schedule, true, "the backend requests of two commands on one key that hold excluding locks were interleaved", replay
						}
						seenP[pi] = true
						order = append(order, pi)
						last = pi
					}
					for i := range progs {
						if !seenP[i] {
							order = append(order, i)
						}
					}
					rep.Distribution["serial-replays"]++
					drv.Script = nil
					drv.Send("case C03-serial-replay", 0)
					drv.Send(connLine(cfg, ConnCfg{ID: "s", Port: "main", Proto: "bin"}), 0)
					for i := range progs {
						drv.Send(connLine(cfg, ConnCfg{ID: fmt.Sprintf("p%d", i), Port: ports[i], Proto: "bin"}), 0)
					}
					drv.Send(fmt.Sprintf("now %d", st.L1.Now()), 0)
					if initState > 0 {
						c := Command{Kind: "set", Key: key, Flags: 1, Data: []byte("init"), Opaque: 1}
						drv.Send(fmt.Sprintf("feed s %s", hx(append(c.Encode("bin"), binSentinel...))), 4)
					}
					if initState == 2 {
						drv.Send(fmt.Sprintf("evict L1 %s", hx(key)), 0)
					}
					for _, pi := range order {
						if len(outs[pi]) != 1 {
							continue
						}
						c := progs[pi][0]
						r4 := drv.Send(fmt.Sprintf("feed p%d %s", pi, hx(append(c.Encode("bin"), binSentinel...))), 4)
						implOut := fmt.Sprintf("out %s %s", canonN(256, outs[pi][0].out), outs[pi][0].ending)
						if r4[0] != implOut {
							replay["serial_order"], replay["driver_script"] = order, append([]string{}, drv.Script...)
							replay["impl_reply"], replay["model_reply"] = implOut, r4[0]
							return schedule, true, fmt.Sprintf("connection %d (%s) was not answered as in the sequential run of the commands in lock order %v (model): got %s, sequentially %s", pi, c.Describe(), order, implOut, r4[0]), replay
						}
					}
					for _, tf := range []struct {
						name string
						f    *fakemc.Server
					}{{"L1", st.L1}, {"L2", st.L2}} {
						part := hx(key) + "=-"
						if it, ok := tf.f.Lookup(string(key)); ok {
							part = fmt.Sprintf("%s=%d,%d,%s", hx(key), it.Flags, it.Deadline, canon(it.Value))
						}
						got := drv.Send(fmt.Sprintf("dump %s %s", tf.name, hx(key)), 1)
						if want := fmt.Sprintf("dump %s %s", tf.name, part); got[0] != want {
							replay["serial_order"], replay["driver_script"] = order, append([]string{}, drv.Script...)
							return schedule, true, fmt.Sprintf("after both commands %s holds %s, the sequential run in lock order %v (model) leaves %s", tf.name, want, order, got[0]), replay
						}
					}
				}
				return schedule, true, "", replay
			}
			explore := func(tag string, initState int, progs [][]Command, ports []string) {
				for first := 0; first < len(progs); first++ {
					seen := map[string]bool{}
					var stack [][]int
					stack = append(stack, nil)
					runs := 0
					for len(stack) > 0 && runs < 300 {
						prefix := stack[len(stack)-1]
						stack = stack[:len(stack)-1]
						sched, feasible, what, replay := runOne(initState, progs, ports, first, prefix)
						runs++
						if !feasible {
							continue
						}
						keyS := fmt.Sprint(sched)
						if seen[keyS] {
							continue
						}
						seen[keyS] = true
						rep.Evaluations++
						rep.Validated++
						distinct[fmt.Sprintf("%s/%s/%v/%d/%s", cfg, tag, initState, first, keyS)] = true
						rep.Distribution[fmt.Sprintf("schedule-length:%d", len(sched))]++
						if what != "" {
							fail("non-linearizable:"+tag, fmt.Sprintf("%s, %s: %s", cfg, tag, what), replay)
						}
						for i := len(prefix); i < len(sched); i++ {
							for alt := 0; alt < len(progs); alt++ {
								if alt != sched[i] {
									np := append(append([]int{}, sched[:i]...), alt)
									if !seen["p"+fmt.Sprint(np)] {
										seen["p"+fmt.Sprint(np)] = true
										stack = append(stack, np)
									}
								}
							}
						}
					}
				}
				rep.Distribution["explored-pairs"]++
			}
			var pairs [][2]string
			for _, a := range kinds {
				for _, b := range kinds {
					if a <= b {
						pairs = append(pairs, [2]string{a, b})
					}
				}
			}
			for pi, pr := range pairs {
				if tier != "thorough" && (pi+ci+int(seed))%4 != 0 && !(pr[0] == "get" && pr[1] == "set") && !(pr[0] == "append" && pr[1] == "gat") {
					continue
				}
				for initState := 0; initState < 3; initState++ {
					ports := []string{"main", []string{"main", "batch"}[(pi+ci+initState)%2]}
					explore(pr[0]+"+"+pr[1], initState, [][]Command{{mk(pr[0], 'a', 11)}, {mk(pr[1], 'b', 12)}}, ports)
				}
			}
			if tier == "thorough" {
				for k := 0; k < 12; k++ {
					a, b, c := kinds[r.Intn(len(kinds))], kinds[r.Intn(len(kinds))], kinds[r.Intn(len(kinds))]
					explore(a+","+c+"+"+b, r.Intn(3), [][]Command{{mk(a, 'a', 11), mk(c, 'c', 13)}, {mk(b, 'b', 12)}}, []string{"main", "batch"})
				}
			}
			// ---- (b) random concurrent histories, no gate
			rounds := 25
			if tier == "thorough" {
				rounds = 300
			}
			_ = ci
			for round := 0; round < rounds; round++ {
				st.Reset()
				n := 3 + r.Intn(4)
				keys := [][]byte{[]byte("lk1"), []byte("lk2")}
				var mu sync.Mutex
				var hist []porcupine.Operation
				notes := ""
				t0 := time.Now()
				var wg sync.WaitGroup
				var progDesc [][]string
				for i := 0; i < n; i++ {
					gr := rand.New(rand.NewSource(seed*31 + int64(round)*101 + int64(i) + int64(ci)*7))
					proto := []string{"bin", "text"}[gr.Intn(2)]
					port := []string{"main", "batch"}[gr.Intn(2)]
					var cmds []Command
					var ds []string
					for s := 0; s < 8; s++ {
						kd := kinds[gr.Intn(len(kinds))]
						if proto == "text" && kd == "gat" {
							kd = "touch"
						}
						c := mk(kd, byte('a'+i), uint32(100*i+s+1))
						k := keys[gr.Intn(2)]
						c.Key = k
						if kd == "get" {
							c.Keys = []GetKey{{Key: k, Opaque: uint32(100*i + s + 1)}}
							if gr.Intn(3) == 0 {
								c.Keys = append(c.Keys, GetKey{Key: keys[gr.Intn(2)], Opaque: uint32(100*i + s + 51)})
							}
						}
						c.Data = append(c.Data, byte('0'+s))
						cmds = append(cmds, c)
						ds = append(ds, c.Describe())
					}
					progDesc = append(progDesc, ds)
					wg.Add(1)
					go func(i int, proto, port string, cmds []Command) {
						defer wg.Done()
						cl := st.Dial(port, proto)
						defer cl.Close()
						sl := len(binSentinelReply)
						if proto == "text" {
							sl = len(textSentinelReply)
						}
						for _, c := range cmds {
							call := time.Since(t0).Nanoseconds()
							out, e := cl.Feed(c.Encode(proto), 8*time.Second)
							ret := time.Since(t0).Nanoseconds()
							ops, msg := linOps(i, proto, c, out, sl, e, call, ret)
							mu.Lock()
							hist = append(hist, ops...)
							if msg != "" {
								notes += fmt.Sprintf("connection %d, %s: %s; ", i, c.Describe(), msg)
							}
							mu.Unlock()
							if e != "eof" {
								return
							}
						}
					}(i, proto, port, cmds)
				}
				wg.Wait()
				rep.Evaluations++
				distinct[fmt.Sprintf("%s/rnd/%d", cfg, round)] = true
				rep.Distribution[fmt.Sprintf("random-history-conns:%d", n)]++
				replay := map[string]interface{}{"stack": cfg.String(), "programs": progDesc, "seed": seed, "round": round}
				if notes != "" {
					fail("unanswered-concurrent", fmt.Sprintf("%s, random history %d: %s", cfg, round, notes), replay)
					continue
				}
				if res := porcupine.CheckOperationsTimeout(linModel, hist, 10*time.Second); res == porcupine.Illegal {
					var ds []string
					for _, o := range hist {
						ds = append(ds, fmt.Sprintf("[%d..%d] c%d %s", o.Call, o.Return, o.ClientId, linModel.DescribeOperation(o.Input, o.Output)))
					}
					replay["history"] = ds
					fail("non-linearizable:random", fmt.Sprintf("%s, random history %d of %d connections is not linearizable with respect to the single-map model", cfg, round, n), replay)
					continue
				}
				if msg := l1InL2(st, []string{"lk1", "lk2"}); msg != "" {
					fail("l1-differs-from-l2-after-quiescence", fmt.Sprintf("%s, random history %d: after all commands completed: %s", cfg, round, msg), replay)
					continue
				}
				rep.Validated++
			}
		}
		rep.Distinct = len(distinct)
		if bin := os.Getenv("VERIF_MEMPROXY"); bin != "" && os.Getenv("VERIF_C03_UNLOCKED") == "" {
			memproxyProbe(rep, bin)
		}
	}
}

package main

import (
	"fmt"
	"strconv"
	"strings"
	"time"
)

const thirtyDays = 2592000

func deadlineOf(now int64, exptime uint32) int64 {
	switch {
	case exptime == 0:
		return 0
	case exptime <= thirtyDays:
		return now + int64(exptime)
	default:
		return int64(exptime)
	}
}

// specDump asks the driver for the specification map's entries of the given keys: key -> (flags, deadline) or absent.
func specDump(d *Driver, now int64, keys []string) map[string][2]int64 {
	var hk []string
	for _, k := range keys {
		hk = append(hk, hx([]byte(k)))
	}
	d.Send(fmt.Sprintf("now %d", now), 0)
	r := d.Send("dump S "+strings.Join(hk, " "), 1)
	out := map[string][2]int64{}
	f := strings.Fields(r[0])
	for idx, tok := range f {
		if idx < 2 {
			continue
		}
		kv := strings.SplitN(tok, "=", 2)
		if len(kv) != 2 || kv[1] == "-" {
			continue
		}
		parts := strings.SplitN(kv[1], ",", 3)
		fl, _ := strconv.ParseInt(parts[0], 10, 64)
		dl, _ := strconv.ParseInt(parts[1], 10, 64)
		out[string(unhx(kv[0]))] = [2]int64{fl, dl}
	}
	return out
}

func unhx(s string) []byte {
	if s == "-" || s == "" {
		return nil
	}
	b := make([]byte, len(s)/2)
	for i := range b {
		v, _ := strconv.ParseUint(s[2*i:2*i+2], 16, 8)
		b[i] = byte(v)
	}
	return b
}

// ttlProbe checks expiries on the implementation's backends after every command:
//  1. the tier that is the system of record (L2; L1 in L1-only mode) holds each key with exactly the
//     specification's deadline (pass-through tier: the key's entry; chunked tier: the metadata entry);
//  2. a pass-through L1 in front of L2 holds every key it serves with L2's deadline;
//  3. every back-fill write of a get gives the L1 copy L2's deadline.
func ttlProbe(sc Scenario, i int, st *Stack, d *Driver, ob StepObs) []Violation {
	var out []Violation
	s := sc.Steps[i]
	now := st.L1.Now()
	var keys []string
	seen := map[string]bool{}
	for _, k := range keyAlphabet {
		keys = append(keys, k)
		seen[k] = true
	}
	// (and whatever other keys the scenario itself uses)
	for _, st := range sc.Steps {
		if st.Kind != "feed" {
			continue
		}
		for _, k := range append([][]byte{st.Cmd.Key}, func() [][]byte {
			var ks [][]byte
			for _, g := range st.Cmd.Keys {
				ks = append(ks, g.Key)
			}
			return ks
		}()...) {
			if len(k) > 0 && !seen[string(k)] {
				seen[string(k)] = true
				keys = append(keys, string(k))
			}
		}
	}
	spec := specDump(d, now, keys)
	if st.L1.Now() != now {
		return nil
	}
	record, recName, chunked := st.L2, "L2", false
	if sc.Stack.Orca == "l1only" {
		record, recName, chunked = st.L1, "L1", sc.Stack.L1 == "chunked"
	}
	for _, k := range keys {
		bk := k
		if chunked {
			bk = k + "-meta"
		}
		it, ok := record.Lookup(bk)
		sp, sok := spec[k]
		switch {
		case ok && sok && it.Deadline != sp[1]:
			sig := "record-tier-deadline"
			if chunked {
				sig = "chunked-metadata-deadline"
			}
			out = append(out, Violation{What: fmt.Sprintf("%s holds key %q until %d, the specification until %d (now %d), after step %d", recName, k, it.Deadline, sp[1], now, i),
				Signature: sig + ":" + lastTTLCommands(sc, i, k), Replay: map[string]interface{}{"step": i, "key": k, "impl_deadline": it.Deadline, "spec_deadline": sp[1], "now": now}})
		case ok && sok && chunked:
			// every chunk entry of the key must carry the same expiry as the key itself
			// (only the chunks the metadata refers to: a shorter value written over a longer one
			// leaves the longer one's last chunks behind, unreferenced, with their old expiry)
			nChunks := 0
			if len(it.Value) >= 12 {
				nChunks = int(it.Value[8])<<24 | int(it.Value[9])<<16 | int(it.Value[10])<<8 | int(it.Value[11])
			}
			for ci := 0; ci < nChunks && ci < 64; ci++ {
				ce, cok := record.Lookup(fmt.Sprintf("%s-%d", k, ci))
				if !cok {
					break
				}
				if ce.Deadline != sp[1] {
					out = append(out, Violation{What: fmt.Sprintf("%s holds chunk %d of key %q until %d, the specification holds the key until %d (now %d), after step %d", recName, ci, k, ce.Deadline, sp[1], now, i),
						Signature: "chunk-entry-deadline:" + lastTTLCommands(sc, i, k), Replay: map[string]interface{}{"step": i, "key": k, "chunk": ci, "impl_deadline": ce.Deadline, "spec_deadline": sp[1], "now": now}})
					break
				}
			}
		case ok != sok && !chunked:
			out = append(out, Violation{What: fmt.Sprintf("%s serves key %q: %v, the specification: %v, after step %d", recName, k, ok, sok, i),
				Signature: "record-tier-presence:" + s.Cmd.Kind, Replay: map[string]interface{}{"step": i, "key": k, "now": now}})
		}
	}
	if sc.Stack.Orca == "l1l2" && sc.Stack.L1 == "std" {
		for _, k := range keys {
			a, ok := st.L1.Lookup(k)
			b, ok2 := st.L2.Lookup(k)
			if ok && ok2 && a.Deadline != b.Deadline {
				sig := "l1-l2-deadline:" + s.Cmd.Kind
				if d := b.Deadline - a.Deadline; b.Deadline > now+int64(thirtyDays) && a.Deadline > int64(thirtyDays) && d <= now && d >= now-2000000 {
					// L1's deadline IS L2's remaining lifetime at the moment of an earlier back-fill, read
					// as a date: finding D22 (more than 30 days were left), seen at a later step
					sig = "backfill-ttl-over-30-days"
				}
				out = append(out, Violation{What: fmt.Sprintf("L1 holds key %q until %d, L2 until %d (now %d), after step %d", k, a.Deadline, b.Deadline, now, i),
					Signature: sig, Replay: map[string]interface{}{"step": i, "key": k, "l1_deadline": a.Deadline, "l2_deadline": b.Deadline, "now": now}})
			}
		}
		// back-fill writes: sets on L1 during a main-port get
		if s.Cmd.Kind == "get" {
			for _, e := range ob.L1 {
				if e.Op != "set" {
					continue
				}
				b, ok2 := st.L2.Lookup(string(e.Key))
				if !ok2 {
					continue
				}
				// (judged at the second the back-fill reached L1, not at the second of this probe)
				at := e.At
				if at == 0 {
					at = now
				}
				got := deadlineOf(at, e.Exptime)
				if got != b.Deadline {
					sig := "backfill-ttl"
					if e.Exptime > thirtyDays {
						sig = "backfill-ttl-over-30-days"
					}
					out = append(out, Violation{What: fmt.Sprintf("get back-fills key %q into L1 with exptime %d, i.e. until %d, while L2 holds it until %d (now %d), at step %d", e.Key, e.Exptime, got, b.Deadline, now, i),
						Signature: sig, Replay: map[string]interface{}{"step": i, "key": string(e.Key), "backfill_exptime": e.Exptime, "l2_deadline": b.Deadline, "now": now}})
				}
			}
		}
	}
	return out
}

// lastTTLCommands classifies the history of key k up to step i.  Walking back to the last command
// that certainly rewrote (or removed) the key's expiry record — set, touch, delete — it reports
// "gat-then-pend" when a get-and-touch was later followed by an append/prepend (the shape of the
// known finding: the chunked get-and-touch does not rewrite the expiry kept in the metadata, the
// append/prepend re-stores the value with that stale expiry); otherwise the last two commands.
func lastTTLCommands(sc Scenario, i int, k string) string {
	var kinds []string
	for j := i; j >= 0; j-- {
		s := sc.Steps[j]
		if s.Kind != "feed" {
			continue
		}
		if string(s.Cmd.Key) != k || s.Cmd.Kind == "get" {
			continue
		}
		kinds = append([]string{s.Cmd.Kind}, kinds...)
		if s.Cmd.Kind == "set" || s.Cmd.Kind == "touch" || s.Cmd.Kind == "delete" {
			break
		}
	}
	sawGat := false
	for _, kd := range kinds {
		if kd == "gat" {
			sawGat = true
		}
		if sawGat && (kd == "append" || kd == "prepend") {
			return "gat-then-pend"
		}
	}
	if len(kinds) > 2 {
		kinds = kinds[len(kinds)-2:]
	}
	return strings.Join(kinds, ">")
}

// directedTTL: the minimised histories of past failures, run first on every configuration.
func directedTTL(cfg StackCfg) []Scenario {
	now := time.Now().Unix()
	mk := func(id string, steps ...Step) Scenario {
		sc := Scenario{ID: id, Stack: cfg, Steps: steps, Probe: ttlProbe}
		sc.Conns = append(sc.Conns, ConnCfg{ID: "b", Port: "main", Proto: "bin"}, ConnCfg{ID: "t", Port: "main", Proto: "text"})
		if cfg.Orca == "l1l2" {
			sc.Conns = append(sc.Conns, ConnCfg{ID: "B", Port: "batch", Proto: "bin"})
		}
		return sc
	}
	feed := func(conn string, c Command) Step { return Step{Kind: "feed", Conn: conn, Cmd: c} }
	k := []byte("foo")
	get := Command{Kind: "get", Keys: []GetKey{{Key: k, Opaque: 7}}}
	var out []Scenario
	// get-and-touch followed by append / prepend: the expiry must stay the one get-and-touch asked for
	for _, pend := range []string{"append", "prepend"} {
		out = append(out, mk("C09-dir-gat-"+pend,
			feed("b", Command{Kind: "set", Key: k, Flags: 5, Exptime: 100, Data: []byte("value"), Opaque: 1}),
			feed("b", Command{Kind: "gat", Key: k, Exptime: 5000, Opaque: 2}),
			feed("b", Command{Kind: pend, Key: k, Data: []byte("xy"), Opaque: 3}),
			feed("t", get)))
		out = append(out, mk("C09-dir-touch-"+pend,
			feed("b", Command{Kind: "set", Key: k, Flags: 5, Exptime: 100, Data: []byte("value"), Opaque: 1}),
			feed("t", Command{Kind: "touch", Key: k, Exptime: 7000, Opaque: 2}),
			feed("b", Command{Kind: pend, Key: k, Data: []byte("xy"), Opaque: 3}),
			feed("t", get)))
	}
	if cfg.L1 == "chunked" {
		// the chunking handler converts a relative lifetime into a date with the proxy's clock and
		// re-stores it on append / prepend: around the 30-day boundary, with real time passing
		for _, ttl := range []uint32{thirtyDays - 1, thirtyDays} {
			out = append(out, mk(fmt.Sprintf("C09-dir-30d-append-%d", ttl),
				feed("b", Command{Kind: "set", Key: k, Flags: 5, Exptime: ttl, Data: []byte("value"), Opaque: 1}),
				Step{Kind: "sleep", Secs: 1},
				feed("b", Command{Kind: "append", Key: k, Data: []byte("xy"), Opaque: 3}),
				feed("t", get)))
		}
	}
	// a touch that makes the entry permanent, then append / prepend: it stays permanent
	for _, pend := range []string{"append", "prepend"} {
		out = append(out, mk("C09-dir-touch0-"+pend,
			feed("b", Command{Kind: "set", Key: k, Flags: 5, Exptime: 100, Data: []byte("value"), Opaque: 1}),
			feed("t", Command{Kind: "touch", Key: k, Exptime: 0, Opaque: 2}),
			feed("b", Command{Kind: pend, Key: k, Data: []byte("xy"), Opaque: 3}),
			feed("t", get),
			feed("b", get)))
	}
	// append / prepend re-store the value: "never expires" must stay never, and a date more than
	// 30 days ahead must stay that date (neither survives being turned into a remaining lifetime)
	for pi, pend := range []string{"append", "prepend"} {
		for _, ttl := range []uint32{0, uint32(now) + 40*86400, thirtyDays, uint32(now) + thirtyDays + 3} {
			out = append(out, mk(fmt.Sprintf("C09-dir-%s-keeps-%d", pend, ttl),
				feed("b", Command{Kind: "set", Key: k, Flags: 5, Exptime: ttl, Data: []byte("value"), Opaque: 1}),
				feed([]string{"b", "t"}[pi], Command{Kind: pend, Key: k, Data: []byte("xy"), Opaque: 3}),
				feed("t", get),
				feed("b", get)))
		}
	}
	if cfg.Orca == "l1l2" && cfg.L1 == "chunked" {
		out = append(out, remnantAdd(cfg, "C09-dir-remnant-add"))
		out[len(out)-1].Probe = ttlProbe
	}
	if cfg.Orca == "l1l2" {
		// one multi-key get back-fills two keys with different lifetimes (one of them permanent), in
		// both orders: each L1 copy gets its own key's lifetime
		ka, kb := []byte("a"), []byte("b")
		la, lb := ka, kb
		if cfg.L1 == "chunked" {
			la, lb = []byte("a-meta"), []byte("b-meta")
		}
		for oi, order := range [][2][]byte{{ka, kb}, {kb, ka}} {
			out = append(out, mk(fmt.Sprintf("C09-dir-backfill-two-%d", oi),
				feed("b", Command{Kind: "set", Key: ka, Flags: 1, Exptime: 100, Data: []byte("with-ttl"), Opaque: 1}),
				feed("b", Command{Kind: "set", Key: kb, Flags: 2, Exptime: 0, Data: []byte("permanent"), Opaque: 2}),
				Step{Kind: "evict", Tier: "L1", Key: la},
				Step{Kind: "evict", Tier: "L1", Key: lb},
				feed("t", Command{Kind: "get", Keys: []GetKey{{Key: order[0]}, {Key: order[1]}}}),
				feed("b", Command{Kind: "get", Keys: []GetKey{{Key: order[1], Opaque: 5, Quiet: true}, {Key: order[0], Opaque: 6}}})))
		}
	}
	if cfg.Orca == "l1l2" {
		// back-fill of items with various remaining lifetimes
		for _, ttl := range []uint32{0, 50, thirtyDays, uint32(now) + thirtyDays - 5, uint32(now) + thirtyDays + 5000} {
			key := k
			if cfg.L1 == "chunked" {
				key = []byte("foo-meta")
			}
			out = append(out, mk(fmt.Sprintf("C09-dir-backfill-%d", ttl),
				feed("b", Command{Kind: "set", Key: k, Flags: 9, Exptime: ttl, Data: []byte("backfilled"), Opaque: 1}),
				Step{Kind: "evict", Tier: "L1", Key: key},
				feed("b", get),
				feed("t", get),
				feed("B", Command{Kind: "touch", Key: k, Exptime: 300, Opaque: 4}),
				feed("b", get)))
		}
	}
	return out
}

func init() {
	checks["C09"] = func(rep *Report, tier string, seed int64) {
		{
			d := StartDriver()
			for _, cfg := range fullStackConfigs(tier) {
				for _, sc := range directedTTL(cfg) {
					out := RunScenarioO(d, sc, 3*time.Second, true)
					if out.Tainted {
						out = RunScenarioO(d, sc, 3*time.Second, true)
					}
					if out.Tainted {
						rep.Tainted++
						continue
					}
					rep.Evaluations++
					rep.Distribution["directed"]++
					for _, m := range out.Misses {
						rep.Violations = append(rep.Violations, Violation{
							What:      fmt.Sprintf("reply differs from the single-map specification at step %d (%s): %s", m.Step, out.Descs[m.Step], m.Verdict),
							Signature: classifyMiss(sc, m.Step, out.Obs),
							Replay:    map[string]interface{}{"scenario": describeScenario(sc), "step": m.Step, "driver_script": out.Script},
						})
					}
					for _, v := range out.Probed {
						if m, ok := v.Replay.(map[string]interface{}); ok {
							m["scenario"] = describeScenario(sc)
							m["driver_script"] = out.Script
						}
						rep.Violations = append(rep.Violations, v)
					}
					if out.Div != nil {
						rep.Divergences = append(rep.Divergences, out.Div)
						continue
					}
					rep.Validated++
				}
			}
			d.Close()
		}
		per, steps := 12, 30
		if tier == "thorough" {
			per, steps = 60, 45
		}
		rep.Rule = "seeded random command sequences with TTLs from {0, 1..5 s, large relative, 30 days -1/0/+1, absolute future, absolute past}, clock advances (1..4 s and 100..200000 s; not on stacks with a chunked L1, whose handler reads the proxy clock, which the harness cannot move; there, directed sets with 30 days -1/0 followed by a real second of waiting and an append) and L1 evictions on every stack configuration (pass-through and chunked L1, main and batch port); replies judged by the single-map specification (expiry is visible once the clock moves); after every command the implementation's backends are inspected directly: the tier of record holds each key with exactly the specification's deadline (chunked tier: the metadata entry), a pass-through L1 holds what it serves with L2's deadline, and each back-fill write carries L2's deadline; reply bytes, traces and contents also compared with the Lean model"
		runSequences(rep, tier, seed+29, per, seqOpts{Steps: steps, MaxChunks: 2, Evict: 0.15, Advance: 0.3, Probe: ttlProbe}, nil)
	}
}

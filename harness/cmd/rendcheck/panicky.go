package main

import (
	"bytes"
	"errors"
	"fmt"
	"io"
	"strings"
	"sync/atomic"
	"time"

	"github.com/netflix/rend/common"
	"github.com/netflix/rend/handlers"

	"verif/harness/fakemc"
)

// panicky wraps a backend handler: a request on a key that starts with "zz-panic-<kind>-" panics
// inside the handler call, i.e. underneath the orchestrator and the locking wrapper, on the
// connection's own goroutine — with the kinds of value code really panics with.
type panicky struct{ handlers.Handler }

var panicKinds = []string{"string", "error", "eof", "runtime", "custom"}

type customPanic struct{ code int }

var panicsRaised int64

func maybePanic(key []byte) {
	if !bytes.HasPrefix(key, []byte("zz-panic-")) {
		return
	}
	atomic.AddInt64(&panicsRaised, 1)
	switch strings.SplitN(string(key[len("zz-panic-"):]), "-", 2)[0] {
	case "string":
		panic("handler failure")
	case "error":
		panic(errors.New("handler failure"))
	case "eof":
		panic(io.EOF)
	case "runtime":
		var m map[string]int
		m["x"] = 1
	case "custom":
		panic(customPanic{7})
	}
}

func (p panicky) Set(cmd common.SetRequest) error { maybePanic(cmd.Key); return p.Handler.Set(cmd) }
func (p panicky) Add(cmd common.SetRequest) error { maybePanic(cmd.Key); return p.Handler.Add(cmd) }
func (p panicky) Replace(cmd common.SetRequest) error {
	maybePanic(cmd.Key)
	return p.Handler.Replace(cmd)
}
func (p panicky) Append(cmd common.SetRequest) error {
	maybePanic(cmd.Key)
	return p.Handler.Append(cmd)
}
func (p panicky) Prepend(cmd common.SetRequest) error {
	maybePanic(cmd.Key)
	return p.Handler.Prepend(cmd)
}
func (p panicky) Delete(cmd common.DeleteRequest) error {
	maybePanic(cmd.Key)
	return p.Handler.Delete(cmd)
}
func (p panicky) Touch(cmd common.TouchRequest) error {
	maybePanic(cmd.Key)
	return p.Handler.Touch(cmd)
}
func (p panicky) GAT(cmd common.GATRequest) (common.GetResponse, error) {
	maybePanic(cmd.Key)
	return p.Handler.GAT(cmd)
}
func (p panicky) Get(cmd common.GetRequest) (<-chan common.GetResponse, <-chan error) {
	for _, k := range cmd.Keys {
		maybePanic(k)
	}
	return p.Handler.Get(cmd)
}
func (p panicky) GetE(cmd common.GetRequest) (<-chan common.GetEResponse, <-chan error) {
	for _, k := range cmd.Keys {
		maybePanic(k)
	}
	return p.Handler.GetE(cmd)
}

func panickyConst(inner handlers.HandlerConst) handlers.HandlerConst {
	return func() (handlers.Handler, error) {
		h, err := inner()
		if err != nil {
			return nil, err
		}
		return panicky{h}, nil
	}
}

// panicRounds: on stacks whose L1 handler panics on request (with and without the locking
// wrapper), for every kind of panic value and every command: the connection whose command
// panicked is closed at once (not left waiting), the key's lock is released (lock log paired, and
// a second connection can use a key of the same stripe straight away), and the connection's backend
// connections are closed.
func panicRounds(rep *Report, distinct map[string]bool) {
	cfgs := []StackCfg{{Orca: "l1only", Locked: "none", Bits: 0, L1: "panicky"}, {Orca: "l1l2", Locked: "mr", Bits: 1, L1: "panicky"}, {Orca: "l1l2", Locked: "sr", Bits: 0, L1: "panicky"}}
	for _, cfg := range cfgs {
		st := GetStack(cfg)
		for _, pk := range panicKinds {
			key := []byte(fmt.Sprintf("zz-panic-%s-k", pk))
			cmds := []Command{
				{Kind: "set", Key: key, Data: []byte("v"), Opaque: 1},
				{Kind: "add", Key: key, Data: []byte("v"), Opaque: 1},
				{Kind: "append", Key: key, Data: []byte("v"), Opaque: 1},
				{Kind: "delete", Key: key, Opaque: 1},
				{Kind: "touch", Key: key, Exptime: 100, Opaque: 1},
				{Kind: "gat", Key: key, Exptime: 100, Opaque: 1},
				{Kind: "get", Keys: []GetKey{{Key: key, Opaque: 1}}},
				{Kind: "get", Keys: []GetKey{{Key: []byte("fine"), Opaque: 1, Quiet: true}, {Key: key, Opaque: 2, Quiet: true}, {Key: []byte("other"), Opaque: 3}}},
			}
			for ci, cmd := range cmds {
				for _, proto := range []string{"bin", "text"} {
					if proto == "text" && cmd.Kind == "gat" {
						continue
					}
					tag := fmt.Sprintf("panic/%s/%s/%d/%s", cfg, pk, ci, proto)
					what := fmt.Sprintf("%s: the L1 handler panics with a %s value under %s (%s)", cfg, pk, cmd.Describe(), proto)
					crumb(what, nil)
					st.Reset()
					time.Sleep(5 * time.Millisecond)
					if cmd.Kind != "set" && cmd.Kind != "add" {
						// (the two-tier orchestrators go to L2 first and stop there when the key is absent)
						st.L1.Put(string(key), fakemc.Item{Value: []byte("old")})
						st.L2.Put(string(key), fakemc.Item{Value: []byte("old")})
					}
					base1, base2 := st.L1.OpenConns(), st.L2.OpenConns()
					raised := atomic.LoadInt64(&panicsRaised)
					st.TakeLockLog()
					cl := st.Dial("main", proto)
					out, ending := cl.Feed(cmd.Encode(proto), 2*time.Second)
					if atomic.LoadInt64(&panicsRaised) == raised {
						// the command never reached the L1 handler: nothing to judge
						rep.Distribution["panic-not-reached:"+cmd.Kind]++
						cl.Close()
						continue
					}
					rep.Evaluations++
					distinct[tag] = true
					rep.Distribution["panic:"+pk]++
					ok := true
					fail := func(sig, msg string) {
						ok = false
						rep.Violations = append(rep.Violations, Violation{What: what + ": " + msg, Signature: sig,
							Replay: map[string]interface{}{"stack": cfg.String(), "panic_value": pk, "command": cmd.Describe(), "protocol": proto, "reply": canonN(200, out)}})
					}
					if ending != "closed" {
						fail("panic-not-closed:"+pk, fmt.Sprintf("the connection ended %q instead of being closed by the server (the client is left waiting or goes on as if nothing happened)", ending))
					}
					cl.Close()
					time.Sleep(20 * time.Millisecond)
					if msg := pairedLocks(st.TakeLockLog()); msg != "" {
						fail("panic-locks-unpaired:"+pk, "lock log: "+msg)
					}
					// a second connection on the same lock stripe(s) is served at once
					c2 := st.Dial("main", "bin")
					o2, e2 := c2.Feed(Command{Kind: "set", Key: []byte("fine"), Data: []byte("x"), Opaque: 9}.Encode("bin"), 2*time.Second)
					if e2 != "eof" || len(o2) < 48 {
						fail("panic-blocks-others:"+pk, fmt.Sprintf("afterwards a set on another connection ended %q with %d reply bytes", e2, len(o2)))
					}
					c2.Close()
					deadline := time.Now().Add(2 * time.Second)
					for time.Now().Before(deadline) && (st.L1.OpenConns() > base1 || st.L2.OpenConns() > base2) {
						time.Sleep(5 * time.Millisecond)
					}
					if n1, n2 := st.L1.OpenConns(), st.L2.OpenConns(); n1 > base1 || n2 > base2 {
						fail("panic-leaks-backend-connections:"+pk, fmt.Sprintf("backend connections stay open after both clients are gone: L1 %d (was %d), L2 %d (was %d)", n1, base1, n2, base2))
					}
					if ok {
						rep.Validated++
					}
				}
			}
		}
	}
}

package main

import (
	"bytes"
	"fmt"
	"math/rand"
	"strconv"
	"strings"
	"time"
)

func chunkedConfigs(tier string) []StackCfg {
	cfgs := []StackCfg{
		{Orca: "l1only", Locked: "none", Bits: 0, L1: "chunked"},
		{Orca: "l1only", Locked: "sr", Bits: 1, L1: "chunked"},
	}
	if tier == "thorough" {
		cfgs = append(cfgs, StackCfg{Orca: "l1only", Locked: "mr", Bits: 4, L1: "chunked"})
	}
	return cfgs
}

// derivedFrom reports whether backend key bk is the metadata entry or a numbered chunk of client key k.
func derivedFrom(bk, k []byte) bool {
	if !bytes.HasPrefix(bk, k) {
		return false
	}
	rest := string(bk[len(k):])
	if rest == "-meta" {
		return true
	}
	if !strings.HasPrefix(rest, "-") || len(rest) < 2 {
		return false
	}
	n, err := strconv.Atoi(rest[1:])
	return err == nil && n >= 0 && strconv.Itoa(n) == rest[1:]
}

// footprintProbe: every backend request of a command addresses an entry derived from the command's
// key(s); after a delete the key's metadata entry is gone.
func footprintProbe(sc Scenario, i int, st *Stack, d *Driver, ob StepObs) []Violation {
	s := sc.Steps[i]
	if s.Cmd.Kind == "raw" {
		return nil
	}
	var keys [][]byte
	if len(s.Cmd.Key) > 0 {
		keys = append(keys, s.Cmd.Key)
	}
	for _, gk := range s.Cmd.Keys {
		keys = append(keys, gk.Key)
	}
	var out []Violation
	for _, e := range ob.L1 {
		if e.Op == "noop" && len(e.Key) == 0 {
			continue
		}
		ok := false
		for _, k := range keys {
			if derivedFrom(e.Key, k) {
				ok = true
			}
		}
		if !ok {
			out = append(out, Violation{What: fmt.Sprintf("%s of key(s) %q sent backend request %s on entry %q, which is not derived from the key, at step %d", s.Cmd.Kind, keys, e.Op, e.Key, i),
				Signature: "footprint:" + s.Cmd.Kind, Replay: map[string]interface{}{"step": i, "backend_request": e.Op, "backend_key": string(e.Key)}})
		}
	}
	if s.Cmd.Kind == "delete" {
		if _, ok := st.L1.Lookup(string(s.Cmd.Key) + "-meta"); ok {
			out = append(out, Violation{What: fmt.Sprintf("after delete of %q its metadata entry is still readable (step %d)", s.Cmd.Key, i),
				Signature: "delete-leaves-metadata", Replay: map[string]interface{}{"step": i, "key": string(s.Cmd.Key)}})
		}
	}
	return out
}

func printableKey(r *rand.Rand, n int) []byte {
	b := make([]byte, n)
	for i := range b {
		b[i] = byte(33 + r.Intn(94))
	}
	return b
}

func init() {
	checks["C04"] = func(rep *Report, tier string, seed int64) {
		rep.Rule = "chunked L1 as the store of record (L1-only stacks, with and without the locking wrapper): (a) directed set/get/gat round trips for key lengths 1..250 (quick: a sample incl. 1, 2, 249, 250; thorough: every length) x value lengths {0, 1, p-1, p, p+1, 2p-1, 2p, 2p+1, 3p+1} (p = payload size for that key length) over both protocols; (b) seeded random sequences of all nine commands over per-case key alphabets that contain keys which are prefixes / derived-looking variants of each other ('k', 'k-1', 'k-meta', 'k-1-meta') and long keys; every reply judged by the single-map specification, bytes/traces/contents compared with the Lean model, and after every command a footprint probe on the backend request log (only entries derived from the command's keys) and, after delete, on the backend contents; distinct = distinct (configuration, case) pairs in which a reply carried a value"
		d := StartDriver()
		defer d.Close()
		distinct := map[string]bool{}
		r := rand.New(rand.NewSource(seed*31 + 5))
		runOne := func(sc Scenario, tag string) bool {
			sc.Probe = footprintProbe
			var out Outcome
			for attempt := 0; attempt < 3; attempt++ {
				out = RunScenarioO(d, sc, 3*time.Second, true)
				if !out.Tainted {
					break
				}
				rep.Tainted++
			}
			if out.Tainted {
				return true
			}
			rep.Evaluations++
			countDistribution(rep, sc)
			for _, ob := range out.Obs {
				if len(ob.Out) > 60 {
					distinct[sc.Stack.String()+"/"+tag] = true
				}
			}
			if len(rep.Samples) < 3 {
				rep.Samples = append(rep.Samples, describeScenario(sc))
			}
			for _, m := range out.Misses {
				rep.Violations = append(rep.Violations, Violation{
					What:      fmt.Sprintf("reply differs from the single-map specification at step %d (%s): %s", m.Step, out.Descs[m.Step], m.Verdict),
					Signature: classifyMiss(sc, m.Step, out.Obs),
					Replay:    map[string]interface{}{"scenario": describeScenario(sc), "step": m.Step, "driver_script": out.Script, "impl_reply": canonN(4096, out.Obs[m.Step].Out)},
				})
			}
			for _, v := range out.Probed {
				if m, ok := v.Replay.(map[string]interface{}); ok {
					m["scenario"] = describeScenario(sc)
					m["driver_script"] = out.Script
				}
				rep.Violations = append(rep.Violations, v)
			}
			if out.Div != nil {
				rep.Divergences = append(rep.Divergences, out.Div)
				return len(rep.Divergences) < 5
			}
			rep.Validated++
			return true
		}
		conns := []ConnCfg{{ID: "t", Port: "main", Proto: "text"}, {ID: "b", Port: "main", Proto: "bin"}}
		// (a) directed round trips
		var lens []int
		if tier == "thorough" {
			for n := 1; n <= 250; n++ {
				lens = append(lens, n)
			}
		} else {
			lens = []int{1, 2, 3, 9, 10, 11, 99, 100, 101, 200, 248, 249, 250}
			for i := 0; i < 6; i++ {
				lens = append(lens, 1+r.Intn(250))
			}
		}
		for ci, cfg := range chunkedConfigs(tier) {
			for _, kl := range lens {
				key := printableKey(r, kl)
				p := 1184 - 71 - kl - 16
				sc := Scenario{ID: fmt.Sprintf("C04-rt-%d-%d", ci, kl), Stack: cfg, Conns: conns}
				for vi, vl := range []int{0, 1, p - 1, p, p + 1, 2*p - 1, 2 * p, 2*p + 1, 3*p + 1} {
					if tier != "thorough" && (kl+vi)%3 != 0 && vl > p+1 {
						continue
					}
					val := make([]byte, vl)
					for i := range val {
						val[i] = byte(r.Intn(256))
					}
					conn := []string{"t", "b"}[(vi+kl)%2]
					sc.Steps = append(sc.Steps,
						Step{Kind: "feed", Conn: conn, Cmd: Command{Kind: "set", Key: key, Flags: r.Uint32(), Exptime: 0, Data: val, Opaque: r.Uint32()}},
						Step{Kind: "feed", Conn: []string{"t", "b"}[(vi+kl+1)%2], Cmd: Command{Kind: "get", Keys: []GetKey{{Key: key, Opaque: r.Uint32()}}}},
						Step{Kind: "feed", Conn: "b", Cmd: Command{Kind: "gat", Key: key, Exptime: 1000, Opaque: r.Uint32()}})
				}
				sc.Steps = append(sc.Steps, Step{Kind: "feed", Conn: "t", Cmd: Command{Kind: "delete", Key: key}},
					Step{Kind: "feed", Conn: "b", Cmd: Command{Kind: "get", Keys: []GetKey{{Key: key, Opaque: 3}}}})
				rep.Distribution[fmt.Sprintf("keylen:%d", (kl/50)*50)]++
				if !runOne(sc, fmt.Sprintf("rt%d", kl)) {
					rep.Distinct = len(distinct)
					return
				}
			}
		}
		// (b) random sequences over confusable key alphabets
		per, steps := 10, 30
		if tier == "thorough" {
			per, steps = 50, 45
		}
		for ci, cfg := range chunkedConfigs(tier) {
			for n := 0; n < per; n++ {
				g := &Gen{r: rand.New(rand.NewSource(seed*1000003 + int64(ci)*7919 + int64(n) + 404))}
				base := printableKey(g.r, 1+g.r.Intn(6))
				long := printableKey(g.r, 200+g.r.Intn(51))
				g.keys = [][]byte{base, append(append([]byte{}, base...), []byte("-1")...), append(append([]byte{}, base...), []byte("-meta")...),
					append(append([]byte{}, base...), []byte("-1-meta")...), append(append([]byte{}, base...), []byte("-0")...), long}
				sc := genSequence(g, fmt.Sprintf("C04-seq-%d-%d", ci, n), cfg, seqOpts{Steps: steps, MaxChunks: 3})
				if !runOne(sc, fmt.Sprintf("seq%d", n)) {
					rep.Distinct = len(distinct)
					return
				}
			}
		}
		rep.Distinct = len(distinct)
	}
}

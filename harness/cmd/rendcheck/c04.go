package main

import (
	"bytes"
	"fmt"
	"math/rand"
	"strconv"
	"strings"
	"time"
)

func chunkedConfigs(tier string) []StackCfg {
	cfgs := []StackCfg{
		{Orca: "l1only", Locked: "none", Bits: 0, L1: "chunked"},
		{Orca: "l1only", Locked: "sr", Bits: 1, L1: "chunked"},
	}
	if tier == "thorough" {
		cfgs = append(cfgs, StackCfg{Orca: "l1only", Locked: "mr", Bits: 4, L1: "chunked"})
	}
	return cfgs
}

// derivedFrom reports whether backend key bk is the metadata entry or a numbered chunk of client key k.
func derivedFrom(bk, k []byte) bool {
	if !bytes.HasPrefix(bk, k) {
		return false
	}
	rest := string(bk[len(k):])
	if rest == "-meta" {
		return true
	}
	if !strings.HasPrefix(rest, "-") || len(rest) < 2 {
		return false
	}
	n, err := strconv.Atoi(rest[1:])
	return err == nil && n >= 0 && strconv.Itoa(n) == rest[1:]
}

// footprintProbe: every backend request of a command addresses an entry derived from the command's
// key(s); after a delete the key's metadata entry is gone.
func footprintProbe(sc Scenario, i int, st *Stack, d *Driver, ob StepObs) []Violation {
	s := sc.Steps[i]
	if s.Cmd.Kind == "raw" {
		return nil
	}
	var keys [][]byte
	if len(s.Cmd.Key) > 0 {
		keys = append(keys, s.Cmd.Key)
	}
	for _, gk := range s.Cmd.Keys {
		keys = append(keys, gk.Key)
	}
	var out []Violation
	for _, e := range ob.L1 {
		if e.Op == "noop" && len(e.Key) == 0 {
			continue
		}
		ok := false
		for _, k := range keys {
			if derivedFrom(e.Key, k) {
				ok = true
			}
		}
		if !ok {
			out = append(out, Violation{What: fmt.Sprintf("%s of key(s) %q sent backend request %s on entry %q, which is not derived from the key, at step %d", s.Cmd.Kind, keys, e.Op, e.Key, i),
				Signature: "footprint:" + s.Cmd.Kind, Replay: map[string]interface{}{"step": i, "backend_request": e.Op, "backend_key": string(e.Key)}})
		}
	}
	if s.Cmd.Kind == "delete" {
		if _, ok := st.L1.Lookup(string(s.Cmd.Key) + "-meta"); ok {
			out = append(out, Violation{What: fmt.Sprintf("after delete of %q its metadata entry is still readable (step %d)", s.Cmd.Key, i),
				Signature: "delete-leaves-metadata", Replay: map[string]interface{}{"step": i, "key": string(s.Cmd.Key)}})
		}
	}
	return out
}

func printableKey(r *rand.Rand, n int) []byte {
	b := make([]byte, n)
	for i := range b {
		b[i] = byte(33 + r.Intn(94))
	}
	return b
}

type slowGetResult struct {
	proto  string
	what   string // "" = every value arrived as set
	replay map[string]interface{}
}

// slowReaderMultiGet sets four values (300000, 290000, 1500 and 10 bytes) on a chunked stack and
// reads them back with ONE multi-key get per protocol through a client that starts reading 600 ms
// after it sent the request: the proxy's writes of the earlier values block while the handler
// already reads the next key.
func slowReaderMultiGet(cfg StackCfg) []slowGetResult {
	st := GetStack(cfg)
	st.Reset()
	sizes := []int{300000, 290000, 1500, 10}
	vals := make([][]byte, len(sizes))
	setup := st.Dial("main", "bin")
	for i, n := range sizes {
		vals[i] = make([]byte, n)
		for j := range vals[i] {
			vals[i][j] = byte('a' + (i*7+j)%23)
		}
		out, e := setup.Feed(Command{Kind: "set", Key: []byte(fmt.Sprintf("big%d", i)), Flags: uint32(40 + i), Data: vals[i], Opaque: uint32(i + 1)}.Encode("bin"), 20*time.Second)
		if e != "eof" || len(out) < 24 || out[6] != 0 || out[7] != 0 {
			setup.Close()
			return []slowGetResult{{proto: "bin", what: fmt.Sprintf("a set of a %d-byte value was not acknowledged", n), replay: map[string]interface{}{"stack": cfg.String()}}}
		}
	}
	setup.Close()
	var res []slowGetResult
	for _, proto := range []string{"text", "bin"} {
		c := Command{Kind: "get"}
		for i := range sizes {
			c.Keys = append(c.Keys, GetKey{Key: []byte(fmt.Sprintf("big%d", i)), Opaque: uint32(70 + i), Quiet: proto == "bin" && i < len(sizes)-1})
		}
		cl := st.Dial("main", proto)
		sent, sentReply := cl.Sentinel()
		_, werr := cl.c.Write(append(c.Encode(proto), sent...))
		time.Sleep(600 * time.Millisecond) // the client is slow to start reading
		var out []byte
		ending := "write-failed"
		if werr == nil {
			out, ending = cl.FeedRaw(nil, sentReply, 20*time.Second)
		}
		cl.Close()
		r := slowGetResult{proto: proto, replay: map[string]interface{}{"stack": cfg.String(), "proto": proto, "values": sizes, "client": "sends `get big0 big1 big2 big3`, waits 600 ms, then reads"}}
		if ending != "eof" {
			r.what = fmt.Sprintf("multi-key get of large values with a slow reader ended %q", ending)
		} else {
			for i := range sizes {
				if !bytes.Contains(out, vals[i]) {
					r.what = fmt.Sprintf("in a multi-key get read by a slow client the value of key big%d (%d bytes) did not arrive as it was set: the reply carries bytes that no set wrote under that key", i, sizes[i])
					break
				}
			}
		}
		res = append(res, r)
	}
	return res
}

func init() {
	checks["C04"] = func(rep *Report, tier string, seed int64) {
		rep.Rule = "chunked L1 as the store of record (L1-only stacks, with and without the locking wrapper): (a) directed set/get/gat round trips for key lengths 1..250 (quick: a sample incl. 1, 2, 249, 250; thorough: every length) x value lengths {0, 1, p-1, p, p+1, 2p-1, 2p, 2p+1, 3p+1} (p = payload size for that key length) over both protocols; (b) seeded random sequences of all nine commands over per-case key alphabets that contain keys which are prefixes / derived-looking variants of each other ('k', 'k-1', 'k-meta', 'k-1-meta') and long keys; every reply judged by the single-map specification, bytes/traces/contents compared with the Lean model, and after every command a footprint probe on the backend request log (only entries derived from the command's keys) and, after delete, on the backend contents; (c) a multi-key get of 300000-, 290000-, 1500- and 10-byte values read by a client that starts reading 600 ms late (the proxy's reply writes block while the handler goes on to the next key): every value must arrive as set; distinct = distinct (configuration, case) pairs in which a reply carried a value"
		d := StartDriver()
		defer d.Close()
		distinct := map[string]bool{}
		r := rand.New(rand.NewSource(seed*31 + 5))
		runOne := func(sc Scenario, tag string) bool {
			// (the footprint of every request, and — after get-and-touch / touch — the expiry of the
			// metadata entry and of every chunk it refers to)
			sc.Probe = func(sc Scenario, i int, st *Stack, d *Driver, ob StepObs) []Violation {
				return append(footprintProbe(sc, i, st, d, ob), ttlProbe(sc, i, st, d, ob)...)
			}
			var out Outcome
			for attempt := 0; attempt < 3; attempt++ {
				out = RunScenarioO(d, sc, 3*time.Second, true)
				if !out.Tainted {
					break
				}
				rep.Tainted++
			}
			if out.Tainted {
				return true
			}
			rep.Evaluations++
			countDistribution(rep, sc)
			for _, ob := range out.Obs {
				if len(ob.Out) > 60 {
					distinct[sc.Stack.String()+"/"+tag] = true
				}
			}
			if len(rep.Samples) < 3 {
				rep.Samples = append(rep.Samples, describeScenario(sc))
			}
			for _, m := range out.Misses {
				rep.Violations = append(rep.Violations, Violation{
					What:      fmt.Sprintf("reply differs from the single-map specification at step %d (%s): %s", m.Step, out.Descs[m.Step], m.Verdict),
					Signature: classifyMiss(sc, m.Step, out.Obs),
					Replay:    map[string]interface{}{"scenario": describeScenario(sc), "step": m.Step, "driver_script": out.Script, "impl_reply": canonN(4096, out.Obs[m.Step].Out)},
				})
			}
			for _, v := range out.Probed {
				if m, ok := v.Replay.(map[string]interface{}); ok {
					m["scenario"] = describeScenario(sc)
					m["driver_script"] = out.Script
				}
				rep.Violations = append(rep.Violations, v)
			}
			if out.Div != nil {
				rep.Divergences = append(rep.Divergences, out.Div)
				return len(rep.Divergences) < 5
			}
			rep.Validated++
			return true
		}
		conns := []ConnCfg{{ID: "t", Port: "main", Proto: "text"}, {ID: "b", Port: "main", Proto: "bin"}}
		// (a) directed round trips
		var lens []int
		if tier == "thorough" {
			for n := 1; n <= 250; n++ {
				lens = append(lens, n)
			}
		} else {
			lens = []int{1, 2, 3, 9, 10, 11, 99, 100, 101, 200, 248, 249, 250}
			for i := 0; i < 6; i++ {
				lens = append(lens, 1+r.Intn(250))
			}
		}
		for ci, cfg := range chunkedConfigs(tier) {
			for _, kl := range lens {
				key := printableKey(r, kl)
				p := 1184 - 71 - kl - 16
				sc := Scenario{ID: fmt.Sprintf("C04-rt-%d-%d", ci, kl), Stack: cfg, Conns: conns}
				for vi, vl := range []int{0, 1, p - 1, p, p + 1, 2*p - 1, 2 * p, 2*p + 1, 3*p + 1} {
					if tier != "thorough" && (kl+vi)%3 != 0 && vl > p+1 {
						continue
					}
					val := make([]byte, vl)
					for i := range val {
						val[i] = byte(r.Intn(256))
					}
					conn := []string{"t", "b"}[(vi+kl)%2]
					sc.Steps = append(sc.Steps,
						Step{Kind: "feed", Conn: conn, Cmd: Command{Kind: "set", Key: key, Flags: r.Uint32(), Exptime: 0, Data: val, Opaque: r.Uint32()}},
						Step{Kind: "feed", Conn: []string{"t", "b"}[(vi+kl+1)%2], Cmd: Command{Kind: "get", Keys: []GetKey{{Key: key, Opaque: r.Uint32()}}}},
						Step{Kind: "feed", Conn: "b", Cmd: Command{Kind: "gat", Key: key, Exptime: 1000, Opaque: r.Uint32()}})
				}
				sc.Steps = append(sc.Steps, Step{Kind: "feed", Conn: "t", Cmd: Command{Kind: "delete", Key: key}},
					Step{Kind: "feed", Conn: "b", Cmd: Command{Kind: "get", Keys: []GetKey{{Key: key, Opaque: 3}}}})
				rep.Distribution[fmt.Sprintf("keylen:%d", (kl/50)*50)]++
				if !runOne(sc, fmt.Sprintf("rt%d", kl)) {
					rep.Distinct = len(distinct)
					return
				}
			}
		}
		// (a') orphan chunks: a long value, a shorter one over it (the long one's last chunks stay
		// behind, unreferenced), delete — then store-type commands of long values again: what is
		// left over of an earlier value must not influence them
		for ci, cfg := range chunkedConfigs(tier) {
			for vi, again := range []string{"add", "set", "replace"} {
				key := []byte(fmt.Sprintf("orph%d", vi))
				pl := 1184 - 71 - len(key) - 16
				mk := func(n int, b byte) []byte { return bytes.Repeat([]byte{b}, n) }
				sc := Scenario{ID: fmt.Sprintf("C04-orphan-%d-%s", ci, again), Stack: cfg, Conns: conns}
				feed := func(conn string, c Command) { sc.Steps = append(sc.Steps, Step{Kind: "feed", Conn: conn, Cmd: c}) }
				get := Command{Kind: "get", Keys: []GetKey{{Key: key, Opaque: 9}}}
				feed("b", Command{Kind: "set", Key: key, Flags: 1, Data: mk(3*pl+1, 'L'), Opaque: 1})
				feed("t", Command{Kind: "set", Key: key, Flags: 2, Data: mk(10, 's'), Opaque: 2})
				if again != "replace" {
					feed("b", Command{Kind: "delete", Key: key, Opaque: 3})
				}
				feed("t", get)
				feed("b", Command{Kind: again, Key: key, Flags: 3, Data: mk(2*pl+5, 'N'), Opaque: 4})
				feed("t", get)
				feed("b", Command{Kind: "gat", Key: key, Exptime: 500, Opaque: 5})
				feed("t", Command{Kind: "append", Key: key, Data: []byte("+tail"), Opaque: 6})
				feed("b", get)
				feed("t", Command{Kind: "delete", Key: key, Opaque: 7})
				feed("b", Command{Kind: "add", Key: key, Flags: 4, Data: mk(4*pl, 'Z'), Opaque: 8})
				feed("t", get)
				if !runOne(sc, "orphan-"+again) {
					rep.Distinct = len(distinct)
					return
				}
			}
		}
		// (b) random sequences over confusable key alphabets
		per, steps := 10, 30
		if tier == "thorough" {
			per, steps = 50, 45
		}
		for ci, cfg := range chunkedConfigs(tier) {
			for n := 0; n < per; n++ {
				g := &Gen{r: rand.New(rand.NewSource(seed*1000003 + int64(ci)*7919 + int64(n) + 404))}
				base := printableKey(g.r, 1+g.r.Intn(6))
				long := printableKey(g.r, 200+g.r.Intn(51))
				g.keys = [][]byte{base, append(append([]byte{}, base...), []byte("-1")...), append(append([]byte{}, base...), []byte("-meta")...),
					append(append([]byte{}, base...), []byte("-1-meta")...), append(append([]byte{}, base...), []byte("-0")...), long}
				sc := genSequence(g, fmt.Sprintf("C04-seq-%d-%d", ci, n), cfg, seqOpts{Steps: steps, MaxChunks: 3})
				if !runOne(sc, fmt.Sprintf("seq%d", n)) {
					rep.Distinct = len(distinct)
					return
				}
			}
		}
		// (c) a multi-key get of LARGE values read by a SLOW client: the handler reads the keys one
		// after the other while the proxy is still writing the earlier values to a client that is not
		// reading yet — every value must arrive exactly as it was set
		for _, cfg := range []StackCfg{{Orca: "l1only", Locked: "none", Bits: 0, L1: "chunked"}, {Orca: "l1only", Locked: "sr", Bits: 1, L1: "chunked"}} {
			for _, pr := range slowReaderMultiGet(cfg) {
				rep.Evaluations++
				rep.Validated++
				rep.Distribution["slow-reader-multiget"]++
				distinct[cfg.String()+"/slow-multiget/"+pr.proto] = true
				if pr.what != "" {
					rep.Violations = append(rep.Violations, Violation{What: fmt.Sprintf("%s, %s: %s", cfg, pr.proto, pr.what), Signature: "slow-multiget", Replay: pr.replay})
				}
			}
		}
		rep.Distinct = len(distinct)
	}
}

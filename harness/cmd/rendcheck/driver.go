package main

// The model side of the correspondence: the compiled Lean driver, spoken to over
// a line protocol, plus the canonical renderings shared with it.

import (
	"bufio"
	"encoding/hex"
	"fmt"
	"io"
	"os"
	"os/exec"
	"strings"
)

type Driver struct {
	cmd    *exec.Cmd
	in     io.WriteCloser
	out    *bufio.Reader
	Script []string // every line sent since the last `case`
}

func driverPath() string {
	if p := os.Getenv("VERIF_DRIVER"); p != "" {
		return p
	}
	return "/verif/lean/.lake/build/bin/rdriver"
}

func StartDriver() *Driver {
	cmd := exec.Command(driverPath())
	in, err := cmd.StdinPipe()
	must(err)
	out, err := cmd.StdoutPipe()
	must(err)
	cmd.Stderr = os.Stderr
	must(cmd.Start())
	return &Driver{cmd: cmd, in: in, out: bufio.NewReaderSize(out, 1<<20)}
}

func (d *Driver) Close() {
	d.in.Close()
	d.cmd.Wait()
}

// Send writes one line and reads n reply lines.
func (d *Driver) Send(line string, n int) []string {
	if strings.HasPrefix(line, "case ") {
		d.Script = nil
	}
	d.Script = append(d.Script, line)
	if _, err := io.WriteString(d.in, line+"\n"); err != nil {
		panic(fmt.Sprintf("driver write: %v", err))
	}
	var res []string
	for i := 0; i < n; i++ {
		l, err := d.out.ReadString('\n')
		if err != nil {
			panic(fmt.Sprintf("driver read: %v (after %q)", err, line))
		}
		res = append(res, strings.TrimRight(l, "\n"))
	}
	return res
}

func hx(b []byte) string {
	if len(b) == 0 {
		return "-"
	}
	return hex.EncodeToString(b)
}

func fnv64(b []byte) uint64 {
	h := uint64(14695981039346656037)
	for _, c := range b {
		h ^= uint64(c)
		h *= 1099511628211
	}
	return h
}

// canonN is the driver's hexOfN.
func canonN(limit int, b []byte) string {
	if len(b) <= limit {
		return hx(b)
	}
	return fmt.Sprintf("#%d.%d", len(b), fnv64(b))
}

func canon(b []byte) string { return canonN(48, b) }

package main

import (
	"bytes"
	"fmt"
)

// inclusionProbe: at quiescence every key a (pass-through) L1 serves is served by L2 with the same
// value and flags.  Looked up on the implementation's backends directly, not through the model.
func inclusionProbe(sc Scenario, i int, st *Stack, d *Driver, ob StepObs) []Violation {
	if sc.Stack.Orca != "l1l2" || (sc.Stack.L1 != "std" && sc.Stack.L1 != "inmem") {
		return nil
	}
	var out []Violation
	if sc.Stack.L1 == "inmem" {
		snap := snapshotInmem()
		var ks []string
		for k := range snap {
			ks = append(ks, k)
		}
		sortStrings(ks)
		for _, k := range ks {
			a := snap[k]
			b, ok2 := st.L2.Lookup(k)
			what := ""
			switch {
			case !ok2:
				what = fmt.Sprintf("the in-memory L1 serves key %q which L2 does not hold", k)
			case !bytes.Equal(a.Data, b.Value):
				what = fmt.Sprintf("the in-memory L1 and L2 hold different values for key %q", k)
			case a.Flags != b.Flags:
				what = fmt.Sprintf("the in-memory L1 and L2 hold different flags for key %q (%d vs %d)", k, a.Flags, b.Flags)
			}
			if what != "" {
				out = append(out, Violation{What: what + fmt.Sprintf(" after step %d", i), Signature: "l1-not-included-in-l2:" + sc.Steps[i].Cmd.Kind,
					Replay: map[string]interface{}{"step": i, "key": k, "l1": canonN(200, a.Data), "l2": canonN(200, b.Value)}})
			}
		}
		return out
	}
	for _, k := range st.L1.Keys() {
		a, ok := st.L1.Lookup(k)
		if !ok {
			continue
		}
		b, ok2 := st.L2.Lookup(k)
		what := ""
		switch {
		case !ok2:
			what = fmt.Sprintf("L1 serves key %q which L2 does not hold", k)
		case !bytes.Equal(a.Value, b.Value):
			what = fmt.Sprintf("L1 and L2 hold different values for key %q", k)
		case a.Flags != b.Flags:
			what = fmt.Sprintf("L1 and L2 hold different flags for key %q (%d vs %d)", k, a.Flags, b.Flags)
		}
		if what != "" {
			out = append(out, Violation{What: what + fmt.Sprintf(" after step %d", i), Signature: "l1-not-included-in-l2:" + sc.Steps[i].Cmd.Kind,
				Replay: map[string]interface{}{"step": i, "key": k, "l1": canonN(200, a.Value), "l2": canonN(200, b.Value)}})
		}
	}
	return out
}

func init() {
	checks["C02"] = func(rep *Report, tier string, seed int64) {
		per, steps := 20, 30
		if tier == "thorough" {
			per, steps = 100, 45
		}
		rep.Rule = "seeded random command sequences on main and batch connections interleaved with losses of random subsets of L1's entries (single keys, triples, everything; for a chunked L1 single metadata or chunk entries) on every stack configuration; every reply is judged by the single-map specification, which knows no evictions (so replies with and without any eviction pattern coincide up to the order of a multi-get's answers); after every command the implementation's L1 is compared with its L2 directly: every key L1 serves must be served by L2 with equal value and flags; reply bytes, backend traces and contents are also compared with the Lean model; distinct = distinct (configuration, sequence) pairs in which a reply carried a value"
		runSequences(rep, tier, seed+17, per, seqOpts{Steps: steps, MaxChunks: 3, Evict: 0.35, Advance: 0.1, TwoTier: true, Probe: inclusionProbe, Remnant: true,
			ExtraCfgs: []StackCfg{{Orca: "l1l2", Locked: "none", Bits: 0, L1: "inmem"}, {Orca: "l1l2", Locked: "mr", Bits: 2, L1: "inmem"}}}, nil)
	}
}

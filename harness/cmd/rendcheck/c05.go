package main

import (
	"bytes"
	"encoding/binary"
	"fmt"
	"math/rand"
	"sync"
	"time"

	"verif/harness/fakemc"
)

type wholeValue struct {
	Data  []byte
	Flags uint32
}

// classifyGetReply decodes the reply to a single-key binary get / gat (sentinel removed):
// "miss", "hit" (with value and flags) or an error text.
func classifyGetReply(body []byte) (kind string, data []byte, flags uint32) {
	fs, err := decodeBinStrict(body)
	if err != nil {
		return "undecodable: " + err.Error(), nil, 0
	}
	if len(fs) != 1 {
		return fmt.Sprintf("%d frames", len(fs)), nil, 0
	}
	f := fs[0]
	switch f.Status {
	case 0:
		if len(f.Extras) != 4 {
			return "hit without flags", nil, 0
		}
		return "hit", f.Value, binary.BigEndian.Uint32(f.Extras)
	case 1:
		return "miss", nil, 0
	default:
		return fmt.Sprintf("status %d", f.Status), nil, 0
	}
}

func allOrNothing(kind string, data []byte, flags uint32, whole []wholeValue) string {
	switch kind {
	case "miss":
		return ""
	case "hit":
		for _, w := range whole {
			if bytes.Equal(w.Data, data) && w.Flags == flags {
				return ""
			}
		}
		for _, w := range whole {
			if bytes.Equal(w.Data, data) {
				return fmt.Sprintf("value of one set returned with flags %d that no set of that value used", flags)
			}
		}
		return fmt.Sprintf("returned %d bytes that no single set wrote (%s)", len(data), canonN(64, data))
	default:
		return "reply is neither a value nor a miss: " + kind
	}
}

// backendConsistent checks the invariant of the all-or-nothing theorem directly on the fake backend:
// every entry under a derived key of `key` is the metadata or a whole chunk of one of the sets.
type setRecord struct {
	Token []byte
	Val   wholeValue
}

func backendConsistent(st *Stack, key []byte, sets []setRecord) string {
	p := 1184 - 71 - len(key) - 16
	byTok := map[string]setRecord{}
	for _, s := range sets {
		byTok[string(s.Token)] = s
	}
	for _, bk := range st.L1.Keys() {
		if !derivedFrom([]byte(bk), key) {
			continue
		}
		it, ok := st.L1.Lookup(bk)
		if !ok {
			continue
		}
		if bk == string(key)+"-meta" {
			if len(it.Value) != 40 {
				return "metadata entry of wrong size"
			}
			s, ok := byTok[string(it.Value[24:40])]
			if !ok {
				return "metadata entry carries a token no set drew"
			}
			if int(binary.BigEndian.Uint32(it.Value[0:4])) != len(s.Val.Data) || binary.BigEndian.Uint32(it.Value[4:8]) != s.Val.Flags {
				return "metadata entry does not describe the set that owns its token"
			}
			continue
		}
		if len(it.Value) != p+16 {
			return fmt.Sprintf("chunk entry %q has length %d, want %d", bk, len(it.Value), p+16)
		}
		s, ok := byTok[string(it.Value[:16])]
		if !ok {
			return fmt.Sprintf("chunk entry %q carries a token no set drew", bk)
		}
		var idx int
		fmt.Sscanf(bk[len(key)+1:], "%d", &idx)
		want := make([]byte, p)
		if idx*p < len(s.Val.Data) {
			copy(want, s.Val.Data[idx*p:])
		}
		if !bytes.Equal(it.Value[16:], want) {
			return fmt.Sprintf("chunk entry %q is not chunk %d of the set that owns its token", bk, idx)
		}
	}
	return ""
}

// gateSched releases the backend requests of the parties one at a time in a prescribed order.
type gateSched struct {
	mu      sync.Mutex
	waiting map[int]chan struct{} // conn -> release channel of the request now waiting
	arrived chan int
	done    chan int
	free    bool
}

func newGateSched() *gateSched {
	return &gateSched{waiting: map[int]chan struct{}{}, arrived: make(chan int, 1024), done: make(chan int, 1024)}
}

func (g *gateSched) gate(conn int, e *fakemc.Entry) func() {
	g.mu.Lock()
	if g.free {
		g.mu.Unlock()
		return nil
	}
	ch := make(chan struct{})
	g.waiting[conn] = ch
	g.mu.Unlock()
	g.arrived <- conn
	<-ch
	return func() { g.done <- conn }
}

// release lets the request waiting on conn (or arriving within the timeout) run to completion.
func (g *gateSched) release(conn int, timeout time.Duration) bool {
	deadline := time.After(timeout)
	for {
		g.mu.Lock()
		ch, ok := g.waiting[conn]
		if ok {
			delete(g.waiting, conn)
		}
		g.mu.Unlock()
		if ok {
			close(ch)
			for {
				select {
				case c := <-g.done:
					if c == conn {
						return true
					}
				case <-time.After(2 * time.Second):
					return false
				}
			}
		}
		select {
		case <-g.arrived:
		case <-deadline:
			return false
		}
	}
}

func (g *gateSched) openAll() {
	g.mu.Lock()
	g.free = true
	for c, ch := range g.waiting {
		close(ch)
		delete(g.waiting, c)
	}
	g.mu.Unlock()
}

func init() {
	checks["C05"] = func(rep *Report, tier string, seed int64) {
		rep.Rule = "chunked L1 as the store of record: (a) EXHAUSTIVE loss of entries: for n = 0..N chunks (quick N=5, thorough N=6) a value is set, every subset of {metadata, chunk 0..n-1} is removed from the backend, then a get and a get-and-touch are issued, and — from the same torn state — an append or prepend (a read-modify-write) followed by a get and a get-and-touch; a multi-key get of 300000/290000/1500/10-byte values read by a client that starts reading 600 ms late; additionally an older value of the same key with a different chunk count is set first and random subsets of the NEW entries are removed (old chunks may survive under the new metadata); and an overwrite on the SAME connection is stopped at each of its backend requests (refused with out-of-memory, or the connection cut), leaving entries of both sets side by side; (b) interleavings at backend-request granularity: two sets of different values (1..3 chunks) on one key through separate connections, optionally over a previous value, with every interleaving of their backend requests for the small sizes and seeded random schedules otherwise, with a concurrent reader in a third of the schedules; oracle: every reply is a miss or the value AND flags of one single set; the invariant of the theorem (every backend entry is the metadata or a whole chunk of one of the sets, by token) is checked on the fake backend after every schedule; (a) is also compared byte for byte with the Lean model; distinct = distinct (chunk count, subset) / (sizes, schedule)"
		d := StartDriver()
		defer d.Close()
		cfg := StackCfg{Orca: "l1only", Locked: "none", Bits: 0, L1: "chunked"}
		conns := []ConnCfg{{ID: "b", Port: "main", Proto: "bin"}}
		key := []byte("tornkey")
		p := 1184 - 71 - len(key) - 16
		r := rand.New(rand.NewSource(seed*977 + 3))
		mkval := func(n int, tag byte) []byte {
			l := 0
			if n > 0 {
				l = (n-1)*p + 1 + r.Intn(p)
			}
			v := make([]byte, l)
			for i := range v {
				v[i] = tag
			}
			return v
		}
		distinct := map[string]bool{}
		maxN := 5
		if tier == "thorough" {
			maxN = 6
		}
		judge := func(sc Scenario, out Outcome, whole []wholeValue, tag string) {
			if out.Tainted {
				rep.Tainted++
				return
			}
			rep.Evaluations++
			distinct[tag] = true
			for i, ob := range out.Obs {
				s := sc.Steps[i]
				if s.Kind != "feed" || (s.Cmd.Kind != "get" && s.Cmd.Kind != "gat") || ob.Ending != "eof" {
					continue
				}
				body := ob.Out[:len(ob.Out)-len(binSentinelReply)]
				kind, data, flags := classifyGetReply(body)
				rep.Distribution["reply:"+kind]++
				if msg := allOrNothing(kind, data, flags, whole); msg != "" {
					rep.Violations = append(rep.Violations, Violation{What: fmt.Sprintf("%s at step %d: %s", s.Cmd.Kind, i, msg), Signature: "torn-read:" + s.Cmd.Kind,
						Replay: map[string]interface{}{"scenario": describeScenario(sc), "step": i, "driver_script": out.Script, "reply": canonN(256, body)}})
				}
			}
			if out.Div != nil {
				rep.Divergences = append(rep.Divergences, out.Div)
				return
			}
			rep.Validated++
		}
		// (a) exhaustive subsets
		for n := 0; n <= maxN; n++ {
			for mask := 0; mask < 1<<(n+1); mask++ {
				val := mkval(n, byte('A'+n))
				sc := Scenario{ID: fmt.Sprintf("C05-sub-%d-%d", n, mask), Stack: cfg, Conns: conns}
				sc.Steps = append(sc.Steps, Step{Kind: "feed", Conn: "b", Cmd: Command{Kind: "set", Key: key, Flags: uint32(1000 + n), Data: val, Opaque: 1}})
				if mask&1 != 0 {
					sc.Steps = append(sc.Steps, Step{Kind: "evict", Tier: "L1", Key: []byte(string(key) + "-meta")})
				}
				for i := 0; i < n; i++ {
					if mask&(2<<i) != 0 {
						sc.Steps = append(sc.Steps, Step{Kind: "evict", Tier: "L1", Key: []byte(fmt.Sprintf("%s-%d", key, i))})
					}
				}
				sc.Steps = append(sc.Steps,
					Step{Kind: "feed", Conn: "b", Cmd: Command{Kind: "get", Keys: []GetKey{{Key: key, Opaque: 2}}}},
					Step{Kind: "feed", Conn: "b", Cmd: Command{Kind: "gat", Key: key, Exptime: 500, Opaque: 3}},
					Step{Kind: "feed", Conn: "b", Cmd: Command{Kind: "get", Keys: []GetKey{{Key: key, Opaque: 4}}}})
				out := RunScenarioO(d, sc, 3*time.Second, false)
				if out.Tainted {
					out = RunScenarioO(d, sc, 3*time.Second, false)
				}
				judge(sc, out, []wholeValue{{val, uint32(1000 + n)}}, fmt.Sprintf("sub/%d/%d", n, mask))
				if enoughDivergences(rep, 3) {
					rep.Distinct = len(distinct)
					return
				}
				// the same losses, then a read-modify-write (append / prepend re-store the value they
				// read): whatever a later read returns must still be one whole value
				pend, ext := "append", []byte("+TAIL")
				whole2 := []wholeValue{{val, uint32(1000 + n)}, {append(append([]byte{}, val...), ext...), uint32(1000 + n)}}
				if (n+mask)%2 == 1 {
					pend, ext = "prepend", []byte("HEAD+")
					whole2[1] = wholeValue{append(append([]byte{}, ext...), val...), uint32(1000 + n)}
				}
				sc2 := Scenario{ID: fmt.Sprintf("C05-rmw-%d-%d", n, mask), Stack: cfg, Conns: conns}
				sc2.Steps = append(sc2.Steps, sc.Steps[:len(sc.Steps)-3]...)
				sc2.Steps = append(sc2.Steps,
					Step{Kind: "feed", Conn: "b", Cmd: Command{Kind: pend, Key: key, Data: ext, Opaque: 5}},
					Step{Kind: "feed", Conn: "b", Cmd: Command{Kind: "get", Keys: []GetKey{{Key: key, Opaque: 6}}}},
					Step{Kind: "feed", Conn: "b", Cmd: Command{Kind: "gat", Key: key, Exptime: 500, Opaque: 7}})
				out2 := RunScenarioO(d, sc2, 3*time.Second, false)
				if out2.Tainted {
					out2 = RunScenarioO(d, sc2, 3*time.Second, false)
				}
				judge(sc2, out2, whole2, fmt.Sprintf("rmw/%d/%d", n, mask))
				if enoughDivergences(rep, 3) {
					rep.Distinct = len(distinct)
					return
				}
			}
		}
		// (a'') an overwrite on the SAME connection that the backend stops part-way: one of the
		// second set's backend requests is refused (out of memory) or the connection is cut there;
		// entries of both sets are then in the backend side by side and a read must still be a
		// miss or one of the two values whole
		for n0 := 1; n0 <= 3; n0++ {
			for n1 := 1; n1 <= 3; n1++ {
				for j := 0; j <= n1+1; j++ {
					for fk, fkind := range []string{"status", "cut-after"} {
						v0, v1 := mkval(n0, 'o'), mkval(n1, 'N')
						sc := Scenario{ID: fmt.Sprintf("C05-halfset-%d-%d-%d-%s", n0, n1, j, fkind), Stack: cfg, Conns: conns}
						sc.Steps = append(sc.Steps,
							Step{Kind: "feed", Conn: "b", Cmd: Command{Kind: "set", Key: key, Flags: 1, Data: v0, Opaque: 1}},
							Step{Kind: "fault", Fault: &FaultSpec{Tier: "L1", Index: j, Kind: fkind, Status: 0x0082}},
							Step{Kind: "feed", Conn: "b", Cmd: Command{Kind: "set", Key: key, Flags: 2, Data: v1, Opaque: 2}},
							Step{Kind: "feed", Conn: "b", Cmd: Command{Kind: "get", Keys: []GetKey{{Key: key, Opaque: 3}}}},
							Step{Kind: "feed", Conn: "b", Cmd: Command{Kind: "gat", Key: key, Exptime: 500, Opaque: 4}})
						out := RunScenarioO(d, sc, 3*time.Second, false)
						if out.Tainted {
							out = RunScenarioO(d, sc, 3*time.Second, false)
						}
						judge(sc, out, []wholeValue{{v0, 1}, {v1, 2}}, fmt.Sprintf("halfset/%d/%d/%d/%d", n0, n1, j, fk))
						if enoughDivergences(rep, 3) {
							rep.Distinct = len(distinct)
							return
						}
					}
				}
			}
		}
		// (a3) values of several chunks set on a binary and read on a TEXT connection (whose parser
		// hands the handler keys with spare capacity behind them): what comes back is the value
		for n := 1; n <= maxN; n++ {
			val := mkval(n, byte('a'+n))
			sc := Scenario{ID: fmt.Sprintf("C05-textread-%d", n), Stack: cfg, Conns: []ConnCfg{{ID: "b", Port: "main", Proto: "bin"}, {ID: "t", Port: "main", Proto: "text"}}}
			for ki, k := range [][]byte{key, []byte("user:1234"), []byte("k")} {
				sc.Steps = append(sc.Steps,
					Step{Kind: "feed", Conn: "b", Cmd: Command{Kind: "set", Key: k, Flags: uint32(7 + ki), Data: val, Opaque: 1}},
					Step{Kind: "feed", Conn: "t", Cmd: Command{Kind: "get", Keys: []GetKey{{Key: k}}}},
					Step{Kind: "feed", Conn: "t", Cmd: Command{Kind: "get", Keys: []GetKey{{Key: []byte("nokey")}, {Key: k}}}})
			}
			out := RunScenarioO(d, sc, 3*time.Second, true)
			if out.Tainted {
				out = RunScenarioO(d, sc, 3*time.Second, true)
			}
			if out.Tainted {
				rep.Tainted++
				continue
			}
			rep.Evaluations++
			distinct[fmt.Sprintf("textread/%d", n)] = true
			for _, m := range out.Misses {
				rep.Violations = append(rep.Violations, Violation{What: fmt.Sprintf("a value of %d chunks read over the text protocol, step %d (%s): %s", n, m.Step, out.Descs[m.Step], m.Verdict),
					Signature: "torn-read:text", Replay: map[string]interface{}{"scenario": describeScenario(sc), "step": m.Step, "driver_script": out.Script}})
			}
			if out.Div != nil {
				rep.Divergences = append(rep.Divergences, out.Div)
				continue
			}
			rep.Validated++
		}
		// (a') an older value under the same key, losses among the new entries
		rounds := 60
		if tier == "thorough" {
			rounds = 400
		}
		for k := 0; k < rounds; k++ {
			n0, n1 := r.Intn(maxN+1), r.Intn(maxN+1)
			v0, v1 := mkval(n0, 'o'), mkval(n1, 'N')
			sc := Scenario{ID: fmt.Sprintf("C05-old-%d", k), Stack: cfg, Conns: conns}
			sc.Steps = append(sc.Steps,
				Step{Kind: "feed", Conn: "b", Cmd: Command{Kind: "set", Key: key, Flags: 1, Data: v0, Opaque: 1}},
				Step{Kind: "feed", Conn: "b", Cmd: Command{Kind: "set", Key: key, Flags: 2, Data: v1, Opaque: 2}})
			if r.Intn(4) == 0 {
				sc.Steps = append(sc.Steps, Step{Kind: "evict", Tier: "L1", Key: []byte(string(key) + "-meta")})
			}
			for i := 0; i < maxN; i++ {
				if r.Intn(3) == 0 {
					sc.Steps = append(sc.Steps, Step{Kind: "evict", Tier: "L1", Key: []byte(fmt.Sprintf("%s-%d", key, i))})
				}
			}
			sc.Steps = append(sc.Steps,
				Step{Kind: "feed", Conn: "b", Cmd: Command{Kind: "get", Keys: []GetKey{{Key: key, Opaque: 3}}}},
				Step{Kind: "feed", Conn: "b", Cmd: Command{Kind: "gat", Key: key, Exptime: 0, Opaque: 4}})
			out := RunScenarioO(d, sc, 3*time.Second, false)
			judge(sc, out, []wholeValue{{v0, 1}, {v1, 2}}, fmt.Sprintf("old/%d/%d/%d", n0, n1, k))
			if enoughDivergences(rep, 3) {
				rep.Distinct = len(distinct)
				return
			}
		}
		// (a'') a multi-key get of large values read by a slow client (the handler moves on to the
		// next key while the earlier value is still being written out)
		for _, pr := range slowReaderMultiGet(cfg) {
			rep.Evaluations++
			rep.Validated++
			rep.Distribution["slow-reader-multiget"]++
			distinct["slow-multiget/"+pr.proto] = true
			if pr.what != "" {
				rep.Violations = append(rep.Violations, Violation{What: fmt.Sprintf("%s, %s: %s", cfg, pr.proto, pr.what), Signature: "torn-read:slow-multiget", Replay: pr.replay})
			}
		}
		// (b) interleavings of two writers (and a reader) at backend-request granularity
		st := GetStack(cfg)
		type party struct {
			cl   *Client
			conn int
			cmd  Command
		}
		runSchedule := func(tag string, prev *wholeValue, va, vb wholeValue, schedule []int, withReader bool) {
			st.Reset()
			st.L1.Gate = nil
			var sets []setRecord
			whole := []wholeValue{va, vb}
			setup := st.Dial("main", "bin")
			if prev != nil {
				setup.Feed(Command{Kind: "set", Key: key, Flags: prev.Flags, Data: prev.Data, Opaque: 9}.Encode("bin"), 3*time.Second)
				whole = append(whole, *prev)
			}
			setup.Close()
			st.L1.TakeLog()
			// each party gets its own client connection, hence its own backend connection; the
			// backend connection ids are learnt from a probe request per party
			mk := func(c Command) *party {
				cl := st.Dial("main", "bin")
				cl.Feed(Command{Kind: "get", Keys: []GetKey{{Key: []byte("probe"), Opaque: 1}}}.Encode("bin"), 3*time.Second)
				lg := st.L1.TakeLog()
				if len(lg) == 0 {
					return nil
				}
				return &party{cl: cl, conn: lg[0].Conn, cmd: c}
			}
			pa := mk(Command{Kind: "set", Key: key, Flags: va.Flags, Data: va.Data, Opaque: 11})
			pb := mk(Command{Kind: "set", Key: key, Flags: vb.Flags, Data: vb.Data, Opaque: 12})
			pr := mk(Command{Kind: "get", Keys: []GetKey{{Key: key, Opaque: 13}}})
			if pa == nil || pb == nil || pr == nil {
				rep.Tainted++
				return
			}
			parties := []*party{pa, pb}
			if withReader {
				parties = append(parties, pr)
			}
			gs := newGateSched()
			st.L1.Gate = gs.gate
			outs := make([][]byte, len(parties))
			ends := make([]string, len(parties))
			var wg sync.WaitGroup
			for i, pt := range parties {
				wg.Add(1)
				go func(i int, pt *party) {
					defer wg.Done()
					outs[i], ends[i] = pt.cl.Feed(pt.cmd.Encode("bin"), 8*time.Second)
				}(i, pt)
			}
			for _, who := range schedule {
				if who < len(parties) {
					gs.release(parties[who].conn, 150*time.Millisecond)
				}
			}
			gs.openAll()
			wg.Wait()
			st.L1.Gate = nil
			rep.Evaluations++
			distinct[tag] = true
			// tokens of the sets, from the metadata writes in the log
			for _, e := range st.L1.TakeLog() {
				if isMetaSet(e) {
					l, f := int(binary.BigEndian.Uint32(e.Value[0:4])), binary.BigEndian.Uint32(e.Value[4:8])
					for _, w := range whole {
						if len(w.Data) == l && w.Flags == f {
							sets = append(sets, setRecord{Token: e.Value[24:40], Val: w})
						}
					}
				}
			}
			fail := func(what, sig string) {
				rep.Violations = append(rep.Violations, Violation{What: what, Signature: sig,
					Replay: map[string]interface{}{"key": string(key), "lenA": len(va.Data), "lenB": len(vb.Data), "schedule": schedule, "reader": withReader, "previous_value": prev != nil}})
			}
			if prev == nil || true {
				// the previous value's token is not in this log; its entries are checked only when absent
				if prev == nil {
					if msg := backendConsistent(st, key, sets); msg != "" {
						fail("after the schedule the backend is inconsistent: "+msg, "backend-inconsistent")
					}
				}
			}
			if withReader && ends[2] == "eof" {
				kind, data, flags := classifyGetReply(outs[2][:len(outs[2])-len(binSentinelReply)])
				rep.Distribution["concurrent-reader:"+kind]++
				if msg := allOrNothing(kind, data, flags, whole); msg != "" {
					fail("concurrent reader: "+msg, "torn-read:concurrent-get")
				}
			}
			// a reader afterwards, and a get-and-touch
			for _, c := range []Command{{Kind: "get", Keys: []GetKey{{Key: key, Opaque: 21}}}, {Kind: "gat", Key: key, Exptime: 100, Opaque: 22}} {
				out, ending := pr.cl.Feed(c.Encode("bin"), 3*time.Second)
				if ending != "eof" {
					fail("reader after the schedule: connection "+ending, "reader-"+ending)
					continue
				}
				kind, data, flags := classifyGetReply(out[:len(out)-len(binSentinelReply)])
				rep.Distribution["final-"+c.Kind+":"+kind]++
				if msg := allOrNothing(kind, data, flags, whole); msg != "" {
					fail("reader after the schedule ("+c.Kind+"): "+msg, "torn-read:final-"+c.Kind)
				}
			}
			for _, pt := range []*party{pa, pb, pr} {
				pt.cl.Close()
			}
			rep.Validated++
		}
		// every interleaving of two 1-chunk sets (2 requests each) and of a 1-chunk with a 2-chunk set
		var enum func(a, b int, cur []int, f func([]int))
		enum = func(a, b int, cur []int, f func([]int)) {
			if a == 0 && b == 0 {
				f(append([]int{}, cur...))
				return
			}
			if a > 0 {
				enum(a-1, b, append(cur, 0), f)
			}
			if b > 0 {
				enum(a, b-1, append(cur, 1), f)
			}
		}
		sizes := [][2]int{{1, 1}, {1, 2}, {2, 2}}
		if tier == "thorough" {
			sizes = append(sizes, [2]int{2, 3}, [2]int{3, 3})
		}
		for _, sz := range sizes {
			for _, withPrev := range []bool{false, true} {
				enum(sz[0]+1, sz[1]+1, nil, func(s []int) {
					va, vb := wholeValue{mkval(sz[0], 'a'), 71}, wholeValue{mkval(sz[1], 'b'), 72}
					var prev *wholeValue
					if withPrev {
						prev = &wholeValue{mkval(3, 'p'), 70}
					}
					runSchedule(fmt.Sprintf("il/%v/%v/%v", sz, withPrev, s), prev, va, vb, s, false)
				})
			}
		}
		nrand := 40
		if tier == "thorough" {
			nrand = 400
		}
		for k := 0; k < nrand; k++ {
			na, nb := 1+r.Intn(3), 1+r.Intn(3)
			va, vb := wholeValue{mkval(na, 'a'), 71}, wholeValue{mkval(nb, 'b'), 72}
			var prev *wholeValue
			if r.Intn(2) == 0 {
				prev = &wholeValue{mkval(1+r.Intn(3), 'p'), 70}
			}
			var s []int
			for i := 0; i < na+nb+2+6; i++ {
				s = append(s, r.Intn(3))
			}
			runSchedule(fmt.Sprintf("rnd/%d", k), prev, va, vb, s, true)
		}
		rep.Distinct = len(distinct)
	}
}

package main

import (
	"bufio"
	"bytes"
	"fmt"
	"io"
	"math/rand"
	"net"
	"runtime"
	"runtime/debug"
	"strings"
	"time"

	"github.com/netflix/rend/common"
	"github.com/netflix/rend/protocol"
	"github.com/netflix/rend/protocol/binprot"
	"github.com/netflix/rend/protocol/textprot"
)

// segReader hands out the stream in the given segment sizes and counts what it delivered.
type segReader struct {
	data      []byte
	segs      []int
	delivered int
}

func (s *segReader) Read(p []byte) (int, error) {
	if s.delivered >= len(s.data) {
		return 0, io.EOF
	}
	n := len(s.data) - s.delivered
	if len(s.segs) > 0 {
		if s.segs[0] < n {
			n = s.segs[0]
		}
		s.segs = s.segs[1:]
	}
	if n > len(p) {
		n = len(p)
	}
	if n == 0 {
		n = 1
	}
	copy(p, s.data[s.delivered:s.delivered+n])
	s.delivered += n
	return n, nil
}

func reqString(req common.Request, rt common.RequestType) string {
	gk := func(g common.GetRequest) string {
		var ks []string
		for i := range g.Keys {
			q := 0
			if g.Quiet[i] {
				q = 1
			}
			ks = append(ks, fmt.Sprintf("%s/%d/%d", canon(g.Keys[i]), g.Opaques[i], q))
		}
		e := 0
		if g.NoopEnd {
			e = 1
		}
		return fmt.Sprintf("%s:%d:%d", strings.Join(ks, ","), g.NoopOpaque, e)
	}
	b := func(x bool) int {
		if x {
			return 1
		}
		return 0
	}
	switch r := req.(type) {
	case nil:
		return "nil"
	case common.SetRequest:
		kn := map[common.RequestType]string{common.RequestSet: "set", common.RequestAdd: "add", common.RequestReplace: "replace", common.RequestAppend: "append", common.RequestPrepend: "prepend"}[rt]
		return fmt.Sprintf("%s:%s:%d:%d:%s:%d:%d", kn, canon(r.Key), r.Flags, r.Exptime, canon(r.Data), r.Opaque, b(r.Quiet))
	case common.GetRequest:
		if rt == common.RequestGetE {
			return "gete:" + gk(r)
		}
		return "get:" + gk(r)
	case common.GATRequest:
		return fmt.Sprintf("gat:%s:%d:%d", canon(r.Key), r.Exptime, r.Opaque)
	case common.DeleteRequest:
		return fmt.Sprintf("delete:%s:%d", canon(r.Key), r.Opaque)
	case common.TouchRequest:
		return fmt.Sprintf("touch:%s:%d:%d", canon(r.Key), r.Exptime, r.Opaque)
	case common.NoopRequest:
		return fmt.Sprintf("noop:%d", r.Opaque)
	case common.QuitRequest:
		return fmt.Sprintf("quit:%d:%d", r.Opaque, b(r.Quiet))
	case common.VersionRequest:
		return fmt.Sprintf("version:%d", r.Opaque)
	case common.StatRequest:
		return fmt.Sprintf("stat:%d", r.Opaque)
	}
	return fmt.Sprintf("%T", req)
}

var clientErrNames = map[error]string{common.ErrBadRequest: "ErrBadRequest", common.ErrBadLength: "ErrBadLength", common.ErrBadFlags: "ErrBadFlags", common.ErrBadExptime: "ErrBadExptime"}

type parseObs struct {
	line     string // canonical outcome, comparable with the driver's `parse`
	alloc    uint64
	panicked interface{}
	dur      time.Duration
	consumed int
}

// parseOnce runs the real parser once on data (delivered in segs) and canonicalises the outcome.
func parseOnce(comps protocol.Components, data []byte, segs []int) parseObs {
	sr := &segReader{data: data, segs: segs}
	br := bufio.NewReader(sr)
	p := comps.NewRequestParser(br)
	var ob parseObs
	var ms0, ms1 runtime.MemStats
	runtime.ReadMemStats(&ms0)
	start := time.Now()
	var req common.Request
	var rt common.RequestType
	var err error
	func() {
		defer func() {
			if r := recover(); r != nil {
				ob.panicked = r
			}
		}()
		req, rt, _, err = p.Parse()
	}()
	ob.dur = time.Since(start)
	runtime.ReadMemStats(&ms1)
	ob.alloc = ms1.TotalAlloc - ms0.TotalAlloc
	rest := len(data) - sr.delivered + br.Buffered()
	ob.consumed = len(data) - rest
	class := "ok"
	if err != nil {
		if n, ok := clientErrNames[err]; ok {
			class = "client-error:" + n
		} else {
			class = "fatal"
			rest = 0
		}
	}
	c := "nil"
	if err == nil {
		c = reqString(req, rt)
	}
	ob.line = fmt.Sprintf("%s %s rest=%d", class, c, rest)
	return ob
}

func randSegs(r *rand.Rand, total int) []int {
	switch r.Intn(5) {
	case 0:
		return nil // whole
	case 1:
		s := make([]int, total)
		for i := range s {
			s[i] = 1
		}
		return s
	}
	var s []int
	for left := total; left > 0; {
		n := 1 + r.Intn(40)
		if r.Intn(4) == 0 {
			n = 1 + r.Intn(5000)
		}
		s = append(s, n)
		left -= n
	}
	return s
}

// wellFormed generates a request of the supported subset for proto.
func (g *Gen) wellFormed(proto string) Command {
	key := make([]byte, 1+g.r.Intn(250))
	for i := range key {
		if proto == "text" {
			key[i] = byte(33 + g.r.Intn(94))
		} else {
			key[i] = byte(g.r.Intn(256))
		}
	}
	dataLen := g.r.Intn(300)
	switch g.r.Intn(6) {
	case 0:
		dataLen = 0
	case 1:
		dataLen = 60000 + g.r.Intn(6000)
	}
	data := make([]byte, dataLen)
	for i := range data {
		data[i] = []byte{'\r', '\n', 0x80, 0, ' ', 'a', 0xff}[g.r.Intn(7)]
	}
	u := func() uint32 {
		switch g.r.Intn(4) {
		case 0:
			return 0
		case 1:
			return 0xffffffff
		}
		return g.r.Uint32()
	}
	c := Command{Key: key, Flags: u(), Exptime: u(), Data: data, Opaque: u()}
	kinds := []string{"set", "add", "replace", "append", "prepend", "get", "get", "delete", "touch", "noop", "version", "stat"}
	if proto == "bin" {
		kinds = append(kinds, "gat", "quit")
	}
	c.Kind = kinds[g.r.Intn(len(kinds))]
	if proto == "bin" && g.r.Intn(3) == 0 {
		c.Quiet = true
	}
	if proto == "text" && (c.Kind == "append" || c.Kind == "prepend") {
		// the text line carries flags and exptime even for append/prepend
	}
	if c.Kind == "get" {
		n := 1 + g.r.Intn(5)
		long := g.r.Intn(6) == 0 // a request of several KB: longer than any reader buffer in the path
		if long {
			n = 17 + g.r.Intn(44)
		}
		for i := 0; i < n; i++ {
			k := make([]byte, 1+g.r.Intn(40))
			if long {
				k = make([]byte, 200+g.r.Intn(51))
			}
			for j := range k {
				if proto == "text" {
					k[j] = byte(33 + g.r.Intn(94))
				} else {
					k[j] = byte(g.r.Intn(256))
				}
			}
			gk := GetKey{Key: k}
			if proto == "bin" {
				gk.Opaque = u()
				gk.Quiet = i < n-1 || g.r.Intn(2) == 0
			}
			c.Keys = append(c.Keys, gk)
		}
		if proto == "bin" && c.Keys[len(c.Keys)-1].Quiet {
			c.NoopEnd, c.NoopOpq = true, u()
		}
	}
	return c
}

// intent renders what the generator meant, in the same canonical form as reqString.
func intent(c Command, proto string) string {
	b := func(x bool) int {
		if x {
			return 1
		}
		return 0
	}
	opq := c.Opaque
	if proto == "text" {
		opq = 0
	}
	switch c.Kind {
	case "set", "add", "replace", "append", "prepend":
		fl, ex := c.Flags, c.Exptime
		if proto == "bin" && (c.Kind == "append" || c.Kind == "prepend") {
			fl, ex = 0, 0
		}
		q := c.Quiet && proto == "bin"
		return fmt.Sprintf("%s:%s:%d:%d:%s:%d:%d", c.Kind, canon(c.Key), fl, ex, canon(c.Data), opq, b(q))
	case "get":
		var ks []string
		for _, k := range c.Keys {
			ks = append(ks, fmt.Sprintf("%s/%d/%d", canon(k.Key), k.Opaque, b(k.Quiet)))
		}
		return fmt.Sprintf("get:%s:%d:%d", strings.Join(ks, ","), c.NoopOpq, b(c.NoopEnd))
	case "gat":
		return fmt.Sprintf("gat:%s:%d:%d", canon(c.Key), c.Exptime, opq)
	case "delete":
		return fmt.Sprintf("delete:%s:%d", canon(c.Key), opq)
	case "touch":
		return fmt.Sprintf("touch:%s:%d:%d", canon(c.Key), c.Exptime, opq)
	case "noop":
		return fmt.Sprintf("noop:%d", opq)
	case "version":
		return fmt.Sprintf("version:%d", opq)
	case "stat":
		return fmt.Sprintf("stat:%d", opq)
	case "quit":
		return fmt.Sprintf("quit:%d:%d", opq, b(c.Quiet && proto == "bin"))
	}
	return "?"
}

func compsOf(proto string) protocol.Components {
	if proto == "text" {
		return textprot.Components
	}
	return binprot.Components
}

// parseStream decodes a whole stream with the real parser (one parser, one segmented reader) and
// with the model, request by request.
func parseStream(rep *Report, d *Driver, proto string, data []byte, segs []int, intents []string, what string) {
	sr := &segReader{data: data, segs: segs}
	br := bufio.NewReader(sr)
	p := compsOf(proto).NewRequestParser(br)
	off := 0
	for i := 0; ; i++ {
		if off >= len(data) {
			if i < len(intents) {
				rep.Violations = append(rep.Violations, Violation{What: fmt.Sprintf("%s: stream ended after %d of %d requests", what, i, len(intents)), Signature: "decode-short", Replay: map[string]interface{}{"proto": proto, "stream": hx(data), "segments": segs}})
			}
			return
		}
		req, rt, _, err := p.Parse()
		rest := len(data) - sr.delivered + br.Buffered()
		class := "ok"
		if err != nil {
			if n, ok := clientErrNames[err]; ok {
				class = "client-error:" + n
			} else {
				class, rest = "fatal", 0
			}
		}
		c := "nil"
		if err == nil {
			c = reqString(req, rt)
		}
		impl := fmt.Sprintf("%s %s rest=%d", class, c, rest)
		got := d.Send(fmt.Sprintf("parse %s %s", proto, hx(data[off:])), 1)[0]
		if i := strings.Index(got, " alloc="); i >= 0 {
			got = got[:i]
		}
		// the property itself first: what was decoded is what was sent (a concrete failing input)…
		if i < len(intents) && (class != "ok" || c != intents[i]) {
			rep.Violations = append(rep.Violations, Violation{What: fmt.Sprintf("%s: request %d decoded as [%s %s], sent %s", what, i, class, c, intents[i]), Signature: "decode-mismatch:" + proto,
				Replay: map[string]interface{}{"proto": proto, "stream": canonN(4000, data), "segments": segs, "request": i}})
			return
		}
		// …then the correspondence with the model
		if got != impl {
			rep.Divergences = append(rep.Divergences, &Divergence{Scenario: what, Step: i, What: "decoded request", Impl: impl, Model: got, Script: []string{fmt.Sprintf("parse %s %s", proto, canonN(2000, data[off:]))}})
			return
		}
		if class == "fatal" {
			return
		}
		off = len(data) - rest
		if i > len(intents)+3 {
			return
		}
	}
}

func init() {
	checks["C07"] = func(rep *Report, tier string, seed int64) {
		rep.Rule = "pipelines of 1..6 well-formed requests of every supported command (binary keys of arbitrary bytes 1..250, text keys of printable bytes, data 0..66000 bytes of CR/LF/0x80/0/space, all-ones and random 32-bit fields, quiet batches closed by get or noop; one get in six with 17..60 keys of 200..250 bytes; text get lines of 4000..70000 bytes around every multiple of the reader's 4096-byte buffer), each delivered to the REAL parser through a reader that returns random segment sizes (1 byte .. whole) under 3 different segmentations; every decoded request is compared with the Lean parser model on the same remaining bytes and with the generator's intent, including the bytes left unread; protocol choice compared on all 256 first bytes; distinct = distinct (protocol, command kinds of the pipeline, segmentation class)"
		d := StartDriver()
		defer d.Close()
		g := &Gen{r: rand.New(rand.NewSource(seed))}
		n := 250
		if tier == "thorough" {
			n = 2500
		}
		distinct := map[string]bool{}
		for i := 0; i < n; i++ {
			proto := []string{"bin", "text"}[i%2]
			k := 1 + g.r.Intn(6)
			var stream []byte
			var intents, kinds []string
			for j := 0; j < k; j++ {
				c := g.wellFormed(proto)
				if c.Kind == "quit" && j < k-1 {
					c.Kind = "noop"
				}
				stream = append(stream, c.Encode(proto)...)
				intents = append(intents, intent(c, proto))
				kinds = append(kinds, c.Kind)
				rep.Distribution["cmd:"+c.Kind]++
			}
			for s := 0; s < 3; s++ {
				segs := randSegs(g.r, len(stream))
				parseStream(rep, d, proto, stream, segs, intents, fmt.Sprintf("pipeline-%d/%d", i, s))
				rep.Evaluations++
				rep.Validated++
				distinct[fmt.Sprintf("%s/%s/%v", proto, strings.Join(kinds, ","), len(segs) > 0)] = true
				if enoughDivergences(rep, 3) || len(rep.Violations) > 5 {
					rep.Distinct = len(distinct)
					return
				}
			}
			if len(rep.Samples) < 3 {
				rep.Samples = append(rep.Samples, map[string]interface{}{"proto": proto, "requests": intents})
			}
		}
		// text command lines around the reader's buffer size (bufio's default 4096) and its multiples
		for _, L := range []int{4000, 4094, 4095, 4096, 4097, 4098, 8191, 8192, 8193, 12288, 16385, 70000} {
			var keys []GetKey
			line := len("get") + len("\r\n")
			for line < L {
				kl := 250
				if L-line-1 < kl {
					kl = L - line - 1
				}
				if kl <= 0 {
					break
				}
				k := make([]byte, kl)
				for j := range k {
					k[j] = byte('a' + g.r.Intn(26))
				}
				keys = append(keys, GetKey{Key: k})
				line += 1 + kl
			}
			c := Command{Kind: "get", Keys: keys}
			follow := Command{Kind: "touch", Key: []byte("after"), Exptime: 99}
			stream := append(c.Encode("text"), follow.Encode("text")...)
			for s := 0; s < 2; s++ {
				var segs []int
				if s == 1 {
					segs = randSegs(g.r, len(stream))
				}
				parseStream(rep, d, "text", stream, segs, []string{intent(c, "text"), intent(follow, "text")}, fmt.Sprintf("long-line-%d/%d", L, s))
				rep.Evaluations++
				rep.Validated++
				rep.Distribution["long-text-line"]++
				distinct[fmt.Sprintf("text/long-get-%d/%d", L, s)] = true
			}
		}
		// protocol disambiguation on every first byte
		for b := 0; b < 256; b++ {
			peek := bufio.NewReader(strings.NewReader(string([]byte{byte(b), 'x'})))
			mb, _ := binprot.Components.NewDisambiguator(peek).CanParse()
			mt, _ := textprot.Components.NewDisambiguator(peek).CanParse()
			wantB, wantT := b == 0x80, b >= 'a' && b <= 'z'
			if mb != wantB || mt != wantT || (mb && mt) {
				rep.Violations = append(rep.Violations, Violation{What: fmt.Sprintf("first byte %#x: binary=%v text=%v", b, mb, mt), Signature: "first-byte", Replay: map[string]interface{}{"byte": b}})
			}
			rep.Evaluations++
		}
		crossConnection(rep, distinct, g.r, tier)
		rep.Distinct = len(distinct)
	}

	checks["C11"] = func(rep *Report, tier string, seed int64) {
		rep.Rule = "binary: the full grid opcode 0..255 x key length {0,1,5} x extras {0,4,8; for value-carrying opcodes also 9,16,255} x total body {0,1,12,13,14,2^32-1} with 0..20 bytes following; mutations of valid requests (bit flips, truncation at every offset, length-field edits); random byte strings; text: lines with bad numeric fields, missing fields, long tokens, unicode white space; every input is given to the REAL parser (EOF-terminated, single goroutine) and to the model; compared: outcome class, decoded request, bytes consumed; oracle on the real parser: no panic, returns within 2 s, bytes allocated (runtime.MemStats.TotalAlloc delta) <= 64 KiB + 4 x input length + 2 x the model's allocation measure (the sizes the frame consistently declares); every 97th input and every input on which parser and model disagree is also sent to a REAL server connection (L1-only stack) followed by the client's half-close: the server must answer and/or close within 2 s, never hang; containment: rounds of 8 and 24 well-behaved connections on private keys (40 commands each, judged as if alone by the single-map specification) while four connections keep sending malformed input (bad magic after a valid request, truncated frames, response magic, bad text numbers, a cut data block) and reconnect; distinct = distinct (outcome class, opcode or text command)"
		d := StartDriver()
		defer d.Close()
		r := rand.New(rand.NewSource(seed))
		g := &Gen{r: r}
		distinct := map[string]bool{}
		probes := 0
		try := func(proto string, data []byte, what string) bool {
			ob := parseOnce(compsOf(proto), data, nil)
			rep.Evaluations++
			replay := map[string]interface{}{"proto": proto, "input": canonN(600, data), "what": what}
			if ob.panicked != nil {
				rep.Violations = append(rep.Violations, Violation{What: fmt.Sprintf("%s parser panicked: %v", proto, ob.panicked), Signature: "parser-panic:" + proto, Replay: replay})
				return false
			}
			if ob.alloc > 1<<28 {
				// a frame that consistently declares a huge body: give the memory back at once
				runtime.GC()
				debug.FreeOSMemory()
			}
			if ob.dur > 2*time.Second && ob.alloc < 1<<28 {
				rep.Violations = append(rep.Violations, Violation{What: fmt.Sprintf("%s parser took %v on %d bytes", proto, ob.dur, len(data)), Signature: "parser-slow:" + proto, Replay: replay})
			}
			got := d.Send(fmt.Sprintf("parse %s %s", proto, hx(data)), 1)[0]
			var modelAlloc uint64
			if i := strings.Index(got, " alloc="); i >= 0 {
				fmt.Sscanf(got[i+7:], "%d", &modelAlloc)
				got = got[:i]
			}
			// (TotalAlloc is process-wide: goroutines of the real server stacks started by the probes
			// below may allocate in the background — measure again before believing an excess)
			for retry := 0; retry < 3 && ob.alloc > 64*1024+4*uint64(len(data))+2*modelAlloc; retry++ {
				time.Sleep(20 * time.Millisecond)
				if ob2 := parseOnce(compsOf(proto), data, nil); ob2.alloc < ob.alloc {
					ob.alloc = ob2.alloc
				}
			}
			if ob.alloc > 64*1024+4*uint64(len(data))+2*modelAlloc {
				rep.Violations = append(rep.Violations, Violation{What: fmt.Sprintf("%s parser allocated %d bytes for a %d-byte input whose consistent length fields declare %d", proto, ob.alloc, len(data), modelAlloc), Signature: "parser-alloc:" + proto, Replay: replay})
				return false
			}
			probes++
			if got != ob.line || probes%97 == 0 {
				// the property at the level of the server: after these bytes and the client's
				// half-close the REAL connection loop answers and/or closes — it never hangs or spins
				st := GetStack(StackCfg{Orca: "l1only", Locked: "none", Bits: 0, L1: "std"})
				// (a frame that consistently declares a huge body is legitimately waited and allocated
				// for: zeroing gigabytes takes longer than the probe's patience)
				if len(data) < 1<<20 && modelAlloc < 1<<24 {
					crumb("bytes sent to a real server connection, then the client's half-close", map[string]interface{}{"proto": proto, "input": canonN(600, data), "what": what})
					_, ending := feedPrefixAndClose(st, "main", data, 2*time.Second)
					rep.Distribution["server-probe:"+ending]++
					if ending == "hang" {
						rep.Violations = append(rep.Violations, Violation{What: fmt.Sprintf("after %d bytes (%s) and the client's close the server neither answered to the end nor closed the connection within 2 s (the connection loop is stuck or spinning)", len(data), what), Signature: "server-hang:" + proto, Replay: replay})
					}
				}
			}
			if got != ob.line {
				// keep going: a later input may show the property itself failing (a concrete input)
				if len(rep.Divergences) < 4 {
					rep.Divergences = append(rep.Divergences, &Divergence{Scenario: what, What: "parser outcome", Impl: ob.line, Model: got, Script: []string{fmt.Sprintf("parse %s %s", proto, canonN(2000, data))}})
				}
				return len(rep.Violations) < 6
			}
			rep.Validated++
			cls := strings.SplitN(ob.line, " ", 2)[0]
			first := ""
			if proto == "bin" && len(data) > 1 {
				first = fmt.Sprint(data[1])
			} else if proto == "text" {
				first = strings.SplitN(strings.SplitN(string(data), " ", 2)[0], "\r", 2)[0]
				if len(first) > 8 {
					first = first[:8]
				}
			}
			distinct[proto+"/"+cls+"/"+first] = true
			return len(rep.Violations) < 6
		}
		// header grid
		totals := []uint32{0, 1, 12, 13, 14, 0xffffffff}
		for op := 0; op < 256; op++ {
			for _, kl := range []int{0, 1, 5} {
				els := []int{0, 4, 8}
				if op <= 3 || (op >= 0x0e && op <= 0x13) || op == 0x19 || op == 0x1a || op == 0x1c || op == 0x1d || op == 0x1e {
					// the commands that carry a value: also extras lengths the command never has
					els = []int{0, 4, 8, 9, 16, 255}
				}
				for _, el := range els {
					for _, tot := range totals {
						if tot == 0xffffffff && !(kl == 5 && el == 8 && (op < 4 || op == 0x0e || op == 0x19 || op == 0x09 || op == 0x55)) {
							continue // a consistent 4 GiB body is legitimately allocated: sample it, do not sweep it
						}
						h := binHeader(uint8(op), kl, el, 0, r.Uint32())
						h[8], h[9], h[10], h[11] = byte(tot>>24), byte(tot>>16), byte(tot>>8), byte(tot)
						tail := make([]byte, r.Intn(21))
						r.Read(tail)
						if !try("bin", append(h, tail...), fmt.Sprintf("grid op=%d key=%d ext=%d total=%d", op, kl, el, tot)) {
							rep.Distinct = len(distinct)
							return
						}
					}
				}
			}
		}
		// key lengths at the top of the 16-bit field (key + extras beyond 65535), for the commands
		// that carry a value and for gets
		for _, op := range []int{0x01, 0x02, 0x03, 0x11, 0x12, 0x13, 0x0e, 0x0f, 0x00, 0x09, 0x1c, 0x1d} {
			for _, kl := range []int{65520, 65527, 65528, 65529, 65535} {
				for _, el := range []int{0, 4, 8, 255} {
					for _, tot := range []uint32{0, 7, 100, 65535, uint32(kl + el), uint32(kl + el + 3)} {
						h := binHeader(uint8(op), kl, el, 0, r.Uint32())
						h[8], h[9], h[10], h[11] = byte(tot>>24), byte(tot>>16), byte(tot>>8), byte(tot)
						tail := make([]byte, r.Intn(21))
						if tot == 100 && el == 8 && kl >= 65528 {
							// with the extras and a key of the declared length actually on the wire (a
							// frame whose total is smaller than key + extras is refused at the header:
							// nothing of this may be read, let alone sized for)
							tail = make([]byte, kl+el+4)
						}
						r.Read(tail)
						rep.Distribution["grid-long-key-lengths"]++
						if !try("bin", append(h, tail...), fmt.Sprintf("grid op=%d key=%d ext=%d total=%d", op, kl, el, tot)) {
							rep.Distinct = len(distinct)
							return
						}
					}
				}
			}
		}
		rep.Exhaustive = false
		// mutations of valid requests
		nm := 1500
		if tier == "thorough" {
			nm = 15000
		}
		for i := 0; i < nm; i++ {
			proto := []string{"bin", "text"}[i%2]
			c := g.wellFormed(proto)
			if len(c.Data) > 400 {
				c.Data = c.Data[:r.Intn(400)]
			}
			data := c.Encode(proto)
			mut := append([]byte{}, data...)
			switch r.Intn(4) {
			case 0:
				mut = mut[:r.Intn(len(mut)+1)]
			case 1:
				for k := 0; k < 1+r.Intn(3); k++ {
					j := r.Intn(len(mut))
					mut[j] ^= 1 << uint(r.Intn(8))
				}
			case 2:
				if proto == "bin" && len(mut) >= 24 {
					// edit a length field
					switch r.Intn(3) {
					case 0:
						mut[2], mut[3] = byte(r.Intn(256)), byte(r.Intn(256))
					case 1:
						mut[4] = byte(r.Intn(256))
					default:
						j := 8 + r.Intn(4)
						mut[j] = byte(r.Intn(256))
					}
				} else {
					j := r.Intn(len(mut))
					mut[j] = []byte{' ', '\r', '\n', '9', 0xc2, 0x85, 0xa0, '\t', '-'}[r.Intn(9)]
				}
			default:
				j := r.Intn(len(mut) + 1)
				ins := make([]byte, 1+r.Intn(4))
				r.Read(ins)
				mut = append(mut[:j], append(ins, mut[j:]...)...)
			}
			if !try(proto, mut, "mutation of "+c.Describe()) {
				rep.Distinct = len(distinct)
				return
			}
		}
		// keys at and beyond memcached's 250-byte limit, in every command and inside pipelined
		// batches of quiet gets (the proxy passes them on; the backend refuses them)
		for _, kl := range []int{249, 250, 251, 252, 256, 300, 1000, 65535} {
			long := bytes.Repeat([]byte{'K'}, kl)
			batches := [][]Command{
				{{Kind: "get", Keys: []GetKey{{Key: long, Opaque: 1, Quiet: true}, {Key: []byte("k"), Opaque: 2}}}},
				{{Kind: "get", Keys: []GetKey{{Key: []byte("k"), Opaque: 1, Quiet: true}, {Key: long, Opaque: 2, Quiet: true}, {Key: []byte("j"), Opaque: 3, Quiet: true}}, NoopEnd: true, NoopOpq: 4}},
				{{Kind: "get", Keys: []GetKey{{Key: long, Opaque: 1}}}, {Kind: "noop", Opaque: 9}},
				{{Kind: "set", Key: long, Data: []byte("v"), Opaque: 1}, {Kind: "noop", Opaque: 9}},
				{{Kind: "delete", Key: long, Opaque: 1}}, {{Kind: "touch", Key: long, Exptime: 5, Opaque: 1}}, {{Kind: "gat", Key: long, Exptime: 5, Opaque: 1}},
				{{Kind: "append", Key: long, Data: []byte("v"), Opaque: 1}},
			}
			for _, b := range batches {
				for _, proto := range []string{"bin", "text"} {
					var data []byte
					ok := true
					for _, c := range b {
						if proto == "text" && (c.Kind == "gat" || kl > 2000) {
							ok = false
							break
						}
						data = append(data, c.Encode(proto)...)
					}
					if !ok {
						continue
					}
					rep.Distribution["long-key-frames"]++
					what := fmt.Sprintf("%d-byte key in %s", kl, b[0].Describe()[:12])
					// on a live connection that stays open: answered or closed, never left waiting
					crumb("a request with a long key on a live connection", map[string]interface{}{"proto": proto, "what": what})
					lst := GetStack(StackCfg{Orca: "l1only", Locked: "none", Bits: 0, L1: "std"})
					lcl := lst.Dial("main", proto)
					_, lend := lcl.Feed(data, 2*time.Second)
					lcl.Close()
					rep.Distribution["long-key-live:"+lend]++
					if lend == "hang" {
						rep.Violations = append(rep.Violations, Violation{What: fmt.Sprintf("%s, %s: the server neither answered the requests that follow nor closed the connection within 2 s", what, proto), Signature: "long-key-hang:" + proto,
							Replay: map[string]interface{}{"proto": proto, "input": canonN(700, data), "what": what}})
					}
					if !try(proto, data, what) {
						rep.Distinct = len(distinct)
						return
					}
				}
			}
		}
		// text lines with awkward fields
		lines := []string{
			"set k 0 0 -1\r\n", "set k x 0 1\r\na\r\n", "set k 0 y 1\r\na\r\n", "set k 0 0 z\r\n", "set k 0 0\r\n", "set k 0 0 1 2\r\na\r\n",
			"set k 4294967296 0 1\r\na\r\n", "set k 4294967295 4294967295 1\r\na\r\n", "set k 0 0 5\r\nab", "get\r\n", "get \r\n", "get  a\r\n",
			"delete\r\n", "delete a b\r\n", "touch a\r\n", "touch a b\r\n", "touch a 1 2\r\n", "noop x\r\n", "quit x\r\n", "version x\r\n", "stats x\r\n",
			"\r\n", "\n", " \r\n", "bogus\r\n", "GET a\r\n", "get a\xc2\x85\r\n", "get a\xc2\xa0\r\n", "\xc2\x85get a\r\n", "get a\xe2\x80\x83\r\n", "get a\xe3\x80\x80\r\n",
			"get a\xc2\r\n", "get a\x85\r\n", "set k 0 0 1\t\r\na\r\n", "set k +1 0 1\r\na\r\n", "set k 01 0 1\r\na\r\n", "set k 0 0 1\r\na", "set k 0 0 0\r\n\r\n",
			"get " + strings.Repeat("k", 70000) + "\r\n", strings.Repeat("x", 5000), "set k 0 0 3\r\nabcXYZ\r\nget a\r\n",
		}
		for _, l := range lines {
			if !try("text", []byte(l), fmt.Sprintf("text line %q", l)) {
				break
			}
		}
		// random bytes
		nr := 2000
		if tier == "thorough" {
			nr = 20000
		}
		for i := 0; i < nr; i++ {
			b := make([]byte, r.Intn(80))
			r.Read(b)
			proto := "text"
			if i%2 == 0 {
				proto = "bin"
				if len(b) > 0 && r.Intn(3) > 0 {
					b[0] = 0x80
				}
			} else if r.Intn(2) == 0 {
				b = append(b, '\n')
			}
			if !try(proto, b, "random bytes") {
				break
			}
		}
		if len(rep.Samples) == 0 {
			rep.Samples = append(rep.Samples, map[string]interface{}{"grid_example": "op=1 key=5 ext=8 total=0 (contradictory)", "text_lines": lines[:6]})
		}
		// a client that connects and goes away without a single byte, on a stack without L2 and on one
		// with: the server goes on serving others
		for _, cfg := range []StackCfg{{Orca: "l1only", Locked: "none", Bits: 0, L1: "std"}, {Orca: "l1l2", Locked: "mr", Bits: 2, L1: "std"}} {
			crumb("a client connects and disconnects without sending a byte", map[string]interface{}{"stack": cfg.String()})
			st := GetStack(cfg)
			for i := 0; i < 3; i++ {
				c, err := net.Dial("unix", st.MainSock)
				must(err)
				c.Close()
			}
			time.Sleep(50 * time.Millisecond)
			cl := st.Dial("main", "bin")
			out, e := cl.Feed(Command{Kind: "version", Opaque: 5}.Encode("bin"), 2*time.Second)
			cl.Close()
			rep.Evaluations++
			rep.Distribution["zero-byte-connections"]++
			if e != "eof" {
				rep.Violations = append(rep.Violations, Violation{What: fmt.Sprintf("%s: after three clients connected and left without sending a byte, a version request ended %q (%s)", cfg, e, canonN(64, out)), Signature: "zero-byte-client",
					Replay: map[string]interface{}{"stack": cfg.String()}})
			}
		}
		// containment: well-behaved connections on private keys, each judged as if it were alone,
		// while four other connections keep sending malformed input, are cut off and come back
		contained := map[string]bool{}
		for ri, n := range []int{8, 24} {
			privateRound(rep, d, contained, StackCfg{Orca: "l1only", Locked: "none", Bits: 0, L1: "std"}, 90, ri, n, 40, seed, tier, attackers)
			rep.Distribution["containment-rounds"]++
		}
		rep.Distinct = len(distinct)
	}
}

// crossConnection: what one connection's parser decodes does not depend on what the parsers of
// other connections are doing.  Connection A's request arrives in two pieces; while A's parser is
// parked between them, connection B's parser decodes whole requests (first a batch of quiet gets,
// then a set with other field values).  A must decode exactly what it decodes alone.
func crossConnection(rep *Report, distinct map[string]bool, r *rand.Rand, tier string) {
	rounds := 40
	if tier == "thorough" {
		rounds = 400
	}
	comps := compsOf("bin")
	parseAll := func(data []byte) string {
		p := comps.NewRequestParser(bufio.NewReader(bytes.NewReader(data)))
		req, rt, _, err := p.Parse()
		if err != nil {
			return "error " + err.Error()
		}
		return reqString(req, rt)
	}
	for i := 0; i < rounds; i++ {
		opqA, opqB := 0xa1a10000+uint32(i), 0xb2b20000+uint32(i)
		a := Command{Kind: []string{"set", "append", "add", "touch", "delete"}[i%5], Key: []byte(fmt.Sprintf("alpha-%d", i)), Flags: 0x0a0a0a0a, Exptime: 77,
			Data: bytes.Repeat([]byte{'A'}, 100+r.Intn(50)), Opaque: opqA}.Encode("bin")
		b := Command{Kind: "set", Key: []byte("bee"), Flags: 0x0b0b0b0b, Exptime: 99, Data: []byte("BBBB"), Opaque: opqB}.Encode("bin")
		batch := Command{Kind: "get", Keys: []GetKey{{Key: []byte("q1"), Opaque: 1, Quiet: true}, {Key: []byte("q2"), Opaque: 2, Quiet: true}, {Key: []byte("q3"), Opaque: 3}}}.Encode("bin")
		want := parseAll(a)
		cut := []int{24, 1, 12, 23, 30, len(a) - 1, 24 + r.Intn(len(a)-24)}[i%7]
		if cut >= len(a) {
			cut = len(a) - 1
		}
		// some connection decodes a batch of quiet gets; others connected and left without a byte,
		// or in the middle of a header
		parseAll(batch)
		parseAll(nil)
		parseAll(b[:10])
		pr, pw := io.Pipe()
		got := make(chan string, 1)
		go func() {
			p := comps.NewRequestParser(bufio.NewReader(pr))
			req, rt, _, err := p.Parse()
			if err != nil {
				got <- "error " + err.Error()
				return
			}
			got <- reqString(req, rt)
		}()
		pw.Write(a[:cut])
		time.Sleep(2 * time.Millisecond) // A's parser is parked inside its request
		for k := 0; k < 3; k++ {
			parseAll(b)
			parseAll(batch)
		}
		pw.Write(a[cut:])
		pw.Close()
		res := ""
		select {
		case res = <-got:
		case <-time.After(3 * time.Second):
			res = "no result within 3 s"
		}
		pr.Close()
		rep.Evaluations++
		distinct[fmt.Sprintf("cross/%d", i%7)] = true
		rep.Distribution["cross-connection-rounds"]++
		if res != want {
			rep.Violations = append(rep.Violations, Violation{What: fmt.Sprintf("a request that arrives in two pieces (cut after %d of %d bytes) while other connections decode a quiet-get batch and a set: decoded as [%s], alone it decodes as [%s]", cut, len(a), res, want),
				Signature: "cross-connection-decode", Replay: map[string]interface{}{"request": canonN(400, a), "cut": cut, "other_connection_set": canonN(100, b), "other_connection_batch": canonN(200, batch)}})
			if len(rep.Violations) > 6 {
				return
			}
		} else {
			rep.Validated++
		}
	}
}

package main

import (
	"bytes"
	"fmt"
	"math/rand"
	"strings"
	"time"
)

// stack configurations exercised by the full-stack checks (a subset of memproxy's flag space:
// every orchestrator x locking mode x L1 handler kind that memproxy can produce)
func fullStackConfigs(tier string) []StackCfg {
	cfgs := []StackCfg{
		{Orca: "l1only", Locked: "none", Bits: 0, L1: "std"},
		{Orca: "l1l2", Locked: "none", Bits: 0, L1: "std"},
		{Orca: "l1l2", Locked: "mr", Bits: 2, L1: "std"},
		{Orca: "l1l2", Locked: "sr", Bits: 3, L1: "chunked"},
		{Orca: "l1only", Locked: "sr", Bits: 1, L1: "chunked"},
		{Orca: "l1only", Locked: "none", Bits: 0, L1: "chunked"},
	}
	if tier == "thorough" {
		cfgs = append(cfgs,
			StackCfg{Orca: "l1only", Locked: "mr", Bits: 8, L1: "std"},
			StackCfg{Orca: "l1l2", Locked: "sr", Bits: 0, L1: "std"},
			StackCfg{Orca: "l1l2", Locked: "none", Bits: 0, L1: "chunked"},
		)
	}
	return cfgs
}

type seqOpts struct {
	Steps     int
	Evict     float64 // probability of an L1 eviction step between commands
	Advance   float64 // probability of a clock advance (non-chunked stacks only)
	MaxChunks int
	AdvChunk  bool // advance the clock on chunked stacks too
	TwoTier   bool // only the L1/L2 configurations
	GetE      bool // include get-with-expiry among the generated commands
	Directed  bool // also run the directed mixed-tier multi-key gets
	ExtraCfgs []StackCfg
	Remnant   bool // also run the history of finding D23 on two-tier chunked stacks
	Probe     func(sc Scenario, i int, st *Stack, d *Driver, ob StepObs) []Violation
}

// genSequence builds a scenario of sequential commands over 1-3 connections (main and batch port,
// both protocols), one command in flight at a time.
func genSequence(g *Gen, id string, cfg StackCfg, o seqOpts) Scenario {
	sc := Scenario{ID: id, Stack: cfg}
	sc.Conns = append(sc.Conns, ConnCfg{ID: "t", Port: "main", Proto: "text"}, ConnCfg{ID: "b", Port: "main", Proto: "bin"})
	if cfg.Orca == "l1l2" {
		sc.Conns = append(sc.Conns, ConnCfg{ID: "B", Port: "batch", Proto: "bin"}, ConnCfg{ID: "T", Port: "batch", Proto: "text"})
	}
	now := time.Now().Unix()
	for i := 0; i < o.Steps; i++ {
		if o.Evict > 0 && cfg.Orca == "l1l2" && g.r.Float64() < o.Evict {
			// (only a cache in front of L2 may lose entries: in L1-only mode L1 is the store of record)
			// lose a random subset of the key alphabet (sometimes all of it)
			var ks [][]byte
			switch g.r.Intn(5) {
			case 0:
				for _, k := range keyAlphabet {
					ks = append(ks, []byte(k))
				}
			case 1:
				ks = append(ks, g.Key(), g.Key(), g.Key())
			default:
				ks = append(ks, g.Key())
			}
			for _, key := range ks {
				if cfg.L1 == "chunked" {
					// evict an arbitrary backend entry of the key: its metadata or one of its chunks
					if g.r.Intn(2) == 0 {
						key = append(append([]byte{}, key...), []byte("-meta")...)
					} else {
						key = append(append([]byte{}, key...), []byte(fmt.Sprintf("-%d", g.r.Intn(3)))...)
					}
				}
				sc.Steps = append(sc.Steps, Step{Kind: "evict", Tier: "L1", Key: key})
			}
		}
		if o.Advance > 0 && (cfg.L1 != "chunked" || o.AdvChunk) && cfg.L1 != "inmem" && g.r.Float64() < o.Advance {
			secs := int64(1 + g.r.Intn(4))
			if g.r.Intn(4) == 0 {
				secs = int64(100 + g.r.Intn(200000))
			}
			sc.Steps = append(sc.Steps, Step{Kind: "advance", Secs: secs})
			now += secs
		}
		c := sc.Conns[g.r.Intn(len(sc.Conns))]
		sc.Steps = append(sc.Steps, Step{Kind: "feed", Conn: c.ID, Cmd: g.Command(c.Proto, now, o.MaxChunks)})
	}
	return sc
}

func describeScenario(sc Scenario) map[string]interface{} {
	var steps []string
	for _, s := range sc.Steps {
		switch s.Kind {
		case "feed":
			steps = append(steps, s.Conn+": "+s.Cmd.Describe())
		case "advance":
			steps = append(steps, fmt.Sprintf("advance %ds", s.Secs))
		case "sleep":
			steps = append(steps, fmt.Sprintf("sleep %ds (real time)", s.Secs))
		case "fault":
			steps = append(steps, "fault "+s.Fault.String())
		default:
			steps = append(steps, fmt.Sprintf("%s %s %s", s.Kind, s.Tier, s.Key))
		}
	}
	return map[string]interface{}{"id": sc.ID, "stack": sc.Stack.String(), "steps": steps}
}

func countDistribution(rep *Report, sc Scenario) {
	for _, s := range sc.Steps {
		if s.Kind != "feed" {
			rep.Distribution["step:"+s.Kind]++
			continue
		}
		rep.Distribution["cmd:"+s.Cmd.Kind]++
		switch s.Cmd.Kind {
		case "set", "add", "replace":
			p := 1184 - 71 - len(s.Cmd.Key) - 16
			rep.Distribution[fmt.Sprintf("chunks:%d", (len(s.Cmd.Data)+p-1)/p)]++
			switch {
			case s.Cmd.Exptime == 0:
				rep.Distribution["ttl:0"]++
			case s.Cmd.Exptime <= 2592000:
				rep.Distribution["ttl:relative"]++
			case int64(s.Cmd.Exptime) > time.Now().Unix():
				rep.Distribution["ttl:absolute-future"]++
			default:
				rep.Distribution["ttl:absolute-past"]++
			}
		case "get", "gete":
			rep.Distribution[fmt.Sprintf("%skeys:%d", s.Cmd.Kind, len(s.Cmd.Keys))]++
		}
	}
}

// runSequences is shared by C01 / C02 / C08 / C09: generated sequences on every configuration.
func runSequences(rep *Report, tier string, seed int64, perCfg int, o seqOpts, after func(sc Scenario, obs []StepObs)) {
	d := StartDriver()
	defer d.Close()
	distinct := map[string]bool{}
	for ci, cfg := range append(fullStackConfigs(tier), o.ExtraCfgs...) {
		if o.TwoTier && cfg.Orca != "l1l2" {
			continue
		}
		var directed []Scenario
		if o.Directed && cfg.Orca == "l1l2" {
			directed = mixedTierGets(cfg, fmt.Sprintf("%s-%d-mixed", rep.Property, ci))
			directed = append(directed, hotKeyWrites(cfg, fmt.Sprintf("%s-%d-hot", rep.Property, ci))...)
		}
		if o.Remnant && cfg.Orca == "l1l2" && cfg.L1 == "chunked" {
			directed = append(directed, remnantAdd(cfg, fmt.Sprintf("%s-%d-remnant-add", rep.Property, ci)))
		}
		for n := -len(directed); n < perCfg; n++ {
			var sc Scenario
			if n < 0 {
				sc = directed[n+len(directed)]
			} else {
				g := &Gen{r: rand.New(rand.NewSource(seed*1000003 + int64(ci)*7919 + int64(n))), getE: o.GetE}
				sc = genSequence(g, fmt.Sprintf("%s-%d-%d", rep.Property, ci, n), cfg, o)
			}
			sc.Probe = o.Probe
			var out Outcome
			for attempt := 0; attempt < 3; attempt++ {
				out = RunScenarioO(d, sc, 3*time.Second, true)
				if !out.Tainted {
					break
				}
				rep.Tainted++
			}
			if out.Tainted {
				continue
			}
			div, obs := out.Div, out.Obs
			rep.Evaluations++
			countDistribution(rep, sc)
			// non-trivial: at least one reply carried a value
			sig := fmt.Sprintf("%s/%d", cfg, n)
			hits := 0
			for _, ob := range obs {
				if len(ob.Out) > 60 {
					hits++
				}
			}
			if hits > 0 {
				distinct[sig] = true
			}
			if len(rep.Samples) < 3 {
				rep.Samples = append(rep.Samples, describeScenario(sc))
			}
			for _, m := range out.Misses {
				rep.Violations = append(rep.Violations, Violation{
					What:      fmt.Sprintf("reply differs from the single-map specification at step %d (%s): %s", m.Step, out.Descs[m.Step], m.Verdict),
					Signature: classifyMiss(sc, m.Step, obs),
					Replay:    map[string]interface{}{"scenario": describeScenario(sc), "step": m.Step, "driver_script": out.Script, "impl_reply": canonN(4096, obs[m.Step].Out)},
				})
			}
			for _, v := range out.Probed {
				if m, ok := v.Replay.(map[string]interface{}); ok {
					m["scenario"] = describeScenario(sc)
					m["driver_script"] = out.Script
				}
				rep.Violations = append(rep.Violations, v)
			}
			if div != nil {
				rep.Divergences = append(rep.Divergences, div)
				if enoughDivergences(rep, 4) {
					rep.Distinct = len(distinct)
					return
				}
				continue
			}
			rep.Validated++
			if after != nil {
				after(sc, obs)
			}
		}
	}
	rep.Distinct = len(distinct)
}

// mixedTierGets: multi-key gets whose keys are spread over the tiers — `a` held by L1 and L2, `b` by
// L2 only (lost in L1 before every get), `c` nowhere — in every order, with the quiet patterns of
// a binary batch, on a binary and a text connection of the main port and a binary connection of
// the batch port. (A get of the main port puts `b` back into L1: it is lost again before the next.)
func mixedTierGets(cfg StackCfg, id string) []Scenario {
	sc := Scenario{ID: id, Stack: cfg}
	sc.Conns = []ConnCfg{{ID: "m", Port: "main", Proto: "bin"}, {ID: "t", Port: "main", Proto: "text"}, {ID: "B", Port: "batch", Proto: "bin"}}
	feed := func(conn string, c Command) { sc.Steps = append(sc.Steps, Step{Kind: "feed", Conn: conn, Cmd: c}) }
	feed("m", Command{Kind: "set", Key: []byte("a"), Flags: 3, Data: []byte("value-of-a"), Opaque: 1})
	feed("m", Command{Kind: "set", Key: []byte("b"), Flags: 4, Data: []byte("value-of-b"), Opaque: 2})
	lose := []byte("b")
	if cfg.L1 == "chunked" {
		lose = []byte("b-meta")
	}
	keys := [][]byte{[]byte("a"), []byte("b"), []byte("c")}
	perms := [][3]int{{0, 1, 2}, {0, 2, 1}, {1, 0, 2}, {1, 2, 0}, {2, 0, 1}, {2, 1, 0}}
	opq := uint32(100)
	var out []Scenario
	setup := append([]Step{}, sc.Steps...)
	for pi, pm := range perms {
		for ci, conn := range []string{"m", "t", "B"} {
			if cfg.L1 == "chunked" && (pi > 0 || ci > 0) {
				// the chunking handler reads the clock: a scenario must fit into one second, so
				// on these stacks every (order, connection) pair is a scenario of its own
				out = append(out, sc)
				sc = Scenario{ID: fmt.Sprintf("%s-%d%s", id, pi, conn), Stack: cfg, Conns: sc.Conns, Steps: append([]Step{}, setup...)}
			}
			sc.Steps = append(sc.Steps, Step{Kind: "evict", Tier: "L1", Key: lose})
			c := Command{Kind: "get"}
			for i, ki := range pm {
				opq++
				gk := GetKey{Key: keys[ki], Opaque: opq}
				if conn != "t" {
					gk.Quiet = i < 2 || pi%2 == 0
				}
				c.Keys = append(c.Keys, gk)
			}
			if conn != "t" && c.Keys[2].Quiet {
				opq++
				c.NoopEnd, c.NoopOpq = true, opq
			}
			feed(conn, c)
			// the same get again, without the harness's trailing no-op: all of its answer must arrive unprompted
			sc.Steps = append(sc.Steps, Step{Kind: "evict", Tier: "L1", Key: lose})
			sc.Steps = append(sc.Steps, Step{Kind: "feed", Conn: conn, Cmd: c, Prompt: true})
		}
	}
	return append(out, sc)
}

// hotKeyWrites: every mutating command on a key that BOTH tiers hold (and on one only L2 holds),
// through each port and protocol, followed by a get of the key on each port — whatever the
// command does to L1 (update, replace-if-present, invalidate), the next reads must be the single
// map's.
func hotKeyWrites(cfg StackCfg, id string) []Scenario {
	var out []Scenario
	kinds := []string{"set", "add", "replace", "append", "prepend", "delete", "touch", "gat"}
	for wi, wconn := range []string{"m", "t", "B"} {
		sc := Scenario{ID: fmt.Sprintf("%s-%s", id, wconn), Stack: cfg}
		sc.Conns = []ConnCfg{{ID: "m", Port: "main", Proto: "bin"}, {ID: "t", Port: "main", Proto: "text"}, {ID: "B", Port: "batch", Proto: "bin"}}
		feed := func(conn string, c Command) { sc.Steps = append(sc.Steps, Step{Kind: "feed", Conn: conn, Cmd: c}) }
		opq := uint32(1000 * (wi + 1))
		for ki, kind := range kinds {
			if kind == "gat" && wconn == "t" {
				continue
			}
			for _, hot := range []bool{true, false} {
				opq++
				k := []byte(fmt.Sprintf("h%d%v", ki, hot))
				feed("m", Command{Kind: "set", Key: k, Flags: 9, Data: []byte("-mid-"), Opaque: opq})
				if hot {
					feed("m", Command{Kind: "get", Keys: []GetKey{{Key: k, Opaque: opq}}})
				} else {
					lose := k
					if cfg.L1 == "chunked" {
						lose = append(append([]byte{}, k...), []byte("-meta")...)
					}
					sc.Steps = append(sc.Steps, Step{Kind: "evict", Tier: "L1", Key: lose})
				}
				c := Command{Kind: kind, Key: k, Flags: 5, Exptime: 0, Data: []byte("NEW"), Opaque: opq}
				if kind == "touch" || kind == "gat" {
					c.Exptime = 500
				}
				feed(wconn, c)
				feed("B", Command{Kind: "get", Keys: []GetKey{{Key: k, Opaque: opq}}})
				feed("t", Command{Kind: "get", Keys: []GetKey{{Key: k, Opaque: opq}}})
				feed("m", Command{Kind: "get", Keys: []GetKey{{Key: k, Opaque: opq}}})
			}
		}
		out = append(out, sc)
	}
	return out
}

func init() {
	checks["C01"] = func(rep *Report, tier string, seed int64) {
		per, steps := 12, 25
		if tier == "thorough" {
			per, steps = 60, 40
		}
		rep.Rule = "seeded random command sequences (9 data commands, multi-key and quiet gets, 6-key alphabet, value lengths dense around chunk boundaries, TTL alphabet) on every stack configuration (plus, on every two-tier configuration, directed multi-key gets whose keys are spread over the tiers — held by both, by L2 only, by neither — in every order and quiet pattern on both ports and protocols), one command in flight at a time over text/binary x main/batch connections; each step compares reply bytes, both backend request traces and both backend contents with the Lean model; a case is non-trivial when at least one reply carried a value; distinct = distinct (configuration, sequence) pairs"
		runSequences(rep, tier, seed, per, seqOpts{Steps: steps, MaxChunks: 3, GetE: true, Directed: true}, nil)
	}
}

// classifyMiss gives an oracle failure a signature that identifies the failing input shape; the
// `check` script matches it against known_findings.jsonl.
func classifyMiss(sc Scenario, step int, obs []StepObs) string {
	s := sc.Steps[step]
	proto := ""
	for _, c := range sc.Conns {
		if c.ID == s.Conn {
			proto = c.Proto
		}
	}
	if s.Cmd.Kind == "get" && proto == "text" && sc.Stack.Locked != "none" && len(s.Cmd.Keys) >= 2 {
		// the reply with all but the last END removed
		out := string(obs[step].Out)
		if strings.Count(out, "END\r\n") == len(s.Cmd.Keys) {
			return "locked-text-multiget-one-END-per-key"
		}
	}
	if s.Cmd.Kind == "add" && sc.Stack.Orca == "l1l2" && sc.Stack.L1 == "chunked" && addRefused(proto, obs[step].Out) {
		// an `add` refused although the single map does not hold the key, after L1 lost a CHUNK
		// entry of that key (not its metadata entry): the metadata that stayed behind answers
		// "exists" to the L1 leg of the add (finding D23)
		for j := 0; j < step; j++ {
			e := sc.Steps[j]
			if (e.Kind == "evict" || e.Kind == "drop") && e.Tier != "L2" && strings.HasPrefix(string(e.Key), string(s.Cmd.Key)+"-") &&
				string(e.Key) != string(s.Cmd.Key)+"-meta" {
				return "chunked-l1-remnant-blocks-add"
			}
		}
	}
	return fmt.Sprintf("spec-mismatch:%s:%s:%s", sc.Stack, proto, s.Cmd.Kind)
}

// addRefused: the reply to an add says "not stored" / key exists.
func addRefused(proto string, out []byte) bool {
	if proto == "text" {
		return strings.HasPrefix(string(out), "NOT_STORED")
	}
	return len(out) >= 8 && out[0] == 0x81 && out[6] == 0 && out[7] == 2
}

// remnantAdd: the history of finding D23 — a value of three chunks, L1 loses one chunk entry, the
// key's lifetime is ended by a touch with a date in the past (L2 drops it; the chunking handler
// cannot touch the torn L1 copy and leaves its metadata entry alive), then an add.
func remnantAdd(cfg StackCfg, id string) Scenario {
	sc := Scenario{ID: id, Stack: cfg}
	sc.Conns = []ConnCfg{{ID: "t", Port: "main", Proto: "text"}, {ID: "b", Port: "main", Proto: "bin"}}
	k := []byte("rk")
	feed := func(conn string, c Command) { sc.Steps = append(sc.Steps, Step{Kind: "feed", Conn: conn, Cmd: c}) }
	feed("b", Command{Kind: "set", Key: k, Flags: 1, Data: bytes.Repeat([]byte{'v'}, 2300), Opaque: 1})
	sc.Steps = append(sc.Steps, Step{Kind: "evict", Tier: "L1", Key: []byte("rk-1")})
	feed("t", Command{Kind: "touch", Key: k, Exptime: uint32(time.Now().Unix() - 100), Opaque: 2})
	feed("b", Command{Kind: "get", Keys: []GetKey{{Key: k, Opaque: 3}}})
	feed("t", Command{Kind: "add", Key: k, Flags: 2, Data: []byte("new"), Opaque: 4})
	feed("b", Command{Kind: "get", Keys: []GetKey{{Key: k, Opaque: 5}}})
	return sc
}
